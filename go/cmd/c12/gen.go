package main

import (
	"fmt"
	"strings"

	"github.com/Ptt-official-app/go-pttbbs/ptttype"
	"verifharness/internal/hx"
)

// ---- the fixed cast ---------------------------------------------------------------------------

var stdUsers = []string{"SYSOP", "brdman", "grpop", "plain", "modA", "modB", "ab", "cd", "ef", "gh", "ij",
	"Moderator001", "Moderator002", "Moderator003", "other", "xyz", "guest"}

// the UserLevel column of .PASSWDS (bbs.CreateBoard reads the caller's level there)
func userLevels() []uint32 {
	out := make([]uint32, len(stdUsers))
	for i, u := range stdUsers {
		out[i] = lvBasic
		for _, c := range callers {
			if c.id == u {
				out[i] = c.level
			}
		}
		if u == "guest" {
			out[i] = lvBoard // overridden by InitCurrentUser
		}
	}
	return out
}

func uidOf(name string) int32 {
	for i, u := range stdUsers {
		if u == name {
			return int32(i + 1)
		}
	}
	return 0
}

const (
	lvBasic = uint32(ptttype.PERM_BASIC | ptttype.PERM_LOGINOK)
	lvSysop = lvBasic | uint32(ptttype.PERM_SYSOP|ptttype.PERM_BOARD|ptttype.PERM_BM)
	lvBoard = lvBasic | uint32(ptttype.PERM_BOARD)
	lvGroup = lvBasic | uint32(ptttype.PERM_BM)
)

type caller struct {
	id    string
	level uint32
}

var callers = []caller{{"SYSOP", lvSysop}, {"brdman", lvBoard}, {"grpop", lvGroup}, {"plain", lvBasic}, {"modA", lvGroup}}

const (
	aHide  = uint32(ptttype.BRD_HIDE)
	aMask  = uint32(ptttype.BRD_POSTMASK)
	aGroup = uint32(ptttype.BRD_GROUPBOARD)
	aCplog = uint32(ptttype.BRD_CPLOG)
)

func allLetters() []byte {
	var b []byte
	for c := byte('A'); c <= 'Z'; c++ {
		b = append(b, c, c+32)
	}
	return b
}

func usersBytes() [][]byte {
	out := make([][]byte, len(stdUsers))
	for i, u := range stdUsers {
		out[i] = []byte(u)
	}
	return out
}

// names of the request pool: the property's quantifier over candidate names
var poolNames = []string{
	"Alpha", "b2", "Zed-9.x_", "abcdefghijkl", "a.b", "x_y", // valid
	"a", "abcdefghijklm", "1abc", "_ab", "-ab", ".ab", "ab/../cd", "a/b", "..", "ab cd", "ab\xe9", "ab\x7f", "", // malformed
	"ab\x00cd", "\x00abc", // NUL inside: the C string is "ab" (valid) / empty
	"Brd002", "BRD002", "brd002", "ClassA", "classa", // existing names and their case variants
	"ALPHA", "alpha", // case variants of a name the history may create
}

func poolBytes() [][]byte {
	out := make([][]byte, len(poolNames))
	for i, n := range poolNames {
		out[i] = []byte(n)
	}
	return out
}

// ---- tables -------------------------------------------------------------------------------------

func title(cls, sym, text string) []byte { return []byte(cls + " " + sym + text) }

// mkTable: n slots; slot 0 is the group board "ClassA" (moderator grpop), slot 1 "ClassB" (modA/modB), the rest
// ordinary boards "Brd%03d" in mixed case.  vac lists vacated slots (name zeroed, the other fields stay).
func mkTable(r *hx.Rand, n int, vac []int, junk bool) []*slotSpec {
	out := make([]*slotSpec, n)
	for i := 0; i < n; i++ {
		s := &slotSpec{junk: junk}
		switch {
		case i == 0:
			s.name, s.title, s.bm, s.attr, s.gid = []byte("ClassA"), title("CLSA", "\xa3\x55", "group A"), []byte("grpop"), aGroup, 1
		case i == 1:
			s.name, s.title, s.bm, s.attr, s.gid = []byte("ClassB"), title("CLSB", "\xa3\x55", "group B"), []byte("modA/modB"), aGroup, 1
		default:
			nm := fmt.Sprintf("Brd%03d", i)
			switch i % 4 {
			case 1:
				nm = strings.ToUpper(nm)
			case 3:
				nm = strings.ToLower(nm)
			}
			s.name = []byte(nm)
			s.title = title([]string{"Abcd", "CLSA", "zz", "Abcd"}[i%4], "\xa1\xb7", fmt.Sprintf("board %d", i))
			if i%3 == 0 {
				s.bm = []byte("modB")
			}
			s.attr = []uint32{aCplog, aCplog | aHide, aCplog | aMask, 0}[i%4]
			s.level = []uint32{0, uint32(ptttype.PERM_BM), 0}[i%3]
			s.gid = uint32(1 + i%2)
			s.chess = uint32(i % 3)
		}
		out[i] = s
	}
	for _, v := range vac {
		if v < n {
			if r != nil && r.Intn(3) == 0 {
				out[v].name = append([]byte{0}, out[v].name[1:]...) // "\0ld-name": junk after the NUL
			} else {
				out[v].name = nil
			}
		}
	}
	return out
}

type histOpt struct {
	letters []byte
	dirs    [][]byte
	tail    int
}

// classFor: a parent that is an existing group board of mkTable (slot 0 or 1), avoiding vacated ones.
func classFor(n int, vac []int) int32 {
	isVac := func(k int) bool {
		for _, v := range vac {
			if v == k {
				return true
			}
		}
		return false
	}
	if n > 0 && !isVac(0) {
		return 1
	}
	if n > 1 && !isVac(1) {
		return 2
	}
	return 1
}

var histSeed uint64

func resetFor(slots []*slotSpec, o histOpt) string {
	histSeed++
	if o.letters == nil {
		o.letters = allLetters()
	}
	rs := &resetSpec{users: usersBytes(), levels: userLevels(), letters: o.letters, dirs: o.dirs, pool: poolBytes(), seed: histSeed, tail: o.tail, slots: slots}
	return rs.line()
}

func baseReq(c caller, cls int32, name string) *request {
	return &request{user: []byte(c.id), ulevel: c.level, uid: uidOf(c.id), cls: cls, name: []byte(name),
		bclass: []byte("CLS "), btitle: []byte("a new board"), bmsNil: true, auto: ptttype.DEFAULT_AUTOCPLOG}
}

func withBMs(q *request, bms string) *request {
	q.bmsNil = false
	q.bms = []byte(bms)
	return q
}

func pickSubset(r *hx.Rand, n, k int) []int {
	seen := map[int]bool{}
	var out []int
	for len(out) < k && len(out) < n {
		v := r.Intn(n)
		if !seen[v] {
			seen[v] = true
			out = append(out, v)
		}
	}
	return out
}

var bmChoices = []string{"", "modA", "modA/modB", "ghost", "modA/ghost/modB", "MODA", "ab/cd/ef/gh", "grpop", "/modA/", "//",
	"Moderator001/Moderator002/Moderator003x", "aaaaaaaaaaaaaaaaaaaaaaaaaaaaaaaaaaaaaaa", "modA\x00junk/modB", "brdman/plain", "plain/ab/modB",
	"ab/cd/ef/gh/ij", "ab/cd/ef/gh/ij/ab/cd/ef/gh/ij/ab/cd/ef", "ab/cd/ef/gh/ij/ab/cd/ef/gh/ij/ab/cd/xyz"}

func randReq(r *hx.Rand, created []string, nTable int, vac []int) *request {
	c := callers[r.Intn(len(callers))]
	if r.Intn(3) == 0 {
		c = callers[0]
	}
	cls := classFor(nTable, vac)
	switch r.Intn(10) {
	case 0:
		cls = 3 - cls
	case 1:
		cls = int32(r.Intn(nTable+2)) + 1
	case 2:
		cls = []int32{0, -1, int32(MAXB), int32(MAXB) + 1, 2147483647, -2147483648}[r.Intn(6)]
	}
	var name string
	switch r.Intn(6) {
	case 0, 1:
		name = poolNames[r.Intn(6)]
	case 2:
		name = poolNames[r.Intn(len(poolNames))]
	case 3:
		if len(created) > 0 {
			name = created[r.Intn(len(created))]
			if r.Bool() {
				name = strings.ToUpper(name)
			}
		} else {
			name = "Alpha"
		}
	default:
		// a fresh valid name
		name = fmt.Sprintf("%c%s%d", "nNqQ"[r.Intn(4)], []string{"ew", "ew-", "_x.", "board"}[r.Intn(4)], r.Intn(40))
	}
	q := baseReq(c, cls, name)
	if r.Intn(2) == 0 {
		withBMs(q, bmChoices[r.Intn(len(bmChoices))])
	}
	switch r.Intn(4) {
	case 0:
		q.attr = []uint32{aHide, aMask, aHide | aMask, aGroup, aCplog, aGroup | aCplog | aMask}[r.Intn(6)]
	case 1:
		q.attr = uint32(r.U64())
	}
	switch r.Intn(4) {
	case 0:
		q.level = uint32(ptttype.PERM_BM)
	case 1:
		q.level = uint32(r.U64())
	}
	q.isGroup = r.Intn(4) == 0
	if r.Intn(3) == 0 {
		q.auto = !q.auto
	}
	q.chess = uint32([]int{0, 1, 2, 3, 255}[r.Intn(5)])
	switch r.Intn(5) {
	case 0:
		q.bclass = [][]byte{{}, []byte("ab"), []byte("abcdefg"), []byte("a\x00b"), []byte("\xa4\xa4\xa4\xe5")}[r.Intn(5)]
	}
	switch r.Intn(5) {
	case 0:
		q.btitle = r.Bytes([]int{0, 1, 41, 42, 43, 60}[r.Intn(6)], []byte("abcXYZ \xa4\xe5\x00"))
	}
	return q
}

func generate() {
	r := run.R
	do("layout")
	do("create 5359534f50 16384 1 1 416c706861 434c5320 74 nil 0 0 0 0 1") // before any reset: ill-formed
	sysop, brdman, grpop := callers[0], callers[1], callers[2]

	// the recorded upstream behaviour, replayed on every run: a hidden board created by a non-sysop
	do(resetFor(mkTable(nil, 3, nil, true), histOpt{}))
	q := baseReq(brdman, 1, "Hidden")
	q.attr = aHide
	do(q.line())

	// ---- E1: every candidate name, once, on a 3-board table -------------------------------------
	for _, n := range poolNames {
		do(resetFor(mkTable(nil, 3, nil, true), histOpt{}))
		do(baseReq(sysop, 1, n).line())
	}
	// ---- E2: one vacated slot at every position, smallest tables first --------------------------
	for n := 1; n <= 6; n++ {
		for v := 0; v < n; v++ {
			do(resetFor(mkTable(nil, n, []int{v}, true), histOpt{}))
			cls := classFor(n, []int{v})
			do(baseReq(sysop, cls, "Alpha").line())
			do(baseReq(sysop, cls, "b2").line())
			do(baseReq(sysop, cls, "alpha").line())
		}
	}
	// ---- E3: callers x parents ----------------------------------------------------------------
	for _, c := range callers {
		for _, cls := range []int32{1, 2, 3, 0, -1, int32(MAXB), int32(MAXB) + 1, 50} {
			do(resetFor(mkTable(nil, 3, nil, true), histOpt{}))
			do(baseReq(c, cls, "Alpha").line())
		}
	}
	// who counts as a moderator of the parent for a creator without PERM_BOARD: the creator's id repeated back to
	// back, overlapping, with a prefix / suffix, alone, and at every position of the moderator string
	modIDs := []string{"ab", "aa", "Kahou"}
	pres := []string{"", "x", "modA/", "9", "modA/x"}
	posts := []string{"", "/modB", "y", "/ab9"}
	if !run.Thorough() {
		pres, posts = pres[:4], posts[:3]
	}
	for _, id := range modIDs {
		for _, pre := range pres {
			for _, post := range posts {
				for _, mid := range []string{id + id, id + id[:1], id + id + id, id, id + "/" + id + id, id + id + "/" + id} {
					bm := pre + mid + post
					if len(bm) > 38 {
						continue
					}
					t := mkTable(nil, 3, nil, true)
					t[0].bm = []byte(bm)
					do(resetFor(t, histOpt{}))
					do(baseReq(caller{id, lvGroup}, 1, "Alpha").line())
				}
			}
		}
	}
	// a vacated parent, a parent beyond BNumber, an ordinary board as parent: refused
	do(resetFor(mkTable(nil, 4, []int{1}, true), histOpt{}))
	for _, c := range []caller{sysop, brdman, {"modA", lvGroup}} {
		do(baseReq(c, 2, "Alpha").line())
		do(baseReq(c, 3, "Alpha").line())
		do(baseReq(c, 5, "Alpha").line())
	}
	do(baseReq(sysop, 1, "Alpha").line())
	// ---- E4: attribute / level rules ------------------------------------------------------------
	for _, c := range []caller{sysop, brdman, grpop} {
		for _, a := range []uint32{0, aHide, aMask, aHide | aMask, aGroup, aCplog, aGroup | aCplog | aMask, 0xffffffff} {
			for _, lv := range []uint32{0, uint32(ptttype.PERM_BM), 0x1234} {
				do(resetFor(mkTable(nil, 3, nil, false), histOpt{}))
				for k, g := range []bool{false, true, false, true} {
					q := baseReq(c, 1, []string{"Alpha", "b2", "x_y", "a.b"}[k])
					q.attr, q.level, q.isGroup = a, lv, g
					q.auto = (k < 2) == ptttype.DEFAULT_AUTOCPLOG // the default configuration first, then the other one
					do(q.line())
				}
			}
		}
	}
	// ---- E5: moderators ---------------------------------------------------------------------------
	for _, b := range bmChoices {
		do(resetFor(mkTable(nil, 3, nil, true), histOpt{}))
		do(withBMs(baseReq(sysop, 1, "Alpha"), b).line())
	}
	{ // the caller among the moderators of a hidden board: no post-mask write
		do(resetFor(mkTable(nil, 3, nil, true), histOpt{}))
		q := withBMs(baseReq(grpop, 1, "Alpha"), "modA/grpop")
		q.attr = aHide
		do(q.line())
		q = withBMs(baseReq(brdman, 1, "b2"), "brdman")
		q.attr = aHide
		do(q.line())
	}
	if fiveModerators {
		do(resetFor(mkTable(nil, 3, nil, true), histOpt{}))
		do(withBMs(baseReq(sysop, 1, "Alpha"), "ab/cd/ef/gh/ij").line())
		do(baseReq(sysop, 1, "b2").line())
	}
	// ---- E5b: ptttype.NewBM on its own (bbs.CreateBoard hands it client-supplied ids) ---------------
	for _, l := range [][]string{{}, {"ab"}, {"ab", "cd"}, {"Moderator001", "Moderator002", "Moderator003"},
		{"Moderator001", "Moderator002", "Moderator003", "Moderator004"}, {"Moderator001", "Moderator002", "Moderator00", "x"},
		{"Moderator001", "Moderator002", "Moderator0", "xy"}, {"abcdefghijklm", "abcdefghijklm", "abcdefghijklm"},
		{"", "", ""}, {"ab", "", "cd"}, {"a\x00b", "cd"},
		{"ab", "cd", "ef", "gh", "ij", "ab", "cd", "ef", "gh", "ij", "ab", "cd", "ef"},
		{"ab", "cd", "ef", "gh", "ij", "ab", "cd", "ef", "gh", "ij", "ab", "cd", "xyz"},
		{"ab", "cd", "ef", "gh", "ij", "ab", "cd", "ef", "gh", "ij", "ab", "cd", "ef", "gh", "ij", "kl"}} {
		ids := make([][]byte, len(l))
		for k, x := range l {
			ids[k] = []byte(x)
		}
		do("newbm " + csvBytes(ids))
	}
	for k := 0; k < 40; k++ {
		n := r.Intn(8)
		ids := make([][]byte, n)
		for j := range ids {
			ids[j] = r.Bytes([]int{0, 1, 2, 5, 12, 13}[r.Intn(6)], []byte("abcXYZ09\x00"))
		}
		do("newbm " + csvBytes(ids))
	}
	// ---- E5c: bbs.CreateBoard (string arguments, the caller's level from .PASSWDS) ---------------------
	bb := func(user string, cls int32, name string, bms ...string) *bbsArgs {
		a := &bbsArgs{userID: []byte(user), cls: cls, name: []byte(name), bclass: []byte("CLS "), btitle: []byte("via bbs"),
			auto: ptttype.DEFAULT_AUTOCPLOG}
		for _, b := range bms {
			a.bms = append(a.bms, []byte(b))
		}
		return a
	}
	for _, u := range []string{"SYSOP", "sysop", "brdman", "grpop", "plain", "guest", "GUEST", "nobody", "1abc", "a", "abcdefghijklm",
		"brdman\x00x", "brd man", "modA"} {
		do(resetFor(mkTable(nil, 3, nil, true), histOpt{}))
		do(bb(u, 1, "Alpha").line())
		do(bb(u, 2, "b2", "modA").line())
	}
	for _, nm := range []string{"Alpha", "abcdefghijkl", "abcdefghijklm", "abcdefghijklmnop", "ab/../cd", "a", "ab\x00cd", "BRD002", ""} {
		do(resetFor(mkTable(nil, 3, nil, true), histOpt{}))
		do(bb("brdman", 1, nm).line())
	}
	for _, l := range [][]string{{"modA"}, {"modA", "ghost", "modB"}, {"MODA", "plain"}, {"Moderator001", "Moderator002", "Moderator003"},
		{"Moderator001", "Moderator002", "Moderator003", "modA"}, {"Moderator001x", "modA"}, {"", "modA"}, {"ab", "cd", "ef", "gh", "ij"},
		{"brdman"}, {"abcdefghijklmnop", "modB"}} {
		do(resetFor(mkTable(nil, 3, []int{2}, true), histOpt{}))
		a := bb("brdman", 1, "Alpha", l...)
		a.attr = aHide
		do(a.line())
		do(bb("SYSOP", 1, "b2", l...).line())
	}
	for _, at := range []uint32{0, aCplog, aCplog | aGroup, aCplog | aHide} { // the configuration the build does not default to
		do(resetFor(mkTable(nil, 3, nil, true), histOpt{}))
		for k, g := range []bool{false, true} {
			a := bb("brdman", 1, []string{"Alpha", "b2"}[k])
			a.attr, a.isGroup, a.auto = at, g, !ptttype.DEFAULT_AUTOCPLOG
			do(a.line())
		}
	}
	{
		do(resetFor(mkTable(nil, MAXB, nil, true), histOpt{}))
		do(bb("brdman", 1, "Alpha").line())
		do(bb("nobody", 1, "Alpha").line())
	}
	// ---- E6: class and title lengths ----------------------------------------------------------------
	for _, cl := range [][]byte{{}, []byte("ab"), []byte("CLS "), []byte("abcdefg"), []byte("a\x00b")} {
		for _, tl := range []int{0, 5, 41, 42, 43, 60} {
			do(resetFor(mkTable(nil, 2, nil, false), histOpt{}))
			q := baseReq(sysop, 1, "Alpha")
			q.bclass = cl
			q.btitle = r.Bytes(tl, []byte("abcXYZ \xa4\xe5"))
			do(q.line())
		}
	}
	// ---- E7: capacity ---------------------------------------------------------------------------
	do(resetFor(mkTable(nil, MAXB, nil, true), histOpt{}))
	do(baseReq(sysop, 1, "Alpha").line())
	do(baseReq(brdman, 1, "Alpha").line())
	do(baseReq(sysop, 1, "ab/../cd").line())
	for _, v := range []int{0, MAXB / 2, MAXB - 1} {
		do(resetFor(mkTable(nil, MAXB, []int{v}, true), histOpt{}))
		do(baseReq(sysop, 2, "Alpha").line())
		do(baseReq(sysop, 2, "b2").line())
	}
	do(resetFor(mkTable(nil, MAXB-1, nil, true), histOpt{}))
	do(baseReq(sysop, 1, "Alpha").line())
	do(baseReq(sysop, 1, "b2").line())
	do(baseReq(sysop, 1, "b2").line())
	// ---- E8: the boards/ tree -------------------------------------------------------------------
	do(resetFor(mkTable(nil, 3, nil, true), histOpt{letters: []byte("BCDbcd")}))
	do(baseReq(sysop, 1, "Alpha").line())
	do(baseReq(sysop, 1, "b2").line())
	do(resetFor(mkTable(nil, 3, []int{2}, true), histOpt{dirs: [][]byte{[]byte("Alpha"), []byte("Brd002")}}))
	do(baseReq(sysop, 1, "Alpha").line())
	do(baseReq(sysop, 1, "alpha").line())
	do(baseReq(sysop, 1, "Brd002").line())
	// ---- E9: several vacated slots ----------------------------------------------------------------
	sizes := []int{5, 12, 13, 14, 30, MAXB}
	rounds := 2
	if run.Thorough() {
		sizes = []int{3, 5, 8, 12, 13, 14, 20, 30, 49, 50, 51, 64, 99, MAXB}
		rounds = 6
	}
	for round := 0; round < rounds; round++ {
		for _, n := range sizes {
			k := 2 + r.Intn(5)
			vac := pickSubset(r, n, k)
			do(resetFor(mkTable(r, n, vac, true), histOpt{}))
			for j, nm := range []string{"Alpha", "b2", "Zed-9.x_", "a.b", "x_y", "abcdefghijkl", "ALPHA"} {
				if j > k {
					break
				}
				do(baseReq(sysop, classFor(n, vac), nm).line())
			}
		}
	}
	// ---- E10: the board cache is being rebuilt by another process (Shm.BBusyState held) ---------------------
	// (a) held for a whole request on a dense table: the request is refused with ErrBusy after its record was
	//     appended; the requests made after the flag is released must be coherent again
	busyTables := []int{3}
	if run.Thorough() {
		busyTables = []int{1, 3, 12, MAXB - 2}
	}
	for _, n := range busyTables {
		do(resetFor(mkTable(nil, n, nil, true), histOpt{}))
		do("busy on")
		do(baseReq(sysop, 1, "Alpha").line())
		do("busy off")
		do(baseReq(sysop, 1, "b2").line())
		do(baseReq(sysop, 1, "ALPHA").line())
		do(baseReq(sysop, 1, "B2").line())
		do(baseReq(brdman, 1, "x_y").line())
	}
	// (b) held for 1.5 s (longer than the wait of the duplicate lookup, shorter than the following one) while a
	//     case variant of an existing name is requested: still a duplicate
	windows := []int{1500}
	if run.Thorough() {
		windows = []int{1300, 1500, 1700}
	}
	for _, ms := range windows {
		do(resetFor(mkTable(nil, 3, nil, true), histOpt{}))
		do(fmt.Sprintf("busy %d", ms))
		do(baseReq(sysop, 1, "BRD002").line())
		do(baseReq(sysop, 1, "Alpha").line())
		do(resetFor(mkTable(nil, 5, []int{3}, true), histOpt{}))
		do(fmt.Sprintf("busy %d", ms))
		do(baseReq(brdman, 1, "classb").line())
		do(baseReq(sysop, 1, "Alpha").line())
	}
	// ---- random histories ---------------------------------------------------------------------------
	nHist, maxLen := 160, 8
	if run.Thorough() {
		nHist, maxLen = 2500, 30
	}
	for h := 0; h < nHist; h++ {
		n := []int{0, 1, 2, 3, 4, 6, 9, 12, 13, 16, 25, 40}[r.Intn(12)]
		if r.Intn(12) == 0 {
			n = []int{MAXB - 2, MAXB - 1, MAXB}[r.Intn(3)]
		}
		var vac []int
		if n > 0 && r.Intn(2) == 0 {
			vac = pickSubset(r, n, 1+r.Intn(4))
		}
		o := histOpt{}
		if r.Intn(10) == 0 {
			o.letters = []byte("ABCNQZabcnqz")
		}
		if r.Intn(10) == 0 {
			o.dirs = [][]byte{[]byte("Alpha"), []byte("b2")}
		}
		do(resetFor(mkTable(r, n, vac, r.Intn(4) != 0), o))
		var created []string
		steps := 1 + r.Intn(maxLen)
		for s := 0; s < steps; s++ {
			q := randReq(r, created, n, vac)
			if r.Intn(4) == 0 { // the same request through bbs.CreateBoard
				a := &bbsArgs{userID: q.user, cls: q.cls, name: q.name, bclass: q.bclass, btitle: q.btitle, attr: q.attr,
					level: q.level, chess: q.chess, isGroup: q.isGroup, auto: q.auto}
				if !q.bmsNil {
					for _, seg := range strings.Split(string(cstrOf(q.bms)), "/") {
						if len(seg) <= 16 {
							a.bms = append(a.bms, []byte(seg))
						}
					}
				}
				do(a.line())
			} else {
				do(q.line())
			}
			created = append(created, string(cstrOf(pad(q.name, 13))))
		}
	}
	// ---- malformed stream ---------------------------------------------------------------------------
	do(resetFor(mkTable(nil, 3, nil, true), histOpt{tail: 100})) // torn tail: recorded, not judged
	do(baseReq(sysop, 1, "Alpha").line())
	do(baseReq(sysop, 1, "b2").line())
	do(resetFor(mkTable(nil, 4, []int{1}, true), histOpt{tail: 255}))
	do(baseReq(sysop, 1, "Alpha").line())
	do(baseReq(sysop, 1, "b2").line())
	do(resetFor(mkTable(nil, MAXB+1, nil, false), histOpt{})) // more records than MAX_BOARD
	do(baseReq(sysop, 1, "Alpha").line())
	do(resetFor(mkTable(nil, MAXB+20, []int{7}, false), histOpt{}))
	do(baseReq(sysop, 1, "Alpha").line())
	do(baseReq(sysop, 1, "b2").line())
	dup := mkTable(nil, 4, nil, false) // duplicate names in the initial table: recorded, not judged
	dup[3].name = []byte("CLASSB")
	do(resetFor(dup, histOpt{}))
	do(baseReq(sysop, 1, "ClassB").line())
	do(baseReq(sysop, 1, "Alpha").line())
	good := baseReq(sysop, 1, "Alpha").line()
	for _, l := range []string{
		"create", "reset", "reset - - - - 1 0 1", "reset - - - - 1 0 0 extra", "frobnicate 1 2",
		good + " 1", strings.Replace(good, " nil ", " NIL ", 1), strings.Replace(good, "create 53", "create 5", 1),
		strings.Replace(good, " 416c706861 ", " 416c7068610000000000000000aa ", 1), // 14-byte name
		"create 5359534f50 4294967296 1 1 416c706861 434c5320 74 nil 0 0 0 0 1",    // level beyond uint32
		"create 5359534f50 16384 1 1 416c706861 434c5320 74 nil 0 0 256 0 1",       // chess beyond a byte
		"create 5359534f50 16384 1 1 416c706861 434c5320 74 nil 0 0 0 2 1", "create 5359534f50 16384 1 1 416c706861 434c5320 74 nil 0 0 0 0 2",
		"create 5359534f50 16384 1 1 416c706861 434c5320 74 nil 0 0 0 0",
		"create 5359534f50 16384 1 2147483648 416c706861 434c5320 74 nil 0 0 0 0 1",
		"reset zz - - - 1 0 0", "reset - - - - 1 256 0", "reset - - - - 1 0 1 c:41:-:-:0:0:0", "reset - - - - 1 0 1 x:41:-:-:0:0:0:0",
		"layout now", "busy", "busy maybe", "busy 12345", "bcreate", "bcreate 6162 1 6162 - - - 0 0 0 0", "bcreate 6162 1 6162 - - zz 0 0 0 0 1", "bcreate 6162 1 6162 - - - 0 0 0 0 x", "newbm", "newbm zz", "newbm 6162 6364",
	} {
		do(l)
	}
	do(good) // the state is still the last well-formed one
}

// fiveModerators: include the request with five existing moderators (cache.ParseBMList indexes uids[4]).
var fiveModerators = true
