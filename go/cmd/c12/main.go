package main

import (
	"bytes"
	"encoding/binary"
	"fmt"
	"os"
	"path/filepath"

	"github.com/Ptt-official-app/go-pttbbs/cache"
	"github.com/Ptt-official-app/go-pttbbs/ptt"
	"github.com/Ptt-official-app/go-pttbbs/ptttype"
	"verifharness/internal/bbsenv"
)

func bid13(s string) *ptttype.BoardID_t { b := &ptttype.BoardID_t{}; copy(b[:], s); return b }

func main() {
	env, err := bbsenv.New(bbsenv.Options{})
	if err != nil {
		panic(err)
	}
	defer env.Close()
	// users
	var ub bytes.Buffer
	mk := func(id string, lvl ptttype.PERM) *ptttype.UserecRaw {
		u := &ptttype.UserecRaw{}
		copy(u.UserID[:], id)
		u.UserLevel = lvl
		binary.Write(&ub, binary.LittleEndian, u)
		return u
	}
	sysop := mk("SYSOP", ptttype.PERM_SYSOP|ptttype.PERM_BOARD|ptttype.PERM_BASIC|ptttype.PERM_LOGINOK)
	brd := mk("brdman", ptttype.PERM_BOARD|ptttype.PERM_BASIC|ptttype.PERM_LOGINOK)
	_ = sysop
	os.WriteFile(ptttype.FN_PASSWD, ub.Bytes(), 0o600)
	// full table
	var bb bytes.Buffer
	for i := 0; i < ptttype.MAX_BOARD; i++ {
		h := &ptttype.BoardHeaderRaw{}
		copy(h.Brdname[:], fmt.Sprintf("brd%03d", i))
		binary.Write(&bb, binary.LittleEndian, h)
	}
	os.WriteFile(ptttype.FN_BOARD, bb.Bytes(), 0o600)
	for c := 'A'; c <= 'Z'; c++ {
		os.MkdirAll(env.Path("boards", string(c)), 0o755)
		os.MkdirAll(env.Path("boards", string(c+32)), 0o755)
	}
	if err := env.ResetSHM(); err != nil {
		panic(err)
	}
	fmt.Println("bnumber", cache.NumBoards())
	s, err := ptt.NewBoard(brd, 2, 1, bid13("Newone"), []byte("CLS "), []byte("title"), nil, 0, 0, 0, false)
	fmt.Println("full:", s, err)
	m, _ := filepath.Glob(env.Path("boards", "N", "*"))
	fmt.Println("dirs:", m)
	s, err = ptt.NewBoard(brd, 2, 1, bid13("Newone"), []byte("CLS "), []byte("title"), nil, 0, 0, 0, false)
	fmt.Println("full again:", s, err)

	// hidden board by PERM_BOARD non-sysop, on table with room
	bb.Reset()
	for i := 0; i < 5; i++ {
		h := &ptttype.BoardHeaderRaw{}
		copy(h.Brdname[:], fmt.Sprintf("brd%03d", i))
		binary.Write(&bb, binary.LittleEndian, h)
	}
	os.WriteFile(ptttype.FN_BOARD, bb.Bytes(), 0o600)
	env.ResetSHM()
	s, err = ptt.NewBoard(brd, 2, 1, bid13("Hidden"), []byte("CLS "), []byte("title"), nil, ptttype.BRD_HIDE, 0, 0, false)
	fmt.Println("hidden:", s, err)
	f, _ := os.ReadFile(ptttype.FN_BOARD)
	fmt.Printf("file attr % x  cache attr %08x  file len %d\n", f[5*256+104:5*256+108], uint32(cache.Shm.Shm.BCache[5].BrdAttr), len(f))
}
