// c12: correspondence harness and property oracle for board creation (property C12).
//
// It drives the REAL ptt.NewBoard on a private BBSHOME and a private SysV segment.  Every history starts with a
// `reset` line that writes a real .BRD (256-byte headers + optional torn tail), a real .PASSWDS (the user table
// SanitizeBMs / ParseBMList resolve moderators in), the boards/<c>[/<name>] directories, zeroes the segment and
// runs cache.LoadUHash + cache.ReloadBCache.  After every request it prints the result class and an observation
// of .BRD (changed slots, digest, the record of the touched slot), Shm.BCache (changed slots, digest, the touched
// entry), BMCache, cache.GetBid of every name of the history's pool, BNumber, both BSorted prefixes and the
// listing of boards/*/*; the Lean driver prints the same line from the model.
//
// The property oracle (oracle.go) does not use the model: it keeps the abstract board table in Go, builds the
// expected header with encoding/binary, and byte-compares files and shared memory before/after.
package main

import (
	"bytes"
	"encoding/binary"
	"encoding/hex"
	"errors"
	"fmt"
	"os"
	"sort"
	"strconv"
	"strings"
	"time"
	"unsafe"

	"github.com/Ptt-official-app/go-pttbbs/bbs"
	"github.com/Ptt-official-app/go-pttbbs/cache"
	"github.com/Ptt-official-app/go-pttbbs/ptt"
	"github.com/Ptt-official-app/go-pttbbs/ptttype"
	"verifharness/internal/bbsenv"
	"verifharness/internal/hx"
)

const (
	MAXB  = int(ptttype.MAX_BOARD)
	MAXU  = int(ptttype.MAX_USERS)
	RECSZ = int(ptttype.BOARD_HEADER_RAW_SZ)
)

var (
	offName  = int(unsafe.Offsetof(ptttype.EMPTY_BOARD_HEADER_RAW.Brdname))
	offTitle = int(unsafe.Offsetof(ptttype.EMPTY_BOARD_HEADER_RAW.Title))
	offBM    = int(unsafe.Offsetof(ptttype.EMPTY_BOARD_HEADER_RAW.BM))
	offAttr  = int(unsafe.Offsetof(ptttype.EMPTY_BOARD_HEADER_RAW.BrdAttr))
	offChess = int(unsafe.Offsetof(ptttype.EMPTY_BOARD_HEADER_RAW.ChessCountry))
	offLevel = int(unsafe.Offsetof(ptttype.EMPTY_BOARD_HEADER_RAW.Level))
	offGid   = int(unsafe.Offsetof(ptttype.EMPTY_BOARD_HEADER_RAW.Gid))
	offFC    = int(unsafe.Offsetof(ptttype.EMPTY_BOARD_HEADER_RAW.FirstChild))

	run *hx.Run
	env *bbsenv.Env
)

// ---- token syntax (the Lean driver implements the same rules) -----------------------

func parseNat(s string, maxDigits int) (uint64, bool) {
	if len(s) == 0 || len(s) > maxDigits {
		return 0, false
	}
	for i := 0; i < len(s); i++ {
		if s[i] < '0' || s[i] > '9' {
			return 0, false
		}
	}
	v, err := strconv.ParseUint(s, 10, 64)
	return v, err == nil
}

func parseU32(s string) (uint32, bool) {
	v, ok := parseNat(s, 10)
	if !ok || v > 4294967295 {
		return 0, false
	}
	return uint32(v), true
}

func parseI32(s string) (int32, bool) {
	t := strings.TrimPrefix(s, "-")
	v, ok := parseNat(t, 10)
	if !ok {
		return 0, false
	}
	if strings.HasPrefix(s, "-") {
		if v > 2147483648 {
			return 0, false
		}
		return int32(-int64(v)), true
	}
	if v > 2147483647 {
		return 0, false
	}
	return int32(v), true
}

func parseBytes(s string, maxLen int) ([]byte, bool) {
	if s == "-" {
		return []byte{}, true
	}
	if s == "" {
		return nil, false
	}
	b, err := hex.DecodeString(s)
	if err != nil || len(b) > maxLen {
		return nil, false
	}
	return b, true
}

func parseCsvBytes(s string, maxLen int) ([][]byte, bool) {
	if s == "-" {
		return nil, true
	}
	var out [][]byte
	for _, t := range strings.Split(s, ",") {
		if t == "." {
			out = append(out, []byte{})
			continue
		}
		if t == "-" {
			return nil, false
		}
		b, ok := parseBytes(t, maxLen)
		if !ok {
			return nil, false
		}
		out = append(out, b)
	}
	return out, true
}

// parseUsers: csv of `<hex id>` or `<hex id>=<level>` (`.` = empty slot), `-` = none.
func parseUsers(s string) ([][]byte, []uint32, bool) {
	if s == "-" {
		return nil, nil, true
	}
	var ids [][]byte
	var lv []uint32
	for _, t := range strings.Split(s, ",") {
		if t == "." {
			ids, lv = append(ids, []byte{}), append(lv, 0)
			continue
		}
		p := strings.Split(t, "=")
		if len(p) > 2 || p[0] == "-" {
			return nil, nil, false
		}
		b, ok := parseBytes(p[0], 13)
		if !ok {
			return nil, nil, false
		}
		l := uint32(0)
		if len(p) == 2 {
			if l, ok = parseU32(p[1]); !ok {
				return nil, nil, false
			}
		}
		ids, lv = append(ids, b), append(lv, l)
	}
	return ids, lv, true
}

func csvUsers(ids [][]byte, lv []uint32) string {
	if len(ids) == 0 {
		return "-"
	}
	ss := make([]string, len(ids))
	for i, b := range ids {
		switch {
		case len(b) == 0:
			ss[i] = "."
		case i < len(lv) && lv[i] != 0:
			ss[i] = fmt.Sprintf("%s=%d", hex.EncodeToString(b), lv[i])
		default:
			ss[i] = hex.EncodeToString(b)
		}
	}
	return strings.Join(ss, ",")
}

func csvBytes(bs [][]byte) string {
	if len(bs) == 0 {
		return "-"
	}
	ss := make([]string, len(bs))
	for i, b := range bs {
		if len(b) == 0 {
			ss[i] = "."
		} else {
			ss[i] = hex.EncodeToString(b)
		}
	}
	return strings.Join(ss, ",")
}

// ---- digests ----------------------------------------------------------------------------

const fnvInit = uint64(14695981039346656037)

func fnvStep(h uint64, b byte) uint64 { return (h ^ uint64(b)) * 1099511628211 }

func fnvBytes(h uint64, p []byte) uint64 {
	for _, b := range p {
		h = fnvStep(h, b)
	}
	return h
}

func fnvU64(h uint64, v uint64) uint64 {
	for k := 0; k < 8; k++ {
		h = fnvStep(h, byte(v>>(8*uint(k))))
	}
	return h
}

// digestRecs: FNV over the 8 LE bytes of the FNV of every complete 256-byte record, then over the tail.
func digestRecs(f []byte) string {
	n := len(f) / RECSZ
	h := fnvInit
	for i := 0; i < n; i++ {
		h = fnvU64(h, fnvBytes(fnvInit, f[i*RECSZ:(i+1)*RECSZ]))
	}
	h = fnvBytes(h, f[n*RECSZ:])
	return fmt.Sprintf("%016x", h)
}

func lcgFill(seed uint64, n int) []byte {
	x := seed
	b := make([]byte, n)
	for i := range b {
		x = x*6364136223846793005 + 1442695040888963407
		b[i] = byte(x >> 56)
	}
	return b
}

// ---- reading the implementation's state ------------------------------------------------------

func readBRD() []byte {
	b, err := os.ReadFile(ptttype.FN_BOARD)
	if err != nil {
		return nil
	}
	return b
}

func cacheBytes() []byte {
	const sz = unsafe.Sizeof(cache.Shm.Raw.BCache)
	p := (*[sz]byte)(unsafe.Pointer(&cache.Shm.Shm.BCache))
	out := make([]byte, sz)
	copy(out, p[:])
	return out
}

func bmCacheNow() [][ptttype.MAX_BMs]ptttype.UID {
	out := make([][ptttype.MAX_BMs]ptttype.UID, MAXB)
	for i := range out {
		out[i] = cache.Shm.Shm.BMCache[i]
	}
	return out
}

func sortedNow(by ptttype.BSortBy, n int) []int32 {
	if n < 0 {
		n = 0
	}
	if n > MAXB {
		n = MAXB
	}
	out := make([]int32, n)
	for i := 0; i < n; i++ {
		out[i] = int32(cache.Shm.Shm.BSorted[by][i])
	}
	return out
}

// listDirs: the names of the directories boards/<c>/<name>, bytewise sorted.
func listDirs() [][]byte {
	var out [][]byte
	cs, _ := os.ReadDir(env.Path("boards"))
	for _, c := range cs {
		if !c.IsDir() {
			continue
		}
		ns, _ := os.ReadDir(env.Path("boards", c.Name()))
		for _, n := range ns {
			if n.IsDir() {
				out = append(out, []byte(n.Name()))
			}
		}
	}
	sort.Slice(out, func(i, j int) bool { return bytes.Compare(out[i], out[j]) < 0 })
	return out
}

type snapshot struct {
	brd   []byte
	cache []byte
	bn    int32
	sn    []int32
	sc    []int32
	bmc   [][ptttype.MAX_BMs]ptttype.UID
	dirs  [][]byte
}

func snap() *snapshot {
	bn := cache.Shm.Shm.BNumber
	return &snapshot{brd: readBRD(), cache: cacheBytes(), bn: bn, sn: sortedNow(ptttype.BSORT_BY_NAME, int(bn)),
		sc: sortedNow(ptttype.BSORT_BY_CLASS, int(bn)), bmc: bmCacheNow(), dirs: listDirs()}
}

func changedSlots(old, new []byte) []int {
	n := len(old) / RECSZ
	if m := len(new) / RECSZ; m > n {
		n = m
	}
	rec := func(f []byte, i int) []byte {
		if (i+1)*RECSZ <= len(f) {
			return f[i*RECSZ : (i+1)*RECSZ]
		}
		return nil
	}
	var out []int
	for i := 0; i < n; i++ {
		a, b := rec(old, i), rec(new, i)
		if (a == nil) != (b == nil) || !bytes.Equal(a, b) {
			out = append(out, i)
		}
	}
	return out
}

func csvInts(xs []int) string {
	if len(xs) == 0 {
		return "-"
	}
	ss := make([]string, len(xs))
	for i, x := range xs {
		ss[i] = strconv.Itoa(x)
	}
	return strings.Join(ss, ",")
}

func csvI32(xs []int32) string {
	if len(xs) == 0 {
		return "-"
	}
	ss := make([]string, len(xs))
	for i, x := range xs {
		ss[i] = strconv.Itoa(int(x))
	}
	return strings.Join(ss, ",")
}

var pool [][]byte

func observe(before, now *snapshot, slot int) string {
	rec, cac, bmc := "-", "-", "-"
	if slot >= 0 {
		if (slot+1)*RECSZ <= len(now.brd) {
			rec = hx.Hex(now.brd[slot*RECSZ : (slot+1)*RECSZ])
		}
		if slot < MAXB {
			cac = hx.Hex(now.cache[slot*RECSZ : (slot+1)*RECSZ])
			u := now.bmc[slot]
			ss := make([]string, len(u))
			for i, v := range u {
				ss[i] = strconv.Itoa(int(v))
			}
			bmc = strings.Join(ss, ",")
		}
	}
	idx := make([]string, len(pool))
	for i, p := range pool {
		id := &ptttype.BoardID_t{}
		copy(id[:], p)
		var bid ptttype.Bid
		o := hx.CallSync(func() string { bid, _ = cache.GetBid(id); return "" })
		if o == "PANIC" {
			idx[i] = "PANIC"
		} else {
			idx[i] = strconv.Itoa(int(bid))
		}
	}
	idxs := "-"
	if len(idx) > 0 {
		idxs = strings.Join(idx, ",")
	}
	h := fnvInit
	for _, u := range now.bmc {
		for _, v := range u {
			var b [4]byte
			binary.LittleEndian.PutUint32(b[:], uint32(v))
			h = fnvBytes(h, b[:])
		}
	}
	dirs := "-"
	if len(now.dirs) > 0 {
		ss := make([]string, len(now.dirs))
		for i, d := range now.dirs {
			ss[i] = hx.Hex(d)
		}
		dirs = strings.Join(ss, ",")
	}
	return fmt.Sprintf("bn=%d nrec=%d tail=%d chg=%s cchg=%s brd=%s cached=%s rec=%s cache=%s bmc=%s bmcd=%016x idx=%s sn=%s sc=%s dirs=%s",
		now.bn, len(now.brd)/RECSZ, len(now.brd)%RECSZ, csvInts(changedSlots(before.brd, now.brd)),
		csvInts(changedSlots(before.cache, now.cache)), digestRecs(now.brd), digestRecs(now.cache), rec, cac, bmc, h,
		idxs, csvI32(now.sn), csvI32(now.sc), dirs)
}

// ---- reset ---------------------------------------------------------------------------------

type slotSpec struct {
	junk                    bool
	name, title, bm         []byte
	attr, level, gid, chess uint32
}

func (s *slotSpec) token() string {
	fl := "c"
	if s.junk {
		fl = "j"
	}
	return fmt.Sprintf("%s:%s:%s:%s:%d:%d:%d:%d", fl, hx.Hex(s.name), hx.Hex(s.title), hx.Hex(s.bm), s.attr, s.chess, s.level, s.gid)
}

func parseSlot(tok string) (*slotSpec, bool) {
	p := strings.Split(tok, ":")
	if len(p) != 8 || (p[0] != "c" && p[0] != "j") {
		return nil, false
	}
	nm, ok1 := parseBytes(p[1], 13)
	ti, ok2 := parseBytes(p[2], 49)
	bm, ok3 := parseBytes(p[3], 39)
	at, ok4 := parseU32(p[4])
	ch, ok5 := parseNat(p[5], 3)
	lv, ok6 := parseU32(p[6])
	gd, ok7 := parseU32(p[7])
	if !(ok1 && ok2 && ok3 && ok4 && ok5 && ok6 && ok7) || ch > 255 {
		return nil, false
	}
	return &slotSpec{junk: p[0] == "j", name: nm, title: ti, bm: bm, attr: at, chess: uint32(ch), level: lv, gid: gd}, true
}

func pad(b []byte, n int) []byte {
	out := make([]byte, n)
	copy(out, b)
	return out
}

func (s *slotSpec) image(seed uint64, i int) []byte {
	img := make([]byte, RECSZ)
	if s.junk {
		img = lcgFill(seed+1000003*uint64(i+1), RECSZ)
	}
	copy(img[offName:], pad(s.name, 13))
	copy(img[offTitle:], pad(s.title, 49))
	copy(img[offBM:], pad(s.bm, 39))
	binary.LittleEndian.PutUint32(img[offAttr:], s.attr)
	img[offChess] = byte(s.chess)
	binary.LittleEndian.PutUint32(img[offLevel:], s.level)
	binary.LittleEndian.PutUint32(img[offGid:], s.gid)
	return img
}

type resetSpec struct {
	users   [][]byte
	levels  []uint32
	letters []byte
	dirs    [][]byte
	pool    [][]byte
	seed    uint64
	tail    int
	slots   []*slotSpec
}

func (r *resetSpec) line() string {
	ws := []string{"reset", csvUsers(r.users, r.levels), hx.Hex(r.letters), csvBytes(r.dirs), csvBytes(r.pool),
		strconv.FormatUint(r.seed, 10), strconv.Itoa(r.tail), strconv.Itoa(len(r.slots))}
	for _, s := range r.slots {
		ws = append(ws, s.token())
	}
	return strings.Join(ws, " ")
}

func parseReset(ws []string) (*resetSpec, bool) {
	if len(ws) < 7 {
		return nil, false
	}
	users, levels, ok1 := parseUsers(ws[0])
	letters, ok2 := parseBytes(ws[1], 256)
	dirs, ok3 := parseCsvBytes(ws[2], 13)
	pl, ok4 := parseCsvBytes(ws[3], 13)
	seed, ok5 := parseNat(ws[4], 19)
	tail, ok6 := parseNat(ws[5], 3)
	nrec, ok7 := parseNat(ws[6], 3)
	if !(ok1 && ok2 && ok3 && ok4 && ok5 && ok6 && ok7) || len(users) > MAXU || tail >= 256 || int(nrec) > 2*MAXB ||
		len(ws)-7 != int(nrec) {
		return nil, false
	}
	r := &resetSpec{users: users, levels: levels, letters: letters, dirs: dirs, pool: pl, seed: seed, tail: int(tail)}
	for _, t := range ws[7:] {
		s, ok := parseSlot(t)
		if !ok {
			return nil, false
		}
		r.slots = append(r.slots, s)
	}
	return r, true
}

func must(err error) {
	if err != nil {
		panic(err)
	}
}

func doReset(r *resetSpec) string {
	before := snap()
	// .PASSWDS: MAX_USERS records, the given ids first
	var ub bytes.Buffer
	for i := 0; i < MAXU; i++ {
		u := &ptttype.UserecRaw{}
		if i < len(r.users) {
			copy(u.UserID[:], r.users[i])
			if i < len(r.levels) {
				u.UserLevel = ptttype.PERM(r.levels[i])
			}
		}
		must(binary.Write(&ub, binary.LittleEndian, u))
	}
	must(os.WriteFile(ptttype.FN_PASSWD, ub.Bytes(), 0o600))
	// boards/
	must(os.RemoveAll(env.Path("boards")))
	must(os.MkdirAll(env.Path("boards"), 0o755))
	for _, c := range r.letters {
		must(os.MkdirAll(env.Path("boards", string([]byte{c})), 0o755))
	}
	for _, d := range r.dirs {
		if len(d) == 0 {
			continue
		}
		must(os.MkdirAll(env.Path("boards", string(d[:1]), string(d)), 0o755))
	}
	// .BRD
	var bb bytes.Buffer
	for i, s := range r.slots {
		bb.Write(s.image(r.seed, i))
	}
	bb.Write(lcgFill(r.seed+7, r.tail))
	must(os.WriteFile(ptttype.FN_BOARD, bb.Bytes(), 0o600))
	// shared memory
	busyHeld = false
	cache.Shm.Reset()
	must(cache.LoadUHash())
	cache.ReloadBCache()
	pool = r.pool
	now := snap()
	before.brd = now.brd
	before.cache = make([]byte, len(now.cache)) // the model starts from a zeroed BCache
	P.reset(r, now)
	return "ok " + observe(before, now, -1)
}

// ---- create -----------------------------------------------------------------------------------

type request struct {
	user           []byte
	ulevel         uint32
	uid, cls       int32
	name           []byte
	bclass, btitle []byte
	bms            []byte // nil: nil pointer
	bmsNil         bool
	attr, level    uint32
	chess          uint32
	isGroup        bool
	auto           bool // ptttype.DEFAULT_AUTOCPLOG while the request is served
}

func b01(b bool) string {
	if b {
		return "1"
	}
	return "0"
}

func (q *request) line() string {
	bms := "nil"
	if !q.bmsNil {
		bms = hx.Hex(q.bms)
	}
	g := "0"
	if q.isGroup {
		g = "1"
	}
	return fmt.Sprintf("create %s %d %d %d %s %s %s %s %d %d %d %s %s", hx.Hex(q.user), q.ulevel, q.uid, q.cls, hx.Hex(q.name),
		hx.Hex(q.bclass), hx.Hex(q.btitle), bms, q.attr, q.level, q.chess, g, b01(q.auto))
}

func parseReq(ws []string) (*request, bool) {
	if len(ws) != 13 || (ws[12] != "0" && ws[12] != "1") {
		return nil, false
	}
	q := &request{auto: ws[12] == "1"}
	var ok [11]bool
	q.user, ok[0] = parseBytes(ws[0], 13)
	q.ulevel, ok[1] = parseU32(ws[1])
	q.uid, ok[2] = parseI32(ws[2])
	q.cls, ok[3] = parseI32(ws[3])
	q.name, ok[4] = parseBytes(ws[4], 13)
	q.bclass, ok[5] = parseBytes(ws[5], 64)
	q.btitle, ok[6] = parseBytes(ws[6], 128)
	if ws[7] == "nil" {
		q.bmsNil, ok[7] = true, true
	} else {
		q.bms, ok[7] = parseBytes(ws[7], 39)
	}
	q.attr, ok[8] = parseU32(ws[8])
	q.level, ok[9] = parseU32(ws[9])
	ch, okc := parseNat(ws[10], 3)
	q.chess, ok[10] = uint32(ch), okc && ch <= 255
	for _, o := range ok {
		if !o {
			return nil, false
		}
	}
	if ws[11] != "0" && ws[11] != "1" {
		return nil, false
	}
	q.isGroup = ws[11] == "1"
	return q, true
}

type bbsArgs struct {
	userID         []byte
	cls            int32
	name           []byte
	bclass, btitle []byte
	bms            [][]byte
	attr, level    uint32
	chess          uint32
	isGroup        bool
	auto           bool
}

func (a *bbsArgs) line() string {
	g := "0"
	if a.isGroup {
		g = "1"
	}
	return fmt.Sprintf("bcreate %s %d %s %s %s %s %d %d %d %s %s", hx.Hex(a.userID), a.cls, hx.Hex(a.name), hx.Hex(a.bclass),
		hx.Hex(a.btitle), csvBytes(a.bms), a.attr, a.level, a.chess, g, b01(a.auto))
}

func parseBbs(ws []string) (*bbsArgs, bool) {
	if len(ws) != 11 || (ws[10] != "0" && ws[10] != "1") {
		return nil, false
	}
	a := &bbsArgs{auto: ws[10] == "1"}
	var ok [9]bool
	a.userID, ok[0] = parseBytes(ws[0], 32)
	a.cls, ok[1] = parseI32(ws[1])
	a.name, ok[2] = parseBytes(ws[2], 32)
	a.bclass, ok[3] = parseBytes(ws[3], 64)
	a.btitle, ok[4] = parseBytes(ws[4], 128)
	a.bms, ok[5] = parseCsvBytes(ws[5], 16)
	a.attr, ok[6] = parseU32(ws[6])
	a.level, ok[7] = parseU32(ws[7])
	ch, okc := parseNat(ws[8], 3)
	a.chess, ok[8] = uint32(ch), okc && ch <= 255
	for _, o := range ok {
		if !o {
			return nil, false
		}
	}
	if ws[9] != "0" && ws[9] != "1" {
		return nil, false
	}
	a.isGroup = ws[9] == "1"
	return a, true
}

func errClass(err error) string {
	switch {
	case errors.Is(err, ptttype.ErrInvalidBid):
		return "invalid-bid"
	case errors.Is(err, ptt.ErrNotPermitted):
		return "not-permitted"
	case errors.Is(err, ptttype.ErrInvalidBoardID):
		return "invalid-name"
	case errors.Is(err, ptttype.ErrBoardIDAlreadyExists):
		return "exists"
	case errors.Is(err, ptt.ErrTooManyBoards):
		return "too-many"
	case os.IsExist(err):
		return "mkdir-exist"
	case os.IsNotExist(err):
		return "mkdir-noent"
	default:
		return "io"
	}
}

var haveState bool

// Shm.BBusyState as held by "another process": until `busy off`, or by a goroutine for a given time
var (
	busyHeld bool
	busyDone chan struct{}
)

// exec runs one op line on the real code. Returns the canonical answer, a histogram label and whether the op
// reached the real function.
func exec(i int, line string) (out, label string, nontrivial bool) {
	ws := strings.Fields(line)
	if len(ws) == 0 {
		return "bad-op", "bad-op", false
	}
	switch ws[0] {
	case "layout":
		if len(ws) != 1 {
			return "bad-op", "bad-op", false
		}
		return layoutLine(), "layout", false
	case "reset":
		r, ok := parseReset(ws[1:])
		if !ok {
			return "bad-op", "bad-op", false
		}
		haveState = true
		o := doReset(r)
		return o, "reset:" + P.shape, false
	case "busy":
		if len(ws) != 2 || !haveState {
			return "bad-op", "bad-op", false
		}
		switch ws[1] {
		case "on":
			cache.Shm.Shm.BBusyState = 1
			busyHeld = true
			P.busy = true
		case "off":
			cache.Shm.Shm.BBusyState = 0
			busyHeld = false
			P.busy = false
		default:
			ms, ok := parseNat(ws[1], 4)
			if !ok {
				return "bad-op", "bad-op", false
			}
			cache.Shm.Shm.BBusyState = 1
			busyDone = make(chan struct{})
			go func(d time.Duration, done chan struct{}) {
				time.Sleep(d)
				cache.Shm.Shm.BBusyState = 0
				close(done)
			}(time.Duration(ms)*time.Millisecond, busyDone)
		}
		return "ok", "busy:" + map[bool]string{true: ws[1], false: "timed"}[ws[1] == "on" || ws[1] == "off"], false
	case "newbm":
		if len(ws) != 2 {
			return "bad-op", "bad-op", false
		}
		ids, ok := parseCsvBytes(ws[1], 13)
		if !ok {
			return "bad-op", "bad-op", false
		}
		raw := make([]*ptttype.UserID_t, len(ids))
		for k, id := range ids {
			raw[k] = &ptttype.UserID_t{}
			copy(raw[k][:], id)
		}
		var bm *ptttype.BM_t
		o := hx.CallSync(func() string { bm = ptttype.NewBM(raw); return "" })
		P.judgeNewBM(i, line, ids, o, bm)
		if o != "" {
			return o, "newbm:" + o, true
		}
		return hx.Hex(bm[:]), "newbm", true
	case "bcreate":
		a, ok := parseBbs(ws[1:])
		if !ok || !haveState || busyHeld {
			return "bad-op", "bad-op", false
		}
		before := snap()
		bms := make([]bbs.UUserID, len(a.bms))
		for k, b := range a.bms {
			bms[k] = bbs.UUserID(string(b))
		}
		var sum *bbs.BoardSummary
		var err error
		saved := ptttype.DEFAULT_AUTOCPLOG
		ptttype.DEFAULT_AUTOCPLOG = a.auto
		o := hx.CallT(8*time.Second, func() string {
			sum, err = bbs.CreateBoard(bbs.UUserID(string(a.userID)), ptttype.Bid(a.cls), string(a.name), a.bclass, a.btitle, bms,
				ptttype.BrdAttr(a.attr), ptttype.PERM(a.level), ptttype.ChessCode(a.chess), a.isGroup)
			return ""
		})
		ptttype.DEFAULT_AUTOCPLOG = saved
		res := o
		slot := -1
		switch {
		case o != "":
		case errors.Is(err, bbs.ErrInvalidParams):
			res = "invalid-params"
		case errors.Is(err, ptttype.ErrInvalidUserID):
			res = "invalid-user"
		case err != nil:
			res = errClass(err)
		case sum == nil:
			res = "ok:nil"
		default:
			res = fmt.Sprintf("ok:%d", sum.Bid)
			slot = int(sum.Bid) - 1
		}
		now := snap()
		br := P.judgeBbs(i, line, a, res, slot, before, now)
		cls := res
		if strings.HasPrefix(res, "ok:") {
			cls = "ok"
		}
		return res + " " + observe(before, now, slot), "bcreate:" + cls + ":" + br, true
	case "create":
		q, ok := parseReq(ws[1:])
		if !ok || !haveState {
			return "bad-op", "bad-op", false
		}
		before := snap()
		user := &ptttype.UserecRaw{UserLevel: ptttype.PERM(q.ulevel)}
		copy(user.UserID[:], q.user)
		name := &ptttype.BoardID_t{}
		copy(name[:], q.name)
		var bms *ptttype.BM_t
		if !q.bmsNil {
			bms = &ptttype.BM_t{}
			copy(bms[:], q.bms)
		}
		var sum *ptttype.BoardSummaryRaw
		var err error
		saved := ptttype.DEFAULT_AUTOCPLOG
		ptttype.DEFAULT_AUTOCPLOG = q.auto
		o := hx.CallT(8*time.Second, func() string {
			sum, err = ptt.NewBoard(user, ptttype.UID(q.uid), ptttype.Bid(q.cls), name, q.bclass, q.btitle, bms,
				ptttype.BrdAttr(q.attr), ptttype.PERM(q.level), ptttype.ChessCode(q.chess), q.isGroup)
			return ""
		})
		ptttype.DEFAULT_AUTOCPLOG = saved
		if busyDone != nil { // a timed busy window: observe only once "the other process" has let go
			<-busyDone
			busyDone = nil
		}
		if busyHeld { // the observation (GetBid of the pool) is ours, not the request's: it does not wait on the flag
			cache.Shm.Shm.BBusyState = 0
			defer func() { cache.Shm.Shm.BBusyState = 1 }()
		}
		res := o
		slot := -1
		switch {
		case o != "":
		case err != nil:
			res = errClass(err)
		case sum == nil:
			res = "ok:nil"
		default:
			res = fmt.Sprintf("ok:%d", sum.Bid)
			slot = int(sum.Bid) - 1
		}
		now := snap()
		br := P.judge(i, line, q, res, slot, before, now)
		cls := res
		if strings.HasPrefix(res, "ok:") {
			cls = "ok"
		}
		return res + " " + observe(before, now, slot), "create:" + cls + ":" + br, true
	}
	return "bad-op", "bad-op", false
}

func layoutLine() string {
	f := fmt.Sprintf("Brdname=%d/%d Title=%d/%d BM=%d/%d BrdAttr=%d/%d ChessCountry=%d/%d Level=%d/%d Gid=%d/%d FirstChild=%d/%d",
		offName, unsafe.Sizeof(ptttype.EMPTY_BOARD_HEADER_RAW.Brdname), offTitle, unsafe.Sizeof(ptttype.EMPTY_BOARD_HEADER_RAW.Title),
		offBM, unsafe.Sizeof(ptttype.EMPTY_BOARD_HEADER_RAW.BM), offAttr, unsafe.Sizeof(ptttype.EMPTY_BOARD_HEADER_RAW.BrdAttr),
		offChess, unsafe.Sizeof(ptttype.EMPTY_BOARD_HEADER_RAW.ChessCountry), offLevel, unsafe.Sizeof(ptttype.EMPTY_BOARD_HEADER_RAW.Level),
		offGid, unsafe.Sizeof(ptttype.EMPTY_BOARD_HEADER_RAW.Gid), offFC, unsafe.Sizeof(ptttype.EMPTY_BOARD_HEADER_RAW.FirstChild))
	return fmt.Sprintf("max=%d idlen=%d maxbms=%d maxusers=%d rec=%d %s uidsz=%d group=%d hide=%d postmask=%d cplog=%d basic=%d loginok=%d bm=%d board=%d sysop=%d police=%d policeman=%d autocplog=%v symg=%s symb=%s",
		MAXB, ptttype.IDLEN, ptttype.MAX_BMs, MAXU, RECSZ, f, unsafe.Sizeof(ptttype.UserID_t{}),
		uint32(ptttype.BRD_GROUPBOARD), uint32(ptttype.BRD_HIDE), uint32(ptttype.BRD_POSTMASK), uint32(ptttype.BRD_CPLOG),
		uint32(ptttype.PERM_BASIC), uint32(ptttype.PERM_LOGINOK), uint32(ptttype.PERM_BM), uint32(ptttype.PERM_BOARD),
		uint32(ptttype.PERM_SYSOP), uint32(ptttype.PERM_POLICE), uint32(ptttype.PERM_POLICE_MAN), ptttype.DEFAULT_AUTOCPLOG,
		hx.Hex(ptttype.BRD_SYMBOL_GROUP), hx.Hex(ptttype.BRD_SYMBOL_BOARD))
}

var opCount int

func do(line string) {
	i := opCount
	out, label, nt := exec(i, line)
	if got := run.Op(line, out, label, nt); got != i {
		panic("c12: op index out of step")
	}
	opCount++
}

func main() {
	run = hx.Start("C12")
	defer run.Finish()
	var err error
	env, err = bbsenv.New(bbsenv.Options{})
	if err != nil {
		fmt.Fprintln(os.Stderr, "bbsenv:", err)
		os.Exit(2)
	}
	defer env.Close()
	cache.IsTest = true // Shm.Reset is a no-op otherwise
	run.Rule = "histories `reset; create*` through the real ptt.NewBoard on real .BRD/.PASSWDS/boards files and a private segment. " +
		"tables: dense 0..100, one vacated slot at every position (small n) and at first/middle/last (n=100), several vacated (2..6, n up to 100), full (100, with and without vacated), junk in every unnamed byte; " +
		"names: valid (2 and 12 bytes, with _ - .), 1 and 13 bytes, leading digit/_/-, '/', '..', space, NUL inside, high byte, case variants of existing names, duplicates of existing and of names created earlier in the history; " +
		"callers: sysop, PERM_BOARD, group operator of the parent (listed in its BM string), plain user, group operator of another board; parents: valid group board, 0, -1, MAX+1, vacated, beyond BNumber; " +
		"moderators: nil, empty, existing, missing, other letter case, 4 and 5 existing, over-long segments; attributes/levels from the rule bits and random words; class/title lengths around 4 and 42; missing boards/<c>, left-over directory. " +
		"smallest shapes enumerated first; malformed stream: torn tail, more than MAX_BOARD records, ill-formed op lines. nontrivial = a create line that reached ptt.NewBoard"
	if run.Replay != "" {
		for _, l := range hx.ReplayOps(run.Replay) {
			do(l)
		}
		return
	}
	generate()
}
