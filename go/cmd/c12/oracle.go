package main

// The property oracle P̂ of C12.  It judges what the IMPLEMENTATION did against the property's own reading and
// never looks at the Lean model: the abstract board table is a slice of 256-byte images kept here, the decision
// (accepted / which refusal) is recomputed from the statement (regexp for the name, linear scans for duplicates
// and vacated slots, a split of the parent's moderator string), the expected header is built with
// encoding/binary from a ptttype.BoardHeaderRaw, and files and shared memory are byte-compared before/after.

import (
	"bytes"
	"encoding/binary"
	"fmt"
	"regexp"
	"sort"
	"strings"

	"github.com/Ptt-official-app/go-pttbbs/cache"
	"github.com/Ptt-official-app/go-pttbbs/ptttype"
	"verifharness/internal/hx"
)

var reValidName = regexp.MustCompile(`^[A-Za-z][A-Za-z0-9_.\-]{1,11}$`)
var reValidUser = regexp.MustCompile(`^[A-Za-z][A-Za-z0-9]{1,11}$`)

type oracle struct {
	have    bool
	loose   bool // a request was refused half-way with ErrBusy: later requests are judged by judgeLoose
	busy    bool // Shm.BBusyState is held by "another process": requests are recorded, not judged
	judged  bool
	why     string
	shape   string
	table   [][]byte // one 256-byte image per slot of .BRD
	users   [][]byte // C strings, uid = index+1
	levels  []uint32 // the UserLevel column of .PASSWDS
	letters map[byte]bool
	dirs    map[string]bool
	noted   map[string]bool
}

var P = &oracle{noted: map[string]bool{}}

func cstrOf(b []byte) []byte {
	if i := bytes.IndexByte(b, 0); i >= 0 {
		return b[:i]
	}
	return b
}

func foldASCII(b []byte) []byte {
	out := make([]byte, len(b))
	for i, c := range b {
		if c >= 'A' && c <= 'Z' {
			c += 32
		}
		out[i] = c
	}
	return out
}

func eqFold(a, b []byte) bool { return bytes.Equal(foldASCII(a), foldASCII(b)) }

func nameOf(img []byte) []byte { return cstrOf(img[offName : offName+13]) }

func (p *oracle) vacated() []int {
	var out []int
	for i, r := range p.table {
		if len(nameOf(r)) == 0 {
			out = append(out, i)
		}
	}
	return out
}

func (p *oracle) reset(r *resetSpec, now *snapshot) {
	noted := p.noted
	*p = oracle{have: true, judged: true, letters: map[byte]bool{}, dirs: map[string]bool{}, noted: noted}
	n := len(now.brd) / RECSZ
	for i := 0; i < n; i++ {
		p.table = append(p.table, append([]byte(nil), now.brd[i*RECSZ:(i+1)*RECSZ]...))
	}
	for k, u := range r.users {
		p.users = append(p.users, cstrOf(u))
		l := uint32(0)
		if k < len(r.levels) {
			l = r.levels[k]
		}
		p.levels = append(p.levels, l)
	}
	for _, c := range r.letters {
		p.letters[c] = true
	}
	for _, d := range r.dirs {
		p.dirs[string(d)] = true
	}
	vac := p.vacated()
	switch {
	case r.tail != 0:
		p.judged, p.why, p.shape = false, "torn tail", "torn"
	case n > MAXB:
		p.judged, p.why, p.shape = false, "more than MAX_BOARD records", "oversize"
	case n == 0:
		p.shape = "empty"
	case n == MAXB && len(vac) == 0:
		p.shape = "full"
	case n == MAXB:
		p.shape = fmt.Sprintf("full-vac%d", min(len(vac), 3))
	case len(vac) == 0:
		p.shape = "dense"
	case len(vac) == 1:
		p.shape = "vac1"
	default:
		p.shape = "vacN"
	}
	// the property's tables: occupied names pairwise distinct up to case; the user table holds valid, distinct ids
	seen := map[string]bool{}
	for _, rec := range p.table {
		nm := nameOf(rec)
		if len(nm) == 0 {
			continue
		}
		k := string(foldASCII(nm))
		if seen[k] && p.judged {
			p.judged, p.why, p.shape = false, "duplicate names in the initial table", "dup-table"
		}
		seen[k] = true
	}
	useen := map[string]bool{}
	for _, u := range p.users {
		if len(u) == 0 {
			continue
		}
		k := string(foldASCII(u))
		if (!reValidUser.Match(u) || useen[k]) && p.judged {
			p.judged, p.why, p.shape = false, "user table with invalid or duplicate ids", "odd-users"
		}
		useen[k] = true
	}
}

func (p *oracle) userUID(id []byte) int {
	if len(id) == 0 || len(id) > 12 {
		return 0
	}
	for i, u := range p.users {
		if len(u) > 0 && eqFold(u, id) {
			return i + 1
		}
	}
	return 0
}

type expectation struct {
	class         string // "ok" or the refusal
	img           []byte // expected header (accepted)
	mods          []int  // uids of the requested moderators that exist, in order
	name          []byte // C string of the requested name
	parent        bool   // refused because the parent is vacated / beyond the table / not a group board
	permAmbiguous bool   // a named moderator whose id also occurs inside another moderator\'s id
}

func (p *oracle) decide(q *request) *expectation {
	e := &expectation{}
	if q.cls < 1 || int(q.cls) > MAXB {
		e.class = "invalid-bid"
		return e
	}
	// the parent must be an existing group board: in the table, not vacated, BRD_GROUPBOARD set
	pk := int(q.cls) - 1
	if pk >= len(p.table) || len(nameOf(p.table[pk])) == 0 ||
		binary.LittleEndian.Uint32(p.table[pk][offAttr:])&uint32(ptttype.BRD_GROUPBOARD) == 0 {
		e.class = "invalid-bid"
		e.parent = true
		return e
	}
	parentBM := cstrOf(p.table[pk][offBM : offBM+39])
	// group operator = one of the '/'-separated ids of the parent's moderator string IS the caller's id; an id that
	// merely occurs inside another moderator's id (repeated, overlapping, prefixed, suffixed) does not count
	listed, lookalike := false, false
	me := cstrOf(pad(q.user, 13))
	for _, seg := range bytes.Split(parentBM, []byte{'/'}) {
		if len(me) > 0 && bytes.Equal(seg, me) {
			listed = true
		} else if len(me) > 0 && bytes.Contains(seg, me) {
			lookalike = true
		}
	}
	// is_uBM looks at the first occurrence only: a named moderator whose id also occurs inside another moderator's
	// id may be refused (C07: is_uBM_misses_named) - the refusing direction is recorded, not judged
	e.permAmbiguous = listed && lookalike && q.ulevel&uint32(ptttype.PERM_BOARD) == 0
	if q.ulevel&uint32(ptttype.PERM_BOARD) == 0 && !listed {
		e.class = "not-permitted"
		return e
	}
	name13 := pad(q.name, 13)
	nm := cstrOf(name13)
	e.name = nm
	if !reValidName.Match(nm) {
		e.class = "invalid-name"
		return e
	}
	for _, rec := range p.table {
		if o := nameOf(rec); len(o) > 0 && eqFold(o, nm) {
			e.class = "exists"
			return e
		}
	}
	if !p.letters[nm[0]] {
		e.class = "mkdir-noent"
		return e
	}
	if p.dirs[string(nm)] {
		e.class = "mkdir-exist"
		return e
	}
	if len(p.vacated()) == 0 && len(p.table) >= MAXB {
		e.class = "too-many"
		return e
	}
	e.class = "ok"
	p.buildImage(q, e)
	return e
}

// buildImage: the header the creation rules prescribe for q (e.img, e.mods).
func (p *oracle) buildImage(q *request, e *expectation) {
	name13 := pad(q.name, 13)
	e.name = cstrOf(name13)
	e.mods = nil
	h := &ptttype.BoardHeaderRaw{}
	copy(h.Brdname[:], name13)
	copy(h.Title[0:4], q.bclass)
	h.Title[4] = ' '
	if q.isGroup {
		copy(h.Title[5:7], ptttype.BRD_SYMBOL_GROUP)
	} else {
		copy(h.Title[5:7], ptttype.BRD_SYMBOL_BOARD)
	}
	copy(h.Title[7:], q.btitle)
	if !q.bmsNil {
		// the requested moderators that exist, as typed, as far as they fit into the C string field
		var joined []byte
		for _, seg := range bytes.Split(cstrOf(pad(q.bms, 39)), []byte{'/'}) {
			if uid := p.userUID(seg); uid != 0 {
				add := seg
				if len(e.mods) > 0 {
					add = append([]byte{'/'}, seg...)
				}
				if len(joined)+len(add) > len(h.BM)-1 {
					break
				}
				joined = append(joined, add...)
				e.mods = append(e.mods, uid)
			}
		}
		copy(h.BM[:], joined)
	}
	a := ptttype.BrdAttr(q.attr)
	if q.auto { // the site configuration DEFAULT_AUTOCPLOG in force for this request
		a |= ptttype.BRD_CPLOG
	}
	if q.isGroup {
		a |= ptttype.BRD_GROUPBOARD
		a &^= ptttype.BRD_CPLOG
	} else {
		a &^= ptttype.BRD_GROUPBOARD
	}
	lvl := ptttype.PERM(q.level)
	if q.ulevel&uint32(ptttype.PERM_BOARD) == 0 || a&ptttype.BRD_HIDE != 0 {
		a &^= ptttype.BRD_POSTMASK
		lvl = 0
	}
	h.BrdAttr, h.Level, h.ChessCountry, h.Gid = a, lvl, ptttype.ChessCode(q.chess), ptttype.Bid(q.cls)
	var bb bytes.Buffer
	must(binary.Write(&bb, binary.LittleEndian, h))
	e.img = bb.Bytes()
}

// judgeLoose: after a request was refused with ErrBusy half-way (its record is in .BRD, the shared copy is not
// loaded) the abstract table no longer tells which slot the next board gets; what is still judged is the property
// itself for every later request: an accepted board's .BRD record, shared copy and name-index entry carry ITS
// header, no other record is rewritten, the count equals the number of records, both indexes are sorted; a
// refused one changes nothing.
func (p *oracle) judgeLoose(i int, q *request, res string, slot int, before, now *snapshot) string {
	what := describe(q) + " after a request that was refused while the board cache was busy"
	if res == "PANIC" || res == "TIMEOUT" {
		run.Fail(i, "crash:newboard", fmt.Sprintf("%s: %s (%s)", what, res, hx.LastPanic))
		return "loose:crash"
	}
	if !strings.HasPrefix(res, "ok:") || slot < 0 {
		if d := sideEffects(before, now); len(d) > 0 {
			run.Fail(i, "refused-sideeffect", fmt.Sprintf("%s: refused (%s) but %s", what, res, strings.Join(d, "; ")))
		}
		return "loose:refused"
	}
	e := &expectation{}
	p.buildImage(q, e)
	k := slot
	if got := recAt(now.brd, k); !bytes.Equal(got, e.img) {
		run.Fail(i, "record", fmt.Sprintf("%s: accepted as bid %d, but slot %d of .BRD holds name %q instead of the new header", what, k+1, k, nameSafe(got)))
	}
	for _, j := range changedSlots(before.brd, now.brd) {
		if j != k {
			run.Fail(i, "frame:brd", fmt.Sprintf("%s: accepted as bid %d, but slot %d of .BRD was rewritten", what, k+1, j))
			break
		}
	}
	wantCache := append([]byte(nil), e.img...)
	for x := 0; x < 8; x++ {
		wantCache[offFC+x] = 0
	}
	if k < MAXB {
		gotCache := append([]byte(nil), now.cache[k*RECSZ:(k+1)*RECSZ]...)
		binary.LittleEndian.PutUint32(gotCache[offAttr:], binary.LittleEndian.Uint32(gotCache[offAttr:])&^uint32(ptttype.BRD_POSTMASK)|binary.LittleEndian.Uint32(wantCache[offAttr:])&uint32(ptttype.BRD_POSTMASK))
		if !bytes.Equal(gotCache, wantCache) {
			run.Fail(i, "coherent:cache", fmt.Sprintf("%s: accepted as bid %d; Shm.BCache[%d] carries name %q", what, k+1, k, nameSafe(gotCache)))
		}
	}
	name13 := pad(q.name, 13)
	for _, v := range [][]byte{name13, upperASCII(name13), foldASCII(name13)} {
		if g := getBidOf(v); g != fmt.Sprint(k+1) {
			run.Fail(i, "coherent:index", fmt.Sprintf("%s: accepted as bid %d, but GetBid(%q) = %s", what, k+1, cstrOf(v), g))
			break
		}
	}
	if int(now.bn) != len(now.brd)/RECSZ {
		run.Fail(i, "count", fmt.Sprintf("%s: BNumber = %d, .BRD has %d records", what, now.bn, len(now.brd)/RECSZ))
	}
	cname := func(j int) []byte { return foldASCII(cstrOf(now.cache[j*RECSZ+offName : j*RECSZ+offName+13])) }
	if !sortedOK(now.sn, cname) {
		run.Fail(i, "index:sorted", fmt.Sprintf("%s: BSorted by name is not a sorted permutation: %v", what, now.sn))
	}
	return "loose:accepted"
}

func getBidOf(name []byte) string {
	id := &ptttype.BoardID_t{}
	copy(id[:], name)
	var bid ptttype.Bid
	if hx.CallSync(func() string { bid, _ = cache.GetBid(id); return "" }) == "PANIC" {
		return "PANIC"
	}
	return fmt.Sprint(int(bid))
}

func upperASCII(b []byte) []byte {
	out := make([]byte, len(b))
	for i, c := range b {
		if c >= 'a' && c <= 'z' {
			c -= 32
		}
		out[i] = c
	}
	return out
}

// sideEffects lists what differs between two snapshots.
func sideEffects(before, now *snapshot) []string {
	var d []string
	if !bytes.Equal(before.brd, now.brd) {
		d = append(d, fmt.Sprintf(".BRD changed (slots %s, length %d -> %d)", csvInts(changedSlots(before.brd, now.brd)), len(before.brd), len(now.brd)))
	}
	if !bytes.Equal(before.cache, now.cache) {
		d = append(d, fmt.Sprintf("Shm.BCache changed (slots %s)", csvInts(changedSlots(before.cache, now.cache))))
	}
	if before.bn != now.bn {
		d = append(d, fmt.Sprintf("BNumber %d -> %d", before.bn, now.bn))
	}
	if csvI32(before.sn) != csvI32(now.sn) || csvI32(before.sc) != csvI32(now.sc) {
		d = append(d, "BSorted changed")
	}
	for i := range before.bmc {
		if before.bmc[i] != now.bmc[i] {
			d = append(d, fmt.Sprintf("BMCache[%d] %v -> %v", i, before.bmc[i], now.bmc[i]))
			break
		}
	}
	if csvBytes(before.dirs) != csvBytes(now.dirs) {
		d = append(d, fmt.Sprintf("boards/ listing %s -> %s", dirNames(before.dirs), dirNames(now.dirs)))
	}
	return d
}

func dirNames(ds [][]byte) string {
	ss := make([]string, len(ds))
	for i, d := range ds {
		ss[i] = fmt.Sprintf("%q", d)
	}
	return "[" + strings.Join(ss, " ") + "]"
}

func (p *oracle) note(kind, what string) {
	if !p.noted[kind] {
		p.noted[kind] = true
		run.Note(what)
	}
}

func describe(q *request) string {
	bms := "nil"
	if !q.bmsNil {
		bms = fmt.Sprintf("%q", cstrOf(q.bms))
	}
	return fmt.Sprintf("NewBoard(user %q level %#x uid %d, parent %d, name %q, class %q, title %q, BMs %s, attr %#x, level %#x, chess %d, group %v, DEFAULT_AUTOCPLOG=%v)",
		cstrOf(q.user), q.ulevel, q.uid, q.cls, q.name, q.bclass, q.btitle, bms, q.attr, q.level, q.chess, q.isGroup, q.auto)
}

// sortedOK: idx[:n] is a permutation of 0..n-1 in non-decreasing key order.
func sortedOK(idx []int32, key func(int) []byte) bool {
	seen := make([]bool, len(idx))
	for _, v := range idx {
		if v < 0 || int(v) >= len(idx) || seen[v] {
			return false
		}
		seen[v] = true
	}
	return sort.SliceIsSorted(idx, func(i, j int) bool { return bytes.Compare(key(int(idx[i])), key(int(idx[j]))) < 0 })
}

// judge evaluates the property on what the implementation just did.  Returns a branch label.
func (p *oracle) judge(i int, line string, q *request, res string, slot int, before, now *snapshot) string {
	if !p.have {
		return "nostate"
	}
	if !p.judged {
		return "unjudged"
	}
	if p.busy {
		// the board cache is being rebuilt by someone else for the whole call: what the request answers is not
		// judged; a request that is not accepted leaves the abstract table as it is, and the requests made once
		// the flag is released are judged against it.
		if strings.HasPrefix(res, "ok:") {
			p.judged, p.why = false, "accepted while the cache was busy"
		} else {
			if len(sideEffects(before, now)) > 0 {
				p.loose = true
			}
			p.note("busy-"+res, "busy not judged: "+describe(q)+" answered "+res+" while Shm.BBusyState was held; side effects: "+strings.Join(sideEffects(before, now), "; "))
		}
		return "busy"
	}
	if p.loose {
		return p.judgeLoose(i, q, res, slot, before, now)
	}
	e := p.decide(q)
	what := describe(q) + " on a table of " + fmt.Sprint(len(p.table)) + " slots (vacated: " + csvInts(p.vacated()) + ")"
	if res == "PANIC" || res == "TIMEOUT" {
		key := "crash:newboard"
		if len(e.mods) > int(ptttype.MAX_BMs) {
			key = "crash:parsebmlist"
		}
		run.Fail(i, key, fmt.Sprintf("%s: %s (%s); left behind: %s", what, res, hx.LastPanic, strings.Join(sideEffects(before, now), "; ")))
		p.judged, p.why = false, "crashed"
		return "crash"
	}
	got := res
	if strings.HasPrefix(res, "ok:") {
		got = "ok"
	}
	if e.permAmbiguous && got == "not-permitted" {
		p.note("lookalike-refused", "permission not judged: "+describe(q)+" refused (not-permitted) although the caller is a named moderator of the parent: its id also occurs inside another moderator's id and is_uBM looks at the first occurrence only")
		if d := sideEffects(before, now); len(d) > 0 {
			run.Fail(i, "refused-sideeffect", fmt.Sprintf("%s: refused (%s) but %s", what, res, strings.Join(d, "; ")))
		}
		return "refused:not-permitted:lookalike"
	}
	if e.class != "ok" {
		if got == "ok" {
			key := map[string]string{"invalid-name": "boardid-valid", "exists": "dup-accepted", "not-permitted": "perm-accepted",
				"too-many": "capacity-accepted", "invalid-bid": "parent-accepted", "mkdir-noent": "env-accepted", "mkdir-exist": "env-accepted"}[e.class]
			run.Fail(i, key, fmt.Sprintf("%s: must be refused (%s) but was accepted as %s", what, e.class, res))
			p.judged, p.why = false, "diverged"
			return "wrongly-accepted"
		}
		if got != e.class {
			key := "result:" + e.class
			if e.class == "invalid-name" {
				key = "boardid-valid" // the validator let a malformed name through (it then failed later)
			}
			run.Fail(i, key, fmt.Sprintf("%s: expected refusal %s, got %s", what, e.class, res))
		}
		if d := sideEffects(before, now); len(d) > 0 {
			run.Fail(i, "refused-sideeffect", fmt.Sprintf("%s: refused (%s) but %s", what, res, strings.Join(d, "; ")))
		}
		return "refused:" + e.class
	}
	// ---- the request must be accepted ---------------------------------------------------------
	if got != "ok" || slot < 0 {
		run.Fail(i, "refused-valid", fmt.Sprintf("%s: a valid request was refused: %s", what, res))
		if d := sideEffects(before, now); len(d) > 0 {
			run.Fail(i, "refused-sideeffect", fmt.Sprintf("%s: refused (%s) but %s", what, res, strings.Join(d, "; ")))
		}
		p.judged, p.why = false, "diverged"
		return "wrongly-refused"
	}
	vac := p.vacated()
	path := "append"
	if len(vac) > 0 {
		path = "vacated"
	}
	k := slot
	okSlot := false
	if path == "append" {
		okSlot = k == len(p.table)
	} else {
		for _, v := range vac {
			okSlot = okSlot || v == k
		}
	}
	if !okSlot {
		run.Fail(i, "slot-choice", fmt.Sprintf("%s: returned bid %d, which is neither a vacated slot nor the next free one", what, k+1))
		p.judged, p.why = false, "diverged"
		return "bad-slot"
	}
	// .BRD: slot k carries the prescribed header, every other byte is as before
	newTable := make([][]byte, len(p.table))
	copy(newTable, p.table)
	if k == len(newTable) {
		newTable = append(newTable, e.img)
	} else {
		newTable[k] = e.img
	}
	wantFile := bytes.Join(newTable, nil)
	if !bytes.Equal(now.brd, wantFile) {
		var mine []byte
		if (k+1)*RECSZ <= len(now.brd) {
			mine = now.brd[k*RECSZ : (k+1)*RECSZ]
		}
		if !bytes.Equal(mine, e.img) {
			key := "record"
			if path == "vacated" {
				key = "vacated-slot-record"
			}
			run.Fail(i, key, fmt.Sprintf("%s: accepted as bid %d, but slot %d of .BRD holds name %q instead of the new header (first differing byte %d)",
				what, k+1, k, nameSafe(mine), firstDiff(mine, e.img)))
		}
		for _, j := range changedSlots(bytes.Join(p.table, nil), now.brd) {
			if j != k {
				run.Fail(i, "frame:brd", fmt.Sprintf("%s: accepted as bid %d, but slot %d of .BRD (board %q) was rewritten; file length %d -> %d",
					what, k+1, j, nameSafe(recAt(bytes.Join(p.table, nil), j)), len(before.brd), len(now.brd)))
				break
			}
		}
		if len(now.brd) != len(wantFile) {
			run.Fail(i, "frame:brd", fmt.Sprintf("%s: .BRD length %d, expected %d", what, len(now.brd), len(wantFile)))
		}
		p.judged, p.why = false, "diverged"
		return "accepted:" + path + ":bad-file"
	}
	// shared copy of slot k = the record with FirstChild cleared
	wantCache := append([]byte(nil), e.img...)
	for x := 0; x < 8; x++ {
		wantCache[offFC+x] = 0
	}
	gotCache := now.cache[k*RECSZ : (k+1)*RECSZ]
	hiddenHack := false
	if !bytes.Equal(gotCache, wantCache) {
		// the recorded upstream behaviour: a hidden board created by a caller who is neither sysop nor one of its
		// moderators gets BRD_POSTMASK in the shared copy only
		alt := append([]byte(nil), wantCache...)
		a := binary.LittleEndian.Uint32(alt[offAttr:])
		binary.LittleEndian.PutUint32(alt[offAttr:], a|uint32(ptttype.BRD_POSTMASK))
		callerIsMod := false
		for x, uid := range e.mods {
			if x < int(ptttype.MAX_BMs) && int32(uid) == q.uid {
				callerIsMod = true
			}
		}
		callerIsMod = callerIsMod && q.ulevel&uint32(ptttype.PERM_BASIC) != 0 && q.ulevel&uint32(ptttype.PERM_LOGINOK) != 0
		if a&uint32(ptttype.BRD_HIDE) != 0 && q.ulevel&uint32(ptttype.PERM_SYSOP) == 0 && !callerIsMod && bytes.Equal(gotCache, alt) {
			hiddenHack = true
			run.Fail(i, "coherent:cache:hidden-postmask", fmt.Sprintf("%s: accepted as bid %d; .BRD attr %#x but Shm.BCache[%d].BrdAttr %#x (BRD_POSTMASK ORed into the shared copy by LoadBoardSummary/newBoardStat)",
				what, k+1, a, k, a|uint32(ptttype.BRD_POSTMASK)))
		} else {
			run.Fail(i, "coherent:cache", fmt.Sprintf("%s: accepted as bid %d; Shm.BCache[%d] differs from the record at byte %d (cache name %q)",
				what, k+1, k, firstDiff(gotCache, wantCache), nameSafe(gotCache)))
		}
	}
	for _, j := range changedSlots(before.cache, now.cache) {
		if j != k {
			run.Fail(i, "frame:cache", fmt.Sprintf("%s: accepted as bid %d, but Shm.BCache[%d] changed", what, k+1, j))
			break
		}
	}
	// name index: the new board under its name in any letter case, every other board where it was
	name13 := pad(q.name, 13)
	for _, v := range [][]byte{name13, upperASCII(name13), foldASCII(name13)} {
		if g := getBidOf(v); g != fmt.Sprint(k+1) {
			run.Fail(i, "coherent:index", fmt.Sprintf("%s: accepted as bid %d, but GetBid(%q) = %s", what, k+1, cstrOf(v), g))
			break
		}
	}
	for j, rec := range newTable {
		if nm := nameOf(rec); j != k && len(nm) > 0 {
			if g := getBidOf(rec[offName : offName+13]); g != fmt.Sprint(j+1) {
				run.Fail(i, "coherent:index", fmt.Sprintf("%s: accepted as bid %d; afterwards GetBid(%q) = %s, the board is in slot %d", what, k+1, nm, g, j))
				break
			}
		}
	}
	if int(now.bn) != len(newTable) {
		run.Fail(i, "count", fmt.Sprintf("%s: BNumber = %d, the table has %d slots", what, now.bn, len(newTable)))
	}
	var wantBMC [ptttype.MAX_BMs]ptttype.UID
	for x := range wantBMC {
		wantBMC[x] = -1
		if x < len(e.mods) {
			wantBMC[x] = ptttype.UID(e.mods[x])
		}
	}
	if now.bmc[k] != wantBMC {
		run.Fail(i, "coherent:bmcache", fmt.Sprintf("%s: BMCache[%d] = %v, the existing requested moderators are %v", what, k, now.bmc[k], e.mods))
	}
	cname := func(j int) []byte { return foldASCII(cstrOf(now.cache[j*RECSZ+offName : j*RECSZ+offName+13])) }
	ckey := func(j int) []byte {
		return append(append(append([]byte(nil), cstrOf(now.cache[j*RECSZ+offTitle:j*RECSZ+offTitle+4])...), 0), cname(j)...)
	}
	if !sortedOK(now.sn, cname) || !sortedOK(now.sc, ckey) {
		run.Fail(i, "index:sorted", fmt.Sprintf("%s: BSorted is not a sorted permutation of the %d slots: by name %v, by class %v", what, now.bn, now.sn, now.sc))
	}
	wantDirs := map[string]bool{string(e.name): true}
	for d := range p.dirs {
		wantDirs[d] = true
	}
	gotDirs := map[string]bool{}
	for _, d := range now.dirs {
		gotDirs[string(d)] = true
	}
	if len(gotDirs) != len(wantDirs) || !gotDirs[string(e.name)] {
		run.Fail(i, "dirs", fmt.Sprintf("%s: boards/ listing is %s", what, dirNames(now.dirs)))
	}
	p.table = newTable
	p.dirs[string(e.name)] = true
	if hiddenHack {
		return "accepted:" + path + ":hidden-postmask"
	}
	return "accepted:" + path
}

// judgeNewBM: ptttype.NewBM never crashes and writes the '/'-joined ids, as many (from the front) as fit into the
// C string field.
func (p *oracle) judgeNewBM(i int, line string, ids [][]byte, out string, bm *ptttype.BM_t) {
	if out != "" {
		run.Fail(i, "crash:newbm", fmt.Sprintf("ptttype.NewBM(%s): %s (%s)", dirNames(ids), out, hx.LastPanic))
		return
	}
	var want []byte
	for k, id := range ids {
		add := cstrOf(pad(id, 13))
		if k > 0 {
			add = append([]byte{'/'}, add...)
		}
		if len(want)+len(add) > len(bm)-1 {
			break
		}
		want = append(want, add...)
	}
	if !bytes.Equal(bm[:], pad(want, len(bm))) {
		run.Fail(i, "newbm", fmt.Sprintf("ptttype.NewBM(%s) = %q, expected %q", dirNames(ids), cstrOf(bm[:]), want))
	}
}

// judgeBbs: bbs.CreateBoard = the wrapper's own refusals (caller id not a valid user id; no such user), else
// ptt.NewBoard for that user's .PASSWDS record (SYSOP gets the admin level, guest level 0), the first 13 bytes
// of the name and the '/'-joined moderator ids that fit.
func (p *oracle) judgeBbs(i int, line string, a *bbsArgs, res string, slot int, before, now *snapshot) string {
	if !p.have {
		return "nostate"
	}
	if !p.judged {
		return "unjudged"
	}
	what := fmt.Sprintf("bbs.CreateBoard(user %q, parent %d, name %q, BMs %s)", a.userID, a.cls, a.name, dirNames(a.bms))
	exp := ""
	uid := 0
	me := cstrOf(pad(a.userID, 13)) // the id as a UserID_t reads it
	if !reValidUser.Match(me) {
		exp = "invalid-params"
	} else if uid = p.userUID(me); uid == 0 {
		exp = "invalid-user"
	}
	if exp != "" {
		if res != exp {
			key := "result:" + exp
			if res == "PANIC" || res == "TIMEOUT" {
				key = "crash:createboard"
			}
			run.Fail(i, key, fmt.Sprintf("%s: expected %s, got %s", what, exp, res))
		}
		if d := sideEffects(before, now); len(d) > 0 {
			run.Fail(i, "refused-sideeffect", fmt.Sprintf("%s: refused (%s) but %s", what, res, strings.Join(d, "; ")))
		}
		return "wrapper:" + exp
	}
	lvl := p.levels[uid-1]
	switch string(p.users[uid-1]) {
	case "guest":
		lvl = 0
	case "SYSOP":
		lvl = 0xffff
	}
	var joined []byte
	for k, id := range a.bms {
		add := cstrOf(pad(id, 13))
		if k > 0 {
			add = append([]byte{'/'}, add...)
		}
		if len(joined)+len(add) > 38 {
			break
		}
		joined = append(joined, add...)
	}
	nm := a.name
	if len(nm) > 13 {
		nm = nm[:13]
	}
	q := &request{user: p.users[uid-1], ulevel: lvl, uid: int32(uid), cls: a.cls, name: nm, bclass: a.bclass, btitle: a.btitle,
		bms: joined, attr: a.attr, level: a.level, chess: a.chess, isGroup: a.isGroup, auto: a.auto}
	if (res == "PANIC" || res == "TIMEOUT") && len(bytes.Join(a.bms, []byte{'/'})) > 38 {
		run.Fail(i, "crash:newbm", fmt.Sprintf("%s: %s (%s)", what, res, hx.LastPanic))
		p.judged, p.why = false, "crashed"
		return "crash"
	}
	return p.judge(i, line, q, res, slot, before, now)
}

func recAt(f []byte, j int) []byte {
	if (j+1)*RECSZ <= len(f) {
		return f[j*RECSZ : (j+1)*RECSZ]
	}
	return nil
}

func nameSafe(img []byte) []byte {
	if len(img) < offName+13 {
		return nil
	}
	return nameOf(img)
}

func firstDiff(a, b []byte) int {
	for i := 0; i < len(a) && i < len(b); i++ {
		if a[i] != b[i] {
			return i
		}
	}
	if len(a) != len(b) {
		return min(len(a), len(b))
	}
	return -1
}
