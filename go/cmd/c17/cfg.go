package main

// `cfg` ops: the conversions after types.InitConfig under an ini file that names the two tables, loaded through
// viper the way initgin.InitAllConfig does it. The package loads its maps once per process ("already loaded"
// guard), so every ini variant gets its own child process (`c17 inichild <ini>`), which answers conversion
// lines on a pipe.

import (
	"bufio"
	"fmt"
	"os"
	"os/exec"
	"path/filepath"
	"strings"
	"time"

	"github.com/Ptt-official-app/go-pttbbs/types"
	"github.com/spf13/viper"
	"verifharness/internal/hx"
)

const typesSection = "go-pttbbs:types"

// iniText: variant "d" = the [go-pttbbs:types] section of the shipped docker ini, verbatim, with the
// /etc/go-pttbbs/ paths rewritten to the repository's files; "m" = a minimal ini with the two table keys.
func iniText(variant string) (string, error) {
	repo := repoRoot()
	switch variant {
	case "m":
		return "[" + typesSection + "]\n" +
			"BIG5_TO_UTF8 = " + repo + "/" + defaultB2U + "\n" +
			"UTF8_TO_BIG5 = " + repo + "/" + defaultU2B + "\n", nil
	case "d":
		b, err := os.ReadFile(filepath.Join(repo, "docs", "config", "01-config.docker.ini"))
		if err != nil {
			return "", err
		}
		var out []string
		in := false
		for _, line := range strings.Split(string(b), "\n") {
			t := strings.TrimSpace(line)
			if strings.HasPrefix(t, "[") && strings.HasSuffix(t, "]") {
				in = t == "["+typesSection+"]"
			}
			if in {
				out = append(out, strings.ReplaceAll(line, "/etc/go-pttbbs/", repo+"/types/"))
			}
		}
		if len(out) == 0 {
			return "", fmt.Errorf("no [%s] section in the docker ini", typesSection)
		}
		return strings.Join(out, "\n") + "\n", nil
	}
	return "", fmt.Errorf("unknown ini variant %q", variant)
}

// ---- child ------------------------------------------------------------------------------------------

func iniChild(args []string) {
	quiet()
	w := bufio.NewWriter(os.Stdout)
	defer w.Flush()
	st := "bad-op"
	if len(args) == 1 {
		st = hx.CallT(60*time.Second, func() string {
			// initgin.InitAllConfig: name + type + search path ".", ReadInConfig, then the packages' InitConfig
			dir, file := filepath.Split(args[0])
			if err := os.Chdir(dir); err != nil {
				return "INIT-ERR"
			}
			parts := strings.Split(file, ".")
			viper.SetConfigName(strings.Join(parts[:len(parts)-1], "."))
			viper.SetConfigType(parts[len(parts)-1])
			viper.AddConfigPath(".")
			if err := viper.ReadInConfig(); err != nil {
				return "INIT-ERR"
			}
			if err := types.InitConfig(); err != nil {
				return "INIT-ERR"
			}
			return "ok"
		})
	}
	fmt.Fprintln(w, st) // first line: the outcome of the initialisation
	w.Flush()
	r := bufio.NewReaderSize(os.Stdin, 1<<20)
	for {
		line, err := r.ReadString('\n')
		if line == "" && err != nil {
			return
		}
		ws := strings.Fields(line)
		ans := "bad-op"
		if st != "ok" {
			ans = st
			if st == "PANIC" || st == "TIMEOUT" {
				ans = "INIT-" + st
			}
		} else if len(ws) == 2 && ws[0] == "b2u" {
			s := exact(hx.UnHex(ws[1]))
			ans = hx.Call(func() string { return hx.Hex([]byte(types.Big5ToUtf8(s))) })
		} else if len(ws) == 2 && ws[0] == "u2b" {
			s := string(hx.UnHex(ws[1]))
			ans = hx.Call(func() string { return hx.Hex(types.Utf8ToBig5(s)) })
		}
		fmt.Fprintln(w, ans)
		if r.Buffered() == 0 {
			w.Flush()
		}
		if err != nil {
			return
		}
	}
}

// ---- parent -------------------------------------------------------------------------------------------

type cfgProc struct {
	cmd  *exec.Cmd
	in   *bufio.Writer
	out  *bufio.Reader
	dead string // non-empty: every op is answered with this
}

var cfgProcs = map[string]*cfgProc{}

func cfgStart(variant string) *cfgProc {
	if p, ok := cfgProcs[variant]; ok {
		return p
	}
	p := &cfgProc{}
	cfgProcs[variant] = p
	txt, err := iniText(variant)
	if err != nil {
		p.dead = "child-error"
		return p
	}
	dir := filepath.Join(tmpDir, "cfg-"+variant)
	_ = os.MkdirAll(dir, 0o755)
	ini := filepath.Join(dir, "c17"+variant+".ini")
	if os.WriteFile(ini, []byte(txt), 0o644) != nil {
		p.dead = "child-error"
		return p
	}
	p.cmd = exec.Command(self, "inichild", ini)
	p.cmd.Env = os.Environ()
	stdin, e1 := p.cmd.StdinPipe()
	stdout, e2 := p.cmd.StdoutPipe()
	if e1 != nil || e2 != nil || p.cmd.Start() != nil {
		p.dead = "child-error"
		return p
	}
	p.in = bufio.NewWriterSize(stdin, 1<<20)
	p.out = bufio.NewReaderSize(stdout, 1<<20)
	first, err := p.out.ReadString('\n')
	if err != nil {
		p.dead = "child-error"
	}
	_ = first // the child repeats a failed initialisation as the answer to every op
	return p
}

// cfgBatch sends the inner op lines to the variant's child and returns one answer per line.
func cfgBatch(variant string, inner []string) []string {
	return cfgStart(variant).batch(inner)
}

// batch sends lines to the child and returns one answer per line.
func (p *cfgProc) batch(inner []string) []string {
	ans := make([]string, len(inner))
	if p.dead != "" {
		for i := range ans {
			ans[i] = p.dead
		}
		return ans
	}
	done := make(chan struct{})
	defer func() { <-done }() // the writer must be out of the bufio.Writer before the next batch uses it
	go func() {
		defer close(done)
		for _, l := range inner {
			p.in.WriteString(l)
			p.in.WriteByte('\n')
		}
		p.in.Flush()
	}()
	for i := range ans {
		l, err := p.out.ReadString('\n')
		if err != nil {
			p.dead = "child-error"
			for j := i; j < len(ans); j++ {
				ans[j] = p.dead
			}
			break
		}
		ans[i] = strings.TrimSpace(l)
	}
	return ans
}

func cfgStopAll() {
	for _, p := range cfgProcs {
		if p.cmd != nil && p.cmd.Process != nil {
			_ = p.cmd.Process.Kill()
			_, _ = p.cmd.Process.Wait()
		}
	}
}
