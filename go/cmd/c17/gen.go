package main

import (
	"fmt"
	"sort"
	"strings"
	"unicode"

	"verifharness/internal/hx"
)

func generate() {
	r := run.R
	do("wf", false)

	// ---- the real start-up path in a fresh process: initgin.InitAllConfig, then what it left in BBSNAME_BIG5 --------
	genStarts(r)

	// ---- exhaustive: every string of length 0, 1, 2 through both converters (smallest first) ----------
	do("b2u -", true)
	do("u2b -", true)
	for a := 0; a < 256; a++ {
		do("b2u "+hx.Hex([]byte{byte(a)}), true)
		do("u2b "+hx.Hex([]byte{byte(a)}), true)
	}
	for a := 0; a < 256; a++ {
		for b := 0; b < 256; b++ {
			s := hx.Hex([]byte{byte(a), byte(b)})
			do("b2u "+s, true)
			do("u2b "+s, true)
			if a >= 0x80 {
				do("rt "+s, true) // Big5 -> UTF-8 -> Big5; judged on the codes the tables map to each other
			}
		}
	}
	// ---- exhaustive: every 3-byte (generalised) encoding U+0800..U+FFFF, surrogate rows included -------
	for cp := 0x800; cp <= 0xFFFF; cp++ {
		do("u2b "+hx.Hex(encGen(cp)), true)
	}
	if run.Thorough() {
		// every 3-byte string behind a 3-byte lead, ill-formed second/third bytes included (2^20 strings)
		for a := 0xE0; a <= 0xEF; a++ {
			for b := 0; b < 256; b++ {
				for c := 0; c < 256; c++ {
					if b&0xC0 == 0x80 && c&0xC0 == 0x80 {
						continue // done above
					}
					do("u2b "+hx.Hex([]byte{byte(a), byte(b), byte(c)}), true)
				}
			}
		}
	}
	run.Exhaust = false // the string space is infinite; the finite sweeps above are complete

	// ---- exhaustive, under an ini file that names the tables (child process per ini variant) ------------------
	for _, variant := range []string{"d", "m"} {
		var inner []string
		for a := 0; a < 256; a++ {
			for b := 0; b < 256; b++ {
				inner = append(inner, "b2u "+hx.Hex([]byte{byte(a), byte(b)}))
			}
		}
		for cp := 0x80; cp <= 0xFFFF; cp++ {
			inner = append(inner, "u2b "+hx.Hex(encGen(cp)))
		}
		doCfgSweep(variant, inner)
	}

	// ---- structured strings ------------------------------------------------------------------------
	var mapped, mutual []uint16
	for k := range ref.b2u {
		mapped = append(mapped, k)
		if ref.mutualOnly([]byte{byte(k >> 8), byte(k)}) {
			mutual = append(mutual, k)
		}
	}
	sort.Slice(mapped, func(i, j int) bool { return mapped[i] < mapped[j] })
	sort.Slice(mutual, func(i, j int) bool { return mutual[i] < mutual[j] })
	var cps []int
	for cp := range ref.u2b {
		cps = append(cps, int(cp))
	}
	sort.Ints(cps)
	if len(mapped) == 0 || len(cps) == 0 || len(mutual) == 0 {
		run.Note("a table is empty: structured strings skipped")
		return
	}
	ascii := func() []byte { return []byte{byte(r.Intn(0x80))} }
	big5Unit := func(kind int) []byte {
		switch kind {
		case 0:
			return ascii()
		case 1:
			k := mapped[r.Intn(len(mapped))]
			return []byte{byte(k >> 8), byte(k)}
		case 2:
			k := mutual[r.Intn(len(mutual))]
			return []byte{byte(k >> 8), byte(k)}
		default: // unmapped: a non-ASCII lead with any second byte that has no row
			for {
				k := uint16(0x8000 + r.Intn(0x8000))
				if _, ok := ref.b2u[k]; !ok {
					return []byte{byte(k >> 8), byte(k)}
				}
			}
		}
	}
	utf8Unit := func(kind int) []byte {
		switch kind {
		case 0:
			return ascii()
		case 1: // a table code point (2 or 3 bytes)
			return encGen(cps[r.Intn(len(cps))])
		case 2: // 2-byte
			return encGen(0x80 + r.Intn(0x780))
		case 3: // lone continuation byte
			return []byte{byte(0x80 + r.Intn(0x40))}
		case 4: // 4-byte sequence (U+10000..U+10FFFF)
			cp := 0x10000 + r.Intn(0x100000)
			return []byte{byte(0xF0 + cp>>18), byte(0x80 + cp>>12&0x3F), byte(0x80 + cp>>6&0x3F), byte(0x80 + cp&0x3F)}
		case 5: // leads that never start a sequence
			return []byte{[]byte{0xC0, 0xC1, 0xF5, 0xF8, 0xFC, 0xFE, 0xFF}[r.Intn(7)]}
		case 6: // truncated: a 2-/3-/4-byte lead with fewer continuation bytes than it needs
			lead := []byte{byte(0xC2 + r.Intn(30)), byte(0xE0 + r.Intn(16)), byte(0xF0 + r.Intn(5))}[r.Intn(3)]
			n := 0
			if lead >= 0xE0 {
				n = r.Intn(2)
			}
			if lead >= 0xF0 {
				n = r.Intn(3)
			}
			s := []byte{lead}
			for i := 0; i < n; i++ {
				s = append(s, byte(0x80+r.Intn(0x40)))
			}
			return s
		default: // overlong / surrogate forms
			return [][]byte{{0xE0, 0x80, 0x80}, {0xE0, 0x9F, 0xBF}, {0xED, 0xA0, 0x80}, {0xED, 0xBF, 0xBF}, {0xC0, 0x80}, {0xC1, 0xBF}}[r.Intn(6)]
		}
	}
	cat := func(n int, unit func(int) []byte, kinds []int) []byte {
		var s []byte
		for i := 0; i < n; i++ {
			s = append(s, unit(kinds[r.Intn(len(kinds))])...)
		}
		return s
	}
	nStr := 400
	if run.Thorough() {
		nStr = 20000
	}
	for i := 0; i < nStr; i++ {
		// Big5 side: mixed strings, then every truncation of them
		s := cat(1+r.Intn(8), big5Unit, []int{0, 1, 1, 2, 3})
		for cut := len(s); cut >= 1; cut-- {
			do("b2u "+hx.Hex(s[:cut]), true)
		}
		// round trip on strings of ASCII + mutually mapped codes, and on mixed ones (not judged)
		do("rt "+hx.Hex(cat(1+r.Intn(10), big5Unit, []int{0, 2, 2})), true)
		do("rt "+hx.Hex(s), true)
		// UTF-8 side: well-formed strings with every truncation; then strings with malformed units
		w := cat(1+r.Intn(8), utf8Unit, []int{0, 1, 1, 2})
		for cut := len(w); cut >= 1; cut-- {
			do("u2b "+hx.Hex(w[:cut]), true)
		}
		m := cat(1+r.Intn(8), utf8Unit, []int{0, 1, 2, 3, 4, 5, 6, 7})
		for cut := len(m); cut >= 1; cut-- {
			do("u2b "+hx.Hex(m[:cut]), true)
		}
		do("u2b "+hx.Hex(r.Bytes(1+r.Intn(12), nil)), true)
		do("b2u "+hx.Hex(r.Bytes(1+r.Intn(12), nil)), true)
	}
	// long inputs (the loops are linear; a quadratic or non-advancing scan shows up here)
	for _, n := range []int{1000, 5000} {
		do("b2u "+hx.Hex(cat(n, big5Unit, []int{0, 1, 2, 3})), true)
		do("u2b "+hx.Hex(cat(n, utf8Unit, []int{0, 1, 2, 3, 4, 5, 6, 7})), true)
	}

	// ---- malformed stream: synthetic table files through the real loader (child process) -----------
	nTbl := 40
	if run.Thorough() {
		nTbl = 400
	}
	for i := 0; i < nTbl; i++ {
		fb, probesB, probesU := synthTable(r, i)
		fu, pb2, pu2 := synthTable(r, i+1000)
		do(fmt.Sprintf("tbl %s %s %s %s", hx.Hex(fb), hx.Hex(fu), hx.Hex(append(probesB, pb2...)), hx.Hex(append(pu2, probesU...))), true)
	}
}

// synthTable builds a small table file; the first ones are single-defect files (smallest first),
// later ones mix defects. It returns probe strings that hit the rows it wrote.
func synthTable(r *hx.Rand, i int) (file, probeB, probeU []byte) {
	eol := "\n"
	if r.Intn(2) == 0 {
		eol = "\r\n"
	}
	var b strings.Builder
	if r.Intn(10) != 0 {
		b.WriteString("# big5 unicode" + eol)
	}
	nRows := 1 + r.Intn(6)
	defect := -1
	if i%1000 >= 4 { // the first files of each stream are well-formed
		defect = r.Intn(nRows)
	}
	for k := 0; k < nRows; k++ {
		big5 := 0x8140 + r.Intn(0x7E00)
		cp := []int{0x80 + r.Intn(0x780), 0x800 + r.Intn(0xF800), 0x4E00 + r.Intn(0x5000), r.Intn(0x80), 0xD800 + r.Intn(0x800)}[r.Intn(5)]
		if r.Intn(4) == 0 {
			big5 = 0xA440 + r.Intn(3) // provoke duplicate keys: the last row wins
		}
		f0, f1 := fmt.Sprintf("0x%04X", big5), fmt.Sprintf("0x%04X", cp)
		if r.Intn(5) == 0 {
			f0, f1 = strings.ToLower(f0), strings.ToLower(f1)
		}
		line := f0 + " " + f1
		if k == defect {
			switch r.Intn(16) {
			case 14:
				line = f0 + " " + f1 + " # comment" // an inline comment: four fields, the row is skipped
			case 15:
				line = f0 + " " + f1 + "\t# comment" // behind a tab the comment is part of field 2: odd hex or a 3rd pair
			case 0:
				line = f0 // one field
			case 1:
				line = f0 + " " + f1 + " x" // three fields
			case 2:
				line = "" // empty line
			case 3:
				line = "0 " + f1 // first field shorter than "0x": [2:] panics
			case 4:
				line = f0 + " 0" // second field shorter than "0x"
			case 5:
				line = "0x " + f1 // empty hex: decodes to 00 00 without error
			case 6:
				line = f0[:5] + " " + f1 // odd number of hex digits
			case 7:
				line = f0 + "41 " + f1 // a third hex pair: hex.Decode writes dst[2]
			case 8:
				line = f0 + " " + f1 + "0" // 5 digits: ErrLength before the third pair
			case 9:
				line = f0[:4] + "G" + f0[5:] + " " + f1 // not a hex digit
			case 10:
				line = f0 + "\t " + f1 + " " // TrimSpace trims the tab; the trailing blank makes 3 fields
			case 11:
				line = f0 + "\t " + f1 + "\t" // TrimSpace on both fields
			case 12:
				line = f0 + "  " + f1 // two blanks: three fields
			default:
				line = f0[:4] + " " + f1[:4] // one pair each: the second byte stays 0
			}
		}
		b.WriteString(line)
		if k < nRows-1 || r.Intn(4) != 0 {
			b.WriteString(eol)
		}
		probeB = append(probeB, byte(big5>>8), byte(big5))
		probeU = append(probeU, encGen(cp)...)
	}
	probeB = append(probeB, 'A', byte(big5lead(r)), 0x40)
	probeU = append(probeU, 'z', 0x00)
	return []byte(b.String()), probeB, probeU
}

func big5lead(r *hx.Rand) int { return 0x81 + r.Intn(0x7E) }

// ---- pass "loader": histories of types.InitConfig in one process ------------------------------------------------

func generateLoader() {
	r := run.R
	run.Rule = "histories of the table loader in ONE process (child per history): 1-5 types.InitConfig calls whose two table paths are " +
		"readable or not (missing file, directory), set through the package variables or through an ini file read by viper, with conversions " +
		"after every call. Real tables: failure between the two tables then retry (full sweeps: all 65536 two-byte codes, all 2-/3-byte " +
		"encodings), failure on the first table then retry, retry through a corrected ini, re-initialisation after success; random histories " +
		"over small synthetic well-formed tables. distinct = distinct op lines; nontrivial = every op of a history"
	var b2uSweep, u2bSweep []string
	for a := 0x80; a < 256; a++ {
		for b := 0; b < 256; b++ {
			b2uSweep = append(b2uSweep, "hb2u "+hx.Hex([]byte{byte(a), byte(b)}))
		}
	}
	for cp := 0x80; cp <= 0xFFFF; cp++ {
		u2bSweep = append(u2bSweep, "hu2b "+hx.Hex(encGen(cp)))
	}
	var mutual []string
	for k := range ref.b2u {
		if ref.mutualOnly([]byte{byte(k >> 8), byte(k)}) {
			mutual = append(mutual, "hrt "+hx.Hex([]byte{byte(k >> 8), byte(k)}))
		}
	}
	sort.Strings(mutual)
	sample := func(ops []string, every int) []string {
		if every <= 1 {
			return ops
		}
		var out []string
		for i := r.Intn(every); i < len(ops); i += every {
			out = append(out, ops[i])
		}
		return out
	}
	probes := []string{"hb2u a44041", "hu2b e4b88041", "hrt a440", "hu2b 80", "hb2u a4"}
	realHistory := func(inits []string, every int) {
		do("reset", true)
		for k, in := range inits {
			do(in, true)
			if k < len(inits)-1 {
				for _, p := range probes {
					do(p, true)
				}
			}
		}
		// first the probes and a small sample (a failure here has a replay of < 400 ops: the check keeps the last 400
		// ops of a history), then the sweeps
		for _, p := range probes {
			do(p, true)
		}
		histBatchConv(sample(b2uSweep, 400))
		histBatchConv(sample(u2bSweep, 400))
		histBatchConv(sample(mutual, 400))
		histBatchConv(sample(b2uSweep, every))
		histBatchConv(sample(u2bSweep, every))
		histBatchConv(sample(mutual, every*4))
	}
	every := 16
	if run.Thorough() {
		every = 1
	}
	// the second table cannot be read, then the path is corrected: full sweeps in both tiers
	realHistory([]string{"init var Rb X", "init var Rb Ru"}, 1)
	realHistory([]string{"init var X Ru", "init var Rb Ru"}, every)
	realHistory([]string{"init var Rb D", "init ini Rb Ru"}, every)
	realHistory([]string{"init ini Rb X", "init ini Rb Ru"}, every)
	realHistory([]string{"init var X X", "init var Rb X", "init var X Ru"}, every)
	realHistory([]string{"init var Rb Ru", "init var X X"}, every)

	// random histories over small synthetic well-formed tables
	n := 60
	if run.Thorough() {
		n = 1500
	}
	for i := 0; i < n; i++ {
		nRows := 2 + r.Intn(6)
		if r.Intn(12) == 0 {
			nRows = 0 // header only: the "already loaded" guard never holds for this table
		}
		eol := []string{"\n", "\r\n"}[r.Intn(2)]
		var tb, tu strings.Builder
		tb.WriteString("# big5 unicode" + eol)
		tu.WriteString("# big5 unicode" + eol)
		var convs []string
		for k := 0; k < nRows; k++ {
			big5 := 0x8140 + r.Intn(0x7E00)
			cp := []int{0x80 + r.Intn(0x780), 0x800 + r.Intn(0xD000), 0xE000 + r.Intn(0x1FFE)}[r.Intn(3)]
			fmt.Fprintf(&tb, "0x%04X 0x%04X%s", big5, cp, eol)
			switch r.Intn(3) {
			case 0: // mutual
				fmt.Fprintf(&tu, "0x%04X 0x%04X%s", big5, cp, eol)
			case 1: // one-way
				fmt.Fprintf(&tu, "0x%04X 0x%04X%s", 0x8140+r.Intn(0x7E00), cp, eol)
			default:
				fmt.Fprintf(&tu, "0x%04X 0x%04X%s", big5, 0x80+r.Intn(0xD000), eol)
			}
			code := []byte{byte(big5 >> 8), byte(big5)}
			convs = append(convs, "hb2u "+hx.Hex(code), "hu2b "+hx.Hex(encGen(cp)), "hrt "+hx.Hex(append([]byte{'A'}, code...)))
		}
		convs = append(convs, "hb2u a44041", "hu2b e4b88041")
		sb, su := "S"+hx.Hex([]byte(tb.String())), "S"+hx.Hex([]byte(tu.String()))
		do("reset", true)
		nInit := 2 + r.Intn(4)
		for k := 0; k < nInit; k++ {
			pick := func(t string) string {
				switch r.Intn(5) {
				case 0:
					return "X"
				case 1:
					return "D"
				}
				return t
			}
			b, u := pick(sb), pick(su)
			if k == nInit-1 && r.Intn(2) == 0 {
				b, u = sb, su // most histories end with both paths corrected
			}
			via := "var"
			if r.Intn(4) == 0 {
				via = "ini"
			}
			do(fmt.Sprintf("init %s %s %s", via, b, u), true)
			for _, c := range convs {
				do(c, true)
			}
		}
	}
}

// genStarts: site names over the real tables (the compiled-in name first), over small synthetic tables, and the
// error path (a table that cannot be read).
func genStarts(r *hx.Rand) {
	var good []int // code points with a real (non-replacement) Big5 image
	for cp, b := range ref.u2b {
		if b != 0xFFFD && cp >= 0x80 && !unicode.IsSpace(cp) && !(cp >= 0xD800 && cp <= 0xDFFF) && unicode.IsPrint(cp) {
			good = append(good, int(cp))
		}
	}
	sort.Ints(good)
	alnum := []byte("ABCXYZabcxyz0189")
	mkName := func(pool []int, n int) []byte {
		var s []byte
		for i := 0; i < n; i++ {
			if len(pool) == 0 || r.Intn(4) == 0 {
				s = append(s, r.Pick(alnum))
			} else {
				s = append(s, encGen(pool[r.Intn(len(pool))])...)
			}
		}
		return s
	}
	do("start Rb Ru "+hx.Hex([]byte("新批踢踢")), true)
	do("start Rb Ru "+hx.Hex([]byte("PTT")), true)
	nReal, nSyn := 6, 24
	if run.Thorough() {
		nReal, nSyn = 40, 300
	}
	for i := 0; i < nReal && len(good) > 0; i++ {
		do("start Rb Ru "+hx.Hex(mkName(good, 1+r.Intn(6))), true)
	}
	do("start Rb X "+hx.Hex([]byte("新批踢踢")), true)
	do("start X Ru "+hx.Hex([]byte("PTT")), true)
	for i := 0; i < nSyn; i++ {
		eol := []string{"\n", "\r\n"}[r.Intn(2)]
		var tb, tu strings.Builder
		tb.WriteString("# big5 unicode" + eol)
		tu.WriteString("# big5 unicode" + eol)
		var pool []int
		for k := 0; k < 2+r.Intn(6); k++ {
			cp := good[r.Intn(len(good))]
			big5 := 0x8140 + r.Intn(0x7E00)
			fmt.Fprintf(&tb, "0x%04X 0x%04X%s", big5, cp, eol)
			fmt.Fprintf(&tu, "0x%04X 0x%04X%s", big5, cp, eol)
			pool = append(pool, cp)
		}
		pool = append(pool, good[r.Intn(len(good))]) // most likely without a row: replacement code
		do(fmt.Sprintf("start S%s S%s %s", hx.Hex([]byte(tb.String())), hx.Hex([]byte(tu.String())), hx.Hex(mkName(pool, 1+r.Intn(6)))), true)
	}
}
