package main

// `start` ops: the REAL start-up path of the server in a fresh process.
//
//   start <specB> <specU> <name-hex>
//
// A small program (startMain below) is compiled INSIDE the repository's own module through `go build -overlay`
// (nothing is written to the repository; the repository's go.mod/go.sum pin gin, grpc … — the harness module cannot
// import initgin offline). It calls initgin.InitAllConfig(<ini>) exactly as main does — no SetIsTest, nothing has
// loaded the tables before — and prints what the start-up left behind: ptttype.BBSNAME and ptttype.BBSNAME_BIG5
// (the only conversion result computed during start-up: Gen.Big5.conversionCallers pins that by a theorem).

import (
	"bytes"
	"encoding/json"
	"fmt"
	"os"
	"os/exec"
	"path/filepath"
	"strings"

	"verifharness/internal/hx"
)

const startMain = `package main

import (
	"encoding/hex"
	"fmt"
	"io"
	"os"

	"github.com/Ptt-official-app/go-pttbbs/initgin"
	"github.com/Ptt-official-app/go-pttbbs/ptttype"
	"github.com/sirupsen/logrus"
)

func main() {
	logrus.SetOutput(io.Discard)
	if err := os.Chdir(os.Args[1]); err != nil {
		fmt.Println("INIT-ERR")
		return
	}
	defer func() {
		if e := recover(); e != nil {
			fmt.Println("PANIC")
		}
	}()
	if err := initgin.InitAllConfig(os.Args[2]); err != nil {
		fmt.Println("INIT-ERR")
		return
	}
	h := func(b []byte) string {
		if len(b) == 0 {
			return "-"
		}
		return hex.EncodeToString(b)
	}
	fmt.Println(h([]byte(ptttype.BBSNAME)), h(ptttype.BBSNAME_BIG5))
}
`

var (
	startBin   string
	startBuilt bool
	startErr   string
	startSeq   int
)

func buildStart() {
	if startBuilt {
		return
	}
	startBuilt = true
	repo, err := filepath.Abs(repoRoot())
	if err != nil {
		startErr = err.Error()
		return
	}
	if r, err := filepath.EvalSymlinks(repo); err == nil {
		repo = r
	}
	src := filepath.Join(tmpDir, "startmain.go")
	ov := filepath.Join(tmpDir, "overlay.json")
	_ = os.WriteFile(src, []byte(startMain), 0o644)
	j, _ := json.Marshal(map[string]map[string]string{"Replace": {filepath.Join(repo, "zz_verif_c17start", "main.go"): src}})
	_ = os.WriteFile(ov, j, 0o644)
	bin := filepath.Join(tmpDir, "c17start")
	cmd := exec.Command("go", "build", "-mod=readonly", "-overlay", ov, "-o", bin, "./zz_verif_c17start")
	cmd.Dir = repo
	cmd.Env = append(os.Environ(), "GOFLAGS=", "GOPROXY=off", "GOSUMDB=off", "GOTOOLCHAIN=local")
	out, err := cmd.CombinedOutput()
	if err != nil {
		startErr = strings.TrimSpace(string(out))
		if len(startErr) > 600 {
			startErr = startErr[len(startErr)-600:]
		}
		return
	}
	startBin = bin
}

// startSpec: path and content (nil: unreadable) of a table spec (the specs of the history ops).
func startSpec(dir, spec string, n int) (string, []byte) {
	switch {
	case spec == "Rb" || spec == "Ru":
		p := filepath.Join(repoRoot(), map[string]string{"Rb": defaultB2U, "Ru": defaultU2B}[spec])
		b, err := os.ReadFile(p)
		if err != nil {
			return p, nil
		}
		return p, b
	case spec == "X":
		return filepath.Join(dir, "no-such-dir", "table.txt"), nil
	case spec == "D":
		return dir, nil
	}
	c := hx.UnHex(spec[1:])
	if c == nil {
		c = []byte{}
	}
	p := filepath.Join(dir, fmt.Sprintf("table-%d.txt", n))
	_ = os.WriteFile(p, c, 0o644)
	return p, c
}

func validStartOp(ws []string) bool {
	return len(ws) == 4 && validHistOp([]string{"init", "var", ws[1], ws[2]}) && validHistOp([]string{"hb2u", ws[3]})
}

func execStart(ws []string) string {
	buildStart()
	if startBin == "" {
		return "build-error"
	}
	startSeq++
	dir := filepath.Join(tmpDir, fmt.Sprintf("start-%d", startSeq))
	_ = os.MkdirAll(dir, 0o755)
	defer os.RemoveAll(dir)
	pb, _ := startSpec(dir, ws[1], 1)
	pu, _ := startSpec(dir, ws[2], 2)
	name := hx.UnHex(ws[3])
	ini := "[go-pttbbs:types]\nBIG5_TO_UTF8 = " + pb + "\nUTF8_TO_BIG5 = " + pu + "\n" +
		"[go-pttbbs:ptttype]\nBBSHOME = " + dir + "\nBBSNAME = " + string(name) + "\n"
	_ = os.WriteFile(filepath.Join(dir, "c17start.ini"), []byte(ini), 0o644)
	cmd := exec.Command(startBin, dir, "c17start.ini")
	cmd.Env = os.Environ()
	out, err := cmd.Output()
	if err != nil {
		return "child-error"
	}
	fs := strings.Fields(string(out))
	switch {
	case len(fs) == 1:
		return fs[0] // INIT-ERR / PANIC
	case len(fs) != 2:
		return "child-error"
	case !bytes.Equal(hx.UnHex(fs[0]), name):
		return "name-mismatch" // the ini layer did not hand the generated name through unchanged (generator problem)
	}
	return fs[1]
}

// judgeStart: P̂ — the site name kept by the start-up is the table-exact conversion of the configured name, by the
// tables the ini names (parsed independently); an unreadable table must make the start-up fail.
func judgeStart(i int, ws []string, out string) {
	dir := filepath.Join(tmpDir, "start-judge")
	_ = os.MkdirAll(dir, 0o755)
	_, cb := startSpec(dir, ws[1], 1)
	_, cu := startSpec(dir, ws[2], 2)
	name := hx.UnHex(ws[3])
	switch out {
	case "INIT-ERR":
		if cb != nil && cu != nil {
			run.Fail(i, "loader:spurious-error", "initgin.InitAllConfig failed although both configured table files are readable")
		}
		return
	case "PANIC", "child-error", "build-error", "name-mismatch", "unset":
		run.Fail(i, "crash:startup", fmt.Sprintf("initgin.InitAllConfig in a fresh process: %s %s", out, startErr))
		return
	}
	if cb == nil || cu == nil {
		run.Fail(i, "loader:ok-without-table", "initgin.InitAllConfig succeeded although a configured table file cannot be read")
		return
	}
	t := ref
	if !(ws[1] == "Rb" && ws[2] == "Ru") {
		t = refFromContent(cb, cu)
	}
	want, wf := t.wantU2BPrefix(name)
	got := hx.UnHex(out)
	if wf && !bytes.Equal(got, want) {
		run.Fail(i, "exact:startup-bbsname", fmt.Sprintf("after start-up BBSNAME_BIG5 = % x for the site name % x, the table says % x", got, name, want))
	} else if !wf && !bytes.HasPrefix(got, want) {
		run.Fail(i, "exact:startup-bbsname", fmt.Sprintf("after start-up BBSNAME_BIG5 = % x does not start with the image % x of the well-formed prefix of the site name % x", got, want, name))
	}
}
