package main

// The property oracle P̂ of C17.  Independent of the Lean model and of types/big5.go: the two table
// files are parsed here with bufio/strconv, UTF-8 comes from unicode/utf8.

import (
	"bufio"
	"io"
	"bytes"
	"fmt"
	"os"
	"strconv"
	"strings"
	"unicode/utf8"

	"verifharness/internal/hx"
)

type refTables struct {
	b2u                  map[uint16]rune // Big5 code -> code point (last row wins)
	u2b                  map[rune]uint16 // code point -> Big5 code (last row wins)
	b2uRows, u2bRows     int
	b2uWF, u2bWF, isASCII bool
	hdrB, hdrU            bool // the first line of the file is NOT a data row (the loader drops line 1 whatever it is)
	dropB, dropU          int  // rows by content that are not rows by the loader's rule (exactly two ' '-fields)
	dupB, dupU            []string // keys that occur in more than one row (from the LIST of rows, not from the maps)
}

// lastDropped: rows by content of the file parsed last that the loader's accept rule skips.
var lastDropped int

func parseRef(path string) (rows [][2]uint16, ascii, firstIsRow bool, err error) {
	f, err := os.Open(path)
	if err != nil {
		return nil, false, false, err
	}
	defer f.Close()
	return parseRefFrom(f)
}

// parseRefFrom reads a table the way a reader of the DATA does: every line of the shape `0xHHHH 0xHHHH` is a row,
// wherever it stands; a header or comment is recognised by its content, not by its position.
func parseRefFrom(f io.Reader) (rows [][2]uint16, ascii, firstIsRow bool, err error) {
	lastDropped = 0
	ascii = true
	sc := bufio.NewScanner(f)
	n := 0
	for sc.Scan() {
		line := sc.Bytes()
		n++
		for _, c := range line {
			if c >= 0x80 {
				ascii = false
			}
		}
		// a row by CONTENT: the first two blank-separated fields are 0xHHHH 0xHHHH — whatever follows (inline comment,
		// trailing blanks); a header or comment line has no such fields
		fs := strings.Fields(string(line))
		if len(fs) < 2 || !strings.HasPrefix(fs[0], "0x") || !strings.HasPrefix(fs[1], "0x") {
			continue
		}
		a, e1 := strconv.ParseUint(fs[0][2:], 16, 16)
		b, e2 := strconv.ParseUint(fs[1][2:], 16, 16)
		if e1 != nil || e2 != nil || len(fs[0]) != 6 || len(fs[1]) != 6 {
			continue
		}
		rows = append(rows, [2]uint16{uint16(a), uint16(b)})
		if n == 1 {
			firstIsRow = true
		}
		if len(strings.Split(string(line), " ")) != 2 {
			lastDropped++ // the loader's rule (exactly two pieces at ' ') skips this row
		}
	}
	return rows, ascii, firstIsRow, sc.Err()
}

func loadRef(pb, pu string) (*refTables, error) {
	rb, a1, f1, err := parseRef(pb)
	if err != nil {
		return nil, err
	}
	dB := lastDropped
	ru, a2, f2, err := parseRef(pu)
	if err != nil {
		return nil, err
	}
	dU := lastDropped
	t := buildRef(rb, ru, a1 && a2)
	t.hdrB, t.hdrU = !f1, !f2
	t.dropB, t.dropU = dB, dU
	return t, nil
}

// refFromContent: the reference tables of two table files given by content.
func refFromContent(cb, cu []byte) *refTables {
	rb, a1, f1, _ := parseRefFrom(bytes.NewReader(cb))
	ru, a2, f2, _ := parseRefFrom(bytes.NewReader(cu))
	t := buildRef(rb, ru, a1 && a2)
	t.hdrB, t.hdrU = !f1, !f2
	return t
}

func buildRef(rb, ru [][2]uint16, ascii bool) *refTables {
	a1, a2 := ascii, true
	t := &refTables{b2u: map[uint16]rune{}, u2b: map[rune]uint16{}, b2uRows: len(rb), u2bRows: len(ru),
		b2uWF: true, u2bWF: true, isASCII: a1 && a2}
	// every row is specification: the file must be a FUNCTION of its key column. Count occurrences over the row list.
	nb, nu := map[uint16]int{}, map[uint16]int{}
	for _, r := range rb {
		if nb[r[0]]++; nb[r[0]] == 2 {
			t.dupB = append(t.dupB, fmt.Sprintf("0x%04X", r[0]))
		}
	}
	for _, r := range ru {
		if nu[r[1]]++; nu[r[1]] == 2 {
			t.dupU = append(t.dupU, fmt.Sprintf("0x%04X", r[1]))
		}
	}
	for _, r := range rb {
		t.b2u[r[0]] = rune(r[1])
		if r[0] < 0x8000 || r[1] < 0x80 || (r[1] >= 0xD800 && r[1] <= 0xDFFF) {
			t.b2uWF = false
		}
	}
	for _, r := range ru {
		t.u2b[rune(r[1])] = r[0]
		if r[1] < 0x80 {
			t.u2bWF = false
		}
	}
	return t
}

// wfLine: the answer to the `wf` op, computed from the independent parse (the Lean driver computes
// the same line with the modelled parser and the decidable WF predicate of the theorems).
func (t *refTables) wfLine() string {
	return fmt.Sprintf("wf b2u=%d/%d/%v u2b=%d/%d/%v ascii=%v hdr=%v/%v dropped=%d/%d", t.b2uRows, len(t.b2u), t.b2uWF, t.u2bRows, len(t.u2b), t.u2bWF, t.isASCII, t.hdrB, t.hdrU, t.dropB, t.dropU)
}

// encGen: the (generalised: surrogates too) UTF-8 encoding of a BMP code point.
func encGen(cp int) []byte {
	switch {
	case cp < 0x80:
		return []byte{byte(cp)}
	case cp < 0x800:
		return []byte{byte(0xC0 + cp/64), byte(0x80 + cp%64)}
	default:
		return []byte{byte(0xE0 + cp/4096), byte(0x80 + cp/64%64), byte(0x80 + cp%64)}
	}
}

// decGen: inverse of encGen on exactly one 2- or 3-byte sequence with cp >= 0x80 (no overlong forms).
func decGen(s []byte) (int, bool) {
	cont := func(b byte) bool { return b&0xC0 == 0x80 }
	if len(s) == 2 && s[0] >= 0xC2 && s[0] <= 0xDF && cont(s[1]) {
		return int(s[0]&0x1F)<<6 | int(s[1]&0x3F), true
	}
	if len(s) == 3 && s[0] >= 0xE0 && s[0] <= 0xEF && cont(s[1]) && cont(s[2]) {
		cp := int(s[0]&0x0F)<<12 | int(s[1]&0x3F)<<6 | int(s[2]&0x3F)
		return cp, cp >= 0x800
	}
	return 0, false
}

// wantB2U: the property's reading of Big5 -> UTF-8: ASCII bytes as they are; a two-byte unit becomes
// the UTF-8 encoding (unicode/utf8) of its table entry, nothing when it has none; a lead byte at the
// very end is dropped.
func (t *refTables) wantB2U(s []byte) []byte {
	var out []byte
	for i := 0; i < len(s); {
		if s[i] < 0x80 {
			out = append(out, s[i])
			i++
			continue
		}
		if i+1 >= len(s) {
			break
		}
		if cp, ok := t.b2u[uint16(s[i])<<8|uint16(s[i+1])]; ok {
			out = utf8.AppendRune(out, cp)
		}
		i += 2
	}
	return out
}

// wantU2BPrefix: the exact image of the longest prefix of s that consists of ASCII bytes and
// well-formed 2-/3-byte sequences (unicode/utf8); wellFormed reports whether that is all of s.
func (t *refTables) wantU2BPrefix(s []byte) (out []byte, wellFormed bool) {
	for i := 0; i < len(s); {
		if s[i] < 0x80 {
			out = append(out, s[i])
			i++
			continue
		}
		r, n := utf8.DecodeRune(s[i:])
		if (r == utf8.RuneError && n <= 1) || n == 4 {
			return out, false
		}
		if b, ok := t.u2b[r]; ok {
			out = append(out, byte(b>>8), byte(b))
		} else {
			out = append(out, 0xff, 0xfd)
		}
		i += n
	}
	return out, true
}

// mutualOnly: s is made of ASCII bytes and two-byte codes that the two tables map to each other.
func (t *refTables) mutualOnly(s []byte) bool {
	for i := 0; i < len(s); {
		if s[i] < 0x80 {
			i++
			continue
		}
		if i+1 >= len(s) {
			return false
		}
		code := uint16(s[i])<<8 | uint16(s[i+1])
		cp, ok := t.b2u[code]
		if !ok || cp < 0x80 || t.u2b[cp] != code {
			return false
		}
		i += 2
	}
	return true
}

func judge(i int, line, out string) {
	if isHistOp(line) {
		judgeHist(i, line, out)
		return
	}
	if ws := strings.Fields(line); ws[0] == "start" {
		judgeStart(i, ws, out)
		return
	}
	judgeT(ref, i, line, out)
}

// judgeT judges one stateless op against the reference tables t.
func judgeT(t *refTables, i int, line, out string) {
	ws := strings.Fields(line)
	op := ws[0]
	if op == "cfg" {
		// the same judgement as without an ini file: the ini names the same two tables under their own keys
		if strings.HasPrefix(out, "INIT-") || out == "child-error" {
			run.Fail(i, "crash:initconfig", fmt.Sprintf("types.InitConfig under ini variant %s (both tables named under their keys): %s", ws[1], out))
			return
		}
		judgeT(t, i, ws[2]+" "+ws[3], out)
		return
	}
	if out == "PANIC" || out == "TIMEOUT" {
		switch op {
		case "b2u":
			run.Fail(i, map[string]string{"PANIC": "crash:big5toutf8", "TIMEOUT": "stall:big5toutf8"}[out],
				fmt.Sprintf("Big5ToUtf8(% x): %s %s", hx.UnHex(ws[1]), out, hx.LastPanic))
		case "u2b":
			run.Fail(i, map[string]string{"PANIC": "crash:utf8tobig5", "TIMEOUT": "stall:utf8tobig5"}[out],
				fmt.Sprintf("Utf8ToBig5(% x): %s %s", hx.UnHex(ws[1]), out, hx.LastPanic))
		case "rt":
			run.Fail(i, "crash:roundtrip", fmt.Sprintf("Utf8ToBig5(Big5ToUtf8(% x)): %s %s", hx.UnHex(ws[1]), out, hx.LastPanic))
		}
		return
	}
	if op != "wf" && op != "tbl" && out != "-" && (len(out)%2 != 0 || strings.Trim(out, "0123456789abcdef") != "") {
		run.Fail(i, "crash:child", fmt.Sprintf("%s: the process running the real code answered %q", line, out))
		return
	}
	switch op {
	case "wf":
		if len(t.dupB) > 0 || len(t.dupU) > 0 {
			run.Fail(i, "table:duplicate-key", fmt.Sprintf("a table file has a key in more than one row (the loader's map is last-wins: the earlier row is lost, and the key that was meant is missing): b2u Big5 codes %v, u2b code points %v: %s", t.dupB, t.dupU, out))
		}
		if t.dropB > 0 || t.dropU > 0 {
			run.Fail(i, "table:row-dropped", fmt.Sprintf("%d + %d lines of the table files are rows by content (0xHHHH 0xHHHH …) but not by the loader's rule (exactly two ' '-fields): silently missing from the maps: %s", t.dropB, t.dropU, out))
		}
		if !t.hdrB || !t.hdrU {
			run.Fail(i, "table:first-line-is-a-row", "a table file starts with a data row, which the loader drops unconditionally (lines[1:]): "+out)
		}
		if !t.b2uWF || !t.u2bWF || !t.isASCII {
			run.Fail(i, "table:not-wf", "a table file has a row outside the well-formedness the guarantees are stated under: "+out)
		}
	case "b2u":
		in, got := hx.UnHex(ws[1]), hx.UnHex(out)
		want := t.wantB2U(in)
		if !bytes.Equal(got, want) {
			key := "exact:big5toutf8"
			if allASCII(in) {
				key = "ascii:big5toutf8"
			}
			run.Fail(i, key, fmt.Sprintf("Big5ToUtf8(% x) = % x, the table says % x", in, got, want))
		} else if !utf8.Valid(got) {
			run.Fail(i, "invalid-utf8", fmt.Sprintf("Big5ToUtf8(% x) = % x is not valid UTF-8", in, got))
		}
	case "u2b":
		in, got := hx.UnHex(ws[1]), hx.UnHex(out)
		// a single (generalised) 2-/3-byte encoding of a table code point, surrogate rows included
		if cp, ok := decGen(in); ok {
			want := []byte{0xff, 0xfd}
			if b, ok := t.u2b[rune(cp)]; ok {
				want = []byte{byte(b >> 8), byte(b)}
			}
			if !bytes.Equal(got, want) {
				run.Fail(i, "exact:utf8tobig5", fmt.Sprintf("Utf8ToBig5(% x) [U+%04X] = % x, the table says % x", in, cp, got, want))
			}
			return
		}
		want, wf := t.wantU2BPrefix(in)
		if wf && !bytes.Equal(got, want) {
			key := "exact:utf8tobig5"
			if allASCII(in) {
				key = "ascii:utf8tobig5"
			}
			run.Fail(i, key, fmt.Sprintf("Utf8ToBig5(% x) = % x, the table says % x", in, got, want))
		} else if !wf && !bytes.HasPrefix(got, want) {
			run.Fail(i, "prefix:utf8tobig5", fmt.Sprintf("Utf8ToBig5(% x) = % x does not start with the image % x of the well-formed prefix", in, got, want))
		}
	case "rt":
		in, got := hx.UnHex(ws[1]), hx.UnHex(out)
		if t.mutualOnly(in) && !bytes.Equal(got, in) {
			run.Fail(i, "roundtrip", fmt.Sprintf("Utf8ToBig5(Big5ToUtf8(% x)) = % x", in, got))
		}
	}
}

func allASCII(s []byte) bool {
	for _, c := range s {
		if c >= 0x80 {
			return false
		}
	}
	return true
}
