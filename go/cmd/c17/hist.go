package main

// Histories of the table loader: several types.InitConfig calls in ONE process (the package keeps its two maps in
// globals behind "already loaded" guards), with table paths that are readable or not, and conversions in between.
//
//   reset                          a fresh child process
//   init <var|ini> <specB> <specU> set the two paths (package variables, or an ini file read through viper), InitConfig
//   hb2u|hu2b|hrt <hex>            conversions in that process
//
// spec: Rb / Ru = the repository's b2u / u2b file, X = no such file, D = a directory, S<hex> = a file with this content.

import (
	"bufio"
	"fmt"
	"os"
	"os/exec"
	"path/filepath"
	"strings"
	"time"

	"github.com/Ptt-official-app/go-pttbbs/types"
	"github.com/spf13/viper"
	"verifharness/internal/hx"
)

func isHistOp(line string) bool {
	ws := strings.Fields(line)
	if len(ws) == 0 {
		return false
	}
	switch ws[0] {
	case "reset", "init", "hb2u", "hu2b", "hrt":
		return true
	}
	return false
}

func validHistOp(ws []string) bool {
	okSpec := func(s string) bool {
		if s == "Rb" || s == "Ru" || s == "X" || s == "D" {
			return true
		}
		if !strings.HasPrefix(s, "S") {
			return false
		}
		h := s[1:]
		return h == "-" || (len(h) > 0 && len(h)%2 == 0 && strings.Trim(h, "0123456789abcdefABCDEF") == "")
	}
	switch ws[0] {
	case "reset":
		return len(ws) == 1
	case "init":
		return len(ws) == 4 && (ws[1] == "var" || ws[1] == "ini") && okSpec(ws[2]) && okSpec(ws[3])
	default:
		h := ""
		if len(ws) == 2 {
			h = ws[1]
		}
		return len(ws) == 2 && (h == "-" || (len(h)%2 == 0 && strings.Trim(h, "0123456789abcdefABCDEF") == ""))
	}
}

// ---- child ----------------------------------------------------------------------------------------------

func histChild() {
	quiet()
	w := bufio.NewWriter(os.Stdout)
	defer w.Flush()
	fmt.Fprintln(w, "ok")
	w.Flush()
	r := bufio.NewReaderSize(os.Stdin, 1<<20)
	for {
		line, err := r.ReadString('\n')
		if line == "" && err != nil {
			return
		}
		ws := strings.Fields(line)
		ans := "bad-op"
		switch {
		case len(ws) == 3 && ws[0] == "initvar":
			types.BIG5_TO_UTF8, types.UTF8_TO_BIG5 = ws[1], ws[2]
			ans = callInit()
		case len(ws) == 2 && ws[0] == "initini":
			viper.SetConfigFile(ws[1])
			if e := viper.ReadInConfig(); e != nil {
				ans = "ini-error"
			} else {
				ans = callInit()
			}
		case len(ws) == 2 && ws[0] == "b2u":
			s := exact(hx.UnHex(ws[1]))
			ans = hx.Call(func() string { return hx.Hex([]byte(types.Big5ToUtf8(s))) })
		case len(ws) == 2 && ws[0] == "u2b":
			s := string(hx.UnHex(ws[1]))
			ans = hx.Call(func() string { return hx.Hex(types.Utf8ToBig5(s)) })
		case len(ws) == 2 && ws[0] == "rt":
			s := exact(hx.UnHex(ws[1]))
			ans = hx.Call(func() string { return hx.Hex(types.Utf8ToBig5(types.Big5ToUtf8(s))) })
		}
		fmt.Fprintln(w, ans)
		if r.Buffered() == 0 {
			w.Flush()
		}
		if err != nil {
			return
		}
	}
}

func callInit() string {
	return hx.CallT(60*time.Second, func() string {
		if err := types.InitConfig(); err != nil {
			return "err"
		}
		return "ok"
	})
}

// ---- parent: process management ---------------------------------------------------------------------------

type histState struct {
	proc *cfgProc
	dir  string
	n    int // files written

	// what the oracle remembers of the history (independent of the Lean model)
	iniB, iniU   string            // specs named by the ini file, once one has been read ("" = none)
	readableB    map[string][]byte // readable specs configured so far for the Big5->UTF-8 path, with their content
	readableU    map[string][]byte
	everOK       bool
	errBeforeOK  bool
	lastAns      string
	refT         *refTables
	refKey       string
}

var (
	hist    *histState
	histSeq int
)

func histReset() {
	if hist != nil && hist.proc != nil && hist.proc.cmd != nil && hist.proc.cmd.Process != nil {
		_ = hist.proc.cmd.Process.Kill()
		_, _ = hist.proc.cmd.Process.Wait()
	}
	histSeq++
	h := &histState{dir: filepath.Join(tmpDir, fmt.Sprintf("hist-%d", histSeq)), readableB: map[string][]byte{}, readableU: map[string][]byte{}}
	hist = h
	_ = os.MkdirAll(filepath.Join(h.dir, "adir"), 0o755)
	p := &cfgProc{}
	h.proc = p
	p.cmd = exec.Command(self, "histchild")
	p.cmd.Env = os.Environ()
	p.cmd.Dir = h.dir
	stdin, e1 := p.cmd.StdinPipe()
	stdout, e2 := p.cmd.StdoutPipe()
	if e1 != nil || e2 != nil || p.cmd.Start() != nil {
		p.dead = "child-error"
		return
	}
	p.in = bufio.NewWriterSize(stdin, 1<<20)
	p.out = bufio.NewReaderSize(stdout, 1<<20)
	if _, err := p.out.ReadString('\n'); err != nil {
		p.dead = "child-error"
	}
}

func histStop() {
	if hist != nil && hist.proc != nil && hist.proc.cmd != nil && hist.proc.cmd.Process != nil {
		_ = hist.proc.cmd.Process.Kill()
		_, _ = hist.proc.cmd.Process.Wait()
	}
}

// specPath turns a spec into a path of the child's world; content is nil when the path cannot be read.
func (h *histState) specPath(spec string) (path string, content []byte) {
	switch {
	case spec == "Rb":
		path = filepath.Join(repoRoot(), defaultB2U)
	case spec == "Ru":
		path = filepath.Join(repoRoot(), defaultU2B)
	case spec == "X":
		return filepath.Join(h.dir, "no-such-dir", "table.txt"), nil
	case spec == "D":
		return filepath.Join(h.dir, "adir"), nil
	default:
		h.n++
		path = filepath.Join(h.dir, fmt.Sprintf("table-%d.txt", h.n))
		content = hx.UnHex(spec[1:])
		if content == nil {
			content = []byte{}
		}
		_ = os.WriteFile(path, content, 0o644)
		return path, content
	}
	b, err := os.ReadFile(path)
	if err != nil {
		return path, nil
	}
	return path, b
}

// execHist runs one history op on the real code (in the history's child).
func execHist(line string) string {
	ws := strings.Fields(line)
	if ws[0] == "reset" {
		histReset()
		if hist.proc.dead != "" {
			return hist.proc.dead
		}
		return "ok"
	}
	if hist == nil {
		histReset()
	}
	h := hist
	switch ws[0] {
	case "init":
		pb, cb := h.specPath(ws[2])
		pu, cu := h.specPath(ws[3])
		var cmd string
		if ws[1] == "ini" {
			h.n++
			ini := filepath.Join(h.dir, fmt.Sprintf("conf-%d.ini", h.n))
			_ = os.WriteFile(ini, []byte("["+typesSection+"]\nBIG5_TO_UTF8 = "+pb+"\nUTF8_TO_BIG5 = "+pu+"\n"), 0o644)
			cmd = "initini " + ini
			h.iniB, h.iniU = ws[2], ws[3]
		} else {
			cmd = "initvar " + pb + " " + pu
		}
		// oracle bookkeeping: the paths in force are the ini's once an ini has been read (config() overrides)
		effB, effU, ecb, ecu := ws[2], ws[3], cb, cu
		if h.iniB != "" && ws[1] != "ini" {
			effB, effU = h.iniB, h.iniU
			_, ecb = h.peek(effB)
			_, ecu = h.peek(effU)
		}
		if ecb != nil {
			h.readableB[effB] = ecb
		}
		if ecu != nil {
			h.readableU[effU] = ecu
		}
		ans := h.proc.batch([]string{cmd})[0]
		h.lastAns = fmt.Sprintf("%s %v %v", ans, ecb != nil, ecu != nil)
		return ans
	default:
		return h.proc.batch([]string{ws[0][1:] + " " + ws[1]})[0]
	}
}

// peek: content of a spec configured earlier (synthetic files are remembered by spec).
func (h *histState) peek(spec string) (string, []byte) {
	if c, ok := h.readableB[spec]; ok {
		return "", c
	}
	if c, ok := h.readableU[spec]; ok {
		return "", c
	}
	if strings.HasPrefix(spec, "S") {
		c := hx.UnHex(spec[1:])
		if c == nil {
			c = []byte{}
		}
		return "", c
	}
	if spec == "Rb" || spec == "Ru" {
		_, c := h.specPath(spec)
		return "", c
	}
	return "", nil
}

// histBatchConv runs many conversions of the current history in one batch.
func histBatchConv(lines []string) {
	inner := make([]string, len(lines))
	for i, l := range lines {
		inner[i] = l[1:]
	}
	for k, out := range hist.proc.batch(inner) {
		record(lines[k], out, true)
	}
}

// ---- labels and oracle --------------------------------------------------------------------------------------

func classifyHist(line, out string) string {
	ws := strings.Fields(line)
	switch ws[0] {
	case "reset":
		return "hist:reset"
	case "init":
		l := "hist:init-" + ws[1] + ":" + out
		if hist != nil && out == "ok" && hist.errBeforeOK {
			l += ":after-failed-init"
		}
		return l
	}
	l := "hist:" + ws[0][1:]
	if out == "PANIC" || out == "TIMEOUT" {
		return l + ":" + strings.ToLower(out)
	}
	if hist != nil && hist.everOK && hist.errBeforeOK {
		return l + ":after-retry"
	}
	if hist != nil && !hist.everOK {
		return l + ":before-success"
	}
	return l
}

// judgeHist: P̂ for histories.
//   - InitConfig answers ok  => for each direction, a readable file has been configured in this or an earlier call
//     (success without a table to load from is impossible), and from now on both conversions are exact with
//     respect to those files (maps are never unloaded);
//   - InitConfig answers err => at least one of the two paths in force cannot be read;
//   - conversions never crash or stall, whatever the history.
// Histories are generated with at most one readable file per direction, so "the file it was loaded from" is unambiguous;
// a replayed history that is ambiguous is not judged for exactness.
func judgeHist(i int, line, out string) {
	ws := strings.Fields(line)
	h := hist
	if h == nil || ws[0] == "reset" {
		return
	}
	if ws[0] == "init" {
		var ans string
		var rb, ru bool
		fmt.Sscanf(h.lastAns, "%s %v %v", &ans, &rb, &ru)
		switch out {
		case "ok":
			if len(h.readableB) == 0 || len(h.readableU) == 0 {
				run.Fail(i, "loader:ok-without-table", fmt.Sprintf("InitConfig reported success although no readable file was ever configured for a table (b2u %d, u2b %d)", len(h.readableB), len(h.readableU)))
			}
			h.everOK = true
		case "err":
			if rb && ru {
				run.Fail(i, "loader:spurious-error", "InitConfig failed although both configured table files are readable")
			}
			if !h.everOK {
				h.errBeforeOK = true
			}
		default:
			run.Fail(i, "crash:initconfig", fmt.Sprintf("types.InitConfig in a history: %s %s", out, hx.LastPanic))
		}
		return
	}
	inner := ws[0][1:] + " " + ws[1]
	if out == "PANIC" || out == "TIMEOUT" {
		judgeT(ref, i, inner, out) // crash / stall keys
		return
	}
	if !h.everOK || len(h.readableB) != 1 || len(h.readableU) != 1 {
		return
	}
	var kb, ku string
	var cb, cu []byte
	for k, c := range h.readableB {
		kb, cb = k, c
	}
	for k, c := range h.readableU {
		ku, cu = k, c
	}
	if kb == "Rb" && ku == "Ru" {
		judgeT(ref, i, inner, out)
		return
	}
	if h.refKey != kb+" "+ku {
		h.refKey = kb + " " + ku
		h.refT = refFromContent(cb, cu)
	}
	judgeT(h.refT, i, inner, out)
}
