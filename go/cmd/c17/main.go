// c17: correspondence harness + property oracle for the Big5 <-> UTF-8 conversion (property C17).
//
// It calls the real types.Big5ToUtf8 / types.Utf8ToBig5 in-process (tables loaded by the real
// types.InitConfig from the repository's table files) and writes, per operation, the op line for
// the Lean driver and the implementation's canonical answer.  The oracle (oracle.go) judges the
// implementation against tables parsed independently in this package + unicode/utf8.
//
// `tbl` ops run the real table loader on synthetic (also malformed) table files in a child process
// (`c17 tblchild ...`): the package keeps its maps in globals that are loaded once.
package main

import (
	"flag"
	"fmt"
	"io"
	"os"
	"os/exec"
	"path/filepath"
	"strings"
	"time"
	"unicode/utf8"

	"github.com/Ptt-official-app/go-pttbbs/types"
	"github.com/sirupsen/logrus"
	"verifharness/internal/hx"
)

var (
	run      *hx.Run
	ref      *refTables
	timeouts int
	skipped  int
	self     string
	tmpDir   string

	defaultB2U, defaultU2B string // types.BIG5_TO_UTF8 / UTF8_TO_BIG5 as compiled in (relative to the repository root)
)

func quiet() {
	logrus.SetOutput(io.Discard)
	logrus.SetLevel(logrus.PanicLevel)
}

func repoRoot() string {
	if r := os.Getenv("VERIF_REPO"); r != "" {
		return r
	}
	return "/repo"
}

// exact returns a copy whose capacity equals its length (Big5ToUtf8 slices its argument).
func exact(b []byte) []byte {
	c := make([]byte, len(b))
	copy(c, b)
	return c
}

// ---- child process: real loader on two given files, then one conversion each way -------------

func tblChild(args []string) {
	quiet()
	if len(args) != 4 {
		fmt.Println("bad-op")
		return
	}
	types.BIG5_TO_UTF8 = args[0]
	types.UTF8_TO_BIG5 = args[1]
	st := hx.CallT(20*time.Second, func() string {
		if err := types.InitConfig(); err != nil {
			return "ERR"
		}
		return "ok"
	})
	if st != "ok" {
		fmt.Println(st)
		return
	}
	sb, su := hx.UnHex(args[2]), hx.UnHex(args[3])
	a := hx.Call(func() string { return hx.Hex([]byte(types.Big5ToUtf8(exact(sb)))) })
	b := hx.Call(func() string { return hx.Hex(types.Utf8ToBig5(string(su))) })
	fmt.Println(a + " " + b)
}

func runTbl(ws []string) string {
	if len(ws) != 5 {
		return "bad-op"
	}
	fb := filepath.Join(tmpDir, "b2u.txt")
	fu := filepath.Join(tmpDir, "u2b.txt")
	if os.WriteFile(fb, hx.UnHex(ws[1]), 0o644) != nil || os.WriteFile(fu, hx.UnHex(ws[2]), 0o644) != nil {
		return "io-error"
	}
	cmd := exec.Command(self, "tblchild", fb, fu, ws[3], ws[4])
	cmd.Env = os.Environ()
	out, err := cmd.Output()
	if err != nil {
		return "child-error"
	}
	return strings.TrimSpace(string(out))
}

// ---- one op on the real code -------------------------------------------------------------------

func exec1(line string) string {
	ws := strings.Fields(line)
	if len(ws) == 0 {
		return "bad-op"
	}
	if isHistOp(line) {
		return execHist(line)
	}
	if ws[0] == "start" {
		return execStart(ws)
	}
	switch {
	case ws[0] == "wf" && len(ws) == 1:
		return ref.wfLine()
	case ws[0] == "b2u" && len(ws) == 2:
		s := exact(hx.UnHex(ws[1]))
		return hx.Call(func() string { return hx.Hex([]byte(types.Big5ToUtf8(s))) })
	case ws[0] == "u2b" && len(ws) == 2:
		s := string(hx.UnHex(ws[1]))
		return hx.Call(func() string { return hx.Hex(types.Utf8ToBig5(s)) })
	case ws[0] == "rt" && len(ws) == 2:
		s := exact(hx.UnHex(ws[1]))
		return hx.Call(func() string { return hx.Hex(types.Utf8ToBig5(types.Big5ToUtf8(s))) })
	case ws[0] == "tbl":
		return runTbl(ws)
	case ws[0] == "cfg" && len(ws) == 4:
		return cfgBatch(ws[1], []string{ws[2] + " " + ws[3]})[0]
	}
	return "bad-op"
}

func do(line string, nontrivial bool) (string, int) {
	if timeouts >= 3 && strings.HasPrefix(line, "u2b ") {
		// every stalled call leaves a spinning goroutine behind; three witnesses are enough
		skipped++
		return "", -1
	}
	if !validOp(line) {
		return "bad-op", run.Op(line, "bad-op", "bad-op", false)
	}
	return record(line, exec1(line), nontrivial)
}

// record: the bookkeeping of one executed op (label, protocol files, oracle).
func record(line, out string, nontrivial bool) (string, int) {
	label := classify(line, out)
	i := run.Op(line, out, label, nontrivial)
	if out == "TIMEOUT" {
		timeouts++
	}
	judge(i, line, out)
	return out, i
}

// doCfgSweep runs many inner ops under one ini variant through the variant's child in one batch.
func doCfgSweep(variant string, inner []string) {
	for k, out := range cfgBatch(variant, inner) {
		record("cfg "+variant+" "+inner[k], out, true)
	}
}

func main() {
	if len(os.Args) > 1 && os.Args[1] == "tblchild" {
		tblChild(os.Args[2:])
		return
	}
	if len(os.Args) > 1 && os.Args[1] == "inichild" {
		iniChild(os.Args[2:])
		return
	}
	if len(os.Args) > 1 && os.Args[1] == "histchild" {
		histChild()
		return
	}
	pass := flag.String("pass", "convert", "convert | loader")
	run = hx.Start("C17")
	defer run.Finish()
	quiet()
	self, _ = os.Executable()
	var err error
	tmpDir, err = os.MkdirTemp("", "verif-c17-")
	if err != nil {
		panic(err)
	}
	defer os.RemoveAll(tmpDir)
	defer cfgStopAll()
	defer histStop()

	run.Rule = "exhaustive on the real code: every byte string of length <= 2 through both converters (65536 two-byte Big5 inputs), " +
		"every 2- and 3-byte (generalised) UTF-8 encoding of U+0080..U+FFFF through Utf8ToBig5, Big5->UTF-8->Big5 on every two-byte code; " +
		"then structured strings from the seed: ASCII/mapped/unmapped units mixed and truncated at every position, lone continuation bytes, " +
		"4-byte sequences, 0xC0/0xC1/0xF5+ leads, random bytes; malformed stream: synthetic table files (short fields, 6-digit hex, odd hex, " +
		"wrong field count, no header, CR/LF) through the real loader in a child process. distinct = distinct op lines; " +
		"nontrivial = reaches a converter (all ops but wf)"

	// the table files named by the repository's default configuration, below the repository root
	defaultB2U, defaultU2B = types.BIG5_TO_UTF8, types.UTF8_TO_BIG5
	pb := filepath.Join(repoRoot(), types.BIG5_TO_UTF8)
	pu := filepath.Join(repoRoot(), types.UTF8_TO_BIG5)
	types.BIG5_TO_UTF8, types.UTF8_TO_BIG5 = pb, pu
	st := hx.CallT(60*time.Second, func() string {
		if err := types.InitConfig(); err != nil {
			return "ERR " + err.Error()
		}
		return "ok"
	})
	ref, err = loadRef(pb, pu)
	if st != "ok" || err != nil {
		i := run.Op("wf", st, "init:failed", false)
		run.Fail(i, "crash:inittable", fmt.Sprintf("types.InitConfig on %s, %s: %s %v %s", pb, pu, st, err, hx.LastPanic))
		return
	}

	if run.Replay != "" {
		for _, l := range hx.ReplayOps(run.Replay) {
			do(l, true)
		}
		return
	}
	if *pass == "loader" {
		generateLoader()
	} else {
		generate()
	}
	if skipped > 0 {
		run.Note(fmt.Sprintf("%d Utf8ToBig5 cases skipped after %d stalled calls", skipped, timeouts))
	}
}

// validOp: a known op with the right number of hex fields (anything else is answered bad-op by both sides).
func validOp(line string) bool {
	ws := strings.Fields(line)
	if len(ws) == 0 {
		return false
	}
	if isHistOp(line) {
		return validHistOp(ws)
	}
	if ws[0] == "start" {
		return validStartOp(ws)
	}
	if ws[0] == "cfg" {
		if len(ws) != 4 || (ws[1] != "d" && ws[1] != "m") || (ws[2] != "b2u" && ws[2] != "u2b") {
			return false
		}
		ws = ws[2:]
	}
	n, ok := map[string]int{"wf": 0, "b2u": 1, "u2b": 1, "rt": 1, "tbl": 4}[ws[0]]
	if !ok || len(ws) != n+1 {
		return false
	}
	for _, h := range ws[1:] {
		if h == "-" {
			continue
		}
		if len(h)%2 != 0 || strings.Trim(h, "0123456789abcdefABCDEF") != "" {
			return false
		}
	}
	return true
}

// ---- labels -------------------------------------------------------------------------------------

func classify(line, out string) string {
	if isHistOp(line) {
		return classifyHist(line, out)
	}
	ws := strings.Fields(line)
	if ws[0] == "start" {
		switch {
		case out == "INIT-ERR":
			return "start:init-err"
		case strings.Trim(out, "0123456789abcdef") != "" && out != "-":
			return "start:" + out
		case ws[1] == "Rb" && ws[2] == "Ru":
			return "start:real-tables"
		}
		return "start:synthetic-tables"
	}
	suffix := ""
	if out == "PANIC" || out == "TIMEOUT" {
		suffix = ":" + strings.ToLower(out)
	}
	switch ws[0] {
	case "cfg":
		if strings.HasPrefix(out, "INIT-") || out == "child-error" {
			return "cfg-" + ws[1] + ":init-failed"
		}
		return "cfg-" + ws[1] + ":" + classify(ws[2]+" "+ws[3], out)
	case "wf":
		return "wf"
	case "tbl":
		if strings.HasPrefix(out, "PANIC") {
			return "tbl:loader-panic"
		}
		return "tbl:loaded"
	case "b2u":
		return "b2u:" + classB2U(hx.UnHex(ws[1])) + suffix
	case "u2b":
		return "u2b:" + classU2B(hx.UnHex(ws[1])) + suffix
	case "rt":
		if ref.mutualOnly(hx.UnHex(ws[1])) {
			return "rt:mutual" + suffix
		}
		return "rt:other" + suffix
	}
	return "bad-op"
}

func classB2U(s []byte) string {
	var ascii, mapped, unmapped, trunc int
	for i := 0; i < len(s); {
		if s[i] < 0x80 {
			ascii++
			i++
		} else if i+1 >= len(s) {
			trunc++
			i++
		} else {
			if _, ok := ref.b2u[uint16(s[i])<<8|uint16(s[i+1])]; ok {
				mapped++
			} else {
				unmapped++
			}
			i += 2
		}
	}
	return mix(map[string]int{"ascii": ascii, "mapped": mapped, "unmapped": unmapped, "lone-lead-at-end": trunc})
}

func classU2B(s []byte) string {
	c := map[string]int{}
	for i := 0; i < len(s); {
		b := s[i]
		r, n := utf8.DecodeRune(s[i:])
		switch {
		case b < 0x80:
			c["ascii"]++
		case r != utf8.RuneError || n == 3:
			switch n {
			case 2:
				c["2byte"]++
			case 3:
				c["3byte"]++
			default:
				c["4byte"]++
			}
		case b < 0xC0:
			c["lone-cont"]++
		case b == 0xC0 || b == 0xC1 || b >= 0xF5:
			c["bad-lead"]++
		default:
			need := 2
			if b >= 0xE0 {
				need = 3
			}
			if b >= 0xF0 {
				need = 4
			}
			if i+need > len(s) {
				c["truncated"]++
			} else {
				c["ill-formed"]++ // overlong, surrogate or a lead followed by a non-continuation byte
			}
		}
		if n < 1 {
			n = 1
		}
		i += n
	}
	// well-formed: which unit kinds occur; otherwise: the malformed classes that occur
	for _, k := range []string{"4byte", "lone-cont", "bad-lead", "truncated", "ill-formed"} {
		if c[k] > 0 {
			delete(c, "ascii")
			delete(c, "2byte")
			delete(c, "3byte")
			return "malformed:" + mix(c)
		}
	}
	return "wellformed:" + mix(c)
}

func mix(c map[string]int) string {
	order := []string{"ascii", "mapped", "unmapped", "2byte", "3byte", "4byte", "lone-cont", "bad-lead", "truncated", "ill-formed", "lone-lead-at-end"}
	var parts []string
	for _, k := range order {
		if c[k] > 0 {
			parts = append(parts, k)
		}
	}
	if len(parts) == 0 {
		return "empty"
	}
	return strings.Join(parts, "+")
}
