// c15: schedule-level correspondence for concurrent ptt.SetupNewUser (property C15).
//
// A registration thread lives in a (process, goroutine) pair. Process 0 is this process (the
// schedule controller): its threads are goroutines here. Processes 1.. are further server
// processes — this binary re-executed with -mode child — that attach to the same private
// BBSHOME, shared-memory segment and passwd semaphore (bbsenv.Attach) and host goroutines
// that call the real ptt.SetupNewUser. The verif hook points reg.afterCheck / reg.afterLock /
// reg.beforeUnlock stop every thread, wherever it lives, until the controller releases it, so
// every interleaving at those points can be forced, across processes too. A schedule element
// >= 100 starts one more server process that runs cmbbs.PasswdInit (as main_init does) and exits.
package main

import (
	"bufio"
	"bytes"
	"fmt"
	"io"
	"os"
	"os/exec"
	"reflect"
	"runtime"
	"sort"
	"strconv"
	"strings"
	"sync"
	"sync/atomic"
	"syscall"
	"time"
	"unsafe"

	"github.com/Ptt-official-app/go-pttbbs/cache"
	"github.com/Ptt-official-app/go-pttbbs/cmbbs"
	"github.com/Ptt-official-app/go-pttbbs/cmbbs/path"
	"github.com/Ptt-official-app/go-pttbbs/cmsys"
	"github.com/Ptt-official-app/go-pttbbs/ptt"
	"github.com/Ptt-official-app/go-pttbbs/ptttype"
	"github.com/Ptt-official-app/go-pttbbs/types"
	"github.com/Ptt-official-app/go-pttbbs/verifhook"
	"verifharness/internal/bbsenv"
	"verifharness/internal/hx"
)

func goid() string {
	var buf [64]byte
	n := runtime.Stack(buf[:], false)
	f := strings.Fields(string(buf[:n]))
	if len(f) >= 2 {
		return f[1]
	}
	return "?"
}

func userOf(id string) *ptttype.UserecRaw {
	u := &ptttype.UserecRaw{}
	copy(u.UserID[:], id)
	copy(u.Nickname[:], "verif")
	u.Version = ptttype.PASSWD_VERSION
	u.FirstLogin = types.NowTS()
	u.LastLogin = types.NowTS()
	u.UserLevel = ptttype.PERM_DEFAULT
	return u
}

// register: one registration request. newreg = through ptt.NewRegister, the request entry (it builds
// the record from the request and calls SetupNewUser); else ptt.SetupNewUser with a record built here.
// viaRegister: requests that go through the request entry go one level higher still, through ptt.Register
// (NewRegister, then home directory, favourites, login) — ops rregp. Set per history, before any thread starts.
var viaRegister atomic.Bool

func register(id string, newreg bool) error {
	if !newreg {
		return ptt.SetupNewUser(userOf(id))
	}
	userID := &ptttype.UserID_t{}
	copy(userID[:], id)
	ip := &ptttype.IPv4_t{}
	copy(ip[:], "127.0.0.1")
	nick := &ptttype.Nickname_t{}
	copy(nick[:], "verif")
	if viaRegister.Load() {
		_, _, err := ptt.Register(userID, []byte("123123"), ip, &ptttype.Email_t{}, false, false,
			nick, &ptttype.RealName_t{}, &ptttype.Career_t{}, &ptttype.Address_t{}, true)
		return err
	}
	_, _, err := ptt.NewRegister(userID, []byte("123123"), ip, &ptttype.Email_t{}, false, false,
		nick, &ptttype.RealName_t{}, &ptttype.Career_t{}, &ptttype.Address_t{}, true)
	return err
}

func classify(err error) string {
	switch {
	case err == nil:
		return "ok"
	case err == ptttype.ErrUserIDAlreadyExists:
		return "exists"
	case err == cache.ErrInvalidUID:
		return "noslot"
	}
	return "err:" + strings.ReplaceAll(err.Error(), " ", "_")
}

// ---------------------------------------------------------------- child process

// childMain: a further server process. Commands on stdin, reports on stdout:
//
//	init             cmbbs.PasswdInit, as a starting server does   -> inited ok | inited err:...
//	start <tag> <id> a goroutine calls ptt.SetupNewUser(id)        -> at <tag> <point> ... done <tag> <result>
//	go <tag>         release the goroutine from its hook point
//	semval           (diagnostics) value of the passwd semaphore   -> semval <n>
//	quit
//
// <tag> = epoch*64 + thread: the controller drops reports that belong to an earlier schedule.
func childMain(home string, shmKey, semKey int, light bool) {
	var mu sync.Mutex
	out := bufio.NewWriter(os.Stdout)
	say := func(format string, a ...interface{}) {
		mu.Lock()
		fmt.Fprintf(out, format+"\n", a...)
		out.Flush()
		mu.Unlock()
	}
	if _, err := bbsenv.Attach(home, shmKey, semKey, bbsenv.AttachOptions{SkipConfig: light}); err != nil {
		say("fatal %s", strings.ReplaceAll(err.Error(), " ", "_"))
		os.Exit(3)
	}
	tagOf := map[string]int{}
	gate := map[int]chan struct{}{}
	var tmu sync.Mutex
	verifhook.SetOnPoint(func(name string) {
		if !strings.HasPrefix(name, "reg.") {
			return
		}
		tmu.Lock()
		tag, ok := tagOf[goid()]
		ch := gate[tag]
		tmu.Unlock()
		if !ok {
			return
		}
		say("at %d %s", tag, strings.TrimPrefix(name, "reg."))
		<-ch
	})
	say("ready")
	in := bufio.NewScanner(os.Stdin)
	for in.Scan() {
		f := strings.Fields(in.Text())
		if len(f) == 0 {
			continue
		}
		switch f[0] {
		case "init":
			if err := cmbbs.PasswdInit(); err != nil {
				say("inited err:%s", strings.ReplaceAll(err.Error(), " ", "_"))
			} else {
				say("inited ok")
			}
		case "start", "startn", "startr":
			if len(f) < 3 {
				continue
			}
			tag, _ := strconv.Atoi(f[1])
			id := f[2]
			newreg := f[0] != "start"
			viaRegister.Store(f[0] == "startr")
			ch := make(chan struct{}, 1)
			tmu.Lock()
			gate[tag] = ch
			tmu.Unlock()
			go func() {
				g := goid()
				tmu.Lock()
				tagOf[g] = tag
				tmu.Unlock()
				res := hx.CallSync(func() string { return classify(register(id, newreg)) })
				tmu.Lock()
				delete(tagOf, g)
				tmu.Unlock()
				say("done %d %s", tag, res)
			}()
		case "go":
			if len(f) < 2 {
				continue
			}
			tag, _ := strconv.Atoi(f[1])
			tmu.Lock()
			ch := gate[tag]
			tmu.Unlock()
			if ch != nil {
				select {
				case ch <- struct{}{}:
				default:
				}
			}
		case "semval":
			v, err := cmbbs.Sem.GetVal(0)
			if err != nil {
				say("semval err")
			} else {
				say("semval %d", v)
			}
		case "quit":
			return
		}
	}
}

// launcherMain: starts the "a server process starts now" processes on behalf of the controller, so
// that they are not children of a process that hosts registration threads: the SIGCHLD of an exiting
// child would interrupt a semop the controller's own threads are blocked in (EINTR).
//
//	init   start a server process on the environment, let it run PasswdInit, let it exit  -> inited ...
func launcherMain(home string, shmKey, semKey int) {
	env = &bbsenv.Env{Home: home, ShmKey: shmKey, SemKey: semKey}
	in := bufio.NewScanner(os.Stdin)
	for in.Scan() {
		switch strings.TrimSpace(in.Text()) {
		case "init":
			ch, err := spawn("child", "-light", "1") // starts, runs PasswdInit, exits: never converts text
			if err != nil {
				fmt.Printf("inited err:spawn:%s\n", strings.ReplaceAll(err.Error(), " ", "_"))
				continue
			}
			l, ok := ch.ask("init", 10*time.Second)
			if !ok {
				l = "inited err:timeout"
			}
			ch.quit()
			fmt.Println(l)
		case "quit":
			return
		}
	}
}

type child struct {
	cmd    *exec.Cmd
	in     io.WriteCloser
	stderr *bytes.Buffer
	misc   chan string
}

var (
	children   = map[int]*child{} // server processes 1.. that host registration threads; kept between schedules
	launcher   *child
	spawnFails int
	procStarts int
)

// spawn starts one more server process on this environment and waits until it is attached.
func spawn(mode string, more ...string) (*child, error) {
	bin, err := os.Executable()
	if err != nil {
		return nil, err
	}
	cmd := exec.Command(bin, "-mode", mode, "-home", env.Home, "-shmkey", strconv.Itoa(env.ShmKey), "-semkey", strconv.Itoa(env.SemKey))
	cmd.Args = append(cmd.Args, more...)
	in, _ := cmd.StdinPipe()
	outp, _ := cmd.StdoutPipe()
	errBuf := &bytes.Buffer{}
	cmd.Stderr = errBuf
	if err := cmd.Start(); err != nil {
		return nil, err
	}
	procStarts++
	ch := &child{cmd: cmd, in: in, stderr: errBuf, misc: make(chan string, 64)}
	go func() {
		sc := bufio.NewScanner(outp)
		for sc.Scan() {
			f := strings.Fields(sc.Text())
			if len(f) >= 3 && (f[0] == "at" || f[0] == "done") {
				tag, _ := strconv.Atoi(f[1])
				deliver(tag, event{f[0], f[2]})
			} else {
				select {
				case ch.misc <- sc.Text():
				default:
				}
			}
		}
		close(ch.misc)
	}()
	if mode != "child" {
		return ch, nil
	}
	if l, ok := ch.ask("", 20*time.Second); !ok || l != "ready" {
		ch.kill()
		return nil, fmt.Errorf("server process did not attach: %q %s", l, errBuf.String())
	}
	return ch, nil
}

// ask sends a command (if any) and waits for the next non-event line.
func (ch *child) ask(cmd string, grace time.Duration) (string, bool) {
	if cmd != "" {
		fmt.Fprintln(ch.in, cmd)
	}
	select {
	case l, ok := <-ch.misc:
		return l, ok
	case <-time.After(grace):
		return "TIMEOUT", false
	}
}

func (ch *child) quit() {
	fmt.Fprintln(ch.in, "quit")
	ch.in.Close()
	done := make(chan struct{})
	go func() { _ = ch.cmd.Wait(); close(done) }()
	select {
	case <-done:
	case <-time.After(3 * time.Second):
		_ = ch.cmd.Process.Kill()
		<-done
	}
}

func (ch *child) kill() {
	_ = ch.cmd.Process.Kill()
	ch.in.Close()
	_ = ch.cmd.Wait()
}

// hostProc returns the server process p (>= 1), starting and initialising it when needed.
func hostProc(p int) (*child, error) {
	if ch, ok := children[p]; ok {
		return ch, nil
	}
	ch, err := spawn("child")
	if err != nil {
		return nil, err
	}
	if l, ok := ch.ask("init", 10*time.Second); !ok || l != "inited ok" {
		ch.kill()
		return nil, fmt.Errorf("PasswdInit in a new server process: %s", l)
	}
	children[p] = ch
	return ch, nil
}

func closeChildren(hard bool) {
	if launcher != nil && !hard {
		launcher.quit()
		launcher = nil
	}
	for p, ch := range children {
		if hard {
			ch.kill()
		} else {
			ch.quit()
		}
		delete(children, p)
	}
}

// ---------------------------------------------------------------- controller

type event struct {
	kind string // at | done
	arg  string
}

type fail struct{ key, what string }

type ctl struct {
	mu      sync.Mutex
	epoch   int
	tidOf   map[string]int // goroutines of this process
	procs   []int          // thread -> process (0 = this process)
	newreg  bool           // requests go through ptt.NewRegister (ops nregp / nregx)
	viaReg  bool           // … through ptt.Register (ops rregp)
	legacy  bool           // `reg` ops: a release into the lock segment while another thread waits is not driven
	gate    []chan struct{}
	events  []chan event
	state   []string
	started []bool
	blocked []bool
	done    []bool
	ids     []string
	errs    []string
	fails   []fail // P-hat observations made while the schedule runs
	wakes   []int  // waiters the kernel was seen to hand the semaphore to, not yet written to the schedule
	inits   int
	eintr   bool
	// expiry family: the aloha list of the expirable account is a FIFO; whoever tears the account down
	// (killUser, before PasswdLock) stays in friendDeleteAll until the write end, held here, is closed
	fifo      string
	wfd       int  // write end while a thread is held in the tear-down, else -1
	cleanSeen bool // the tear-down has been entered once
}

var (
	cur    *ctl
	curMu  sync.Mutex
	epochs int
)

func setCur(c *ctl) {
	curMu.Lock()
	cur = c
	curMu.Unlock()
}

func getCur() *ctl {
	curMu.Lock()
	defer curMu.Unlock()
	return cur
}

// deliver hands a report of a child-process thread to the schedule it belongs to.
func deliver(tag int, ev event) {
	c := getCur()
	if c == nil || tag/64 != c.epoch || tag%64 >= len(c.events) {
		return
	}
	select {
	case c.events[tag%64] <- ev:
	default:
	}
}

func hook(name string) {
	if !strings.HasPrefix(name, "reg.") {
		return
	}
	c := getCur()
	if c == nil {
		return
	}
	c.mu.Lock()
	tid, ok := c.tidOf[goid()]
	c.mu.Unlock()
	if !ok {
		return
	}
	c.events[tid] <- event{"at", strings.TrimPrefix(name, "reg.")}
	<-c.gate[tid]
}

func newCtl(ids []string, procs []int, legacy bool) *ctl {
	n := len(ids)
	epochs++
	c := &ctl{tidOf: map[string]int{}, ids: ids, procs: procs, legacy: legacy, epoch: epochs, wfd: -1}
	for t := 0; t < n; t++ {
		c.gate = append(c.gate, make(chan struct{}, 1))
		c.events = append(c.events, make(chan event, 8))
		c.state = append(c.state, "start")
	}
	c.started = make([]bool, n)
	c.blocked = make([]bool, n)
	c.done = make([]bool, n)
	return c
}

func (c *ctl) tag(t int) int { return c.epoch*64 + t }

func (c *ctl) start(t int) {
	if p := c.procs[t]; p != 0 {
		ch, err := hostProc(p)
		if err != nil {
			c.errs = append(c.errs, fmt.Sprintf("harness: server process %d: %v", p, err))
			spawnFails++
			return
		}
		cmd := "start"
		if c.newreg {
			cmd = "startn"
		}
		if c.newreg && c.viaReg {
			cmd = "startr"
		}
		fmt.Fprintf(ch.in, "%s %d %s\n", cmd, c.tag(t), c.ids[t])
		return
	}
	go func() {
		c.mu.Lock()
		c.tidOf[goid()] = t
		c.mu.Unlock()
		res := hx.CallSync(func() string { return classify(register(c.ids[t], c.newreg)) })
		c.events[t] <- event{"done", res}
	}()
}

// goOn releases thread t from the hook point it is stopped at.
func (c *ctl) goOn(t int) {
	if p := c.procs[t]; p != 0 {
		if ch, ok := children[p]; ok {
			fmt.Fprintf(ch.in, "go %d\n", c.tag(t))
		}
		return
	}
	c.gate[t] <- struct{}{}
}

// inside: the thread is known to be stopped at a hook point between reg.afterLock and the post.
func inside(st string) bool { return st == "locked" || st == "unlocking" }

func (c *ctl) apply(t int, ev event) {
	c.blocked[t] = false
	if ev.kind == "done" {
		c.done[t] = true
		c.state[t] = ev.arg
		if strings.Contains(ev.arg, "interrupted") {
			c.eintr = true
		}
		return
	}
	switch ev.arg {
	case "afterCheck":
		c.state[t] = "checked"
	case "afterLock":
		// positive observation: t reports from inside the locked section while u is stopped inside it
		for u := range c.state {
			if u != t && inside(c.state[u]) {
				where := "reg.afterLock"
				if c.state[u] == "unlocking" {
					where = "reg.beforeUnlock"
				}
				extra := ""
				if c.inits > 0 {
					extra = fmt.Sprintf(" (%d server process(es) had started meanwhile)", c.inits)
				}
				c.fails = append(c.fails, fail{"sem:two-holders", fmt.Sprintf(
					"registration %d (process %d, id %q) reached reg.afterLock while registration %d (process %d, id %q) was stopped at %s inside the locked section%s",
					t, c.procs[t], c.ids[t], u, c.procs[u], c.ids[u], where, extra)})
			}
		}
		c.state[t] = "locked"
	case "beforeUnlock":
		c.state[t] = "unlocking"
	}
}

func (c *ctl) await(t int, grace time.Duration) bool {
	select {
	case ev := <-c.events[t]:
		c.apply(t, ev)
		return true
	case <-time.After(grace):
		return false
	}
}

// awaitAny waits for the first report of any of the threads ts.
func (c *ctl) awaitAny(ts []int, grace time.Duration) (int, bool) {
	var cases []reflect.SelectCase
	for _, u := range ts {
		cases = append(cases, reflect.SelectCase{Dir: reflect.SelectRecv, Chan: reflect.ValueOf(c.events[u])})
	}
	cases = append(cases, reflect.SelectCase{Dir: reflect.SelectRecv, Chan: reflect.ValueOf(time.After(grace))})
	i, v, _ := reflect.Select(cases)
	if i == len(ts) {
		return -1, false
	}
	c.apply(ts[i], v.Interface().(event))
	return ts[i], true
}

// early collects, without waiting, reports of threads that are taken to be blocked in semop: on
// code that keeps the property there are none while somebody holds the semaphore.
func (c *ctl) early() {
	for u := range c.blocked {
		if !c.blocked[u] {
			continue
		}
		select {
		case ev := <-c.events[u]:
			c.apply(u, ev)
		default:
		}
	}
}

func (c *ctl) semHeld() bool {
	for _, s := range c.state {
		if inside(s) {
			return true
		}
	}
	return false
}

func (c *ctl) waiters() []int {
	var ws []int
	for u, b := range c.blocked {
		if b {
			ws = append(ws, u)
		}
	}
	return ws
}

const (
	grace = 5 * time.Second
	// how long a thread released towards a taken semaphore is watched until it either reports (it got
	// past the semaphore) or the kernel counts it among the waiters of the semaphore (GETNCNT); when
	// neither is seen in that time it is taken to be blocked (what the model says too) — a later report
	// is still picked up by early()
	probeMax = 100 * time.Millisecond
	// the same without GETNCNT
	probeBlind = 20 * time.Millisecond
)

// semWaiters: how many threads the kernel has waiting in semop for the passwd semaphore to rise
// (semctl GETNCNT); -1 when it cannot be asked.
func semWaiters() int {
	if cmbbs.Sem == nil {
		return -1
	}
	const getNcnt = 14
	r, _, e := syscall.Syscall6(syscall.SYS_SEMCTL, uintptr(cmbbs.Sem.SemID), 0, getNcnt, 0, 0, 0)
	if e != 0 {
		return -1
	}
	return int(r)
}

// watchBlocked: thread t has been released towards a semaphore that a stopped thread holds. Returns
// true when t reported instead of blocking (the report has been applied).
func (c *ctl) watchBlocked(t int, want int) bool {
	if semWaiters() < 0 {
		return c.await(t, probeBlind)
	}
	deadline := time.Now().Add(probeMax)
	for {
		select {
		case ev := <-c.events[t]:
			c.apply(t, ev)
			return true
		default:
		}
		if semWaiters() >= want {
			confirmed++
			return false
		}
		if time.Now().After(deadline) {
			return false
		}
		time.Sleep(100 * time.Microsecond)
	}
}

var stalls, probes, confirmed int

func (c *ctl) stalled(t int, what string) {
	stalls++
	c.errs = append(c.errs, fmt.Sprintf("thread %d (process %d) %s", t, c.procs[t], what))
	c.state[t] = "TIMEOUT"
	c.done[t] = true
	c.blocked[t] = false
}

func (c *ctl) release(t int) {
	c.early()
	if c.done[t] || c.blocked[t] {
		return
	}
	if !c.started[t] {
		c.started[t] = true
		held := c.semHeld()
		c.start(t)
		if held {
			// the call can return or reach reg.afterCheck without the semaphore; if instead the kernel counts one
			// more waiter, the request went for the passwd lock before its first point (the model never does)
			deadline := time.Now().Add(2 * grace)
			want := len(c.waiters()) + 1
			for {
				select {
				case ev := <-c.events[t]:
					c.apply(t, ev)
					return
				default:
				}
				if n := semWaiters(); n >= want {
					c.blocked[t] = true
					c.state[t] = "blocked"
					return
				}
				if time.Now().After(deadline) {
					c.stalled(t, "did not reach its first point")
					return
				}
				time.Sleep(100 * time.Microsecond)
			}
		}
		if !c.await(t, 2*grace) {
			c.stalled(t, "did not reach its first point")
		}
		return
	}
	switch c.state[t] {
	case "checked":
		if c.legacy && len(c.waiters()) > 0 {
			return // not driven in `reg` ops (same rule in the model's `release`)
		}
		held := c.semHeld()
		c.goOn(t)
		if c.fifo != "" && !c.cleanSeen {
			c.watchKill(t, held)
			return
		}
		if held {
			// a holder is stopped inside the locked section, so this thread can only end up waiting in
			// semop; its arrival at reg.afterLock is collected when the holder posts. If it reports
			// before that, it got past the semaphore next to the holder (apply records it).
			probes++
			if !c.watchBlocked(t, len(c.waiters())+1) {
				c.blocked[t] = true
				c.state[t] = "blocked"
			}
			return
		}
		if !c.await(t, grace) {
			c.stalled(t, "stalled taking a free semaphore")
		}
	case "killing":
		// let the tear-down finish (zero record), the thread goes on to the semaphore
		held := c.semHeld()
		_ = syscall.Close(c.wfd)
		c.wfd = -1
		if held {
			probes++
			if !c.watchBlocked(t, len(c.waiters())+1) {
				c.blocked[t] = true
				c.state[t] = "blocked"
			}
			return
		}
		if !c.await(t, grace) {
			c.stalled(t, "stalled after the clean-up")
		}
	case "locked":
		// every other thread is stopped, blocked or held: what changes in the index now is this thread's
		// doing. The slot it writes must have been empty (the `pick` hypothesis of the theorems).
		was := slotIDs()
		c.goOn(t)
		if !c.await(t, grace) {
			c.stalled(t, "stalled under the lock")
		}
		for k, id := range slotIDs() {
			if was[k] != "" && id != was[k] {
				c.fails = append(c.fails, fail{"pick:slot-not-empty", fmt.Sprintf(
					"registration %d (id %q) was given slot %d under the lock although it held id %q: now it holds %q", t, c.ids[t], k+1, was[k], id)})
			}
		}
	case "unlocking":
		ws := c.waiters()
		c.goOn(t)
		if !c.await(t, grace) {
			c.stalled(t, "stalled returning")
			return
		}
		if len(ws) == 0 {
			return
		}
		// the semaphore is posted: exactly one waiter gets it — which one is the kernel's choice
		u, ok := c.awaitAny(ws, grace)
		if !ok {
			for _, w := range ws {
				c.stalled(w, "did not get the semaphore after it was posted")
			}
			return
		}
		if len(ws) > 1 {
			c.wakes = append(c.wakes, 50+u)
		}
	}
}

// watchKill: thread t has been released from reg.afterCheck on a full table with a stale .fresh: it is
// about to walk the table and tear the expirable account down. Positive observations only: the FIFO has
// a reader (open for writing succeeds) = the thread sits in killUser → "killing"; or it reports; or (the
// semaphore being taken) the kernel counts it as a waiter.
func (c *ctl) watchKill(t int, held bool) {
	deadline := time.Now().Add(grace)
	for {
		select {
		case ev := <-c.events[t]:
			c.apply(t, ev)
			return
		default:
		}
		if fd, err := syscall.Open(c.fifo, syscall.O_WRONLY|syscall.O_NONBLOCK, 0); err == nil {
			c.wfd = fd
			c.cleanSeen = true
			c.state[t] = "killing"
			return
		}
		if held && semWaiters() >= len(c.waiters())+1 {
			c.blocked[t] = true
			c.state[t] = "blocked"
			return
		}
		if time.Now().After(deadline) {
			c.stalled(t, "neither entered the clean-up nor reached the lock")
			return
		}
		time.Sleep(100 * time.Microsecond)
	}
}

// startProc: one more server process starts on this environment, runs PasswdInit and exits.
func (c *ctl) startProc() {
	c.early()
	c.inits++
	procStarts++
	if launcher == nil {
		l, err := spawn("launcher")
		if err != nil {
			c.errs = append(c.errs, "harness: could not start the launcher: "+err.Error())
			spawnFails++
			return
		}
		launcher = l
	}
	l, ok := launcher.ask("init", 30*time.Second)
	if !ok || strings.HasPrefix(l, "inited err:spawn") {
		c.errs = append(c.errs, "harness: could not start a server process: "+l)
		spawnFails++
		launcher.kill()
		launcher = nil
		return
	}
	if l != "inited ok" {
		c.fails = append(c.fails, fail{"init:failed", "cmbbs.PasswdInit in a starting server process: " + l})
	}
	c.early()
}

var debugChains bool

var (
	run      *hx.Run
	env      *bbsenv.Env
	pristine []byte
)

func fold(id string) string { return strings.ToLower(id) }

// slotIDs reads the ids currently in the shared index, slot by slot.
func slotIDs() []string {
	out := make([]string, ptttype.MAX_USERS)
	for uid := 1; uid <= ptttype.MAX_USERS; uid++ {
		id, err := cache.GetUserID(ptttype.UID(uid))
		if err == nil {
			out[uid-1] = types.CstrToString(id[:])
		}
	}
	return out
}

func diskIDs() []string {
	b, _ := os.ReadFile(ptttype.FN_PASSWD)
	out := make([]string, ptttype.MAX_USERS)
	sz := int(ptttype.USEREC_RAW_SZ)
	off := int(unsafe.Offsetof(ptttype.USEREC_RAW.UserID))
	for k := 0; k < ptttype.MAX_USERS && (k+1)*sz <= len(b); k++ {
		f := b[k*sz+off : k*sz+off+ptttype.IDLEN+1]
		if i := bytes.IndexByte(f, 0); i >= 0 {
			f = f[:i]
		}
		out[k] = string(f)
	}
	return out
}

func semValue() int {
	v, err := cmbbs.Sem.GetVal(0)
	if err != nil {
		return -1
	}
	return v
}

// colliders: valid ids whose hash bucket in the id index is the bucket of the empty id, i.e. the bucket
// that chains the free slots (computed with the repository's own hash function).
var colliders []string

func findColliders(n int) {
	e := &ptttype.UserID_t{}
	h0 := cmsys.StringHashWithHashBits(e[:])
	for i := 0; len(colliders) < n && i < 40000000; i++ {
		id := fmt.Sprintf("bk%07d", i)
		u := &ptttype.UserID_t{}
		copy(u[:], id)
		if cmsys.StringHashWithHashBits(u[:]) == h0 {
			colliders = append(colliders, id)
		}
	}
}

func colliderOf(id string) int {
	for k, c := range colliders {
		if fold(c) == fold(id) {
			return k
		}
	}
	return -1
}

var expiryTrash []string
var homesDirty bool

// reset builds the table of a history: the fixture, fillers up to fillTo accounts, then the ids of `pre`
// (followed by a reload of the index from .PASSWDS, so that the bucket chains are in slot order); with
// victim >= 0 the account in that slot (0-based; a filler) has not logged in for 400 days, .fresh is
// missing or stale, and the account's aloha list is a FIFO (returned).
func reset(fillTo int, pre []string, victim int, staleFresh bool) (fifo string) {
	for _, d := range expiryTrash {
		_ = os.RemoveAll(d)
	}
	expiryTrash = nil
	if homesDirty {
		// ptt.Register made home directories: every history starts without the homes of earlier ones
		homesDirty = false
		letters, _ := os.ReadDir(env.Path("home"))
		for _, l := range letters {
			if len(l.Name()) != 1 {
				continue
			}
			es, _ := os.ReadDir(env.Path("home", l.Name()))
			for _, e := range es {
				_ = os.RemoveAll(env.Path("home", l.Name(), e.Name()))
			}
		}
	}
	_ = os.WriteFile(ptttype.FN_PASSWD, pristine, 0o644)
	_ = os.WriteFile(ptttype.FN_FRESH, []byte("fresh"), 0o644)
	if err := env.ResetSHM(); err != nil {
		panic(err)
	}
	defer func() {
		for _, id := range pre {
			if err := ptt.SetupNewUser(userOf(id)); err != nil {
				panic(fmt.Sprintf("pre: %v", err))
			}
		}
		if len(pre) > 0 {
			if err := env.ResetSHM(); err != nil {
				panic(err)
			}
		}
		if victim < 0 {
			return
		}
		uid := ptttype.UID(victim + 1)
		rec, err := cmbbs.PasswdQuery(uid)
		if err != nil || rec.UserID[0] == 0 {
			panic(fmt.Sprintf("expiry: no account in slot %d: %v", victim+1, err))
		}
		rec.LastLogin = types.NowTS() - 400*86400
		rec.UserLevel &^= ptttype.PERM_XEMPT
		if err := cmbbs.PasswdUpdate(uid, rec); err != nil {
			panic(err)
		}
		if staleFresh {
			old := time.Now().Add(-3 * time.Hour)
			_ = os.Chtimes(ptttype.FN_FRESH, old, old)
		} else {
			_ = os.Remove(ptttype.FN_FRESH)
		}
		home := path.SetHomePath(&rec.UserID)
		_ = os.RemoveAll(home)
		if err := os.MkdirAll(home, 0o755); err != nil {
			panic(err)
		}
		fifo, err = path.SetHomeFile(&rec.UserID, ptttype.FriendFile[ptttype.FRIEND_ALOHA])
		if err != nil {
			panic(err)
		}
		if err := syscall.Mkfifo(fifo, 0o600); err != nil {
			panic(err)
		}
		expiryTrash = append(expiryTrash, home, env.Path(ptttype.DIR_TMP, types.CstrToString(rec.UserID[:])))
	}()
	// optionally fill the table so that only (MAX_USERS - fillTo) slots stay free
	n := 0
	for _, id := range slotIDs() {
		if id != "" {
			n++
		}
	}
	for k := 0; n < fillTo; k++ {
		if err := ptt.SetupNewUser(userOf(fmt.Sprintf("filler%03d", k))); err != nil {
			panic(fmt.Sprintf("fill: %v", err))
		}
		n++
	}
	return fifo
}

type codes struct {
	m map[string]int
}

func (c *codes) of(id string) int {
	f := fold(id)
	if f == "" {
		return 0
	}
	if k := colliderOf(id); k >= 0 {
		return 900 + k
	}
	if v, ok := c.m[f]; ok {
		return v
	}
	c.m[f] = len(c.m) + 1
	return c.m[f]
}

func join(xs []int) string {
	if len(xs) == 0 {
		return "-"
	}
	s := make([]string, len(xs))
	for i, x := range xs {
		s[i] = strconv.Itoa(x)
	}
	return strings.Join(s, ",")
}

// a case: who registers what where, on which table, in which order
type kase struct {
	ids    []string
	procs  []int // nil = `reg` op (threads of this process, one waiter at most)
	fillTo int
	sched  []int
	label  string
	pre    []string // registered before the history, then the index is reloaded (ids of the `colliders` pool)
	victim int      // expiry family (`regx` ops): 1 + the slot (0-based) of the account to expire; 0 = none
	newreg bool     // through ptt.NewRegister (ops nregp / nregx)
	viaReg bool     // with newreg: through ptt.Register (ops rregp / rregx)
	stale  bool     // expiry family: .fresh exists but is three hours old (else it is missing)
}

var skippedNoted bool
var expiredKeptInIndex int
var lastStates string

func runSchedule(k kase, nontrivial bool) {
	if stalls > 6 || spawnFails > 3 {
		if !skippedNoted {
			skippedNoted = true
			run.Note("more than 6 five-second stalls (or server processes that do not start): remaining schedules skipped (failures recorded above)")
		}
		return
	}
	for attempt := 0; attempt < 6; attempt++ {
		if runScheduleOnce(k, nontrivial, attempt == 5) {
			return
		}
		run.Extra["eintr_retries"] = asInt(run.Extra["eintr_retries"]) + 1
		if os.Getenv("C15_DEBUG") != "" {
			fmt.Fprintf(os.Stderr, "eintr: ids %v procs %v sched %v: %s\n", k.ids, k.procs, k.sched, lastStates)
		}
	}
}

func asInt(v interface{}) int {
	if i, ok := v.(int); ok {
		return i
	}
	return 0
}

// returns false when the run was disturbed by an interrupted semop (EINTR under Go's
// preemption signals makes a registration fail cleanly, which the property allows but the
// schedule-level model does not predict) and should be repeated.
func runScheduleOnce(k kase, nontrivial bool, final bool) bool {
	ids, sched := k.ids, k.sched
	fifo := reset(k.fillTo, k.pre, k.victim-1, k.stale)
	n := len(ids)
	legacy := k.procs == nil
	procs := k.procs
	if legacy {
		procs = make([]int, n)
	}
	c := newCtl(ids, procs, legacy)
	c.newreg = k.newreg && !legacy
	c.viaReg = c.newreg && k.viaReg
	viaRegister.Store(c.viaReg)
	if c.viaReg {
		homesDirty = true
	}
	c.fifo = fifo
	defer func() {
		if c.wfd >= 0 {
			_ = syscall.Close(c.wfd)
		}
	}()
	setCur(c)
	before := slotIDs()
	cd := &codes{m: map[string]int{}}
	var taken []int
	for _, id := range before {
		taken = append(taken, cd.of(id))
	}
	var idc []int
	for _, id := range ids {
		idc = append(idc, cd.of(id))
	}
	observe := func() string {
		now, dsk := slotIDs(), diskIDs()
		var ni, nd []int
		for k := range now {
			if before[k] == "" && now[k] != "" {
				ni = append(ni, cd.of(now[k]))
			}
			if before[k] == "" && dsk[k] != "" {
				nd = append(nd, cd.of(dsk[k]))
			}
		}
		sort.Ints(ni)
		sort.Ints(nd)
		f := func(xs []int) string {
			s := make([]string, len(xs))
			for i, x := range xs {
				s[i] = strconv.Itoa(x)
			}
			return strings.Join(s, ",")
		}
		out := strings.Join(c.state, " ") + " | " + f(ni) + " | " + f(nd)
		if k.victim > 0 {
			out += fmt.Sprintf(" | %d:%d", cd.of(now[k.victim-1]), cd.of(dsk[k.victim-1]))
		}
		return out
	}
	opOf := func(full []int) string {
		if legacy {
			return fmt.Sprintf("reg %d %s %s %s", ptttype.MAX_USERS, join(taken), join(idc), join(full))
		}
		pre := ""
		if c.newreg {
			pre = "n"
		}
		if c.viaReg {
			pre = "r"
		}
		if k.victim > 0 {
			return pre + fmt.Sprintf("regx %d %s %s %s %d %s", ptttype.MAX_USERS, join(taken), join(idc), join(procs), k.victim-1, join(full))
		}
		return pre + fmt.Sprintf("regp %d %s %s %s %s", ptttype.MAX_USERS, join(taken), join(idc), join(procs), join(full))
	}
	type rec struct{ op, obs, label string }
	var recs []rec
	var full []int
	for i, e := range sched {
		label := k.label
		if label == "" {
			label = "prefix"
		}
		switch {
		case e >= 100:
			if legacy {
				continue
			}
			c.startProc()
			full = append(full, e)
			label = "init"
		case e >= 50 || e >= n:
			continue // wake elements are written from what is observed, never driven
		default:
			c.release(e)
			full = append(full, e)
			if len(c.wakes) > 0 {
				full = append(full, c.wakes...)
				c.wakes = nil
				label = "wake"
			}
		}
		if debugChains {
			e0 := &ptttype.UserID_t{}
			fmt.Fprintf(os.Stderr, "after %d: %v | sem %d | empties head %d", e, c.state, semValue(), cache.Shm.Shm.HashHead[cmsys.StringHashWithHashBits(e0[:])])
			for _, id := range ids {
				u := userOf(id)
				fmt.Fprintf(os.Stderr, " head(%s)=%d", id, cache.Shm.Shm.HashHead[cmsys.StringHashWithHashBits(u.UserID[:])])
			}
			fmt.Fprintln(os.Stderr)
		}
		if i == len(sched)-1 {
			label = "complete"
		}
		recs = append(recs, rec{opOf(full), observe(), label})
	}
	for round := 0; round < 12; round++ {
		pending := false
		for t := 0; t < n; t++ {
			if !c.done[t] {
				pending = true
				c.release(t)
				full = append(full, t)
				full = append(full, c.wakes...)
				c.wakes = nil
				recs = append(recs, rec{opOf(full), observe(), "drain"})
			}
		}
		if !pending {
			break
		}
	}
	setCur(nil)
	clean := len(c.errs) == 0
	for t := 0; t < n; t++ {
		if !c.done[t] || c.state[t] == "TIMEOUT" {
			clean = false
		}
	}
	if !clean {
		// threads may be stuck inside the server processes: start from new ones next time
		closeChildren(true)
	}
	if c.eintr && !final {
		lastStates = strings.Join(c.state, " ")
		return false
	}
	last := -1
	for i, r := range recs {
		last = run.Op(r.op, r.obs, r.label, nontrivial && i == len(recs)-1)
	}
	if last < 0 {
		return true
	}
	// ---- P-hat --------------------------------------------------------------------
	for _, f := range c.fails {
		run.Fail(last, f.key, f.what+" — "+observe())
	}
	for _, e := range c.errs {
		if strings.HasPrefix(e, "harness:") {
			run.Fail(last, "harness:process", e)
		} else {
			run.Fail(last, "stall", e)
		}
	}
	for t := 0; t < n; t++ {
		if !c.done[t] {
			run.Fail(last, "harness:incomplete-schedule", "not every registration returned: "+observe())
			return true
		}
	}
	// nobody is registering any more: the passwd semaphore is free, once
	if v := semValue(); v != 1 {
		run.Fail(last, "sem:value-after", fmt.Sprintf("after every registration returned the passwd semaphore has the value %d, not 1 (%s)", v, observe()))
		// reported; the next history starts from a free semaphore again (server processes first: SETVAL clears their undo counts)
		closeChildren(true)
		_ = cmbbs.Sem.SetVal(0, 1)
	}
	now, dsk := slotIDs(), diskIDs()
	okByFold := map[string][]int{}
	for t := 0; t < n; t++ {
		if c.state[t] == "ok" {
			okByFold[fold(ids[t])] = append(okByFold[fold(ids[t])], t)
		}
	}
	for f, ts := range okByFold {
		if len(ts) > 1 {
			run.Fail(last, "dup-id-race", fmt.Sprintf("registrations %v of the same id %q all reported success (%s)", ts, f, observe()))
		}
	}
	// no two slots hold the same id (case-insensitively); every slot agrees with .PASSWDS
	seen := map[string]int{}
	for k, id := range now {
		if id == "" {
			continue
		}
		if j, dup := seen[fold(id)]; dup {
			run.Fail(last, "dup-id-race", fmt.Sprintf("slots %d and %d both hold id %q after the run (%s)", j+1, k+1, id, observe()))
		}
		seen[fold(id)] = k
	}
	vict := k.victim - 1
	for k := range now {
		if k == vict {
			// the slot of the account the clean-up before the lock tore down. Whatever the clean-up does with the
			// index, a request that reported success must own index AND record of its slot.
			switch {
			case now[k] == dsk[k]: // both empty, or both the id of a (successful, checked below) request
			case now[k] == before[k] && dsk[k] == "":
				// what the source does today: record zeroed, id stays in the index (the slot is never reused)
				expiredKeptInIndex++
			default:
				run.Fail(last, "expiry:slot-state", fmt.Sprintf("slot %d of the expired account %q: the index has %q, .PASSWDS has %q — the clean-up that runs before the passwd lock and a registration under the lock both wrote the slot (%s)", k+1, before[k], now[k], dsk[k], observe()))
			}
			continue
		}
		if now[k] != dsk[k] {
			run.Fail(last, "index-disk-disagree", fmt.Sprintf("slot %d: index has %q, .PASSWDS has %q", k+1, now[k], dsk[k]))
		}
		if before[k] != "" && now[k] != before[k] {
			run.Fail(last, "slot-overwritten", fmt.Sprintf("slot %d held %q before and %q after", k+1, before[k], now[k]))
		}
	}
	// the new ids are exactly the successful requests
	var newIds, succ []string
	for k := range now {
		if (before[k] == "" && now[k] != "") || (k == vict && now[k] != "" && now[k] != before[k]) {
			newIds = append(newIds, fold(now[k]))
		}
	}
	for t := 0; t < n; t++ {
		if c.state[t] == "ok" {
			succ = append(succ, fold(ids[t]))
		}
	}
	sort.Strings(newIds)
	sort.Strings(succ)
	if strings.Join(newIds, ",") != strings.Join(succ, ",") {
		run.Fail(last, "success-set", fmt.Sprintf("new ids in the table %v, requests that reported success %v", newIds, succ))
	}
	// lookups resolve every successful id to a distinct slot
	slots := map[ptttype.UID]int{}
	for t := 0; t < n; t++ {
		if c.state[t] != "ok" {
			continue
		}
		uid, err := cache.SearchUserRaw(&userOf(ids[t]).UserID, nil)
		if err != nil || uid == 0 {
			u := userOf(ids[t])
			h := cmsys.StringHashWithHashBits(u.UserID[:])
			chain := []int{}
			for p, n := cache.Shm.Shm.HashHead[h], 0; p != -1 && n < 60; p, n = cache.Shm.Shm.NextInHash[p], n+1 {
				chain = append(chain, int(p))
			}
			run.Fail(last, "lookup", fmt.Sprintf("successful id %q is not found afterwards (err %v; bucket %d chain %v; slots %v)", ids[t], err, h, chain, now[40:]))
			continue
		}
		if u, dup := slots[uid]; dup && fold(ids[u]) != fold(ids[t]) {
			run.Fail(last, "shared-slot", fmt.Sprintf("ids %q and %q share slot %d", ids[u], ids[t], uid))
		}
		slots[uid] = t
	}
	return true
}

func interleavings(counts []int, emit func([]int)) {
	total := 0
	for _, c := range counts {
		total += c
	}
	cur := make([]int, 0, total)
	left := append([]int{}, counts...)
	var rec func()
	rec = func() {
		if len(cur) == total {
			emit(append([]int{}, cur...))
			return
		}
		for t := range left {
			if left[t] > 0 {
				left[t]--
				cur = append(cur, t)
				rec()
				cur = cur[:len(cur)-1]
				left[t]++
			}
		}
	}
	rec()
}

// randomSchedule: a random interleaving of 4 releases per thread; with inits > 0, that many
// "a server process starts" elements at random places after the first two releases.
func randomSchedule(n, inits int) []int {
	left := make([]int, n)
	for i := range left {
		left[i] = 4
	}
	var s []int
	for {
		var cand []int
		for t, l := range left {
			if l > 0 {
				cand = append(cand, t)
			}
		}
		if len(cand) == 0 {
			break
		}
		t := cand[run.R.Intn(len(cand))]
		left[t]--
		s = append(s, t)
	}
	return withInits(s, inits)
}

func withInits(s []int, inits int) []int {
	out := append([]int{}, s...)
	for k := 0; k < inits; k++ {
		at := 2 + run.R.Intn(len(out)-2)
		out = append(out[:at], append([]int{100 + k}, out[at:]...)...)
	}
	return out
}

// peerMain: a second server process that takes and releases the passwd lock a few times and exits.
func peerMain(semKey int) {
	bbsenv.Quiet()
	ptttype.PASSWDSEM_KEY = semKey
	if err := cmbbs.PasswdInit(); err != nil {
		fmt.Println("peer: init", err)
		os.Exit(3)
	}
	for i := 0; i < 3; i++ {
		if err := cmbbs.PasswdLock(); err != nil {
			fmt.Println("peer: lock", err)
			os.Exit(3)
		}
		_ = cmbbs.PasswdUnlock()
	}
	os.Exit(0)
}

// peerPhase: after another process that used the passwd lock has exited, the lock must still
// exclude: two registrations released into the locked section must not both be inside it.
func peerPhase() {
	bin, _ := os.Executable()
	out, err := exec.Command(bin, "-mode", "peer", "-semkey", strconv.Itoa(env.SemKey), "-out", os.TempDir()).CombinedOutput()
	if err != nil {
		i := run.Op("peer 0", "peer-failed", "peer", false)
		run.Fail(i, "harness:peer", fmt.Sprintf("peer process failed: %v %s", err, out))
		return
	}
	ids := []string{"peerid01", "PEERID01"}
	for round := 0; round < 3; round++ {
		reset(0, nil, -1, false)
		c := newCtl(ids, []int{0, 0}, true)
		setCur(c)
		c.release(0)            // -> checked
		c.release(0)            // -> locked
		c.release(1)            // -> checked
		c.gate[1] <- struct{}{} // into semWait while thread 0 holds the lock
		both := c.await(1, 300*time.Millisecond) && c.state[1] == "locked"
		verdict := "excluded"
		if both {
			verdict = "two-holders"
		}
		// the model's answer to this op is the constant "excluded" (mutual_exclusion is a theorem)
		i := run.Op(fmt.Sprintf("peer %d", round), verdict, "peer", true)
		if both {
			run.Fail(i, "sem:two-holders", "after a peer process that had used the passwd lock exited, two registrations were inside the locked section at the same time")
		}
		// drain
		if !both {
			c.blocked[1] = true
			c.state[1] = "blocked"
		}
		for k := 0; k < 12 && !(c.done[0] && c.done[1]); k++ {
			c.release(0)
			c.release(1)
		}
		setCur(nil)
	}
}

// exitPhase: the server processes exit (each has taken and released the passwd lock many times): the
// kernel applies their SEM_UNDO counts; the semaphore must be free, once.
func exitPhase() {
	if len(children) == 0 {
		// (replay) let two server processes register a few users first
		all2 := [][]int{}
		interleavings([]int{4, 4}, func(s []int) { all2 = append(all2, s) })
		for i := 0; i < 6; i++ {
			runSchedule(kase{ids: []string{"exit1", "EXIT1"}, procs: []int{1, 2}, sched: all2[(i*13)%len(all2)], label: "cross"}, true)
		}
	}
	nw := len(children)
	closeChildren(false)
	if nw == 0 {
		return
	}
	v := semValue()
	i := run.Op(fmt.Sprintf("exited %d", nw), fmt.Sprintf("sem=%d", v), "exit", true)
	if v != 1 {
		run.Fail(i, "sem:value-after-exit", fmt.Sprintf("after %d server processes that had registered users exited, the passwd semaphore has the value %d, not 1", nw, v))
		_ = cmbbs.Sem.SetVal(0, 1)
	}
}

func argOf(name string) string {
	for i, a := range os.Args {
		if a == name && i+1 < len(os.Args) {
			return os.Args[i+1]
		}
	}
	return ""
}

func parseInts(s string) []int {
	if s == "-" || s == "" {
		return nil
	}
	var out []int
	for _, f := range strings.Split(s, ",") {
		v, _ := strconv.Atoi(f)
		out = append(out, v)
	}
	return out
}

func main() {
	if len(os.Args) > 2 && os.Args[1] == "-mode" && os.Args[2] == "peer" {
		k, _ := strconv.Atoi(argOf("-semkey"))
		peerMain(k)
		return
	}
	if len(os.Args) > 2 && os.Args[1] == "-mode" && os.Args[2] == "child" {
		shmKey, _ := strconv.Atoi(argOf("-shmkey"))
		semKey, _ := strconv.Atoi(argOf("-semkey"))
		childMain(argOf("-home"), shmKey, semKey, argOf("-light") == "1")
		return
	}
	if len(os.Args) > 2 && os.Args[1] == "-mode" && os.Args[2] == "launcher" {
		shmKey, _ := strconv.Atoi(argOf("-shmkey"))
		semKey, _ := strconv.Atoi(argOf("-semkey"))
		launcherMain(argOf("-home"), shmKey, semKey)
		return
	}
	run = hx.Start("C15")
	defer run.Finish()
	var err error
	env, err = bbsenv.New(bbsenv.Options{})
	if err != nil {
		panic(err)
	}
	defer env.Close()
	defer closeChildren(false)
	_ = cmbbs.PasswdInit()
	// a site's home tree has its letter directories (ptt.Register makes the user's directory inside one)
	for ch := 'a'; ch <= 'z'; ch++ {
		_ = os.MkdirAll(env.Path("home", string(ch)), 0o755)
		_ = os.MkdirAll(env.Path("home", strings.ToUpper(string(ch))), 0o755)
	}
	pristine, _ = os.ReadFile(ptttype.FN_PASSWD)
	// make sure the file covers every slot
	if want := int(ptttype.USEREC_RAW_SZ) * ptttype.MAX_USERS; len(pristine) < want {
		pristine = append(pristine, make([]byte, want-len(pristine))...)
	}
	// account expiry is outside the property's account model: keep every fixture account unexpired
	// (PERM_XEMPT) and the clean-up marker fresh, so a full table never triggers tryCleanUser's sweep.
	lvl := int(unsafe.Offsetof(ptttype.USEREC_RAW.UserLevel))
	idOff := int(unsafe.Offsetof(ptttype.USEREC_RAW.UserID))
	for k := 0; k < ptttype.MAX_USERS; k++ {
		base := k * int(ptttype.USEREC_RAW_SZ)
		if pristine[base+idOff] != 0 {
			v := uint32(pristine[base+lvl]) | uint32(pristine[base+lvl+1])<<8 | uint32(pristine[base+lvl+2])<<16 | uint32(pristine[base+lvl+3])<<24
			v |= uint32(ptttype.PERM_XEMPT)
			pristine[base+lvl], pristine[base+lvl+1], pristine[base+lvl+2], pristine[base+lvl+3] = byte(v), byte(v>>8), byte(v>>16), byte(v>>24)
		}
	}
	verifhook.SetOnPoint(hook)
	run.Rule = "registration threads in (process, goroutine) pairs: process 0 = the controller, processes 1.. = the harness re-executed, attached to the same BBSHOME / shared memory / passwd semaphore. Every interleaving of the 4 hook-delimited segments (check, semWait, locked section, semPost) of 2 concurrent ptt.SetupNewUser calls in one process (exhaustive) for: same id, ids differing only in case; sampled for different ids, an already registered id, one free slot, 3 registrations (two waiters at once); across processes: directed shapes (a server process starting — PasswdInit — while the lock is held; a second waiter arriving in the process of a waiter while another process holds the lock) and sampled schedules of 2 processes x 1-2 threads with server starts thrown in (thorough: exhaustive for 2 processes x 1 thread, also with a server start at every position, wider samples otherwise). After every schedule element the observed thread states, the ids new in the shared index and the ids new in .PASSWDS are compared with the model replaying the same prefix; with several waiters the one the kernel woke is observed and written into the schedule; distinct = distinct (id set, process assignment, schedule)"

	findColliders(3)
	if len(colliders) < 3 {
		run.Note("harness: found no ids in the hash bucket of the empty id; the `bucket` family is skipped")
	}
	if run.Replay != "" {
		for _, l := range hx.ReplayOps(run.Replay) {
			f := strings.Fields(l)
			if len(f) == 2 && f[0] == "exited" {
				exitPhase()
			}
			if len(f) == 2 && f[0] == "peer" && f[1] == "0" {
				peerPhase()
			}
			newreg, viaReg := false, false
			if len(f) > 0 && (f[0] == "nregp" || f[0] == "nregx" || f[0] == "rregp" || f[0] == "rregx") {
				newreg = true
				viaReg = f[0][0] == 'r'
				f[0] = f[0][1:]
			}
			if (len(f) == 5 && f[0] == "reg") || (len(f) == 6 && f[0] == "regp") || (len(f) == 7 && f[0] == "regx") {
				// ids are replayed by their codes: equal codes = the same id in different letter case;
				// codes 900+k = the k-th id that shares the hash bucket of the empty id
				var ids []string
				for i, v := range parseInts(f[3]) {
					id := fmt.Sprintf("replay%02d", v)
					if i%2 == 1 {
						id = strings.ToUpper(id[:1]) + id[1:]
					}
					if v >= 900 && v-900 < len(colliders) {
						id = colliders[v-900]
					}
					ids = append(ids, id)
				}
				free := 0
				var pre []string
				for _, v := range parseInts(f[2]) {
					if v == 0 {
						free++
					}
					if v >= 900 && v-900 < len(colliders) {
						pre = append(pre, colliders[v-900])
					}
				}
				k := kase{ids: ids, fillTo: ptttype.MAX_USERS - free - len(pre), pre: pre, sched: parseInts(f[len(f)-1]), newreg: newreg, viaReg: viaReg}
				if f[0] == "regx" {
					// ids whose code is a taken slot's code are that slot's account (a filler): requests for the expired id
					tk := parseInts(f[2])
					for i, v := range parseInts(f[3]) {
						for slot, c := range tk {
							if c == v && c != 0 && slot >= 40 && v < 900 {
								k.ids[i] = fmt.Sprintf("filler%03d", slot-40)
								if i%2 == 0 {
									k.ids[i] = strings.ToUpper(k.ids[i])
								}
							}
						}
					}
				}
				if f[0] == "regx" {
					k.procs = parseInts(f[4])
					v, _ := strconv.Atoi(f[5])
					k.victim = v + 1
					if len(k.procs) != len(ids) || v < 40 || v >= ptttype.MAX_USERS {
						continue
					}
				}
				if f[0] == "regp" {
					k.procs = parseInts(f[4])
					if len(k.procs) != len(ids) {
						continue
					}
				}
				runSchedule(k, true)
			}
		}
		return
	}

	full := ptttype.MAX_USERS - 1 // a table with one free slot
	all2 := [][]int{}
	interleavings([]int{4, 4}, func(s []int) { all2 = append(all2, s) })
	exhaustive := true
	thorough := run.Thorough()

	// C15_SCHED / C15_PROCS / C15_IDS: one schedule by hand, with the hash chains printed (debugging aid)
	if sc := os.Getenv("C15_SCHED"); sc != "" {
		debugChains = true
		ids := []string{"newuser1", "NEWUSER1", "newuser2", "newuser3"}
		if v := os.Getenv("C15_IDS"); v != "" {
			ids = strings.Split(v, ",")
		}
		procs := parseInts(os.Getenv("C15_PROCS"))
		if procs == nil {
			procs = []int{0, 0}
		}
		runSchedule(kase{ids: ids[:len(procs)], procs: procs, sched: parseInts(sc)}, true)
		return
	}

	// ---- 1. threads of one process -------------------------------------------------------
	type cfg struct {
		ids    []string
		procs  []int
		fillTo int // 0 = leave the fixture table as it is
		sample int // 0 = all interleavings (2 threads only)
		inits  int // server starts thrown into every sampled schedule
	}
	runCfg := func(cf cfg, label string) {
		n := len(cf.ids)
		if cf.sample == 0 && n == 2 {
			for _, s := range all2 {
				runSchedule(kase{ids: cf.ids, procs: cf.procs, fillTo: cf.fillTo, sched: s, label: label}, true)
			}
			return
		}
		exhaustive = false
		for k := 0; k < cf.sample; k++ {
			var s []int
			if n == 2 {
				s = withInits(all2[run.R.Intn(len(all2))], cf.inits)
			} else {
				s = randomSchedule(n, cf.inits)
			}
			runSchedule(kase{ids: cf.ids, procs: cf.procs, fillTo: cf.fillTo, sched: s, label: label}, true)
		}
	}
	same := []string{"newuser1", "newuser1"}
	cased := []string{"CaseUser", "caseuser"}
	diff := []string{"alpha001", "beta0002"}
	last := []string{"lastslot1", "lastslot2"}
	inproc := []cfg{
		{same, []int{0, 0}, 0, 0, 0},
		{cased, []int{0, 0}, 0, 0, 0},
		{diff, []int{0, 0}, 0, 30, 0},
		{[]string{"sysop", "gamma003"}, []int{0, 0}, 0, 30, 0},
		// every letter of the alphabet in both cases: the index folds case in its hash and in its comparison
		{[]string{"AbcdefghijkL", "aBCDEFGHIJKl"}, []int{0, 0}, 0, 6, 0},
		{[]string{"MnopqrstuvwX", "mNOPQRSTUVWx"}, []int{0, 0}, 0, 6, 0},
		{[]string{"Yz0123456789", "yZ0123456789"}, []int{0, 0}, 0, 6, 0},
		{[]string{"zZzZ", "ZzZz"}, []int{0, 1}, 0, 6, 0},
		{last, []int{0, 0}, full, 30, 0},
		{[]string{"tri1", "TRI1", "tri2"}, []int{0, 0, 0}, 0, 60, 0},
	}
	if thorough {
		for i := range inproc {
			if len(inproc[i].ids) == 2 {
				inproc[i].sample = 0
			}
		}
		inproc = append(inproc,
			cfg{[]string{"tri1", "TRI1", "tri1"}, []int{0, 0, 0}, 0, 1500, 0},
			cfg{[]string{"tri1", "tri2", "tri3"}, []int{0, 0, 0}, ptttype.MAX_USERS - 2, 1500, 0},
			cfg{[]string{"tri1", "TRI1", "tri2"}, []int{0, 0, 0}, 0, 1500, 0},
		)
	}
	for _, cf := range inproc {
		runCfg(cf, "")
	}

	// ---- 2. directed shapes across processes ----------------------------------------------
	// (a) a server process starts while a registration is inside the locked section (stopped at
	//     reg.afterLock, or at reg.beforeUnlock), then another registration arrives
	for _, pr := range [][]int{{0, 0}, {0, 1}, {1, 0}, {1, 2}, {1, 1}} {
		for vi, ids := range [][]string{cased, diff} {
			for _, s := range [][]int{{0, 0, 100, 1, 1}, {0, 0, 0, 100, 1, 1}, {0, 1, 0, 100, 1}, {0, 100, 0, 1, 101, 1, 0, 102, 0}} {
				if !thorough && vi == 1 && len(s) != 5 {
					continue
				}
				runSchedule(kase{ids: ids, procs: pr, sched: s, label: "init-while-held"}, true)
			}
		}
	}
	// (b) one process holds the lock, a thread of another process waits in semop, a second thread of
	//     the waiter's process arrives: it has to wait too; the post then wakes exactly one of the two
	for _, pr := range [][]int{{1, 0, 0}, {0, 1, 1}, {1, 2, 2}, {0, 0, 0}, {1, 1, 1}, {0, 1, 2}} {
		for vi, ids := range [][]string{{"wait1", "WAIT1", "wait1"}, {"wait1", "wait2", "wait3"}, {"wait1", "wait2", "WAIT2"}} {
			for si, s := range [][]int{{0, 0, 1, 1, 2, 2}, {0, 0, 0, 2, 2, 1, 1}, {0, 1, 2, 0, 2, 1, 100, 0}} {
				if !thorough && (vi+si)%3 != 0 && !(vi == 0 && si == 0) {
					continue
				}
				runSchedule(kase{ids: ids, procs: pr, sched: s, label: "second-waiter"}, true)
			}
		}
	}
	// one free slot, three takers in two processes
	runSchedule(kase{ids: []string{"wait1", "wait2", "wait3"}, procs: []int{1, 0, 0}, fillTo: full, sched: []int{0, 0, 1, 1, 2, 2}, label: "second-waiter"}, true)

	// ---- 2b. ids in the hash bucket of the empty id (the bucket that chains the free slots) ---------
	// registered like any other id; then the free slots run out and more registrations arrive: they must
	// be refused, not be given the slot of the id that shares the bucket. `pre`: the id is in .PASSWDS
	// already and the index has been reloaded (chains in slot order: the id sits AHEAD of the free slots).
	if len(colliders) >= 3 {
		late := []string{"late01", "late02", "LATE01"}
		seq3 := []int{0, 0, 0, 0, 1, 1, 1, 1, 2, 2, 2, 2}
		for _, pr := range [][]int{{0, 0, 0}, {0, 1, 1}, {1, 2, 0}} {
			runSchedule(kase{ids: []string{colliders[0], "late01", "late02"}, procs: pr, fillTo: ptttype.MAX_USERS - 2, sched: seq3, label: "bucket"}, true)
			runSchedule(kase{ids: []string{colliders[1], colliders[2], "late02"}, procs: pr, fillTo: ptttype.MAX_USERS - 2, sched: seq3, label: "bucket"}, true)
			runSchedule(kase{ids: late, procs: pr, fillTo: ptttype.MAX_USERS - 3, pre: colliders[:1], sched: seq3, label: "bucket"}, true)
			runSchedule(kase{ids: late, procs: pr, fillTo: ptttype.MAX_USERS - 4, pre: colliders[:2], sched: []int{2, 2, 2, 2, 0, 1, 0, 1, 0, 0, 1, 1}, label: "bucket"}, true)
			runSchedule(kase{ids: []string{strings.ToUpper(colliders[0]), "late01", colliders[0]}, procs: pr, fillTo: ptttype.MAX_USERS - 2, pre: colliders[:1], sched: seq3, label: "bucket"}, true)
		}
		nb := 20
		if thorough {
			nb = 400
		}
		exhaustive = false
		for i := 0; i < nb; i++ {
			kk := kase{ids: []string{colliders[run.R.Intn(3)], "late01", "late02"}, procs: [][]int{{0, 0, 0}, {0, 1, 1}, {1, 0, 1}}[run.R.Intn(3)],
				fillTo: ptttype.MAX_USERS - 1 - run.R.Intn(3), sched: randomSchedule(3, 0), label: "bucket"}
			if run.R.Intn(2) == 0 {
				kk.pre = colliders[2:3]
				kk.fillTo--
				if kk.ids[0] == colliders[2] {
					kk.ids[0] = colliders[0]
				}
			}
			runSchedule(kk, true)
		}
	}

	// ---- 2c. expiry: the clean-up SetupNewUser runs BEFORE the passwd lock ------------------------------
	// the table is full, .fresh is missing or stale, one account has not logged in for 400 days. The first
	// registration released from reg.afterCheck finds no free slot, walks the table and tears that account
	// down (held inside killUser: the account's aloha list is a FIFO); the others register meanwhile.
	{
		xids := [][]string{{"expir01", "expir02"}, {"expir01", "EXPIR01"}, {"expir01", "expir02", "expir03"}}
		xs := [][]int{
			{0, 1, 0, 1, 1, 1, 0, 0, 0}, // cleaner held in the tear-down, racer runs to completion, cleaner goes on
			{0, 0, 1, 1, 1, 1, 0, 0, 0},
			{0, 1, 0, 1, 1, 0, 1, 0, 0, 0}, // racer inside the locked section while the record is zeroed
			{0, 1, 1, 0, 1, 1, 0, 0, 0},    // racer reaches the lock first
			{0, 1, 0, 0, 0, 0, 0, 1, 1, 1}, // cleaner alone, racer later
		}
		for pi, pr := range [][]int{{0, 0}, {0, 1}, {1, 0}, {1, 2}} {
			for si, sc := range xs {
				if !thorough && pi > 1 && si > 1 {
					continue
				}
				runSchedule(kase{ids: xids[(pi+si)%2], procs: pr, fillTo: ptttype.MAX_USERS, victim: 1 + 42 + (pi+si)%7, stale: si%2 == 1, sched: sc, label: "expiry"}, true)
			}
		}
		nx := 30
		if thorough {
			nx = 600
		}
		for i := 0; i < nx; i++ {
			n := 2 + run.R.Intn(2)
			pr := make([]int, n)
			for t := range pr {
				pr[t] = run.R.Intn(3)
			}
			sc := randomSchedule(n, 0)
			sc = append(sc, sc[:n]...) // the cleaner needs one release more
			runSchedule(kase{ids: xids[2][:n], procs: pr, fillTo: ptttype.MAX_USERS, victim: 1 + 41 + run.R.Intn(9), stale: run.R.Intn(2) == 0, sched: sc, label: "expiry"}, true)
		}
	}

	// ---- 2d. the request entry: the same families through ptt.NewRegister -----------------------------
	// (the record is built by the code under test, per request; whatever NewRegister does around
	// SetupNewUser — retries, take-overs — is part of the registration)
	{
		runN := func(ids []string, procs []int, fillTo, sample int) {
			n := len(ids)
			if sample == 0 && n == 2 {
				for _, sc := range all2 {
					runSchedule(kase{ids: ids, procs: procs, fillTo: fillTo, sched: sc, label: "newreg", newreg: true}, true)
				}
				return
			}
			exhaustive = false
			for i := 0; i < sample; i++ {
				var sc []int
				if n == 2 {
					sc = withInits(all2[run.R.Intn(len(all2))], run.R.Intn(2))
				} else {
					sc = randomSchedule(n, run.R.Intn(2))
				}
				runSchedule(kase{ids: ids, procs: procs, fillTo: fillTo, sched: sc, label: "newreg", newreg: true}, true)
			}
		}
		tri := []string{"tri1", "TRI1", "tri2"}
		m := 1
		if thorough {
			m = 10
		}
		// one level higher: ptt.Register (what follows NewRegister — also on its failure — is part of the request)
		for _, ids := range [][]string{same, cased, diff} {
			for i, sc := range all2 {
				if !thorough && len(ids) == 2 && ids[0] == diff[0] && i%3 != 0 {
					continue
				}
				runSchedule(kase{ids: ids, procs: []int{0, 0}, sched: sc, label: "register", newreg: true, viaReg: true}, true)
			}
		}
		for i := 0; i < 15*m; i++ {
			runSchedule(kase{ids: cased, procs: [][]int{{0, 1}, {1, 1}, {1, 2}}[i%3], sched: all2[run.R.Intn(len(all2))], label: "register", newreg: true, viaReg: true}, true)
			runSchedule(kase{ids: tri, procs: []int{0, 0, 0}, sched: randomSchedule(3, 0), label: "register", newreg: true, viaReg: true}, true)
		}
		runN(same, []int{0, 0}, 0, 0)
		runN(cased, []int{0, 0}, 0, 0)
		runN(diff, []int{0, 0}, 0, 0)
		runN(last, []int{0, 0}, full, 20*m)
		runN(tri, []int{0, 0, 0}, 0, 40*m)
		runN([]string{"tri1", "tri2", "tri3"}, []int{0, 0, 0}, ptttype.MAX_USERS-2, 20*m)
		runN(diff, []int{1, 1}, 0, 25*m) // two requests of one server process
		runN(same, []int{0, 1}, 0, 20*m)
		runN(cased, []int{1, 2}, 0, 20*m)
		runN(tri, []int{0, 1, 1}, 0, 25*m)
		runN([]string{"quad1", "QUAD1", "quad2", "quad3"}, []int{0, 0, 1, 1}, 0, 20*m)
		// requests for the id of the EXPIRED account (and a case variant) behind a registration that is held
		// inside the locked section: the id is still in the index, its record is (being) zeroed
		for pi, pr := range [][]int{{0, 0, 0}, {0, 1, 1}, {1, 0, 2}, {1, 1, 1}} {
			for si, sc := range [][]int{
				{0, 0, 0, 1, 2, 0, 0},    // record zeroed, cleaner stopped at reg.afterLock, then the two requests
				{0, 0, 0, 0, 1, 2, 0},    // … stopped at reg.beforeUnlock
				{0, 0, 1, 0, 2, 0, 0},    // one request while the tear-down is under way, one after
				{0, 0, 0, 0, 0, 1, 2, 2}, // after the cleaner has returned
			} {
				v := 41 + (pi+si)%9
				vid := fmt.Sprintf("filler%03d", v-40)
				for _, newreg := range []bool{true, false} {
					if !thorough && !newreg && (pi+si)%3 != 0 {
						continue
					}
					runSchedule(kase{ids: []string{"expir01", vid, strings.ToUpper(vid)}, procs: pr, fillTo: ptttype.MAX_USERS, victim: 1 + v,
						stale: si%2 == 0, sched: sc, label: "expiry-takeover", newreg: newreg}, true)
				}
			}
		}
		nx := 20 * m
		for i := 0; i < nx; i++ {
			v := 41 + run.R.Intn(9)
			vid := fmt.Sprintf("filler%03d", v-40)
			pr := []int{run.R.Intn(3), run.R.Intn(3), run.R.Intn(3)}
			sc := randomSchedule(3, 0)
			sc = append(sc, 0, 1, 2)
			ids := []string{"expir01", vid, strings.ToUpper(vid)}
			if run.R.Intn(2) == 0 {
				ids = []string{vid, "expir01", strings.ToUpper(vid)}
			}
			runSchedule(kase{ids: ids, procs: pr, fillTo: ptttype.MAX_USERS, victim: 1 + v, stale: run.R.Intn(2) == 0, sched: sc, label: "expiry-takeover", newreg: true}, true)
		}
	}

	// ---- 3. schedules across processes ------------------------------------------------------
	var cross []cfg
	tri := []string{"tri1", "TRI1", "tri2"}
	if thorough {
		for _, pr := range [][]int{{0, 1}, {1, 2}} {
			cross = append(cross, cfg{same, pr, 0, 0, 0}, cfg{cased, pr, 0, 0, 0}, cfg{diff, pr, 0, 0, 0}, cfg{last, pr, full, 0, 0},
				cfg{[]string{"sysop", "gamma003"}, pr, 0, 0, 0})
		}
		cross = append(cross,
			cfg{cased, []int{0, 1}, 0, 300, 2}, cfg{diff, []int{1, 2}, 0, 300, 2}, cfg{last, []int{1, 0}, full, 200, 1},
			cfg{tri, []int{0, 0, 1}, 0, 500, 1}, cfg{tri, []int{1, 0, 0}, 0, 500, 1}, cfg{tri, []int{0, 1, 1}, 0, 500, 1}, cfg{tri, []int{1, 2, 2}, 0, 400, 1},
			cfg{[]string{"tri1", "tri2", "tri3"}, []int{0, 1, 1}, ptttype.MAX_USERS - 2, 400, 1},
			cfg{[]string{"quad1", "QUAD1", "quad2", "quad2"}, []int{0, 0, 1, 1}, 0, 500, 2},
			cfg{[]string{"quad1", "quad2", "quad3", "QUAD1"}, []int{1, 2, 1, 2}, full, 300, 1},
		)
	} else {
		cross = []cfg{
			{same, []int{0, 1}, 0, 0, 0}, {cased, []int{1, 2}, 0, 0, 0}, // all interleavings of 2 processes x 1 thread
			{same, []int{0, 1}, 0, 30, 1}, {cased, []int{1, 2}, 0, 30, 2}, {diff, []int{0, 1}, 0, 30, 1}, {last, []int{1, 0}, full, 30, 1},
			{[]string{"sysop", "gamma003"}, []int{1, 2}, 0, 20, 1},
			{tri, []int{0, 0, 1}, 0, 30, 1}, {tri, []int{1, 0, 0}, 0, 30, 1}, {tri, []int{1, 2, 2}, 0, 30, 1},
			{[]string{"tri1", "tri2", "tri3"}, []int{0, 1, 1}, ptttype.MAX_USERS - 2, 20, 1},
			{[]string{"quad1", "QUAD1", "quad2", "quad2"}, []int{0, 0, 1, 1}, 0, 30, 1},
			{[]string{"quad1", "quad2", "quad3", "QUAD1"}, []int{1, 2, 1, 2}, full, 20, 1},
		}
	}
	for _, cf := range cross {
		runCfg(cf, "cross")
	}
	if thorough {
		// a server start at every position of every interleaving of 2 processes x 1 thread
		for _, s := range all2 {
			for at := 0; at <= len(s); at++ {
				w := append(append(append([]int{}, s[:at]...), 100), s[at:]...)
				runSchedule(kase{ids: cased, procs: []int{0, 1}, sched: w, label: "cross-init"}, true)
			}
		}
	}
	exitPhase()
	run.Exhaust = exhaustive
	run.Extra["server_processes_started"] = procStarts
	run.Extra["expired_account_record_zeroed_but_id_kept_in_index"] = expiredKeptInIndex
	run.Extra["releases_into_a_taken_semaphore"] = probes
	run.Extra["of_which_seen_waiting_in_semop"] = confirmed
	peerPhase()
}
