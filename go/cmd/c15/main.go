// c15: schedule-level correspondence for concurrent ptt.SetupNewUser (property C15).
// Registration threads are goroutines of this process; the verif hook points
// reg.afterCheck / reg.afterLock / reg.beforeUnlock stop each one until the
// controller releases it, so every interleaving at those points can be forced.
package main

import (
	"bytes"
	"fmt"
	"os"
	"os/exec"
	"runtime"
	"sort"
	"strconv"
	"strings"
	"sync"
	"time"
	"unsafe"

	"github.com/Ptt-official-app/go-pttbbs/cache"
	"github.com/Ptt-official-app/go-pttbbs/cmbbs"
	"github.com/Ptt-official-app/go-pttbbs/cmsys"
	"github.com/Ptt-official-app/go-pttbbs/ptt"
	"github.com/Ptt-official-app/go-pttbbs/ptttype"
	"github.com/Ptt-official-app/go-pttbbs/types"
	"github.com/Ptt-official-app/go-pttbbs/verifhook"
	"verifharness/internal/bbsenv"
	"verifharness/internal/hx"
)

func goid() string {
	var buf [64]byte
	n := runtime.Stack(buf[:], false)
	f := strings.Fields(string(buf[:n]))
	if len(f) >= 2 {
		return f[1]
	}
	return "?"
}

type event struct {
	kind string // at | done
	arg  string
}

type ctl struct {
	mu      sync.Mutex
	tidOf   map[string]int
	gate    []chan struct{}
	events  []chan event
	state   []string
	started []bool
	blocked []bool
	done    []bool
	ids     []string
	errs    []string
	eintr   bool
}

var cur *ctl

func hook(name string) {
	if !strings.HasPrefix(name, "reg.") || cur == nil {
		return
	}
	c := cur
	c.mu.Lock()
	tid, ok := c.tidOf[goid()]
	c.mu.Unlock()
	if !ok {
		return
	}
	c.events[tid] <- event{"at", strings.TrimPrefix(name, "reg.")}
	<-c.gate[tid]
}

func userOf(id string) *ptttype.UserecRaw {
	u := &ptttype.UserecRaw{}
	copy(u.UserID[:], id)
	copy(u.Nickname[:], "verif")
	u.Version = ptttype.PASSWD_VERSION
	u.FirstLogin = types.NowTS()
	u.LastLogin = types.NowTS()
	u.UserLevel = ptttype.PERM_DEFAULT
	return u
}

func classify(err error) string {
	switch {
	case err == nil:
		return "ok"
	case err == ptttype.ErrUserIDAlreadyExists:
		return "exists"
	case err == cache.ErrInvalidUID:
		return "noslot"
	}
	return "err:" + strings.ReplaceAll(err.Error(), " ", "_")
}

func (c *ctl) start(t int) {
	go func() {
		c.mu.Lock()
		c.tidOf[goid()] = t
		c.mu.Unlock()
		res := hx.CallSync(func() string { return classify(ptt.SetupNewUser(userOf(c.ids[t]))) })
		c.events[t] <- event{"done", res}
	}()
}

func (c *ctl) apply(t int, ev event) {
	c.blocked[t] = false
	if ev.kind == "done" {
		c.done[t] = true
		c.state[t] = ev.arg
		if strings.Contains(ev.arg, "interrupted") {
			c.eintr = true
		}
		return
	}
	switch ev.arg {
	case "afterCheck":
		c.state[t] = "checked"
	case "afterLock":
		c.state[t] = "locked"
	case "beforeUnlock":
		c.state[t] = "unlocking"
	}
}

func (c *ctl) await(t int, grace time.Duration) bool {
	select {
	case ev := <-c.events[t]:
		c.apply(t, ev)
		return true
	case <-time.After(grace):
		return false
	}
}

func (c *ctl) semHeld() bool {
	for _, s := range c.state {
		if s == "locked" || s == "unlocking" {
			return true
		}
	}
	return false
}

func (c *ctl) anyBlocked() bool {
	for _, b := range c.blocked {
		if b {
			return true
		}
	}
	return false
}

func (c *ctl) release(t int) {
	if c.done[t] || c.blocked[t] {
		return
	}
	if !c.started[t] {
		c.started[t] = true
		c.start(t)
		if !c.await(t, 5*time.Second) {
			c.errs = append(c.errs, fmt.Sprintf("thread %d did not reach its first point", t))
		}
		return
	}
	switch c.state[t] {
	case "checked":
		if c.anyBlocked() {
			return // not driven: keeps the wake-up order determined (same rule in the model)
		}
		held := c.semHeld()
		c.gate[t] <- struct{}{}
		if held {
			// the semaphore is taken, so this thread can only end up waiting in semop; its
			// arrival at reg.afterLock is collected when the holder posts.
			c.blocked[t] = true
			c.state[t] = "blocked"
			return
		}
		if !c.await(t, 5*time.Second) {
			c.errs = append(c.errs, fmt.Sprintf("thread %d stalled taking a free semaphore", t))
			c.state[t] = "TIMEOUT"
			c.done[t] = true
		}
	case "locked":
		c.gate[t] <- struct{}{}
		if !c.await(t, 5*time.Second) {
			c.errs = append(c.errs, fmt.Sprintf("thread %d stalled under the lock", t))
			c.state[t] = "TIMEOUT"
			c.done[t] = true
		}
	case "unlocking":
		c.gate[t] <- struct{}{}
		if !c.await(t, 5*time.Second) {
			c.errs = append(c.errs, fmt.Sprintf("thread %d stalled returning", t))
			c.state[t] = "TIMEOUT"
			c.done[t] = true
			return
		}
		for u := range c.blocked {
			if c.blocked[u] {
				if !c.await(u, 5*time.Second) {
					c.errs = append(c.errs, fmt.Sprintf("waiter %d did not get the semaphore after it was posted", u))
					c.state[u] = "TIMEOUT"
					c.done[u] = true
					c.blocked[u] = false
				}
				break
			}
		}
	}
}

var debugChains bool

var (
	run      *hx.Run
	env      *bbsenv.Env
	pristine []byte
)

func fold(id string) string { return strings.ToLower(id) }

// slotIDs reads the ids currently in the shared index, slot by slot.
func slotIDs() []string {
	out := make([]string, ptttype.MAX_USERS)
	for uid := 1; uid <= ptttype.MAX_USERS; uid++ {
		id, err := cache.GetUserID(ptttype.UID(uid))
		if err == nil {
			out[uid-1] = types.CstrToString(id[:])
		}
	}
	return out
}

func diskIDs() []string {
	b, _ := os.ReadFile(ptttype.FN_PASSWD)
	out := make([]string, ptttype.MAX_USERS)
	sz := int(ptttype.USEREC_RAW_SZ)
	off := int(unsafe.Offsetof(ptttype.USEREC_RAW.UserID))
	for k := 0; k < ptttype.MAX_USERS && (k+1)*sz <= len(b); k++ {
		f := b[k*sz+off : k*sz+off+ptttype.IDLEN+1]
		if i := bytes.IndexByte(f, 0); i >= 0 {
			f = f[:i]
		}
		out[k] = string(f)
	}
	return out
}

func reset(fillTo int) {
	_ = os.WriteFile(ptttype.FN_PASSWD, pristine, 0o644)
	_ = os.WriteFile(ptttype.FN_FRESH, []byte("fresh"), 0o644)
	if err := env.ResetSHM(); err != nil {
		panic(err)
	}
	// optionally fill the table so that only (MAX_USERS - fillTo) slots stay free
	n := 0
	for _, id := range slotIDs() {
		if id != "" {
			n++
		}
	}
	for k := 0; n < fillTo; k++ {
		if err := ptt.SetupNewUser(userOf(fmt.Sprintf("filler%03d", k))); err != nil {
			panic(fmt.Sprintf("fill: %v", err))
		}
		n++
	}
}

type codes struct {
	m map[string]int
}

func (c *codes) of(id string) int {
	f := fold(id)
	if f == "" {
		return 0
	}
	if v, ok := c.m[f]; ok {
		return v
	}
	c.m[f] = len(c.m) + 1
	return c.m[f]
}

func join(xs []int) string {
	if len(xs) == 0 {
		return "-"
	}
	s := make([]string, len(xs))
	for i, x := range xs {
		s[i] = strconv.Itoa(x)
	}
	return strings.Join(s, ",")
}

func runSchedule(ids []string, fillTo int, sched []int, nontrivial bool) {
	for attempt := 0; attempt < 4; attempt++ {
		if runScheduleOnce(ids, fillTo, sched, nontrivial, attempt == 3) {
			return
		}
		run.Extra["eintr_retries"] = asInt(run.Extra["eintr_retries"]) + 1
	}
}

func asInt(v interface{}) int {
	if i, ok := v.(int); ok {
		return i
	}
	return 0
}

// returns false when the run was disturbed by an interrupted semop (EINTR under Go's
// preemption signals makes a registration fail cleanly, which the property allows but the
// schedule-level model does not predict) and should be repeated.
func runScheduleOnce(ids []string, fillTo int, sched []int, nontrivial bool, final bool) bool {
	reset(fillTo)
	n := len(ids)
	c := &ctl{tidOf: map[string]int{}, ids: ids}
	for t := 0; t < n; t++ {
		c.gate = append(c.gate, make(chan struct{}, 1))
		c.events = append(c.events, make(chan event, 8))
		c.state = append(c.state, "start")
	}
	c.started = make([]bool, n)
	c.blocked = make([]bool, n)
	c.done = make([]bool, n)
	cur = c
	before := slotIDs()
	cd := &codes{m: map[string]int{}}
	var taken []int
	for _, id := range before {
		taken = append(taken, cd.of(id))
	}
	var idc []int
	for _, id := range ids {
		idc = append(idc, cd.of(id))
	}
	observe := func() string {
		now, dsk := slotIDs(), diskIDs()
		var ni, nd []int
		for k := range now {
			if before[k] == "" && now[k] != "" {
				ni = append(ni, cd.of(now[k]))
			}
			if before[k] == "" && dsk[k] != "" {
				nd = append(nd, cd.of(dsk[k]))
			}
		}
		sort.Ints(ni)
		sort.Ints(nd)
		f := func(xs []int) string {
			s := make([]string, len(xs))
			for i, x := range xs {
				s[i] = strconv.Itoa(x)
			}
			return strings.Join(s, ",")
		}
		return strings.Join(c.state, " ") + " | " + f(ni) + " | " + f(nd)
	}
	type rec struct{ op, obs, label string }
	var recs []rec
	full := append([]int{}, sched...)
	for k, t := range sched {
		c.release(t)
		if debugChains {
			e0 := &ptttype.UserID_t{}
			fmt.Fprintf(os.Stderr, "after release %d: %v | empties head %d next[48]=%d next[49]=%d", t, c.state, cache.Shm.Shm.HashHead[cmsys.StringHashWithHashBits(e0[:])], cache.Shm.Shm.NextInHash[48], cache.Shm.Shm.NextInHash[49])
			for _, id := range ids {
				u := userOf(id)
				fmt.Fprintf(os.Stderr, " head(%s)=%d", id, cache.Shm.Shm.HashHead[cmsys.StringHashWithHashBits(u.UserID[:])])
			}
			fmt.Fprintln(os.Stderr)
		}
		label := "prefix"
		if k == len(sched)-1 {
			label = "complete"
		}
		recs = append(recs, rec{fmt.Sprintf("reg %d %s %s %s", ptttype.MAX_USERS, join(taken), join(idc), join(full[:k+1])), observe(), label})
	}
	for round := 0; round < 10; round++ {
		pending := false
		for t := 0; t < n; t++ {
			if !c.done[t] {
				pending = true
				c.release(t)
				full = append(full, t)
				recs = append(recs, rec{fmt.Sprintf("reg %d %s %s %s", ptttype.MAX_USERS, join(taken), join(idc), join(full)), observe(), "drain"})
			}
		}
		if !pending {
			break
		}
	}
	cur = nil
	if c.eintr && !final {
		return false
	}
	last := -1
	for i, r := range recs {
		last = run.Op(r.op, r.obs, r.label, nontrivial && i == len(recs)-1)
	}
	// ---- P-hat --------------------------------------------------------------------
	for _, e := range c.errs {
		run.Fail(last, "stall", e)
	}
	for t := 0; t < n; t++ {
		if !c.done[t] {
			run.Fail(last, "harness:incomplete-schedule", "not every registration returned: "+observe())
			return true
		}
	}
	now, dsk := slotIDs(), diskIDs()
	okByFold := map[string][]int{}
	for t := 0; t < n; t++ {
		if c.state[t] == "ok" {
			okByFold[fold(ids[t])] = append(okByFold[fold(ids[t])], t)
		}
	}
	for f, ts := range okByFold {
		if len(ts) > 1 {
			run.Fail(last, "dup-id-race", fmt.Sprintf("registrations %v of the same id %q all reported success (%s)", ts, f, observe()))
		}
	}
	// no two slots hold the same id (case-insensitively); every slot agrees with .PASSWDS
	seen := map[string]int{}
	for k, id := range now {
		if id == "" {
			continue
		}
		if j, dup := seen[fold(id)]; dup {
			run.Fail(last, "dup-id-race", fmt.Sprintf("slots %d and %d both hold id %q after the run (%s)", j+1, k+1, id, observe()))
		}
		seen[fold(id)] = k
	}
	for k := range now {
		if now[k] != dsk[k] {
			run.Fail(last, "index-disk-disagree", fmt.Sprintf("slot %d: index has %q, .PASSWDS has %q", k+1, now[k], dsk[k]))
		}
		if before[k] != "" && now[k] != before[k] {
			run.Fail(last, "slot-overwritten", fmt.Sprintf("slot %d held %q before and %q after", k+1, before[k], now[k]))
		}
	}
	// the new ids are exactly the successful requests
	var newIds, succ []string
	for k := range now {
		if before[k] == "" && now[k] != "" {
			newIds = append(newIds, fold(now[k]))
		}
	}
	for t := 0; t < n; t++ {
		if c.state[t] == "ok" {
			succ = append(succ, fold(ids[t]))
		}
	}
	sort.Strings(newIds)
	sort.Strings(succ)
	if strings.Join(newIds, ",") != strings.Join(succ, ",") {
		run.Fail(last, "success-set", fmt.Sprintf("new ids in the table %v, requests that reported success %v", newIds, succ))
	}
	// lookups resolve every successful id to a distinct slot
	slots := map[ptttype.UID]int{}
	for t := 0; t < n; t++ {
		if c.state[t] != "ok" {
			continue
		}
		uid, err := cache.SearchUserRaw(&userOf(ids[t]).UserID, nil)
		if err != nil || uid == 0 {
			u := userOf(ids[t])
			h := cmsys.StringHashWithHashBits(u.UserID[:])
			chain := []int{}
			for p, n := cache.Shm.Shm.HashHead[h], 0; p != -1 && n < 60; p, n = cache.Shm.Shm.NextInHash[p], n+1 {
				chain = append(chain, int(p))
			}
			run.Fail(last, "lookup", fmt.Sprintf("successful id %q is not found afterwards (err %v; bucket %d chain %v; slots %v)", ids[t], err, h, chain, now[40:]))
			continue
		}
		if u, dup := slots[uid]; dup && fold(ids[u]) != fold(ids[t]) {
			run.Fail(last, "shared-slot", fmt.Sprintf("ids %q and %q share slot %d", ids[u], ids[t], uid))
		}
		slots[uid] = t
	}
	return true
}

func interleavings(counts []int, emit func([]int)) {
	total := 0
	for _, c := range counts {
		total += c
	}
	cur := make([]int, 0, total)
	left := append([]int{}, counts...)
	var rec func()
	rec = func() {
		if len(cur) == total {
			emit(append([]int{}, cur...))
			return
		}
		for t := range left {
			if left[t] > 0 {
				left[t]--
				cur = append(cur, t)
				rec()
				cur = cur[:len(cur)-1]
				left[t]++
			}
		}
	}
	rec()
}

// peerMain: a second server process that takes and releases the passwd lock a few times and exits.
func peerMain(semKey int) {
	bbsenv.Quiet()
	ptttype.PASSWDSEM_KEY = semKey
	if err := cmbbs.PasswdInit(); err != nil {
		fmt.Println("peer: init", err)
		os.Exit(3)
	}
	for i := 0; i < 3; i++ {
		if err := cmbbs.PasswdLock(); err != nil {
			fmt.Println("peer: lock", err)
			os.Exit(3)
		}
		_ = cmbbs.PasswdUnlock()
	}
	os.Exit(0)
}

// peerPhase: after another process that used the passwd lock has exited, the lock must still
// exclude: two registrations released into the locked section must not both be inside it.
func peerPhase() {
	bin, _ := os.Executable()
	out, err := exec.Command(bin, "-mode", "peer", "-semkey", strconv.Itoa(env.SemKey), "-out", os.TempDir()).CombinedOutput()
	if err != nil {
		i := run.Op("peer 0", "peer-failed", "peer", false)
		run.Fail(i, "harness:peer", fmt.Sprintf("peer process failed: %v %s", err, out))
		return
	}
	ids := []string{"peerid01", "PEERID01"}
	for round := 0; round < 3; round++ {
		reset(0)
		c := &ctl{tidOf: map[string]int{}, ids: ids}
		for t := 0; t < 2; t++ {
			c.gate = append(c.gate, make(chan struct{}, 1))
			c.events = append(c.events, make(chan event, 8))
			c.state = append(c.state, "start")
		}
		c.started, c.blocked, c.done = make([]bool, 2), make([]bool, 2), make([]bool, 2)
		cur = c
		c.release(0) // -> checked
		c.release(0) // -> locked
		c.release(1) // -> checked
		c.gate[1] <- struct{}{} // into semWait while thread 0 holds the lock
		both := c.await(1, 300*time.Millisecond) && c.state[1] == "locked"
		verdict := "excluded"
		if both {
			verdict = "two-holders"
		}
		// the model's answer to this op is the constant "excluded" (mutual_exclusion is a theorem)
		i := run.Op(fmt.Sprintf("peer %d", round), verdict, "peer", true)
		if both {
			run.Fail(i, "sem:two-holders", "after a peer process that had used the passwd lock exited, two registrations were inside the locked section at the same time")
		}
		// drain
		if !both {
			c.blocked[1] = true
			c.state[1] = "blocked"
		}
		for k := 0; k < 12 && !(c.done[0] && c.done[1]); k++ {
			c.release(0)
			c.release(1)
		}
		cur = nil
	}
}

func main() {
	if len(os.Args) > 2 && os.Args[1] == "-mode" && os.Args[2] == "peer" {
		k := 0
		for i, a := range os.Args {
			if a == "-semkey" && i+1 < len(os.Args) {
				k, _ = strconv.Atoi(os.Args[i+1])
			}
		}
		peerMain(k)
		return
	}
	run = hx.Start("C15")
	defer run.Finish()
	var err error
	env, err = bbsenv.New(bbsenv.Options{})
	if err != nil {
		panic(err)
	}
	defer env.Close()
	_ = cmbbs.PasswdInit()
	pristine, _ = os.ReadFile(ptttype.FN_PASSWD)
	// make sure the file covers every slot
	if want := int(ptttype.USEREC_RAW_SZ) * ptttype.MAX_USERS; len(pristine) < want {
		pristine = append(pristine, make([]byte, want-len(pristine))...)
	}
	// account expiry is outside the property's account model: keep every fixture account unexpired
	// (PERM_XEMPT) and the clean-up marker fresh, so a full table never triggers tryCleanUser's sweep.
	lvl := int(unsafe.Offsetof(ptttype.USEREC_RAW.UserLevel))
	idOff := int(unsafe.Offsetof(ptttype.USEREC_RAW.UserID))
	for k := 0; k < ptttype.MAX_USERS; k++ {
		base := k * int(ptttype.USEREC_RAW_SZ)
		if pristine[base+idOff] != 0 {
			v := uint32(pristine[base+lvl]) | uint32(pristine[base+lvl+1])<<8 | uint32(pristine[base+lvl+2])<<16 | uint32(pristine[base+lvl+3])<<24
			v |= uint32(ptttype.PERM_XEMPT)
			pristine[base+lvl], pristine[base+lvl+1], pristine[base+lvl+2], pristine[base+lvl+3] = byte(v), byte(v>>8), byte(v>>16), byte(v>>24)
		}
	}
	verifhook.SetOnPoint(hook)
	run.Rule = "every interleaving of the 4 hook-delimited segments (check, semWait, locked section, semPost) of 2 concurrent ptt.SetupNewUser calls (exhaustive) for: same id, ids differing only in case, different ids, an already registered id, and a table with one free slot; 3 registrations sampled (exhaustive in thorough); after every release the observed thread states, the ids new in the shared index and the ids new in .PASSWDS are compared with the model replaying the same schedule prefix; distinct = distinct (id set, schedule)"

	if run.Replay != "" {
		for _, l := range hx.ReplayOps(run.Replay) {
			f := strings.Fields(l)
			if len(f) == 5 && f[0] == "reg" {
				// ids are replayed by their codes: equal codes = the same id in different letter case
				var ids []string
				for i, cstr := range strings.Split(f[3], ",") {
					v, _ := strconv.Atoi(cstr)
					id := fmt.Sprintf("replay%02d", v)
					if i%2 == 1 {
						id = strings.ToUpper(id[:1]) + id[1:]
					}
					ids = append(ids, id)
				}
				var sched []int
				for _, s := range strings.Split(f[4], ",") {
					v, _ := strconv.Atoi(s)
					sched = append(sched, v)
				}
				free := 0
				for _, s := range strings.Split(f[2], ",") {
					if s == "0" {
						free++
					}
				}
				runSchedule(ids, ptttype.MAX_USERS-free, sched, true)
			}
		}
		return
	}

	type cfg struct {
		ids    []string
		fillTo int // 0 = leave the fixture table as it is
		sample int // 0 = all interleavings
	}
	cfgs := []cfg{
		{[]string{"newuser1", "newuser1"}, 0, 0},
		{[]string{"CaseUser", "caseuser"}, 0, 0},
		{[]string{"alpha001", "beta0002"}, 0, 30},
		{[]string{"sysop", "gamma003"}, 0, 30},
		{[]string{"lastslot1", "lastslot2"}, ptttype.MAX_USERS - 1, 30},
		{[]string{"tri1", "TRI1", "tri2"}, 0, 60},
	}
	if run.Thorough() {
		for i := range cfgs {
			if len(cfgs[i].ids) == 2 {
				cfgs[i].sample = 0
			}
		}
		cfgs = append(cfgs,
			cfg{[]string{"tri1", "TRI1", "tri1"}, 0, 0},
			cfg{[]string{"tri1", "tri2", "tri3"}, ptttype.MAX_USERS - 2, 0},
			cfg{[]string{"tri1", "TRI1", "tri2"}, 0, 0},
		)
	}
	exhaustive := true
	if only := os.Getenv("C15_ONLY"); only != "" {
		k, _ := strconv.Atoi(only)
		cfgs = cfgs[k : k+1]
	}
	for _, cf := range cfgs {
		counts := make([]int, len(cf.ids))
		for i := range counts {
			counts[i] = 4
		}
		var all [][]int
		interleavings(counts, func(s []int) { all = append(all, s) })
		if sc := os.Getenv("C15_SCHED"); sc != "" {
			var s []int
			for _, x := range strings.Split(sc, ",") {
				v, _ := strconv.Atoi(x)
				s = append(s, v)
			}
			debugChains = true
			runSchedule(cf.ids, cf.fillTo, s, true)
			continue
		}
		if rg := os.Getenv("C15_RANGE"); rg != "" {
			ab := strings.Split(rg, ":")
			a, _ := strconv.Atoi(ab[0])
			b, _ := strconv.Atoi(ab[1])
			for i, s := range all[a:b] {
				before := run.Extra["x"]
				_ = before
				runSchedule(cf.ids, cf.fillTo, s, true)
				fmt.Fprintf(os.Stderr, "sched #%d %v\n", a+i, s)
			}
			continue
		}
		if cf.sample == 0 {
			for _, s := range all {
				runSchedule(cf.ids, cf.fillTo, s, true)
			}
		} else {
			exhaustive = false
			for k := 0; k < cf.sample; k++ {
				runSchedule(cf.ids, cf.fillTo, all[run.R.Intn(len(all))], true)
			}
		}
	}
	run.Exhaust = exhaustive
	if os.Getenv("C15_ONLY") == "" {
		peerPhase()
	}
}
