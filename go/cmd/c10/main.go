// c10: correspondence harness and property oracle for comments (property C10).
//
// It drives the REAL ptt.Recommend (and bbs.CreateComment) on a private BBSHOME: board 10 "WhoAmI" of the
// ptt test fixture, whose .DIR and article files are rewritten at every `reset`.  Every random choice comes
// from run.R; the generators only produce op LINES, which are then parsed and executed by the same function
// that executes replay files, so the Lean driver and this harness read exactly the same protocol.
//
// ops (one history = everything since the last `reset`):
//   reset <attr> <old:0|1> <smart:0|1> <autofile:hex> <dir:hex>
//   file <name:hex> <hex|absent>
//   comment <ptt|bbs|api> <sysop|user> <userid:hex13> <reqname:hex28> <type:0..255> <text:hex> <ip:hex16> <mtime>
//   fcomment <room> <comment arguments>   the same, while only <room> (0..40) more bytes fit into the article
//                                    (file-size limit of this process: the write fails with EFBIG after <room> bytes)
//   begin <id> <comment arguments>   a commenter runs its lookup and is then kept waiting on the article's lock
//   (begin <id> <inproc|foreign> ...: the lock is held through cmsys like another goroutine of this server, or by
//    flock alone like another process)
//   append <name:hex> <bytes:hex>    the holder of the article lock (another process) appends bytes to the article
//   finish <id>                      ... is let go: it appends and updates the index from its (stale) copy
//   expire <id>                      ... is kept waiting until its five attempts are used up: it must fail, nothing changes
//   par <rounds> <type> <text:hex> <mtime>   one commenter per index entry, all at the same moment, <rounds> comments each
//   redir <dir:hex>                  another tool rewrites the board index (temp + rename, article count refreshed)
//   stamp <days>                     types.Time4(now - days*86400).CdateMdHM() is called (another user of the stamp)
//   zone <location>                  the site's TIME_LOCATION through viper + types.InitConfig
//   mark <type>                      CommentType(type).Bytes() (validates the regenerated table)
//   dump                             whole .DIR and every article file
//
// The time part of a comment line (the 11 bytes before the final '\n') is replaced by "00/00 00:00" on the
// implementation side after its format was checked; the Modified field the implementation stored (mtime of the
// article file) is checked against the returned mtime and the wall clock and then replaced in the real .DIR by
// the op's <mtime> token, which is what the model stores.
//
// The property oracle (judge) does not use the model.
package main

import (
	"bytes"
	"errors"
	"flag"
	"fmt"
	"os"
	"os/signal"
	"path/filepath"
	"regexp"
	"runtime"
	"sort"
	"strconv"
	"strings"
	"syscall"
	"time"

	"github.com/Ptt-official-app/go-pttbbs/api"
	"github.com/Ptt-official-app/go-pttbbs/bbs"
	"github.com/Ptt-official-app/go-pttbbs/cache"
	"github.com/Ptt-official-app/go-pttbbs/cmsys"
	"github.com/Ptt-official-app/go-pttbbs/ptt"
	"github.com/Ptt-official-app/go-pttbbs/ptttype"
	"github.com/Ptt-official-app/go-pttbbs/types"
	"github.com/spf13/viper"
	"verifharness/internal/bbsenv"
	"verifharness/internal/hx"
)

const (
	recSz       = 128
	offName     = 0
	lenName     = 28
	offModified = 28
	offRecmd    = 33
	offFilemode = 124
	bidWhoAmI   = ptttype.Bid(10)
	brdWhoAmI   = "WhoAmI"
	timeToken   = "00/00 00:00"

	// the board attribute bits a reset may set (everything else would change the permission guards,
	// which belong to C08 and are arranged to pass)
	attrAllowed = uint32(ptttype.BRD_NORECOMMEND | ptttype.BRD_IPLOGRECMD | ptttype.BRD_ALIGNEDCMT | ptttype.BRD_NOBOO)
)

var (
	run      *hx.Run
	env      *bbsenv.Env
	boardDir string
	dirPath  string
	boardID  ptttype.BoardID_t

	// state of the current history
	haveReset bool
	curAttr   uint32
	rawFiles  map[string][]byte // article files as they are on disk
	shadow    map[string][]byte // the same with the time parts masked (what the model holds)
	sysopID   ptttype.UserID_t
)

// ---- token syntax (the Lean driver implements the same rules) -------------------------------

func parseNat(s string, max uint64) (uint64, bool) {
	if len(s) == 0 || len(s) > 10 {
		return 0, false
	}
	for i := 0; i < len(s); i++ {
		if s[i] < '0' || s[i] > '9' {
			return 0, false
		}
	}
	v, err := strconv.ParseUint(s, 10, 64)
	if err != nil || v > max {
		return 0, false
	}
	return v, true
}

func parseHex(s string) ([]byte, bool) {
	if s == "-" {
		return []byte{}, true
	}
	if len(s)%2 != 0 || len(s) == 0 {
		return nil, false
	}
	out := make([]byte, len(s)/2)
	for i := 0; i < len(s); i++ {
		c := s[i]
		var v byte
		switch {
		case c >= '0' && c <= '9':
			v = c - '0'
		case c >= 'a' && c <= 'f':
			v = c - 'a' + 10
		case c >= 'A' && c <= 'F':
			v = c - 'A' + 10
		default:
			return nil, false
		}
		if i%2 == 0 {
			out[i/2] = v << 4
		} else {
			out[i/2] |= v
		}
	}
	return out, true
}

func parseBit(s string) (bool, bool) {
	switch s {
	case "0":
		return false, true
	case "1":
		return true, true
	}
	return false, false
}

func cstr(b []byte) []byte {
	if i := bytes.IndexByte(b, 0); i >= 0 {
		return b[:i]
	}
	return b
}

// a name the harness is willing to create as a file in the board directory
func safeName(n []byte) bool {
	if len(n) < 3 || len(n) > lenName {
		return false
	}
	if !(n[0] >= 'A' && n[0] <= 'Z') || n[1] != '.' {
		return false
	}
	for _, c := range n {
		ok := (c >= 'A' && c <= 'Z') || (c >= 'a' && c <= 'z') || (c >= '0' && c <= '9') || c == '.'
		if !ok {
			return false
		}
	}
	return true
}

var reCanon = regexp.MustCompile(`^[MG]\.[01][0-9]{9}\.A\.[0-9A-F]{3}$`)

// canonical article names: the ones bbs.ArticleID can carry (round trip is property C13)
func canonName(req []byte) bool {
	n := cstr(req)
	if len(n) != 18 || !reCanon.Match(n) {
		return false
	}
	for _, c := range req[18:] {
		if c != 0 {
			return false
		}
	}
	return true
}

// ---- observation ---------------------------------------------------------------------------

func fnvAdd(h uint64, p []byte) uint64 {
	for _, b := range p {
		h = (h ^ uint64(b)) * 1099511628211
	}
	return h
}

func fnv(p []byte) string { return strconv.FormatUint(fnvAdd(14695981039346656037, p), 16) }

func digest(p []byte) string { return fmt.Sprintf("%d:%s", len(p), fnv(p)) }

// digest of a set of files: for every name in byte order: name, 0, the length as 4 LE bytes, the content
func filesDigest(m map[string][]byte) string {
	names := make([]string, 0, len(m))
	for n := range m {
		names = append(names, n)
	}
	sort.Strings(names)
	h := uint64(14695981039346656037)
	for _, n := range names {
		h = fnvAdd(h, []byte(n))
		h = fnvAdd(h, []byte{0})
		l := len(m[n])
		h = fnvAdd(h, []byte{byte(l), byte(l >> 8), byte(l >> 16), byte(l >> 24)})
		h = fnvAdd(h, m[n])
	}
	return fmt.Sprintf("%d:%s", len(names), strconv.FormatUint(h, 16))
}

func readDir() []byte {
	b, err := os.ReadFile(dirPath)
	if err != nil {
		return nil
	}
	return b
}

// every regular file of the board directory except .DIR*
func readFiles() map[string][]byte {
	out := map[string][]byte{}
	ents, _ := os.ReadDir(boardDir)
	for _, e := range ents {
		if strings.HasPrefix(e.Name(), ".DIR") {
			continue
		}
		b, err := os.ReadFile(filepath.Join(boardDir, e.Name()))
		if err == nil {
			out[e.Name()] = b
		}
	}
	return out
}

func stateStr(dir []byte) string {
	return "dir=" + digest(dir) + " files=" + filesDigest(shadow)
}

func errClass(err error) string {
	var pe *os.PathError
	var ne *strconv.NumError
	switch {
	case err == ptt.ErrNotPermitted:
		return "refused"
	case err == cmsys.ErrRecordNotFound:
		return "err:notfound"
	case err == ptt.ErrInvalidParams, err == api.ErrInvalidParams, err == bbs.ErrInvalidParams:
		return "err:params"
	case err == ptttype.ErrInvalidIdx:
		return "err:idx"
	case errors.As(err, &ne):
		return "err:name"
	case errors.As(err, &pe) && os.IsNotExist(err):
		return "err:nofile"
	case errors.Is(err, syscall.EFBIG), errors.Is(err, syscall.ENOSPC), errors.Is(err, syscall.EDQUOT):
		return "err:write"
	case err == cmsys.ErrPttLock, errors.Is(err, syscall.EWOULDBLOCK), errors.Is(err, syscall.EAGAIN):
		return "err:lock" // the article lock was refused in every attempt (in-process table or flock)
	}
	return "err:other:" + strings.ReplaceAll(err.Error(), " ", "_")
}

// ---- the ops -------------------------------------------------------------------------------

func bad(line string) { run.Op(line, "bad-op", "bad-op", false) }

func doReset(line string, w []string) {
	if len(w) != 6 {
		bad(line)
		return
	}
	attr, ok1 := parseNat(w[1], 0xffffffff)
	old, ok2 := parseBit(w[2])
	smart, ok3 := parseBit(w[3])
	auto, ok4 := parseHex(w[4])
	dir, ok5 := parseHex(w[5])
	if !(ok1 && ok2 && ok3 && ok4 && ok5) || uint32(attr)&^attrAllowed != 0 || len(dir) > 1<<20 || len(tickets) > 0 {
		bad(line)
		return
	}
	_ = os.RemoveAll(boardDir)
	if err := os.MkdirAll(boardDir, 0o755); err != nil {
		fatal("mkdir: %v", err)
	}
	if err := os.WriteFile(dirPath, dir, 0o644); err != nil {
		fatal("write .DIR: %v", err)
	}
	rawFiles = map[string][]byte{}
	shadow = map[string][]byte{}
	total := len(dir) / recSz
	for k := 0; k < total; k++ {
		n := cstr(dir[k*recSz+offName : k*recSz+offName+lenName])
		if !safeName(n) {
			continue
		}
		if _, dup := rawFiles[string(n)]; dup {
			continue
		}
		if err := os.WriteFile(filepath.Join(boardDir, string(n)), auto, 0o644); err != nil {
			fatal("write article: %v", err)
		}
		rawFiles[string(n)] = append([]byte{}, auto...)
		shadow[string(n)] = append([]byte{}, auto...)
	}
	board, err := cache.GetBCache(bidWhoAmI)
	if err != nil {
		fatal("GetBCache: %v", err)
	}
	board.BrdAttr = ptttype.BrdAttr(attr)
	curAttr = uint32(attr)
	ptttype.OLDRECOMMEND = old
	ptttype.EDITPOST_SMARTMERGE = smart
	smartWant = smart
	oldWant = old
	cache.Shm.Shm.Total[bidWhoAmI.ToBidInStore()] = 0
	if err := cache.SetBTotal(bidWhoAmI); err != nil {
		fatal("SetBTotal: %v", err)
	}
	haveReset = true
	run.Op(line, "ok "+stateStr(dir), fmt.Sprintf("reset:old=%v,iplog=%v,aligned=%v,norec=%v", old,
		uint32(attr)&uint32(ptttype.BRD_IPLOGRECMD) != 0, uint32(attr)&uint32(ptttype.BRD_ALIGNEDCMT) != 0,
		uint32(attr)&uint32(ptttype.BRD_NORECOMMEND) != 0), false)
}

func doFile(line string, w []string) {
	if len(w) != 3 || !haveReset || len(tickets) > 0 {
		bad(line)
		return
	}
	n, ok := parseHex(w[1])
	if !ok || !safeName(n) {
		bad(line)
		return
	}
	p := filepath.Join(boardDir, string(n))
	if w[2] == "absent" {
		_ = os.Remove(p)
		delete(rawFiles, string(n))
		delete(shadow, string(n))
	} else {
		c, ok := parseHex(w[2])
		if !ok {
			bad(line)
			return
		}
		if err := os.WriteFile(p, c, 0o644); err != nil {
			fatal("write article: %v", err)
		}
		rawFiles[string(n)] = c
		shadow[string(n)] = append([]byte{}, c...)
	}
	run.Op(line, "ok "+stateStr(readDir()), "file", false)
}

func doMark(line string, w []string) {
	if len(w) != 2 {
		bad(line)
		return
	}
	t, ok := parseNat(w[1], 255)
	if !ok {
		bad(line)
		return
	}
	run.Op(line, hx.Hex(ptttype.CommentType(t).Bytes()), "mark", true)
}

func doDump(line string, w []string) {
	if len(w) != 1 || !haveReset {
		bad(line)
		return
	}
	names := make([]string, 0, len(shadow))
	for n := range shadow {
		names = append(names, n)
	}
	sort.Strings(names)
	var sb strings.Builder
	sb.WriteString("dir=" + hx.Hex(readDir()))
	for _, n := range names {
		sb.WriteString(" " + hx.Hex([]byte(n)) + "=" + hx.Hex(shadow[n]))
	}
	run.Op(line, sb.String(), "dump", false)
}

var reTime = regexp.MustCompile(`^[0-9]{2}/[0-9]{2} [0-9]{2}:[0-9]{2}$`)

// maskTime replaces the time part of one comment line; ok=false when the line has no well-formed time part.
func maskTime(line []byte) ([]byte, bool) {
	n := len(line)
	if n < 12 || line[n-1] != '\n' || !reTime.Match(line[n-12:n-1]) {
		return line, false
	}
	out := append([]byte{}, line...)
	copy(out[n-12:n-1], timeToken)
	return out, true
}

// specLookup: the record a request addresses, by the property's own reading: the first complete record
// whose name equals the requested one from the third byte on (the type letter is not part of the identity,
// ptttype.Filename_t.Eq).
func specLookup(dir []byte, req []byte) int {
	total := len(dir) / recSz
	for k := 0; k < total; k++ {
		n := dir[k*recSz : k*recSz+lenName]
		if bytes.Equal(cstr(n[2:]), cstr(req[2:])) {
			return k
		}
	}
	return -1
}

func clampScore(v int) int {
	if v > 100 {
		return 100
	}
	if v < -100 {
		return -100
	}
	return v
}

func typeLabel(t uint64) string {
	switch t {
	case 1:
		return "push"
	case 2:
		return "boo"
	case 3:
		return "arrow"
	}
	return "other"
}

// one comment request as the op line gives it
type call struct {
	via, lvl            string
	user, req, text, ip []byte
	ctype, mtok         uint64
}

// parseCall reads the eight argument tokens of `comment` / `begin`.
func parseCall(w []string) (*call, bool) {
	if len(w) != 8 {
		return nil, false
	}
	via, lvl := w[0], w[1]
	user, ok1 := parseHex(w[2])
	req, ok2 := parseHex(w[3])
	ctype, ok3 := parseNat(w[4], 255)
	text, ok4 := parseHex(w[5])
	ip, ok5 := parseHex(w[6])
	mtok, ok6 := parseNat(w[7], 2147483647)
	if !(ok1 && ok2 && ok3 && ok4 && ok5 && ok6) || len(user) != ptttype.IDLEN+1 || len(req) != lenName ||
		len(ip) != ptttype.IPV4LEN+1 || mtok == 0 || len(text) > 4096 ||
		(via != "ptt" && via != "bbs" && via != "api") || (lvl != "sysop" && lvl != "user") || len(cstr(user)) == 0 {
		return nil, false
	}
	if (via == "bbs" || via == "api") && (lvl != "sysop" || !bytes.Equal(user, sysopID[:]) || !canonName(req)) {
		return nil, false
	}
	return &call{via, lvl, user, req, text, ip, ctype, mtok}, true
}

// outcome of the real call
type outcome struct {
	comment []byte
	mtime   types.Time4
	err     error
}

// invoke performs the REAL call.
func (c *call) invoke() (o outcome) {
	userRec := &ptttype.UserecRaw{Version: ptttype.PASSWD_VERSION, NumLoginDays: 100, Over18: true}
	copy(userRec.UserID[:], c.user)
	uid := ptttype.UID(2)
	if c.lvl == "sysop" {
		userRec.UserLevel = ptttype.PERM_DEFAULT | ptttype.PERM_LOGINOK | ptttype.PERM_POST | ptttype.PERM_SYSOP
		uid = 1
	} else {
		userRec.UserLevel = ptttype.PERM_DEFAULT | ptttype.PERM_LOGINOK | ptttype.PERM_POST
	}
	fn := &ptttype.Filename_t{}
	copy(fn[:], c.req)
	ipRaw := &ptttype.IPv4_t{}
	copy(ipRaw[:], c.ip)
	if c.via == "api" {
		// the handler behind POST /board/:bid/article/:aid/comment, with the decoded JSON body and path
		params := &api.CreateCommentParams{CommentType: ptttype.CommentType(c.ctype), Content: c.text}
		path := &api.CreateCommentPath{BBoardID: bbs.BBoardID("10_" + brdWhoAmI), ArticleID: bbs.ToArticleID(fn)}
		var r interface{}
		r, o.err = api.CreateComment(string(c.ip), bbs.UUserID(cstr(c.user)), params, path, nil)
		if res, ok := r.(*api.CreateCommentResult); ok && o.err == nil {
			o.comment, o.mtime = res.Content, res.MTime
		}
	} else if c.via == "bbs" {
		aid := bbs.ToArticleID(fn)
		o.comment, o.mtime, o.err = bbs.CreateComment(bbs.UUserID(cstr(c.user)), bbs.BBoardID("10_"+brdWhoAmI), aid,
			ptttype.CommentType(c.ctype), c.text, string(c.ip))
	} else {
		bid := boardID
		o.comment, o.mtime, o.err = ptt.Recommend(userRec, uid, &bid, bidWhoAmI, fn, ptttype.CommentType(c.ctype), c.text, ipRaw, nil)
	}
	return o
}

// classify: the property's own classification of a request against the index it is decided on
// (independent of the model).
func classify(dir0 []byte, req, text []byte) (classes []string) {
	k := specLookup(dir0, req)
	if curAttr&uint32(ptttype.BRD_NORECOMMEND) != 0 {
		classes = append(classes, "norecommend")
	}
	if k >= 0 {
		fm := dir0[k*recSz+offFilemode]
		if fm&byte(ptttype.FILE_MARKED) != 0 && fm&byte(ptttype.FILE_SOLVED) != 0 {
			classes = append(classes, "locked")
		}
		// a link entry is an index entry whose name starts with 'L', under whatever letter it is requested
		// (the lookup ignores the type letter; article ids only decode to M./G. names)
		if dir0[k*recSz] == 'L' {
			if req[0] == 'L' {
				classes = append(classes, "link")
			} else {
				classes = append(classes, "link-record") // the finding repaired by 0448f6d
			}
		}
	}

	// a comment is one line: a text that brings its own line break must be refused (b012a03)
	if bytes.ContainsAny(text, "\n\r") {
		classes = append(classes, "newline-text")
	}
	return classes
}

func doComment(line string, w []string) {
	room := -1 // fcomment: only this many more bytes fit into the addressed article
	if w[0] == "fcomment" {
		if len(w) != 10 || len(tickets) > 0 {
			bad(line)
			return
		}
		r, ok := parseNat(w[1], 40)
		if !ok {
			bad(line)
			return
		}
		room = int(r)
		w = w[1:]
	}
	if len(w) != 9 || !haveReset {
		bad(line)
		return
	}
	c, ok := parseCall(w[1:])
	if !ok || (room >= 0 && c.via == "api") {
		bad(line)
		return
	}
	dir0 := readDir()
	files0 := readFiles()
	// the harness's own bookkeeping must agree with the disk before the call
	if len(files0) != len(rawFiles) {
		fatal("bookkeeping: %d files on disk, %d expected", len(files0), len(rawFiles))
	}
	classes := classify(dir0, c.req, c.text)
	var o outcome
	t0 := time.Now().Unix()
	wd := 3 * time.Second
	if ptttype.EDITPOST_SMARTMERGE {
		wd = 8 * time.Second // the retry loop of doAddRecommend sleeps 5 x 1 s before it gives up
	}
	// the write fault: a file-size limit of this process just above the article's present size (SIGXFSZ is
	// ignored, so write(2) writes what fits and then fails with EFBIG); soft limit only, restored after the call
	var oldLimit syscall.Rlimit
	limited := false
	if room >= 0 {
		if k := specLookup(dir0, c.req); k >= 0 {
			if cur, exists := files0[string(cstr(dir0[k*recSz:k*recSz+lenName]))]; exists {
				if err := syscall.Getrlimit(syscall.RLIMIT_FSIZE, &oldLimit); err != nil {
					fatal("getrlimit: %v", err)
				}
				nl := oldLimit
				nl.Cur = uint64(len(cur) + room)
				if err := syscall.Setrlimit(syscall.RLIMIT_FSIZE, &nl); err != nil {
					fatal("setrlimit: %v", err)
				}
				limited = true
			}
		}
	}
	res := hx.CallT(wd, func() string {
		o = c.invoke()
		return "returned"
	})
	if limited {
		if err := syscall.Setrlimit(syscall.RLIMIT_FSIZE, &oldLimit); err != nil {
			fatal("setrlimit (restore): %v", err)
		}
	}
	t1 := time.Now().Unix()
	faultRoom = room
	judge(line, c, false, classes, dir0, files0, res, o, t0, t1)
	faultRoom = -1
}

// faultRoom >= 0 while a call made under a write fault is judged: a failed call may then leave the beginning
// of its line (at most that many bytes) behind the old content - never less than the old content.
var faultRoom = -1

// judge observes the state after a call, judges it against the property (P-hat) and records the op.
// stale: the call decided its delta from a copy of the entry read before other comments went through
// (begin/finish): then the exact saturated sum is not required, only range and a move of at most one.
func judge(line string, c *call, stale bool, classes []string, dir0 []byte, files0 map[string][]byte, res string, o outcome, t0, t1 int64) {
	via, req, text, ip, user, ctype, mtok := c.via, c.req, c.text, c.ip, c.user, c.ctype, c.mtok
	comment, mtime, err := o.comment, o.mtime, o.err
	dir1 := readDir()
	files1 := readFiles()
	k := specLookup(dir0, req)
	judgeT0, judgeT1, retComment = t0, t1, comment

	changedRecs := []int{}
	if len(dir0) == len(dir1) {
		for r := 0; r*recSz < len(dir0); r++ {
			hi := (r + 1) * recSz
			if hi > len(dir0) {
				hi = len(dir0)
			}
			if !bytes.Equal(dir0[r*recSz:hi], dir1[r*recSz:hi]) {
				changedRecs = append(changedRecs, r)
			}
		}
	}
	changedFiles := []string{}
	for n, c := range files1 {
		if old, ok := files0[n]; !ok || !bytes.Equal(old, c) {
			changedFiles = append(changedFiles, n)
		}
	}
	for n := range files0 {
		if _, ok := files1[n]; !ok {
			changedFiles = append(changedFiles, n)
		}
	}
	sort.Strings(changedFiles)
	stateSame := bytes.Equal(dir0, dir1) && len(changedFiles) == 0

	label := fmt.Sprintf("%s:%s", via, typeLabel(ctype))
	if stale {
		label = "stale-" + label
	}
	var out string
	var fails [][2]string
	failf := func(key, f string, a ...interface{}) { fails = append(fails, [2]string{key, fmt.Sprintf(f, a...)}) }

	// bring the bookkeeping up to date with whatever happened (also after a failure)
	updateShadow := func() (maskedSuffix []byte, target string, prefixOK bool) {
		prefixOK = true
		for _, n := range changedFiles {
			newC, ok := files1[n]
			if !ok {
				delete(rawFiles, n)
				delete(shadow, n)
				prefixOK = false
				continue
			}
			oldC, had := files0[n]
			if had && bytes.HasPrefix(newC, oldC) && target == "" {
				suf := newC[len(oldC):]
				m, _ := maskTime(suf)
				maskedSuffix = m
				target = n
				shadow[n] = append(append([]byte{}, shadow[n]...), m...)
			} else {
				prefixOK = false
				shadow[n] = append([]byte{}, newC...)
			}
			rawFiles[n] = newC
		}
		return
	}

	switch {
	case res != "returned":
		out = res
		label += ":" + res
		if res == "ACCEPTED-WHILE-LOCKED" {
			failf("append:lock-ignored", "the comment was accepted while another process held the article lock for the whole retry window")
		} else {
			failf("crash:recommend", "%s in Recommend (%s)", res, hx.LastPanic)
		}
		updateShadow()
	case err != nil:
		cls := errClass(err)
		label += ":" + cls
		updateShadow()
		out = cls + " " + stateStr(dir1)
		if faultRoom >= 0 {
			label += ":write-fault"
			// all previous bytes untouched: every file still starts with what it held; what was added is at
			// most the part of the line the kernel accepted; the index is exactly as it was
			for n, oldC := range files0 {
				newC, ok := files1[n]
				if !ok || !bytes.HasPrefix(newC, oldC) {
					failf("append:prefix", "a refused comment (%v) destroyed bytes of %s: %d bytes before, %d after", err, n, len(oldC), len(newC))
				} else if len(newC)-len(oldC) > faultRoom {
					failf("append:shape", "a refused comment left %d bytes in %s, only %d fitted", len(newC)-len(oldC), n, faultRoom)
				}
			}
			if len(files1) != len(files0) {
				failf("append:prefix", "a refused comment changed the set of files")
			}
			if !bytes.Equal(dir0, dir1) {
				failf("error:state-changed", "the call returned %v but changed index records %v", err, changedRecs)
			}
		} else if cls == "err:idx" && stale {
			// the index was rewritten between the commenter's lookup and its index update: ModifyDirLite refuses the
			// stale position AFTER the line was appended.  The line stays, the error is returned (noted, not judged);
			// what is judged: ONE request has appended at most ONE line, nothing else changed
			label += ":line-stays"
			if !bytes.Equal(dir0, dir1) {
				failf("error:state-changed", "the call returned %v but changed index records %v", err, changedRecs)
			}
			if len(changedFiles) > 1 {
				failf("append:one-line", "one request changed %d files: %v", len(changedFiles), changedFiles)
			}
			for _, n := range changedFiles {
				oldC, newC := files0[n], files1[n]
				if !bytes.HasPrefix(newC, oldC) {
					failf("append:prefix", "a request that returned %v destroyed bytes of %s", err, n)
				} else if suf := newC[len(oldC):]; bytes.Count(suf, []byte{'\n'}) != 1 || suf[len(suf)-1] != '\n' {
					failf("append:one-line", "a request that returned %v appended %d lines to %s", err, bytes.Count(suf, []byte{'\n'}), n)
				}
			}
		} else if !stateSame {
			failf("error:state-changed", "the call returned %v but changed records %v / files %v", err, changedRecs, changedFiles)
		}
	default:
		// accepted
		label += ":ok"
		for _, c := range classes {
			failf("refusal:"+c, "comment accepted although the request is in refusal class %q (req %q, record %d)", c, cstr(req), k)
		}
		// --- frame of the index
		tgt := -1
		if len(dir0) != len(dir1) {
			failf("frame:dir", ".DIR length changed %d -> %d", len(dir0), len(dir1))
		} else if len(changedRecs) > 1 {
			failf("frame:dir", "more than one index record changed: %v", changedRecs)
		} else if len(changedRecs) == 1 {
			tgt = changedRecs[0]
		} else {
			tgt = k // nothing changed in the index (possible only if mtime and score are both as before)
		}
		if tgt >= 0 && tgt != k {
			failf("frame:dir", "record %d changed but the request addresses record %d", tgt, k)
		}
		modOK := false
		if tgt >= 0 && (tgt+1)*recSz <= len(dir1) && len(dir0) == len(dir1) {
			a, b := dir0[tgt*recSz:(tgt+1)*recSz], dir1[tgt*recSz:(tgt+1)*recSz]
			for p := 0; p < recSz; p++ {
				if a[p] != b[p] && !(p >= offModified && p < offModified+4) && p != offRecmd {
					failf("frame:dir", "byte %d of record %d changed (%02x -> %02x): outside recommend/modified", p, tgt, a[p], b[p])
					break
				}
			}
			// --- score
			oldS, newS := int(int8(a[offRecmd])), int(int8(b[offRecmd]))
			delta := 0
			if ctype == 1 {
				delta = 1
			} else if ctype == 2 {
				delta = -1
			}
			if oldS >= -100 && oldS <= 100 {
				if newS < -100 || newS > 100 {
					failf("score:range", "score %d -> %d leaves [-100,100]", oldS, newS)
				}
				if stale {
					// the delta was decided from a copy read before other comments went through: the on-disk
					// score may move by the type's delta or not at all, never further, never past the bounds
					if d := newS - oldS; d != 0 && d != delta {
						failf("score:step", "type %d (delta decided from a stale copy) moved the on-disk score %d to %d", ctype, oldS, newS)
					}
				} else if newS != clampScore(oldS+delta) {
					failf("score:step", "type %d on score %d gives %d, expected %d", ctype, oldS, newS, clampScore(oldS+delta))
				}
				switch {
				case oldS == 100 && delta == 1, oldS == -100 && delta == -1:
					label += ":saturated"
				case delta != 0:
					label += ":moved"
				}
			} else {
				label += ":start-outside-range"
				run.Note(fmt.Sprintf("start score %d outside [-100,100]: type %d gives %d (recorded, not judged)", oldS, ctype, newS))
			}
			// --- modification time
			mod := int64(int32(uint32(b[offModified]) | uint32(b[offModified+1])<<8 | uint32(b[offModified+2])<<16 | uint32(b[offModified+3])<<24))
			if mod != int64(mtime) || mod < t0-2 || mod > t1+2 {
				failf("frame:mtime", "Modified on disk %d, returned %d, wall clock [%d,%d]", mod, mtime, t0, t1)
			} else {
				modOK = true
			}
		}
		// --- the article file
		masked, target, prefixOK := updateShadow()
		wantTarget := ""
		if k >= 0 {
			wantTarget = string(cstr(dir0[k*recSz : k*recSz+lenName]))
		}
		if !prefixOK || len(changedFiles) != 1 || target == "" {
			failf("append:prefix", "changed files %v: not exactly one file extended at its end", changedFiles)
		} else if target != wantTarget {
			failf("append:prefix", "file %q was extended, the addressed entry is %q", target, wantTarget)
		}
		if target != "" {
			suf := files1[target][len(files0[target]):]
			if !bytes.Equal(suf, comment) {
				failf("append:shape", "appended bytes differ from the returned comment")
			}
			judgeShape(failf, suf, ctype, cstr(user), text, ip)
			if via == "api" {
				// through the API every accepted request is a push, a boo or an arrow: its line starts with that mark
				if !hasMark(suf) {
					failf("append:no-mark", "the API accepted type %d and appended a line without a push/boo/arrow mark", ctype)
				}
			}
		}
		// --- replace the wall-clock Modified by the op's token (after it was judged)
		if modOK && tgt >= 0 {
			patched := append([]byte{}, dir1...)
			o := tgt*recSz + offModified
			patched[o], patched[o+1], patched[o+2], patched[o+3] = byte(mtok), byte(mtok>>8), byte(mtok>>16), byte(mtok>>24)
			if err := os.WriteFile(dirPath, patched, 0o644); err != nil {
				fatal("patch .DIR: %v", err)
			}
			dir1 = patched
		}
		recHex := "-"
		if tgt >= 0 && (tgt+1)*recSz <= len(dir1) {
			recHex = hx.Hex(dir1[tgt*recSz : (tgt+1)*recSz])
		}
		mt := "mt=ok"
		if !modOK {
			mt = "mt=bad"
		}
		out = fmt.Sprintf("ok line=%s rec=%d:%s %s %s", hx.Hex(masked), tgt+1, recHex, mt, stateStr(dir1))
	}
	if err != nil || res != "returned" {
		if len(classes) > 0 {
			label += ":class=" + strings.Join(classes, "+")
		}
	}
	if bytes.ContainsAny(text, "\n\r") {
		label += ":text-has-line-break"
	}
	i := run.Op(line, out, label, true)
	for _, f := range fails {
		run.Fail(i, f[0], f[1])
	}
}

// ---- interleaved commenters (begin / finish) ---------------------------------------------------
//
// `begin` starts a REAL ptt.Recommend in a goroutine while the harness holds the article's lock
// (cmsys.GoFlockExNb, the lock doAddRecommendSmartMerge takes): the commenter runs its lookup (phase A),
// finds the article locked and sleeps DO_ADD_RECOMMEND_LOCK_WAIT in the retry loop of doAddRecommend.  The
// harness waits until that goroutine is seen sleeping there (runtime.Stack), so the order is not a matter
// of timing.  While a ticket is pending the other comments of the history go through the branch without
// the article lock (EDITPOST_SMARTMERGE off: same bytes, no lock), so they complete although the lock is
// held.  `finish` releases the lock; the commenter's next retry succeeds and it performs phase B with the
// copy of the entry it read at `begin`.

type ticket struct {
	c        *call
	classes  []string
	lockFile *os.File
	lockPath string
	beginT   int64
	foreign  bool // the lock is held like another process would: flock only, no entry in this process's lock table
	target   string
	done     chan outcome
}

var (
	tickets   = map[string]*ticket{}
	smartWant bool // the EDITPOST_SMARTMERGE value of the reset
	lastBegin time.Time
)

var reTicket = regexp.MustCompile(`^[a-z0-9]{1,8}$`)

// sleepingCommenters counts goroutines that sleep inside the retry loop of ptt.doAddRecommend.
func sleepingCommenters() int {
	buf := make([]byte, 1<<20)
	n := runtime.Stack(buf, true)
	cnt := 0
	for _, g := range strings.Split(string(buf[:n]), "\n\n") {
		// asleep between two attempts, or (an implementation that waits for the lock) blocked in flock
		if strings.Contains(g, "ptt.doAddRecommend") && (strings.Contains(g, "time.Sleep(") || strings.Contains(g, "syscall.Flock(")) {
			cnt++
		}
	}
	return cnt
}

func doBegin(line string, w []string) {
	if len(w) != 11 || !haveReset || (w[2] != "inproc" && w[2] != "foreign") {
		bad(line)
		return
	}
	id := w[1]
	foreign := w[2] == "foreign"
	c, ok := parseCall(w[3:])
	if !ok || c.via == "api" || !reTicket.MatchString(id) || tickets[id] != nil || len(tickets) >= 8 {
		bad(line)
		return
	}
	dir0 := readDir()
	k := specLookup(dir0, c.req)
	t := &ticket{c: c, classes: classify(dir0, c.req, c.text), done: make(chan outcome, 1), beginT: time.Now().Unix()}
	if k >= 0 {
		t.target = string(cstr(dir0[k*recSz : k*recSz+lenName]))
		for _, o := range tickets {
			if o.target == t.target {
				bad(line)
				return
			}
		}
		// hold the article's lock, exactly the key and the kind of lock the commenter will ask for
		if _, exists := rawFiles[t.target]; exists {
			t.lockPath = filepath.Join(boardDir, t.target)
			f, err := os.OpenFile(t.lockPath, os.O_APPEND|os.O_WRONLY, 0o644)
			if err != nil {
				fatal("begin: open %s: %v", t.lockPath, err)
			}
			if foreign {
				// like another server process (mbbsd): the kernel lock only
				if err := syscall.Flock(int(f.Fd()), syscall.LOCK_EX|syscall.LOCK_NB); err != nil {
					fatal("begin: flock %s: %v", t.lockPath, err)
				}
			} else if err := cmsys.GoFlockExNb(f.Fd(), t.lockPath); err != nil {
				fatal("begin: lock %s: %v", t.lockPath, err)
			}
			t.lockFile = f
			t.foreign = foreign
		}
	}
	ptttype.EDITPOST_SMARTMERGE = true // the waiting commenter must take the branch that locks
	// the waiting commenters retry once per second: stagger them, so that finishing them one after the other
	// does not cost a full second each
	if d := time.Until(lastBegin.Add(120 * time.Millisecond)); d > 0 {
		time.Sleep(d)
	}
	lastBegin = time.Now()
	before := sleepingCommenters()
	go func() {
		defer func() {
			if e := recover(); e != nil {
				hx.LastPanic = fmt.Sprint(e)
				t.done <- outcome{err: errPanic}
			}
		}()
		t.done <- c.invoke()
	}()
	// wait until the commenter has finished phase A: either it returned (refused, not found ...) or it is
	// asleep in the retry loop
	deadline := time.Now().Add(10 * time.Second)
	for {
		if len(t.done) > 0 || sleepingCommenters() > before {
			break
		}
		if time.Now().After(deadline) {
			fatal("begin: the commenter neither returned nor reached the lock wait")
		}
		time.Sleep(2 * time.Millisecond)
	}
	tickets[id] = t
	ptttype.EDITPOST_SMARTMERGE = false // comments in between do not need the lock the harness holds
	run.Op(line, "started", "begin", true)
}

var errPanic = errors.New("panic")

func (t *ticket) release() {
	if t.lockFile == nil {
		return
	}
	if t.foreign {
		_ = syscall.Flock(int(t.lockFile.Fd()), syscall.LOCK_UN)
	} else {
		_ = cmsys.GoFunlock(t.lockFile.Fd(), t.lockPath)
	}
	t.lockFile.Close()
	t.lockFile = nil
}

// doAppend: another holder of the article lock (another process) appends bytes to an article.
func doAppend(line string, w []string) {
	if len(w) != 3 || !haveReset {
		bad(line)
		return
	}
	n, ok1 := parseHex(w[1])
	bs, ok2 := parseHex(w[2])
	if !ok1 || !ok2 || !safeName(n) || len(bs) == 0 || len(bs) > 4096 {
		bad(line)
		return
	}
	if _, exists := rawFiles[string(n)]; !exists {
		bad(line)
		return
	}
	var f *os.File
	for _, t := range tickets {
		if t.target == string(n) && t.lockFile != nil {
			f = t.lockFile // the holder writes through the descriptor it holds the lock with
		}
	}
	if f == nil {
		var err error
		f, err = os.OpenFile(filepath.Join(boardDir, string(n)), os.O_APPEND|os.O_WRONLY, 0o644)
		if err != nil {
			fatal("append: %v", err)
		}
		defer f.Close()
	}
	if _, err := f.Write(bs); err != nil {
		fatal("append: %v", err)
	}
	rawFiles[string(n)] = append(append([]byte{}, rawFiles[string(n)]...), bs...)
	shadow[string(n)] = append(append([]byte{}, shadow[string(n)]...), bs...)
	run.Op(line, "ok "+stateStr(readDir()), "holder-append", false)
}

// doFinish: `finish <id>` lets the held commenter go; `expire <id>` keeps the lock until it has given up.
func doFinish(line string, w []string) {
	if len(w) != 2 || !haveReset || tickets[w[1]] == nil {
		bad(line)
		return
	}
	t := tickets[w[1]]
	delete(tickets, w[1])
	dir0 := readDir()
	files0 := readFiles()
	t0 := t.beginT // the line was formatted (and carries the time of) the commenter's lookup, at `begin`
	expire := w[0] == "expire"
	if !expire {
		t.release()
	}
	var o outcome
	res := "returned"
	select {
	case o = <-t.done:
		if o.err == errPanic {
			res = "PANIC"
		}
	case <-time.After(8 * time.Second):
		res = "TIMEOUT"
	}
	if expire {
		// the holder kept the lock for the whole retry window of the commenter
		t.release()
		if res == "returned" && o.err == nil {
			res = "ACCEPTED-WHILE-LOCKED"
		}
	}
	t1 := time.Now().Unix()
	if len(tickets) == 0 {
		ptttype.EDITPOST_SMARTMERGE = smartWant
	}
	judge(line, t.c, true, t.classes, dir0, files0, res, o, t0, t1)
}

var (
	judgeT0, judgeT1 int64
	retComment       []byte
	curZone          = mustZone("Asia/Taipei") // the built-in default of package types
)

var zones = []string{"Asia/Taipei", "UTC", "America/New_York", "Pacific/Kiritimati", "Asia/Kathmandu"}

func mustZone(n string) *time.Location {
	l, err := time.LoadLocation(n)
	if err != nil {
		fmt.Fprintln(os.Stderr, "c10: zone", n, err)
		os.Exit(2)
	}
	return l
}

// doZone: the site's TIME_LOCATION, through the real configuration path (viper value of the ini section
// [go-pttbbs:types], then types.InitConfig as the server start-up does).
func doZone(line string, w []string) {
	if len(w) != 2 || len(tickets) > 0 {
		bad(line)
		return
	}
	ok := false
	for _, z := range zones {
		ok = ok || z == w[1]
	}
	if !ok {
		bad(line)
		return
	}
	viper.Set("go-pttbbs:types.time_location", w[1])
	if err := types.InitConfig(); err != nil {
		fatal("types.InitConfig: %v", err)
	}
	curZone = mustZone(w[1])
	run.Op(line, "ok", "zone:"+w[1], false)
}

// confKeys: bool switches of ptttype/config.go that the harness sets through the real configuration path (none of
// them is read by the harness or by the comment path except the first two).
var confKeys = map[string]*bool{"OLDRECOMMEND": &ptttype.OLDRECOMMEND, "EDITPOST_SMARTMERGE": &ptttype.EDITPOST_SMARTMERGE,
	"GUESTRECOMMEND": &ptttype.GUESTRECOMMEND, "PLAY_ANGEL": &ptttype.PLAY_ANGEL, "USE_AUTOCPLOG": &ptttype.USE_AUTOCPLOG,
	"DEFAULT_AUTOCPLOG": &ptttype.DEFAULT_AUTOCPLOG, "NOKILLWATERBALL": &ptttype.NOKILLWATERBALL, "ALL_REEDIT_LOG": &ptttype.ALL_REEDIT_LOG,
	"MULTI_WELCOME_LOGIN": &ptttype.MULTI_WELCOME_LOGIN, "BMCHS": &ptttype.BMCHS, "USE_EDIT_HISTORY": &ptttype.USE_EDIT_HISTORY,
	"USE_COMMENTD": &ptttype.USE_COMMENTD}

var (
	confSet = map[string]bool{} // what the deployment's configuration sets (viper overrides are sticky)
	oldWant bool                // the comment layout the site asked for: the reset's value, or what is set under OLDRECOMMEND
)

// doConf: the deployment sets [go-pttbbs:ptttype] KEY = v (viper), then ptttype.InitConfig runs as at server start.
// P-hat (independent of the model): the comment layout switch follows the key OLDRECOMMEND and the append-path switch
// the key EDITPOST_SMARTMERGE, and nothing else.
func doConf(line string, w []string) {
	if len(w) != 3 || len(tickets) > 0 || confKeys[w[1]] == nil || (w[2] != "0" && w[2] != "1") {
		bad(line)
		return
	}
	home := ptttype.BBSHOME
	viper.Set("go-pttbbs:ptttype."+strings.ToLower(w[1]), w[2] == "1")
	confSet[w[1]] = w[2] == "1"
	if err := ptttype.InitConfig(); err != nil {
		fatal("ptttype.InitConfig: %v", err)
	}
	if ptttype.BBSHOME != home {
		fatal("ptttype.InitConfig moved BBSHOME from %q to %q", home, ptttype.BBSHOME)
	}
	if v, ok := confSet["OLDRECOMMEND"]; ok {
		oldWant = v
	}
	if v, ok := confSet["EDITPOST_SMARTMERGE"]; ok {
		smartWant = v
	}
	b := func(x bool) int {
		if x {
			return 1
		}
		return 0
	}
	out := fmt.Sprintf("ok old=%d smart=%d", b(ptttype.OLDRECOMMEND), b(ptttype.EDITPOST_SMARTMERGE))
	idx := run.Op(line, out, "conf:"+w[1]+"="+w[2], true)
	if ptttype.OLDRECOMMEND != oldWant || ptttype.EDITPOST_SMARTMERGE != smartWant {
		run.Fail(idx, "config:switch-follows-other-key", fmt.Sprintf("the site configuration sets %v; after ptttype.InitConfig OLDRECOMMEND=%v (asked for: %v), EDITPOST_SMARTMERGE=%v (asked for: %v)",
			confSet, ptttype.OLDRECOMMEND, oldWant, ptttype.EDITPOST_SMARTMERGE, smartWant))
	}
}

// doRedir: another tool (expire, compaction) rewrites the board index: temp file + rename, then the board's
// article count is refreshed.  Allowed while commenters are held between their lookup and their update.
func doRedir(line string, w []string) {
	if len(w) != 2 || !haveReset {
		bad(line)
		return
	}
	dir, ok := parseHex(w[1])
	if !ok || len(dir) > 1<<20 {
		bad(line)
		return
	}
	tmp := dirPath + ".new"
	if err := os.WriteFile(tmp, dir, 0o644); err != nil {
		fatal("redir: %v", err)
	}
	if err := os.Rename(tmp, dirPath); err != nil {
		fatal("redir: %v", err)
	}
	cache.Shm.Shm.Total[bidWhoAmI.ToBidInStore()] = 0
	if err := cache.SetBTotal(bidWhoAmI); err != nil {
		fatal("SetBTotal: %v", err)
	}
	run.Op(line, "ok "+stateStr(dir), "index-rewritten", false)
}

// ---- many commenters at the same moment, each on its own article (par) ------------------------------
//
// `par <rounds> <type> <text> <mtime>`: one goroutine per index entry, each performing <rounds> REAL
// ptt.Recommend calls on its own article, all released together.  Different articles, different locks,
// different index slots: the result must be what the same comments give one after the other (the model
// applies them sequentially).  Judged per entry and per article, independently of the model: every index
// entry keeps its name, owner, title ... (only Modified and the score may differ), the score moved by the
// entry's OWN accepted comments only, every article is its old content followed by exactly the lines returned
// to its own commenter, in order.
func doPar(line string, w []string) {
	if len(w) != 5 || !haveReset || len(tickets) > 0 {
		bad(line)
		return
	}
	rounds, ok1 := parseNat(w[1], 50)
	ctype, ok2 := parseNat(w[2], 255)
	text, ok3 := parseHex(w[3])
	mtok, ok4 := parseNat(w[4], 2147483647)
	dir0 := readDir()
	total := len(dir0) / recSz
	if !(ok1 && ok2 && ok3 && ok4) || rounds == 0 || mtok == 0 || len(text) > 4096 || total == 0 || total > 64 {
		bad(line)
		return
	}
	seen := map[string]bool{}
	for k := 0; k < total; k++ {
		n := cstr(dir0[k*recSz : k*recSz+lenName])
		_, exists := rawFiles[string(n)]
		if !safeName(n) || !exists || seen[string(n[2:])] {
			bad(line)
			return
		}
		seen[string(n[2:])] = true
	}
	files0 := readFiles()
	user := make([]byte, ptttype.IDLEN+1)
	copy(user, "A1")
	ip := make([]byte, ptttype.IPV4LEN+1)
	copy(ip, "10.9.8.7")
	outs := make([][]outcome, total)
	classes := make([][]string, total)
	start := make(chan struct{})
	done := make(chan int, total)
	t0 := time.Now().Unix()
	for k := 0; k < total; k++ {
		req := append([]byte{}, dir0[k*recSz:k*recSz+lenName]...)
		c := &call{"ptt", "user", user, req, text, ip, ctype, mtok}
		classes[k] = classify(dir0, req, text)
		go func(k int) {
			defer func() {
				if e := recover(); e != nil {
					hx.LastPanic = fmt.Sprint(e)
					outs[k] = append(outs[k], outcome{err: errPanic})
				}
				done <- k
			}()
			<-start
			for r := 0; r < int(rounds); r++ {
				outs[k] = append(outs[k], c.invoke())
			}
		}(k)
	}
	close(start)
	timeout := time.After(30 * time.Second)
	for i := 0; i < total; i++ {
		select {
		case <-done:
		case <-timeout:
			i = total
			run.Op(line, "TIMEOUT", "par:TIMEOUT", true)
			run.Fail(-1, "crash:recommend", "TIMEOUT in concurrent Recommend")
			return
		}
	}
	t1 := time.Now().Unix()
	dir1 := readDir()
	files1 := readFiles()
	judgeT0, judgeT1 = t0, t1

	var fails [][2]string
	failf := func(key, f string, a ...interface{}) { fails = append(fails, [2]string{key, fmt.Sprintf(f, a...)}) }
	delta := 0
	if ctype == 1 {
		delta = 1
	} else if ctype == 2 {
		delta = -1
	}
	nok := 0
	patched := append([]byte{}, dir1...)
	if len(dir1) != len(dir0) {
		failf("frame:dir", ".DIR length changed %d -> %d", len(dir0), len(dir1))
	}
	if len(files1) != len(files0) {
		failf("append:prefix", "the set of article files changed")
	}
	for k := 0; k < total && len(dir1) == len(dir0); k++ {
		a, b := dir0[k*recSz:(k+1)*recSz], dir1[k*recSz:(k+1)*recSz]
		name := string(cstr(a[:lenName]))
		// --- this entry's own accepted comments
		var lines [][]byte
		var lastM types.Time4
		for _, o := range outs[k] {
			if o.err == errPanic {
				failf("crash:recommend", "PANIC in Recommend (%s)", hx.LastPanic)
			} else if o.err == nil {
				lines = append(lines, o.comment)
				lastM = o.mtime
				for _, c := range classes[k] {
					failf("refusal:"+c, "comment accepted although entry %d is in refusal class %q", k, c)
				}
			} else if len(classes[k]) == 0 {
				failf("par:error", "a comment on entry %d (its own article, nobody else's) returned %v", k, o.err)
			}
		}
		nok += len(lines)
		// --- the entry: only Modified and the score may differ
		for p := 0; p < recSz; p++ {
			if a[p] != b[p] && !(p >= offModified && p < offModified+4) && p != offRecmd {
				failf("frame:dir", "index entry %d (%s): byte %d changed (%02x -> %02x) while only comments on OTHER articles and its own were running; the entry now names %q",
					k, name, p, a[p], b[p], cstr(b[:lenName]))
				break
			}
		}
		oldS, newS := int(int8(a[offRecmd])), int(int8(b[offRecmd]))
		if oldS >= -100 && oldS <= 100 {
			want := oldS
			for range lines {
				want = clampScore(want + delta)
			}
			if newS != want {
				failf("score:step", "entry %d: %d accepted comments of type %d on score %d give %d, expected %d", k, len(lines), ctype, oldS, newS, want)
			}
			if newS < -100 || newS > 100 {
				failf("score:range", "entry %d: score %d -> %d leaves [-100,100]", k, oldS, newS)
			}
		}
		if len(lines) > 0 {
			mod := int64(int32(uint32(b[offModified]) | uint32(b[offModified+1])<<8 | uint32(b[offModified+2])<<16 | uint32(b[offModified+3])<<24))
			if mod != int64(lastM) || mod < t0-2 || mod > t1+2 {
				failf("frame:mtime", "entry %d: Modified on disk %d, last returned %d, wall clock [%d,%d]", k, mod, lastM, t0, t1)
			}
			o := k*recSz + offModified
			patched[o], patched[o+1], patched[o+2], patched[o+3] = byte(mtok), byte(mtok>>8), byte(mtok>>16), byte(mtok>>24)
		}
		// --- the article: old content, then exactly the lines returned to its own commenter
		want := append([]byte{}, files0[name]...)
		masked := append([]byte{}, shadow[name]...)
		for _, l := range lines {
			want = append(want, l...)
			m, _ := maskTime(l)
			masked = append(masked, m...)
			judgeShape(failf, l, ctype, cstr(user), text, ip)
		}
		if !bytes.Equal(files1[name], want) {
			failf("append:prefix", "article %s is not its old content followed by the %d lines returned to its commenter (%d bytes, expected %d)",
				name, len(lines), len(files1[name]), len(want))
			masked = files1[name]
		}
		rawFiles[name] = files1[name]
		shadow[name] = masked
	}
	if len(dir1) == len(dir0) && !bytes.Equal(patched, dir1) {
		if err := os.WriteFile(dirPath, patched, 0o644); err != nil {
			fatal("patch .DIR: %v", err)
		}
	}
	label := fmt.Sprintf("par:%s:n=%d", typeLabel(ctype), total)
	i := run.Op(line, fmt.Sprintf("ok accepted=%d %s", nok, stateStr(patched)), label, true)
	for _, f := range fails {
		run.Fail(i, f[0], f[1])
	}
}

// hasMark: the line starts with colour + one of the three Big5 marks (new layout) or with the fixed arrow of the
// old layout.
func hasMark(line []byte) bool {
	if len(line) < 9 || line[0] != 0x1b {
		return false
	}
	for _, m := range [][]byte{{0xb1, 0xc0}, {0xbc, 0x4e}, {0xa1, 0xf7}} {
		if bytes.Equal(line[7:9], m) {
			return true
		}
	}
	return false
}

// doStamp: some other part of the server stamps a time a whole number of days ago (types.Time4.CdateMdHM is
// used by forwards and cross-posts too); the stamp must be right, and so must the next comment's.
func doStamp(line string, w []string) {
	if len(w) != 2 {
		bad(line)
		return
	}
	days, ok := parseNat(w[1], 400)
	if !ok {
		bad(line)
		return
	}
	if time.Now().Second() >= 57 {
		time.Sleep(4 * time.Second) // keep the stamp and the following comment within one minute
	}
	ts := time.Now().Unix() - int64(days)*86400
	got := types.Time4(ts).CdateMdHM()
	i := run.Op(line, "ok", "stamp", false)
	if want := time.Unix(ts, 0).In(curZone).Format("01/02 15:04"); got != want {
		run.Fail(i, "append:time", fmt.Sprintf("CdateMdHM of %d days ago says %q, the clock in %s says %q", days, got, curZone, want))
	}
}

// judgeShape: the appended bytes are one comment line for (type, commenter, text).
func judgeShape(failf func(string, string, ...interface{}), line []byte, ctype uint64, uid, text, ip []byte) {
	n := len(line)
	if n == 0 || line[n-1] != '\n' {
		failf("append:shape", "the appended bytes do not end in a newline")
		return
	}
	if nl := bytes.Count(line, []byte{'\n'}); nl != 1 {
		// "appends exactly one formatted line" holds for ALL texts: a text that brings its own newline and
		// makes the file grow by several lines is a violation with its own key
		if bytes.IndexByte(text, '\n') >= 0 || bytes.IndexByte(uid, '\n') >= 0 || bytes.IndexByte(cstr(ip), '\n') >= 0 {
			failf("append:newline-injection", "the file grew by %d lines: the newline(s) of the text %q were written as they are", nl, text)
		} else {
			failf("append:one-line", "one request appended %d lines (%d bytes, the returned line has %d)", nl, len(line), len(retComment))
		}
	}
	if _, ok := maskTime(line); !ok {
		failf("append:shape", "no MM/DD hh:mm time before the final newline")
	} else {
		// the time of the comment in the location the site is CONFIGURED with (the harness's own clock and zone)
		got := string(line[n-12 : n-1])
		okTime := false
		for ts := judgeT0 - 1; ts <= judgeT1+1; ts++ {
			if time.Unix(ts, 0).In(curZone).Format("01/02 15:04") == got {
				okTime = true
				break
			}
		}
		if !okTime {
			failf("append:time", "the line says %q, the clock in the configured location %s says %q", got, curZone,
				time.Unix(judgeT1, 0).In(curZone).Format("01/02 15:04"))
		}
	}
	body := line
	if n >= 12 {
		body = line[:n-12]
	}
	// Big5 marks of pttbbs: push = b1c0, boo = bc4e, arrow = a1f7
	marks := map[uint64][]byte{1: {0xb1, 0xc0}, 2: {0xbc, 0x4e}, 3: {0xa1, 0xf7}}
	if m, ok := marks[ctype]; ok && !oldWant {
		if !(len(body) > 9 && body[0] == 0x1b && bytes.Equal(body[7:9], m)) {
			failf("append:shape", "type %d: the line does not start with colour + mark %x", ctype, m)
		}
	}
	iu := bytes.Index(body, uid)
	if iu < 0 {
		failf("append:shape", "commenter id %q not in the line", uid)
		return
	}
	if bytes.Index(body[iu+len(uid):], text) < 0 {
		failf("append:shape", "text not in the line after the commenter id")
	}
}

func fatal(f string, a ...interface{}) {
	fmt.Fprintf(os.Stderr, "c10: "+f+"\n", a...)
	if env != nil {
		env.Close()
	}
	os.Exit(2)
}

func execLine(line string) {
	w := strings.Fields(line)
	if len(w) == 0 {
		bad(line)
		return
	}
	switch w[0] {
	case "reset":
		doReset(line, w)
	case "file":
		doFile(line, w)
	case "comment", "fcomment":
		doComment(line, w)
	case "begin":
		doBegin(line, w)
	case "finish", "expire":
		doFinish(line, w)
	case "append":
		doAppend(line, w)
	case "par":
		doPar(line, w)
	case "stamp":
		doStamp(line, w)
	case "zone":
		doZone(line, w)
	case "conf":
		doConf(line, w)
	case "redir":
		doRedir(line, w)
	case "mark":
		doMark(line, w)
	case "dump":
		doDump(line, w)
	default:
		bad(line)
	}
}

func main() {
	mode := flag.String("mode", "", "\"fault\": only the write-fault histories (a process of its own, as they lower its file-size limit)")
	run = hx.Start("C10")
	signal.Ignore(syscall.SIGXFSZ) // a write past RLIMIT_FSIZE returns EFBIG instead of killing the process
	var err error
	env, err = bbsenv.New(bbsenv.Options{})
	if err != nil {
		fmt.Fprintln(os.Stderr, "c10:", err)
		os.Exit(2)
	}
	defer env.Close()
	copy(boardID[:], brdWhoAmI)
	boardDir = env.Path("boards", "W", brdWhoAmI)
	dirPath = filepath.Join(boardDir, ".DIR")
	board, err := cache.GetBCache(bidWhoAmI)
	if err != nil || string(cstr(board.Brdname[:])) != brdWhoAmI {
		fatal("fixture: board 10 is not %s", brdWhoAmI)
	}
	// the account bbs.CreateComment is driven with
	sid := &ptttype.UserID_t{}
	copy(sid[:], "SYSOP")
	_, su, err := ptt.InitCurrentUser(sid)
	if err != nil || !su.UserLevel.HasUserPerm(ptttype.PERM_SYSOP) {
		fatal("fixture: no SYSOP account with PERM_SYSOP (%v)", err)
	}
	sysopID = su.UserID

	run.Rule = "op lines from generators seeded by VERIF_SEED: table check of all 256 type marks; one history per comment type over a .DIR with " +
		"one article at EVERY score in [-100,100] plus six outside; refusal matrix (no-comment board, marked/solved combinations, L entries " +
		"requested under their L, M and G names, texts with line breaks); text lengths 0..80 x every layout (old/new, IP log, aligned id); random histories of 1-30 comments on 2-6 articles; " +
		"error paths; bbs.CreateComment; interleaved commenters (a real Recommend held between its lookup and its index update while others " +
		"move the score to and across the bounds); malformed stream. Non-trivial = a comment call that reached the real Recommend."
	if run.Replay != "" {
		for _, l := range hx.ReplayOps(run.Replay) {
			execLine(l)
		}
	} else if *mode == "fault" {
		genFaults()
	} else {
		generate()
	}
	run.Finish()
}
