package main

import (
	"bytes"
	"encoding/binary"
	"fmt"
	"strings"

	"github.com/Ptt-official-app/go-pttbbs/ptttype"
	"verifharness/internal/hx"
)

// ---- building op lines -----------------------------------------------------------------

const (
	aNOREC = uint32(ptttype.BRD_NORECOMMEND)
	aIPLOG = uint32(ptttype.BRD_IPLOGRECMD)
	aALIGN = uint32(ptttype.BRD_ALIGNEDCMT)
	aNOBOO = uint32(ptttype.BRD_NOBOO)
)

var mtimeCounter uint64 = 1000000000

func nextMtime() uint64 { mtimeCounter += 7; return mtimeCounter }

// name of the k-th seeded article: strictly increasing create times, distinct postfixes
func artName(letter byte, k int) string {
	return fmt.Sprintf("%c.%010d.A.%03X", letter, 1500000000+k*10, (k*37+5)&0xfff)
}

func pad(s string, n int) []byte {
	b := make([]byte, n)
	copy(b, s)
	return b
}

// mkRec writes one FileHeaderRaw through encoding/binary; the fields the comment path must not touch carry
// distinctive non-zero bytes.
func mkRec(name string, score int8, mode byte, k int) []byte {
	h := &ptttype.FileHeaderRaw{}
	copy(h.Filename[:], name)
	h.Modified = 1234567890
	h.Pad = 0xE1
	h.Recommend = score
	copy(h.Owner[:], fmt.Sprintf("owner%d", k%1000))
	copy(h.Date[:], "12/31")
	copy(h.Title[:], fmt.Sprintf("title of article %d \xa4\xa4\xa4\xe5", k))
	h.Pad2 = 0xE2
	h.Multi = [4]byte{0xC1, 0xC2, 0xC3, byte(k)}
	h.Filemode = ptttype.FileMode(mode)
	var buf bytes.Buffer
	if err := binary.Write(&buf, binary.LittleEndian, h); err != nil {
		fatal("binary.Write: %v", err)
	}
	b := buf.Bytes()
	if len(b) != recSz {
		fatal("FileHeaderRaw is %d bytes", len(b))
	}
	// struct padding behind Filemode (3 bytes) is part of the record image too
	b[125], b[126], b[127] = 0xF1, 0xF2, 0xF3
	return b
}

func resetLine(attr uint32, old, smart bool, auto []byte, dir []byte) string {
	b := func(x bool) string {
		if x {
			return "1"
		}
		return "0"
	}
	return fmt.Sprintf("reset %d %s %s %s %s", attr, b(old), b(smart), hx.Hex(auto), hx.Hex(dir))
}

func userArr(id string, junk []byte) []byte {
	u := make([]byte, ptttype.IDLEN+1)
	copy(u, id)
	if junk != nil && len(id)+1 < len(u) {
		copy(u[len(id)+1:], junk)
	}
	return u
}

func ipArr(s string) []byte {
	b := make([]byte, ptttype.IPV4LEN+1)
	copy(b, s)
	return b
}

func commentLine(via, lvl string, user []byte, req string, ctype int, text []byte, ip []byte) string {
	return fmt.Sprintf("comment %s %s %s %s %d %s %s %d", via, lvl, hx.Hex(user), hx.Hex(pad(req, lenName)), ctype,
		hx.Hex(text), hx.Hex(ip), nextMtime())
}

// ---- texts ---------------------------------------------------------------------------------

var big5Pairs = [][]byte{{0xb1, 0xc0}, {0xa4, 0x40}, {0xa7, 0x41}, {0xa6, 0x6e}, {0xbc, 0x4e}, {0xa1, 0xf7}, {0xa4, 0x5c}, {0xf9, 0xfe}}

// a text of exactly n bytes: ASCII, Big5 pairs (also with trail bytes that look like ASCII, 0x5c, 0x40), ESC, NUL-free
func genText(n int, kind int) []byte {
	out := make([]byte, 0, n)
	for len(out) < n {
		switch {
		case kind == 0:
			out = append(out, byte('a'+run.R.Intn(26)))
		case kind == 1 && n-len(out) >= 2:
			out = append(out, big5Pairs[run.R.Intn(len(big5Pairs))]...)
		case kind == 2 && run.R.Intn(6) == 0:
			out = append(out, 0x1b)
		case kind == 3:
			out = append(out, byte(run.R.U64()))
		default:
			out = append(out, byte(' '+run.R.Intn(95)))
		}
	}
	if kind != 3 && kind != 4 {
		for i := range out {
			if out[i] == '\n' {
				out[i] = '.'
			}
		}
	}
	return out[:n]
}

func randText(maxLen int) []byte {
	n := run.R.Intn(maxLen + 1)
	k := run.R.Intn(10)
	switch {
	case k < 4:
		return genText(n, 0)
	case k < 7:
		return genText(n, 1)
	case k < 9:
		return genText(n, 2)
	}
	t := genText(n, 3)
	for i := range t { // arbitrary bytes but no newline: that case has its own generator
		if t[i] == '\n' {
			t[i] = 0
		}
	}
	return t
}

var userIDs = []string{"SYSOP", "A1", "a", "abcdefghijkl", "CodingMan", "x9"}
var ips = []string{"127.0.0.1", "255.255.255.255", "", "1.2.3.4", "0123456789abcdef"}
var quickTypes = []int{1, 2, 3, 0, 4, 7, 255}

func attrOf(i int) uint32 {
	var a uint32
	if i&1 != 0 {
		a |= aIPLOG
	}
	if i&2 != 0 {
		a |= aALIGN
	}
	if i&4 != 0 {
		a |= aNOBOO
	}
	return a
}

// ---- generators ----------------------------------------------------------------------------

func generate() {
	genMarks()
	genConf()
	genExhaustiveScores() // built-in default location
	// the site's TIME_LOCATION through the real configuration path; the oracle compares the time of every
	// accepted line with its own clock in the configured location
	execLine("zone UTC")
	genRefusals()
	genTextLengths()
	execLine("zone America/New_York")
	genErrorPaths()
	genBbs()
	genApi()
	execLine("zone Pacific/Kiritimati") // UTC+14: another date than Taipei for most of the day
	genRaces()
	genReindex()
	genPar()
	execLine("zone Asia/Kathmandu") // UTC+5:45
	genHolders()
	execLine("zone Asia/Taipei")
	genHistories()
	genMalformed()
	run.Exhaust = false
}

func bbsBeginLine(id, holder string, req string, ctype int, text []byte, ip []byte) string {
	return "begin " + id + " " + holder + strings.TrimPrefix(commentLine("bbs", "sysop", sysopID[:], req, ctype, text, ip), "comment")
}

// the board index is rewritten (expire / compaction by another tool) between a commenter's lookup and its index
// update, mostly through the API entry point bbs.CreateComment: ONE request appends at most ONE line, whatever
// it then reports
func genReindex() {
	ip := ipArr("8.8.4.4")
	scores := []int{0, 10, 99, -5, 7, 100}
	var recs [][]byte
	for k, sc := range scores {
		recs = append(recs, mkRec(artName('M', k), int8(sc), 0, k))
	}
	join := func(ks ...int) []byte {
		var d []byte
		for _, k := range ks {
			d = append(d, recs[k]...)
		}
		return d
	}
	full := join(0, 1, 2, 3, 4, 5)
	rounds := 1
	if run.Thorough() {
		rounds = 4
	}
	for r := 0; r < rounds; r++ {
		execLine(resetLine(attrOf(r), r%2 == 1, true, []byte("body\n--\n"), full))
		execLine(bbsBeginLine("t0", "foreign", artName('M', 2), 1, []byte("entry moves down"), ip))
		beginHolder = "foreign"
		execLine(beginLine("t1", "user", userArr("A1", nil), artName('M', 3), 2, []byte("entry moves down, ptt level"), ip))
		execLine(bbsBeginLine("t2", "inproc", artName('M', 4), 1, []byte("index restored before the update"), ip))
		execLine(bbsBeginLine("t3", "foreign", artName('M', 5), 1, []byte("index shorter than the position"), ip))
		execLine(bbsBeginLine("t4", "foreign", artName('M', 1), 3, []byte("entry stays where it is"), ip))
		beginHolder = "inproc"
		execLine("redir " + hx.Hex(join(1, 2, 3, 4, 5))) // the oldest entry expired: every entry moves down
		execLine("finish t0")
		execLine("finish t1")
		execLine(commentLine("bbs", "sysop", sysopID[:], artName('M', 2), 1, []byte("an ordinary comment on the rewritten index"), ip))
		execLine("redir " + hx.Hex(full)) // back
		execLine("finish t2")
		execLine("redir " + hx.Hex(join(0, 1))) // truncated
		execLine("finish t3")
		execLine("finish t4")
		execLine("redir " + hx.Hex(full))
		execLine(commentLine("bbs", "sysop", sysopID[:], artName('M', 5), 2, []byte("afterwards"), ip))
		execLine("dump")
	}
	execLine("redir zz")
	execLine("redir")
	execLine("zone Mars/Olympus")
}

// genConf: the comment path under a site configuration set through the real path (viper + ptttype.InitConfig): every
// switch of confKeys is flipped away from its default and back; under each setting a boo and an arrow are posted —
// the line must carry the type mark unless the site asked for the old layout under the key OLDRECOMMEND.
func genConf() {
	keys := []string{"GUESTRECOMMEND", "PLAY_ANGEL", "USE_AUTOCPLOG", "DEFAULT_AUTOCPLOG", "NOKILLWATERBALL", "ALL_REEDIT_LOG",
		"MULTI_WELCOME_LOGIN", "BMCHS", "USE_EDIT_HISTORY", "USE_COMMENTD", "EDITPOST_SMARTMERGE", "OLDRECOMMEND"}
	b := func(x bool) string {
		if x {
			return "1"
		}
		return "0"
	}
	for ki, k := range keys {
		def := *confKeys[k]
		var dir []byte
		for j := 0; j < 4; j++ {
			dir = append(dir, mkRec(artName('M', j), int8(j), 0, j)...)
		}
		execLine(resetLine(attrOf(ki%8), false, ki%2 == 0, []byte("header\n\nbody\n--\n"), dir))
		execLine("conf " + k + " " + b(!def))
		uid := userIDs[ki%len(userIDs)]
		for j, t := range []int{2, 3, 1, 2} {
			if j == 2 {
				execLine("conf " + k + " " + b(def))
			}
			execLine(commentLine("ptt", "sysop", userArr(uid, nil), artName('M', j), t, randText(12), ipArr(ips[j%len(ips)])))
		}
	}
	execLine("conf OLDRECOMMEND 1") // two settings at once, then back to the defaults
	execLine("conf GUESTRECOMMEND 1")
	execLine("conf OLDRECOMMEND 0")
	execLine("conf GUESTRECOMMEND 0")
	execLine("conf EDITPOST_SMARTMERGE 1")
	execLine("conf NOSUCHKEY 1") // malformed
	execLine("conf OLDRECOMMEND 2")
}

func genMarks() {
	for t := 0; t < 256; t++ {
		execLine(fmt.Sprintf("mark %d", t))
	}
}

// one article at every score in [-100,100] (and six outside), one history per comment type
func genExhaustiveScores() {
	scores := []int{}
	for s := -100; s <= 100; s++ {
		scores = append(scores, s)
	}
	scores = append(scores, 101, -101, 126, -127, 127, -128)
	types := quickTypes
	if run.Thorough() {
		types = nil
		for t := 0; t < 256; t++ {
			types = append(types, t)
		}
	}
	for ti, t := range types {
		var dir []byte
		for k, s := range scores {
			dir = append(dir, mkRec(artName('M', k), int8(s), 0, k)...)
		}
		cfg := ti % 8
		old := ti%16 >= 8 && t <= 3
		execLine(resetLine(attrOf(cfg), old, ti%3 == 0, []byte("header\n\nbody\n--\n"), dir))
		uid := userIDs[ti%len(userIDs)]
		for k := range scores {
			lvl := "sysop"
			if k%3 == 1 {
				lvl = "user"
			}
			execLine(commentLine("ptt", lvl, userArr(uid, nil), artName('M', k), t, randText(20), ipArr(ips[k%len(ips)])))
		}
	}
}

// the refusal matrix: every combination of board flag x file mode x name letter x request letter x type
func genRefusals() {
	modes := []byte{0, byte(ptttype.FILE_MARKED), byte(ptttype.FILE_SOLVED), byte(ptttype.FILE_MARKED | ptttype.FILE_SOLVED),
		0xff, 0xff &^ byte(ptttype.FILE_MARKED), 0xff &^ byte(ptttype.FILE_SOLVED), byte(ptttype.FILE_MARKED|ptttype.FILE_SOLVED) | 0x08}
	letters := []byte{'M', 'G', 'L'}
	for _, attr := range []uint32{0, aNOREC, aNOREC | aIPLOG | aALIGN, aNOBOO} {
		for _, t := range []int{1, 2, 3, 0} {
			var dir []byte
			k := 0
			type ent struct {
				letter byte
				k      int
			}
			var ents []ent
			for _, m := range modes {
				for _, l := range letters {
					dir = append(dir, mkRec(artName(l, k), int8(run.R.Intn(201)-100), m, k)...)
					ents = append(ents, ent{l, k})
					k++
				}
			}
			execLine(resetLine(attr, false, false, []byte("x\n"), dir))
			for _, e := range ents {
				// by its own name, and through each other type letter (Filename_t.Eq ignores the first two bytes)
				for _, rl := range letters {
					execLine(commentLine("ptt", "sysop", userArr("SYSOP", nil), artName(rl, e.k), t, randText(12), ipArr("10.0.0.1")))
				}
			}
		}
	}
}

// text lengths 0..80 in every layout; ids of every length; ids with bytes behind the NUL (aligned layout prints them)
func genTextLengths() {
	var dir []byte
	for k := 0; k < 3; k++ {
		dir = append(dir, mkRec(artName('M', k), int8(k*50-50), 0, k)...)
	}
	step := 1
	for cfg := 0; cfg < 8; cfg++ {
		old := cfg&4 != 0
		execLine(resetLine(attrOf(cfg&3), old, cfg%2 == 0, []byte{}, dir))
		// texts that contain newlines / NUL / ESC sequences (accepted by the code as they are)
		for _, t := range [][]byte{[]byte("a\nb"), []byte("\n"), []byte("x\n\x1b[1;37m\xb1\xc0 \x1b[33mforged\x1b[m\x1b[33m: fake line"), {0}, []byte("a\x00b"), []byte("\x1b[2J"), []byte("\r\n")} {
			execLine(commentLine("ptt", "sysop", userArr("A1", nil), artName('M', 1), 3, t, ipArr("9.9.9.9")))
		}
		for n := 0; n <= 80; n += step {
			uid := userIDs[(n+cfg)%len(userIDs)]
			var junk []byte
			if n%5 == 0 {
				junk = []byte("JUNKJUNKJUNK")
			}
			t := []int{1, 2, 3, 0}[n%4]
			execLine(commentLine("ptt", "sysop", userArr(uid, junk), artName('M', n%3), t, genText(n, (n/3)%3), ipArr(ips[n%len(ips)])))
		}
		// ids of every length 1..12 (and 13 bytes without NUL)
		for l := 1; l <= 13; l++ {
			execLine(commentLine("ptt", "user", userArr(strings.Repeat("u", l), nil), artName('M', l%3), 1+l%3, genText(40+l, 0), ipArr("8.8.8.8")))
		}
	}
}

func genErrorPaths() {
	var dir []byte
	for k := 0; k < 5; k++ {
		dir = append(dir, mkRec(artName('M', k), 0, 0, k)...)
	}
	u := userArr("SYSOP", nil)
	ip := ipArr("1.1.1.1")
	// absent article file (without the retry loop: with it every such call sleeps 5 s)
	execLine(resetLine(0, false, false, []byte("x\n"), dir))
	execLine(fmt.Sprintf("file %s absent", hx.Hex([]byte(artName('M', 2)))))
	execLine(commentLine("ptt", "sysop", u, artName('M', 2), 1, []byte("gone"), ip))
	execLine(commentLine("ptt", "sysop", u, artName('M', 3), 1, []byte("there"), ip))
	execLine(fmt.Sprintf("file %s %s", hx.Hex([]byte(artName('M', 2))), hx.Hex([]byte("back\n"))))
	execLine(commentLine("ptt", "sysop", u, artName('M', 2), 2, []byte("again"), ip))
	// names that are not in the index: between two entries, before the first, after the last
	for _, n := range []string{"M.1500000005.A.123", "M.1400000000.A.001", "M.1600000000.A.FFF", "M.1500000010.A.FFF"} {
		execLine(commentLine("ptt", "sysop", u, n, 1, []byte("nobody"), ip))
	}
	// names whose time part does not parse
	for _, n := range []string{"M.abcdefghij.A.001", "M.", "X", "M.15000000", "M.-500000000.A.001"} {
		execLine(commentLine("ptt", "sysop", u, n, 1, []byte("nobody"), ip))
	}
	execLine("dump")
	// empty index; index with a torn tail (the torn part is not an entry)
	execLine(resetLine(0, false, false, []byte("x\n"), nil))
	execLine(commentLine("ptt", "sysop", u, artName('M', 0), 1, []byte("empty"), ip))
	execLine(resetLine(0, false, false, []byte("x\n"), append(append([]byte{}, dir...), mkRec(artName('M', 5), 0, 0, 5)[:77]...)))
	execLine(commentLine("ptt", "sysop", u, artName('M', 4), 1, []byte("last"), ip))
	execLine(commentLine("ptt", "sysop", u, artName('M', 5), 1, []byte("torn"), ip))
	execLine("dump")
	if run.Thorough() {
		// the same absent file with the retry loop (5 s)
		execLine(resetLine(0, false, true, []byte("x\n"), dir))
		execLine(fmt.Sprintf("file %s absent", hx.Hex([]byte(artName('M', 2)))))
		execLine(commentLine("ptt", "sysop", u, artName('M', 2), 1, []byte("gone"), ip))
	}
}

// the API layer: bbs.CreateComment with the fixture's SYSOP account
func genBbs() {
	var dir []byte
	scores := []int{-100, -99, 0, 99, 100}
	for k, s := range scores {
		dir = append(dir, mkRec(artName('M', k), int8(s), 0, k)...)
	}
	dir = append(dir, mkRec(artName('L', 5), 0, 0, 5)...)
	for cfg := 0; cfg < 4; cfg++ {
		execLine(resetLine(attrOf(cfg), false, true, []byte("h\n"), dir))
		for i := 0; i < 18; i++ {
			k := i % 6
			execLine(commentLine("bbs", "sysop", sysopID[:], artName('M', k), 1+i%3, randText(30), ipArr(ips[i%len(ips)])))
		}
	}
}

var beginHolder = "inproc"

func beginLine(id string, lvl string, user []byte, req string, ctype int, text []byte, ip []byte) string {
	return "begin " + id + " " + beginHolder + strings.TrimPrefix(commentLine("ptt", lvl, user, req, ctype, text, ip), "comment")
}

func appendLine(name string, bs []byte) string {
	return "append " + hx.Hex([]byte(name)) + " " + hx.Hex(bs)
}

// another process holds the article lock while a comment arrives, appends a line of its own (an edit being
// merged, a comment written by mbbsd) and releases the lock within the commenter's retry window - or only
// after it: the holder's line must survive, the comment comes behind it or is refused without a trace
func genHolders() {
	u := userArr("A1", nil)
	ip := ipArr("6.6.6.6")
	holderLine := []byte("\x1b[1;31m\xa1\xf7 \x1b[33mmbbsd\x1b[m\x1b[33m: written by the lock holder            \x1b[m 01/01 00:00\n")
	var dir []byte
	for k := 0; k < 6; k++ {
		dir = append(dir, mkRec(artName('M', k), int8([]int{99, -99, 0, 100, 5, -5}[k]), 0, k)...)
	}
	defer func() { beginHolder = "inproc" }()
	for round, old := range []bool{false, true} {
		execLine(resetLine(attrOf(round), old, true, []byte("article body\n--\n"), dir))
		// t0 is kept waiting beyond its retry window (expire); started first so that its five seconds overlap the rest
		beginHolder = "foreign"
		execLine(beginLine("t0", "user", u, artName('M', 0), 1, []byte("never gets the lock"), ip))
		execLine(appendLine(artName('M', 0), holderLine))
		// t1: the holder appends one line and releases
		execLine(beginLine("t1", "user", u, artName('M', 1), 2, []byte("behind the holder's line"), ip))
		execLine(appendLine(artName('M', 1), holderLine))
		// t2: the holder appends a short line (shorter than the comment) and a second one
		execLine(beginLine("t2", "user", u, artName('M', 2), 1, []byte("two short lines before me"), ip))
		execLine(appendLine(artName('M', 2), []byte("x\n")))
		execLine(appendLine(artName('M', 2), []byte("a much longer line than the comment itself: "+strings.Repeat("z", 150)+"\n")))
		// t3: holder of this process's kind (lock table + flock), appends too
		beginHolder = "inproc"
		execLine(beginLine("t3", "user", u, artName('M', 3), 2, []byte("in-process holder"), ip))
		execLine(appendLine(artName('M', 3), holderLine))
		// t4: foreign holder, other comments land in between and the holder appends
		beginHolder = "foreign"
		execLine(beginLine("t4", "user", u, artName('M', 4), 1, []byte("after everybody"), ip))
		execLine(commentLine("ptt", "sysop", userArr("SYSOP", nil), artName('M', 4), 1, []byte("in between"), ip))
		execLine(appendLine(artName('M', 4), holderLine))
		execLine(commentLine("ptt", "sysop", userArr("SYSOP", nil), artName('M', 4), 2, []byte("in between too"), ip))
		// an append by nobody in particular on an article nobody waits for
		execLine(appendLine(artName('M', 5), []byte("plain append\n")))
		for _, id := range []string{"t1", "t2", "t3", "t4"} {
			execLine("finish " + id)
		}
		if round == 0 || run.Thorough() {
			execLine("expire t0")
		} else {
			execLine("finish t0")
		}
		execLine("dump")
	}
	// protocol edges of the new ops
	execLine("append " + hx.Hex([]byte("M.1400000000.A.001")) + " 00")
	execLine("append " + hx.Hex([]byte(artName('M', 0))) + " -")
	execLine("append " + hx.Hex([]byte(artName('M', 0))) + " zz")
	execLine("append 2e2e 00")
	execLine("expire t9")
	execLine("begin t9 alien" + strings.TrimPrefix(commentLine("ptt", "user", u, artName('M', 0), 1, []byte("x"), ip), "comment"))
}

// interleaved commenters: a commenter looks its entry up, is held on the article lock, others move the score to
// (or across, or away from) the bound, then it updates the index from its stale copy
func genRaces() {
	u := userArr("A1", nil)
	ip := ipArr("5.5.5.5")
	type plan struct {
		start  int   // score when the held commenter looks the entry up
		held   int   // its comment type
		others []int // comment types that complete in between
	}
	plans := []plan{
		{99, 1, []int{1}}, {-99, 2, []int{2}}, // stale 99 / -99, on-disk bound reached in between
		{100, 1, []int{2}}, {-100, 2, []int{1}}, // stale bound (no delta), score moved away
		{98, 1, []int{1, 1}}, {-98, 2, []int{2, 2, 2}},
		{0, 2, []int{1, 3}}, {100, 2, []int{2}},
	}
	hist := func(ps []plan, old bool, attr uint32) {
		var dir []byte
		for k, p := range ps {
			dir = append(dir, mkRec(artName('M', k), int8(p.start), 0, k)...)
		}
		execLine(resetLine(attr, old, true, []byte("h\n"), dir))
		for k, p := range ps {
			execLine(beginLine(fmt.Sprintf("t%d", k), "user", u, artName('M', k), p.held, []byte("held"), ip))
		}
		for k, p := range ps {
			for _, t := range p.others {
				execLine(commentLine("ptt", "sysop", userArr("SYSOP", nil), artName('M', k), t, randText(10), ip))
			}
		}
		for k := range ps {
			execLine("finish " + fmt.Sprintf("t%d", k))
		}
		execLine("dump")
	}
	hist(plans, false, 0)
	n := 1
	if run.Thorough() {
		n = 12
	}
	for h := 0; h < n; h++ {
		var ps []plan
		for k := 0; k < 8; k++ {
			p := plan{held: 1 + run.R.Intn(3)}
			switch run.R.Intn(4) {
			case 0:
				p.start = 100 - run.R.Intn(3)
			case 1:
				p.start = -100 + run.R.Intn(3)
			case 2:
				p.start = []int{127, -128, 101, -101}[run.R.Intn(4)]
			default:
				p.start = run.R.Intn(201) - 100
			}
			for i := run.R.Intn(4); i > 0; i-- {
				p.others = append(p.others, 1+run.R.Intn(3))
			}
			ps = append(ps, p)
		}
		hist(ps, run.R.Intn(3) == 0, attrOf(run.R.Intn(4)))
	}
	// protocol edges: a ticket id in use, a second ticket on the same article, finishing an unknown ticket,
	// reset / file while a ticket is pending, a held request that is refused in phase A
	var dir []byte
	for k := 0; k < 3; k++ {
		dir = append(dir, mkRec(artName('M', k), 99, byte(k/2)*byte(ptttype.FILE_MARKED|ptttype.FILE_SOLVED), k)...)
	}
	execLine(resetLine(0, false, false, []byte("h\n"), dir))
	execLine(beginLine("a", "user", u, artName('M', 0), 1, []byte("x"), ip))
	execLine(beginLine("a", "user", u, artName('M', 1), 1, []byte("x"), ip))
	execLine(beginLine("b", "user", u, artName('G', 0), 1, []byte("x"), ip))
	execLine(beginLine("TOOLONGID", "user", u, artName('M', 1), 1, []byte("x"), ip))
	execLine("finish zz")
	execLine(resetLine(0, false, false, []byte("h\n"), dir))
	execLine("file " + hx.Hex([]byte(artName('M', 1))) + " 00")
	execLine(beginLine("c", "user", u, artName('M', 2), 1, []byte("locked entry"), ip))
	execLine(beginLine("d", "user", u, "M.1400000000.A.001", 1, []byte("nobody"), ip))
	execLine(commentLine("ptt", "sysop", userArr("SYSOP", nil), artName('M', 0), 1, []byte("in between"), ip))
	execLine("finish c")
	execLine("finish d")
	execLine("finish a")
	execLine("finish a")
}

func fcommentLine(room int, lvl string, user []byte, req string, ctype int, text []byte, ip []byte) string {
	return fmt.Sprintf("fcomment %d", room) + strings.TrimPrefix(commentLine("ptt", lvl, user, req, ctype, text, ip), "comment")
}

// write faults after the open, in both append branches (EDITPOST_SMARTMERGE off: doAddRecommendNoSmartMerge;
// on: doAddRecommendSmartMerge, which is retried 5 x 1 s): the comment is refused, every earlier byte of the
// article stays, the index does not move; ordinary comments before and after
func genFaults() {
	u := userArr("A1", nil)
	ip := ipArr("7.7.7.7")
	body := []byte("author: x\ntitle: y\n\nthe body of the article\n--\n\x1b[1;37m\xb1\xc0 \x1b[33mearlier\x1b[m\x1b[33m: an earlier comment   \x1b[m 01/01 00:00\n")
	var dir []byte
	for k := 0; k < 4; k++ {
		dir = append(dir, mkRec(artName('M', k), int8([]int{0, 99, -100, 50}[k]), 0, k)...)
	}
	rooms := []int{0, 1, 2, 7, 8, 9, 17, 39, 40}
	if run.Thorough() {
		rooms = nil
		for r := 0; r <= 40; r++ {
			rooms = append(rooms, r)
		}
	}
	for cfg := 0; cfg < 4; cfg++ {
		old := cfg&2 != 0
		execLine(resetLine(attrOf(cfg), old, false, body, dir)) // no smart merge
		execLine(commentLine("ptt", "user", u, artName('M', 0), 1, []byte("before the fault"), ip))
		for i, r := range rooms {
			execLine(fcommentLine(r, []string{"user", "sysop"}[i%2], u, artName('M', i%4), 1+i%3, randText(30), ip))
			if i%3 == 2 {
				execLine(commentLine("ptt", "user", u, artName('M', i%4), 2, []byte("glued to the torn line"), ip))
			}
		}
		// refused before any write, missing file, unknown entry: the limit plays no role
		execLine(fcommentLine(3, "user", u, artName('M', 1), 1, []byte("line\nbreak"), ip))
		execLine(fcommentLine(3, "user", u, "M.1400000000.A.001", 1, []byte("nobody"), ip))
		execLine("dump")
	}
	// the branch that locks: one fault (its four retries cost a second each), both layouts in thorough
	n := 1
	if run.Thorough() {
		n = 4
	}
	for i := 0; i < n; i++ {
		execLine(resetLine(attrOf(i), i%2 == 1, true, body, dir))
		execLine(commentLine("ptt", "user", u, artName('M', 1), 1, []byte("before the fault"), ip))
		execLine(fcommentLine([]int{5, 0, 40, 13}[i], "user", u, artName('M', 1), 1, []byte("does not fit"), ip))
		execLine(commentLine("ptt", "user", u, artName('M', 1), 1, []byte("after the fault"), ip))
		execLine("dump")
	}
	// protocol edges
	execLine("fcomment 41" + strings.TrimPrefix(commentLine("ptt", "user", u, artName('M', 0), 1, []byte("x"), ip), "comment"))
	execLine("fcomment x" + strings.TrimPrefix(commentLine("ptt", "user", u, artName('M', 0), 1, []byte("x"), ip), "comment"))
	execLine("fcomment 3 ptt")
}

// many commenters at the same moment, each on its own article: different files, different locks, different
// index entries - every entry must keep its identity and move by its own comments only
func genPar() {
	n, rounds, reps := 16, 10, 2
	if run.Thorough() {
		n, rounds, reps = 48, 40, 12
	}
	for rep := 0; rep < reps; rep++ {
		var dir []byte
		for k := 0; k < n; k++ {
			sc := []int{0, 99, 100, -99, -100, 50, -50, 98}[k%8]
			mode := byte(0)
			if k%11 == 7 {
				mode = byte(ptttype.FILE_MARKED | ptttype.FILE_SOLVED)
			}
			l := byte('M')
			if k%13 == 5 {
				l = 'G'
			}
			dir = append(dir, mkRec(artName(l, k), int8(sc), mode, k)...)
		}
		execLine(resetLine(attrOf(rep), rep%3 == 2, rep%2 == 0, []byte("body\n"), dir))
		for _, t := range []int{1, 2, 3} {
			execLine(fmt.Sprintf("par %d %d %s %d", rounds, t, hx.Hex(randText(20)), nextMtime()))
		}
		execLine(commentLine("ptt", "sysop", userArr("SYSOP", nil), artName('M', 0), 1, []byte("afterwards"), ipArr("1.1.1.1")))
		execLine("dump")
	}
	// protocol edges: duplicate identities, an entry without article, bad numbers
	var dup []byte
	dup = append(dup, mkRec(artName('M', 1), 0, 0, 1)...)
	dup = append(dup, mkRec(artName('G', 1), 0, 0, 1)...)
	execLine(resetLine(0, false, false, []byte("x\n"), dup))
	execLine("par 2 1 61 5")
	execLine(resetLine(0, false, false, []byte("x\n"), dup[:recSz]))
	execLine("par 0 1 61 5")
	execLine("par 51 1 61 5")
	execLine("par 2 1 61 0")
	execLine("par 2 1 61 5")
	execLine(fmt.Sprintf("file %s absent", hx.Hex([]byte(artName('M', 1)))))
	execLine("par 2 1 61 5")
}

// the API handler (api.CreateComment) with every type value 0..9 and a few beyond: whatever it accepts must be a
// push, a boo or an arrow; and the time stamp shared with the rest of the server: another stamp a whole number
// of days ago at the same minute, then a comment - its line must carry today's date
func genApi() {
	var dir []byte
	for k := 0; k < 3; k++ {
		dir = append(dir, mkRec(artName('M', k), int8(k*10), 0, k)...)
	}
	ip := ipArr("127.0.0.1")
	for round, zone := range []string{"UTC", "Asia/Kathmandu"} {
		execLine("zone " + zone)
		execLine(resetLine(attrOf(round), false, round == 0, []byte("body\n"), dir))
		types := []int{0, 1, 2, 3, 4, 5, 6, 7, 8, 9, 10, 127, 128, 255}
		for i, t := range types {
			execLine(commentLine("api", "sysop", sysopID[:], artName('M', i%3), t, randText(20), ip))
		}
		for i, days := range []int{1, 2, 7, 30, 365} {
			execLine(fmt.Sprintf("stamp %d", days))
			via := []string{"api", "bbs", "ptt"}[i%3]
			execLine(commentLine(via, "sysop", sysopID[:], artName('M', i%3), 1+i%3, []byte("after a stamp of another day"), ip))
		}
		execLine("dump")
	}
	execLine("stamp 401")
	execLine("stamp x")
	execLine("begin t0 foreign" + strings.TrimPrefix(commentLine("api", "sysop", sysopID[:], artName('M', 0), 1, []byte("x"), ip), "comment"))
	execLine("fcomment 3" + strings.TrimPrefix(commentLine("api", "sysop", sysopID[:], artName('M', 0), 1, []byte("x"), ip), "comment"))
}

// random histories: 1-30 comments on 2-6 articles
func genHistories() {
	n := 150
	if run.Thorough() {
		n = 4000
	}
	for h := 0; h < n; h++ {
		na := 2 + run.R.Intn(5)
		var dir []byte
		for k := 0; k < na; k++ {
			var s int
			switch run.R.Intn(6) {
			case 0:
				s = 100 - run.R.Intn(4)
			case 1:
				s = -100 + run.R.Intn(4)
			case 2:
				s = []int{127, -128, 101, -101, 120, -120}[run.R.Intn(6)]
			default:
				s = run.R.Intn(201) - 100
			}
			mode := byte(0)
			if run.R.Intn(10) == 0 {
				mode = byte(run.R.U64())
			}
			l := byte('M')
			if run.R.Intn(12) == 0 {
				l = 'G'
			}
			dir = append(dir, mkRec(artName(l, k), int8(s), mode, k)...)
		}
		attr := attrOf(run.R.Intn(8))
		if run.R.Intn(15) == 0 {
			attr |= aNOREC
		}
		execLine(resetLine(attr, run.R.Intn(4) == 0, run.R.Bool(), genText(run.R.Intn(40), 2), dir))
		nc := 1 + run.R.Intn(30)
		hot := run.R.Intn(na) // one article gets most of the comments, so that saturation is reached
		hotType := 1 + run.R.Intn(2)
		for c := 0; c < nc; c++ {
			k := hot
			if run.R.Intn(3) == 0 {
				k = run.R.Intn(na)
			}
			t := hotType
			switch run.R.Intn(8) {
			case 0:
				t = 3
			case 1:
				t = 3 - hotType
			case 2:
				t = run.R.Intn(256)
			}
			l := dir[k*recSz]
			lvl := "user"
			if run.R.Bool() {
				lvl = "sysop"
			}
			var junk []byte
			if run.R.Intn(5) == 0 {
				junk = genText(11, 0)
			}
			execLine(commentLine("ptt", lvl, userArr(userIDs[run.R.Intn(len(userIDs))], junk), artName(l, k), t, randText(80),
				ipArr(ips[run.R.Intn(len(ips))])))
		}
		if h%10 == 0 {
			execLine("dump")
		}
	}
}

// lines the protocol rejects (both sides must say bad-op and keep their state), and a comment after them
func genMalformed() {
	var dir []byte
	for k := 0; k < 2; k++ {
		dir = append(dir, mkRec(artName('M', k), 5, 0, k)...)
	}
	execLine(resetLine(0, false, false, []byte("x\n"), dir))
	u := hx.Hex(userArr("A1", nil))
	rq := hx.Hex(pad(artName('M', 0), lenName))
	ip := hx.Hex(ipArr("1.2.3.4"))
	for _, l := range []string{
		"comment", "reset", "reset 0 0 0 - zz", "reset 1 0 0 - -", "reset 4096 2 0 - -", "reset 99999999999 0 0 - -",
		"comment ptt sysop " + u + " " + rq + " 256 61 " + ip + " 5",
		"comment ptt sysop " + u + " " + rq + " 1 61 " + ip + " 0",
		"comment ptt sysop " + u + " " + rq + " 1 61 " + ip + " 2147483648",
		"comment ptt sysop " + u + " " + rq + " -1 61 " + ip + " 5",
		"comment ptt sysop " + u + " " + rq + " 1 6 " + ip + " 5",
		"comment ptt sysop " + u + " " + rq + " 1 6g " + ip + " 5",
		"comment ptt sysop " + u[:24] + " " + rq + " 1 61 " + ip + " 5",
		"comment ptt sysop " + u + " " + rq[:54] + " 1 61 " + ip + " 5",
		"comment ptt sysop " + u + " " + rq + " 1 61 " + ip[:30] + " 5",
		"comment ptt root " + u + " " + rq + " 1 61 " + ip + " 5",
		"comment api sysop " + u + " " + rq + " 1 61 " + ip + " 5",
		"comment bbs user " + u + " " + rq + " 1 61 " + ip + " 5",
		"comment bbs sysop " + u + " " + rq + " 1 61 " + ip + " 5",
		"comment ptt sysop " + hx.Hex(make([]byte, 13)) + " " + rq + " 1 61 " + ip + " 5",
		"comment bbs sysop " + hx.Hex(sysopID[:]) + " " + hx.Hex(pad("M.2500000000.A.001", lenName)) + " 1 61 " + ip + " 5",
		"comment bbs sysop " + hx.Hex(sysopID[:]) + " " + hx.Hex(pad("L.1500000000.A.001", lenName)) + " 1 61 " + ip + " 5",
		"file 2e2e - ", "file " + hx.Hex([]byte("M.x/y")) + " 00", "file " + hx.Hex([]byte(".DIR")) + " 00", "file 4d2e41 zz",
		"mark 256", "mark x", "dump 1", "frobnicate",
	} {
		execLine(l)
	}
	execLine(commentLine("ptt", "sysop", userArr("A1", nil), artName('M', 0), 1, []byte("still works"), ipArr("1.2.3.4")))
	execLine("dump")
}
