package main

// The property oracle P-hat: the abstract account table of the property statement, kept by the harness itself
// (no model involved), plus raw byte comparison of .PASSWDS before/after every operation.
//
//   key                                  meaning
//   register:accepted-invalid            an id that is not (as submitted) 2-12 alphanumerics with a leading letter, or a reserved one, was registered
//   register:refused-valid               a well-formed, free, unreserved id was refused although a slot was free
//   register:duplicate                   an id that is taken (in any letter case) was registered again
//   register:accepted-full               registered although no slot was free
//   register:record                      the new record does not hold the submitted id / password / e-mail / profile
//   register:utmp-full-account-created   Register returned ErrNewUtmp AFTER creating the account
//   login:accepted-wrong-password  login:rejected-right-password  login:utmp-full  login:wrong-id
//   check:accepted-wrong-password  check:rejected-right-password
//   changepw:without-old  changepw:rejected-right-old  changepw:not-replaced
//   changeemail:refused  changeemail:accepted-unknown  changeemail:not-stored
//   lookup:wrong                         CheckExistsUser / GetUser disagree with the table
//   frame:other-slot                     a record other than the addressed account's changed
//   frame:own-slot                       bytes of the account's record changed that the operation does not own
//   refused-sideeffect                   an operation that returned an error changed .PASSWDS
//   index-disk-disagree                  SHM Userid[slot] differs from the record's UserID
//   hash:mask                            the stored hash verifies a pool password with another effective key, or not its own
//   crash:<op>                           panic / timeout

import (
	"bytes"
	"fmt"
	"strings"

	"github.com/Ptt-official-app/go-pttbbs/cache"
	"github.com/Ptt-official-app/go-pttbbs/ptt"
	"github.com/Ptt-official-app/go-pttbbs/ptttype"
	"verifharness/internal/hx"
)

type acct struct {
	id     string // as registered
	pw     []byte
	locked bool // no password is accepted (all-zero or tampered hash)
	email  []byte
	slot   int
}

type oracle struct {
	tbl map[string]*acct // lower-cased id
}

var P oracle

func lower(s string) string { return strings.ToLower(s) }

func isLetter(c byte) bool { return (c >= 'A' && c <= 'Z') || (c >= 'a' && c <= 'z') }
func isDigit(c byte) bool  { return c >= '0' && c <= '9' }

// wellFormed: 2-12 alphanumerics, leading letter — of the string as given.
func wellFormed(s string) bool {
	if len(s) < 2 || len(s) > 12 || !isLetter(s[0]) {
		return false
	}
	for i := 0; i < len(s); i++ {
		if !isLetter(s[i]) && !isDigit(s[i]) {
			return false
		}
	}
	return true
}

func isReserved(s string) bool {
	l := lower(s)
	if l == "new" || l == "guest" {
		return true
	}
	for _, r := range reserved {
		if l == lower(string(cstr(r))) {
			return true
		}
	}
	return false
}

// effKey8: what crypt(3) reads of a password — first 8 bytes, up to a NUL, 7 bits each, zero padded.
func effKey8(p []byte) [8]byte {
	var k [8]byte
	for i := 0; i < 8 && i < len(p); i++ {
		if p[i] == 0 {
			break
		}
		k[i] = p[i] & 0x7f
	}
	return k
}

// lockedPw: GenPasswd stores the all-zero hash for the empty password and for a leading NUL ("unable to login").
func lockedPw(pw []byte) bool { return len(pw) == 0 || pw[0] == 0 }

func (a *acct) accepts(pw []byte) bool { return !a.locked && effKey8(pw) == effKey8(a.pw) }

func (p *oracle) reset(specs []slotSpec, f []byte) {
	p.tbl = map[string]*acct{}
	for k, s := range specs {
		if s.empty || s.id[0] == 0 {
			continue
		}
		id := string(cstr(s.id))
		em := make([]byte, emSz)
		copy(em, s.email)
		p.tbl[lower(id)] = &acct{id: id, pw: s.pw, locked: s.kind != 'g', email: em, slot: k}
	}
}

func (p *oracle) free() int { return nSlot - len(p.tbl) }

// expectation: the class the property statement assigns to a request (also the histogram label).
func (p *oracle) expect(r *result) string {
	name := string(r.args[0])
	cname := string(cstr(r.args[0])) // the wrappers read the submitted id as a C string
	if r.kind == "get" {
		if len(name) > idSz {
			cname = string(cstr(r.args[0][:idSz]))
		}
		if _, ok := p.tbl[lower(cname)]; ok && cname != "" {
			return "ok"
		}
		return "no-such-user"
	}
	if r.kind == "reg" && !wellFormed(name) {
		return "invalid-id" // registration judges the id AS SUBMITTED; lookups read it as a C string (what the wrappers do)
	}
	if !wellFormed(cname) {
		return "invalid-id"
	}
	a := p.tbl[lower(cname)]
	switch r.kind {
	case "reg":
		switch {
		case isReserved(cname):
			return "reserved"
		case a != nil:
			return "exists"
		case p.free() == 0:
			return "no-slot"
		}
		return "ok"
	case "login":
		switch {
		case a == nil:
			return "no-such-user"
		case a.id == "guest":
			return "ok-guest"
		case !a.accepts(r.args[1]):
			return "bad-password"
		}
		return "ok"
	case "chk":
		switch {
		case a == nil:
			return "no-such-user"
		case !a.accepts(r.args[1]):
			return "bad-password"
		}
		return "ok"
	case "chpw":
		switch {
		case a == nil:
			return "no-such-user"
		case !a.accepts(r.args[1]):
			return "bad-password"
		}
		return "ok"
	case "chem", "exists":
		if a == nil {
			return "no-such-user"
		}
		return "ok"
	}
	return "?"
}

func (p *oracle) label(r *result) string {
	if r.kind == "reset" || r.kind == "conc" {
		return r.kind
	}
	return r.kind + ":" + p.expect(r) + "->" + r.errc
}

func diffSlots(a, b []byte) []int {
	var out []int
	for k := 0; k < nSlot; k++ {
		lo, hi := k*recSize, (k+1)*recSize
		if hi > len(a) || hi > len(b) || !bytes.Equal(a[lo:hi], b[lo:hi]) {
			out = append(out, k)
		}
	}
	return out
}

// ownBytesOnly: inside record k nothing but [off, off+sz) changed.
func ownBytesOnly(a, b []byte, k, off, sz int) bool {
	lo := k * recSize
	for j := 0; j < recSize; j++ {
		if j >= off && j < off+sz {
			continue
		}
		if a[lo+j] != b[lo+j] {
			return false
		}
	}
	return true
}

func findByID(f []byte, id string) []int {
	var out []int
	for k := 0; k < nSlot; k++ {
		s := string(cstr(field(f, k, idOff, idSz)))
		if s != "" && lower(s) == lower(id) {
			out = append(out, k)
		}
	}
	return out
}

func padded(b []byte, n int) []byte {
	out := make([]byte, n)
	copy(out, b)
	return out
}

func (p *oracle) judge(i int, line string, r *result) {
	exp := p.expect(r)
	what := func(s string) string { return fmt.Sprintf("%s (%s): %s", line, p.label(r), s) }
	okRet := r.errc == "ok"
	changed := diffSlots(r.before, r.after)
	cname := string(cstr(r.args[0]))
	a := p.tbl[lower(cname)]

	if r.errc == "PANIC" || r.errc == "TIMEOUT" {
		fn := map[string]string{"reg": "register", "login": "login", "chk": "checkpasswd", "chpw": "changepasswd", "chem": "changeemail", "exists": "exists", "get": "getuser"}[r.kind]
		run.Fail(i, "crash:"+fn, what(r.errc+" "+r.panic))
		if len(changed) > 0 {
			run.Fail(i, "refused-sideeffect", what(fmt.Sprintf("records %v changed although the call crashed", changed)))
		}
		return
	}

	// ---- frame: which record may change at all ---------------------------------------------
	own := -1
	switch r.kind {
	case "reg":
		if ks := findByID(r.after, cname); len(ks) > 0 && a == nil {
			own = ks[0]
		}
	case "login", "chpw", "chem":
		if a != nil {
			own = a.slot
		}
	}
	for _, k := range changed {
		if k != own {
			run.Fail(i, "frame:other-slot", what(fmt.Sprintf("record %d changed, the addressed account is in record %d", k+1, own+1)))
			break
		}
	}
	if !okRet && len(changed) > 0 && !(r.kind == "reg" && r.errc == "new-utmp") {
		run.Fail(i, "refused-sideeffect", what(fmt.Sprintf("returned an error but records %v changed", incr(changed))))
	}
	// the SHM index agrees with the file
	for k := 0; k < nSlot; k++ {
		id, err := cache.GetUserID(ptttype.UID(k + 1))
		if err != nil || !bytes.Equal(id[:], field(r.after, k, idOff, idSz)) {
			run.Fail(i, "index-disk-disagree", what(fmt.Sprintf("slot %d: SHM has %q, .PASSWDS has %q", k+1, id[:], field(r.after, k, idOff, idSz))))
			break
		}
	}

	switch r.kind {
	case "reg":
		switch {
		case okRet || r.errc == "new-utmp":
			created := len(findByID(r.after, cname)) > 0 && a == nil
			if r.errc == "new-utmp" {
				if created {
					run.Fail(i, "register:utmp-full-account-created", what("Register returned ErrNewUtmp after the account had been written: a refused registration that is not a no-op"))
				} else {
					run.Fail(i, "register:refused-valid", what("refused for want of a session entry"))
				}
			}
			switch exp {
			case "invalid-id", "reserved":
				if okRet || created {
					run.Fail(i, "register:accepted-invalid", what(fmt.Sprintf("id %q is %s but was registered", r.args[0], exp)))
				}
			case "exists":
				if okRet || len(findByID(r.after, cname)) > 1 {
					run.Fail(i, "register:duplicate", what(fmt.Sprintf("id %q is taken by account %q but was registered again", r.args[0], a.id)))
				}
			case "no-slot":
				run.Fail(i, "register:accepted-full", what("registered although no slot was free"))
			}
			if !created {
				return
			}
			ks := findByID(r.after, cname)
			if len(ks) != 1 {
				run.Fail(i, "register:duplicate", what(fmt.Sprintf("id %q is now in records %v", cname, incr(ks))))
			}
			k := ks[0]
			na := &acct{id: cname, pw: r.args[1], locked: lockedPw(r.args[1]), email: padded(r.args[2], emSz), slot: k}
			if exp == "ok" {
				// the record holds what was submitted
				hash := field(r.after, k, pwOff, pwSz)
				if !bytes.Equal(field(r.after, k, idOff, idSz), padded(r.args[0], idSz)) {
					run.Fail(i, "register:record", what(fmt.Sprintf("UserID field is %q", field(r.after, k, idOff, idSz))))
				}
				if !bytes.Equal(field(r.after, k, emOff, emSz), na.email) {
					run.Fail(i, "register:record", what(fmt.Sprintf("Email field is %q", field(r.after, k, emOff, emSz))))
				}
				if v := verifies(hash, r.args[1]); (v == '1') == na.locked {
					run.Fail(i, "register:record", what(fmt.Sprintf("the stored hash verifies the submitted password: %c (locked=%v)", v, na.locked)))
				}
				u, err := getUserRaw(cname)
				if err != nil || !bytes.Equal(cstr(u.Nickname[:]), regProfile.nick) || !bytes.Equal(cstr(u.RealName[:]), regProfile.real) ||
					!bytes.Equal(cstr(u.Career[:]), regProfile.career) || !bytes.Equal(cstr(u.Address[:]), regProfile.addr) || !u.Over18 {
					run.Fail(i, "register:record", what(fmt.Sprintf("profile fields differ from the submitted ones (err=%v)", err)))
				}
				if okRet && string(r.out[0]) != cname {
					run.Fail(i, "register:record", what(fmt.Sprintf("returned user id %q", r.out[0])))
				}
			}
			p.tbl[lower(cname)] = na
			p.checkMask(i, line, r, na)
		default: // refused
			if a == nil && len(findByID(r.after, cname)) > 0 {
				// an error was returned, but the account is there
				key := "refused-sideeffect"
				if exp == "invalid-id" || exp == "reserved" {
					key = "register:accepted-invalid"
				}
				run.Fail(i, key, what(fmt.Sprintf("id %q (%s): an error was returned but the account exists now", r.args[0], exp)))
				k := findByID(r.after, cname)[0]
				p.tbl[lower(cname)] = &acct{id: cname, pw: r.args[1], locked: lockedPw(r.args[1]), email: padded(r.args[2], emSz), slot: k}
			}
			if exp == "ok" {
				run.Fail(i, "register:refused-valid", what(fmt.Sprintf("id %q is well-formed, not reserved, not taken and %d slots are free", r.args[0], p.free())))
			}
		}
	case "login":
		switch {
		case r.errc == "new-utmp":
			if exp == "ok" || exp == "ok-guest" {
				run.Fail(i, "login:utmp-full", what("the right password is refused because no session entry is left (entries are never vacated)"))
			}
		case okRet && exp != "ok" && exp != "ok-guest":
			run.Fail(i, "login:accepted-wrong-password", what(fmt.Sprintf("logged in although the table says %s", exp)))
		case !okRet && (exp == "ok" || exp == "ok-guest"):
			run.Fail(i, "login:rejected-right-password", what(fmt.Sprintf("password %q has the effective key of the current password %q", r.args[1], a.pw)))
		}
		if okRet && a != nil && string(r.out[0]) != a.id {
			run.Fail(i, "login:wrong-id", what(fmt.Sprintf("returned %q, the account is %q", r.out[0], a.id)))
		}
		if okRet && a != nil && own >= 0 {
			// a login may rewrite its own record, but not id, hash or e-mail
			for _, fld := range [][2]int{{idOff, idSz}, {pwOff, pwSz}, {emOff, emSz}} {
				if !bytes.Equal(field(r.before, own, fld[0], fld[1]), field(r.after, own, fld[0], fld[1])) {
					run.Fail(i, "frame:own-slot", what("a login changed UserID, PasswdHash or Email of the account"))
				}
			}
		}
	case "chk":
		switch {
		case okRet && exp != "ok":
			run.Fail(i, "check:accepted-wrong-password", what(fmt.Sprintf("accepted although the table says %s", exp)))
		case !okRet && exp == "ok":
			run.Fail(i, "check:rejected-right-password", what(fmt.Sprintf("password %q has the effective key of the current password %q", r.args[1], a.pw)))
		}
		if len(changed) > 0 && okRet {
			run.Fail(i, "frame:own-slot", what("a password check changed .PASSWDS"))
		}
	case "chpw":
		switch {
		case okRet && exp != "ok":
			run.Fail(i, "changepw:without-old", what(fmt.Sprintf("password changed although the table says %s for the old password %q", exp, r.args[1])))
			if a != nil {
				a.pw, a.locked = r.args[2], lockedPw(r.args[2])
			}
		case !okRet && exp == "ok":
			run.Fail(i, "changepw:rejected-right-old", what(fmt.Sprintf("old password %q has the effective key of the current password %q", r.args[1], a.pw)))
		case okRet:
			if !ownBytesOnly(r.before, r.after, a.slot, pwOff, pwSz) {
				run.Fail(i, "frame:own-slot", what("a password change wrote outside the PasswdHash bytes"))
			}
			old := a.pw
			a.pw, a.locked = r.args[2], lockedPw(r.args[2])
			hash := field(r.after, a.slot, pwOff, pwSz)
			if v := verifies(hash, r.args[2]); (v == '1') == a.locked {
				run.Fail(i, "changepw:not-replaced", what(fmt.Sprintf("the stored hash verifies the new password: %c (locked=%v)", v, a.locked)))
			}
			if effKey8(old) != effKey8(r.args[2]) && verifies(hash, old) == '1' {
				run.Fail(i, "changepw:not-replaced", what("the stored hash still verifies the old password"))
			}
			p.checkMask(i, line, r, a)
		}
	case "chem":
		switch {
		case okRet && exp != "ok":
			run.Fail(i, "changeemail:accepted-unknown", what("accepted although the table says "+exp))
		case !okRet && exp == "ok":
			run.Fail(i, "changeemail:refused", what("refused for an existing account"))
		case okRet:
			if !ownBytesOnly(r.before, r.after, a.slot, emOff, emSz) {
				run.Fail(i, "frame:own-slot", what("an e-mail change wrote outside the Email bytes"))
			}
			a.email = padded(r.args[1], emSz)
			if !bytes.Equal(field(r.after, a.slot, emOff, emSz), a.email) {
				run.Fail(i, "changeemail:not-stored", what(fmt.Sprintf("Email field is %q", field(r.after, a.slot, emOff, emSz))))
			}
		}
	case "exists":
		found := okRet && len(r.out) == 1 && len(r.out[0]) > 0
		if found != (exp == "ok") {
			run.Fail(i, "lookup:wrong", what(fmt.Sprintf("CheckExistsUser found=%v, the table says %s", found, exp)))
		}
		if len(changed) > 0 {
			run.Fail(i, "frame:own-slot", what("a lookup changed .PASSWDS"))
		}
	case "get":
		if okRet != (exp == "ok") {
			run.Fail(i, "lookup:wrong", what(fmt.Sprintf("GetUser ok=%v, the table says %s", okRet, exp)))
		} else if okRet {
			q := r.args[0]
			if len(q) > idSz {
				q = q[:idSz]
			}
			b := p.tbl[lower(string(cstr(q)))]
			if string(cstr(r.out[0])) != b.id || !bytes.Equal(r.out[1], b.email) {
				run.Fail(i, "lookup:wrong", what(fmt.Sprintf("GetUser returned id %q e-mail %q, the table has %q %q", r.out[0], r.out[1], b.id, b.email)))
			}
		}
		if len(changed) > 0 {
			run.Fail(i, "frame:own-slot", what("a lookup changed .PASSWDS"))
		}
	}
}

func incr(ks []int) []int {
	out := make([]int, len(ks))
	for i, k := range ks {
		out[i] = k + 1
	}
	return out
}

// checkMask: the stored hash of an account verifies exactly the pool passwords that have the effective key of
// its current password (this is the hypothesis "different effective keys do not collide" of the refinement
// theorems, evaluated for the passwords in use).
func (p *oracle) checkMask(i int, line string, r *result, a *acct) {
	m := maskOf(field(r.after, a.slot, pwOff, pwSz))
	for j, q := range pool {
		want := a.accepts(q)
		if (m[j] == '1') != want {
			run.Fail(i, "hash:mask", fmt.Sprintf("%s: the hash stored for password %q gives %c for pool password %q (expected %v)", line, a.pw, m[j], q, want))
			return
		}
	}
}

func getUserRaw(id string) (*ptttype.UserecRaw, error) {
	var u *ptttype.UserecRaw
	var err error
	r := hx.CallSync(func() string {
		u, err = ptt.GetUser(toRaw([]byte(id)))
		return ""
	})
	if r == "PANIC" {
		return nil, fmt.Errorf("panic")
	}
	return u, err
}
