package main

// `conc <reps> <group> // <group> // …` — groups of sub-operations (chk / chpw / login) run in concurrent goroutines,
// each group repeating its sub-ops `reps` times in order.  Groups that write address different accounts (the
// generator sees to that), several groups may CHECK one account.  The canonical answer carries only what every
// schedule must agree on: how many sub-ops ran, how many answered without error, a digest of all error names in
// group-major order, and the table observation afterwards.
//
// P-hat (judgeConc): per group, in its own order, against the abstract table — the current password is never
// refused, a wrong one never accepted, a password change needs the old password; afterwards the hash stored for
// every account of the block verifies exactly its current password, ids and e-mails are untouched, every record
// outside the block is byte-identical.  Keys conc:rejected-right-password, conc:accepted-wrong-password,
// conc:changepw, conc:stored-hash, conc:frame, crash:conc.

import (
	"bytes"
	"fmt"
	"strings"
	"sync"

	"verifharness/internal/hx"
)

type subOp struct {
	kind string
	args [][]byte
}

func splitTok(ws []string, sep string) [][]string {
	out := [][]string{{}}
	for _, w := range ws {
		if w == sep {
			out = append(out, []string{})
		} else {
			out[len(out)-1] = append(out[len(out)-1], w)
		}
	}
	return out
}

func parseConc(ws []string) (reps int, groups [][]subOp, ok bool) {
	if len(ws) < 2 || len(ws[1]) == 0 || len(ws[1]) > 4 {
		return 0, nil, false
	}
	for _, c := range ws[1] {
		if c < '0' || c > '9' {
			return 0, nil, false
		}
		reps = reps*10 + int(c-'0')
	}
	if reps == 0 || reps > 1000 {
		return 0, nil, false
	}
	want := map[string]int{"chk": 2, "chpw": 3, "login": 2}
	for _, g := range splitTok(ws[2:], "//") {
		var subs []subOp
		for _, sw := range splitTok(g, "/") {
			if len(sw) == 0 {
				return 0, nil, false
			}
			n, known := want[sw[0]]
			if !known || len(sw) != n+1 {
				return 0, nil, false
			}
			so := subOp{kind: sw[0]}
			for _, t := range sw[1:] {
				b, ok := unhex(t)
				if !ok {
					return 0, nil, false
				}
				so.args = append(so.args, b)
			}
			subs = append(subs, so)
		}
		if len(subs) == 0 || len(subs) > 64 {
			return 0, nil, false
		}
		groups = append(groups, subs)
	}
	if len(groups) == 0 || len(groups) > 64 {
		return 0, nil, false
	}
	return reps, groups, true
}

type concResult struct {
	reps   int
	groups [][]subOp
	errc   [][]string // per group: reps*len(subs) answers
	before []byte
	after  []byte
}

func doConc(ws []string) (string, *concResult) {
	reps, groups, ok := parseConc(ws)
	if !ok || !have {
		return "bad-op", nil
	}
	cr := &concResult{reps: reps, groups: groups, errc: make([][]string, len(groups))}
	cr.before = readFile()
	var wg sync.WaitGroup
	start := make(chan struct{})
	for g := range groups {
		wg.Add(1)
		cr.errc[g] = make([]string, 0, reps*len(groups[g]))
		go func(g int) {
			defer wg.Done()
			<-start
			for r := 0; r < reps; r++ {
				for _, so := range groups[g] {
					e, _ := callImplSync(so.kind, so.args)
					cr.errc[g] = append(cr.errc[g], e)
				}
			}
		}(g)
	}
	close(start)
	wg.Wait()
	cr.after = readFile()
	n, okc := 0, 0
	h := uint64(14695981039346656037)
	for g := range groups {
		for _, e := range cr.errc[g] {
			n++
			if e == "ok" {
				okc++
			}
			h = fnvBytes(h, []byte(" "+e))
		}
	}
	// a successful login may rewrite the clock-dependent bytes of its own record
	star := map[int]bool{}
	for g := range groups {
		k := 0
		for r := 0; r < reps; r++ {
			for _, so := range groups[g] {
				if so.kind == "login" && cr.errc[g][k] == "ok" {
					star[lookupUID(so.args[0])-1] = true
				}
				k++
			}
		}
	}
	flags := make([]byte, nSlot)
	for k := 0; k < nSlot; k++ {
		switch {
		case star[k]:
			flags[k] = '*'
		case restEqual(cr.before, cr.after, k):
			flags[k] = '='
		default:
			flags[k] = '~'
		}
	}
	return fmt.Sprintf("conc n=%d ok=%d h=%016x used=%d sess=%d tbl=%s rest=%s", n, okc, h, usedOf(cr.after), sessCount(), tblDigest(cr.after), flags), cr
}

// callImplSync is callImpl without the watchdog goroutine (the callers are goroutines already).
func callImplSync(kind string, a [][]byte) (string, [][]byte) {
	var out [][]byte
	errc := hx.CallSync(func() string {
		e, o := callImplRaw(kind, a)
		out = o
		return e
	})
	return errc, out
}

func (p *oracle) judgeConc(i int, line string, cr *concResult) {
	short := line
	if len(short) > 120 {
		short = short[:120] + "…"
	}
	touched := map[int]bool{}
	accts := map[*acct]bool{}
	for g, subs := range cr.groups {
		k := 0
		for r := 0; r < cr.reps; r++ {
			for _, so := range subs {
				res := &result{kind: so.kind, args: so.args, errc: cr.errc[g][k]}
				exp := p.expect(res)
				okRet := res.errc == "ok"
				a := p.tbl[lower(string(cstr(so.args[0])))]
				if a != nil {
					touched[a.slot] = true
					accts[a] = true
				}
				what := fmt.Sprintf("%s: group %d, repetition %d, %s %q: answered %s where the table says %s (run concurrently with %d other groups)",
					short, g, r, so.kind, so.args, res.errc, exp, len(cr.groups)-1)
				switch {
				case res.errc == "PANIC" || res.errc == "TIMEOUT":
					run.Fail(i, "crash:conc", what)
				case so.kind == "chpw":
					if okRet != (exp == "ok") {
						run.Fail(i, "conc:changepw", what)
					}
					if okRet && a != nil {
						a.pw, a.locked = so.args[2], lockedPw(so.args[2])
					}
				case okRet && exp != "ok" && exp != "ok-guest":
					run.Fail(i, "conc:accepted-wrong-password", what)
				case !okRet && (exp == "ok" || exp == "ok-guest"):
					run.Fail(i, "conc:rejected-right-password", what)
				}
				k++
			}
		}
	}
	// afterwards: the stored hashes, and the frame
	for a := range accts {
		m := maskOf(field(cr.after, a.slot, pwOff, pwSz))
		for j, q := range pool {
			if (m[j] == '1') != a.accepts(q) {
				run.Fail(i, "conc:stored-hash", fmt.Sprintf("%s: after the block the hash stored for %q (current password %q) gives %c for pool password %q", short, a.id, a.pw, m[j], q))
				break
			}
		}
		if len(a.pw) > 0 && !a.locked && verifies(field(cr.after, a.slot, pwOff, pwSz), a.pw) != '1' {
			run.Fail(i, "conc:stored-hash", fmt.Sprintf("%s: after the block the hash stored for %q does not verify its current password %q", short, a.id, a.pw))
		}
		for _, fld := range [][2]int{{idOff, idSz}, {emOff, emSz}} {
			if !bytes.Equal(field(cr.before, a.slot, fld[0], fld[1]), field(cr.after, a.slot, fld[0], fld[1])) {
				run.Fail(i, "conc:frame", fmt.Sprintf("%s: UserID or Email of %q changed", short, a.id))
			}
		}
	}
	for _, k := range diffSlots(cr.before, cr.after) {
		if !touched[k] {
			run.Fail(i, "conc:frame", fmt.Sprintf("%s: record %d changed, no account of the block lives there", short, k+1))
			break
		}
	}
}

func concLabel(cr *concResult) string {
	kinds := map[string]bool{}
	for _, g := range cr.groups {
		for _, so := range g {
			kinds[so.kind] = true
		}
	}
	var ks []string
	for _, k := range []string{"chk", "chpw", "login"} {
		if kinds[k] {
			ks = append(ks, k)
		}
	}
	return fmt.Sprintf("conc:%s", strings.Join(ks, "+"))
}
