package main

import (
	"fmt"
	"strings"

	"verifharness/internal/hx"
)

// ---- pools ------------------------------------------------------------------------------------

// ids built to collide or to be refused
var idPool = []string{
	"Ab", "aB", "AB", "ab", "Abc1", "abc1", "ABC1", "a1", "A1", "Zz9",
	"new", "NEW", "New", "guest", "GUEST", "Guest", "root", "Root", "admin1", "ADMIN1",
	"x", "", "abcdefghijkl", "ABCDEFGHIJKL", "abcdefghijklm", "abcdefghijklmn", "abcdefghijkl\x00z",
	"1abc", "9", "0a", "qb\x00cd", "qb\x00xy", "qb", "QB", "ab\x00", "\x00ab",
	"a_b", "a b", "a-b", "ab!", "ab\xc3\xa9", "a\x80b", "@b", "[b", "`b", "{b", "a/", "a:", "az", "AZ", "Az0",
	"sysop", "SYSOP",
	// ids that merely start or end with "guest": ordinary accounts, only the id that EQUALS guest is password-less
	// bytes that are letters in Latin-1 / as runes, but not ASCII letters
	"ab\xe9", "\xe9b", "a\xaa", "a\xb5c", "\xc0\xc1", "a\xb2",
	"guest01", "GUEST01", "guestbook", "GuestX", "guests", "myguest", "Aguest", "gues", "guest\x00x",
}

// ids that may stand in an initial table (well-formed; "guest" exists only as a fixture account)
var initIDs = []string{"Ab", "abc1", "A1", "Zz9", "qb", "abcdefghijkl", "az", "sysop", "guest", "root", "u00", "u01", "Guest",
	"guest01", "guestbook", "myguest", "GuestX"}

var pwPool = [][]byte{
	[]byte("pw1"), []byte("pw2"), []byte("p\xf71"), // 'w'|0x80: the effective key of "pw1"
	[]byte("password1"), []byte("password2"), []byte("passwordXYZlonger"), // share the 8 bytes that count
	[]byte("passwor"), []byte("a"), []byte("a\x00b"), // NUL terminates
	[]byte("\x80"), {}, // 0x80 reads as 0: the effective key of the empty password
	[]byte("\x00abc"), // leading NUL: locks the account
	[]byte("Pw1"),
}

var emails = []string{"a@b.c", "", "someone@example.org", strings.Repeat("x", 49), strings.Repeat("y", 50), strings.Repeat("z", 60), "e\x00f"}

var reservedSets = [][]string{nil, {"root", "admin1"}, {"ROOT"}, {"sysop", "Zz9"}}

func hb(s string) string { return hx.Hex([]byte(s)) }

func usablePw(r *hx.Rand) []byte {
	for {
		p := pwPool[r.Intn(len(pwPool))]
		if len(p) > 0 && p[0] != 0 {
			return p
		}
	}
}

func id13(s string) []byte {
	out := make([]byte, idSz)
	copy(out, s)
	return out
}

// resetLine builds a reset op from a list of initial accounts placed in the given slots.
type initAcct struct {
	slot  int
	id    []byte // 13 bytes
	kind  byte
	pw    []byte
	email string
}

func resetLine(rsv []string, accts []initAcct) string {
	specs := make([]slotSpec, nSlot)
	for i := range specs {
		specs[i].empty = true
	}
	for _, a := range accts {
		specs[a.slot] = slotSpec{id: a.id, kind: a.kind, pw: a.pw, email: []byte(a.email)}
	}
	ss := make([]string, nSlot)
	for i, s := range specs {
		ss[i] = s.String()
	}
	var rs [][]byte
	for _, r := range rsv {
		rs = append(rs, []byte(r))
	}
	return fmt.Sprintf("reset %s %s %s", hexList(rs), hexList(pwPool), strings.Join(ss, ";"))
}

func opReg(id string, pw []byte, email string) string {
	return fmt.Sprintf("reg %s %s %s", hb(id), hx.Hex(pw), hb(email))
}
func opLogin(id string, pw []byte) string { return fmt.Sprintf("login %s %s", hb(id), hx.Hex(pw)) }
func opChk(id string, pw []byte) string   { return fmt.Sprintf("chk %s %s", hb(id), hx.Hex(pw)) }
func opChpw(id string, old, nw []byte) string {
	return fmt.Sprintf("chpw %s %s %s", hb(id), hx.Hex(old), hx.Hex(nw))
}
func opChem(id, email string) string { return fmt.Sprintf("chem %s %s", hb(id), hb(email)) }
func opExists(id string) string      { return "exists " + hb(id) }
func opGet(id string) string         { return "get " + hb(id) }

// randomTable: n accounts with distinct folded ids in random slots; some locked or tampered; sometimes a dirty
// empty slot (NUL first byte, junk behind it).
func randomTable(r *hx.Rand, n int) []initAcct {
	var out []initAcct
	seen := map[string]bool{}
	slots := r.Intn(3) // 0: first slots, 1: scattered, 2: from the end
	used := map[int]bool{}
	for len(out) < n {
		id := initIDs[r.Intn(len(initIDs))]
		if len(out) >= len(initIDs) {
			id = fmt.Sprintf("t%02d", len(out))
		}
		if seen[strings.ToLower(id)] {
			continue
		}
		seen[strings.ToLower(id)] = true
		k := len(out)
		switch slots {
		case 1:
			for k = r.Intn(nSlot); used[k]; k = r.Intn(nSlot) {
			}
		case 2:
			k = nSlot - 1 - len(out)
		}
		used[k] = true
		a := initAcct{slot: k, id: id13(id), kind: 'g', pw: usablePw(r), email: emails[r.Intn(len(emails))]}
		switch r.Intn(8) {
		case 0:
			a.kind, a.pw = 'z', nil
		case 1:
			a.kind = 't'
		}
		out = append(out, a)
	}
	if r.Intn(4) == 0 {
		for k := 0; k < nSlot; k++ {
			if !used[k] {
				junk := id13("\x00junk")
				out = append(out, initAcct{slot: k, id: junk, kind: 'z', email: "left@over"})
				break
			}
		}
	}
	return out
}

func generate() {
	r := run.R
	thorough := run.Thorough()

	// ---- (5) malformed stream: before any reset, and after one ---------------------------------
	for _, l := range []string{"login 6162 7077", "frob", "reset - - e", "reset - 6162 " + strings.Repeat("e;", nSlot)} {
		emit(l, false)
	}
	emit(resetLine(nil, nil), false)
	for _, l := range []string{"reg zz 00 00", "reg 616 7077 -", "login 6162", "chk 6162 70 70", "chpw 6162 70", "exists", "get 61 62",
		"REG 6162 7077 -", "reg 6162 7077 - 00", "reset", "reset - - " + strings.Repeat("e;", nSlot-1) + "e",
		"reset - 70 " + strings.Repeat("e;", nSlot-1) + "6162/g70/-", "reset - 70 " + strings.Repeat("e;", nSlot-1) + hx.Hex(id13("ab")) + "/g/-",
		"reset - 70 " + strings.Repeat("e;", nSlot-1) + hx.Hex(id13("ab")) + "/g0070/-", "reset 6g 70 " + strings.Repeat("e;", nSlot-1) + "e"} {
		emit(l, false)
	}

	// ---- (1) enumerated shapes, smallest first ----------------------------------------------------
	rsv := []string{"root", "admin1"}
	for _, id := range idPool {
		emit(resetLine(rsv, nil), false)
		emit(opReg(id, []byte("pw1"), "a@b.c"), true)
		emit(opExists(id), true)
		emit(opGet(id), true)
		emit(opLogin(id, []byte("pw1")), true)
	}
	pairs := idPool
	if !thorough {
		pairs = idPool[:20]
	}
	for _, a := range pairs {
		for _, b := range pairs {
			if !thorough && r.Intn(3) != 0 {
				continue
			}
			emit(resetLine(rsv, nil), false)
			emit(opReg(a, []byte("pw1"), "a@b.c"), true)
			emit(opReg(b, []byte("pw2"), "b@b.c"), true)
			emit(opLogin(b, []byte("pw1")), true)
			emit(opLogin(b, []byte("pw2")), true)
		}
	}
	// the shortest witnesses of the classic mistakes
	emit(resetLine(nil, nil), false)
	emit(opReg("Usr", []byte("pw1"), "u@v"), true)
	emit(opChpw("usr", []byte("pw2"), []byte("pw3")), true) // wrong old password
	emit(opLogin("Usr", []byte("pw3")), true)
	emit(opLogin("Usr", []byte("pw1")), true)
	emit(opChem("USR", "new@mail"), true)
	emit(opGet("usr"), true)
	emit(resetLine(nil, []initAcct{{slot: 7, id: id13("Tam"), kind: 't', pw: []byte("pw1"), email: "t@m"}, {slot: 2, id: id13("Zero"), kind: 'z'}}), false)
	emit(opLogin("tam", []byte("pw1")), true) // the hash differs from pw1's in its last character only
	emit(opChk("Tam", []byte("pw1")), true)
	emit(opLogin("zero", []byte("")), true)
	emit(opReg("Next", []byte(""), "-"), true) // the empty password registers a locked account; first free slot is 1
	emit(opLogin("next", []byte("")), true)
	emit(opChpw("next", []byte(""), []byte("pw1")), true)
	// guest-like ids: register / have the account, then log in with a wrong, the empty, the right and (after a
	// change) the old password; the fixture account "guest" next to them needs none
	for k, gid := range []string{"guest01", "guestbook", "GuestX", "guests", "myguest", "Aguest", "GUEST9"} {
		tbl := []initAcct{{slot: 3, id: id13("guest"), kind: 'g', pw: []byte("gpw")}}
		if k%2 == 1 {
			// the account exists already (fixture), in another letter case of the request
			tbl = append(tbl, initAcct{slot: 5, id: id13(gid), kind: 'g', pw: []byte("pw1"), email: "g@l"})
		}
		emit(resetLine(nil, tbl), false)
		emit(opReg(gid, []byte("pw1"), "g@l"), true)
		emit(opLogin(gid, []byte("pw2")), true)
		emit(opLogin(strings.ToUpper(gid), []byte("")), true)
		emit(opLogin(strings.ToLower(gid), []byte("gpw")), true)
		emit(opLogin(gid, []byte("pw1")), true)
		emit(opChk(gid, []byte("pw2")), true)
		emit(opChpw(gid, []byte("pw1"), []byte("pw2")), true)
		emit(opLogin(gid, []byte("pw1")), true) // the old password
		emit(opLogin(gid, []byte("pw2")), true)
		emit(opLogin("guest", []byte("anything")), true)
		emit(opLogin("GUEST", []byte("")), true)
	}
	for _, p := range pwPool {
		for _, q := range pwPool {
			emit(resetLine(nil, []initAcct{{slot: 3, id: id13("guest"), kind: 'g', pw: []byte("gpw")}, {slot: 0, id: id13("Tam"), kind: 't', pw: []byte("pw1")}}), false)
			emit(opReg("Usr", p, "u@v"), true)
			emit(opLogin("usr", q), true)
			emit(opChk("USR", q), true)
			emit(opChpw("Usr", q, p), true)
			emit(opChpw("Usr", p, q), true)
			emit(opLogin("Usr", q), true)
			emit(opLogin("Usr", p), true)
			emit(opLogin("guest", q), true)
			emit(opChk("guest", q), true)
			emit(opLogin("tam", []byte("pw1")), true)
			emit(opChk("Tam", []byte("pw1")), true)
			emit(opChpw("Tam", []byte("pw1"), q), true)
		}
	}

	// ---- (2) random histories ----------------------------------------------------------------------
	nHist := 120
	if thorough {
		nHist = 3000
	}
	for h := 0; h < nHist; h++ {
		n0 := r.Intn(13)
		tbl := randomTable(r, n0)
		emit(resetLine(reservedSets[r.Intn(len(reservedSets))], tbl), false)
		var known []string // ids worth addressing
		for _, a := range tbl {
			if a.id[0] != 0 {
				known = append(known, string(cstr(a.id)))
			}
		}
		pwOf := map[string][]byte{}
		for _, a := range tbl {
			pwOf[strings.ToLower(string(cstr(a.id)))] = a.pw
		}
		pickID := func() string {
			if len(known) > 0 && r.Intn(3) != 0 {
				id := known[r.Intn(len(known))]
				switch r.Intn(4) {
				case 0:
					return strings.ToUpper(id)
				case 1:
					return strings.ToLower(id)
				}
				return id
			}
			return idPool[r.Intn(len(idPool))]
		}
		pickPw := func(id string) []byte {
			if p, ok := pwOf[strings.ToLower(string(cstr([]byte(id))))]; ok && p != nil && r.Intn(2) == 0 {
				return p
			}
			return pwPool[r.Intn(len(pwPool))]
		}
		nOps := 1 + r.Intn(60)
		sessions := 0
		for k := 0; k < nOps; k++ {
			id := pickID()
			x := r.Intn(100)
			switch {
			case x < 30 && sessions < 28:
				pw := pwPool[r.Intn(len(pwPool))]
				emit(opReg(id, pw, emails[r.Intn(len(emails))]), true)
				known = append(known, id)
				if _, ok := pwOf[strings.ToLower(id)]; !ok {
					pwOf[strings.ToLower(id)] = pw
				}
				sessions++
			case x < 50 && sessions < 28:
				emit(opLogin(id, pickPw(id)), true)
				sessions++
			case x < 62:
				emit(opChk(id, pickPw(id)), true)
			case x < 76:
				nw := pwPool[r.Intn(len(pwPool))]
				emit(opChpw(id, pickPw(id), nw), true)
				if r.Intn(2) == 0 {
					pwOf[strings.ToLower(string(cstr([]byte(id))))] = nw
				}
			case x < 84:
				emit(opChem(id, emails[r.Intn(len(emails))]), true)
			case x < 92:
				emit(opExists(id), true)
			default:
				emit(opGet(id), true)
			}
		}
	}

	// ---- (3) fill the table --------------------------------------------------------------------------
	nFill := 2
	if thorough {
		nFill = 12
	}
	for h := 0; h < nFill; h++ {
		n0 := 25 + r.Intn(25)
		if h == 0 {
			n0 = nSlot - 1
		}
		var tbl []initAcct
		perm := make([]int, nSlot)
		for i := range perm {
			perm[i] = i
		}
		for i := nSlot - 1; i > 0; i-- {
			j := r.Intn(i + 1)
			perm[i], perm[j] = perm[j], perm[i]
		}
		for i := 0; i < n0; i++ {
			tbl = append(tbl, initAcct{slot: perm[i], id: id13(fmt.Sprintf("f%02d", i)), kind: 'g', pw: usablePw(r), email: "f@ill"})
		}
		emit(resetLine(nil, tbl), false)
		for i := 0; i < nSlot-n0+3; i++ {
			emit(opReg(fmt.Sprintf("New%02d", i), []byte("pw1"), "n@ew"), true)
			if r.Intn(3) == 0 {
				emit(opChk(fmt.Sprintf("new%02d", i), []byte("pw1")), true)
			}
		}
		// a full table: the order of the refusals (exists before no-slot, invalid before both)
		emit(opReg("F00", []byte("pw1"), "-"), true)
		emit(opReg("1x", []byte("pw1"), "-"), true)
		emit(opReg("guest", []byte("pw1"), "-"), true)
		emit(opReg("Fresh1", []byte("pw1"), "-"), true)
		emit(opLogin("new00", []byte("pw1")), true)
		emit(opChpw("f01", tbl[1].pw, []byte("pw2")), true)
		emit(opChem("F02", "x@y"), true)
		emit(opLogin("f01", []byte("pw2")), true)
		emit(opGet("Fresh1"), true)
	}

	// ---- (7) a long etc/reserved.id (several buffer fills of the loader) -----------------------------------------
	{
		var long []string
		for k := 0; k < 600; k++ {
			long = append(long, fmt.Sprintf("rsv%03dname", k))
		}
		emit(resetLine(long, []initAcct{{slot: 0, id: id13("Plain1"), kind: 'g', pw: []byte("pw1")}}), false)
		picks := []int{0, 1, 2, 5, 50, 99, 100, 101, 299, 300, 450, 598, 599}
		for n := 0; n < 6; n++ {
			picks = append(picks, r.Intn(600))
		}
		for j, k := range picks {
			id := long[k]
			switch j % 3 {
			case 1:
				id = strings.ToUpper(id)
			case 2:
				id = strings.ToUpper(id[:1]) + id[1:]
			}
			emit(opReg(id, []byte("pw1"), "r@s"), true)
			if j%4 == 0 {
				emit(opExists(id), true)
				emit(opLogin(id, []byte("pw1")), true)
			}
		}
		emit(opReg("rsv600name", []byte("pw1"), "-"), true) // not on the list
		emit(opReg("rsv000nam", []byte("pw1"), "-"), true)  // a prefix of an entry is not reserved
		emit(opLogin("plain1", []byte("pw1")), true)
	}

	// ---- (6) concurrent requests --------------------------------------------------------------------------
	concBlocks(r, thorough)

	// ---- (4) the session table fills up (known finding) ---------------------------------------------
	{
		var tbl []initAcct
		for i := 0; i < 10; i++ {
			tbl = append(tbl, initAcct{slot: i, id: id13(fmt.Sprintf("old%02d", i)), kind: 'g', pw: []byte("pw1"), email: "o@ld"})
		}
		emit(resetLine(nil, tbl), false)
		for i := 0; i < 33; i++ {
			emit(opReg(fmt.Sprintf("s%02d", i), []byte("pw1"), "s@s"), true)
		}
		emit(opExists("s31"), true)
		emit(opLogin("old03", []byte("pw1")), true)
		emit(opLogin("s02", []byte("pw1")), true) // holds an entry already: still fine
		emit(opLogin("s31", []byte("pw1")), true)
		emit(opChk("old03", []byte("pw1")), true)
	}
}

func subChk(id string, pw []byte) string { return fmt.Sprintf("chk %s %s", hb(id), hx.Hex(pw)) }
func subChpw(id string, o, n []byte) string {
	return fmt.Sprintf("chpw %s %s %s", hb(id), hx.Hex(o), hx.Hex(n))
}
func subLogin(id string, pw []byte) string { return fmt.Sprintf("login %s %s", hb(id), hx.Hex(pw)) }

func concLine(reps int, groups [][]string) string {
	gs := make([]string, len(groups))
	for i, g := range groups {
		gs[i] = strings.Join(g, " / ")
	}
	return fmt.Sprintf("conc %d %s", reps, strings.Join(gs, " // "))
}

// concBlocks: accounts with different passwords (hence different salts and hashes) worked on at the same moment.
func concBlocks(r *hx.Rand, thorough bool) {
	rounds, reps := 2, 60
	if thorough {
		rounds, reps = 12, 250
	}
	// distinct effective keys, so that "wrong" is wrong
	pws := [][]byte{[]byte("pw1"), []byte("pw2"), []byte("password1"), []byte("a"), []byte("Pw1"), []byte("passwor"), []byte("zz9"), []byte("qwertyui")}
	for round := 0; round < rounds; round++ {
		n := 4 + r.Intn(5)
		var tbl []initAcct
		ids := make([]string, n)
		for k := 0; k < n; k++ {
			ids[k] = fmt.Sprintf("Conc%02d", k)
			tbl = append(tbl, initAcct{slot: (7*k + round) % nSlot, id: id13(ids[k]), kind: 'g', pw: pws[k], email: "c@c"})
		}
		tbl = append(tbl, initAcct{slot: 49 - round%3, id: id13("guest"), kind: 'g', pw: []byte("gpw")})
		emit(resetLine(nil, tbl), false)
		wrong := func(k int) []byte { return pws[(k+1)%len(pws)] }
		// (a) read-only: every account checked with its own and with a wrong password, and ONE account checked by
		// several groups at once
		var g [][]string
		for k := 0; k < n; k++ {
			g = append(g, []string{subChk(ids[k], pws[k]), subChk(strings.ToUpper(ids[k]), wrong(k)), subChk(ids[k], pws[k])})
		}
		g = append(g, []string{subChk(ids[0], wrong(0))}, []string{subChk(ids[0], pws[0])}, []string{subChk("nobody1", pws[0])})
		emit(concLine(reps, g), true)
		// (b) writers on different accounts: change there and back, checks in between (old refused, new accepted)
		g = nil
		for k := 0; k < n; k++ {
			nw := append([]byte("N"), pws[k]...)
			g = append(g, []string{subChpw(ids[k], pws[k], nw), subChk(ids[k], nw), subChk(ids[k], pws[k]), subChpw(ids[k], wrong(k), []byte("hijack")),
				subChpw(ids[k], nw, pws[k]), subChk(ids[k], pws[k])})
		}
		emit(concLine(reps, g), true)
		// (c) logins (every account has its session entry already) next to checks and a password-less guest
		for k := 0; k < n; k++ {
			emit(opLogin(ids[k], pws[k]), false)
		}
		emit(opLogin("guest", []byte("x")), false)
		g = nil
		for k := 0; k < n; k++ {
			g = append(g, []string{subLogin(ids[k], pws[k]), subLogin(ids[k], wrong(k)), subChk(ids[k], pws[k])})
		}
		g = append(g, []string{subLogin("guest", []byte("whatever")), subChk("guest", []byte("whatever"))})
		emit(concLine(reps/2+1, g), true)
		// the table afterwards, sequentially
		for k := 0; k < n; k++ {
			emit(opLogin(ids[k], pws[k]), true)
			emit(opChk(ids[k], wrong(k)), true)
		}
	}
	// malformed
	for _, l := range []string{"conc", "conc 0 chk 6162 70", "conc 5", "conc 5 chk 6162", "conc 5 chk 6162 70 /", "conc 5 // chk 6162 70", "conc 5 reg 6162 70 -",
		"conc 1001 chk 6162 70", "conc x chk 6162 70", "conc 5 chk 616 70"} {
		emit(l, false)
	}
}
