// c03: correspondence harness and property oracle for the account model (property C03).
//
// It drives the REAL bbs.Register / Login / CheckPasswd / ChangePasswd / ChangeEmail / CheckExistsUser and
// ptt.GetUser on a private BBSHOME and private SysV keys.  After every operation it prints the error value, the
// returned strings, the uid the SHM index resolves the submitted id to, that slot's (UserID bytes, Email bytes,
// which pool passwords its stored hash verifies), the number of used slots and session entries, a digest over
// (UserID, Email, verify-mask) of ALL slots, and one flag per slot telling whether the bytes outside
// UserID/PasswdHash/Email changed.  Hash bytes are never printed (random salt).  The Lean driver prints the same
// line from the model (ideal hashing).
//
// The property oracle (oracle.go) does not use the model: it keeps the abstract account table of the property
// statement (map from lower-cased id to id/password/e-mail) and diffs the raw bytes of .PASSWDS.
package main

import (
	"bytes"
	"fmt"
	"os"
	"strings"
	"unsafe"

	"github.com/Ptt-official-app/go-pttbbs/bbs"
	"github.com/Ptt-official-app/go-pttbbs/cache"
	"github.com/Ptt-official-app/go-pttbbs/cmbbs"
	"github.com/Ptt-official-app/go-pttbbs/ptt"
	"github.com/Ptt-official-app/go-pttbbs/ptttype"
	"verifharness/internal/bbsenv"
	"verifharness/internal/hx"
)

const (
	nSlot = int(ptttype.MAX_USERS)
	idSz  = int(ptttype.IDLEN + 1)
	emSz  = int(ptttype.EMAILSZ)
	pwSz  = int(ptttype.PASSLEN)
)

var (
	recSize = int(ptttype.USEREC_RAW_SZ)
	idOff   = int(unsafe.Offsetof(ptttype.USEREC_RAW.UserID))
	pwOff   = int(unsafe.Offsetof(ptttype.USEREC_RAW.PasswdHash))
	emOff   = int(unsafe.Offsetof(ptttype.USEREC_RAW.Email))

	run *hx.Run
	env *bbsenv.Env

	// the current history
	have     bool
	pool     [][]byte
	reserved [][]byte
	maskMemo = map[string]string{}

	resetProblem string // the reserved list the loader produced differs from etc/reserved.id
)

// ---- token syntax (the Lean driver implements the same rules) -----------------------------

func unhex(s string) ([]byte, bool) {
	if s == "-" {
		return []byte{}, true
	}
	if len(s) == 0 || len(s)%2 != 0 {
		return nil, false
	}
	out := make([]byte, len(s)/2)
	for i := 0; i < len(s); i += 2 {
		a, ok1 := hexVal(s[i])
		b, ok2 := hexVal(s[i+1])
		if !ok1 || !ok2 {
			return nil, false
		}
		out[i/2] = a<<4 | b
	}
	return out, true
}

func hexVal(c byte) (byte, bool) {
	switch {
	case c >= '0' && c <= '9':
		return c - '0', true
	case c >= 'a' && c <= 'f':
		return c - 'a' + 10, true
	case c >= 'A' && c <= 'F':
		return c - 'A' + 10, true
	}
	return 0, false
}

func unhexList(s string) ([][]byte, bool) {
	if s == "-" {
		return nil, true
	}
	var out [][]byte
	for _, t := range strings.Split(s, ",") {
		b, ok := unhex(t)
		if !ok {
			return nil, false
		}
		out = append(out, b)
	}
	return out, true
}

func hexList(bs [][]byte) string {
	if len(bs) == 0 {
		return "-"
	}
	ss := make([]string, len(bs))
	for i, b := range bs {
		ss[i] = hx.Hex(b)
	}
	return strings.Join(ss, ",")
}

// slotSpec is one entry of a reset line.
type slotSpec struct {
	empty bool
	id    []byte // 13 bytes
	kind  byte   // 'z' zero hash, 'g' generated, 't' generated then altered
	pw    []byte
	email []byte
}

func (s slotSpec) String() string {
	if s.empty {
		return "e"
	}
	p := "z"
	if s.kind != 'z' {
		p = string(s.kind) + hx.Hex(s.pw)
	}
	return hx.Hex(s.id) + "/" + p + "/" + hx.Hex(s.email)
}

func parseSlot(e string) (slotSpec, bool) {
	if e == "e" {
		return slotSpec{empty: true}, true
	}
	f := strings.Split(e, "/")
	if len(f) != 3 {
		return slotSpec{}, false
	}
	id, ok1 := unhex(f[0])
	em, ok2 := unhex(f[2])
	if !ok1 || !ok2 || len(id) != idSz || len(em) > emSz {
		return slotSpec{}, false
	}
	s := slotSpec{id: id, email: em}
	if f[1] == "z" {
		s.kind = 'z'
		return s, true
	}
	if len(f[1]) < 1 || (f[1][0] != 'g' && f[1][0] != 't') {
		return slotSpec{}, false
	}
	pw, ok := unhex(f[1][1:])
	if !ok || len(pw) == 0 || pw[0] == 0 {
		return slotSpec{}, false
	}
	s.kind, s.pw = f[1][0], pw
	return s, true
}

// ---- reading the implementation's state --------------------------------------------------------

func fnvBytes(h uint64, b []byte) uint64 {
	for _, c := range b {
		h = (h ^ uint64(c)) * 1099511628211
	}
	return h
}

func readFile() []byte {
	b, err := os.ReadFile(ptttype.FN_PASSWD)
	if err != nil {
		return nil
	}
	return b
}

func field(f []byte, slot, off, sz int) []byte {
	lo := slot*recSize + off
	if lo+sz > len(f) {
		return make([]byte, sz)
	}
	return f[lo : lo+sz]
}

// verifies runs the real cmbbs.CheckPasswd on a stored hash.
func verifies(hash, pw []byte) byte {
	r := hx.CallSync(func() string {
		ok, err := cmbbs.CheckPasswd(hash, pw)
		if err != nil {
			return "E"
		}
		if ok {
			return "1"
		}
		return "0"
	})
	if r == "PANIC" {
		return 'P'
	}
	return r[0]
}

func maskOf(hash []byte) string {
	k := string(hash)
	if m, ok := maskMemo[k]; ok {
		return m
	}
	m := make([]byte, len(pool))
	for i, q := range pool {
		m[i] = verifies(hash, q)
	}
	maskMemo[k] = string(m)
	return string(m)
}

func maskBytes(m string) []byte {
	out := make([]byte, len(m))
	for i := range m {
		if m[i] == '1' {
			out[i] = 1
		}
	}
	return out
}

func usedOf(f []byte) int {
	n := 0
	for k := 0; k < nSlot; k++ {
		if field(f, k, idOff, idSz)[0] != 0 {
			n++
		}
	}
	return n
}

func tblDigest(f []byte) string {
	h := uint64(14695981039346656037)
	for k := 0; k < nSlot; k++ {
		h = fnvBytes(h, field(f, k, idOff, idSz))
		h = fnvBytes(h, field(f, k, emOff, emSz))
		h = fnvBytes(h, maskBytes(maskOf(field(f, k, pwOff, pwSz))))
	}
	return fmt.Sprintf("%016x", h)
}

func sessCount() int {
	n := 0
	for i := range cache.Shm.Shm.UInfo {
		if cache.Shm.Shm.UInfo[i].Pid != 0 {
			n++
		}
	}
	return n
}

// restEqual: the bytes of the record outside UserID / PasswdHash / Email are the same.
func restEqual(a, b []byte, slot int) bool {
	lo := slot * recSize
	if lo+recSize > len(a) || lo+recSize > len(b) {
		return len(a) == len(b)
	}
	for k := 0; k < recSize; k++ {
		if (k >= idOff && k < idOff+idSz) || (k >= pwOff && k < pwOff+pwSz) || (k >= emOff && k < emOff+emSz) {
			continue
		}
		if a[lo+k] != b[lo+k] {
			return false
		}
	}
	return true
}

func toRaw(s []byte) *ptttype.UserID_t {
	u := &ptttype.UserID_t{}
	copy(u[:], s)
	return u
}

func lookupUID(q []byte) int {
	uid, err := cache.SearchUserRaw(toRaw(q), nil)
	if err != nil {
		return -1
	}
	return int(uid)
}

func errClass(err error) string {
	switch err {
	case nil:
		return "ok"
	case ptttype.ErrInvalidUserID:
		return "invalid-user-id"
	case ptttype.ErrUserIDAlreadyExists:
		return "user-exists"
	case cache.ErrInvalidUID:
		return "invalid-uid"
	case ptt.ErrNewUtmp:
		return "new-utmp"
	case bbs.ErrInvalidParams:
		return "invalid-params"
	case bbs.ErrInvalidUUserID:
		return "invalid-uuserid"
	}
	return "other:" + strings.Map(func(r rune) rune {
		if r <= ' ' || r > '~' {
			return '_'
		}
		return r
	}, err.Error())
}

// ---- running one op line ----------------------------------------------------------------------

type result struct {
	kind   string
	args   [][]byte
	errc   string // error class, PANIC, TIMEOUT
	out    [][]byte
	before []byte
	after  []byte
	uid    int
	panic  string
	conc   *concResult
}

var regProfile = struct{ nick, real, career, addr []byte }{[]byte("nick-c03"), []byte("Real Name"), []byte("career"), []byte("an address 1")}

func callImpl(kind string, a [][]byte) (string, [][]byte) {
	var out [][]byte
	errc := hx.Call(func() string {
		e, o := callImplRaw(kind, a)
		out = o
		return e
	})
	if errc == "PANIC" || errc == "TIMEOUT" {
		out = nil
	}
	return errc, out
}

func callImplRaw(kind string, a [][]byte) (string, [][]byte) {
	var out [][]byte
	errc := func() string {
		switch kind {
		case "reg":
			u, err := bbs.Register(string(a[0]), string(a[1]), "127.0.0.1", string(a[2]), regProfile.nick, regProfile.real, regProfile.career, regProfile.addr, true)
			out = [][]byte{[]byte(u)}
			return errClass(err)
		case "login":
			u, err := bbs.Login(string(a[0]), string(a[1]), "127.0.0.2")
			out = [][]byte{[]byte(u)}
			return errClass(err)
		case "chk":
			return errClass(bbs.CheckPasswd(bbs.UUserID(string(a[0])), string(a[1]), "127.0.0.3"))
		case "chpw":
			return errClass(bbs.ChangePasswd(bbs.UUserID(string(a[0])), string(a[1]), string(a[2]), "127.0.0.4"))
		case "chem":
			return errClass(bbs.ChangeEmail(bbs.UUserID(string(a[0])), string(a[1])))
		case "exists":
			u, err := bbs.CheckExistsUser(string(a[0]))
			out = [][]byte{[]byte(u)}
			return errClass(err)
		case "get":
			u, err := ptt.GetUser(toRaw(a[0]))
			if err == nil && u != nil {
				out = [][]byte{append([]byte{}, u.UserID[:]...), append([]byte{}, u.Email[:]...)}
			}
			return errClass(err)
		}
		return "bad-op"
	}()
	return errc, out
}

var arity = map[string]int{"reg": 3, "login": 2, "chk": 2, "chpw": 3, "chem": 2, "exists": 1, "get": 1}

// doLine executes one op line on the implementation and returns the canonical answer.
func doLine(line string) (string, *result) {
	ws := strings.Fields(line)
	if len(ws) == 0 {
		return "bad-op", nil
	}
	if ws[0] == "conc" {
		out, cr := doConc(ws)
		if cr == nil {
			return out, nil
		}
		return out, &result{kind: "conc", conc: cr}
	}
	if ws[0] == "reset" {
		if len(ws) != 4 {
			return "bad-op", nil
		}
		rsv, ok1 := unhexList(ws[1])
		pl, ok2 := unhexList(ws[2])
		es := strings.Split(ws[3], ";")
		if !ok1 || !ok2 || len(es) != nSlot || len(pl) == 0 || len(pl) > 64 {
			return "bad-op", nil
		}
		for _, r := range rsv {
			// an entry of etc/reserved.id is the first blank-separated token of a line
			if len(r) == 0 {
				return "bad-op", nil
			}
			for _, c := range r {
				if c <= ' ' {
					return "bad-op", nil
				}
			}
		}
		specs := make([]slotSpec, nSlot)
		for i, e := range es {
			s, ok := parseSlot(e)
			if !ok {
				return "bad-op", nil
			}
			specs[i] = s
		}
		doReset(rsv, pl, specs)
		f := readFile()
		return fmt.Sprintf("ok used=%d tbl=%s", usedOf(f), tblDigest(f)), &result{kind: "reset", after: f}
	}
	n, known := arity[ws[0]]
	if !known || len(ws) != n+1 {
		return "bad-op", nil
	}
	args := make([][]byte, n)
	for i := 0; i < n; i++ {
		b, ok := unhex(ws[i+1])
		if !ok {
			return "bad-op", nil
		}
		args[i] = b
	}
	if !have {
		return "bad-op", nil
	}
	r := &result{kind: ws[0], args: args}
	r.before = readFile()
	r.errc, r.out = callImpl(ws[0], args)
	if r.errc == "PANIC" {
		r.panic = hx.LastPanic
	}
	r.after = readFile()
	r.uid = lookupUID(args[0])
	outS := "~"
	if len(r.out) > 0 {
		ss := make([]string, len(r.out))
		for i, o := range r.out {
			ss[i] = hx.Hex(o)
		}
		outS = strings.Join(ss, ",")
	}
	rec := "-"
	if r.uid >= 1 && r.uid <= nSlot {
		k := r.uid - 1
		rec = hx.Hex(field(r.after, k, idOff, idSz)) + ":" + hx.Hex(field(r.after, k, emOff, emSz)) + ":" + maskOf(field(r.after, k, pwOff, pwSz))
	}
	flags := make([]byte, nSlot)
	// the slot whose clock-dependent bytes the op is entitled to rewrite: a login that succeeded, a registration
	// that created the account (it may still fail afterwards for want of a session entry)
	own := -1
	if (r.kind == "login" && r.errc == "ok") || (r.kind == "reg" && (r.errc == "ok" || r.errc == "new-utmp")) {
		own = r.uid - 1
	}
	for k := 0; k < nSlot; k++ {
		switch {
		case k == own:
			flags[k] = '*'
		case restEqual(r.before, r.after, k):
			flags[k] = '='
		default:
			flags[k] = '~'
		}
	}
	return fmt.Sprintf("%s %s uid=%d rec=%s used=%d sess=%d tbl=%s rest=%s", r.errc, outS, r.uid, rec, usedOf(r.after), sessCount(),
		tblDigest(r.after), flags), r
}

// ---- reset --------------------------------------------------------------------------------------

var fillState uint64 = 0x9E3779B97F4A7C15

func filler(n int) []byte {
	out := make([]byte, n)
	for i := range out {
		fillState = fillState*6364136223846793005 + 1442695040888963407
		out[i] = byte(fillState >> 56)
	}
	return out
}

func doReset(rsv, pl [][]byte, specs []slotSpec) {
	pool, reserved = pl, rsv
	maskMemo = map[string]string{}
	f := make([]byte, nSlot*recSize)
	for k, s := range specs {
		if s.empty {
			continue
		}
		rec := f[k*recSize : (k+1)*recSize]
		copy(rec, filler(recSize))
		copy(rec[idOff:idOff+idSz], s.id)
		h := make([]byte, pwSz)
		if s.kind != 'z' {
			g, err := cmbbs.GenPasswd(s.pw)
			if err != nil {
				panic(err)
			}
			copy(h, g[:])
			if s.kind == 't' {
				// same salt, same first 12 characters, another last character: no password may verify
				if h[12] == '.' {
					h[12] = '/'
				} else {
					h[12] = '.'
				}
			}
		}
		copy(rec[pwOff:pwOff+pwSz], h)
		em := make([]byte, emSz)
		copy(em, s.email)
		copy(rec[emOff:emOff+emSz], em)
	}
	if err := os.WriteFile(ptttype.FN_PASSWD, f, 0o644); err != nil {
		panic(err)
	}
	// account expiry is outside the property's account model: the clean-up marker stays fresh, so a full table
	// never makes tryCleanUser sweep.
	_ = os.WriteFile(ptttype.FN_FRESH, []byte("fresh"), 0o644)
	_ = os.RemoveAll(env.Path("home"))
	for c := 'A'; c <= 'z'; c++ {
		if (c >= 'A' && c <= 'Z') || (c >= 'a' && c <= 'z') {
			_ = os.MkdirAll(env.Path("home", string(c)), 0o755)
		}
	}
	// the reserved list goes the way it goes in production: etc/reserved.id (one id per line, followed by a remark)
	// read by ptttype.InitConfig -> initReservedUserIDs
	var rf bytes.Buffer
	for k, r := range rsv {
		rf.Write(r)
		if k%3 != 2 {
			rf.WriteString(" reserved for the system, entry " + fmt.Sprint(k))
		}
		rf.WriteByte('\n')
	}
	_ = os.MkdirAll(env.Path("etc"), 0o755)
	if err := os.WriteFile(env.Path("etc", "reserved.id"), rf.Bytes(), 0o644); err != nil {
		panic(err)
	}
	shmKey, semKey := ptttype.SHM_KEY, ptttype.PASSWDSEM_KEY
	if err := ptttype.InitConfig(); err != nil {
		panic(err)
	}
	if ptttype.BBSHOME != env.Home || ptttype.SHM_KEY != shmKey || ptttype.PASSWDSEM_KEY != semKey {
		panic("ptttype.InitConfig changed the environment")
	}
	resetProblem = ""
	if len(ptttype.ReservedUserIDs) != len(rsv) {
		resetProblem = fmt.Sprintf("etc/reserved.id has %d ids (%d bytes), ptttype.ReservedUserIDs has %d entries", len(rsv), rf.Len(), len(ptttype.ReservedUserIDs))
	} else {
		for k := range rsv {
			if !bytes.Equal(ptttype.ReservedUserIDs[k], rsv[k]) {
				resetProblem = fmt.Sprintf("etc/reserved.id (%d ids, %d bytes): entry %d is %q in the file and %q in ptttype.ReservedUserIDs", len(rsv), rf.Len(), k, rsv[k], ptttype.ReservedUserIDs[k])
				break
			}
		}
	}
	// a COLD load of the segment (index, money, session table): bbsenv runs with cache.IsTest set, so SHM.Reset acts
	if err := env.ResetSHM(); err != nil {
		panic(err)
	}
	have = true
	P.reset(specs, f)
}

// emit runs one op line, records it, and lets the oracle judge it.
func emit(line string, nontrivial bool) {
	out, r := doLine(line)
	label := "bad-op"
	if r != nil {
		label = P.label(r)
	}
	if r != nil && r.kind == "conc" {
		label = concLabel(r.conc)
	}
	i := run.Op(line, out, label, nontrivial)
	if r != nil && r.kind == "reset" && resetProblem != "" {
		run.Fail(i, "reserved:loader", resetProblem)
	}
	if r != nil && r.kind == "conc" {
		P.judgeConc(i, line, r.conc)
	} else if r != nil && r.kind != "reset" {
		P.judge(i, line, r)
	}
}

func cstr(b []byte) []byte {
	if i := bytes.IndexByte(b, 0); i >= 0 {
		return b[:i]
	}
	return b
}

func main() {
	run = hx.Start("C03")
	defer run.Finish()
	var err error
	env, err = bbsenv.New(bbsenv.Options{})
	if err != nil {
		panic(err)
	}
	defer env.Close()
	_ = cmbbs.PasswdInit()
	run.Rule = "histories of account operations on a private BBSHOME: every history starts with a `reset` that writes a .PASSWDS of MAX_USERS records (accounts with known, locked or tampered password hashes; empty and dirty-empty slots) and reloads the SHM index; (1) enumerated shapes, smallest first: one registration per pool id on an empty table, every ordered pair of pool ids, register+login/check/change for every ordered pair of pool passwords; (2) random histories of 1-60 ops over an id pool built to collide (letter-case variants, reserved, new, guest, 1/12/13/14-byte, leading digit, embedded NUL, non-alphanumerics, high bytes) and a password pool (shared 8-byte prefix, bit-7 twins, embedded/leading NUL, empty); (3) fill-the-table histories up to MAX_USERS and beyond; (4) a session-table-full history; (5) a malformed stream; distinct = distinct (history prefix) op lines whose outcome is not a parse error"
	if run.Replay != "" {
		for _, l := range hx.ReplayOps(run.Replay) {
			emit(l, true)
		}
		return
	}
	generate()
}
