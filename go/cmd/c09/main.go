// c09: correspondence harness and property oracle for publishing an article (property C09).
//
// It drives the REAL bbs.CreateArticle (ptt.NewPost when a `from` text is given) on a private BBSHOME and a
// private SysV segment, then reads back the board index, the board directory, Shm.Total, the author's NumPosts,
// the .post log and the ALLPOST index, and fetches the article through bbs.GetArticle / bbs.LoadGeneralArticles.
// Per operation it prints one canonical line (time-dependent fields replaced by placeholders); the Lean driver
// prints the same line from the model.
//
// The property oracle (judge) does not use the model: it recomputes the article file, the title field and the
// counters from the request with plain string operations and compares them with what is on disk.
package main

import (
	"bytes"
	"encoding/binary"
	"encoding/hex"
	"flag"
	"fmt"
	"os"
	"os/signal"
	"path/filepath"
	"regexp"
	"sort"
	"strconv"
	"strings"
	"syscall"
	"time"
	"unsafe"

	"github.com/Ptt-official-app/go-pttbbs/bbs"
	"github.com/Ptt-official-app/go-pttbbs/cache"
	"github.com/Ptt-official-app/go-pttbbs/cmsys"
	"github.com/Ptt-official-app/go-pttbbs/ptt"
	"github.com/Ptt-official-app/go-pttbbs/ptttype"
	"github.com/Ptt-official-app/go-pttbbs/types"
	"github.com/Ptt-official-app/go-pttbbs/types/ansi"
	"github.com/spf13/viper"
	"verifharness/internal/bbsenv"
	"verifharness/internal/hx"
)

var (
	run *hx.Run
	env *bbsenv.Env
)

const (
	recSz  = int(ptttype.FILE_HEADER_RAW_SZ)
	logSz  = int(ptt.POSTLOG_SZ)
	phName = "M.TTTTTTTTTT.A.XXX"
	phDate = "DD/DD"
)

// ---- the fixture: boards and users the generator draws from ------------------------------------

type board struct {
	name string
	bid  int
	anon bool   // BRD_ANONYMOUS
	open bool   // IsOpenBRD: copied to ALLPOST
	bm   string // public moderator ("" = none)
}

type user struct {
	id    string
	uid   int
	sysop bool
	post  bool // PERM_POST and PERM_LOGINOK
}

var boards = map[string]*board{
	"WhoAmI":   {name: "WhoAmI", bid: 10, open: true},
	"EditExp":  {name: "EditExp", bid: 11, open: true, bm: "test0"},
	"Note":     {name: "Note", bid: 8, open: true, anon: true},
	"Record":   {name: "Record", bid: 9}, // made a hidden board below: not open
	"ALLPOST":  {name: "ALLPOST", bid: 6},
	"Security": {name: "Security", bid: 4},
	pctBoard:   {name: pctBoard, bid: 13, open: true}, // a board whose name is full of printf verbs (created below)
}

var users = map[string]*user{
	"SYSOP":     {id: "SYSOP", uid: 1, sysop: true, post: true},
	"CodingMan": {id: "CodingMan", uid: 2, post: true},
	"Kahou2":    {id: "Kahou2", uid: 5, post: true},
	"test0":     {id: "test0", uid: 7, post: true},
	"pichu":     {id: "pichu", uid: 3},
}

const pctBoard = "Pct%s%d%v"

var fixtureDir = map[string][]byte{}          // board -> initial .DIR
var fixtureFiles = map[string]map[string]bool{} // board -> initial directory entries

func bpath(b string, elem ...string) string {
	return env.Path(append([]string{"boards", b[:1], b}, elem...)...)
}

func setupFixture() {
	// EditExp gets a public moderator, Note becomes an anonymous board, Record a hidden one.
	bc := &cache.Shm.Shm.BCache[boards["EditExp"].bid-1]
	copy(bc.BM[:], "test0")
	cache.Shm.Shm.BMCache[boards["EditExp"].bid-1][0] = ptttype.UID(users["test0"].uid)
	cache.Shm.Shm.BCache[boards["Note"].bid-1].BrdAttr |= ptttype.BRD_ANONYMOUS
	cache.Shm.Shm.BCache[boards["Record"].bid-1].BrdAttr |= ptttype.BRD_HIDE
	pb := &cache.Shm.Shm.BCache[boards[pctBoard].bid-1]
	*pb = ptttype.BoardHeaderRaw{}
	copy(pb.Brdname[:], pctBoard)
	copy(pb.Title[:], "test %s board")
	if int(cache.Shm.Shm.BNumber) < boards[pctBoard].bid {
		cache.Shm.Shm.BNumber = int32(boards[pctBoard].bid)
	}
	for n := range boards {
		_ = os.MkdirAll(bpath(n), 0o755)
		d, _ := os.ReadFile(bpath(n, ".DIR"))
		fixtureDir[n] = d
		fixtureFiles[n] = map[string]bool{}
		ents, _ := os.ReadDir(bpath(n))
		for _, e := range ents {
			fixtureFiles[n][e.Name()] = true
		}
	}
}

// facts the publishing path reads about (user, board); computed from the tables above, not by the code under test.
func permitted(u *user, b *board) bool {
	if b.name == "ALLPOST" || b.name == "Security" {
		return false // read-only boards
	}
	if u.sysop {
		return true
	}
	if !u.post {
		return false
	}
	return b.name != "Record" // hidden board: only SYSOP gets in
}

func flagsFor(u *user, b *board) string {
	f := ""
	if u.sysop || (b.bm != "" && b.bm == u.id) {
		f += "r"
	}
	if b.anon {
		f += "a"
	}
	if b.open {
		f += "o"
	}
	if b.bm != "" && !b.anon { // public moderator, not a free board, LOGINOK
		f += "c"
	}
	if !permitted(u, b) {
		f += "n"
	}
	if f == "" {
		return "-"
	}
	return f
}

// ---- request -----------------------------------------------------------------------------------------

type request struct {
	board, dirBoard   string
	userID, nick      []byte
	uid               int
	flags             string
	ip, from          []byte
	class, title      []byte
	lines             [][]byte
	u                 *user
	b                 *board
	sess              *session // non-nil: ptt.NewPost is called with this kept record
	sessTok           string
}

func (q *request) has(c byte) bool { return strings.IndexByte(q.flags, c) >= 0 }

func linesTok(ls [][]byte) string {
	if len(ls) == 0 {
		return "."
	}
	ss := make([]string, len(ls))
	for i, l := range ls {
		ss[i] = hx.Hex(l)
	}
	return strings.Join(ss, ",")
}

func (q *request) line() string {
	return fmt.Sprintf("post %s %s %s %s %s %s %s %s %s", hx.Hex([]byte(q.board)), hx.Hex([]byte(q.dirBoard)), hx.Hex(q.userID),
		q.flags, hx.Hex(q.ip), hx.Hex(q.from), hx.Hex(q.class), hx.Hex(q.title), linesTok(q.lines))
}

// unhex accepts exactly what the Lean driver's parseHex accepts: "-" or an even number of hex digits (either case).
func unhex(s string) ([]byte, bool) {
	if s == "-" {
		return nil, true
	}
	if len(s)%2 != 0 {
		return nil, false
	}
	b, err := hex.DecodeString(s)
	if err != nil {
		return nil, false
	}
	return b, true
}

// natTok: 1..9 decimal digits (the driver's parseNat?).
func natTok(s string) (int, bool) {
	if len(s) == 0 || len(s) > 9 {
		return 0, false
	}
	for i := 0; i < len(s); i++ {
		if s[i] < '0' || s[i] > '9' {
			return 0, false
		}
	}
	v, _ := strconv.Atoi(s)
	return v, true
}

func parsePost(ws []string) (*request, bool) {
	if len(ws) != 10 {
		return nil, false
	}
	var bs [][]byte
	for _, k := range []int{1, 2, 3, 5, 6, 7, 8} {
		b, ok := unhex(ws[k])
		if !ok {
			return nil, false
		}
		bs = append(bs, b)
	}
	fl := ws[4]
	if fl != "-" {
		seen := map[rune]bool{}
		for _, c := range fl {
			if !strings.ContainsRune("raocn", c) || seen[c] {
				return nil, false
			}
			seen[c] = true
		}
	}
	q := &request{board: string(bs[0]), dirBoard: string(bs[1]), userID: bs[2], flags: fl,
		ip: bs[3], from: bs[4], class: bs[5], title: bs[6]}
	ut, declared := H.users[string(q.userID)]
	if _, ok := H.n0[q.board]; !ok || !declared {
		return nil, false
	}
	q.uid, q.nick = ut.uid, ut.nick
	if ws[9] != "." {
		for _, t := range strings.Split(ws[9], ",") {
			l, ok := unhex(t)
			if !ok {
				return nil, false
			}
			q.lines = append(q.lines, l)
		}
	}
	q.b = boards[q.board]
	q.u = users[string(types.CstrToBytes(q.userID))]
	if q.b == nil || q.u == nil || q.u.uid != q.uid {
		panic("c09: the op names a board or user outside the fixture tables")
	}
	return q, true
}

// exact returns a copy whose capacity equals its length (a slicing bug panics instead of reading spare capacity).
func exact(b []byte) []byte {
	c := make([]byte, len(b))
	copy(c, b)
	return c
}

// ---- observation ------------------------------------------------------------------------------------------

func fnv(b []byte) string {
	h := uint64(14695981039346656037)
	for _, c := range b {
		h = (h ^ uint64(c)) * 1099511628211
	}
	return fmt.Sprintf("%016x", h)
}

var reName = regexp.MustCompile(`^M\.[0-9]{10}\.A\.[0-9A-F]{3}$`)

func readDir(b string) []byte {
	d, _ := os.ReadFile(bpath(b, ".DIR"))
	return d
}

func listDir(b string) map[string][]byte {
	out := map[string][]byte{}
	ents, _ := os.ReadDir(bpath(b))
	for _, e := range ents {
		if e.Name() == ".DIR" {
			continue
		}
		c, _ := os.ReadFile(bpath(b, e.Name()))
		out[e.Name()] = c
	}
	return out
}

func numPosts(id []byte) int {
	uid := &ptttype.UserID_t{}
	copy(uid[:], id)
	_, u, err := ptt.InitCurrentUser(uid)
	if err != nil {
		return -1
	}
	return int(u.NumPosts)
}

// setNumPosts patches the NumPosts field of record uid in .PASSWDS directly (no code under test involved).
func setNumPosts(uid, n int) {
	f, err := os.OpenFile(ptttype.FN_PASSWD, os.O_RDWR, 0o600)
	if err != nil {
		return
	}
	defer f.Close()
	var b [4]byte
	binary.LittleEndian.PutUint32(b[:], uint32(n))
	_, _ = f.WriteAt(b[:], int64(uid-1)*int64(ptttype.USEREC_RAW_SZ)+int64(unsafe.Offsetof(ptttype.USEREC_RAW.NumPosts)))
}

// setNick patches the Nickname field of record uid in .PASSWDS directly.
func setNick(uid int, nick []byte) {
	f, err := os.OpenFile(ptttype.FN_PASSWD, os.O_RDWR, 0o600)
	if err != nil {
		return
	}
	defer f.Close()
	b := make([]byte, ptttype.NICKNAMESZ)
	copy(b, nick)
	_, _ = f.WriteAt(b, int64(uid-1)*int64(ptttype.USEREC_RAW_SZ)+int64(unsafe.Offsetof(ptttype.USEREC_RAW.Nickname)))
}

// boards the next reset line declares with the given index on disk and a cold cached total
var coldBoards = map[string][]byte{}

// nicknames the next reset line will name (user -> nickname); nil: whatever the record holds
var nickOverride = map[string][]byte{}

func nickOf(id []byte) []byte {
	uid := &ptttype.UserID_t{}
	copy(uid[:], id)
	_, u, err := ptt.InitCurrentUser(uid)
	if err != nil {
		return nil
	}
	return append([]byte{}, types.CstrToBytes(u.Nickname[:])...)
}

func total(b string) string {
	bd := boards[b]
	if bd == nil {
		return "-"
	}
	return strconv.Itoa(int(cache.Shm.Shm.Total[bd.bid-1]))
}

// maskRecord replaces the environment-chosen fields of an index record by the placeholders the model is run with.
func maskRecord(r []byte, maskTitle bool) []byte {
	m := append([]byte{}, r...)
	if len(m) != recSz {
		return m
	}
	if reName.Match(bytes.TrimRight(m[:ptttype.FNLEN], "\x00")) {
		copy(m[:], phName)
	}
	copy(m[28:32], []byte{0, 0, 0, 0})
	if m[50] == '/' {
		copy(m[48:54], phDate+"\x00")
	}
	if maskTitle {
		for i := 54; i < 54+ptttype.TTLEN+1; i++ {
			m[i] = 0
		}
	}
	return m
}

// the index with every record appended since the reset masked.
func maskedDir(d []byte, n0 int) []byte {
	m := append([]byte{}, d...)
	for k := n0; (k+1)*recSz <= len(m); k++ {
		copy(m[k*recSz:], maskRecord(m[k*recSz:(k+1)*recSz], false))
	}
	return m
}

type userTok struct {
	uid  int
	nick []byte
}

// a loaded user record kept under a session name (the caller's in-memory copy, possibly behind the stored one)
type session struct {
	userID []byte
	uid    ptttype.UID
	rec    *ptttype.UserecRaw
}

type histState struct {
	n0       map[string]int // records per board at reset
	users    map[string]userTok
	sessions map[string]*session
	started  bool
}

var H histState

func stateLine(q *request) string {
	d := readDir(q.dirBoard)
	dir, n, dtotal := "-", "-", "-"
	if _, ok := H.n0[q.dirBoard]; ok {
		dir = fnv(maskedDir(d, H.n0[q.dirBoard]))
		n = strconv.Itoa(len(d) / recSz)
		dtotal = total(q.dirBoard)
	}
	x := "-"
	if _, ok := H.n0["ALLPOST"]; ok {
		x = strconv.Itoa(len(readDir("ALLPOST")) / recSz)
	}
	pl, _ := os.ReadFile(env.Path(".post"))
	np := "-"
	if k := numPosts(q.userID); k >= 0 {
		np = strconv.Itoa(k)
	}
	xt := "-"
	if x != "-" {
		xt = total("ALLPOST")
	}
	return fmt.Sprintf("dir=%s n=%s total=%s dtotal=%s np=%s x=%s xt=%s loglen=%d", dir, n, total(q.board), dtotal, np, x, xt, len(pl))
}

// ---- reset ----------------------------------------------------------------------------------------------------

// doReset restores the boards named on the line to the fixture state and checks that the line describes it.
func doReset(ws []string) (string, string) {
	type bt struct {
		name string
		idx  []byte
		cold bool
	}
	var bts []bt
	uts := map[string]userTok{}
	n0 := map[string]int{}
	for _, t := range ws[1:] {
		p := strings.Split(t, ":")
		if len(p) < 2 {
			return "bad-op", "bad-op"
		}
		a, ok1 := unhex(p[1])
		if !ok1 {
			return "bad-op", "bad-op"
		}
		switch {
		case (p[0] == "b" || p[0] == "B") && len(p) == 3:
			ix, ok := unhex(p[2])
			if !ok {
				return "bad-op", "bad-op"
			}
			if _, dup := n0[string(a)]; dup {
				return "bad-op", "bad-op"
			}
			if boards[string(a)] == nil {
				panic("c09: reset names a board outside the fixture table")
			}
			n0[string(a)] = len(ix) / recSz
			bts = append(bts, bt{string(a), ix, p[0] == "B"})
		case p[0] == "u" && len(p) == 5:
			uid, ok2 := natTok(p[2])
			nick, ok3 := unhex(p[3])
			_, ok4 := natTok(p[4])
			if _, dup := uts[string(a)]; dup || !ok2 || !ok3 || !ok4 || len(a) != ptttype.IDLEN+1 {
				return "bad-op", "bad-op"
			}
			np, _ := natTok(p[4])
			uts[string(a)] = userTok{uid, nick}
			if u := users[string(types.CstrToBytes(a))]; u != nil && u.uid == uid {
				setNumPosts(uid, np) // the line is authoritative (a replayed history starts from the counts it names)
				setNick(uid, nick)   // ... and from the nicknames it names
			}
		default:
			return "bad-op", "bad-op"
		}
	}
	for _, b := range bts {
		ents, _ := os.ReadDir(bpath(b.name))
		for _, e := range ents {
			if !fixtureFiles[b.name][e.Name()] {
				_ = os.Remove(bpath(b.name, e.Name()))
			}
		}
		if fixtureFiles[b.name][".DIR"] || len(b.idx) > 0 {
			_ = os.WriteFile(bpath(b.name, ".DIR"), b.idx, 0o644)
		}
		_ = cache.SetBTotal(ptttype.Bid(boards[b.name].bid))
		if len(b.idx) == 0 || b.cold {
			cache.Shm.Shm.Total[boards[b.name].bid-1] = 0 // cold: as ReloadBCache leaves it
		}
	}
	_ = os.Remove(env.Path(".post"))
	H = histState{n0: n0, users: uts, sessions: map[string]*session{}, started: true}
	return "ok", "reset"
}

func resetLine(bs []string, us []string) string {
	var sb strings.Builder
	sb.WriteString("reset")
	for _, b := range bs {
		if ix, cold := coldBoards[b]; cold {
			fmt.Fprintf(&sb, " B:%s:%s", hx.Hex([]byte(b)), hx.Hex(ix))
			continue
		}
		fmt.Fprintf(&sb, " b:%s:%s", hx.Hex([]byte(b)), hx.Hex(fixtureDir[b]))
	}
	for _, u := range us {
		id := make([]byte, ptttype.IDLEN+1)
		copy(id, u)
		nick := nickOf(id)
		if n, ok := nickOverride[u]; ok {
			nick = n
		}
		fmt.Fprintf(&sb, " u:%s:%d:%s:%d", hx.Hex(id), users[u].uid, hx.Hex(nick), numPosts(id))
	}
	return sb.String()
}

// ---- executing a post -----------------------------------------------------------------------------------------

type observed struct {
	out       string // "ok" | "err:<text>" | "PANIC" | "TIMEOUT"
	summary   *bbs.ArticleSummary
	t0, t1    int64
	dirBefore []byte
	dirAfter  []byte
	xBefore   []byte
	xAfter    []byte
	filesB    map[string][]byte
	filesA    map[string][]byte
	npBefore  int
	npAfter   int
	logBefore []byte
	logAfter  []byte
	callerNpBefore int
	reqCopy   *request // the request as it was before the call (the call may scribble on its arguments)
}

func cloneReq(q *request) *request {
	c := *q
	c.userID, c.nick, c.ip, c.from, c.class, c.title = exact(q.userID), exact(q.nick), exact(q.ip), exact(q.from), exact(q.class), exact(q.title)
	c.lines = nil
	for _, l := range q.lines {
		c.lines = append(c.lines, exact(l))
	}
	return &c
}

// withFileLimit runs f while no file of this process can grow beyond limit bytes (RLIMIT_FSIZE; SIGXFSZ ignored):
// the write that would cross the limit fails with EFBIG, as a full disk or a quota would make it fail.
func withFileLimit(limit int, f func()) {
	if limit <= 0 {
		f()
		return
	}
	signal.Ignore(syscall.SIGXFSZ)
	var old syscall.Rlimit
	_ = syscall.Getrlimit(syscall.RLIMIT_FSIZE, &old)
	_ = syscall.Setrlimit(syscall.RLIMIT_FSIZE, &syscall.Rlimit{Cur: uint64(limit), Max: old.Max})
	defer func() { _ = syscall.Setrlimit(syscall.RLIMIT_FSIZE, &old) }()
	f()
}

func callPost(q *request, limit int) (o *observed) {
	o = &observed{reqCopy: cloneReq(q)}
	if q.sess != nil {
		o.callerNpBefore = int(q.sess.rec.NumPosts)
	}
	o.dirBefore = readDir(q.dirBoard)
	o.xBefore = readDir("ALLPOST")
	o.filesB = listDir(q.dirBoard)
	o.npBefore = numPosts(q.userID)
	o.logBefore, _ = os.ReadFile(env.Path(".post"))
	arg := cloneReq(q)
	var title, class []byte
	if len(arg.title) > 0 || true {
		title = arg.title // make([]byte, n): capacity == length, also for n == 0
	}
	if len(arg.class) > 0 {
		class = arg.class
	}
	bboardID := bbs.BBoardID(fmt.Sprintf("%d_%s", q.b.bid, q.dirBoard))
	uuserID := bbs.UUserID(types.CstrToBytes(q.userID))
	o.t0 = time.Now().Unix()
	withFileLimit(limit, func() { o.out = hx.Call(func() string {
		var s *bbs.ArticleSummary
		var err error
		if q.sess != nil {
			// the ptt layer with the caller's own (possibly stale) user record; no reload
			ipRaw := &ptttype.IPv4_t{}
			copy(ipRaw[:], arg.ip)
			boardIDRaw := &ptttype.BoardID_t{}
			copy(boardIDRaw[:], q.dirBoard)
			var raw *ptttype.ArticleSummaryRaw
			raw, err = ptt.NewPost(q.sess.rec, q.sess.uid, boardIDRaw, ptttype.Bid(q.b.bid), class, title, arg.lines, ipRaw, arg.from)
			if err == nil {
				s = bbs.NewArticleSummaryFromRaw(bboardID, raw)
			}
		} else if len(arg.from) == 0 {
			s, err = bbs.CreateArticle(uuserID, bboardID, class, title, arg.lines, string(arg.ip))
		} else {
			// bbs.CreateArticle has no `from` argument (fromd.GetFrom returns nil): call the layer below it
			ipRaw := &ptttype.IPv4_t{}
			copy(ipRaw[:], arg.ip)
			userIDRaw, e1 := uuserID.ToRaw()
			if e1 != nil {
				return "err:" + e1.Error()
			}
			uid, userec, e2 := ptt.InitCurrentUser(userIDRaw)
			if e2 != nil {
				return "err:" + e2.Error()
			}
			bid, boardIDRaw, e3 := bboardID.ToRaw()
			if e3 != nil {
				return "err:" + e3.Error()
			}
			var raw *ptttype.ArticleSummaryRaw
			raw, err = ptt.NewPost(userec, uid, boardIDRaw, bid, class, title, arg.lines, ipRaw, arg.from)
			if err == nil {
				s = bbs.NewArticleSummaryFromRaw(bboardID, raw)
			}
		}
		if err != nil {
			return "err:" + err.Error()
		}
		o.summary = s
		return "ok"
	}) })
	o.t1 = time.Now().Unix()
	o.dirAfter = readDir(q.dirBoard)
	o.xAfter = readDir("ALLPOST")
	o.filesA = listDir(q.dirBoard)
	o.npAfter = numPosts(q.userID)
	o.logAfter, _ = os.ReadFile(env.Path(".post"))
	return o
}

func lastRec(d []byte, sz int) []byte {
	n := len(d) / sz
	if n == 0 {
		return nil
	}
	return d[(n-1)*sz : n*sz]
}

// ctimeOffset: where the 24-byte Ctime text starts in the article file, from the lengths of what precedes it.
func ctimeOffset(file []byte) int {
	// author line, title line: the time line is the third "\n"-terminated field only when the title has no "\n";
	// so locate it from the end of the header instead: "<STR_TIME> <24 bytes>\n\n".
	key := append(append([]byte{'\n'}, ptttype.STR_TIME_BIG5...), ' ')
	i := bytes.Index(file, key)
	for i >= 0 {
		p := i + len(key)
		if p+26 <= len(file) && file[p+24] == '\n' && file[p+25] == '\n' {
			if _, err := time.Parse("Mon Jan _2 15:04:05 2006", string(file[p:p+24])); err == nil {
				return p
			}
		}
		j := bytes.Index(file[i+1:], key)
		if j < 0 {
			break
		}
		i = i + 1 + j
	}
	return -1
}

func maskFile(file []byte, name string) []byte {
	m := append([]byte{}, file...)
	if p := ctimeOffset(m); p >= 0 {
		copy(m[p:p+24], strings.Repeat("C", 24))
	}
	if C.queryURL {
		tail, ph := name+".html\n", phName
		if C.aidURL {
			tail, ph = aidcOf(name)+"\n", "00000000" // what the placeholder name encodes to
		}
		if bytes.HasSuffix(m, []byte(tail)) {
			copy(m[len(m)-len(tail):], ph)
		}
	}
	return m
}

func maskLog(r []byte) []byte {
	m := append([]byte{}, r...)
	if len(m) == logSz {
		copy(m[92:96], []byte{0, 0, 0, 0})
	}
	return m
}

// canonical line of a post that ran under a file-size limit.
func canonicalFail(q *request, o *observed) string {
	st := stateLine(q)
	switch {
	case o.out == "PANIC" || o.out == "TIMEOUT":
		return o.out + " " + st
	case strings.HasPrefix(o.out, "err:") && q.has('n'):
		return "refused " + st
	case strings.HasPrefix(o.out, "err:") && q.dirBoard != q.board:
		return "bad-board-id " + st
	case strings.HasPrefix(o.out, "err:"):
		return "failed " + st
	}
	return "ok-despite-limit " + st
}

// canonical line of a post; also returns the file name the new index entry carries.
func canonical(q *request, o *observed) (string, string) {
	st := stateLine(q)
	if q.sess != nil {
		st += fmt.Sprintf(" cnp=%d", q.sess.rec.NumPosts)
	}
	if o.out == "PANIC" || o.out == "TIMEOUT" {
		return o.out + " " + st, ""
	}
	if strings.HasPrefix(o.out, "err:") {
		if q.has('n') {
			return "refused " + st, ""
		}
		if q.dirBoard != q.board {
			return "bad-board-id " + st, ""
		}
		return "error " + st, ""
	}
	rec := lastRec(o.dirAfter, recSz)
	name := string(bytes.TrimRight(rec[:min(len(rec), ptttype.FNLEN)], "\x00"))
	file := o.filesA[name]
	xrec := "-"
	if q.has('o') && H.n0 != nil {
		if _, ok := H.n0["ALLPOST"]; ok {
			xrec = hx.Hex(maskRecord(lastRec(o.xAfter, recSz), true))
		}
	}
	return fmt.Sprintf("ok st=%s rec=%s file=%s log=%s xrec=%s %s", hx.Hex(o.summary.FullTitle), hx.Hex(maskRecord(rec, false)),
		hx.Hex(maskFile(file, name)), hx.Hex(maskLog(lastRec(o.logAfter, logSz))), xrec, st), name
}

// ---- op dispatch ----------------------------------------------------------------------------------------------

var opCount int

func emit(line, out, label string, nontrivial bool) int {
	i := run.Op(line, out, label, nontrivial)
	if i != opCount {
		panic("c09: op index out of step")
	}
	opCount++
	return i
}

func do(line string) {
	ws := strings.Fields(line)
	if len(ws) == 0 {
		emit(line, "bad-op", "bad-op", false)
		return
	}
	switch ws[0] {
	case "consts":
		if len(ws) == 1 {
			emit(line, constsLine(), "consts", true)
			return
		}
	case "timezone":
		if H.started && len(ws) == 2 {
			if zb, ok := unhex(ws[1]); ok {
				if _, err := time.LoadLocation(string(zb)); err != nil {
					panic("c09: timezone op with a zone this machine cannot load: " + string(zb))
				}
				setZone(string(zb))
				emit(line, "ok zone="+types.TIMEZONE.String(), "timezone:"+string(zb), true)
				return
			}
		}
	case "config":
		if H.started && len(ws) == 2 && len(ws[1]) == 5 && strings.Trim(ws[1], "01") == "" {
			b := func(i int) bool { return ws[1][i] == '1' }
			C = siteCfg{b(0), b(1), b(2), b(3), b(4)}
			applyCfg(C)
			emit(line, "ok", "config:"+ws[1], false)
			return
		}
	case "reset":
		if zoneName != "Asia/Taipei" {
			setZone("Asia/Taipei")
		}
		C = defaultCfg
		applyCfg(C)
		out, label := doReset(ws)
		emit(line, out, label, false)
		return
	case "defuse":
		if len(ws) == 2 {
			if b, ok := unhex(ws[1]); ok {
				in := exact(b)
				out := hx.CallSync(func() string { return hx.Hex(ptt.StripANSIMoveCmd(in)) })
				i := emit(line, out, "defuse:"+defuseClass(b), true)
				judgeDefuse(i, b, out)
				return
			}
		}
	case "trim":
		if len(ws) == 2 {
			if b, ok := unhex(ws[1]); ok {
				in := exact(b)
				out := hx.CallSync(func() string { return hx.Hex(cmsys.Trim(in)) })
				i := emit(line, out, "trim:"+trimClass(b), true)
				judgeTrim(i, b, out)
				return
			}
		}
	case "post":
		if !H.started {
			break
		}
		q, ok := parsePost(ws)
		if ok {
			o := callPost(q, 0)
			out, name := canonical(q, o)
			label := judgePost(opCount, q, o, name)
			emit(line, out, label, true)
			return
		}
	case "load":
		if !H.started || len(ws) != 3 {
			break
		}
		sn, ok1 := unhex(ws[1])
		id, ok2 := unhex(ws[2])
		if _, declared := H.users[string(id)]; ok1 && ok2 && declared {
			uidRaw := &ptttype.UserID_t{}
			copy(uidRaw[:], id)
			uid, rec, err := ptt.InitCurrentUser(uidRaw)
			if err != nil {
				panic(err)
			}
			H.sessions[string(sn)] = &session{userID: id, uid: uid, rec: rec}
			emit(line, fmt.Sprintf("ok np=%d", rec.NumPosts), "load", true)
			return
		}
	case "postas":
		if !H.started || len(ws) != 10 {
			break
		}
		sn, ok1 := unhex(ws[1])
		se := H.sessions[string(sn)]
		if ok1 && se != nil {
			q, ok := parsePost(append([]string{"post", ws[2], ws[3], hx.Hex(se.userID)}, ws[4:]...))
			if ok {
				q.sess, q.sessTok = se, ws[1]
				o := callPost(q, 0)
				out, name := canonical(q, o)
				label := judgePost(opCount, q, o, name)
				emit(line, out, "as:"+label, true)
				return
			}
		}
	case "postfail":
		if !H.started || len(ws) != 11 {
			break
		}
		lim, ok1 := natTok(ws[1])
		q, ok := parsePost(append([]string{"post"}, ws[2:]...))
		if ok && ok1 {
			o := callPost(q, lim)
			out := canonicalFail(q, o)
			label := judgeFail(opCount, q, o, lim)
			emit(line, out, label, true)
			return
		}
	}
	emit(line, "bad-op", "bad-op", false)
}

// setZone configures the site's time zone the way a deployment does: an ini file with
// [go-pttbbs:types] TIME_LOCATION, read by viper, then types.InitConfig (config -> postConfig -> setTimeLocation).
func setZone(name string) {
	ini := env.Path("c09-zone.ini")
	if err := os.WriteFile(ini, []byte("[go-pttbbs:types]\nTIME_LOCATION = "+name+"\n"), 0o644); err != nil {
		panic(err)
	}
	viper.SetConfigFile(ini)
	if err := viper.ReadInConfig(); err != nil {
		panic(err)
	}
	if err := types.InitConfig(); err != nil {
		panic(err)
	}
	zoneName, zoneLoc = name, mustZone(name)
}

// applyCfg sets the package variables the ini file would set (restored to the defaults by every reset).
func applyCfg(c siteCfg) {
	ptttype.HAVE_ANONYMOUS = c.haveAnon
	ptttype.ALLOW_FREE_TN_ANNOUNCE = c.freeTn
	ptttype.USE_POST_ENTROPY = c.useEntropy
	ptttype.QUERY_ARTICLE_URL = c.queryURL
	ptttype.USE_AID_URL = c.aidURL
}

func b2s(b bool) string {
	if b {
		return "1"
	}
	return "0"
}

// constsLine: what the compiled code holds for every constant the translator regenerates (translator validation).
func constsLine() string {
	g := func(n string, v []byte) string { return n + "=" + hx.Hex(v) }
	return strings.Join([]string{
		g("tn", ptttype.TN_ANNOUNCE_BIG5), g("a1", ptttype.STR_AUTHOR1_BIG5), g("p1", ptttype.STR_POST1_BIG5),
		g("ti", ptttype.STR_TITLE_BIG5), g("tm", ptttype.STR_TIME_BIG5), g("bbs", ptttype.STR_BBS_BIG5),
		g("from", ptttype.STR_FROM_BIG5), g("url", ptttype.STR_URL_DISPLAYNAME_BIG5), g("name", ptttype.BBSNAME_BIG5),
		g("host", []byte(ptttype.MYHOSTNAME)), g("pfx", []byte(ptttype.URL_PREFIX)), g("anid", ptttype.ANONYMOUS_ID[:]),
		g("annick", ptttype.ANONYMOUS_NICKNAME), g("anhost", ptttype.ANONYMOUS_HOST),
		g("move", ptttype.PATTERN_ANSI_MOVECMD), g("code", ptttype.PATTERN_ANSI_CODE),
		fmt.Sprintf("ttlen=%d idlen=%d fanon=%d esc=%d", ptttype.TTLEN, ptttype.IDLEN, ptttype.FILE_ANONYMOUS, ansi.ESC_CHR),
		fmt.Sprintf("maxmoney=%d entmax=%d dirsz=%d logsz=%d", ptttype.MAX_POST_MONEY, ptttype.ENTROPY_MAX, recSz, logSz),
		"sw=" + b2s(ptttype.ALLOW_FREE_TN_ANNOUNCE) + b2s(ptttype.HAVE_ANONYMOUS) + b2s(ptttype.USE_POST_ENTROPY) +
			b2s(ptttype.QUERY_ARTICLE_URL) + b2s(ptttype.USE_AID_URL),
	}, " ")
}

func sortedNames(m map[string][]byte) []string {
	ks := make([]string, 0, len(m))
	for k := range m {
		ks = append(ks, k)
	}
	sort.Strings(ks)
	return ks
}

var stream = flag.String("stream", "all", "posts | text | all: which generated stream to run")

func main() {
	run = hx.Start("C09")
	defer run.Finish()
	var err error
	env, err = bbsenv.New(bbsenv.Options{})
	if err != nil {
		fmt.Fprintln(os.Stderr, "bbsenv:", err)
		os.Exit(2)
	}
	defer env.Close()
	setupFixture()
	if (siteCfg{ptttype.HAVE_ANONYMOUS, ptttype.ALLOW_FREE_TN_ANNOUNCE, ptttype.USE_POST_ENTROPY, ptttype.QUERY_ARTICLE_URL, ptttype.USE_AID_URL}) != defaultCfg {
		fmt.Fprintln(os.Stderr, "c09: the compiled configuration defaults differ from the oracle's (see the consts op)")
	}
	_ = filepath.Join
	run.Rule = "histories `reset; post...` through bbs.CreateArticle (ptt.NewPost when a from text is given) on a private BBSHOME: " +
		"authors {plain user, board moderator, SYSOP} x boards {plain open, moderated+credited, anonymous, hidden}; titles of EVERY length 0..70 in exact-capacity slices x class {none, 4 bytes}, " +
		"with and without the announcement tag (also truncated tags); bodies of 0..30 lines over {printable, space, TAB, NUL, ESC, '[', digits, ';', ',', movement finals, 'm', 's', 0x80-0xFE}, with/without a trailing empty line; " +
		"sequences of 2..12 posts to the same and to different boards; time, date, random suffix and Ctime text masked on both sides (format and range judged by the oracle). " +
		"pure streams: ptt.StripANSIMoveCmd and cmsys.Trim on enumerated short strings (all strings up to length 4 over a 7-symbol alphabet) and random lines. " +
		"time zone: TIME_LOCATION set through an ini file + types.InitConfig to UTC, Pacific/Honolulu and Pacific/Kiritimati (at any moment one of the last two has another calendar date than Asia/Taipei), posts before and after; the oracle formats date and time line with its own time.LoadLocation. " +
		"tag position: the announcement tag behind 1-3 blanks, a TAB, a NUL, a full-width blank, '[' or a letter, for every role, with and without a class. " +
		"cold totals: histories that start with N records already in ALLPOST's (or the posted board's) index and a cached total of 0, as after ReloadBCache. " +
		"printf metacharacters: '%' and verbs (%s %d %v %x %q %[1]s %*d %!) in every text field the post path renders — nickname (written into the user record by reset), title, class, body lines, ip, from text, and a board whose NAME is \"Pct%s%d%v\". " +
		"site configuration: all 32 settings of HAVE_ANONYMOUS, ALLOW_FREE_TN_ANNOUNCE, USE_POST_ENTROPY, QUERY_ARTICLE_URL, USE_AID_URL (set in-process, restored by reset), each with posts to the anonymous-flagged, the moderated+credited and a plain board, tagged titles included. " +
		"sessions: the same user loaded as two or three independent records (`load`) before posting through them (`postas` = ptt.NewPost with the kept, possibly stale record), interleaved with bbs.CreateArticle posts of the same user. " +
		"write failures: posts whose article file may not grow beyond a limit (RLIMIT_FSIZE): the request must fail and leave index, totals, counters untouched. " +
		"malformed stream: refused (user, board) pairs, a board id whose name and number disagree, unknown directory, ill-formed op lines. " +
		"nontrivial = reached the real function"
	if run.Replay != "" {
		for _, l := range hx.ReplayOps(run.Replay) {
			do(l)
		}
		return
	}
	generate()
}
