package main

// The property oracle P̂ of C09.  Everything here is recomputed from the request with plain string operations and
// literal constants; neither the Lean model nor the repository's own helpers (Trim, StripANSIMoveCmd, tnSafeStrip,
// ptttype.STR_*) are used.

import (
	"bytes"
	"encoding/binary"
	"fmt"
	"os"
	"regexp"
	"strings"
	"time"

	"github.com/Ptt-official-app/go-pttbbs/bbs"
	"github.com/Ptt-official-app/go-pttbbs/cache"
	"verifharness/internal/hx"
)

// Big5 literals of the article layout (pttbbs: "作者:", "看板:", "標題:", "時間:", "※ 發信站:", "來自:", "※ 文章網址:", "[公告]").
var (
	sAuthor   = []byte{0xa7, 0x40, 0xaa, 0xcc, 0x3a}
	sBoard    = []byte{0xac, 0xdd, 0xaa, 0x4f, 0x3a}
	sTitle    = []byte{0xbc, 0xd0, 0xc3, 0x44, 0x3a}
	sTime     = []byte{0xae, 0xc9, 0xb6, 0xa1, 0x3a}
	sStation  = []byte{0xa1, 0xb0, 0x20, 0xb5, 0x6f, 0xab, 0x48, 0xaf, 0xb8, 0x3a}
	sFrom     = []byte{0xa8, 0xd3, 0xa6, 0xdb, 0x3a}
	sURL      = []byte{0xa1, 0xb0, 0x20, 0xa4, 0xe5, 0xb3, 0xb9, 0xba, 0xf4, 0xa7, 0x7d, 0x3a}
	sTag      = []byte{'[', 0xa4, 0xbd, 0xa7, 0x69, ']'}
	sBBSName  = []byte{0xb7, 0x73, 0xa7, 0xe5, 0xbd, 0xf0, 0xbd, 0xf0}
	sAnonID   = []byte("Anonymous.")
	sAnonNick = []byte{0xb2, 0x71, 0xb2, 0x71, 0xa7, 0xda, 0xac, 0x4f, 0xbd, 0xd6, 0x20, 0x3f, 0x20, 0x5e, 0x6f, 0x5e}
	sAnonHost = []byte{0xb0, 0xce, 0xa6, 0x57, 0xa4, 0xd1, 0xa8, 0xcf, 0xaa, 0xba, 0xae, 0x61}
)

const (
	sHost      = "ptt2.cc"
	sURLPrefix = "http://localhost/bbs"
	titleSz    = 65
	maxEntropy = 25
)

// the site configuration in force, as named by the last `config` op line (the oracle does not read ptttype's variables)
type siteCfg struct {
	haveAnon, freeTn, useEntropy, queryURL, aidURL bool
}

var defaultCfg = siteCfg{haveAnon: true, freeTn: false, useEntropy: true, queryURL: true, aidURL: false}
var C = defaultCfg

func (c siteCfg) bits() string {
	return b2s(c.haveAnon) + b2s(c.freeTn) + b2s(c.useEntropy) + b2s(c.queryURL) + b2s(c.aidURL)
}

// the zone the site is configured for, as named by the last `timezone` op line and loaded HERE with
// time.LoadLocation (the oracle never asks types.TIMEZONE what time it is)
var zoneName = "Asia/Taipei"
var zoneLoc = mustZone(zoneName)

func mustZone(n string) *time.Location {
	l, err := time.LoadLocation(n)
	if err != nil {
		panic(err)
	}
	return l
}

// aidcOf: the 8-character article id of a name M.<t>.A.<XXX> (pttbbs fn2aidu + aidu2aidc), computed here from scratch.
func aidcOf(name string) string {
	const alphabet = "0123456789ABCDEFGHIJKLMNOPQRSTUVWXYZabcdefghijklmnopqrstuvwxyz-_"
	var t, p uint64
	if _, err := fmt.Sscanf(name, "M.%d.A.%X", &t, &p); err != nil {
		return "00000000"
	}
	v := (t&0xffffffff)<<12 | p&0xfff
	out := make([]byte, 8)
	for i := 7; i >= 0; i-- {
		out[i] = alphabet[v&63]
		v >>= 6
	}
	return string(out)
}

// urlTail: the last component of the article URL.
func urlTail(name string) string {
	if C.aidURL {
		return aidcOf(name)
	}
	return name + ".html"
}

// a cursor-movement sequence: ESC, parameter bytes, a final from the movement list.
var reMove = regexp.MustCompile("\x1b[0-9;,\\[]*[ABCDfjHJRu]")

func cutNul(b []byte) []byte {
	if i := bytes.IndexByte(b, 0); i >= 0 {
		return b[:i]
	}
	return b
}

func expTrim(l []byte) []byte {
	return []byte(strings.TrimRight(string(cutNul(l)), " "))
}

func expDefuse(l []byte) []byte {
	return reMove.ReplaceAllFunc(append([]byte{}, l...), func(m []byte) []byte {
		c := append([]byte{}, m...)
		c[len(c)-1] = 's'
		return c
	})
}

func expTitle(q *request) []byte {
	full := q.title
	if len(q.class) > 0 {
		full = append(append(append([]byte{'['}, q.class...), ']', ' '), q.title...)
	}
	if !q.has('r') && !C.freeTn && bytes.HasPrefix(full, sTag) {
		full = full[len(sTag):]
	}
	return full
}

func expBody(q *request) (body []byte, entropy int) {
	for i, l := range q.lines {
		if i == len(q.lines)-1 && len(l) == 0 {
			break
		}
		p := expDefuse(expTrim(l))
		for _, c := range p {
			if c >= 0x80 || (c >= '0' && c <= '9') || (c >= 'a' && c <= 'z') || (c >= 'A' && c <= 'Z') {
				entropy++
			}
		}
		body = append(body, p...)
		body = append(body, '\n')
	}
	if entropy > maxEntropy || !C.useEntropy {
		entropy = maxEntropy // without the entropy measure every post is worth the maximum
	}
	return body, entropy
}

func join(parts ...interface{}) []byte {
	var b []byte
	for _, p := range parts {
		switch v := p.(type) {
		case []byte:
			b = append(b, v...)
		case string:
			b = append(b, v...)
		}
	}
	return b
}

func padTo(b []byte, n int) []byte {
	out := make([]byte, n)
	copy(out, b)
	return out
}

func cdatemd(t int64) string {
	s := time.Unix(t, 0).In(zoneLoc).Format("1/02")
	if len(s) == 4 {
		s = " " + s
	}
	return s
}

// judgePost evaluates the property on what the implementation did with one request; returns the histogram label.
func judgePost(i int, q0 *request, o *observed, name string) string {
	q := o.reqCopy // as submitted
	q.sess = q0.sess
	role := "plain"
	if q.u.sysop {
		role = "sysop"
	} else if q.has('r') {
		role = "mod"
	}
	full := q.title
	if len(q.class) > 0 {
		full = join("[", q.class, "] ", q.title)
	}
	tag := "notag"
	if bytes.HasPrefix(full, sTag) {
		tag = "tag-kept"
		if !q.has('r') && !C.freeTn {
			tag = "tag-stripped"
		}
	}
	title := expTitle(q)
	fit := "fits"
	switch {
	case len(full) < len(sTag):
		fit = "shorter-than-tag"
	case len(title) > titleSz:
		fit = "overflows"
	case len(title) == titleSz:
		fit = "fills"
	}
	cls := "nocls"
	if len(q.class) > 0 {
		cls = "cls"
	}
	label := fmt.Sprintf("post:%s:%s:%s:%s:%s", role, q.dirBoard, cls, tag, fit)
	if C != defaultCfg {
		label += ":cfg=" + C.bits()
	}
	fail := func(key, what string) {
		if q.dirBoard != q.board {
			return // judged as a whole below
		}
		run.Fail(i, key, fmt.Sprintf("%s by %s on %s, class %q title %q (%d bytes), %d lines: %s", "post", q.u.id, q.dirBoard, q.class, q.title, len(q.title), len(q.lines), what))
	}
	unchanged := func() string {
		switch {
		case !bytes.Equal(o.dirBefore, o.dirAfter):
			return "the index changed"
		case o.npBefore != o.npAfter:
			return "NumPosts changed"
		case !bytes.Equal(o.logBefore, o.logAfter):
			return ".post changed"
		case !bytes.Equal(o.xBefore, o.xAfter):
			return "the ALLPOST index changed"
		}
		for n, c := range o.filesA {
			if old, ok := o.filesB[n]; !ok || !bytes.Equal(old, c) {
				return "file " + n + " appeared or changed"
			}
		}
		return ""
	}

	// --- crashes and refusals
	if o.out == "PANIC" || o.out == "TIMEOUT" {
		key := "crash:CreateArticle"
		if len(full) < len(sTag) && !q.has('r') && !C.freeTn {
			key = "crash:short-title"
		}
		fail(key, fmt.Sprintf("%s: %s; afterwards: %s", o.out, hx.LastPanic, orStr(unchanged(), "nothing changed on disk")))
		return label + ":" + o.out
	}
	if strings.HasPrefix(o.out, "err:") {
		if q.has('n') {
			if w := unchanged(); w != "" {
				fail("refused:changed", "refused ("+o.out+") but "+w)
			}
			return "post:refused:" + q.u.id + ":" + q.dirBoard
		}
		if q.dirBoard != q.board {
			return "post:board-id-mismatch:refused"
		}
		fail("post:rejected", "a permitted request was rejected: "+o.out)
		return label + ":rejected"
	}
	if q.has('n') {
		run.Note(fmt.Sprintf("op %d: a request this harness expected to be refused was accepted (%s on %s)", i, q.u.id, q.dirBoard))
	}
	if q.dirBoard != q.board {
		// the two halves of the client's board id disagree
		idx := len(o.dirAfter) / recSz
		run.Fail(i, "board:name-mismatch", fmt.Sprintf("board id %d_%s (number of %s, name of %s) by %s was accepted: the index of %s grew from %d to %d records with the permissions of %s; cached total of %s = %s, of %s = %s",
			q.b.bid, q.dirBoard, q.board, q.dirBoard, q.u.id, q.dirBoard, len(o.dirBefore)/recSz, idx, q.board, q.dirBoard, total(q.dirBoard), q.board, total(q.board)))
		return "post:board-id-mismatch:accepted"
	}

	// --- index
	nb := len(o.dirBefore) / recSz
	if len(o.dirAfter) != nb*recSz+recSz {
		fail("index:grow", fmt.Sprintf("index length %d -> %d bytes (expected +%d)", len(o.dirBefore), len(o.dirAfter), recSz))
		return label
	}
	if !bytes.Equal(o.dirAfter[:nb*recSz], o.dirBefore[:nb*recSz]) {
		fail("index:earlier-bytes", "bytes of earlier index records changed")
	}
	rec := o.dirAfter[nb*recSz:]
	// ONE fact: the site offers anonymous boards and the board is flagged; owner, mode, counter, header and
	// signature are all judged against it
	anon := q.has('a') && C.haveAnon
	if !reName.MatchString(name) {
		fail("name:format", fmt.Sprintf("file name %q", name))
		return label
	}
	var t int64
	fmt.Sscanf(name[2:12], "%d", &t)
	if t <= o.t0 || t > o.t1+3 || t < 1000000000 || t >= 1<<31 {
		fail("name:format", fmt.Sprintf("name %s carries time %d, the call ran in [%d,%d]", name, t, o.t0, o.t1))
	}
	if !bytes.Equal(rec[:28], padTo([]byte(name), 28)) {
		fail("index:grow", "file name field is not zero padded")
	}
	wantOwner := padTo(cutNulKeep(q.userID), 14)
	if anon {
		wantOwner = padTo(sAnonID, 14)
	}
	if !bytes.Equal(rec[34:48], wantOwner) {
		fail("index:grow", fmt.Sprintf("owner field %q, expected %q", rec[34:48], wantOwner))
	}
	if !bytes.Equal(rec[48:54], padTo([]byte(cdatemd(t)), 6)) {
		fail("index:grow", fmt.Sprintf("date field %q, expected %q", rec[48:54], cdatemd(t)))
	}
	if !bytes.Equal(rec[54:54+titleSz], padTo(title[:min(len(title), titleSz)], titleSz)) {
		fail("title:field", fmt.Sprintf("title field %q, expected the first %d bytes of %q", rec[54:54+titleSz], titleSz, title))
	}
	if !bytes.Equal(o.summary.FullTitle, cutNul(rec[54:54+titleSz])) {
		fail("summary:title", fmt.Sprintf("returned summary title %q differs from the stored field", o.summary.FullTitle))
	}
	body, entropy := expBody(q)
	mtime := int64(int32(binary.LittleEndian.Uint32(rec[28:32])))
	multi := int64(int32(binary.LittleEndian.Uint32(rec[120:124])))
	wantMulti, wantMode := int64(0), byte(0)
	if anon {
		wantMulti, wantMode = int64(q.uid), 0x80
		if mtime != 0 {
			fail("index:grow", fmt.Sprintf("Modified = %d on an anonymous post", mtime))
		}
	} else {
		if q.has('c') {
			wantMulti = int64(entropy)
		}
		if mtime < o.t0-1 || mtime > o.t1+1 {
			fail("index:grow", fmt.Sprintf("Modified = %d, the call ran in [%d,%d]", mtime, o.t0, o.t1))
		}
	}
	if multi != wantMulti {
		fail("index:multi", fmt.Sprintf("money/anon-uid field %d, expected %d", multi, wantMulti))
	}
	if rec[124] != wantMode || rec[32] != 0 || rec[33] != 0 || rec[119] != 0 || !bytes.Equal(rec[125:128], []byte{0, 0, 0}) {
		fail("index:grow", fmt.Sprintf("money/anon-uid %d (expected %d), mode %#x (expected %#x), pad/recommend % x", multi, wantMulti, rec[124], wantMode, []byte{rec[32], rec[33], rec[119], rec[125], rec[126], rec[127]}))
	}

	// --- cached total and counter
	if got := int(cache.Shm.Shm.Total[q.b.bid-1]); got != nb+1 {
		fail("total", fmt.Sprintf("Shm.Total = %d, the index holds %d records", got, nb+1))
	}
	wantNp := o.npBefore + 1
	if anon {
		wantNp = o.npBefore
	}
	if o.npAfter != wantNp {
		via := "a freshly loaded record"
		if q.sess != nil {
			via = fmt.Sprintf("a record loaded earlier (the caller's copy said %d before the call)", o.callerNpBefore)
		}
		fail("numposts", fmt.Sprintf("stored NumPosts %d -> %d, expected %d; posted through %s", o.npBefore, o.npAfter, wantNp, via))
	}

	// --- the article file
	file, ok := o.filesA[name]
	if !ok {
		fail("content:header", "the index names "+name+" but there is no such file")
		return label
	}
	for n, c := range o.filesA {
		if n == name {
			if _, existed := o.filesB[n]; existed {
				fail("files:extra", "the new name "+n+" already existed")
			}
			continue
		}
		if old, existed := o.filesB[n]; !existed || !bytes.Equal(old, c) {
			fail("files:extra", "file "+n+" appeared or changed besides the new article")
		}
	}
	for n := range o.filesB {
		if _, still := o.filesA[n]; !still {
			fail("files:extra", "file "+n+" disappeared")
		}
	}
	author, nick := cutNul(q.userID), cutNul(q.nick)
	host := join(cutNul(q.ip), q.from)
	if anon {
		author, nick, host = sAnonID, sAnonNick, sAnonHost
	}
	ct := []byte("????????????????????????")
	if p := ctimeOffset(file); p >= 0 {
		ct = file[p : p+24]
		if tt, err := time.ParseInLocation("Mon Jan _2 15:04:05 2006", string(ct), zoneLoc); err != nil || tt.Unix() < o.t0-1 || tt.Unix() > o.t1+1 {
			fail("content:header", fmt.Sprintf("time line %q is not the time of the call", ct))
		}
	}
	header := join(sAuthor, " ", author, " (", nick, ") ", sBoard, " ", q.board, "\n", sTitle, " ", title, "\n", sTime, " ", ct, "\n\n")
	sig := join("\n--\n", sStation, " ", sBBSName, "(", sHost, "), ", sFrom, " ", host, "\n")
	if C.queryURL {
		sig = join(sig, sURL, " ", sURLPrefix, "/", q.board, "/", urlTail(name), "\n")
	}
	want := join(header, body, sig)
	if !bytes.Equal(file, want) {
		switch {
		case !bytes.HasPrefix(file, header):
			fail("content:header", fmt.Sprintf("file starts %q, expected header %q", clip(file, len(header)+8), header))
		case !bytes.HasPrefix(file[len(header):], body):
			fail("content:line", fmt.Sprintf("body %q, expected %q", clip(file[len(header):], len(body)+8), body))
		default:
			fail("content:signature", fmt.Sprintf("after the body: %q, expected %q", file[len(header)+len(body):], sig))
		}
	}
	if bytes.HasPrefix(file, header) && len(file) >= len(header)+len(sig) {
		stored := file[len(header) : len(file)-len(sig)]
		for _, l := range bytes.Split(stored, []byte{'\n'}) {
			if m := reMove.Find(l); m != nil {
				fail("defuse:move-survives", fmt.Sprintf("stored line %q still contains the cursor-movement sequence %q", l, m))
				break
			}
		}
	}

	// --- retrievable: the returned id fetches exactly that file, and the listing ends with the new entry
	if fn := o.summary.ArticleID.ToFilename(); string(cutNul(fn[:])) != name {
		fail("fetch:id", fmt.Sprintf("article id %s decodes to %q, the entry is %q", o.summary.ArticleID, cutNul(fn[:]), name))
	}
	bboardID := bbs.BBoardID(fmt.Sprintf("%d_%s", q.b.bid, q.dirBoard))
	got, _, _, err := bbs.GetArticle(bbs.UUserID(cutNul(q.userID)), bboardID, o.summary.ArticleID, 0, false)
	if err != nil || !bytes.Equal(got, file) {
		fail("fetch:id", fmt.Sprintf("GetArticle(%s) = %q, %v; the file holds %q", o.summary.ArticleID, clip(got, 80), err, clip(file, 80)))
	}
	ss, _, _, _, _, err := bbs.LoadGeneralArticles(bbs.UUserID(cutNul(q.userID)), bboardID, "", 1, true)
	if err != nil || len(ss) != 1 || ss[0].Filename != name || ss[0].ArticleID != o.summary.ArticleID {
		fail("fetch:list", fmt.Sprintf("the newest listed article is not the new one (%v, %d summaries)", err, len(ss)))
	}

	// --- side records: .post log and the ALLPOST copy
	if len(o.logAfter) != len(o.logBefore)+logSz || !bytes.Equal(o.logAfter[:len(o.logBefore)], o.logBefore) {
		fail("postlog", fmt.Sprintf(".post %d -> %d bytes", len(o.logBefore), len(o.logAfter)))
	} else {
		lr := o.logAfter[len(o.logBefore):]
		wl := join(padTo(author, 13), padTo([]byte(q.board), 13), padTo(title[:min(len(title), titleSz)], titleSz), []byte{0})
		if !bytes.Equal(lr[:92], wl) || binary.LittleEndian.Uint32(lr[96:]) != 1 {
			fail("postlog", fmt.Sprintf(".post record %q", lr))
		}
	}
	if q.has('o') {
		if _, ok := H.n0["ALLPOST"]; ok {
			xb := len(o.xBefore) / recSz
			if len(o.xAfter) != (xb+1)*recSz || !bytes.Equal(o.xAfter[:xb*recSz], o.xBefore[:xb*recSz]) {
				fail("xpost", fmt.Sprintf("ALLPOST index %d -> %d bytes", len(o.xBefore), len(o.xAfter)))
			} else {
				if got := int(cache.Shm.Shm.Total[boards["ALLPOST"].bid-1]); got != xb+1 {
					fail("total:logboard", fmt.Sprintf("Shm.Total of ALLPOST = %d after the copy, its index holds %d records", got, xb+1))
				}
				xr := o.xAfter[xb*recSz:]
				cp, _ := os.ReadFile(bpath("ALLPOST", name))
				if !bytes.Equal(xr[:28], rec[:28]) || !bytes.Equal(xr[34:48], rec[34:48]) || !bytes.Equal(cp, file) {
					fail("xpost", "the ALLPOST entry does not name an identical copy of the article")
				}
			}
		}
	} else if !bytes.Equal(o.xBefore, o.xAfter) {
		fail("xpost", "ALLPOST changed although the board is not open")
	}
	_ = q0
	return label
}

// judgeFail: a post whose article file could not be written must fail as a whole.
func judgeFail(i int, q *request, o *observed, lim int) string {
	what := fmt.Sprintf("post by %s on %s with article files limited to %d bytes (%d lines): ", q.u.id, q.dirBoard, lim, len(q.lines))
	if o.out == "PANIC" || o.out == "TIMEOUT" {
		run.Fail(i, "crash:CreateArticle", what+o.out+": "+hx.LastPanic)
		return "postfail:" + o.out
	}
	if q.has('n') || q.dirBoard != q.board {
		return "postfail:refused"
	}
	grew := len(o.dirAfter) != len(o.dirBefore) || !bytes.Equal(o.dirAfter, o.dirBefore)
	if !strings.HasPrefix(o.out, "err:") {
		// the request reported success: then the stored file must be complete after all
		rec := lastRec(o.dirAfter, recSz)
		name := string(cutNul(rec[:min(len(rec), 28)]))
		if f := o.filesA[name]; !bytes.HasSuffix(f, []byte(urlTail(name)+"\n")) {
			run.Fail(i, "fail:incomplete-file", what+"reported success, but the stored file is truncated")
		}
		return "postfail:succeeded"
	}
	if grew {
		run.Fail(i, "fail:index-grew", what+"failed ("+o.out+") but the index changed from "+fmt.Sprint(len(o.dirBefore)/recSz)+" to "+fmt.Sprint(len(o.dirAfter)/recSz)+" records: an entry without a complete article")
	}
	if o.npAfter != o.npBefore {
		run.Fail(i, "fail:numposts", what+"failed but NumPosts changed")
	}
	if !bytes.Equal(o.xBefore, o.xAfter) {
		run.Fail(i, "fail:index-grew", what+"failed but the ALLPOST index changed")
	}
	return "postfail:failed-clean"
}

func cutNulKeep(b []byte) []byte { return b } // the UserID array is copied whole into the owner field

func orStr(a, b string) string {
	if a != "" {
		return a
	}
	return b
}

func clip(b []byte, n int) []byte {
	if len(b) > n {
		return b[:n]
	}
	return b
}

// ---- pure streams -------------------------------------------------------------------------------------------

func defuseClass(b []byte) string {
	switch {
	case !bytes.Contains(b, []byte{0x1b}):
		return "no-esc"
	case reMove.Match(b):
		if len(reMove.FindAll(b, -1)) > 1 {
			return "moves"
		}
		return "move"
	default:
		return "esc-no-move"
	}
}

func judgeDefuse(i int, in []byte, out string) {
	if out == "PANIC" || out == "TIMEOUT" {
		run.Fail(i, "crash:StripANSIMoveCmd", fmt.Sprintf("%s on %q: %s", out, in, hx.LastPanic))
		return
	}
	got := hx.UnHex(out)
	if m := reMove.Find(got); m != nil {
		run.Fail(i, "defuse:move-survives", fmt.Sprintf("StripANSIMoveCmd(%q) = %q still contains the cursor-movement sequence %q", in, got, m))
		return
	}
	if !bytes.Equal(got, expDefuse(in)) {
		run.Fail(i, "defuse:spec", fmt.Sprintf("StripANSIMoveCmd(%q) = %q, expected %q", in, got, expDefuse(in)))
	}
}

func trimClass(b []byte) string {
	c := ""
	if bytes.IndexByte(b, 0) >= 0 {
		c += "nul"
	}
	if t := cutNul(b); len(t) > 0 && t[len(t)-1] == ' ' {
		c += "blank"
	}
	if c == "" {
		c = "plain"
	}
	return c
}

func judgeTrim(i int, in []byte, out string) {
	if out == "PANIC" || out == "TIMEOUT" {
		run.Fail(i, "crash:Trim", fmt.Sprintf("%s on %q: %s", out, in, hx.LastPanic))
		return
	}
	if got := hx.UnHex(out); !bytes.Equal(got, expTrim(in)) {
		run.Fail(i, "trim:spec", fmt.Sprintf("Trim(%q) = %q, expected %q", in, got, expTrim(in)))
	}
}
