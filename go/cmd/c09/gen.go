package main

import (
	"strings"

	"github.com/Ptt-official-app/go-pttbbs/ptttype"
	"verifharness/internal/hx"
)

var allBoards = []string{"WhoAmI", "EditExp", "Note", "Record", "ALLPOST", "Security", pctBoard}
var allUsers = []string{"SYSOP", "CodingMan", "Kahou2", "test0", "pichu"}

// bytes the bodies and titles are drawn from
var bodyAlphabet = []byte("abcXYZ09 ~!@#%%sdvxq*\t\x00\x1b\x1b[[;;,0123456789ABCDfjHJRumsK? " + "\x80\x81\xa1\xa4\xbd\xa7\x69\xfe\x40\x7e")
var titleAlphabet = []byte("abcdefgXYZ0189 []:!%%sdv\x00\x1b[H\x80\xa4\xbd\xa7\x69\xfe\x40 Re")

func newReq(u, b string) *request {
	us, bd := users[u], boards[b]
	id := make([]byte, ptttype.IDLEN+1)
	copy(id, u)
	return &request{board: b, dirBoard: b, userID: id, nick: nickOf(id), uid: us.uid, flags: flagsFor(us, bd),
		ip: []byte("1.2.3.4"), u: us, b: bd}
}

func reset() { do(resetLine(allBoards, allUsers)) }

func randLine(r *hx.Rand, maxLen int) []byte {
	switch r.Intn(8) {
	case 0:
		return []byte{}
	case 1: // a well-formed movement sequence inside text
		fin := ptttypeMove[r.Intn(len(ptttypeMove))]
		return append(append(r.Bytes(r.Intn(6), bodyAlphabet), []byte("\x1b["+string(r.Bytes(r.Intn(4), []byte("0123456789;,[")))+string(fin))...), r.Bytes(r.Intn(6), bodyAlphabet)...)
	case 2: // trailing blanks
		return append(r.Bytes(r.Intn(maxLen), bodyAlphabet), []byte(strings.Repeat(" ", 1+r.Intn(4)))...)
	}
	return r.Bytes(r.Intn(maxLen+1), bodyAlphabet)
}

var ptttypeMove = []byte("ABCDfjHJRu")

func randBody(r *hx.Rand, maxLines int) [][]byte {
	n := r.Intn(maxLines + 1)
	ls := make([][]byte, 0, n+1)
	for i := 0; i < n; i++ {
		ls = append(ls, randLine(r, 40))
	}
	switch r.Intn(3) {
	case 0:
		ls = append(ls, []byte{}) // trailing empty line: dropped
	case 1:
		if n > 0 && len(ls[n-1]) == 0 {
			ls[n-1] = []byte(" ") // blank but not empty: kept
		}
	}
	return ls
}

func randTitle(r *hx.Rand, n int, tagged bool) []byte {
	t := r.Bytes(n, titleAlphabet)
	if tagged {
		copy(t, ptttype.TN_ANNOUNCE_BIG5) // as much of the tag as fits
	}
	return t
}

func post(q *request) { do(q.line()) }

func generate() {
	do("consts")
	if *stream == "text" || *stream == "all" {
		generateText()
	}
	if *stream == "posts" || *stream == "all" {
		generatePosts()
	}
}

func generateText() {
	r := run.R
	// ---- pure streams -------------------------------------------------------------------------------------
	sym := []byte{0x1b, '[', '1', ';', 'H', 'm', 'x'}
	maxLen := 4
	if run.Thorough() {
		maxLen = 6
	}
	// shortest strings first, so that the first failing case is minimal
	for l := 0; l <= maxLen; l++ {
		enumLen(sym, l, func(b []byte) { do("defuse " + hx.Hex(b)) })
	}
	for _, s := range []string{"\x1b[\x1b[2JH", "\x1b\x1b\x1bH", "\x1b[1;2H\x1b[3A", "\x1bH", "\x1b[[[[J", "a\x1b[1,2fz", "\x1b[?25H", "\x1b[2J\x1b[H\x1b[s", "\x1b[12", "\x1b"} {
		do("defuse " + hx.Hex([]byte(s)))
	}
	tsym := []byte{' ', 'a', 0, '\t'}
	for l := 0; l <= maxLen+1; l++ {
		enumLen(tsym, l, func(b []byte) { do("trim " + hx.Hex(b)) })
	}
	nPure := 6000
	if run.Thorough() {
		nPure = 120000
	}
	for i := 0; i < nPure; i++ {
		do("defuse " + hx.Hex(randLine(r, 30)))
		do("trim " + hx.Hex(randLine(r, 30)))
	}

}

func generatePosts() {
	r := run.R
	// ---- titles of every length, every author class, with and without a class ------------------------------------
	authors := [][2]string{{"CodingMan", "WhoAmI"}, {"test0", "EditExp"}, {"SYSOP", "WhoAmI"}}
	for _, ab := range authors {
		for _, class := range [][]byte{nil, []byte("test")} {
			for n := 0; n <= 70; n++ {
				if n%12 == 0 {
					reset()
				}
				q := newReq(ab[0], ab[1])
				q.class = class
				q.title = randTitle(r, n, n%3 == 2)
				q.lines = [][]byte{[]byte("line"), {}}
				post(q)
			}
		}
	}
	// the announcement tag: every truncation of it, the tag alone, the tag followed by text
	for _, ab := range append(authors, [2]string{"Kahou2", "EditExp"}, [2]string{"test0", "WhoAmI"}) {
		reset()
		for k := 0; k <= len(ptttype.TN_ANNOUNCE_BIG5); k++ {
			q := newReq(ab[0], ab[1])
			q.title = append([]byte{}, ptttype.TN_ANNOUNCE_BIG5[:k]...)
			post(q)
		}
		for _, tail := range []string{" hello", "", strings.Repeat("x", 59), strings.Repeat("y", 64)} {
			q := newReq(ab[0], ab[1])
			q.title = append(append([]byte{}, ptttype.TN_ANNOUNCE_BIG5...), tail...)
			post(q)
			q2 := newReq(ab[0], ab[1])
			q2.class = ptttype.TN_ANNOUNCE_BIG5[1:5] // class "公告": the full title starts with the tag
			q2.title = []byte(tail)
			post(q2)
		}
	}

	// ---- bodies, boards, sequences ---------------------------------------------------------------------------
	pairs := [][2]string{{"CodingMan", "WhoAmI"}, {"Kahou2", "WhoAmI"}, {"test0", "EditExp"}, {"CodingMan", "EditExp"},
		{"SYSOP", "WhoAmI"}, {"SYSOP", "EditExp"}, {"CodingMan", "Note"}, {"SYSOP", "Note"}, {"SYSOP", "Record"}, {"test0", "WhoAmI"}}
	nHist := 120
	if run.Thorough() {
		nHist = 2500
	}
	for h := 0; h < nHist; h++ {
		reset()
		steps := 2 + r.Intn(11)
		same := r.Intn(3) == 0
		p0 := pairs[r.Intn(len(pairs))]
		for s := 0; s < steps; s++ {
			p := p0
			if !same {
				p = pairs[r.Intn(len(pairs))]
			}
			q := newReq(p[0], p[1])
			if r.Intn(3) == 0 {
				q.class = r.Bytes(4, []byte("abAB\xa4\xbd\xa7\x69"))
			}
			q.title = randTitle(r, r.Intn(71), r.Intn(4) == 0)
			q.lines = randBody(r, 30)
			switch r.Intn(6) {
			case 0:
				q.ip = []byte("255.255.255.255")
			case 1:
				q.ip = []byte("10.0.0.1\x00junk")
			case 2:
				q.from = []byte(" (somewhere)")
			}
			post(q)
		}
	}

	// ---- the tag is somewhere, but not at the very start: nothing may be cut --------------------------------------
	tagRoles := append(authors, [2]string{"Kahou2", "EditExp"}, [2]string{"CodingMan", "Note"}, [2]string{"CodingMan", pctBoard})
	for _, ab := range tagRoles {
		reset()
		for _, lead := range []string{" ", "  ", "   ", "\t", "\x00", "\xa1\x40", "[", "x", " [", "Re: ", "\x1b[m"} {
			for _, tail := range []string{"", " x", strings.Repeat("z", 60)} {
				q := newReq(ab[0], ab[1])
				q.title = append(append([]byte(lead), ptttype.TN_ANNOUNCE_BIG5...), tail...)
				post(q)
			}
		}
		for _, cls := range []string{" ", "  \xa4\xbd", "\xa4\xbd\xa7\x69"} {
			q := newReq(ab[0], ab[1])
			q.class = []byte(cls)
			q.title = append(append([]byte("  "), ptttype.TN_ANNOUNCE_BIG5...), " y"...)
			post(q)
		}
	}

	// ---- time zone through the real configuration path ----------------------------------------------------------
	for _, z := range []string{"UTC", "Pacific/Honolulu", "Pacific/Kiritimati", "Asia/Taipei", "America/New_York"} {
		reset()
		q0 := newReq("CodingMan", "WhoAmI")
		q0.title = []byte("default zone")
		post(q0)
		do("timezone " + hx.Hex([]byte(z)))
		for i, ub := range [][2]string{{"CodingMan", "WhoAmI"}, {"test0", "EditExp"}, {"SYSOP", "Note"}} {
			q := newReq(ub[0], ub[1])
			q.title = []byte("in " + z + " " + string(rune('a'+i)))
			q.lines = [][]byte{[]byte("x")}
			post(q)
		}
	}
	reset()

	// ---- cold totals: records on disk, nothing counted yet (as after ReloadBCache) ----------------------------------
	for k := 1; k <= 3; k++ {
		two := append([]byte{}, fixtureDir["WhoAmI"]...)
		for len(two) < k*recSz {
			two = append(two, fixtureDir["WhoAmI"][:recSz]...)
		}
		coldBoards["ALLPOST"] = two[:k*recSz]
		if k == 3 {
			coldBoards["WhoAmI"] = fixtureDir["WhoAmI"]
		}
		reset()
		for i, ub := range [][2]string{{"CodingMan", "WhoAmI"}, {"test0", "EditExp"}, {"SYSOP", "Record"}, {"CodingMan", "WhoAmI"}} {
			q := newReq(ub[0], ub[1])
			q.title = []byte("after a reload " + string(rune('a'+i)))
			q.lines = [][]byte{[]byte("x")}
			post(q)
		}
	}
	delete(coldBoards, "ALLPOST")
	delete(coldBoards, "WhoAmI")

	// ---- printf metacharacters in every rendered text field -------------------------------------------------------
	pctTexts := [][]byte{[]byte("100% pure"), []byte("%s%d"), []byte("50%"), []byte("%"), []byte("%%"), []byte("%!s(MISSING)"),
		[]byte("%v%x%q%[1]s%*d"), []byte("%s %s %s %s %s %s"), []byte("\xa4\xbd%s\xa7\x69%"), []byte("%c%U%t%p%08.3f"), []byte("%[9]s%n")}
	for i, nick := range pctTexts {
		for _, u := range []string{"CodingMan", "test0", "SYSOP", "Kahou2"} {
			nickOverride[u] = nick
		}
		reset()
		for k, ub := range [][2]string{{"CodingMan", "WhoAmI"}, {"test0", "EditExp"}, {"SYSOP", pctBoard}, {"Kahou2", pctBoard}, {"CodingMan", "Note"}} {
			q := newReq(ub[0], ub[1])
			q.title = append([]byte{}, pctTexts[(i+k)%len(pctTexts)]...)
			if k%2 == 1 {
				q.class = []byte("%d%s")
			}
			q.lines = [][]byte{pctTexts[(i+k+1)%len(pctTexts)], []byte("plain"), pctTexts[(i+k+2)%len(pctTexts)]}
			if k >= 2 {
				q.ip = []byte("%s.%d.%v.1")
				q.from = []byte(" (%s%d)")
			}
			post(q)
		}
		// the same through a kept session record
		id := make([]byte, ptttype.IDLEN+1)
		copy(id, "CodingMan")
		do("load " + hx.Hex([]byte("P")) + " " + hx.Hex(id))
		q := newReq("CodingMan", pctBoard)
		q.title = pctTexts[i]
		q.lines = [][]byte{[]byte("%s")}
		do("postas " + hx.Hex([]byte("P")) + " " + strings.Join(strings.Fields(q.line())[1:3], " ") + " " + strings.Join(strings.Fields(q.line())[4:], " "))
	}
	for u := range nickOverride {
		delete(nickOverride, u)
	}
	// random nicknames over a printf-heavy alphabet for the histories that follow
	pctAlpha := []byte("%%%sdvxq[1]*.0 ab\xa4\xbd")
	randNicks := func() {
		for _, u := range []string{"CodingMan", "test0", "SYSOP", "Kahou2"} {
			if r.Intn(2) == 0 {
				nickOverride[u] = r.Bytes(r.Intn(20), pctAlpha)
			} else {
				delete(nickOverride, u)
			}
		}
	}
	nPct := 8
	if run.Thorough() {
		nPct = 200
	}
	for h := 0; h < nPct; h++ {
		randNicks()
		reset()
		for s := 0; s < 2+r.Intn(6); s++ {
			p := append(pairs, [2]string{"CodingMan", pctBoard}, [2]string{"SYSOP", pctBoard})[r.Intn(len(pairs)+2)]
			q := newReq(p[0], p[1])
			q.title = r.Bytes(r.Intn(40), pctAlpha)
			q.lines = [][]byte{r.Bytes(r.Intn(30), pctAlpha), r.Bytes(r.Intn(30), bodyAlphabet)}
			if r.Intn(3) == 0 {
				q.class = r.Bytes(4, pctAlpha)
			}
			post(q)
		}
	}
	for u := range nickOverride {
		delete(nickOverride, u)
	}

	// ---- site configuration: every setting of the five switches -------------------------------------------------
	for c := 0; c < 32; c++ {
		bits := ""
		for k := 4; k >= 0; k-- {
			bits += string(rune('0' + (c>>k)&1))
		}
		reset()
		do("config " + bits)
		for k, ub := range [][2]string{{"CodingMan", "Note"}, {"SYSOP", "Note"}, {"CodingMan", "WhoAmI"}, {"test0", "EditExp"}, {"CodingMan", "EditExp"}} {
			q := newReq(ub[0], ub[1])
			q.title = randTitle(r, 8+r.Intn(30), k >= 2 && r.Bool())
			if k == 2 {
				q.title = append(append([]byte{}, ptttype.TN_ANNOUNCE_BIG5...), " rules"...)
			}
			q.lines = randBody(r, 6)
			post(q)
		}
	}
	nCfg := 10
	if run.Thorough() {
		nCfg = 300
	}
	for h := 0; h < nCfg; h++ {
		reset()
		for s := 0; s < 3+r.Intn(8); s++ {
			if r.Intn(3) == 0 {
				do("config " + string(r.Bytes(5, []byte("01"))))
			}
			p := pairs[r.Intn(len(pairs))]
			q := newReq(p[0], p[1])
			q.title = randTitle(r, r.Intn(71), r.Intn(3) == 0)
			q.lines = randBody(r, 8)
			post(q)
		}
	}

	// ---- sessions: one user loaded as several independent records ----------------------------------------------
	postAs := func(sess string, q *request) {
		do("postas " + hx.Hex([]byte(sess)) + " " + strings.Join(strings.Fields(q.line())[1:3], " ") + " " + strings.Join(strings.Fields(q.line())[4:], " "))
	}
	load := func(sess, u string) {
		id := make([]byte, ptttype.IDLEN+1)
		copy(id, u)
		do("load " + hx.Hex([]byte(sess)) + " " + hx.Hex(id))
	}
	mk := func(u, b string, k int) *request {
		q := newReq(u, b)
		q.title = []byte("session post " + string(rune('a'+k%26)))
		q.lines = [][]byte{[]byte("x")}
		return q
	}
	// two sessions loaded up front; A posts k times, B posts, A posts again; then a reloading post
	for _, ub := range [][2]string{{"CodingMan", "WhoAmI"}, {"test0", "EditExp"}, {"SYSOP", "WhoAmI"}, {"CodingMan", "Note"}} {
		for k := 0; k <= 3; k++ {
			reset()
			load("A", ub[0])
			load("B", ub[0])
			for i := 0; i < k; i++ {
				postAs("A", mk(ub[0], ub[1], i))
			}
			postAs("B", mk(ub[0], ub[1], 7))
			postAs("A", mk(ub[0], ub[1], 8))
			post(mk(ub[0], ub[1], 9))
			postAs("B", mk(ub[0], ub[1], 10))
		}
	}
	// a session loaded, the counter changed by the other path (bbs.CreateArticle reloads), then posting through it
	for _, ub := range [][2]string{{"CodingMan", "WhoAmI"}, {"Kahou2", "EditExp"}} {
		reset()
		load("S", ub[0])
		post(mk(ub[0], ub[1], 0))
		post(mk(ub[0], "WhoAmI", 1))
		postAs("S", mk(ub[0], ub[1], 2))
		postAs("S", mk(ub[0], ub[1], 3))
	}
	nSess := 10
	if run.Thorough() {
		nSess = 200
	}
	for h := 0; h < nSess; h++ {
		reset()
		names := []string{"A", "B", "C"}
		owner := map[string]string{}
		us := []string{"CodingMan", "test0", "SYSOP", "Kahou2"}
		for _, n := range names {
			owner[n] = us[r.Intn(2+r.Intn(3))]
			load(n, owner[n])
		}
		for s := 0; s < 4+r.Intn(10); s++ {
			n := names[r.Intn(len(names))]
			bs := []string{"WhoAmI", "EditExp", "Note"}
			q := mk(owner[n], bs[r.Intn(len(bs))], s)
			q.lines = randBody(r, 4)
			switch r.Intn(5) {
			case 0:
				post(q)
			case 1:
				load(n, owner[n])
			default:
				postAs(n, q)
			}
		}
	}

	// ---- write failures: the article file cannot grow beyond the limit -----------------------------------------
	nFail := 10
	if run.Thorough() {
		nFail = 120
	}
	for h := 0; h < nFail; h++ {
		reset()
		p := pairs[r.Intn(len(pairs))]
		q0 := newReq(p[0], p[1])
		q0.title = []byte("before the failure")
		q0.lines = [][]byte{[]byte("ok")}
		post(q0)
		q := newReq(p[0], p[1])
		q.title = randTitle(r, r.Intn(40), false)
		for k := 0; k < 60; k++ {
			q.lines = append(q.lines, r.Bytes(100, []byte("abcdefghij klmnop")))
		}
		do("postfail 3000 " + strings.TrimPrefix(q.line(), "post "))
		q1 := newReq(p[0], p[1])
		q1.title = []byte("after the failure")
		post(q1)
	}

	// ---- malformed stream --------------------------------------------------------------------------------------
	reset()
	for _, p := range [][2]string{{"pichu", "WhoAmI"}, {"CodingMan", "Security"}, {"CodingMan", "ALLPOST"}, {"CodingMan", "Record"}, {"pichu", "Note"}} {
		q := newReq(p[0], p[1])
		q.title = []byte("refused")
		q.lines = [][]byte{[]byte("x")}
		post(q)
	}
	// a permitted post after refusals still works
	{
		q := newReq("CodingMan", "WhoAmI")
		q.title = []byte("after refusals")
		post(q)
	}
	// a board id whose number and name disagree: number of WhoAmI, name of Security
	{
		q := newReq("CodingMan", "WhoAmI")
		q.dirBoard = "Security"
		q.title = []byte("hello")
		q.lines = [][]byte{[]byte("body")}
		post(q)
	}
	// ... and a name without a directory
	{
		q := newReq("CodingMan", "WhoAmI")
		q.dirBoard = "NoSuchBrd"
		q.title = []byte("hello")
		post(q)
	}
	for _, l := range []string{"post", "post 00", "frobnicate 1 2", "defuse", "defuse zz", "trim 0", "reset b:zz:00", "reset q:00:1",
		"post 57686f416d49 57686f416d49 436f64696e674d616e00000000 rz 312e322e332e34 - - 6869 .",
		"post 57686f416d49 57686f416d49 436f64696e674d616e00000000 rr 312e322e332e34 - - 6869 .",
		"post 57686f416d49 57686f416d49 436f64696e674d616e00000000 - 312e322e332e34 - - 6869 6g",
		"post 57686f416d49 57686f416d49 436f64696e674d616e00 - 312e322e332e34 - - 6869 .",
		"load", "load 41 zz", "postas 5a 57686f416d49 57686f416d49 - 312e322e332e34 - - 6869 .",
		"post 57686f416d50 57686f416d49 436f64696e674d616e00000000 - 312e322e332e34 - - 6869 .", "consts 1", "timezone", "timezone zz", "config 0101", "config 01x10", "config"} {
		do(l)
	}
}

func enumLen(sym []byte, l int, f func([]byte)) {
	b := make([]byte, l)
	var rec func(i int)
	rec = func(i int) {
		if i == l {
			f(append([]byte{}, b...))
			return
		}
		for _, c := range sym {
			b[i] = c
			rec(i + 1)
		}
	}
	rec(0)
}
