// c05: correspondence harness for the record-file operations (property C05).
// It runs the REAL cmsys.AppendRecord / SubstituteRecord / DeleteRecord / GetRecords /
// GetNumRecords and ptt.ModifyDirLite on a real temp file, one op line at a time, prints the
// canonical answer for the Lean driver, and judges every step with the property oracle P̂
// (byte diff outside the addressed record, count, window contents) independently of the model.
package main

import (
	"bytes"
	"encoding/binary"
	"flag"
	"fmt"
	"hash/fnv"
	"os"
	"path/filepath"
	"strconv"
	"strings"

	"github.com/Ptt-official-app/go-pttbbs/cmsys"
	"github.com/Ptt-official-app/go-pttbbs/ptt"
	"github.com/Ptt-official-app/go-pttbbs/ptttype"
	"github.com/Ptt-official-app/go-pttbbs/types"
	"github.com/sirupsen/logrus"
	"io"

	"verifharness/internal/hx"
)

var (
	run    *hx.Run
	dir    string
	path   string
	stride = 128
)

const dirSz = int(ptttype.FILE_HEADER_RAW_SZ)

// ---- the file as the oracle sees it ----------------------------------------------

func snapshot() (present bool, b []byte) {
	b, err := os.ReadFile(path)
	if err != nil {
		return false, nil
	}
	return true, b
}

func stateStr(present bool, b []byte) string {
	if !present {
		return "absent"
	}
	h := fnv.New64a()
	h.Write(b)
	return fmt.Sprintf("%d:%x", len(b), h.Sum64())
}

func errStr(err error) string {
	switch err {
	case nil:
		return "ok"
	case ptttype.ErrInvalidIdx:
		return "invalid-idx"
	}
	return "err"
}

// ---- record kinds ----------------------------------------------------------------

func newOf(kind string) interface{} {
	switch kind {
	case "dir":
		return &ptttype.FileHeaderRaw{}
	case "brd":
		return &ptttype.BoardHeaderRaw{}
	case "pw":
		return &ptttype.UserecRaw{}
	case "post":
		return &ptt.PostLog{}
	}
	return nil
}

func kindStride(kind string) (int, bool) {
	switch kind {
	case "dir":
		return int(ptttype.FILE_HEADER_RAW_SZ), true
	case "brd":
		return int(ptttype.BOARD_HEADER_RAW_SZ), true
	case "pw":
		return int(ptttype.USEREC_RAW_SZ), true
	case "post":
		return int(ptt.POSTLOG_SZ), true
	case "raw":
		return stride, true
	}
	return 0, false
}

// packed is the number of bytes encoding/binary writes for the record type.
func packed(kind string) int { return binary.Size(newOf(kind)) }

// mkData turns an image into the value handed to the record functions: the decoded struct
// for the typed kinds (so the real encoder runs), the raw bytes for "raw".
func mkData(kind string, img []byte) (interface{}, bool) {
	if kind == "raw" {
		return img, true
	}
	v := newOf(kind)
	if v == nil || len(img) != binary.Size(v) {
		return nil, false
	}
	if err := binary.Read(bytes.NewReader(img), binary.LittleEndian, v); err != nil {
		return nil, false
	}
	return v, true
}

// canon builds a record image of the kind from random bytes through encoding/binary
// (decode then encode, so bool fields are 0/1 and the image is what the code itself writes).
func canon(kind string, raw []byte) []byte {
	v := newOf(kind)
	if err := binary.Read(bytes.NewReader(raw), binary.LittleEndian, v); err != nil {
		panic(err)
	}
	var buf bytes.Buffer
	if err := binary.Write(&buf, binary.LittleEndian, v); err != nil {
		panic(err)
	}
	return buf.Bytes()
}

// ---- parsing (mirrors Drv/C05.lean) ----------------------------------------------

func digitsOnly(s string) bool {
	if s == "" {
		return false
	}
	for i := 0; i < len(s); i++ {
		if s[i] < '0' || s[i] > '9' {
			return false
		}
	}
	return true
}

func parseInt(s string, lo, hi int64) (int64, bool) {
	t := s
	if strings.HasPrefix(t, "-") {
		t = t[1:]
	}
	if !digitsOnly(t) {
		return 0, false
	}
	v, err := strconv.ParseInt(s, 10, 64)
	if err != nil || v < lo || v > hi {
		return 0, false
	}
	return v, true
}

func parseHex(s string) ([]byte, bool) {
	if s == "-" {
		return []byte{}, true
	}
	if len(s)%2 != 0 || s == "" {
		return nil, false
	}
	for i := 0; i < len(s); i++ {
		c := s[i]
		if !(c >= '0' && c <= '9' || c >= 'a' && c <= 'f' || c >= 'A' && c <= 'F') {
			return nil, false
		}
	}
	return hx.UnHex(s), true
}

// optField: "nil" or exactly n bytes. ok=false on malformed.
func optField(s string, n int) (b []byte, isNil bool, ok bool) {
	if s == "nil" {
		return nil, true, true
	}
	b, ok = parseHex(s)
	if !ok || (n >= 0 && len(b) != n) {
		return nil, false, false
	}
	return b, false, true
}

const (
	i64lo = -1 << 63
	i64hi = 1<<63 - 1
	nMax  = 1000000 // GetRecords allocates cap n up front; larger n is not exercised
)

type modArgs struct {
	idx     int64
	name    ptttype.Filename_t
	mtime   int64
	title   *ptttype.Title_t
	owner   *ptttype.Owner_t
	date    *ptttype.Date_t
	rec     int64
	multi   []byte
	en, dis int64
}

func parseModify(ws []string) (*modArgs, bool) {
	if len(ws) != 10 {
		return nil, false
	}
	a := &modArgs{}
	var ok bool
	if a.idx, ok = parseInt(ws[0], i64lo, i64hi); !ok {
		return nil, false
	}
	nm, ok := parseHex(ws[1])
	if !ok || len(nm) != len(a.name) {
		return nil, false
	}
	copy(a.name[:], nm)
	if a.mtime, ok = parseInt(ws[2], -1<<31, 1<<31-1); !ok {
		return nil, false
	}
	if b, isNil, ok := optField(ws[3], len(ptttype.Title_t{})); !ok {
		return nil, false
	} else if !isNil {
		a.title = &ptttype.Title_t{}
		copy(a.title[:], b)
	}
	if b, isNil, ok := optField(ws[4], len(ptttype.Owner_t{})); !ok {
		return nil, false
	} else if !isNil {
		a.owner = &ptttype.Owner_t{}
		copy(a.owner[:], b)
	}
	if b, isNil, ok := optField(ws[5], len(ptttype.Date_t{})); !ok {
		return nil, false
	} else if !isNil {
		a.date = &ptttype.Date_t{}
		copy(a.date[:], b)
	}
	if a.rec, ok = parseInt(ws[6], -128, 127); !ok {
		return nil, false
	}
	if b, isNil, ok := optField(ws[7], -1); !ok {
		return nil, false
	} else if !isNil {
		a.multi = b // non-nil, possibly empty
	}
	if a.en, ok = parseInt(ws[8], 0, 255); !ok {
		return nil, false
	}
	if a.dis, ok = parseInt(ws[9], 0, 255); !ok {
		return nil, false
	}
	return a, true
}

// ---- one op on the real code --------------------------------------------------------

// exec returns the canonical answer and whether the op mutates (then the state is appended).
func exec(ws []string) (out string, mutating bool) {
	switch {
	case ws[0] == "reset" && len(ws) == 3:
		if !digitsOnly(ws[1]) {
			return "bad-op", false
		}
		sz, err := strconv.Atoi(ws[1])
		if err != nil || sz > 1<<20 {
			return "bad-op", false
		}
		if ws[2] == "absent" {
			_ = os.Remove(path)
		} else {
			b, ok := parseHex(ws[2])
			if !ok {
				return "bad-op", false
			}
			if err := os.WriteFile(path, b, 0o644); err != nil {
				panic(err)
			}
		}
		stride = sz
		return "ok", false
	case ws[0] == "dump" && len(ws) == 1:
		p, b := snapshot()
		if !p {
			return "absent", false
		}
		return hx.Hex(b), false
	case ws[0] == "append" && len(ws) == 3:
		sz, ok := kindStride(ws[1])
		img, ok2 := parseHex(ws[2])
		if !ok || !ok2 {
			return "bad-op", false
		}
		data, ok := mkData(ws[1], img)
		if !ok {
			return "bad-op", false
		}
		return hx.CallSync(func() string {
			idx, err := cmsys.AppendRecord(path, data, uintptr(sz))
			return fmt.Sprintf("%s %d", errStr(err), idx)
		}), true
	case ws[0] == "subst" && len(ws) == 4:
		sz, ok := kindStride(ws[1])
		i, ok1 := parseInt(ws[2], -1<<31, 1<<31-1)
		img, ok2 := parseHex(ws[3])
		if !ok || !ok1 || !ok2 {
			return "bad-op", false
		}
		data, ok := mkData(ws[1], img)
		if !ok {
			return "bad-op", false
		}
		return hx.CallSync(func() string {
			return errStr(cmsys.SubstituteRecord(path, data, uintptr(sz), int32(i)))
		}), true
	case ws[0] == "delete" && len(ws) == 2:
		i, ok := parseInt(ws[1], i64lo, i64hi)
		if !ok {
			return "bad-op", false
		}
		return hx.CallSync(func() string {
			return errStr(cmsys.DeleteRecord(path, ptttype.SortIdxInStore(i), uintptr(stride)))
		}), true
	case ws[0] == "num" && len(ws) == 1:
		return hx.CallSync(func() string {
			return strconv.Itoa(cmsys.GetNumRecords(path, uintptr(stride)))
		}), false
	case ws[0] == "get" && len(ws) == 4:
		st, ok := parseInt(ws[1], i64lo, i64hi)
		n, ok1 := parseInt(ws[2], i64lo, nMax)
		if !ok || !ok1 || (ws[3] != "asc" && ws[3] != "desc") {
			return "bad-op", false
		}
		bid := &ptttype.BoardID_t{}
		copy(bid[:], "WhoAmI")
		return hx.CallSync(func() string {
			sums, err := cmsys.GetRecords(bid, path, ptttype.SortIdx(st), int(n), ws[3] == "desc")
			var sb strings.Builder
			fmt.Fprintf(&sb, "%s %d", errStr(err), len(sums))
			for _, s := range sums {
				var buf bytes.Buffer
				_ = binary.Write(&buf, binary.LittleEndian, s.FileHeaderRaw)
				fmt.Fprintf(&sb, " %d=%s", s.Aid, hx.Hex(buf.Bytes()))
			}
			return sb.String()
		}), false
	case ws[0] == "modify":
		a, ok := parseModify(ws[1:])
		if !ok {
			return "bad-op", false
		}
		return hx.CallSync(func() string {
			return errStr(ptt.ModifyDirLite(path, ptttype.SortIdx(a.idx), &a.name, types.Time4(a.mtime), a.title, a.owner, a.date,
				int8(a.rec), a.multi, ptttype.FileMode(a.en), ptttype.FileMode(a.dis)))
		}), true
	}
	return "bad-op", false
}

// ---- P̂: the property oracle --------------------------------------------------------

func cstr(b []byte) []byte {
	if i := bytes.IndexByte(b, 0); i >= 0 {
		return b[:i]
	}
	return b
}

// firstDiffOutside returns the first offset below len(before) and outside [lo,hi) at which the
// two images differ, or -1.
func firstDiffOutside(before, after []byte, lo, hi int64) int {
	for j := range before {
		if int64(j) >= lo && int64(j) < hi {
			continue
		}
		if j >= len(after) || after[j] != before[j] {
			return j
		}
	}
	return -1
}

// idxClass names a 0-based store index relative to the record count.
func idxClass(i int64, count int) string {
	c := int64(count)
	switch {
	case i < 0:
		return "neg"
	case i > c:
		return "far"
	case i == c:
		return "last+1"
	case i == c-1:
		return "last"
	case i == 0:
		return "0"
	case i == 1:
		return "1"
	}
	return "mid"
}

// do runs one op line: real code, record for the model, oracle. Returns the op's answer.
func do(line string) string {
	ws := strings.Fields(line)
	if len(ws) == 0 {
		run.Op(line, "bad-op", "bad-op", false)
		return "bad-op"
	}
	if isCallerOp(ws[0]) {
		restorePasswd()
		return doCaller(line, ws)
	}
	if isRequestOp(ws[0]) {
		restorePasswd()
		return doRequest(line, ws)
	}
	if isPasswdOp(ws[0]) {
		return doPasswd(line, ws)
	}
	pb, before := snapshot()
	szBefore := stride
	out, mut := exec(ws)
	pa, after := snapshot()
	full := out
	if mut && out != "bad-op" {
		full = out + " " + stateStr(pa, after)
	}
	if out == "bad-op" {
		run.Op(line, full, "bad-op", false)
		return out
	}
	label := ws[0]
	fail := func(i int, key, f string, a ...interface{}) {
		run.Fail(i, key, fmt.Sprintf(f, a...)+" | op: "+trunc(line, 160))
	}
	switch ws[0] {
	case "reset":
		label = "reset:" + ws[1]
		if ws[2] == "absent" {
			label += ":absent"
		} else if stride > 0 && len(after)%stride != 0 {
			label += ":torn"
		}
		run.Op(line, full, label, false)
	case "dump":
		run.Op(line, full, label, false)
	case "num":
		want := 0
		if pb && szBefore > 0 {
			want = len(before) / szBefore
		}
		if !pb {
			label += ":absent"
		} else if szBefore > 0 && len(before)%szBefore != 0 {
			label += ":torn"
		}
		if out == "PANIC" {
			label += ":panic"
		}
		i := run.Op(line, full, label, true)
		if szBefore > 0 && out != strconv.Itoa(want) {
			fail(i, "count", "GetNumRecords = %s on a %d-byte file of stride %d, want %d", out, len(before), szBefore, want)
		}
	case "append":
		kind := ws[1]
		sz, _ := kindStride(kind)
		img, _ := parseHex(ws[2])
		label = "append:" + kind
		if !pb {
			label += ":absent"
		} else if sz > 0 && len(before)%sz != 0 {
			label += ":torn"
		} else {
			label += ":clean"
		}
		if out == "PANIC" {
			label += ":panic"
		}
		i := run.Op(line, full, label, true)
		if sz == 0 {
			break // stride 0 is outside the property (recorded, compared with the model)
		}
		key := "append:" + kind
		if kind == "post" {
			key = "post-append-overwrites"
		}
		n := len(before) / sz
		if firstDiffOutside(before[:n*sz], after, 0, 0) >= 0 {
			fail(i, key, "append changed an acknowledged record: first differing offset %d (count before %d, stride %d)",
				firstDiffOutside(before[:n*sz], after, 0, 0), n, sz)
			break
		}
		if kind == "raw" && len(img) != sz {
			break // an image that is not one record long: outside the property, model-compared only
		}
		if out != fmt.Sprintf("ok %d", n+1) {
			fail(i, key, "append returned %q, want index %d (count before %d)", out, n+1, n)
		} else if len(after)/sz != n+1 {
			fail(i, key, "after the append of a %d-byte image the file has %d bytes = %d records of stride %d, want %d records",
				len(img), len(after), len(after)/sz, sz, n+1)
		} else if len(after) != (n+1)*sz || !bytes.Equal(after[n*sz:], img) {
			fail(i, key, "record %d is not the appended image / the torn tail was not overwritten (file %d bytes)", n+1, len(after))
		}
	case "subst", "delete":
		var sz int
		var idx int64
		var img []byte
		if ws[0] == "subst" {
			sz, _ = kindStride(ws[1])
			idx, _ = parseInt(ws[2], -1<<31, 1<<31-1)
			img, _ = parseHex(ws[3])
			label = "subst:" + ws[1]
		} else {
			sz = szBefore
			idx, _ = parseInt(ws[1], i64lo, i64hi)
			img = []byte(ptttype.FN_SAFEDEL)
		}
		cnt := 0
		if sz > 0 {
			cnt = len(before) / sz
		}
		label += ":idx=" + idxClass(idx, cnt)
		if !pb {
			label += ":absent"
		}
		i := run.Op(line, full, label, true)
		key := "frame:" + ws[0]
		if out == "PANIC" || out == "TIMEOUT" {
			fail(i, key, "%s", out)
			break
		}
		if sz == 0 {
			break
		}
		if idx < 0 {
			if out == "ok" || !bytes.Equal(before, after) {
				fail(i, key, "negative index %d: returned %s, file changed=%v", idx, out, !bytes.Equal(before, after))
			}
			break
		}
		lo, hi := idx*int64(sz), (idx+1)*int64(sz)
		if out != "ok" {
			fail(i, key, "returned %s", out)
			break
		}
		if ws[0] == "subst" && len(img) != sz {
			// malformed (raw image that is not one record long): only the bytes before the record are judged
			if d := firstDiffOutside(before, after, lo, int64(len(before))); d >= 0 {
				fail(i, key, "byte %d before record %d changed", d, idx)
			}
			break
		}
		if len(img) > sz {
			hi = lo + int64(len(img)) // a delete mark longer than the stride cannot be confined to the record (strides below 2: not judged)
		}
		if d := firstDiffOutside(before, after, lo, hi); d >= 0 {
			fail(i, key, "byte %d (record %d) changed although record %d was addressed (stride %d)", d, d/sz, idx, sz)
		} else if len(after) < len(before) {
			fail(i, key, "file shrank from %d to %d bytes", len(before), len(after))
		} else if len(img) > sz {
			// a delete mark longer than the stride cannot be confined to the record: recorded, not judged
		} else if int64(len(after)) < lo+int64(len(img)) || !bytes.Equal(after[lo:lo+int64(len(img))], img) {
			fail(i, key, "record %d does not start with the written bytes", idx)
		} else {
			// delete mark: the rest of the addressed record keeps its old bytes
			for j := lo + int64(len(img)); j < hi && j < int64(len(before)); j++ {
				if after[j] != before[j] {
					fail(i, key, "byte %d inside record %d behind the %d-byte mark changed", j, idx, len(img))
					break
				}
			}
		}
	case "modify":
		a, _ := parseModify(ws[1:])
		stale := ""
		switch {
		case !pb:
			stale = "absent"
		case a.idx < 1:
			stale = "idx<1"
		case a.idx*int64(dirSz) > int64(len(before)):
			stale = "idx>count"
		default:
			rec := before[(a.idx-1)*int64(dirSz) : a.idx*int64(dirSz)]
			if !bytes.Equal(cstr(rec[:len(a.name)]), cstr(a.name[:])) {
				stale = "name"
			}
		}
		if stale != "" {
			label = "modify:stale:" + stale
		} else {
			label = "modify:ok"
			if a.rec != 0 {
				cur := int64(decodeDir(before[(a.idx-1)*int64(dirSz) : a.idx*int64(dirSz)]).Recommend)
				if s := cur + a.rec; s > 127 || s < -128 {
					label += ":rec-wrap"
				} else if s > 100 || s < -100 {
					label += ":rec-clamp"
				} else {
					label += ":rec"
				}
			}
		}
		i := run.Op(line, full, label, true)
		if out == "PANIC" || out == "TIMEOUT" {
			fail(i, "frame:modify", "%s", out)
			break
		}
		if stale != "" {
			if out == "ok" || !bytes.Equal(before, after) || pa != pb {
				fail(i, "stale:modify", "stale (%s) index/name pair: returned %s, file changed=%v", stale, out, !bytes.Equal(before, after))
			}
			break
		}
		lo, hi := (a.idx-1)*int64(dirSz), a.idx*int64(dirSz)
		if out != "ok" {
			fail(i, "frame:modify", "matching index/name pair refused: %s", out)
		} else if d := firstDiffOutside(before, after, lo, hi); d >= 0 || len(after) != len(before) {
			fail(i, "frame:modify", "byte %d outside record %d changed / length %d -> %d", d, a.idx, len(before), len(after))
		} else if !bytes.Equal(after[lo:lo+int64(len(a.name))], before[lo:lo+int64(len(a.name))]) {
			fail(i, "frame:modify", "the file-name field of record %d changed", a.idx)
		}
	case "get":
		st, _ := parseInt(ws[1], i64lo, i64hi)
		n, _ := parseInt(ws[2], i64lo, nMax)
		desc := ws[3] == "desc"
		cnt := int64(len(before) / dirSz)
		label = "get:" + ws[3]
		// the specification: the run of consecutive records from start in the direction, inside [1, count]
		var want []int64
		switch {
		case st < 1:
			label += ":invalid-start"
		case !pb:
			label += ":absent"
		case n < 0:
			label += ":neg-n"
		case st > cnt:
			label += ":start-beyond"
		default:
			for k, idx := int64(0), st; k < n && idx >= 1 && idx <= cnt; k++ {
				want = append(want, idx)
				if desc {
					idx--
				} else {
					idx++
				}
			}
			switch {
			case int64(len(want)) < n:
				label += ":clipped"
			case n == 0:
				label += ":n=0"
			default:
				label += ":full"
			}
		}
		i := run.Op(line, full, label, true)
		key := "window:" + ws[3]
		if st < 1 {
			if !strings.HasPrefix(out, "invalid-idx") {
				fail(i, key, "start %d accepted: %s", st, trunc(out, 60))
			}
			break
		}
		if pb && n < 0 {
			break // negative n: makeslice panic, recorded (outside the property)
		}
		var sb strings.Builder
		fmt.Fprintf(&sb, "ok %d", len(want))
		for _, idx := range want {
			fmt.Fprintf(&sb, " %d=%s", idx, hx.Hex(before[(idx-1)*int64(dirSz):idx*int64(dirSz)]))
		}
		if out != sb.String() {
			fail(i, key, "window start=%d n=%d over %d records: got %s, want indices %v", st, n, cnt, trunc(out, 80), want)
		}
	default:
		run.Op(line, full, label, true)
	}
	return out
}

func trunc(s string, n int) string {
	if len(s) > n {
		return s[:n] + "..."
	}
	return s
}

func main() {
	if len(os.Args) >= 2 && os.Args[1] == "child" {
		childMain(os.Args[2:])
		return
	}
	mode := flag.String("mode", "", "\"crash\": process death at syscall boundaries of one append (needs strace)")
	run = hx.Start("C05")
	defer run.Finish()
	logrus.SetOutput(io.Discard)
	logrus.SetLevel(logrus.PanicLevel)
	var err error
	dir, err = os.MkdirTemp("", "verif-c05-")
	if err != nil {
		panic(err)
	}
	defer os.RemoveAll(dir)
	defer closeEnv()
	if w := os.Getenv("VERIF_WORK"); w != "" {
		if f, err := os.OpenFile(filepath.Join(w, "cleanup.txt"), os.O_APPEND|os.O_CREATE|os.O_WRONLY, 0o644); err == nil {
			fmt.Fprintf(f, "dir %s\n", dir)
			f.Close()
		}
	}
	path = filepath.Join(dir, "REC")

	run.Rule = "histories of append/subst/delete/modify/num/get/dump on a real temp file, each started by `reset <stride> <file>`; " +
		"strides 128 (.DIR/.DIR.bottom FileHeaderRaw), 256 (.BRD BoardHeaderRaw), 512 (.PASSWDS UserecRaw), 100 (.post ptt.PostLog) through the real " +
		"encoder, and raw byte images at small strides; initial files = k complete records + a torn tail (prefix of a real record image; every length " +
		"1..sz-1 for strides 100 and 128 in quick, for all four in thorough) or absent; indices from {-1,0,1,last,last+1,far}; ModifyDirLite with " +
		"matching, stale-index, stale-name and equal-up-to-NUL names and recommend deltas that wrap int8; windows in both directions with clipping; " +
		"malformed stream: stride 0, negative n, wrong image lengths, unparsable lines. distinct_nontrivial = distinct op lines that call one of the six real functions (reset/dump/rejected lines are not counted)"

	if run.Replay != "" {
		for _, l := range hx.ReplayOps(run.Replay) {
			do(l)
		}
		return
	}
	if *mode == "crash" {
		crashPass()
		return
	}
	generate()
}
