package main

// The callers layer: the record primitives as the rest of the code reaches them.
//   - ptt.NewBoard -> mNewbrd -> addBoardRecord: the ONLY caller of cmsys.SubstituteRecord. With a
//     vacated .BRD slot (a deleted board: empty brdname) the new board must be written into exactly that
//     slot (0-based record index bid-1); the record before and the record after stay untouched.
//   - the .DIR.bottom count behind the board cache: cache.ReloadBCache (reloadCacheLoadBottom) and the
//     cold path of cache.GetBTotalWithRetry (SetBottomTotal), reached by every first read of a board
//     (ptt.LoadGeneralArticles), then ptt.LoadBottomArticles. With 0..5 pinned records (5 = the legal
//     maximum) these reads must leave .DIR.bottom byte-identical and return exactly its records.
// Both need the shared-memory board cache, so a private BBSHOME is created lazily on the first such op.

import (
	"bytes"
	"encoding/binary"
	"fmt"
	"os"
	"strings"
	"time"

	"github.com/Ptt-official-app/go-pttbbs/cache"
	"github.com/Ptt-official-app/go-pttbbs/ptt"
	"github.com/Ptt-official-app/go-pttbbs/ptttype"
	"verifharness/internal/bbsenv"
	"verifharness/internal/hx"
)

const (
	brdSz      = int(ptttype.BOARD_HEADER_RAW_SZ)
	bottomBid  = ptttype.Bid(10) // WhoAmI in the ptt fixture
	classBid   = ptttype.Bid(2)  // a group board of the fixture: parent of the boards created here
	maxPinned  = 5               // the legal maximum of pinned articles (the property's domain; pttbbs: 5)
	boardIDLen = len(ptttype.BoardID_t{})
)

var (
	env        *bbsenv.Env
	brdFixture []byte
	bottomPath string
	bottomName = &ptttype.BoardID_t{}
	opUser     *ptttype.UserecRaw
)

func ensureEnv() {
	if env != nil {
		return
	}
	var err error
	env, err = bbsenv.New(bbsenv.Options{})
	if err != nil {
		panic(fmt.Sprintf("bbsenv: %v", err))
	}
	brdFixture, err = os.ReadFile(env.Path(".BRD"))
	if err != nil || len(brdFixture) < 12*brdSz {
		panic(fmt.Sprintf("fixture .BRD: %d bytes, %v", len(brdFixture), err))
	}
	_ = os.MkdirAll(env.Path("boards", "v"), 0o755) // the boards created here are all named v...
	copy(bottomName[:], "WhoAmI")
	bottomPath = env.Path("boards", "W", "WhoAmI", ".DIR.bottom")
	if st, err := os.Stat(env.Path("boards", "W", "WhoAmI", ".DIR")); err != nil || st.Size() < int64(dirSz) {
		panic("fixture: board WhoAmI has no articles (the cold/warm model needs a non-empty .DIR)")
	}
	opUser = &ptttype.UserecRaw{UserLevel: ptttype.PERM_BASIC | ptttype.PERM_LOGINOK | ptttype.PERM_BM | ptttype.PERM_BOARD |
		ptttype.PERM_SYSOP | ptttype.PERM_SYSSUBOP}
	copy(opUser.UserID[:], "SYSOP")
}

func closeEnv() {
	if env != nil {
		env.Close()
		env = nil
	}
}

func isCallerOp(op string) bool {
	switch op {
	case "reset-brd", "newboard", "brd-dump", "reset-bottom", "coldread", "loadbottom", "bottom-dump":
		return true
	}
	return false
}

func readOpt(p string) (bool, []byte) {
	b, err := os.ReadFile(p)
	if err != nil {
		return false, nil
	}
	return true, b
}

// boardImage: the record mNewbrd builds for (name, class, title) under parent classBid with
// BMs=nil, attr=0, level=0, chess=0, not a group — predicted here so that the model can write it.
func boardImage(name string, class, title []byte) []byte {
	b := &ptttype.BoardHeaderRaw{Gid: classBid}
	copy(b.Brdname[:], name)
	copy(b.Title[:4], class)
	b.Title[4] = ' '
	copy(b.Title[5:7], ptttype.BRD_SYMBOL_BOARD)
	copy(b.Title[7:], title)
	if ptttype.DEFAULT_AUTOCPLOG {
		b.BrdAttr |= ptttype.BRD_CPLOG
	}
	return encode(b)
}

func summariesStr(sums []*ptttype.ArticleSummaryRaw, err error) string {
	var sb strings.Builder
	fmt.Fprintf(&sb, "%s %d", errStr(err), len(sums))
	for _, s := range sums {
		fmt.Fprintf(&sb, " %d=%s", s.Aid, hx.Hex(encode(s.FileHeaderRaw)))
	}
	return sb.String()
}

// doCaller runs one op of the callers layer on the real code, records it for the model and judges it.
func doCaller(line string, ws []string) string {
	bad := func() string { run.Op(line, "bad-op", "bad-op", false); return "bad-op" }
	fail := func(i int, key, f string, a ...interface{}) {
		run.Fail(i, key, fmt.Sprintf(f, a...)+" | op: "+trunc(line, 120))
	}
	switch {
	case ws[0] == "reset-brd" && len(ws) == 2:
		b, ok := parseHex(ws[1])
		if !ok {
			return bad()
		}
		ensureEnv()
		if err := os.WriteFile(env.Path(".BRD"), b, 0o644); err != nil {
			panic(err)
		}
		cache.ReloadBCache()
		lab := "reset-brd"
		if len(b)%brdSz != 0 {
			lab += ":torn"
		}
		run.Op(line, "ok", lab, false)
		return "ok"

	case ws[0] == "brd-dump" && len(ws) == 1:
		ensureEnv()
		p, b := readOpt(env.Path(".BRD"))
		out := "absent"
		if p {
			out = hx.Hex(b)
		}
		run.Op(line, out, "brd-dump", false)
		return out

	case ws[0] == "newboard" && len(ws) == 3:
		nm, ok := parseHex(ws[1])
		img, ok2 := parseHex(ws[2])
		hdr := &ptttype.BoardHeaderRaw{}
		if !ok || !ok2 || len(nm) != boardIDLen || len(img) != binary.Size(hdr) || !bytes.Equal(img[:boardIDLen], nm) {
			return bad()
		}
		ensureEnv()
		_ = binary.Read(bytes.NewReader(img), binary.LittleEndian, hdr)
		pb, before := readOpt(env.Path(".BRD"))
		name := &ptttype.BoardID_t{}
		copy(name[:], nm)
		out := hx.CallT(8*time.Second, func() string {
			sum, err := ptt.NewBoard(opUser, 1, hdr.Gid, name, hdr.Title[:4], cstr(hdr.Title[7:]), nil, 0, 0, 0, false)
			if err != nil || sum == nil {
				lastErr = fmt.Sprint(err)
				return "err 0"
			}
			return fmt.Sprintf("ok %d", sum.Bid)
		})
		pa, after := readOpt(env.Path(".BRD"))
		// the shape of the file before: the vacated slots among the complete records
		n := len(before) / brdSz
		var vac []int
		for k := 0; k < n; k++ {
			if before[k*brdSz] == 0 {
				vac = append(vac, k)
			}
		}
		lab := "newboard"
		switch {
		case len(vac) > 0:
			lab += ":vacated=" + idxClass(int64(vac[0]), n)
		case n >= int(ptttype.MAX_BOARD):
			lab += ":full"
		default:
			lab += ":append"
		}
		if len(before)%brdSz != 0 {
			lab += ":torn"
		}
		i := run.Op(line, out+" "+stateStr(pa, after), lab, true)
		_ = pb
		// P̂: exactly one record is rewritten — a vacated one if there is any, else the slot behind the
		// last complete record — it carries the new name, the returned id is its 1-based index, and
		// no other byte of .BRD differs.
		var changed []int
		for k := 0; k < n; k++ {
			if (k+1)*brdSz > len(after) || !bytes.Equal(before[k*brdSz:(k+1)*brdSz], after[k*brdSz:(k+1)*brdSz]) {
				changed = append(changed, k)
			}
		}
		nameOf := func(b []byte, k int) string {
			if (k+1)*brdSz > len(b) {
				return "<missing>"
			}
			return string(cstr(b[k*brdSz : k*brdSz+boardIDLen]))
		}
		switch {
		case out == "PANIC" || out == "TIMEOUT":
			fail(i, "frame:newboard", "%s", out)
		case len(vac) > 0:
			key := "frame:newboard"
			if !strings.HasPrefix(out, "ok ") {
				fail(i, key, "board creation with a vacated slot failed: %s (%s)", out, lastErr)
			} else if len(changed) != 1 || before[changed[0]*brdSz] != 0 {
				var what []string
				for _, k := range changed {
					what = append(what, fmt.Sprintf("record %d (%q -> %q)", k, nameOf(before, k), nameOf(after, k)))
				}
				if len(what) == 0 {
					what = append(what, fmt.Sprintf("no record (the vacated slot stayed empty; file %d -> %d bytes)", len(before), len(after)))
				}
				fail(i, key, "vacated slot(s) %v of %d records: the substitute changed %s; exactly the vacated slot must be rewritten and every other record keep its bytes",
					vac, n, strings.Join(what, ", "))
			} else if len(after) != len(before) {
				fail(i, key, ".BRD length %d -> %d although a vacated slot was reused", len(before), len(after))
			} else if nameOf(after, changed[0]) != string(cstr(nm)) || out != fmt.Sprintf("ok %d", changed[0]+1) {
				fail(i, key, "slot %d holds %q, returned %s; want the new board %q with id %d", changed[0], nameOf(after, changed[0]), out, cstr(nm), changed[0]+1)
			}
		case n >= int(ptttype.MAX_BOARD):
			if strings.HasPrefix(out, "ok") || !bytes.Equal(before, after) {
				fail(i, "frame:newboard", "full board table: returned %s, file changed=%v", out, !bytes.Equal(before, after))
			}
		default:
			key := "append:newboard"
			if out != fmt.Sprintf("ok %d", n+1) {
				fail(i, key, "no vacated slot, %d records: returned %s (%s), want id %d", n, out, lastErr, n+1)
			} else if len(changed) != 0 {
				fail(i, key, "appending a board changed acknowledged record(s) %v", changed)
			} else if len(after) != (n+1)*brdSz || nameOf(after, n) != string(cstr(nm)) {
				fail(i, key, "after the append .BRD has %d bytes and record %d is %q", len(after), n, nameOf(after, n))
			}
		}
		return out

	case ws[0] == "reset-bottom" && len(ws) == 2:
		var b []byte
		absent := ws[1] == "absent"
		if !absent {
			var ok bool
			if b, ok = parseHex(ws[1]); !ok {
				return bad()
			}
		}
		ensureEnv()
		if absent {
			_ = os.Remove(bottomPath)
		} else if err := os.WriteFile(bottomPath, b, 0o644); err != nil {
			panic(err)
		}
		cache.ReloadBCache() // start-up / periodic reload: cached counts from the files, every board cold
		out := fmt.Sprintf("nbottom=%d", cache.GetBottomTotal(bottomBid))
		pa, after := readOpt(bottomPath)
		cnt := len(b) / dirSz
		lab := fmt.Sprintf("reset-bottom:n=%s", cntClass(cnt))
		if absent {
			lab = "reset-bottom:absent"
		} else if len(b)%dirSz != 0 {
			lab += ":torn"
		}
		i := run.Op(line, out, lab, true)
		if pa == absent || !bytes.Equal(after, b) {
			fail(i, "bottom:read-destroys", "reloading the board cache changed .DIR.bottom (%d records): %d -> %d bytes, present=%v", cnt, len(b), len(after), pa)
		} else if cnt <= maxPinned && out != fmt.Sprintf("nbottom=%d", cnt) {
			fail(i, "bottom:count", "%d pinned records, cached count after reload: %s", cnt, out)
		}
		return out

	case ws[0] == "coldread" && len(ws) == 2 && (ws[1] == "total" || ws[1] == "general"):
		ensureEnv()
		pb, before := readOpt(bottomPath)
		cold := cache.GetBTotal(bottomBid) == 0
		res := hx.Call(func() string {
			if ws[1] == "total" {
				_, err := cache.GetBTotalWithRetry(bottomBid)
				return errStr(err)
			}
			_, _, _, _, err := ptt.LoadGeneralArticles(opUser, 1, bottomName, bottomBid, 0, 3, true)
			return errStr(err)
		})
		pa, after := readOpt(bottomPath)
		out := fmt.Sprintf("nbottom=%d", cache.GetBottomTotal(bottomBid))
		if res != "ok" {
			out = res
		}
		cnt := len(before) / dirSz
		lab := fmt.Sprintf("coldread:%s:%s:n=%s", ws[1], map[bool]string{true: "cold", false: "warm"}[cold], cntClass(cnt))
		if pb && !pa {
			lab += ":unlinked"
		}
		i := run.Op(line, out+" "+stateStr(pa, after), lab, true)
		if res != "ok" {
			fail(i, "bottom:read-destroys", "reading the board failed: %s", res)
		} else if cnt <= maxPinned {
			// the legal range 0..5: a read of the board is a read
			if pa != pb || !bytes.Equal(before, after) {
				fail(i, "bottom:read-destroys", "a %s read of the board (cache %s) changed .DIR.bottom holding %d pinned records (legal maximum %d): %d -> %d bytes, present %v -> %v",
					ws[1], map[bool]string{true: "cold", false: "warm"}[cold], cnt, maxPinned, len(before), len(after), pb, pa)
			} else if out != fmt.Sprintf("nbottom=%d", cnt) {
				fail(i, "bottom:count", "%d pinned records, cached count after the read: %s", cnt, out)
			}
		}
		return out

	case ws[0] == "loadbottom" && len(ws) == 1:
		ensureEnv()
		pb, before := readOpt(bottomPath)
		out := hx.Call(func() string {
			return summariesStr(ptt.LoadBottomArticles(opUser, 1, bottomName, bottomBid))
		})
		pa, after := readOpt(bottomPath)
		cnt := len(before) / dirSz
		i := run.Op(line, out, "loadbottom:n="+cntClass(cnt), true)
		if pa != pb || !bytes.Equal(before, after) {
			fail(i, "bottom:read-destroys", "LoadBottomArticles changed .DIR.bottom")
		} else if cnt <= maxPinned {
			var sb strings.Builder
			fmt.Fprintf(&sb, "ok %d", cnt)
			for k := 0; k < cnt; k++ {
				fmt.Fprintf(&sb, " %d=%s", k+1, hx.Hex(before[k*dirSz:(k+1)*dirSz]))
			}
			if out != sb.String() {
				fail(i, "bottom:window", "%d pinned records: the bottom window returned %s, want exactly records 1..%d in order", cnt, trunc(out, 60), cnt)
			}
		}
		return out

	case ws[0] == "bottom-dump" && len(ws) == 1:
		ensureEnv()
		p, b := readOpt(bottomPath)
		out := "absent"
		if p {
			out = hx.Hex(b)
		}
		run.Op(line, out, "bottom-dump", false)
		return out
	}
	return bad()
}

func cntClass(n int) string {
	switch {
	case n <= maxPinned+2:
		return fmt.Sprint(n)
	case n < 256:
		return "many"
	}
	return fmt.Sprintf("256+%d", n-256)
}

var boardSeq int
var lastErr string

// brdFile: the fixture .BRD cut to nrec records, record `vacate` (0-based, -1: none) zeroed as pttbbs
// leaves a deleted board, plus `tail` bytes of a torn record.
func brdFile(r *hx.Rand, nrec, vacate, tail int) []byte {
	ensureEnv()
	f := append([]byte{}, brdFixture[:nrec*brdSz]...)
	if vacate >= 0 {
		for j := vacate * brdSz; j < (vacate+1)*brdSz; j++ {
			f[j] = 0
		}
	}
	if tail > 0 {
		f = append(f, r.Bytes(tail, []byte("xyz\x01\xff"))...)
	}
	return f
}

func newboardLine(r *hx.Rand) string {
	boardSeq++
	name := fmt.Sprintf("vb%c%06d", 'a'+byte(r.Intn(26)), boardSeq)
	img := boardImage(name, []byte("CPBL"), r.Bytes(1+r.Intn(20), printable))
	return fmt.Sprintf("newboard %s %s", hx.Hex(img[:boardIDLen]), hx.Hex(img))
}

func boardHistory(r *hx.Rand, nrec, vacate, tail, creates int) {
	do("reset-brd " + hx.Hex(brdFile(r, nrec, vacate, tail)))
	for c := 0; c < creates; c++ {
		do(newboardLine(r))
	}
	do("brd-dump")
}

func bottomHistory(r *hx.Rand, cnt, tail int, absent bool) {
	if absent {
		do("reset-bottom absent")
	} else {
		var f []byte
		for k := 0; k < cnt; k++ {
			f = append(f, dirImage(r)...)
		}
		if tail > 0 {
			f = append(f, dirImage(r)[:tail]...)
		}
		do("reset-bottom " + hx.Hex(f))
	}
	how := []string{"total", "general"}
	if r.Bool() {
		do("loadbottom") // the cached count right after the reload
	}
	do("coldread " + how[r.Intn(2)]) // first read of the board: the cold path
	do("loadbottom")
	do("coldread " + how[r.Intn(2)]) // warm
	do("loadbottom")
	if cnt <= 8 {
		do("bottom-dump")
	}
}

// generateCallers: smallest / boundary shapes first.
func generateCallers() {
	r := run.R
	thorough := run.Thorough()
	// 1. .DIR.bottom: every count around the legal maximum, cold then warm; the uint8 wrap of the count.
	counts := []int{5, 4, 0, 1, 2, 3, 6, 7, 256, 261}
	if thorough {
		counts = append(counts, 8, 9, 255, 257, 262, 300)
	}
	for _, c := range counts {
		bottomHistory(r, c, 0, false)
		bottomHistory(r, c, 1+r.Intn(dirSz-1), false)
		if thorough || c == 5 {
			for k := 0; k < 3; k++ {
				bottomHistory(r, c, r.Intn(2)*(1+r.Intn(dirSz-1)), false)
			}
		}
	}
	bottomHistory(r, 0, 0, true)

	// 2. .BRD: a board created while one slot is vacated, at every position class; then further boards (append).
	n0 := len(brdFixture) / brdSz
	sizes := []int{7, 4, 3, n0}
	if thorough {
		sizes = nil
		for n := 3; n <= n0; n++ {
			sizes = append(sizes, n)
		}
	}
	for _, nrec := range sizes {
		var slots []int
		if thorough {
			for v := 2; v < nrec; v++ {
				slots = append(slots, v)
			}
		} else {
			slots = []int{nrec / 2, 2, nrec - 2, nrec - 1}
		}
		seen := map[int]bool{}
		for _, v := range slots {
			if v < 2 || v >= nrec || seen[v] {
				continue
			}
			seen[v] = true
			boardHistory(r, nrec, v, 0, 1+r.Intn(3))
			boardHistory(r, nrec, v, 1+r.Intn(brdSz-1), 1+r.Intn(2))
		}
		boardHistory(r, nrec, -1, 0, 1+r.Intn(2))
		boardHistory(r, nrec, -1, 1+r.Intn(brdSz-1), 1+r.Intn(2))
	}
	// the full table: MAX_BOARD records, no vacated slot -> refused, file unchanged; one vacated -> reused
	full := append([]byte{}, brdFixture...)
	for k := n0; k < int(ptttype.MAX_BOARD); k++ {
		b := &ptttype.BoardHeaderRaw{Gid: classBid}
		copy(b.Brdname[:], fmt.Sprintf("zfill%04d", k))
		copy(b.Title[:], "CPBL \xa1\xb7filler")
		full = append(full, encode(b)...)
	}
	if len(full)/brdSz == int(ptttype.MAX_BOARD) && int(ptttype.MAX_BOARD) <= 200 {
		do("reset-brd " + hx.Hex(full))
		do(newboardLine(r))
		v := n0 + r.Intn(int(ptttype.MAX_BOARD)-n0)
		for j := v * brdSz; j < (v+1)*brdSz; j++ {
			full[j] = 0
		}
		do("reset-brd " + hx.Hex(full))
		do(newboardLine(r))
		do(newboardLine(r))
	}
}
