package main

import (
	"bytes"
	"fmt"
	"os"
	osexec "os/exec"

	"github.com/Ptt-official-app/go-pttbbs/cmsys"
	"verifharness/internal/hx"
)

// childMain: `c05 child <path> <kind> <heximage>` performs exactly one AppendRecord and exits.
// It is the process that the crash pass kills at a syscall boundary.
func childMain(args []string) {
	if len(args) != 3 {
		os.Exit(2)
	}
	img, ok := parseHex(args[2])
	sz, ok2 := kindStride(args[1])
	if !ok || !ok2 {
		os.Exit(2)
	}
	data, ok := mkData(args[1], img)
	if !ok {
		os.Exit(2)
	}
	if _, err := cmsys.AppendRecord(args[0], data, uintptr(sz)); err != nil {
		os.Exit(3)
	}
}

// crashPass: the crash clause at process-death granularity. A child appender is run under
// `strace -e inject=<syscall>:signal=SIGKILL:when=k` for the syscalls of AppendRecord
// (open, flock, lseek, lseek, write, flock, close); whatever point it dies at, the file must hold
// either the old records or the old records plus the whole new one, the count must ignore any tail,
// and the next append (run through the ordinary op path, so the model sees it too) must succeed.
// (A cut *inside* the write cannot be produced this way: that is the pre-seeded torn tails.)
func crashPass() {
	r := run.R
	self, err := os.Executable()
	if err != nil {
		panic(err)
	}
	if _, err := osexec.LookPath("strace"); err != nil {
		run.Note("strace not available: crash pass skipped")
		do("reset 128 absent")
		return
	}
	run.Rule = "crash pass: one child AppendRecord per (record kind, initial file with/without torn tail, syscall in {write,lseek,flock} x when=1..4, and for .DIR/.post every openat/close/fcntl of the process until it survives) " +
		"killed by strace signal injection; afterwards reset-to-observed-file, num, append, num through the ordinary op path"
	one := func(k kindT, sc string, when, shape int) (completed bool) {
		tail := 0
		if shape == 1 {
			tail = 1 + r.Intn(k.sz-1)
		}
		seed(r, k, r.Intn(3), tail, false)
		_, before := snapshot()
		img := image(r, k)
		cmd := osexec.Command("strace", "-f", "-o", "/dev/null", "-e", "trace="+sc,
			"-e", fmt.Sprintf("inject=%s:signal=SIGKILL:when=%d", sc, when), self, "child", path, k.name, hx.Hex(img))
		runErr := cmd.Run()
		_, after := snapshot()
		n := len(before) / k.sz
		state := "other"
		switch {
		case bytes.Equal(after, before):
			state = "unchanged"
		case len(img) == k.sz && bytes.Equal(after, append(append([]byte{}, before[:n*k.sz]...), img...)):
			state = "appended"
		}
		died := "completed"
		if runErr != nil {
			died = "killed"
		}
		// the observed file becomes the start of a history the model follows
		do(fmt.Sprintf("reset %d %s", k.sz, hx.Hex(after)))
		i := run.Op("num", numOut(), fmt.Sprintf("crash:%s:%s:%s", sc, died, state), true)
		if state == "other" {
			run.Fail(i, "crash:"+sc, fmt.Sprintf("child append of a %s record killed at %s #%d left a file that is neither the old one nor old+record: %d -> %d bytes",
				k.name, sc, when, len(before), len(after)))
		} else if died == "completed" && state != "appended" {
			run.Fail(i, "crash:"+sc, fmt.Sprintf("child append of a %s record completed but the record is not there", k.name))
		}
		do(fmt.Sprintf("append %s %s", k.name, hx.Hex(image(r, k))))
		do("num")
		return runErr == nil
	}
	for ki, k := range typedKinds() {
		for _, sc := range []string{"write", "lseek", "flock"} {
			for when := 1; when <= 4; when++ {
				for shape := 0; shape < 2; shape++ {
					one(k, sc, when, shape)
				}
			}
		}
		if ki == 0 || ki == 3 { // every open/close/fcntl of the process, start-up included, until the child survives
			for _, sc := range []string{"close", "openat", "fcntl"} {
				for when := 1; when <= 80; when++ {
					if one(k, sc, when, when%2) {
						break
					}
				}
			}
		}
	}
}

func numOut() string { out, _ := exec([]string{"num"}); return out }
