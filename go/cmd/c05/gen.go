package main

import (
	"bytes"
	"encoding/binary"
	"fmt"
	"strings"

	"github.com/Ptt-official-app/go-pttbbs/ptttype"
	"github.com/Ptt-official-app/go-pttbbs/types"
	"verifharness/internal/hx"
)

type kindT struct {
	name string
	sz   int
}

func typedKinds() []kindT {
	var ks []kindT
	for _, k := range []string{"dir", "brd", "pw", "post"} {
		sz, _ := kindStride(k)
		ks = append(ks, kindT{k, sz})
	}
	return ks
}

var int8Corners = []int8{0, 0, 1, -1, 2, 50, -50, 99, 100, -100, 101, 127, -128, -127}

func encode(v interface{}) []byte {
	var buf bytes.Buffer
	if err := binary.Write(&buf, binary.LittleEndian, v); err != nil {
		panic(err)
	}
	return buf.Bytes()
}

func decodeDir(rec []byte) *ptttype.FileHeaderRaw {
	fh := &ptttype.FileHeaderRaw{}
	_ = binary.Read(bytes.NewReader(rec), binary.LittleEndian, fh)
	return fh
}

var printable = []byte("abcdefghijklmnopqrstuvwxyzABCDEFGHIJKLMNOPQRSTUVWXYZ0123456789[]/. ")

// dirImage: a FileHeaderRaw with a realistic name and random other fields (pads included, so a
// dropped pad byte would show), encoded by encoding/binary.
func dirImage(r *hx.Rand) []byte {
	fh := &ptttype.FileHeaderRaw{}
	switch r.Intn(12) {
	case 0: // no NUL in the 28 bytes
		copy(fh.Filename[:], r.Bytes(len(fh.Filename), printable))
	case 1: // delete-marked
		copy(fh.Filename[:], fmt.Sprintf(".d%010d.A.%03X", 1000000000+r.Intn(1000000000), r.Intn(4096)))
	case 2: // garbage behind the terminating NUL
		copy(fh.Filename[:], r.Bytes(len(fh.Filename), printable))
		copy(fh.Filename[:], fmt.Sprintf("M.%010d.A.%03X", 1000000000+r.Intn(1000000000), r.Intn(4096)))
		fh.Filename[20] = 0
	default:
		copy(fh.Filename[:], fmt.Sprintf("%c.%010d.A.%03X", "MG"[r.Intn(2)], 1000000000+r.Intn(1000000000), r.Intn(4096)))
	}
	fh.Modified = types.Time4(int32(r.U64()))
	fh.Pad = byte(r.U64())
	if r.Bool() {
		fh.Recommend = int8Corners[r.Intn(len(int8Corners))]
	} else {
		fh.Recommend = int8(r.U64())
	}
	copy(fh.Owner[:], r.Bytes(1+r.Intn(12), printable))
	copy(fh.Date[:], fmt.Sprintf("%2d/%02d", 1+r.Intn(12), 1+r.Intn(28)))
	copy(fh.Title[:], r.Bytes(r.Intn(len(fh.Title)), printable))
	fh.Pad2 = byte(r.U64())
	copy(fh.Multi[:], r.Bytes(4, nil))
	fh.Filemode = ptttype.FileMode(r.U64())
	copy(fh.Pad3[:], r.Bytes(3, nil))
	return encode(fh)
}

// image: one record image of the kind, produced by the real encoder.
func image(r *hx.Rand, k kindT) []byte {
	switch k.name {
	case "dir":
		return dirImage(r)
	case "raw":
		if r.Intn(4) == 0 {
			return r.Bytes(k.sz, []byte{0, 0, 1, 0x2e, 0x64, 0xff})
		}
		return r.Bytes(k.sz, nil)
	}
	return canon(k.name, r.Bytes(packed(k.name), nil))
}

func fileLen() (bool, int) {
	p, b := snapshot()
	return p, len(b)
}

func count(sz int) int {
	_, n := fileLen()
	if sz <= 0 {
		return 0
	}
	return n / sz
}

// pickIdx: a 0-based store index from {-1, 0, 1, last, last+1, far, mid}.
func pickIdx(r *hx.Rand, cnt int) int {
	switch r.Intn(11) {
	case 0:
		return -1 - r.Intn(3)
	case 1, 2:
		return 0
	case 3:
		return 1
	case 4, 5:
		return cnt - 1
	case 6, 7:
		return cnt
	case 8:
		return cnt + 1 + r.Intn(8)
	}
	if cnt > 0 {
		return r.Intn(cnt)
	}
	return 0
}

func optHex(b []byte, isNil bool) string {
	if isNil {
		return "nil"
	}
	return hx.Hex(b)
}

// modifyLine builds a ModifyDirLite op against the current file.
func modifyLine(r *hx.Rand) string {
	_, b := snapshot()
	cnt := len(b) / dirSz
	var idx int
	switch r.Intn(12) {
	case 0:
		idx = 0
	case 1:
		idx = cnt + 1
	case 2:
		idx = cnt + 2 + r.Intn(5)
	case 3:
		idx = -1 - r.Intn(2)
	case 4, 5:
		idx = cnt
	case 6:
		idx = 1
	default:
		idx = 1 + r.Intn(cnt+1)
	}
	name := make([]byte, ptttype.FNLEN)
	inRange := idx >= 1 && idx <= cnt
	switch c := r.Intn(10); {
	case c < 6 && inRange: // the name the record carries
		copy(name, b[(idx-1)*dirSz:])
	case c < 7 && inRange: // the same C string, different bytes behind the NUL (still the same name)
		copy(name, b[(idx-1)*dirSz:])
		if z := bytes.IndexByte(name, 0); z >= 0 {
			for j := z + 1; j < len(name); j++ {
				name[j] = byte(r.U64())
			}
		}
	case c < 8 && cnt > 0: // the name of some (usually other) record: stale index
		j := r.Intn(cnt)
		copy(name, b[j*dirSz:])
	case c < 9 && inRange: // one byte off
		copy(name, b[(idx-1)*dirSz:])
		name[r.Intn(19)] ^= 1
	default:
		copy(name, fmt.Sprintf("M.%010d.A.%03X", 1000000000+r.Intn(1000000000), r.Intn(4096)))
	}
	mtime := int64(0)
	switch r.Intn(4) {
	case 0:
		mtime = int64(1 + r.Intn(1<<31-1))
	case 1:
		mtime = -int64(1 + r.Intn(1<<31-1))
	case 2:
		mtime = 1<<31 - 1
	}
	fld := func(n int) (string, bool) {
		switch r.Intn(4) {
		case 0:
			return "nil", true
		case 1: // first byte NUL: ignored by ModifyDirLite
			v := r.Bytes(n, printable)
			v[0] = 0
			return hx.Hex(v), false
		}
		v := make([]byte, n)
		copy(v, r.Bytes(1+r.Intn(n), printable))
		return hx.Hex(v), false
	}
	title, _ := fld(len(ptttype.Title_t{}))
	owner, _ := fld(len(ptttype.Owner_t{}))
	date, _ := fld(len(ptttype.Date_t{}))
	var rec int8
	if r.Intn(3) > 0 {
		rec = int8Corners[r.Intn(len(int8Corners))]
	} else {
		rec = int8(r.U64())
	}
	multi := "nil"
	switch r.Intn(6) {
	case 0:
		multi = "-"
	case 1:
		multi = hx.Hex(r.Bytes(2, nil))
	case 2:
		multi = hx.Hex(r.Bytes(4, nil))
	case 3:
		multi = hx.Hex(r.Bytes(6, nil))
	}
	modes := []int{0, 0, 1, 2, 0x80, 0xff, r.Intn(256)}
	return fmt.Sprintf("modify %d %s %d %s %s %s %d %s %d %d", idx, hx.Hex(name), mtime, title, owner, date, rec, multi,
		modes[r.Intn(len(modes))], modes[r.Intn(len(modes))])
}

func getLine(r *hx.Rand) string {
	_, b := snapshot()
	cnt := len(b) / dirSz
	starts := []int{1, 1, 2, cnt, cnt, cnt + 1, cnt - 1, cnt + 3 + r.Intn(4), 0, -2, 1 + r.Intn(cnt+1)}
	ns := []int{0, 1, 2, 3, cnt, cnt + 1, cnt + 5, 1000, 1 + r.Intn(cnt+2)}
	n := ns[r.Intn(len(ns))]
	if r.Intn(40) == 0 {
		n = -1 - r.Intn(3)
	}
	return fmt.Sprintf("get %d %d %s", starts[r.Intn(len(starts))], n, []string{"asc", "desc"}[r.Intn(2)])
}

// seed: `reset` to nrec complete records plus the first `tail` bytes of one more image.
func seed(r *hx.Rand, k kindT, nrec, tail int, absent bool) {
	if absent {
		do(fmt.Sprintf("reset %d absent", k.sz))
		return
	}
	var f []byte
	for i := 0; i < nrec; i++ {
		f = append(f, pad(image(r, k), k.sz)...)
	}
	if tail > 0 {
		f = append(f, pad(image(r, k), k.sz)[:tail]...)
	}
	do(fmt.Sprintf("reset %d %s", k.sz, hx.Hex(f)))
}

// pad: a pre-seeded record occupies a whole stride (only differs from the image if the packed
// size is not the stride, i.e. on a tree where that defect is present).
func pad(img []byte, sz int) []byte {
	if len(img) >= sz {
		return img[:sz]
	}
	return append(append([]byte{}, img...), make([]byte, sz-len(img))...)
}

func history(r *hx.Rand, k kindT, nrec, tail int, absent bool, nops int) {
	seed(r, k, nrec, tail, absent)
	isDir := k.sz == dirSz
	for j := 0; j < nops; j++ {
		c := r.Intn(100)
		switch {
		case c < 28:
			img := image(r, k)
			if k.name == "raw" && r.Intn(12) == 0 { // malformed: an image that is not one record long
				img = r.Bytes(r.Intn(2*k.sz+2), nil)
			}
			do(fmt.Sprintf("append %s %s", k.name, hx.Hex(img)))
		case c < 42:
			do(fmt.Sprintf("subst %s %d %s", k.name, pickIdx(r, count(k.sz)), hx.Hex(image(r, k))))
		case c < 54:
			do(fmt.Sprintf("delete %d", pickIdx(r, count(k.sz))))
		case c < 62:
			do("num")
		case c < 76 || (isDir && c < 82):
			do(getLine(r))
		case isDir || c < 84:
			do(modifyLine(r))
		default:
			do("num")
		}
	}
	do("num")
	if _, n := fileLen(); n <= 4096 || r.Intn(8) == 0 {
		do("dump")
	}
}

// tornTail: the crash clause. A file of nrec acknowledged records plus the first t bytes of an
// interrupted append: the count ignores the tail, the next append overwrites it, earlier records stay.
func tornTail(r *hx.Rand, k kindT, nrec, t int) {
	seed(r, k, nrec, t, false)
	do("num")
	do(fmt.Sprintf("append %s %s", k.name, hx.Hex(image(r, k))))
	do("num")
	if k.sz == dirSz {
		do(fmt.Sprintf("get 1 %d asc", nrec+2))
		do(fmt.Sprintf("get %d %d desc", nrec+1, nrec+2))
	}
	if r.Intn(4) == 0 {
		do(fmt.Sprintf("append %s %s", k.name, hx.Hex(image(r, k))))
		do("num")
	}
	do("dump")
}

var malformed = []string{
	"reset 0 00", "num", "append raw 00", "subst raw 0 0102", "delete 0", "num", "dump",
	"reset 0 absent", "num", "append raw 01", "dump",
	"reset 4 01020304", "append raw -", "subst raw 5 -", "dump", "delete -1", "subst raw -1 01020304", "dump",
	"reset 4 absent", "delete -1", "dump", "subst raw -2 00", "num",
	"reset 128 absent", "get 1 -1 asc", "get 0 1 asc", "get 1 1 desc", "num", "modify 1 " + strings.Repeat("00", 28) + " 0 nil nil nil 0 nil 0 0",
	"modify 0 " + strings.Repeat("00", 28) + " 0 nil nil nil 0 nil 0 0", "modify -1 " + strings.Repeat("00", 28) + " 0 nil nil nil 0 nil 0 0", "dump",
	"reset 128 " + strings.Repeat("00", 128), "get 1 -1 asc", "get 1 -1 desc", "get -5 1 asc",
	"modify 1 " + strings.Repeat("00", 28) + " 5 nil nil nil 127 nil 255 255", "dump",
	"modify 0 " + strings.Repeat("00", 28) + " 0 nil nil nil 0 nil 0 0", "modify -1 " + strings.Repeat("00", 28) + " 0 nil nil nil 0 nil 0 0",
	"append dir 00", "append foo 00", "append raw 0", "append raw zz", "subst raw x 00", "subst raw 2147483648 00", "subst raw -2147483649 00",
	"delete", "delete 99999999999999999999", "delete 1 2", "get 1 1 sideways", "get 1 1000001 asc", "get 1 asc", "reset x 00", "reset 4 0",
	"reset -4 00", "reset 4", "xyzzy", "dump 1", "num 1", "modify 1 00 0 nil nil nil 0 nil 0 0",
	"modify 1 " + strings.Repeat("00", 28) + " 0 00 nil nil 0 nil 0 0", "modify 1 " + strings.Repeat("00", 28) + " 0 nil nil nil 128 nil 0 0",
	"modify 1 " + strings.Repeat("00", 28) + " 0 nil nil nil 0 nil 256 0", "modify 1 " + strings.Repeat("00", 28) + " 2147483648 nil nil nil 0 nil 0 0",
	"modify 1 " + strings.Repeat("00", 28) + " 0 nil nil nil 0 nil 0", "append post 00", "subst pw 0 00", "append brd -",
}

func generate() {
	r := run.R
	kinds := typedKinds()
	thorough := run.Thorough()

	// 1. the PostLog log: a run of appends to .post through the real encoder (c0b4139).
	post := kinds[3]
	seed(r, post, 0, 0, true)
	for i := 0; i < 6; i++ {
		do(fmt.Sprintf("append post %s", hx.Hex(image(r, post))))
		do("num")
	}
	do("dump")

	// 2. the crash clause: every torn-tail length.
	for _, k := range kinds {
		var tails []int
		if thorough || k.sz <= 128 {
			for t := 1; t < k.sz; t++ {
				tails = append(tails, t)
			}
		} else {
			tails = []int{1, 2, 3, k.sz / 2, k.sz - 2, k.sz - 1}
			for i := 0; i < 10; i++ {
				tails = append(tails, 1+r.Intn(k.sz-1))
			}
		}
		for _, t := range tails {
			tornTail(r, k, r.Intn(3), t)
		}
	}
	for sz := 1; sz <= 6; sz++ { // raw strides: every tail length, every small record count
		for n := 0; n <= 2; n++ {
			for t := 1; t < sz; t++ {
				tornTail(r, kindT{"raw", sz}, n, t)
			}
		}
	}

	// 3. small shapes first (so that a first failure is minimal): every op at every index class on 0..2 records.
	for _, k := range append([]kindT{{"raw", 2}, {"raw", 3}}, kinds...) {
		for nrec := 0; nrec <= 2; nrec++ {
			for idx := -1; idx <= nrec+2; idx++ {
				seed(r, k, nrec, 0, false)
				do(fmt.Sprintf("subst %s %d %s", k.name, idx, hx.Hex(image(r, k))))
				do("dump")
				seed(r, k, nrec, 0, false)
				do(fmt.Sprintf("delete %d", idx))
				do("dump")
			}
		}
	}
	for nrec := 0; nrec <= 3; nrec++ {
		for start := 0; start <= nrec+2; start++ {
			seed(r, kinds[0], nrec, r.Intn(2)*r.Intn(dirSz), false)
			for n := 0; n <= nrec+1; n++ {
				do(fmt.Sprintf("get %d %d asc", start, n))
				do(fmt.Sprintf("get %d %d desc", start, n))
			}
		}
	}

	// small ModifyDirLite shapes: 1..2 records; matching pair, the other record's name, a fresh name, index beyond.
	z28 := strings.Repeat("00", 28)
	for nrec := 1; nrec <= 2; nrec++ {
		for idx := 0; idx <= nrec+1; idx++ {
			for variant := 0; variant < 3; variant++ {
				seed(r, kinds[0], nrec, 0, false)
				_, b := snapshot()
				name := z28
				switch {
				case variant == 0 && idx >= 1 && idx <= nrec:
					name = hx.Hex(b[(idx-1)*dirSz : (idx-1)*dirSz+28])
				case variant == 1:
					j := idx % nrec // another record's name (the same one when there is only one)
					name = hx.Hex(b[j*dirSz : j*dirSz+28])
				default:
					name = hx.Hex([]byte(fmt.Sprintf("M.%010d.A.%03X\x00\x00\x00\x00\x00\x00\x00\x00\x00\x00", 1000000000+r.Intn(1000000000), r.Intn(4096))))
				}
				do(fmt.Sprintf("modify %d %s %d nil nil nil %d nil %d 0", idx, name, 1+r.Intn(1000), int8Corners[r.Intn(len(int8Corners))], r.Intn(2)))
				do("dump")
			}
		}
	}

	// the callers layer: ptt.NewBoard on a .BRD with a vacated slot, .DIR.bottom behind the board cache.
	generateCallers()
	// the request layer: names looked up, confirmed, then modified / delete-marked (absent names next to present ones).
	generateRequests()
	// the .PASSWDS accessors of cmbbs at the uid boundaries.
	generatePasswd()

	// 4. random histories.
	nh, maxOps := 600, 28
	if thorough {
		nh, maxOps = 12000, 60
	}
	rawStrides := []int{1, 2, 3, 4, 5, 7, 8, 16, 128}
	for h := 0; h < nh; h++ {
		var k kindT
		switch c := r.Intn(10); {
		case c < 4:
			k = kinds[0]
		case c < 5:
			k = kinds[1]
		case c < 6:
			k = kinds[2]
		case c < 7:
			k = kinds[3]
		default:
			k = kindT{"raw", rawStrides[r.Intn(len(rawStrides))]}
		}
		nrec := r.Intn(6)
		tail := 0
		if r.Intn(3) == 0 && k.sz > 1 {
			tail = 1 + r.Intn(k.sz-1)
		}
		history(r, k, nrec, tail, r.Intn(12) == 0, 4+r.Intn(maxOps))
	}

	// 5. malformed stream.
	for _, l := range malformed {
		do(l)
	}
	junk := []string{"append", "subst", "delete", "get", "modify", "reset", "raw", "dir", "post", "nil", "-", "0", "1", "-1", "zz", "0x10", "1e3", "+1", "asc", "desc", "00", "absent", "4"}
	nj := 150
	if thorough {
		nj = 3000
	}
	for i := 0; i < nj; i++ {
		n := 1 + r.Intn(5)
		ws := make([]string, n)
		for j := range ws {
			ws[j] = junk[r.Intn(len(junk))]
		}
		do(strings.Join(ws, " "))
	}
}
