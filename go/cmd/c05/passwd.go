package main

// The .PASSWDS accessors of cmbbs (PasswdUpdate, PasswdUpdatePasswd, PasswdUpdateEmail, PasswdQuery,
// PasswdQueryPasswd, PasswdQueryUserLevel): substitute-at-index / read-at-index for the user file.
// They do not look at the file length; the uid guard is all that keeps a write inside the file. Driven at the
// uid boundaries ≤0, 1, 2, MAX_USERS-1, MAX_USERS, MAX_USERS+1, MAX_USERS+2, far.
// P̂: a uid outside 1..MAX_USERS is refused and changes neither a byte nor the length of .PASSWDS; an accepted
// write changes only bytes of record uid-1 (the addressed field) and never the length of a full file.

import (
	"bytes"
	"encoding/binary"
	"errors"
	"fmt"
	"os"
	"unsafe"

	"github.com/Ptt-official-app/go-pttbbs/cache"
	"github.com/Ptt-official-app/go-pttbbs/cmbbs"
	"github.com/Ptt-official-app/go-pttbbs/ptttype"
	"verifharness/internal/hx"
)

const pwSz = int(ptttype.USEREC_RAW_SZ)

var (
	pwFixture []byte
	pwDirty   bool
)

func isPasswdOp(op string) bool { return op == "reset-pw" || op == "pw" || op == "pwq" }

func pwPath() string { return env.Path(".PASSWDS") }

func pwErr(err error) string {
	switch {
	case err == nil:
		return "ok"
	case errors.Is(err, cache.ErrInvalidUID), errors.Is(err, ptttype.ErrInvalidUserID):
		return "invalid-idx"
	}
	return "err"
}

// restorePasswd puts the fixture's user file back (the other layers log users in through it).
func restorePasswd() {
	if env != nil && pwDirty {
		_ = os.WriteFile(pwPath(), pwFixture, 0o600)
		pwDirty = false
	}
}

func doPasswd(line string, ws []string) string {
	bad := func() string { run.Op(line, "bad-op", "bad-op", false); return "bad-op" }
	fail := func(i int, key, f string, a ...interface{}) {
		run.Fail(i, key, fmt.Sprintf(f, a...)+" | op: "+trunc(line, 80))
	}
	ensureEnv()
	if pwFixture == nil {
		pwFixture, _ = os.ReadFile(pwPath())
	}
	const maxUsers = int64(ptttype.MAX_USERS)
	uidClass := func(u int64) string {
		switch {
		case u <= 0:
			return "uid<=0"
		case u == 1:
			return "uid=1"
		case u == maxUsers:
			return "uid=MAX"
		case u == maxUsers+1:
			return "uid=MAX+1"
		case u == maxUsers+2:
			return "uid=MAX+2"
		case u > maxUsers:
			return "uid>MAX+2"
		}
		return "uid=mid"
	}
	switch {
	case ws[0] == "reset-pw" && len(ws) == 2:
		pwDirty = true
		if ws[1] == "absent" {
			_ = os.Remove(pwPath())
			run.Op(line, "ok", "reset-pw:absent", false)
			return "ok"
		}
		b, ok := parseHex(ws[1])
		if !ok {
			return bad()
		}
		if err := os.WriteFile(pwPath(), b, 0o600); err != nil {
			panic(err)
		}
		lab := "reset-pw:short"
		switch {
		case len(b) == int(maxUsers)*pwSz:
			lab = "reset-pw:full"
		case len(b)%pwSz != 0:
			lab = "reset-pw:torn"
		}
		run.Op(line, "ok", lab, false)
		return "ok"

	case ws[0] == "pw" && len(ws) == 4:
		uid, ok := parseInt(ws[2], -1<<31, 1<<31-1)
		bs, ok2 := parseHex(ws[3])
		if !ok || !ok2 {
			return bad()
		}
		var off int
		switch ws[1] {
		case "update":
			off = 0
			if len(bs) != packed("pw") {
				return bad()
			}
		case "passwd":
			off = int(unsafe.Offsetof(ptttype.USEREC_RAW.PasswdHash))
			if len(bs) != len(ptttype.Passwd_t{}) {
				return bad()
			}
		case "email":
			off = int(unsafe.Offsetof(ptttype.USEREC_RAW.Email))
			if len(bs) != len(ptttype.Email_t{}) {
				return bad()
			}
		default:
			return bad()
		}
		pwDirty = true
		pb, before := readOpt(pwPath())
		res := hx.CallSync(func() string {
			switch ws[1] {
			case "update":
				u := &ptttype.UserecRaw{}
				_ = binary.Read(bytes.NewReader(bs), binary.LittleEndian, u)
				return pwErr(cmbbs.PasswdUpdate(ptttype.UID(uid), u))
			case "passwd":
				h := &ptttype.Passwd_t{}
				copy(h[:], bs)
				return pwErr(cmbbs.PasswdUpdatePasswd(ptttype.UID(uid), h))
			}
			e := &ptttype.Email_t{}
			copy(e[:], bs)
			return pwErr(cmbbs.PasswdUpdateEmail(ptttype.UID(uid), e))
		})
		pa, after := readOpt(pwPath())
		i := run.Op(line, res+" "+stateStr(pa, after), "pw:"+ws[1]+":"+uidClass(uid)+":"+res, true)
		legal := uid >= 1 && uid <= maxUsers
		switch {
		case res == "PANIC" || res == "TIMEOUT":
			fail(i, "passwd:frame", "%s %s", res, hx.LastPanic)
		case !legal:
			// a uid that names no user record: refused, and nothing — no byte, not the length — changes
			if res == "ok" || pa != pb || !bytes.Equal(before, after) {
				fail(i, "passwd:refused-uid", "uid %d (valid uids are 1..%d): returned %s, .PASSWDS %d -> %d bytes, changed=%v",
					uid, maxUsers, res, len(before), len(after), !bytes.Equal(before, after))
			}
		case pb:
			lo, hi := (uid-1)*int64(pwSz), uid*int64(pwSz)
			if res != "ok" {
				fail(i, "passwd:frame", "valid uid %d refused: %s", uid, res)
			} else if d := firstDiffOutside(before, after, lo, hi); d >= 0 {
				fail(i, "passwd:frame", "uid %d: byte %d (record %d) changed", uid, d, d/pwSz)
			} else if int64(len(before)) >= hi && len(after) != len(before) {
				fail(i, "passwd:frame", "uid %d: .PASSWDS length %d -> %d", uid, len(before), len(after))
			} else if o := lo + int64(off); int64(len(after)) < o+int64(len(bs)) || !bytes.Equal(after[o:o+int64(len(bs))], bs) {
				fail(i, "passwd:frame", "uid %d: the field at offset %d does not hold the written bytes", uid, off)
			} else {
				for j := lo; j < hi && j < int64(len(before)); j++ { // the rest of the record keeps its bytes
					if (j < o || j >= o+int64(len(bs))) && after[j] != before[j] {
						fail(i, "passwd:frame", "uid %d: byte %d of the record outside the written field changed", uid, j-lo)
						break
					}
				}
			}
		}
		return res

	case ws[0] == "pwq" && len(ws) == 3:
		uid, ok := parseInt(ws[2], -1<<31, 1<<31-1)
		if !ok || (ws[1] != "whole" && ws[1] != "passwd" && ws[1] != "level") {
			return bad()
		}
		pb, before := readOpt(pwPath())
		var off, ln int
		res := hx.CallSync(func() string {
			var out []byte
			var err error
			switch ws[1] {
			case "whole":
				var u *ptttype.UserecRaw
				u, err = cmbbs.PasswdQuery(ptttype.UID(uid))
				if err == nil {
					out = encode(u)
				}
				off, ln = 0, packed("pw")
			case "passwd":
				var h *ptttype.Passwd_t
				h, err = cmbbs.PasswdQueryPasswd(ptttype.UID(uid))
				if err == nil {
					out = h[:]
				}
				off, ln = int(unsafe.Offsetof(ptttype.USEREC_RAW.PasswdHash)), len(ptttype.Passwd_t{})
			default:
				var lv ptttype.PERM
				lv, err = cmbbs.PasswdQueryUserLevel(ptttype.UID(uid))
				if err == nil {
					out = encode(lv)
				}
				off, ln = int(unsafe.Offsetof(ptttype.USEREC_RAW.UserLevel)), 4
			}
			if err != nil {
				return pwErr(err) + " 0"
			}
			return fmt.Sprintf("ok 1 %d=%s", uid, hx.Hex(out))
		})
		pa, after := readOpt(pwPath())
		i := run.Op(line, res, "pwq:"+ws[1]+":"+uidClass(uid)+":"+res[:2], true)
		legal := uid >= 1 && uid <= maxUsers
		switch {
		case pa != pb || !bytes.Equal(before, after):
			fail(i, "passwd:frame", "a query changed .PASSWDS")
		case !legal && res != "invalid-idx 0":
			fail(i, "passwd:refused-uid", "query of uid %d (valid uids are 1..%d) answered %s", uid, maxUsers, trunc(res, 40))
		case legal && pb && int64(len(before)) >= (uid-1)*int64(pwSz)+int64(off+ln):
			o := (uid-1)*int64(pwSz) + int64(off)
			want := before[o : o+int64(ln)]
			if ws[1] == "whole" {
				want = canon("pw", want) // bool fields read back as 0/1
			}
			if res != fmt.Sprintf("ok 1 %d=%s", uid, hx.Hex(want)) {
				fail(i, "passwd:frame", "query %s of uid %d does not return the bytes of its record", ws[1], uid)
			}
		}
		return res
	}
	return bad()
}

// generatePasswd: every accessor at every uid boundary, on a full user file (MAX_USERS records), on shorter
// and torn ones, and on a missing one.
func generatePasswd() {
	r := run.R
	ensureEnv()
	maxUsers := int(ptttype.MAX_USERS)
	k := kindT{"pw", pwSz}
	file := func(nrec, tail int) []byte {
		var f []byte
		for j := 0; j < nrec; j++ {
			f = append(f, image(r, k)...)
		}
		if tail > 0 {
			f = append(f, image(r, k)[:tail]...)
		}
		return f
	}
	uids := []int{maxUsers + 1, maxUsers, 0, 1, -1, 2, maxUsers - 1, maxUsers + 2, maxUsers + 3 + r.Intn(1000), 1 + r.Intn(maxUsers), -5 - r.Intn(100), 1 << 30}
	pass := func(f []byte, absent bool, us []int) {
		if absent {
			do("reset-pw absent")
		} else {
			do("reset-pw " + hx.Hex(f))
		}
		for _, u := range us {
			switch r.Intn(3) {
			case 0:
				do(fmt.Sprintf("pw update %d %s", u, hx.Hex(image(r, k))))
			case 1:
				do(fmt.Sprintf("pw passwd %d %s", u, hx.Hex(r.Bytes(len(ptttype.Passwd_t{}), printable))))
			default:
				do(fmt.Sprintf("pw email %d %s", u, hx.Hex(r.Bytes(len(ptttype.Email_t{}), printable))))
			}
			do(fmt.Sprintf("pwq %s %d", []string{"whole", "passwd", "level"}[r.Intn(3)], u))
		}
	}
	full := file(maxUsers, 0)
	// all three writers and all three readers at each boundary uid on the full file
	do("reset-pw " + hx.Hex(full))
	for _, u := range uids {
		do(fmt.Sprintf("pw update %d %s", u, hx.Hex(image(r, k))))
		do(fmt.Sprintf("pw passwd %d %s", u, hx.Hex(r.Bytes(len(ptttype.Passwd_t{}), printable))))
		do(fmt.Sprintf("pw email %d %s", u, hx.Hex(r.Bytes(len(ptttype.Email_t{}), printable))))
		for _, q := range []string{"whole", "passwd", "level"} {
			do(fmt.Sprintf("pwq %s %d", q, u))
		}
	}
	n := 3
	if run.Thorough() {
		n = 40
	}
	for h := 0; h < n; h++ {
		pass(file(maxUsers, 0), false, uids)
	}
	pass(file(maxUsers, 1+r.Intn(pwSz-1)), false, uids) // torn tail behind the last user
	pass(file(3, 0), false, []int{1, 3, 4, 5, maxUsers, maxUsers + 1, 0})
	pass(file(2, 1+r.Intn(pwSz-1)), false, []int{2, 3, maxUsers + 1})
	pass(nil, true, []int{1, maxUsers, maxUsers + 1, 0})
	restorePasswd()
}
