package main

// The .PASSWDS accessors of cmbbs (PasswdUpdate, PasswdUpdatePasswd, PasswdUpdateEmail, PasswdQuery,
// PasswdQueryPasswd, PasswdQueryUserLevel): substitute-at-index / read-at-index for the user file.
// They do not look at the file length; the uid guard is all that keeps a write inside the file. Driven at the
// uid boundaries ≤0, 1, 2, MAX_USERS-1, MAX_USERS, MAX_USERS+1, MAX_USERS+2, far.
// P̂: a uid outside 1..MAX_USERS is refused and changes neither a byte nor the length of .PASSWDS; an accepted
// write changes only bytes of record uid-1 (the addressed field) and never the length of a full file.

import (
	"bytes"
	"encoding/binary"
	"errors"
	"fmt"
	"os"
	"strings"
	"sync"
	"time"
	"unsafe"

	"github.com/Ptt-official-app/go-pttbbs/cache"
	"github.com/Ptt-official-app/go-pttbbs/cmbbs"
	"github.com/Ptt-official-app/go-pttbbs/ptt"
	"github.com/Ptt-official-app/go-pttbbs/ptttype"
	"verifharness/internal/hx"
)

const pwSz = int(ptttype.USEREC_RAW_SZ)

var (
	pwFixture []byte
	pwDirty   bool
)

func isPasswdOp(op string) bool {
	return op == "reset-pw" || op == "pw" || op == "pwq" || op == "pwcu" || op == "pw-money" || op == "pw-store"
}

var (
	offMoney  = int(unsafe.Offsetof(ptttype.USEREC_RAW.Money))
	offUserID = int(unsafe.Offsetof(ptttype.USEREC_RAW.UserID))
	lenUserID = len(ptttype.UserID_t{})
)

func le32(v int32) []byte {
	b := make([]byte, 4)
	binary.LittleEndian.PutUint32(b, uint32(v))
	return b
}

func pwPath() string { return env.Path(".PASSWDS") }

func pwErr(err error) string {
	switch {
	case err == nil:
		return "ok"
	case errors.Is(err, cache.ErrInvalidUID), errors.Is(err, ptttype.ErrInvalidUserID):
		return "invalid-idx"
	}
	return "err"
}

// restorePasswd puts the fixture's user file back (the other layers log users in through it).
func restorePasswd() {
	if env != nil && pwDirty {
		_ = os.WriteFile(pwPath(), pwFixture, 0o600)
		pwDirty = false
	}
}

func doPasswd(line string, ws []string) string {
	bad := func() string { run.Op(line, "bad-op", "bad-op", false); return "bad-op" }
	fail := func(i int, key, f string, a ...interface{}) {
		run.Fail(i, key, fmt.Sprintf(f, a...)+" | op: "+trunc(line, 80))
	}
	ensureEnv()
	if pwFixture == nil {
		pwFixture, _ = os.ReadFile(pwPath())
	}
	const maxUsers = int64(ptttype.MAX_USERS)
	uidClass := func(u int64) string {
		switch {
		case u <= 0:
			return "uid<=0"
		case u == 1:
			return "uid=1"
		case u == maxUsers:
			return "uid=MAX"
		case u == maxUsers+1:
			return "uid=MAX+1"
		case u == maxUsers+2:
			return "uid=MAX+2"
		case u > maxUsers:
			return "uid>MAX+2"
		}
		return "uid=mid"
	}
	switch {
	case ws[0] == "reset-pw" && len(ws) == 2:
		pwDirty = true
		if ws[1] == "absent" {
			_ = os.Remove(pwPath())
			run.Op(line, "ok", "reset-pw:absent", false)
			return "ok"
		}
		b, ok := parseHex(ws[1])
		if !ok {
			return bad()
		}
		if err := os.WriteFile(pwPath(), b, 0o600); err != nil {
			panic(err)
		}
		lab := "reset-pw:short"
		switch {
		case len(b) == int(maxUsers)*pwSz:
			lab = "reset-pw:full"
		case len(b)%pwSz != 0:
			lab = "reset-pw:torn"
		}
		run.Op(line, "ok", lab, false)
		return "ok"

	case ws[0] == "pw" && len(ws) == 4:
		uid, ok := parseInt(ws[2], -1<<31, 1<<31-1)
		bs, ok2 := parseHex(ws[3])
		if !ok || !ok2 {
			return bad()
		}
		var off int
		switch ws[1] {
		case "update":
			off = 0
			if len(bs) != packed("pw") {
				return bad()
			}
		case "passwd":
			off = int(unsafe.Offsetof(ptttype.USEREC_RAW.PasswdHash))
			if len(bs) != len(ptttype.Passwd_t{}) {
				return bad()
			}
		case "email":
			off = int(unsafe.Offsetof(ptttype.USEREC_RAW.Email))
			if len(bs) != len(ptttype.Email_t{}) {
				return bad()
			}
		default:
			return bad()
		}
		pwDirty = true
		pb, before := readOpt(pwPath())
		res := hx.CallSync(func() string {
			switch ws[1] {
			case "update":
				u := &ptttype.UserecRaw{}
				_ = binary.Read(bytes.NewReader(bs), binary.LittleEndian, u)
				return pwErr(cmbbs.PasswdUpdate(ptttype.UID(uid), u))
			case "passwd":
				h := &ptttype.Passwd_t{}
				copy(h[:], bs)
				return pwErr(cmbbs.PasswdUpdatePasswd(ptttype.UID(uid), h))
			}
			e := &ptttype.Email_t{}
			copy(e[:], bs)
			return pwErr(cmbbs.PasswdUpdateEmail(ptttype.UID(uid), e))
		})
		pa, after := readOpt(pwPath())
		i := run.Op(line, res+" "+stateStr(pa, after), "pw:"+ws[1]+":"+uidClass(uid)+":"+res, true)
		legal := uid >= 1 && uid <= maxUsers
		switch {
		case res == "PANIC" || res == "TIMEOUT":
			fail(i, "passwd:frame", "%s %s", res, hx.LastPanic)
		case !legal:
			// a uid that names no user record: refused, and nothing — no byte, not the length — changes
			if res == "ok" || pa != pb || !bytes.Equal(before, after) {
				fail(i, "passwd:refused-uid", "uid %d (valid uids are 1..%d): returned %s, .PASSWDS %d -> %d bytes, changed=%v",
					uid, maxUsers, res, len(before), len(after), !bytes.Equal(before, after))
			}
		case pb:
			lo, hi := (uid-1)*int64(pwSz), uid*int64(pwSz)
			if res != "ok" {
				fail(i, "passwd:frame", "valid uid %d refused: %s", uid, res)
			} else if d := firstDiffOutside(before, after, lo, hi); d >= 0 {
				fail(i, "passwd:frame", "uid %d: byte %d (record %d) changed", uid, d, d/pwSz)
			} else if int64(len(before)) >= hi && len(after) != len(before) {
				fail(i, "passwd:frame", "uid %d: .PASSWDS length %d -> %d", uid, len(before), len(after))
			} else if o := lo + int64(off); int64(len(after)) < o+int64(len(bs)) || !bytes.Equal(after[o:o+int64(len(bs))], bs) {
				fail(i, "passwd:frame", "uid %d: the field at offset %d does not hold the written bytes", uid, off)
			} else {
				for j := lo; j < hi && j < int64(len(before)); j++ { // the rest of the record keeps its bytes
					if (j < o || j >= o+int64(len(bs))) && after[j] != before[j] {
						fail(i, "passwd:frame", "uid %d: byte %d of the record outside the written field changed", uid, j-lo)
						break
					}
				}
			}
		}
		return res

	case ws[0] == "pwcu" && len(ws) == 4:
		// a session holding the pair (uid, user-id) does a read-modify-write of its record:
		// ptt.NewBoard -> groupOp -> pwcuBitEnableLevel -> pwcuStart … pwcuEnd (the board name is invalid, so
		// nothing else happens). The record is written back with Money taken from the SHM cache.
		uid, ok := parseInt(ws[1], -1<<31, 1<<31-1)
		nm, ok2 := parseHex(ws[2])
		_, ok3 := parseInt(ws[3], -1<<31, 1<<31-1)
		if !ok || !ok2 || !ok3 || len(nm) != lenUserID {
			return bad()
		}
		pwDirty = true
		pb, before := readOpt(pwPath())
		shm := int32(0)
		if uid >= 1 && uid <= maxUsers {
			shm = cache.MoneyOf(ptttype.UID(uid))
		}
		res := hx.CallT(8*time.Second, func() string {
			u := &ptttype.UserecRaw{UserLevel: ptttype.PERM_BASIC | ptttype.PERM_LOGINOK | ptttype.PERM_BOARD}
			copy(u.UserID[:], nm)
			_, _ = ptt.NewBoard(u, ptttype.UID(uid), classBid, &ptttype.BoardID_t{}, []byte("CPBL"), []byte("x"), nil, 0, 0, 0, false)
			return "done"
		})
		pa, after := readOpt(pwPath())
		opLine := fmt.Sprintf("pwcu %d %s %d", uid, ws[2], shm)
		stale := "match"
		legal := uid >= 1 && uid <= maxUsers
		lo, hi := (uid-1)*int64(pwSz), uid*int64(pwSz)
		switch {
		case !legal:
			stale = "stale:uid"
		case !pb || int64(len(before)) < hi:
			stale = "stale:no-record"
		case !bytes.Equal(cstr(before[lo+int64(offUserID):lo+int64(offUserID+lenUserID)]), cstr(nm)):
			stale = "stale:other-id"
			if bytes.EqualFold(cstr(before[lo+int64(offUserID):lo+int64(offUserID+lenUserID)]), cstr(nm)) {
				stale = "stale:case-variant"
			}
		}
		out := stateStr(pa, after)
		if res != "done" {
			out = res
		}
		i := run.Op(opLine, out, "pwcu:"+stale+":"+uidClass(uid), true)
		switch {
		case res != "done":
			run.Fail(i, "passwd:stale-pair", res+" "+hx.LastPanic+" | op: "+trunc(opLine, 80))
		case stale != "match":
			if pa != pb || !bytes.Equal(before, after) {
				run.Fail(i, "passwd:stale-pair", fmt.Sprintf("a session modify with the pair (uid %d, %q) — %s: slot %d holds %q — was not refused: .PASSWDS changed (first differing byte %d) | op: %s",
					uid, cstr(nm), stale, uid, func() []byte {
						if legal && pb && int64(len(before)) >= hi {
							return cstr(before[lo+int64(offUserID) : lo+int64(offUserID+lenUserID)])
						}
						return nil
					}(), firstDiffOutside(before, after, 0, 0), trunc(opLine, 80)))
			}
		default:
			if d := firstDiffOutside(before, after, lo, hi); d >= 0 || len(after) != len(before) {
				run.Fail(i, "passwd:frame", fmt.Sprintf("session modify of uid %d changed byte %d outside its record / length %d -> %d | op: %s", uid, d, len(before), len(after), trunc(opLine, 80)))
			} else if !bytes.Equal(before[lo:lo+int64(offMoney)], after[lo:lo+int64(offMoney)]) {
				run.Fail(i, "passwd:frame", fmt.Sprintf("session modify of uid %d changed bytes in front of the money field (user id, password, level …) | op: %s", uid, trunc(opLine, 80)))
			}
		}
		return out

	case ws[0] == "pw-store" && len(ws) == 4:
		// a holder loads the record; the Money field is modified in place and acknowledged; the holder stores
		// its EARLIER copy (ptt.SetUserPerm -> passwdSyncUpdate -> cmbbs.PasswdUpdate)
		uid, ok := parseInt(ws[1], -1<<31, 1<<31-1)
		money, ok2 := parseInt(ws[2], -1<<31, 1<<31-1)
		perm, ok3 := parseInt(ws[3], 0, 1<<32-1)
		if !ok || !ok2 || !ok3 {
			return bad()
		}
		pwDirty = true
		pb, before := readOpt(pwPath())
		loaded, acked, stored := false, false, false
		res := hx.CallT(8*time.Second, func() string {
			copyOfRecord, err := ptt.InitCurrentUserByUID(ptttype.UID(uid))
			loaded = err == nil
			_, err = cache.SetUMoney(ptttype.UID(uid), int32(money))
			acked = err == nil
			if loaded {
				_, err = ptt.SetUserPerm(opUser, ptttype.UID(uid), copyOfRecord, ptttype.PERM(perm))
				stored = err == nil
			}
			return "done"
		})
		pa, after := readOpt(pwPath())
		out := stateStr(pa, after)
		if res != "done" {
			out = res
		}
		i := run.Op(line, out, fmt.Sprintf("pw-store:%s:loaded=%v:acked=%v:stored=%v", uidClass(uid), loaded, acked, stored), true)
		lo, hi := (uid-1)*int64(pwSz), uid*int64(pwSz)
		switch {
		case res != "done":
			fail(i, "passwd:lost-field-update", "%s %s", res, hx.LastPanic)
		case !(uid >= 1 && uid <= maxUsers):
			if pa != pb || !bytes.Equal(before, after) {
				fail(i, "passwd:refused-uid", "uid %d: .PASSWDS changed", uid)
			}
		case loaded && acked && stored && pb && int64(len(before)) >= hi:
			offLevel := int64(unsafe.Offsetof(ptttype.USEREC_RAW.UserLevel))
			want := append([]byte{}, before...)
			copy(want[lo+int64(offMoney):], le32(int32(money))) // the acknowledged in-place modify survives the store
			copy(want[lo+offLevel:], le32(int32(uint32(perm)))) // the store's own change
			if !bytes.Equal(after, want) {
				d := firstDiffOutside(want, after, 0, 0)
				what := "another byte"
				if int64(d) >= lo+int64(offMoney) && int64(d) < lo+int64(offMoney)+4 {
					what = fmt.Sprintf("the Money field: it holds %d, the value before the acknowledged update was %d", int32(binary.LittleEndian.Uint32(after[lo+int64(offMoney):])), int32(binary.LittleEndian.Uint32(before[lo+int64(offMoney):])))
				}
				fail(i, "passwd:lost-field-update", "uid %d: record loaded, money set to %d in place (acknowledged), then the earlier copy stored with level %#x: byte %d differs from the expected file (%s)",
					uid, money, perm, d, what)
			}
		}
		return out

	case ws[0] == "pw-money" && len(ws) == 2:
		// concurrent single-field updates of different users through cache.SetUMoney / DeUMoney
		type upd struct{ uid, val int64 }
		var us []upd
		for _, p := range strings.Split(ws[1], ",") {
			kv := strings.Split(p, "=")
			if len(kv) != 2 {
				return bad()
			}
			u, ok := parseInt(kv[0], -1<<31, 1<<31-1)
			v, ok2 := parseInt(kv[1], -1<<31, 1<<31-1)
			if !ok || !ok2 {
				return bad()
			}
			us = append(us, upd{u, v})
		}
		pwDirty = true
		pb, before := readOpt(pwPath())
		res := hx.CallT(30*time.Second, func() string {
			start := make(chan struct{})
			var wg sync.WaitGroup
			for gi, u := range us {
				wg.Add(1)
				go func(gi int, u upd) {
					defer wg.Done()
					defer func() { _ = recover() }()
					<-start
					x := uint32(gi*7919 + 17)
					for k := 0; k < 120; k++ { // intermediate values, then the final one
						x = x*1664525 + 1013904223
						_, _ = cache.SetUMoney(ptttype.UID(u.uid), int32(x>>8))
					}
					if gi%2 == 0 && u.val > 1000 && u.val < 1<<30 {
						_, _ = cache.SetUMoney(ptttype.UID(u.uid), int32(u.val-1000))
						_, _ = cache.DeUMoney(ptttype.UID(u.uid), 1000)
					} else {
						_, _ = cache.SetUMoney(ptttype.UID(u.uid), int32(u.val))
					}
				}(gi, u)
			}
			close(start)
			wg.Wait()
			return "done"
		})
		pa, after := readOpt(pwPath())
		out := stateStr(pa, after)
		if res != "done" {
			out = res
		}
		i := run.Op(line, out, fmt.Sprintf("pw-money:%d-writers", len(us)), true)
		if res != "done" {
			fail(i, "passwd:concurrent-money", "%s", res)
			return out
		}
		// the specification: every valid uid's money field holds its last value (a field beyond the end of a short
		// file extends it, zero-filled: the accessors do not look at the length), nothing else differs
		want := append([]byte{}, before...)
		for _, u := range us {
			o := (u.uid-1)*int64(pwSz) + int64(offMoney)
			if u.uid >= 1 && u.uid <= maxUsers && pb {
				for int64(len(want)) < o+4 {
					want = append(want, 0)
				}
				copy(want[o:], le32(int32(u.val)))
			}
		}
		if pa != pb || len(after) != len(want) {
			fail(i, "passwd:concurrent-money", ".PASSWDS %d -> %d bytes, want %d", len(before), len(after), len(want))
			return out
		}
		for p := range want {
			if want[p] != after[p] {
				fail(i, "passwd:concurrent-money", "after %d concurrent money updates of different users byte %d (record %d = uid %d, offset %d in the record; the money field is %d..%d) is %#x, want %#x: only the addressed 4-byte fields may change and each holds its user's last value",
					len(us), p, p/pwSz, p/pwSz+1, p%pwSz, offMoney, offMoney+3, after[p], want[p])
				break
			}
		}
		return out

	case ws[0] == "pwq" && len(ws) == 3:
		uid, ok := parseInt(ws[2], -1<<31, 1<<31-1)
		if !ok || (ws[1] != "whole" && ws[1] != "passwd" && ws[1] != "level") {
			return bad()
		}
		pb, before := readOpt(pwPath())
		var off, ln int
		res := hx.CallSync(func() string {
			var out []byte
			var err error
			switch ws[1] {
			case "whole":
				var u *ptttype.UserecRaw
				u, err = cmbbs.PasswdQuery(ptttype.UID(uid))
				if err == nil {
					out = encode(u)
				}
				off, ln = 0, packed("pw")
			case "passwd":
				var h *ptttype.Passwd_t
				h, err = cmbbs.PasswdQueryPasswd(ptttype.UID(uid))
				if err == nil {
					out = h[:]
				}
				off, ln = int(unsafe.Offsetof(ptttype.USEREC_RAW.PasswdHash)), len(ptttype.Passwd_t{})
			default:
				var lv ptttype.PERM
				lv, err = cmbbs.PasswdQueryUserLevel(ptttype.UID(uid))
				if err == nil {
					out = encode(lv)
				}
				off, ln = int(unsafe.Offsetof(ptttype.USEREC_RAW.UserLevel)), 4
			}
			if err != nil {
				return pwErr(err) + " 0"
			}
			return fmt.Sprintf("ok 1 %d=%s", uid, hx.Hex(out))
		})
		pa, after := readOpt(pwPath())
		i := run.Op(line, res, "pwq:"+ws[1]+":"+uidClass(uid)+":"+res[:2], true)
		legal := uid >= 1 && uid <= maxUsers
		switch {
		case pa != pb || !bytes.Equal(before, after):
			fail(i, "passwd:frame", "a query changed .PASSWDS")
		case !legal && res != "invalid-idx 0":
			fail(i, "passwd:refused-uid", "query of uid %d (valid uids are 1..%d) answered %s", uid, maxUsers, trunc(res, 40))
		case legal && pb && int64(len(before)) >= (uid-1)*int64(pwSz)+int64(off+ln):
			o := (uid-1)*int64(pwSz) + int64(off)
			want := before[o : o+int64(ln)]
			if ws[1] == "whole" {
				want = canon("pw", want) // bool fields read back as 0/1
			}
			if res != fmt.Sprintf("ok 1 %d=%s", uid, hx.Hex(want)) {
				fail(i, "passwd:frame", "query %s of uid %d does not return the bytes of its record", ws[1], uid)
			}
		}
		return res
	}
	return bad()
}

// generatePasswd: every accessor at every uid boundary, on a full user file (MAX_USERS records), on shorter
// and torn ones, and on a missing one.
func generatePasswd() {
	r := run.R
	ensureEnv()
	maxUsers := int(ptttype.MAX_USERS)
	k := kindT{"pw", pwSz}
	file := func(nrec, tail int) []byte {
		var f []byte
		for j := 0; j < nrec; j++ {
			f = append(f, image(r, k)...)
		}
		if tail > 0 {
			f = append(f, image(r, k)[:tail]...)
		}
		return f
	}
	uids := []int{maxUsers + 1, maxUsers, 0, 1, -1, 2, maxUsers - 1, maxUsers + 2, maxUsers + 3 + r.Intn(1000), 1 + r.Intn(maxUsers), -5 - r.Intn(100), 1 << 30}
	pass := func(f []byte, absent bool, us []int) {
		if absent {
			do("reset-pw absent")
		} else {
			do("reset-pw " + hx.Hex(f))
		}
		for _, u := range us {
			switch r.Intn(3) {
			case 0:
				do(fmt.Sprintf("pw update %d %s", u, hx.Hex(image(r, k))))
			case 1:
				do(fmt.Sprintf("pw passwd %d %s", u, hx.Hex(r.Bytes(len(ptttype.Passwd_t{}), printable))))
			default:
				do(fmt.Sprintf("pw email %d %s", u, hx.Hex(r.Bytes(len(ptttype.Email_t{}), printable))))
			}
			do(fmt.Sprintf("pwq %s %d", []string{"whole", "passwd", "level"}[r.Intn(3)], u))
		}
	}
	full := file(maxUsers, 0)
	// all three writers and all three readers at each boundary uid on the full file
	do("reset-pw " + hx.Hex(full))
	for _, u := range uids {
		do(fmt.Sprintf("pw update %d %s", u, hx.Hex(image(r, k))))
		do(fmt.Sprintf("pw passwd %d %s", u, hx.Hex(r.Bytes(len(ptttype.Passwd_t{}), printable))))
		do(fmt.Sprintf("pw email %d %s", u, hx.Hex(r.Bytes(len(ptttype.Email_t{}), printable))))
		for _, q := range []string{"whole", "passwd", "level"} {
			do(fmt.Sprintf("pwq %s %d", q, u))
		}
	}
	n := 3
	if run.Thorough() {
		n = 40
	}
	for h := 0; h < n; h++ {
		pass(file(maxUsers, 0), false, uids)
	}
	pass(file(maxUsers, 1+r.Intn(pwSz-1)), false, uids) // torn tail behind the last user
	pass(file(3, 0), false, []int{1, 3, 4, 5, maxUsers, maxUsers + 1, 0})
	pass(file(2, 1+r.Intn(pwSz-1)), false, []int{2, 3, maxUsers + 1})
	pass(nil, true, []int{1, maxUsers, maxUsers + 1, 0})

	// the stale (uid, user-id) pair of a session: the slot is reused by an id that differs only in letter case
	// (or by any other id); the session's read-modify-write must be refused and leave .PASSWDS untouched.
	withID := func(img []byte, id string, uid int) []byte {
		out := append([]byte{}, img...)
		for j := 0; j < lenUserID; j++ {
			out[offUserID+j] = 0
		}
		copy(out[offUserID:offUserID+lenUserID-1], id)
		copy(out[offMoney:], le32(cache.MoneyOf(ptttype.UID(uid))+777)) // the write-back syncs Money from SHM: make it visible
		return out
	}
	idHex := func(id string) string {
		b := make([]byte, lenUserID)
		copy(b, id)
		return hx.Hex(b)
	}
	nst := 4
	if run.Thorough() {
		nst = 60
	}
	ids := [][2]string{{"Chloe", "chloe"}, {"bob", "BOB"}, {"Amy12", "aMY12"}, {"zed", "zeD"}, {"Chloe", "Chlo"}, {"Chloe", "Chloe2"}, {"abc", "xyz"}}
	for h := 0; h < nst; h++ {
		f := file(maxUsers, 0)
		pair := ids[h%len(ids)]
		uid := []int{1, maxUsers, 2 + r.Intn(maxUsers-2), 7}[h%4]
		copy(f[(uid-1)*pwSz:], withID(f[(uid-1)*pwSz:uid*pwSz], pair[0], uid))
		do("reset-pw " + hx.Hex(f))
		do(fmt.Sprintf("pwcu %d %s 0", uid, idHex(pair[0])))                                                 // the live session: accepted
		do(fmt.Sprintf("pw update %d %s", uid, hx.Hex(withID(image(r, k), pair[1], uid))))                   // account removed, slot reused
		do(fmt.Sprintf("pwcu %d %s 0", uid, idHex(pair[0])))                                                 // the stale pair: refused
		do(fmt.Sprintf("pwcu %d %s 0", uid, idHex(pair[1])))                                                 // the new owner: accepted
		do(fmt.Sprintf("pwcu %d %s 0", []int{0, maxUsers + 1, uid%maxUsers + 1}[r.Intn(3)], idHex(pair[1]))) // right id, wrong slot
	}

	// an acknowledged in-place field modify must survive a later whole-record store of an EARLIER copy
	nls := 6
	if run.Thorough() {
		nls = 80
	}
	do("reset-pw " + hx.Hex(file(maxUsers, 0)))
	for h := 0; h < nls; h++ {
		uid := []int{1, maxUsers, 2 + r.Intn(maxUsers-2), maxUsers + 1, 0, 1 + r.Intn(maxUsers)}[h%6]
		do(fmt.Sprintf("pw-store %d %d %d", uid, int32(r.U64()>>36)+1, uint32(r.U64())))
		if h%3 == 0 {
			do(fmt.Sprintf("pwq whole %d", uid))
		}
	}
	pass(file(3, 0), false, nil)
	do(fmt.Sprintf("pw-store 2 %d %d", 500+r.Intn(1000), uint32(r.U64())))
	do(fmt.Sprintf("pw-store 4 %d %d", 500+r.Intn(1000), uint32(r.U64()))) // no record 4 to load: only the field update happens

	// concurrent money updates of different users (cache.SetUMoney / DeUMoney): only the addressed 4-byte fields change
	nb := 6
	if run.Thorough() {
		nb = 60
	}
	do("reset-pw " + hx.Hex(file(maxUsers, 0)))
	for b := 0; b < nb; b++ {
		perm := make([]int, maxUsers)
		for j := range perm {
			perm[j] = j + 1
		}
		for j := range perm {
			o := r.Intn(len(perm))
			perm[j], perm[o] = perm[o], perm[j]
		}
		nw := 2 + r.Intn(9)
		var parts []string
		for j := 0; j < nw; j++ {
			parts = append(parts, fmt.Sprintf("%d=%d", perm[j], int32(r.U64()>>34)))
		}
		if r.Intn(3) == 0 {
			parts = append(parts, fmt.Sprintf("%d=%d", []int{0, maxUsers + 1, -3}[r.Intn(3)], 5)) // a refused uid among them
		}
		do("pw-money " + strings.Join(parts, ","))
	}
	restorePasswd()
}
