package main

// The request layer: a client names an article (file name or article id); the name is looked up in the
// board's .DIR (cmsys.GetRecord / FindArticleStartIdx, which fall back to the NEAREST entry when the name is
// absent) and the hit has to be confirmed before the record is modified in place (ptt.Recommend, EditPost,
// CrossPost) or delete-marked (bbs.DeleteArticles). The class driven here: requests for names that are
// ABSENT from .DIR (stale, expired, forged) next to present ones — same-second siblings, same-suffix
// neighbours, before the first / behind the last entry, a stale article file still on disk.
// P̂: a request changes only records that carry the requested name; for an absent name no byte of .DIR and
// of no file under boards/ changes and no success is reported.

import (
	"bytes"
	"crypto/sha1"
	"fmt"
	"os"
	"path/filepath"
	"sort"
	"strings"
	"time"

	"github.com/Ptt-official-app/go-pttbbs/bbs"
	"github.com/Ptt-official-app/go-pttbbs/cache"
	"github.com/Ptt-official-app/go-pttbbs/ptt"
	"github.com/Ptt-official-app/go-pttbbs/ptttype"
	"verifharness/internal/hx"
)

const fnLen = len(ptttype.Filename_t{})

func isRequestOp(op string) bool {
	switch op {
	case "reset-dir", "stale-file", "recommend", "delete-article", "editpost", "crosspost", "dir-dump":
		return true
	}
	return false
}

func reqBoardDir() string { return env.Path("boards", "W", "WhoAmI") }
func reqDirPath() string  { return filepath.Join(reqBoardDir(), ".DIR") }

// cleanName: the C string of a file name if it is usable as a path element.
func cleanName(nm []byte) (string, bool) {
	s := cstr(nm)
	if len(s) < 3 {
		return "", false
	}
	for _, c := range s {
		if c < 0x21 || c > 0x7e || c == '/' {
			return "", false
		}
	}
	return string(s), true
}

// treeSnapshot: every regular file under boards/ -> digest of its content.
func treeSnapshot() map[string]string {
	m := map[string]string{}
	root := env.Path("boards")
	_ = filepath.Walk(root, func(p string, info os.FileInfo, err error) error {
		if err != nil || !info.Mode().IsRegular() {
			return nil
		}
		b, err := os.ReadFile(p)
		if err != nil {
			return nil
		}
		rel, _ := filepath.Rel(root, p)
		m[rel] = fmt.Sprintf("%d:%x", len(b), sha1.Sum(b))
		return nil
	})
	return m
}

func treeDiff(a, b map[string]string) (changed []string) {
	for k, v := range a {
		if b[k] != v {
			changed = append(changed, k)
		}
	}
	for k := range b {
		if _, ok := a[k]; !ok {
			changed = append(changed, k)
		}
	}
	sort.Strings(changed)
	return
}

// fnEqGo: Filename_t.Eq written out — the C strings behind the 2-byte type prefix are equal.
func fnEqGo(a, b []byte) bool { return bytes.Equal(cstr(a[2:fnLen]), cstr(b[2:fnLen])) }

// relation of a requested name to the index, for the histogram.
func nameClass(dir []byte, nm []byte) (matching []int, class string) {
	n := len(dir) / dirSz
	sameSec, sameSuffix := false, false
	for k := 0; k < n; k++ {
		rec := dir[k*dirSz : k*dirSz+fnLen]
		if fnEqGo(nm, rec) {
			matching = append(matching, k)
		}
		if bytes.Equal(rec[2:12], nm[2:12]) {
			sameSec = true
		}
		if bytes.Equal(cstr(rec[12:]), cstr(nm[12:])) {
			sameSuffix = true
		}
	}
	switch {
	case len(matching) > 0:
		class = "present"
	case sameSec:
		class = "absent:same-second-sibling"
	case sameSuffix:
		class = "absent:same-suffix-neighbour"
	case n == 0:
		class = "absent:empty-index"
	case bytes.Compare(nm[2:12], dir[2:12]) < 0:
		class = "absent:before-first"
	case bytes.Compare(nm[2:12], dir[(n-1)*dirSz+2:(n-1)*dirSz+12]) > 0:
		class = "absent:behind-last"
	default:
		class = "absent:between"
	}
	return
}

// judgeRequest is P̂ for every request op.
func judgeRequest(i int, line, what string, nm []byte, success bool, dirBefore, dirAfter []byte, presB, presA bool, tb, ta map[string]string) {
	fail := func(key, f string, a ...interface{}) {
		run.Fail(i, key, fmt.Sprintf(f, a...)+" | op: "+trunc(line, 100))
	}
	matching, _ := nameClass(dirBefore, nm)
	changedFiles := treeDiff(tb, ta)
	name, _ := cleanName(nm)
	if len(matching) == 0 {
		// the requested name is absent: nothing may change, nothing may be reported as done
		if len(changedFiles) > 0 || presA != presB {
			var recs []string
			n := len(dirBefore) / dirSz
			for k := 0; k < n && (k+1)*dirSz <= len(dirAfter); k++ {
				if !bytes.Equal(dirBefore[k*dirSz:(k+1)*dirSz], dirAfter[k*dirSz:(k+1)*dirSz]) {
					recs = append(recs, fmt.Sprintf("record %d (%q)", k+1, cstr(dirBefore[k*dirSz:k*dirSz+fnLen])))
				}
			}
			fail("request:absent-name", "%s for %q, a name that is in no record of .DIR, changed %v; .DIR records changed: %v", what, name, changedFiles, recs)
		} else if success {
			fail("request:absent-name", "%s for %q, a name that is in no record of .DIR, reported success", what, name)
		}
		return
	}
	// present: only records carrying the name, and only their article files, may change
	if len(dirAfter) != len(dirBefore) {
		fail("request:frame", "%s for %q changed the length of .DIR: %d -> %d", what, name, len(dirBefore), len(dirAfter))
		return
	}
	ok := map[int]bool{}
	allowed := map[string]bool{filepath.Join("W", "WhoAmI", ".DIR"): true}
	for _, k := range matching {
		ok[k] = true
		if s, good := cleanName(dirBefore[k*dirSz : k*dirSz+fnLen]); good {
			allowed[filepath.Join("W", "WhoAmI", s)] = true
		}
	}
	for p := range dirBefore {
		if dirBefore[p] != dirAfter[p] && !ok[p/dirSz] {
			fail("request:frame", "%s for %q (carried by record(s) %v, 0-based) changed byte %d of record %d (%q)", what, name, matching, p, p/dirSz,
				cstr(dirBefore[p/dirSz*dirSz:p/dirSz*dirSz+fnLen]))
			return
		}
	}
	for _, f := range changedFiles {
		if !allowed[f] {
			fail("request:frame", "%s for %q changed the file %s", what, name, f)
			return
		}
	}
}

func doRequest(line string, ws []string) string {
	bad := func() string { run.Op(line, "bad-op", "bad-op", false); return "bad-op" }
	name28 := func(s string) ([]byte, bool) {
		b, ok := parseHex(s)
		return b, ok && len(b) == fnLen
	}
	switch {
	case ws[0] == "reset-dir" && len(ws) == 2:
		var b []byte
		absent := ws[1] == "absent"
		if !absent {
			var ok bool
			if b, ok = parseHex(ws[1]); !ok {
				return bad()
			}
		}
		ensureEnv()
		// a clean board directory: the index, one article file per record
		ents, _ := os.ReadDir(reqBoardDir())
		for _, e := range ents {
			if !e.IsDir() && e.Name() != ".DIR.bottom" {
				_ = os.Remove(filepath.Join(reqBoardDir(), e.Name()))
			}
		}
		if !absent {
			if err := os.WriteFile(reqDirPath(), b, 0o644); err != nil {
				panic(err)
			}
			for k := 0; k < len(b)/dirSz; k++ {
				if s, ok := cleanName(b[k*dirSz : k*dirSz+fnLen]); ok && !strings.HasPrefix(s, ".d") {
					_ = os.WriteFile(filepath.Join(reqBoardDir(), s), []byte("article "+s+"\n"), 0o644)
				}
			}
		}
		cache.ReloadBCache()
		run.Op(line, "ok", fmt.Sprintf("reset-dir:n=%s", cntClass(len(b)/dirSz)), false)
		return "ok"

	case ws[0] == "stale-file" && len(ws) == 2:
		nm, ok := name28(ws[1])
		if !ok {
			return bad()
		}
		ensureEnv()
		if s, good := cleanName(nm); good {
			_ = os.WriteFile(filepath.Join(reqBoardDir(), s), []byte("stale article "+s+"\n"), 0o644)
		}
		run.Op(line, "ok", "stale-file", false)
		return "ok"

	case ws[0] == "dir-dump" && len(ws) == 1:
		ensureEnv()
		p, b := readOpt(reqDirPath())
		out := "absent"
		if p {
			out = hx.Hex(b)
		}
		run.Op(line, out, "dir-dump", false)
		return out

	case ws[0] == "recommend" && len(ws) == 4:
		nm, ok := name28(ws[1])
		ct, ok1 := parseInt(ws[2], 1, 3)
		_, ok2 := parseInt(ws[3], -1<<31, 1<<31-1)
		if !ok || !ok1 || !ok2 {
			return bad()
		}
		ensureEnv()
		pb, before := readOpt(reqDirPath())
		tb := treeSnapshot()
		fn := &ptttype.Filename_t{}
		copy(fn[:], nm)
		mtime := int64(0)
		res := hx.CallT(15*time.Second, func() string {
			_, mt, err := ptt.Recommend(opUser, 1, bottomName, bottomBid, fn, ptttype.CommentType(ct), []byte("c05"), &ptttype.IPv4_t{}, nil)
			if err != nil {
				lastErr = fmt.Sprint(err)
				return "err"
			}
			mtime = int64(mt)
			return "ok"
		})
		pa, after := readOpt(reqDirPath())
		ta := treeSnapshot()
		// the op line carries the article file's mtime the real call observed (an input from the clock)
		opLine := fmt.Sprintf("recommend %s %d %d", ws[1], ct, mtime)
		_, class := nameClass(before, nm)
		i := run.Op(opLine, res+" "+stateStr(pa, after), "recommend:"+class+":"+res, true)
		if res == "PANIC" || res == "TIMEOUT" {
			run.Fail(i, "request:frame", res+" "+hx.LastPanic+" | op: "+trunc(opLine, 100))
		}
		judgeRequest(i, opLine, "ptt.Recommend", nm, res == "ok", before, after, pb, pa, tb, ta)
		return res

	case ws[0] == "delete-article" && len(ws) == 2:
		aid, ok := parseHex(ws[1])
		if !ok {
			return bad()
		}
		ensureEnv()
		pb, before := readOpt(reqDirPath())
		tb := treeSnapshot()
		var fname *ptttype.Filename_t
		res := hx.CallT(15*time.Second, func() string {
			a := bbs.ArticleID(aid)
			fname = a.ToFilename()
			done, err := bbs.DeleteArticles(bbs.UUserID("SYSOP"), bbs.BBoardID("10_WhoAmI"), []bbs.ArticleID{a}, "127.0.0.1")
			if err != nil {
				lastErr = fmt.Sprint(err)
				return "err 0"
			}
			return fmt.Sprintf("ok %d", len(done))
		})
		pa, after := readOpt(reqDirPath())
		ta := treeSnapshot()
		class := "undecodable"
		if fname != nil {
			_, class = nameClass(before, fname[:])
		}
		i := run.Op(line, res+" "+stateStr(pa, after), "delete-article:"+class+":"+strings.ReplaceAll(res, " ", ""), true)
		if res == "PANIC" || res == "TIMEOUT" {
			run.Fail(i, "request:frame", res+" "+hx.LastPanic+" | op: "+trunc(line, 100))
		}
		if fname != nil {
			judgeRequest(i, line, "bbs.DeleteArticles", fname[:], res == "ok 1", before, after, pb, pa, tb, ta)
		}
		return res

	case (ws[0] == "editpost" || ws[0] == "crosspost") && len(ws) == 2:
		nm, ok := name28(ws[1])
		if !ok {
			return bad()
		}
		ensureEnv()
		pb, before := readOpt(reqDirPath())
		tb := treeSnapshot()
		fn := &ptttype.Filename_t{}
		copy(fn[:], nm)
		res := hx.CallT(15*time.Second, func() string {
			var err error
			if ws[0] == "editpost" {
				_, _, _, err = ptt.EditPost(opUser, 1, bottomName, bottomBid, fn, []byte("test"), []byte("edited by c05"),
					[][]byte{[]byte("edited by c05")}, 0, 0, &ptttype.IPv4_t{}, nil)
			} else {
				x := &ptttype.BoardID_t{}
				copy(x[:], "SYSOP")
				_, _, _, err = ptt.CrossPost(opUser, 1, bottomName, bottomBid, fn, x, 1, 0, &ptttype.IPv4_t{}, nil)
			}
			if err != nil {
				lastErr = fmt.Sprint(err)
				return "miss"
			}
			return "hit"
		})
		pa, after := readOpt(reqDirPath())
		ta := treeSnapshot()
		_, class := nameClass(before, nm)
		i := run.Op(line, res, ws[0]+":"+class+":"+res, true)
		if res == "PANIC" || res == "TIMEOUT" {
			run.Fail(i, "request:frame", res+" "+hx.LastPanic+" | op: "+trunc(line, 100))
		}
		what := "ptt.EditPost"
		if ws[0] == "crosspost" {
			what = "ptt.CrossPost"
		}
		if m, _ := nameClass(before, nm); len(m) == 0 {
			judgeRequest(i, line, what, nm, res == "hit", before, after, pb, pa, tb, ta)
		}
		return res
	}
	return bad()
}

// ---- generator --------------------------------------------------------------------------------

type artName struct {
	typ    byte
	t      int
	suffix int
	del    bool
}

func (a artName) bytes() []byte {
	b := make([]byte, fnLen)
	s := fmt.Sprintf("%c.%010d.A.%03X", a.typ, a.t, a.suffix)
	if a.del {
		s = ".d" + s[2:]
	}
	copy(b, s)
	return b
}

// requestHistory: an ascending index with same-second siblings and repeated suffixes, then requests for
// present and absent names through every request-level caller.
func requestHistory(r *hx.Rand, n int, nreq int) {
	ensureEnv()
	t := 1500000000 + r.Intn(100000000)
	suffixes := []int{r.Intn(4096), r.Intn(4096), r.Intn(4096)}
	var arts []artName
	for k := 0; k < n; k++ {
		switch r.Intn(5) {
		case 0, 1: // same second as the previous entry
		case 2:
			t++
		case 3:
			t += 2 + r.Intn(5)
		default:
			t += 50 + r.Intn(1000)
		}
		a := artName{typ: "MMMG"[r.Intn(4)], t: t, suffix: suffixes[r.Intn(len(suffixes))], del: r.Intn(8) == 0}
		if r.Intn(3) == 0 {
			a.suffix = r.Intn(4096)
		}
		dup := false
		for _, o := range arts {
			if o.t == a.t && o.suffix == a.suffix {
				dup = true
			}
		}
		if dup {
			a.suffix = (a.suffix + 1 + r.Intn(7)) % 4096
		}
		arts = append(arts, a)
	}
	var f []byte
	for _, a := range arts {
		img := dirImage(r)
		copy(img[:fnLen], a.bytes())
		f = append(f, img...)
	}
	if r.Intn(5) == 0 {
		f = append(f, dirImage(r)[:1+r.Intn(dirSz-1)]...) // a torn tail
	}
	do("reset-dir " + hx.Hex(f))

	has := func(t, suffix int) bool {
		for _, o := range arts {
			if o.t == t && o.suffix == suffix {
				return true
			}
		}
		return false
	}
	freshSuffix := func(t int) int {
		for {
			s := r.Intn(4096)
			if !has(t, s) {
				return s
			}
		}
	}
	pick := func() (nm artName, present bool) {
		if n == 0 {
			return artName{typ: 'M', t: t, suffix: r.Intn(4096)}, false
		}
		o := arts[r.Intn(n)]
		switch r.Intn(9) {
		case 0, 1: // present
			return artName{typ: o.typ, t: o.t, suffix: o.suffix}, true
		case 2: // present under the other type prefix (Eq does not compare it)
			return artName{typ: "GM"[r.Intn(2)], t: o.t, suffix: o.suffix}, true
		case 3, 4: // absent: a sibling of the same second
			return artName{typ: 'M', t: o.t, suffix: freshSuffix(o.t)}, false
		case 5: // absent: same suffix, neighbouring second
			d := []int{-1, 1, 2, -3}[r.Intn(4)]
			if has(o.t+d, o.suffix) {
				return artName{typ: 'M', t: o.t + d, suffix: freshSuffix(o.t + d)}, false
			}
			return artName{typ: 'M', t: o.t + d, suffix: o.suffix}, false
		case 6: // before the first entry
			tt := arts[0].t - 1 - r.Intn(1000)
			if r.Bool() {
				return artName{typ: 'M', t: tt, suffix: freshSuffix(tt)}, false
			}
			return artName{typ: 'M', t: tt, suffix: arts[0].suffix}, false
		case 7: // behind the last entry
			tt := arts[n-1].t + 1 + r.Intn(1000)
			if r.Bool() {
				return artName{typ: 'M', t: tt, suffix: freshSuffix(tt)}, false
			}
			return artName{typ: 'M', t: tt, suffix: arts[n-1].suffix}, false
		}
		tt := arts[0].t + r.Intn(arts[n-1].t-arts[0].t+1)
		return artName{typ: 'M', t: tt, suffix: freshSuffix(tt)}, false
	}
	// a comment on a delete-marked entry fails only after 5 one-second retries (its file is not on disk
	// under the marked name): such requests are turned into deletes to keep the run short.
	marked := func(b []byte) bool {
		_, d := readOpt(reqDirPath())
		m, _ := nameClass(d, b)
		for _, k := range m {
			if d[k*dirSz] == '.' {
				return true
			}
		}
		return false
	}
	for q := 0; q < nreq; q++ {
		nm, present := pick()
		b := nm.bytes()
		c := r.Intn(10)
		if marked(b) && (c < 4 || (present && c >= 8)) {
			c = 4
		}
		switch {
		case c < 4:
			do(fmt.Sprintf("recommend %s %d 0", hx.Hex(b), 1+r.Intn(3)))
		case c < 8:
			fn := &ptttype.Filename_t{}
			copy(fn[:], b)
			do("delete-article " + hx.Hex([]byte(bbs.ToArticleID(fn))))
		case present:
			do(fmt.Sprintf("recommend %s %d 0", hx.Hex(b), 1+r.Intn(3)))
		case c == 8:
			do("editpost " + hx.Hex(b))
		default:
			if r.Bool() {
				do("stale-file " + hx.Hex(b)) // the article file is still on disk, its index entry is gone
			}
			do("crosspost " + hx.Hex(b))
		}
	}
	do("dir-dump")
}

func generateRequests() {
	r := run.R
	// smallest shapes first: two same-second siblings, the third sibling is requested
	for _, n := range []int{2, 1, 3, 0} {
		for k := 0; k < 3; k++ {
			requestHistory(r, n, 5)
		}
	}
	nh := 30
	if run.Thorough() {
		nh = 500
	}
	for h := 0; h < nh; h++ {
		requestHistory(r, 2+r.Intn(9), 4+r.Intn(6))
	}
	do("reset-dir absent")
	do("recommend " + hx.Hex(artName{typ: 'M', t: 1600000000, suffix: 1}.bytes()) + " 1 0")
	do("delete-article " + hx.Hex([]byte("1VrooM21")))
	do("delete-article " + hx.Hex([]byte("short")))
	do("delete-article " + hx.Hex([]byte("\xff\xfe bad id !")))
}
