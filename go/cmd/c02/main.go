// c02: correspondence harness + property oracle for the password hashes (property C02).
//
// It calls the real crypt.Fcrypt, cmbbs.GenPasswd and cmbbs.CheckPasswd in-process and writes, per operation,
// the op line for the Lean driver (drv_c02) and the implementation's canonical answer.
//
// op lines
//
//	fcrypt <pw-hex> <salt-hex>            -> hex of the 14 result bytes | PANIC
//	spec <pw-hex> <2 salt chars hex>      -> the same call; the driver answers with the hand-written textbook crypt3
//	gen <num> <pw-hex> <seed>             -> hex of the 14 hash bytes   | PANIC     (num = the value rand.Intn(65536)
//	                                         returns after rand.Seed(seed); the model takes num as a parameter)
//	check <expected-hex> <pw-hex> <want>  -> true | false | PANIC                   (want = accept|reject|any: what the
//	                                         property says about this pair; judged by P-hat, ignored by the model)
//
//	retain <p1> <s1> <p2> <s2>            -> "hex(h1) hex(h2)": h1 := Fcrypt(p1,s1) is RETAINED (not copied) while
//	                                         h2 := Fcrypt(p2,s2) runs, and printed afterwards | PANIC
//	checkfc <p> <s> <q> <want>            -> CheckPasswd(h, q) with h the slice Fcrypt(p,s) returned, not copied
//	conc <n> <seed>                       -> "done": n goroutines each Fcrypt + yield + compare the retained slice
//	                                         with the libc hash computed beforehand (judged by P-hat only)
//
// The model is a pure function: results share no state.  retain / checkfc / conc tie exactly that purity — a
// returned hash must not change when Fcrypt is called again (an output buffer that is reused or pooled breaks it
// although every single call returns the right bytes).
//
// P-hat (independent of the model):
//
//	des:mismatch-libc          Fcrypt(p, s) differs from libc crypt(3) for an alphabet salt (13 chars + NUL)
//	check:disagrees-libc       CheckPasswd(h, p) differs from "libc crypt(p, h[:2]) == h" for a well-formed DES hash h
//	check:own-hash-rejected    CheckPasswd(GenPasswd(p), p) is not true for p[0] != 0; or a pair tagged accept is rejected
//	check:wrong-key-accepted   a pair whose effective DES keys differ is accepted (sampled clause (d))
//	alias:retained-hash-changed   a hash returned by Fcrypt changed after a later Fcrypt / CheckPasswd call
//	crash:fcrypt|genpasswd|checkpasswd   a panic / stall inside the property's domain (GenPasswd: any password)
//	gen:empty-not-zero-hash    GenPasswd of an empty / NUL-first password is not the all-zero hash
package main

import (
	"bytes"
	"flag"
	"fmt"
	"math/rand"
	"os"
	"runtime"
	"strconv"
	"strings"
	"sync"

	"github.com/Ptt-official-app/go-pttbbs/cmbbs"
	"github.com/Ptt-official-app/go-pttbbs/crypt"
	"verifharness/internal/hx"
)

const alphabet = "./0123456789ABCDEFGHIJKLMNOPQRSTUVWXYZabcdefghijklmnopqrstuvwxyz"

func inAlpha(b byte) bool { return strings.IndexByte(alphabet, b) >= 0 }

func alphaSalt(s []byte) bool { return len(s) >= 2 && inAlpha(s[0]) && inAlpha(s[1]) }

// desKey is the property's reading of "effective key": the first eight bytes up to the first NUL, low seven bits
// each, zero padded.  Written from the property statement, not from the implementation.
func desKey(p []byte) [8]byte {
	var k [8]byte
	for i := 0; i < len(p) && i < 8; i++ {
		if p[i] == 0 {
			break
		}
		k[i] = p[i] & 0x7f
	}
	return k
}

// wellFormedHash: 13 alphabet characters followed by a NUL.
func wellFormedHash(h []byte) bool {
	if len(h) != 14 || h[13] != 0 {
		return false
	}
	for _, c := range h[:13] {
		if !inAlpha(c) {
			return false
		}
	}
	return true
}

func pwClass(p []byte) string {
	c := ""
	switch {
	case len(p) == 0:
		c = "len0"
	case len(p) < 8:
		c = "len1-7"
	case len(p) == 8:
		c = "len8"
	default:
		c = "len9+"
	}
	n := len(p)
	if n > 8 {
		n = 8
	}
	if i := bytes.IndexByte(p, 0); i >= 0 && i < 8 {
		c += "+nul"
		n = i
	}
	for _, b := range p[:n] {
		if b >= 0x80 {
			c += "+hibit"
			break
		}
	}
	return c
}

func saltClass(s []byte) string {
	switch {
	case len(s) < 2:
		return "salt-short"
	case alphaSalt(s):
		if len(s) == 2 {
			return "salt-alpha"
		}
		return "salt-alpha-long"
	case s[0] >= 0x80 || s[1] >= 0x80:
		return "salt-hibyte"
	case s[0] == 0 || s[1] == 0:
		return "salt-nul"
	default:
		return "salt-other7bit"
	}
}

var run *hx.Run

func numFor(seed int64) int { return rand.New(rand.NewSource(seed)).Intn(65536) }

// seedWith finds a seed whose first Intn(65536) satisfies pred, searching upward from start.
func seedWith(start int64, pred func(num int) bool) int64 {
	for k := start; ; k++ {
		if pred(numFor(k)) {
			return k
		}
	}
}

// exec runs one op line on the real code and judges it with P-hat.
func exec(line string, nontrivial bool) (out string, idx int) {
	ws := strings.Fields(line)
	bad := func() (string, int) { return "bad-op", run.Op(line, "bad-op", "bad-op", false) }
	if len(ws) == 0 {
		return bad()
	}
	switch ws[0] {
	case "fcrypt":
		if len(ws) != 3 {
			return bad()
		}
		p, s := hx.UnHex(ws[1]), hx.UnHex(ws[2])
		var res []byte
		out = hx.Call(func() string {
			r, err := crypt.Fcrypt(append([]byte{}, p...), append([]byte{}, s...))
			if err != nil {
				return "err"
			}
			res = r
			return hx.Hex(r)
		})
		label := "fcrypt:" + saltClass(s) + ":" + pwClass(p)
		if out == "PANIC" || out == "TIMEOUT" {
			label = "fcrypt:" + saltClass(s) + ":" + strings.ToLower(out)
		}
		idx = run.Op(line, out, label, nontrivial)
		if alphaSalt(s) {
			if out == "PANIC" || out == "TIMEOUT" || out == "err" {
				run.Fail(idx, "crash:fcrypt", fmt.Sprintf("Fcrypt(%q, %q): %s %s", p, s, out, hx.LastPanic))
				return
			}
			want := libcCrypt(p, s)
			if len(want) != 13 {
				fmt.Fprintf(os.Stderr, "c02: libc crypt refused the alphabet salt %q (DES not available?)\n", s[:2])
				os.Exit(2)
			}
			if len(res) != 14 || res[13] != 0 || string(res[:13]) != want {
				run.Fail(idx, "des:mismatch-libc", fmt.Sprintf("Fcrypt(%q, %q) = %q, libc crypt(3) = %q", p, s[:2], res, want))
			}
		}
		return
	case "spec":
		// the implementation's answer against the hand-written textbook crypt3 of Model/C02Spec.lean (run by the driver)
		if len(ws) != 3 {
			return bad()
		}
		p, s := hx.UnHex(ws[1]), hx.UnHex(ws[2])
		if len(s) != 2 {
			return bad()
		}
		out = hx.Call(func() string {
			r, err := crypt.Fcrypt(append([]byte{}, p...), append([]byte{}, s...))
			if err != nil {
				return "err"
			}
			return hx.Hex(r)
		})
		idx = run.Op(line, out, "spec:"+saltClass(s), nontrivial)
		if alphaSalt(s) && out != "PANIC" && out != "TIMEOUT" && out != "err" {
			if want := libcCrypt(p, s); hx.Hex(append([]byte(want), 0)) != out {
				run.Fail(idx, "des:mismatch-libc", fmt.Sprintf("Fcrypt(%q, %q) = %q, libc crypt(3) = %q", p, s, hx.UnHex(out), want))
			}
		}
		return
	case "retain":
		if len(ws) != 5 {
			return bad()
		}
		p1, s1, p2, s2 := hx.UnHex(ws[1]), hx.UnHex(ws[2]), hx.UnHex(ws[3]), hx.UnHex(ws[4])
		var snap1 []byte
		var h1, h2 []byte
		out = hx.Call(func() string {
			a, err := crypt.Fcrypt(append([]byte{}, p1...), append([]byte{}, s1...))
			if err != nil {
				return "err"
			}
			snap1 = append([]byte{}, a...) // what the first call returned, at the time it returned
			b, err := crypt.Fcrypt(append([]byte{}, p2...), append([]byte{}, s2...))
			if err != nil {
				return "err"
			}
			h1, h2 = a, b
			return hx.Hex(a) + " " + hx.Hex(b) // a is read only now, after the second call
		})
		label := "retain"
		if out == "PANIC" || out == "TIMEOUT" {
			label = "retain:" + strings.ToLower(out)
		}
		idx = run.Op(line, out, label, nontrivial)
		if h1 != nil && !bytes.Equal(h1, snap1) {
			run.Fail(idx, "alias:retained-hash-changed", fmt.Sprintf("h1 := Fcrypt(%q, %q) was %q; after Fcrypt(%q, %q) = %q the retained h1 reads %q",
				p1, s1, snap1, p2, s2, h2, h1))
		}
		if h1 != nil && alphaSalt(s1) {
			if want := libcCrypt(p1, s1); string(h1[:min(13, len(h1))]) != want {
				run.Fail(idx, "alias:retained-hash-changed", fmt.Sprintf("retained Fcrypt(%q, %q) reads %q after a second call, libc crypt(3) = %q", p1, s1, h1, want))
			}
		}
		return
	case "checkfc":
		if len(ws) != 5 || (ws[4] != "accept" && ws[4] != "reject") {
			return bad()
		}
		p, s, q := hx.UnHex(ws[1]), hx.UnHex(ws[2]), hx.UnHex(ws[3])
		var h, snap []byte
		out = hx.Call(func() string {
			a, err := crypt.Fcrypt(append([]byte{}, p...), append([]byte{}, s...))
			if err != nil {
				return "err"
			}
			h, snap = a, append([]byte{}, a...)
			b, err := cmbbs.CheckPasswd(a, append([]byte{}, q...)) // the slice as returned, not a copy
			if err != nil {
				return "err"
			}
			if b {
				return "true"
			}
			return "false"
		})
		idx = run.Op(line, out, "checkfc:"+ws[4]+":"+out, nontrivial)
		if out == "PANIC" || out == "TIMEOUT" || out == "err" {
			if alphaSalt(s) {
				run.Fail(idx, "crash:checkpasswd", fmt.Sprintf("CheckPasswd(Fcrypt(%q, %q), %q): %s %s", p, s, q, out, hx.LastPanic))
			}
			return
		}
		if ws[4] == "reject" && out != "false" {
			run.Fail(idx, "check:wrong-key-accepted", fmt.Sprintf("h := Fcrypt(%q, %q); CheckPasswd(h, %q) = %s, but the effective keys differ", p, s, q, out))
		}
		if ws[4] == "accept" && out != "true" {
			run.Fail(idx, "check:own-hash-rejected", fmt.Sprintf("h := Fcrypt(%q, %q); CheckPasswd(h, %q) = %s, but the effective keys are equal", p, s, q, out))
		}
		if h != nil && !bytes.Equal(h, snap) {
			run.Fail(idx, "alias:retained-hash-changed", fmt.Sprintf("h := Fcrypt(%q, %q) was %q; after CheckPasswd(h, %q) it reads %q", p, s, snap, q, h))
		}
		return
	case "conc":
		if len(ws) != 3 {
			return bad()
		}
		n, e1 := strconv.Atoi(ws[1])
		sd, e2 := strconv.ParseUint(ws[2], 10, 64)
		if e1 != nil || e2 != nil || n < 1 || n > 4096 {
			return bad()
		}
		rr := hx.NewRand(sd)
		type job struct {
			p, s []byte
			want string
		}
		jobs := make([]job, n)
		for i := range jobs {
			jobs[i].p, jobs[i].s = genKeyPw(rr), genSalt(rr)
			jobs[i].want = libcCrypt(jobs[i].p, jobs[i].s) // sequentially: the libc wrapper keeps one crypt_data
		}
		badCh := make(chan string, n)
		var wg sync.WaitGroup
		for i := range jobs {
			wg.Add(1)
			go func(j job) {
				defer wg.Done()
				defer func() {
					if e := recover(); e != nil {
						badCh <- fmt.Sprintf("panic in Fcrypt(%q, %q): %v", j.p, j.s, e)
					}
				}()
				h, _ := crypt.Fcrypt(j.p, j.s)
				for k := 0; k < 3; k++ {
					runtime.Gosched()
				}
				if len(h) != 14 || string(h[:13]) != j.want {
					badCh <- fmt.Sprintf("goroutine kept h := Fcrypt(%q, %q); after yielding it reads %q, libc crypt(3) = %q", j.p, j.s, h, j.want)
				}
			}(jobs[i])
		}
		wg.Wait()
		close(badCh)
		out = "done"
		idx = run.Op(line, out, "conc", nontrivial)
		if msg, ok := <-badCh; ok {
			run.Fail(idx, "alias:retained-hash-changed", msg)
		}
		return
	case "gen":
		if len(ws) != 4 {
			return bad()
		}
		num, e1 := strconv.Atoi(ws[1])
		p := hx.UnHex(ws[2])
		seed, e2 := strconv.ParseInt(ws[3], 10, 64)
		if e1 != nil || e2 != nil {
			return bad()
		}
		if numFor(seed) != num {
			// a replayed line with a foreign seed: find one that yields num
			seed = seedWith(0, func(n int) bool { return n == num })
		}
		rand.Seed(seed) //nolint:staticcheck // makes the global source, which GenPasswd draws from, deterministic
		var h []byte
		pp := p
		if pp == nil {
			pp = []byte{}
		}
		out = hx.Call(func() string {
			r, err := cmbbs.GenPasswd(append([]byte{}, pp...))
			if err != nil || r == nil {
				return "err"
			}
			h = append([]byte{}, r[:]...)
			return hx.Hex(h)
		})
		label := "gen:" + pwClass(p)
		if num&0x7f == 0 || (num>>8)&0x7f == 0 {
			label += "+saltnul"
		}
		if out == "PANIC" || out == "TIMEOUT" {
			label = "gen:" + strings.ToLower(out) + ":" + pwClass(p)
		}
		idx = run.Op(line, out, label, nontrivial)
		// GenPasswd is total (repo fix cf9020f: the empty slice gives the empty hash instead of indexing passwd[0])
		if out == "PANIC" || out == "TIMEOUT" || out == "err" {
			run.Fail(idx, "crash:genpasswd", fmt.Sprintf("GenPasswd(%q) with rand=%d: %s %s", p, num, out, hx.LastPanic))
			return
		}
		if (len(p) == 0 || p[0] == 0) && h != nil && !bytes.Equal(h, make([]byte, 14)) {
			run.Fail(idx, "gen:empty-not-zero-hash", fmt.Sprintf("GenPasswd(%q) = %q, expected the all-zero hash (unable to log in)", p, h))
		}
		if len(p) > 0 && p[0] != 0 && h != nil {
			ok := hx.Call(func() string {
				b, err := cmbbs.CheckPasswd(h, append([]byte{}, p...))
				return fmt.Sprint(b, err)
			})
			if ok != "true <nil>" {
				run.Fail(idx, "check:own-hash-rejected", fmt.Sprintf("CheckPasswd(GenPasswd(%q) = %q, same password) = %s (rand=%d)", p, h, ok, num))
			}
		}
		return
	case "check":
		if len(ws) != 4 || (ws[3] != "accept" && ws[3] != "reject" && ws[3] != "any") {
			return bad()
		}
		e, p := hx.UnHex(ws[1]), hx.UnHex(ws[2])
		out = hx.Call(func() string {
			b, err := cmbbs.CheckPasswd(append([]byte{}, e...), append([]byte{}, p...))
			if err != nil {
				return "err"
			}
			if b {
				return "true"
			}
			return "false"
		})
		label := "check:" + ws[3] + ":" + out
		if !alphaSalt(e) {
			label += ":" + saltClass(e)
		}
		idx = run.Op(line, out, label, nontrivial)
		crashed := out == "PANIC" || out == "TIMEOUT" || out == "err"
		if crashed && (alphaSalt(e) || ws[3] != "any") {
			run.Fail(idx, "crash:checkpasswd", fmt.Sprintf("CheckPasswd(%q, %q): %s %s", e, p, out, hx.LastPanic))
			return
		}
		if ws[3] == "accept" && out != "true" {
			run.Fail(idx, "check:own-hash-rejected", fmt.Sprintf("CheckPasswd(%q, %q) = %s, but the pair has the effective key the hash was made from", e, p, out))
		}
		if ws[3] == "reject" && out != "false" {
			run.Fail(idx, "check:wrong-key-accepted", fmt.Sprintf("CheckPasswd(%q, %q) = %s, but the effective keys differ", e, p, out))
		}
		if wellFormedHash(e) && !crashed {
			want := "false"
			if libcCrypt(p, e) == string(e[:13]) {
				want = "true"
			}
			if out != want {
				run.Fail(idx, "check:disagrees-libc", fmt.Sprintf("CheckPasswd(%q, %q) = %s, libc crypt(3) says %s", e, p, out, want))
			}
		}
		return
	}
	return bad()
}

// ---- generators ---------------------------------------------------------------------------------------------

var printable = []byte("abcdefghijklmnopqrstuvwxyzABCDEFGHIJKLMNOPQRSTUVWXYZ0123456789 !#$%&()*+,-./:;<=>?@[]^_{|}~")

func genByte(r *hx.Rand) byte {
	switch x := r.Intn(100); {
	case x < 7:
		return 0
	case x < 14:
		return 0x80
	case x < 21:
		return 0xff
	case x < 80:
		return r.Pick(printable)
	default:
		return byte(r.U64())
	}
}

func genPw(r *hx.Rand) []byte {
	n := r.Intn(21)
	p := make([]byte, n)
	for i := range p {
		p[i] = genByte(r)
	}
	return p
}

// genKeyPw: a password whose first eight bytes are all non-NUL (a full 56-bit key), length 8..12.
func genKeyPw(r *hx.Rand) []byte {
	p := make([]byte, 8+r.Intn(5))
	for i := range p {
		for p[i] == 0 {
			p[i] = byte(r.U64())
		}
	}
	return p
}

func genSalt(r *hx.Rand) []byte { return []byte{alphabet[r.Intn(64)], alphabet[r.Intn(64)]} }

func fcrypt(p, s []byte) []byte {
	out, _ := exec("fcrypt "+hx.Hex(p)+" "+hx.Hex(s), true)
	if alphaSalt(s) {
		exec("spec "+hx.Hex(p)+" "+hx.Hex(s[:2]), true)
	}
	if out == "PANIC" || out == "TIMEOUT" || out == "err" {
		return nil
	}
	return hx.UnHex(out)
}

func check(e, p []byte, want string) {
	exec("check "+hx.Hex(e)+" "+hx.Hex(p)+" "+want, true)
}

func wantFor(a, b []byte) string {
	if desKey(a) == desKey(b) {
		return "accept"
	}
	return "reject"
}

// variants of p for clauses (c) and (d); each is tagged from the property's own reading (desKey).
func variant(r *hx.Rand, p []byte) []byte {
	q := append([]byte{}, p...)
	switch r.Intn(7) {
	case 0: // flip one of the low seven bits of one of the first eight bytes
		if len(q) > 0 {
			i := r.Intn(min(len(q), 8))
			q[i] ^= 1 << uint(r.Intn(7))
		}
	case 1: // flip a high bit
		if len(q) > 0 {
			q[r.Intn(min(len(q), 8))] ^= 0x80
		}
	case 2: // change / append bytes after the eighth
		if len(q) > 8 {
			q[8+r.Intn(len(q)-8)] ^= byte(1 + r.Intn(255))
		} else if len(q) == 8 {
			q = append(q, genByte(r), genByte(r))
		}
	case 3: // change bytes after a NUL
		if i := bytes.IndexByte(q, 0); i >= 0 && i+1 < len(q) {
			q[i+1+r.Intn(len(q)-i-1)] ^= byte(1 + r.Intn(255))
		} else if len(q) < 8 {
			q = append(q, 0, genByte(r), genByte(r))
		}
	case 4: // truncate
		if len(q) > 0 {
			q = q[:r.Intn(len(q))]
		}
	case 5: // set all high bits of the first eight
		for i := 0; i < len(q) && i < 8; i++ {
			if q[i]|0x80 != 0x80 || q[i] == 0x80 {
				q[i] |= 0x80
			}
		}
	default: // replace one byte
		if len(q) > 0 {
			q[r.Intn(len(q))] = genByte(r)
		}
	}
	return q
}

func gen(seed int64, p []byte) []byte {
	out, _ := exec(fmt.Sprintf("gen %d %s %d", numFor(seed), hx.Hex(p), seed), len(p) > 0 && p[0] != 0)
	if out == "PANIC" || out == "TIMEOUT" || out == "err" {
		return nil
	}
	return hx.UnHex(out)
}

func main() {
	mode := flag.String("mode", "crypt", "crypt | login (histories through the callers of CheckPasswd)")
	run = hx.Start("C02")
	defer run.Finish()
	if run.Replay != "" {
		// a replay may hold ops of either pass: dispatch per line (./check replays through the first pass)
		replayAny(hx.ReplayOps(run.Replay))
		return
	}
	if *mode == "login" {
		loginMain()
		return
	}
	r := run.R
	run.Rule = "passwords: length 0..20, bytes biased to {NUL, 0x80, 0xff, printable}, exhaustive lengths 0..2 over 7 byte values; " +
		"salts: every alphabet character at either position (quick), all 64^2 pairs (thorough), 13-char hashes as salt; " +
		"effective-key variants (all 56 single-bit flips of sampled 8-byte keys, high-bit flips, bytes after the 8th / after a NUL) tagged " +
		"accept/reject from the property's own reading; GenPasswd under rand.Seed incl. seeds whose salt bytes are 0; libc-made hashes; " +
		"purity: retain (a hash kept across a second Fcrypt), checkfc (CheckPasswd on the slice Fcrypt returned), conc (goroutines keeping their hash across a yield); " +
		"malformed stream: salts of length 0/1, every byte value 0..255 at either salt position, random salts, expected hashes of any " +
		"length/bytes, empty password. distinct = distinct op lines; nontrivial = reaches the DES core (no panic expected)"

	// rand.Seed must make the global source reproduce rand.New(rand.NewSource(seed)) (true up to Go 1.23 without GODEBUG=randseednop)
	rand.Seed(12345) //nolint:staticcheck
	if rand.Intn(65536) != numFor(12345) {
		fmt.Fprintln(os.Stderr, "c02: math/rand global source does not follow rand.Seed; cannot determine GenPasswd's salt")
		os.Exit(2)
	}
	// the oracle itself: libc must be traditional DES and agree with the repository's own vector
	if libcCrypt([]byte("012345678901"), []byte("AA")) != "AA3QBhLWk1BWA" {
		fmt.Fprintln(os.Stderr, "c02: libc crypt(3) does not produce the DES vector AA3QBhLWk1BWA")
		os.Exit(2)
	}

	if run.Replay != "" {
		for _, l := range hx.ReplayOps(run.Replay) {
			exec(l, true)
		}
		return
	}
	th := run.Thorough()

	// A. smallest first: empty password, the repository's vectors
	fcrypt(nil, []byte("AA"))
	fcrypt(nil, []byte(".."))
	fcrypt([]byte("012345678901"), []byte("AA3QBhLWk1BWA"))
	fcrypt([]byte("123123\x0012"), []byte("bhwvOJtfT1TAI"))
	fcrypt([]byte("00000000"), []byte("000000000"))

	// C. exhaustive short passwords over a few byte values
	small := []byte{0, 1, 0x41, 0x7f, 0x80, 0x81, 0xff}
	for _, a := range small {
		fcrypt([]byte{a}, genSalt(r))
	}
	for _, a := range small {
		for _, b := range small {
			fcrypt([]byte{a, b}, genSalt(r))
		}
	}

	// B. salts
	if th {
		fixed := []byte("Ptt-BBS!")
		for i := 0; i < 64; i++ {
			for j := 0; j < 64; j++ {
				s := []byte{alphabet[i], alphabet[j]}
				fcrypt(fixed, s)
				fcrypt(genPw(r), s)
			}
		}
	} else {
		for i := 0; i < 64; i++ {
			fcrypt(genPw(r), []byte{alphabet[i], alphabet[r.Intn(64)]})
			fcrypt(genPw(r), []byte{alphabet[r.Intn(64)], alphabet[i]})
		}
	}

	// D. random (password, alphabet salt)
	nD := 1500
	if th {
		nD = 30000
	}
	for i := 0; i < nD; i++ {
		p := genPw(r)
		if i%3 == 0 {
			p = genKeyPw(r)
		}
		fcrypt(p, genSalt(r))
	}

	// E. clauses (b), (c), (d) on hashes the implementation made: hash as salt, effective-key variants
	nE := 400
	if th {
		nE = 6000
	}
	for i := 0; i < nE; i++ {
		p := genPw(r)
		if i%2 == 0 {
			p = genKeyPw(r)
		}
		h := fcrypt(p, genSalt(r))
		if h == nil {
			continue
		}
		check(h, p, "accept")
		fcrypt(p, h) // the stored hash as salt reproduces itself
		for k := 0; k < 3; k++ {
			q := variant(r, p)
			check(h, q, wantFor(p, q))
		}
	}
	nF := 6
	if th {
		nF = 120
	}
	for i := 0; i < nF; i++ {
		p := genKeyPw(r)[:8]
		h := fcrypt(p, genSalt(r))
		if h == nil {
			continue
		}
		for by := 0; by < 8; by++ {
			for bit := 0; bit < 7; bit++ {
				q := append([]byte{}, p...)
				q[by] ^= 1 << uint(bit)
				check(h, q, wantFor(p, q))
			}
			q := append([]byte{}, p...)
			q[by] ^= 0x80
			check(h, q, wantFor(p, q))
		}
	}

	// G. hashes made by libc (an existing .PASSWDS) keep working
	nG := 300
	if th {
		nG = 5000
	}
	for i := 0; i < nG; i++ {
		p := genPw(r)
		s := genSalt(r)
		hl := append([]byte(libcCrypt(p, s)), 0)
		check(hl, p, "accept")
		q := variant(r, p)
		check(hl, q, wantFor(p, q))
	}

	// F. GenPasswd / CheckPasswd
	nGen := 500
	if th {
		nGen = 8000
	}
	for i := 0; i < nGen; i++ {
		p := genPw(r)
		if i%2 == 0 {
			p = genKeyPw(r)
		}
		seed := int64(r.U64() >> 1)
		switch i % 16 {
		case 3:
			seed = seedWith(seed, func(n int) bool { return n&0x7f == 0 })
		case 7:
			seed = seedWith(seed, func(n int) bool { return (n>>8)&0x7f == 0 })
		}
		h := gen(seed, p)
		if h == nil {
			continue
		}
		want := "accept"
		if len(p) == 0 || p[0] == 0 {
			want = "reject" // the empty hash never verifies
		}
		check(h, p, want)
		if want == "accept" {
			q := variant(r, p)
			check(h, q, wantFor(p, q))
		}
	}
	// both salt bytes 0 (one seed in 16384)
	gen(seedWith(int64(r.U64()>>1), func(n int) bool { return n&0x7f == 0 && (n>>8)&0x7f == 0 }), []byte("both-nul"))

	// I. purity: a returned hash stays what it was while later calls run (no shared output buffer)
	nI := 300
	if th {
		nI = 5000
	}
	for i := 0; i < nI; i++ {
		p1, p2 := genPw(r), genPw(r)
		s1, s2 := genSalt(r), genSalt(r)
		switch i % 4 {
		case 1:
			s2 = s1
		case 2:
			p2 = variant(r, p1)
		case 3:
			p1, p2 = genKeyPw(r), genKeyPw(r)
		}
		exec("retain "+hx.Hex(p1)+" "+hx.Hex(s1)+" "+hx.Hex(p2)+" "+hx.Hex(s2), true)
		p := genKeyPw(r)
		if i%3 == 0 {
			p = genPw(r)
		}
		q := variant(r, p)
		if i%5 == 0 {
			q = genKeyPw(r)
		}
		exec("checkfc "+hx.Hex(p)+" "+hx.Hex(genSalt(r))+" "+hx.Hex(q)+" "+wantFor(p, q), true)
		exec("checkfc "+hx.Hex(p)+" "+hx.Hex(genSalt(r))+" "+hx.Hex(p)+" accept", true)
	}
	nC := 3
	if th {
		nC = 40
	}
	for i := 0; i < nC; i++ {
		exec(fmt.Sprintf("conc %d %d", 64+r.Intn(64), r.U64()>>1), true)
	}

	// H. malformed stream (recorded and compared with the model; outside the property's salt domain, not judged)
	gen(1, nil)
	gen(2, []byte{0})
	gen(3, []byte{0, 'x'})
	pw := []byte("malformed")
	exec("fcrypt "+hx.Hex(pw)+" -", false)
	exec("fcrypt - -", false)
	exec("fcrypt "+hx.Hex(pw)+" 41", false)
	exec("fcrypt "+hx.Hex(pw)+" 00", false)
	exec("fcrypt "+hx.Hex(pw)+" ff", false)
	for b := 0; b < 256; b++ {
		exec("fcrypt "+hx.Hex(pw)+" "+hx.Hex([]byte{byte(b), 'x'}), b < 128)
		exec("fcrypt "+hx.Hex(pw)+" "+hx.Hex([]byte{'x', byte(b)}), b < 128)
		exec("fcrypt "+hx.Hex(genPw(r))+" "+hx.Hex([]byte{byte(b), byte(r.U64())}), false)
	}
	nH := 300
	if th {
		nH = 5000
	}
	for i := 0; i < nH; i++ {
		s := r.Bytes(r.Intn(16), nil)
		if i%2 == 0 {
			for j := range s {
				s[j] &= 0x7f
			}
		}
		exec("fcrypt "+hx.Hex(genPw(r))+" "+hx.Hex(s), false)
		e := r.Bytes([]int{0, 1, 2, 13, 14, 14, 14, 15, 20}[r.Intn(9)], nil)
		if i%3 != 0 {
			for j := range e {
				e[j] &= 0x7f
			}
		}
		exec("check "+hx.Hex(e)+" "+hx.Hex(genPw(r))+" any", false)
	}
	// a correct hash with a damaged tail / wrong length is rejected
	for i := 0; i < 60; i++ {
		p := genKeyPw(r)
		h := fcrypt(p, genSalt(r))
		if h == nil {
			continue
		}
		e := append([]byte{}, h...)
		switch i % 4 {
		case 0:
			e[13] = 1
		case 1:
			e = e[:13]
		case 2:
			e = append(e, 0)
		default:
			e[2+r.Intn(11)] ^= 1
		}
		check(e, p, "reject")
	}
	run.Note("outside the property's salt domain (recorded, compared with the model): Fcrypt/CheckPasswd panic on a salt / stored hash shorter than 2 bytes or with a byte >= 0x80 in the first two")
}
