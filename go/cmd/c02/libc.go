package main

/*
#cgo LDFLAGS: -lcrypt
#include <crypt.h>
#include <stdlib.h>
#include <string.h>

static struct crypt_data c02_cd;

// traditional DES crypt(3) of the C string key with the two salt characters; "" when libc refuses.
static const char *c02_crypt(const char *key, const char *salt) {
	memset(&c02_cd, 0, sizeof c02_cd);
	char *r = crypt_r(key, salt, &c02_cd);
	if (r == NULL) return "";
	return r;
}
*/
import "C"

import "unsafe"

// libcCrypt is the property's own specification of clause (a): libc crypt(3) (libxcrypt, DES) on the C reading of
// the password (bytes before the first NUL) and a two-character salt.  Used only as an oracle, never as proof.
func libcCrypt(pw []byte, salt []byte) string {
	n := 0
	for n < len(pw) && pw[n] != 0 {
		n++
	}
	k := C.CString(string(pw[:n]))
	s := C.CString(string(salt[:2]))
	defer C.free(unsafe.Pointer(k))
	defer C.free(unsafe.Pointer(s))
	return C.GoString(C.c02_crypt(k, s))
}
