package main

// Pass `login` of C02: histories of logins and changes of the stored hash, through the real callers of
// cmbbs.CheckPasswd — ptt.LoginQuery, ptt.Login, ptt.CheckPasswd, ptt.ChangePasswd — and outside writes of the hash
// (cmbbs.PasswdUpdatePasswd), on a private BBSHOME.  The clause: at every point of every history a password is
// accepted exactly when crypt(3) of it equals the hash stored NOW; nothing remembered from earlier calls may decide.
//
// op lines (ids, passwords, hashes in hex; "-" is empty)
//
//	reset <u1,u2,…>                                the users of this history (existing records)
//	sethash <u> <hash14>                           cmbbs.PasswdUpdatePasswd               -> ok | refused
//	login|loginfull|checkpw <u> <pw> <want>        ptt.LoginQuery | ptt.Login | ptt.CheckPasswd -> ok | refused | PANIC
//	chpw <u> <old> <new> <num> <seed> <want>       ptt.ChangePasswd under rand.Seed(seed)  -> ok | refused | PANIC
//	stored <u>                                     cmbbs.PasswdQueryPasswd                -> hash hex | refused
//	race <u> <hashA> <A> <B> <num> <seed> <trials> a full ptt.Login(u, A) IN FLIGHT while ptt.ChangePasswd(u, A -> B) completes:
//	                                               per trial the hash is set to hashA, ChangePasswd runs in a goroutine and
//	                                               Login starts after a varied delay, so that the change lands between
//	                                               Login's load of the record and its write-back of the login statistics.
//	                                               Login never writes the hash: whatever the interleaving, afterwards the
//	                                               stored hash is GenPasswd(B) -> ok | refused (= the answer of ChangePasswd)
//	lrace <u> <hashA> <A> <B> <num> <seed>         the same interleaving, FORCED: the hash is set to hashA, then a full ptt.Login(u, A)
//	                                               runs with ptt.ChangePasswd(u, A -> B) completing at the schedule point
//	                                               login.afterQuery (between LoginQuery and userLogin; when the login is
//	                                               refused the point is never reached and the change runs afterwards)
//	                                               -> <login>,<change>,<hash stored at the end | none>
//	parcheck <rounds> <u1>:<pw1>,<u2>:<pw2>,…      ptt.CheckPasswd of SEVERAL users at once, one goroutine per pair, <rounds> calls each
//	                                               -> per pair ok | refused | mixed | PANIC (comma separated); every
//	                                               call is decided by that user's own stored hash, whoever else is checking
//	blogin|bcheckpw <u> <pw> <want>                bbs.Login | bbs.CheckPasswd (the string-taking entry points)
//	bchpw <u> <old> <new> <num> <seed> <want>      bbs.ChangePasswd
//
// The bbs layer must hand the password bytes to the check unchanged (white space, control bytes, NUL are password
// bytes like any other): the model runs blogin/bcheckpw/bchpw exactly as login/checkpw/chpw.
// Stored hashes are arbitrary 14-byte values (sethash): whatever the hash is, a candidate is accepted only if
// crypt(candidate, hash) == hash; a panic / error is a refusal, never an acceptance.
//
// want = accept|reject|any is the verdict of the property from the harness's own bookkeeping (which plaintext the
// stored hash was made from, compared by the effective DES key); the model ignores it.
//
// P-hat, independent of the model:
//
//	login:stale-password-accepted   a password is accepted although the hash stored now was made from another key
//	login:current-password-refused  the password the stored hash was made from is refused
//	login:disagrees-stored-hash     the answer differs from libc crypt(pw, h[:2]) == h for the well-formed hash h that
//	                                PasswdQueryPasswd reads at that moment
//	login:unverifiable-hash-accepted a candidate is accepted although the stored hash is one no password can produce
//	chpw:record-changed-without-auth the stored hash changed although ChangePasswd did not succeed
//	race:login-overwrote-changed-hash after a successful ChangePasswd(A -> B) concurrent with a login, the stored hash does
//	                                not verify B or still verifies A
//	crash:login                     a panic / stall in any of these calls (not judged when the stored hash has a byte
//	                                >= 0x80 in a salt position: Fcrypt panics there, outside the salt domain; recorded)

import (
	"bytes"
	"fmt"
	"math/rand"
	"os"
	"strconv"
	"strings"
	"sync"
	"time"

	"github.com/Ptt-official-app/go-pttbbs/bbs"
	"github.com/Ptt-official-app/go-pttbbs/cache"
	"github.com/Ptt-official-app/go-pttbbs/cmbbs"
	"github.com/Ptt-official-app/go-pttbbs/ptt"
	"github.com/Ptt-official-app/go-pttbbs/ptttype"
	"github.com/Ptt-official-app/go-pttbbs/verifhook"
	"verifharness/internal/bbsenv"
	"verifharness/internal/hx"
)

func toUserID(b []byte) *ptttype.UserID_t {
	u := &ptttype.UserID_t{}
	copy(u[:], b)
	return u
}

var loginIP = func() *ptttype.IPv4_t {
	ip := &ptttype.IPv4_t{}
	copy(ip[:], []byte("127.0.0.1"))
	return ip
}()

func uidOf(u []byte) ptttype.UID {
	if len(u) == 0 || u[0] == 0 {
		return 0
	}
	uid, err := cache.SearchUserRaw(toUserID(u), nil)
	if err != nil {
		return 0
	}
	return uid
}

// storedNow reads the hash currently in the user's record (nil if there is no such record).
func storedNow(u []byte) []byte {
	uid := uidOf(u)
	if !uid.IsValid() {
		return nil
	}
	h, err := cmbbs.PasswdQueryPasswd(uid)
	if err != nil || h == nil {
		return nil
	}
	return append([]byte{}, h[:]...)
}

func judgeAnswer(idx int, call string, u, pw []byte, before []byte, want, out string) {
	hib := len(before) >= 2 && (before[0] >= 0x80 || before[1] >= 0x80)
	if out == "PANIC" || out == "TIMEOUT" {
		if !(hib && out == "PANIC") {
			run.Fail(idx, "crash:login", fmt.Sprintf("%s(%q, %q): %s %s", call, u, pw, out, hx.LastPanic))
		}
		return
	}
	if hib && out == "ok" {
		run.Fail(idx, "login:unverifiable-hash-accepted", fmt.Sprintf("%s(%q, %q) succeeded although the stored hash %q has a salt byte >= 0x80: crypt(3) of no password equals it", call, u, pw, before))
		return
	}
	if want == "reject" && out == "ok" {
		run.Fail(idx, "login:stale-password-accepted", fmt.Sprintf("%s(%q, %q) succeeded although the hash stored at that moment is %q, made from a password with another effective key", call, u, pw, before))
	}
	if want == "accept" && out != "ok" {
		run.Fail(idx, "login:current-password-refused", fmt.Sprintf("%s(%q, %q) = %s although the hash stored at that moment, %q, was made from this effective key", call, u, pw, out, before))
	}
	if wellFormedHash(before) {
		exp := "refused"
		if libcCrypt(pw, before) == string(before[:13]) {
			exp = "ok"
		}
		if out != exp {
			run.Fail(idx, "login:disagrees-stored-hash", fmt.Sprintf("%s(%q, %q) = %s, but libc crypt(3) of the password under the stored hash %q says %s", call, u, pw, out, before, exp))
		}
	}
}

func execLogin(line string, nontrivial bool) (out string, idx int) {
	ws := strings.Fields(line)
	bad := func() (string, int) { return "bad-op", run.Op(line, "bad-op", "bad-op", false) }
	if len(ws) == 0 {
		return bad()
	}
	okWant := func(w string) bool { return w == "accept" || w == "reject" || w == "any" }
	switch ws[0] {
	case "reset":
		if len(ws) != 2 {
			return bad()
		}
		if loginEnv != nil {
			_ = loginEnv.ResetSHM() // frees the session table (a full login takes one of 31 slots)
		}
		return "ok", run.Op(line, "ok", "reset", false)
	case "sethash":
		if len(ws) != 3 {
			return bad()
		}
		u, h := hx.UnHex(ws[1]), hx.UnHex(ws[2])
		out = hx.Call(func() string {
			uid := uidOf(u)
			if !uid.IsValid() {
				return "refused"
			}
			ph := &ptttype.Passwd_t{}
			copy(ph[:], h)
			if err := cmbbs.PasswdUpdatePasswd(uid, ph); err != nil {
				return "refused"
			}
			return "ok"
		})
		return out, run.Op(line, out, "sethash:"+out, nontrivial)
	case "login", "loginfull", "checkpw", "blogin", "bcheckpw":
		if len(ws) != 4 || !okWant(ws[3]) {
			return bad()
		}
		u, pw := hx.UnHex(ws[1]), hx.UnHex(ws[2])
		before := storedNow(u)
		call := map[string]string{"login": "ptt.LoginQuery", "loginfull": "ptt.Login", "checkpw": "ptt.CheckPasswd",
			"blogin": "bbs.Login", "bcheckpw": "bbs.CheckPasswd"}[ws[0]]
		out = hx.Call(func() string {
			var err error
			switch ws[0] {
			case "login":
				_, _, err = ptt.LoginQuery(toUserID(u), append([]byte{}, pw...), loginIP)
			case "loginfull":
				_, _, err = ptt.Login(toUserID(u), append([]byte{}, pw...), loginIP)
			case "blogin":
				_, err = bbs.Login(string(u), string(pw), "127.0.0.1")
			case "bcheckpw":
				err = bbs.CheckPasswd(bbs.UUserID(string(u)), string(pw), "127.0.0.1")
			default:
				err = ptt.CheckPasswd(toUserID(u), append([]byte{}, pw...), loginIP)
			}
			if err != nil {
				return "refused"
			}
			return "ok"
		})
		idx = run.Op(line, out, ws[0]+":"+ws[3]+":"+out, nontrivial)
		judgeAnswer(idx, call, u, pw, before, ws[3], out)
		return
	case "chpw", "bchpw":
		if len(ws) != 7 || !okWant(ws[6]) {
			return bad()
		}
		u, old, nw := hx.UnHex(ws[1]), hx.UnHex(ws[2]), hx.UnHex(ws[3])
		num, e1 := strconv.Atoi(ws[4])
		seed, e2 := strconv.ParseInt(ws[5], 10, 64)
		if e1 != nil || e2 != nil {
			return bad()
		}
		if numFor(seed) != num {
			seed = seedWith(0, func(n int) bool { return n == num })
		}
		before := storedNow(u)
		rand.Seed(seed) //nolint:staticcheck
		out = hx.Call(func() string {
			var err error
			if ws[0] == "bchpw" {
				err = bbs.ChangePasswd(bbs.UUserID(string(u)), string(old), string(nw), "127.0.0.1")
			} else {
				err = ptt.ChangePasswd(toUserID(u), append([]byte{}, old...), append([]byte{}, nw...), loginIP)
			}
			if err != nil {
				return "refused"
			}
			return "ok"
		})
		idx = run.Op(line, out, ws[0]+":"+ws[6]+":"+out, nontrivial)
		judgeAnswer(idx, map[string]string{"chpw": "ptt.ChangePasswd", "bchpw": "bbs.ChangePasswd"}[ws[0]]+"(old password)", u, old, before, ws[6], out)
		if out != "ok" {
			if after := storedNow(u); !bytes.Equal(after, before) {
				run.Fail(idx, "chpw:record-changed-without-auth", fmt.Sprintf("ChangePasswd(%q, old %q, new %q) = %s, but the stored hash went from %q to %q", u, old, nw, out, before, after))
			}
		}
		if out == "ok" && len(nw) > 0 && nw[0] != 0 {
			// clause (b) at the caller: the hash stored by a successful change verifies the new password
			if h := storedNow(u); h != nil {
				if ok, _ := cmbbs.CheckPasswd(h, append([]byte{}, nw...)); !ok {
					run.Fail(idx, "login:current-password-refused", fmt.Sprintf("after ChangePasswd(%q, …, %q) the stored hash %q does not verify the new password", u, nw, h))
				}
			}
		}
		return
	case "race":
		if len(ws) != 8 {
			return bad()
		}
		u, hA, A, B := hx.UnHex(ws[1]), hx.UnHex(ws[2]), hx.UnHex(ws[3]), hx.UnHex(ws[4])
		num, e1 := strconv.Atoi(ws[5])
		seed, e2 := strconv.ParseInt(ws[6], 10, 64)
		trials, e3 := strconv.Atoi(ws[7])
		if e1 != nil || e2 != nil || e3 != nil || trials < 1 || trials > 2000 {
			return bad()
		}
		if numFor(seed) != num {
			seed = seedWith(0, func(n int) bool { return n == num })
		}
		uid := uidOf(u)
		rr := hx.NewRand(uint64(seed))
		failMsg := ""
		judged, lost := 0, 0
		out = hx.CallT(60*time.Second, func() string {
			if !uid.IsValid() {
				return "refused"
			}
			// how long a login takes here (sequential, the minimum of a few)
			tl := time.Duration(1 << 62)
			for k := 0; k < 4; k++ {
				ph := &ptttype.Passwd_t{}
				copy(ph[:], hA)
				_ = cmbbs.PasswdUpdatePasswd(uid, ph)
				t0 := time.Now()
				_, _, _ = ptt.Login(toUserID(u), append([]byte{}, A...), loginIP)
				if d := time.Since(t0); d < tl {
					tl = d
				}
			}
			// another hash of the same password: the outside write that lands while the login is in flight
			h1 := append([]byte(libcCrypt(A, []byte{alphabet[rr.Intn(64)], alphabet[rr.Intn(64)]})), 0)
			if bytes.Equal(h1, hA) {
				h1 = append([]byte(libcCrypt(A, []byte("zz"))), 0)
			}
			for t := 0; t < trials; t++ {
				if t%16 == 0 && loginEnv != nil {
					_ = loginEnv.ResetSHM() // free the sessions of the earlier trials
				}
				ph := &ptttype.Passwd_t{}
				copy(ph[:], hA)
				if err := cmbbs.PasswdUpdatePasswd(uid, ph); err != nil {
					return "refused"
				}
				started := make(chan time.Time, 1)
				done := make(chan error, 1)
				go func() {
					started <- time.Now()
					_, _, err := ptt.Login(toUserID(u), append([]byte{}, A...), loginIP)
					done <- err
				}()
				t0 := <-started
				// the write lands in the FIRST part of the login: after the record was loaded for the password check, well
				// before the login re-reads the record to save its statistics
				delay := time.Duration(rr.Intn(int(tl)*35/100+1)) * time.Nanosecond
				for time.Since(t0) < delay {
				}
				p1 := &ptttype.Passwd_t{}
				copy(p1[:], h1)
				errW := cmbbs.PasswdUpdatePasswd(uid, p1)
				late := time.Since(t0) > tl*45/100 // this goroutine was held up: the write may have landed anywhere
				errL := <-done
				if errW != nil || errL != nil || late {
					continue
				}
				judged++
				h := storedNow(u)
				if !bytes.Equal(h, h1) {
					lost++
					if failMsg == "" {
						failMsg = fmt.Sprintf("trial %d: ptt.Login(%q, %q) in flight (a login takes %v here); %v after its start the stored hash was replaced by %q (PasswdUpdatePasswd returned nil); when the login had finished the stored hash was %q again - the hash the login had loaded for its password check",
							t, u, A, tl, delay, h1, h)
					}
				}
			}
			// leave a state that does not depend on timing: the change once more, with no login in flight
			ph := &ptttype.Passwd_t{}
			copy(ph[:], hA)
			if err := cmbbs.PasswdUpdatePasswd(uid, ph); err != nil {
				return "refused"
			}
			rand.Seed(seed) //nolint:staticcheck
			if err := ptt.ChangePasswd(toUserID(u), append([]byte{}, A...), append([]byte{}, B...), loginIP); err != nil {
				return "refused"
			}
			return "ok"
		})
		idx = run.Op(line, out, "race:"+out, nontrivial)
		if out == "PANIC" || out == "TIMEOUT" {
			run.Fail(idx, "crash:login", fmt.Sprintf("race %q: %s %s", u, out, hx.LastPanic))
		}
		raceJudged += judged
		raceLost += lost
		if failMsg != "" {
			// The login's write-back of its statistics is a read-modify-write of the whole record.  A login that carries the
			// hash it loaded for the password check all the way to that write-back loses the change whenever the change
			// completes anywhere during the login (a large share of the trials); a login that re-reads the record just before
			// writing loses it only in the few microseconds between that read and the write (a few trials in a thousand).
			if lost*5 > judged {
				run.Fail(idx, "race:login-overwrote-changed-hash", fmt.Sprintf("%d of %d trials lost the change; first: %s", lost, judged, failMsg))
			} else {
				run.Note(fmt.Sprintf("lost update although the write landed in the first part of the login (held-up goroutine, or the narrow read..write window of pwcuLoginSave): %d of %d trials; first: %s", lost, judged, failMsg))
			}
		}
		return
	case "lrace":
		if len(ws) != 7 {
			return bad()
		}
		u, hA, A, B := hx.UnHex(ws[1]), hx.UnHex(ws[2]), hx.UnHex(ws[3]), hx.UnHex(ws[4])
		num, e1 := strconv.Atoi(ws[5])
		seed, e2 := strconv.ParseInt(ws[6], 10, 64)
		if e1 != nil || e2 != nil {
			return bad()
		}
		if numFor(seed) != num {
			seed = seedWith(0, func(n int) bool { return n == num })
		}
		uid := uidOf(u)
		if loginEnv != nil {
			_ = loginEnv.ResetSHM() // a full login takes one of 31 session slots
		}
		fired := false
		chg := "-"
		change := func() string {
			rand.Seed(seed) //nolint:staticcheck
			if err := ptt.ChangePasswd(toUserID(u), append([]byte{}, A...), append([]byte{}, B...), loginIP); err != nil {
				return "refused"
			}
			return "ok"
		}
		var afterChange []byte
		out = hx.CallT(30*time.Second, func() string {
			if !uid.IsValid() {
				return "refused"
			}
			ph := &ptttype.Passwd_t{}
			copy(ph[:], hA)
			if err := cmbbs.PasswdUpdatePasswd(uid, ph); err != nil {
				return "refused"
			}
			verifhook.SetOnPoint(func(name string) {
				if name == "login.afterQuery" && !fired {
					fired = true
					chg = change()
					afterChange = storedNow(u)
				}
			})
			_, _, errL := ptt.Login(toUserID(u), append([]byte{}, A...), loginIP)
			verifhook.SetOnPoint(nil)
			lg := "ok"
			if errL != nil {
				lg = "refused"
			}
			if !fired {
				chg = change()
				afterChange = storedNow(u)
			}
			hs := "none"
			if h := storedNow(u); h != nil {
				hs = hx.Hex(h)
			}
			return lg + "," + chg + "," + hs
		})
		verifhook.SetOnPoint(nil)
		idx = run.Op(line, out, fmt.Sprintf("lrace:inflight=%v:%s", fired, chg), nontrivial)
		if out == "PANIC" || out == "TIMEOUT" {
			hib := len(hA) >= 2 && (hA[0] >= 0x80 || hA[1] >= 0x80)
			if !(hib && out == "PANIC") {
				run.Fail(idx, "crash:login", fmt.Sprintf("lrace %q: %s %s", u, out, hx.LastPanic))
			}
			return
		}
		if chg == "ok" {
			// P-hat: the change reported success; whatever else was in flight, the hash stored afterwards is the one the
			// change stored, it verifies B and (for another effective key) no longer A
			h := storedNow(u)
			okB, _ := cmbbs.CheckPasswd(append([]byte{}, h...), append([]byte{}, B...))
			okA, _ := cmbbs.CheckPasswd(append([]byte{}, h...), append([]byte{}, A...))
			stale := desKey(A) != desKey(B) && okA
			fresh := len(B) > 0 && B[0] != 0
			if !bytes.Equal(h, afterChange) || (fresh && !okB) || stale {
				run.Fail(idx, "race:login-overwrote-changed-hash", fmt.Sprintf("ptt.Login(%q, %q) in flight=%v; ptt.ChangePasswd(%q -> %q) returned nil and stored %q; when the login had finished the stored hash was %q (verifies new password: %v, old password: %v)",
					u, A, fired, A, B, afterChange, h, okB, okA))
			}
		}
		return
	case "parcheck":
		if len(ws) != 3 {
			return bad()
		}
		rounds, e1 := strconv.Atoi(ws[1])
		pairs := strings.Split(ws[2], ",")
		if e1 != nil || rounds < 1 || rounds > 5000 || len(pairs) < 1 || len(pairs) > 16 {
			return bad()
		}
		us, pws := make([][]byte, len(pairs)), make([][]byte, len(pairs))
		for k, p := range pairs {
			uw := strings.Split(p, ":")
			if len(uw) != 2 {
				return bad()
			}
			us[k], pws[k] = hx.UnHex(uw[0]), hx.UnHex(uw[1])
		}
		befores := make([][]byte, len(pairs))
		for k := range pairs {
			befores[k] = storedNow(us[k])
		}
		results := make([]string, len(pairs))
		out = hx.CallT(120*time.Second, func() string {
			var wg sync.WaitGroup
			start := make(chan struct{})
			for k := range pairs {
				wg.Add(1)
				go func(k int) {
					defer wg.Done()
					<-start
					res := ""
					for r := 0; r < rounds; r++ {
						cur := func() (c string) {
							defer func() {
								if recover() != nil {
									c = "PANIC"
								}
							}()
							if err := ptt.CheckPasswd(toUserID(us[k]), append([]byte{}, pws[k]...), loginIP); err != nil {
								return "refused"
							}
							return "ok"
						}()
						if res == "" {
							res = cur
						} else if res != cur {
							res = "mixed"
						}
					}
					results[k] = res
				}(k)
			}
			close(start)
			wg.Wait()
			return strings.Join(results, ",")
		})
		idx = run.Op(line, out, fmt.Sprintf("parcheck:%d-users", len(pairs)), nontrivial)
		if out == "PANIC" || out == "TIMEOUT" {
			run.Fail(idx, "crash:login", fmt.Sprintf("parcheck: %s %s", out, hx.LastPanic))
			return
		}
		for k := range pairs {
			if !wellFormedHash(befores[k]) {
				continue
			}
			exp := "refused"
			if libcCrypt(pws[k], befores[k]) == string(befores[k][:13]) {
				exp = "ok"
			}
			if results[k] != exp {
				run.Fail(idx, "par:answer-from-another-record", fmt.Sprintf("%d users checked their passwords at once (%d calls each): ptt.CheckPasswd(%q, %q) answered %s, but the hash stored for this user, %q, says %s under libc crypt(3)",
					len(pairs), rounds, us[k], pws[k], results[k], befores[k], exp))
				break
			}
		}
		return
	case "stored":
		if len(ws) != 2 {
			return bad()
		}
		u := hx.UnHex(ws[1])
		out = hx.Call(func() string {
			h := storedNow(u)
			if h == nil {
				return "refused"
			}
			return hx.Hex(h)
		})
		return out, run.Op(line, out, "stored", nontrivial)
	}
	return bad()
}

// ---- bookkeeping of the generator: what the property says about the next answer ------------------------------

type acct struct {
	known  bool    // the stored hash was made from a known plaintext
	locked bool    // the all-zero hash, or an arbitrary hash that no candidate of the pool verifies against
	key    [8]byte // its effective key
}

type book map[string]*acct

func (b book) want(u, pw []byte) string {
	a, ok := b[string(u)]
	if !ok {
		return "reject" // no such record
	}
	if a.locked {
		return "reject"
	}
	if !a.known {
		return "any"
	}
	if desKey(pw) == a.key {
		return "accept"
	}
	return "reject"
}

func (b book) setPlain(u, pw []byte) {
	a := b[string(u)]
	if a == nil {
		return
	}
	if len(pw) == 0 || pw[0] == 0 {
		*a = acct{locked: true}
		return
	}
	*a = acct{known: true, key: desKey(pw)}
}

var loginUsers = [][]byte{[]byte("SYSOP"), []byte("CodingMan"), []byte("pichu"), []byte("Kahou"), []byte("test"), []byte("aska"), []byte("Ptt"), []byte("michael")}

var loginPws = [][]byte{
	[]byte("123123"), []byte("s3cr3t-9"), []byte("third-pw"), []byte("abcdefgh"), []byte("abcdefghXYZ"), []byte("abcdefgi"),
	[]byte("\xe1bcdefgh"), []byte("abc\x00defg"), []byte("abc"), []byte("Abc"), []byte("p"), []byte("\x80"), {},
	[]byte("\x00nul-first"), []byte("a-much-longer-password-0123456789"),
}

// passwords whose first eight bytes begin or end with (Unicode) white space, control bytes or a NUL: the string
// entry points of the bbs layer must hand them to the check byte for byte.
var spacePws = [][]byte{
	[]byte("123123 "), []byte("123123\n"), []byte(" 123123"), []byte("123123\t"), []byte("123123\r\n"), []byte("123123\u00a0"),
	[]byte("\u0085pw1"), []byte(" pw1"), []byte("pw3\n"), []byte("pw3"), []byte("pw1"), []byte("\x0bpw"), []byte("pw\x0c"),
	[]byte("\u2003em"), []byte("a b c d "), []byte("pw\x00 x"), []byte("\x01\x02pw\x7f"), []byte("  "), []byte(" "),
}

type hist struct {
	b     book
	users [][]byte
	r     *hx.Rand
}

func newHist(r *hx.Rand, users [][]byte) *hist {
	h := &hist{b: book{}, users: users, r: r}
	names := make([]string, len(users))
	for i, u := range users {
		names[i] = hx.Hex(u)
		h.b[string(u)] = &acct{}
	}
	execLogin("reset "+strings.Join(names, ","), false)
	return h
}

// madeHash: a hash of pw made outside the code under test (libc, alphabet salt) or by the real GenPasswd.
func (h *hist) madeHash(pw []byte) []byte {
	if len(pw) == 0 || pw[0] == 0 {
		return make([]byte, 14)
	}
	if h.r.Intn(4) == 0 {
		g, err := cmbbs.GenPasswd(append([]byte{}, pw...))
		if err == nil && g != nil {
			return append([]byte{}, g[:]...)
		}
	}
	return append([]byte(libcCrypt(pw, genSalt(h.r))), 0)
}

func (h *hist) sethash(u, pw []byte) {
	out, _ := execLogin("sethash "+hx.Hex(u)+" "+hx.Hex(h.madeHash(pw)), true)
	if out == "ok" {
		h.b.setPlain(u, pw)
	}
}

func (h *hist) setraw(u, hash []byte) {
	out, _ := execLogin("sethash "+hx.Hex(u)+" "+hx.Hex(hash), true)
	if out == "ok" {
		if a := h.b[string(u)]; a != nil {
			// an all-zero or arbitrary hash: no candidate is to be accepted (a chance hit of a random 64-bit hash is
			// out of reach; such hashes are drawn fresh, never derived from a pool password)
			*a = acct{locked: true}
		}
	}
}

// junkHash: an arbitrary stored hash — salt bytes >= 0x80, non-alphabet 7-bit salts, NUL salts, damaged tails.
func junkHash(r *hx.Rand) []byte {
	h := r.Bytes(14, nil)
	switch r.Intn(7) {
	case 0:
		h[0] |= 0x80
	case 1:
		h[1] |= 0x80
	case 2:
		h[0], h[1] = 0xff, 0xff
	case 3: // 7-bit salt outside the alphabet, alphabet body
		h[0], h[1] = byte(1+r.Intn(45)), byte(123+r.Intn(5))
		for i := 2; i < 13; i++ {
			h[i] = alphabet[r.Intn(64)]
		}
		h[13] = 0
	case 4: // NUL salt bytes
		h[0], h[1] = 0, byte(r.Intn(2))*alphabet[r.Intn(64)]
	case 5: // a well-formed alphabet hash of nothing we know
		for i := 0; i < 13; i++ {
			h[i] = alphabet[r.Intn(64)]
		}
		h[13] = 0
	default: // a real hash with the high bit set on a salt byte
		g := []byte(libcCrypt(genKeyPw(r), genSalt(r)))
		copy(h, g)
		h[13] = 0
		h[r.Intn(2)] |= 0x80
	}
	return h
}

func (h *hist) login(kind string, u, pw []byte) {
	execLogin(kind+" "+hx.Hex(u)+" "+hx.Hex(pw)+" "+h.b.want(u, pw), true)
}

func (h *hist) chpw(u, old, nw []byte) { h.chpwK("chpw", u, old, nw) }

func (h *hist) chpwK(kind string, u, old, nw []byte) {
	seed := int64(h.r.U64() >> 1)
	w := h.b.want(u, old)
	out, _ := execLogin(fmt.Sprintf("%s %s %s %s %d %d %s", kind, hx.Hex(u), hx.Hex(old), hx.Hex(nw), numFor(seed), seed, w), true)
	if out == "ok" {
		h.b.setPlain(u, nw)
	}
}

// lrace: a full login with password A while the stored hash (made from A or from another password) is changed A -> B
// at the schedule point between the login's halves.
func (h *hist) lrace(u, stored, A, B []byte) {
	seed := int64(h.r.U64() >> 1)
	out, _ := execLogin(fmt.Sprintf("lrace %s %s %s %s %d %d", hx.Hex(u), hx.Hex(h.madeHash(stored)), hx.Hex(A), hx.Hex(B), numFor(seed), seed), true)
	parts := strings.Split(out, ",")
	switch {
	case len(parts) == 3 && parts[1] == "ok":
		h.b.setPlain(u, B)
	case len(parts) == 3:
		h.b.setPlain(u, stored)
	default:
		if a := h.b[string(u)]; a != nil {
			*a = acct{}
		}
	}
}

func (h *hist) stored(u []byte) { execLogin("stored "+hx.Hex(u), false) }

var loginOps = map[string]bool{"reset": true, "sethash": true, "login": true, "loginfull": true, "checkpw": true, "chpw": true, "stored": true,
	"blogin": true, "bcheckpw": true, "bchpw": true, "race": true, "lrace": true, "parcheck": true}

var loginEnv *bbsenv.Env

var raceJudged, raceLost int

func replayAny(lines []string) {
	needEnv := false
	for _, l := range lines {
		if ws := strings.Fields(l); len(ws) > 0 && loginOps[ws[0]] {
			needEnv = true
		}
	}
	if needEnv {
		env, err := bbsenv.New(bbsenv.Options{})
		if err != nil {
			fmt.Fprintln(os.Stderr, "c02: bbsenv:", err)
			os.Exit(2)
		}
		defer env.Close()
		loginEnv = env
	}
	for _, l := range lines {
		if ws := strings.Fields(l); len(ws) > 0 && loginOps[ws[0]] {
			execLogin(l, true)
		} else {
			exec(l, true)
		}
	}
}

func loginMain() {
	env, err := bbsenv.New(bbsenv.Options{})
	if err != nil {
		fmt.Fprintln(os.Stderr, "c02 login: bbsenv:", err)
		os.Exit(2)
	}
	defer env.Close()
	loginEnv = env
	r := run.R
	run.Rule = "histories on a private BBSHOME over 8 existing users and a pool of 15 passwords (shared 8-byte prefix, bit-7 twin, embedded / leading NUL, empty, long): " +
		"every history starts with reset + a hash for each user made outside the code (libc, alphabet salt) or by GenPasswd; enumerated shapes, smallest first, for every ordered pair of distinct-key passwords: " +
		"login A / replace the stored hash by that of B (outside write, or ChangePasswd) / login A again BEFORE any login with B / login B; the same without the first login; with ptt.CheckPasswd; lock by the zero hash; " +
		"re-salt the same password; a second user in between; then random histories of 5..40 ops; a few full ptt.Login (sessions are limited); unknown and invalid ids. " +
		"distinct = distinct op lines; nontrivial = reaches CheckPasswd through a caller"

	th := run.Thorough()

	// distinct-key ordered pairs of pool passwords (non-empty keys first)
	type pair struct{ a, b []byte }
	var pairs []pair
	for _, a := range loginPws {
		for _, b := range loginPws {
			if desKey(a) != desKey(b) && len(a) > 0 && a[0] != 0 {
				pairs = append(pairs, pair{a, b})
			}
		}
	}
	nPairs := 12
	if th {
		nPairs = len(pairs)
	}
	fullLogins := 0
	for i := 0; i < nPairs && i < len(pairs); i++ {
		p := pairs[i]
		if !th {
			p = pairs[(i*37)%len(pairs)]
			if i == 0 {
				p = pairs[0]
			}
		}
		u := loginUsers[i%len(loginUsers)]
		v := loginUsers[(i+3)%len(loginUsers)]
		for shape := 0; shape < 8; shape++ {
			h := newHist(r, [][]byte{u, v})
			h.sethash(u, p.a)
			h.sethash(v, p.b)
			switch shape {
			case 0: // outside write after a successful login
				h.login("login", u, p.a)
				h.sethash(u, p.b)
				h.login("login", u, p.a)
				h.login("login", u, p.b)
			case 1: // ChangePasswd after a successful login
				h.login("login", u, p.a)
				h.chpw(u, p.a, p.b)
				h.login("login", u, p.a)
				h.stored(u)
				h.login("login", u, p.b)
				h.chpw(u, p.a, p.a) // the old password no longer authorises a change
			case 2: // no login before the change
				h.sethash(u, p.b)
				h.login("login", u, p.a)
				h.login("login", u, p.b)
			case 3: // through ptt.CheckPasswd, and mixed with LoginQuery
				h.login("checkpw", u, p.a)
				h.login("login", u, p.a)
				h.sethash(u, p.b)
				h.login("checkpw", u, p.a)
				h.login("login", u, p.a)
				h.login("checkpw", u, p.b)
			case 4: // locked by the zero hash, then re-opened
				h.login("login", u, p.a)
				h.setraw(u, make([]byte, 14))
				h.login("login", u, p.a)
				h.sethash(u, p.a)
				h.login("login", u, p.a)
			case 5: // same password, new salt: still accepted; another user's login changes nothing
				h.login("login", u, p.a)
				h.sethash(u, p.a)
				h.login("login", u, p.a)
				h.login("login", v, p.b)
				h.login("login", v, p.a)
				h.login("login", u, p.b)
			case 6: // A -> B -> A
				h.login("login", u, p.a)
				h.chpw(u, p.a, p.b)
				h.login("login", u, p.b)
				h.chpw(u, p.b, p.a)
				h.login("login", u, p.b)
				h.login("login", u, p.a)
			case 7: // full login (session bookkeeping included), a few only: the session table is small
				if fullLogins < 6 {
					fullLogins++
					h.login("loginfull", u, p.a)
					h.sethash(u, p.b)
					h.login("loginfull", u, p.a)
					h.login("login", u, p.b)
				}
			}
		}
	}

	// bbs layer: the string-taking entry points with white space / control bytes at the ends of the first eight bytes,
	// both as the stored password (set through bbs.ChangePasswd) and as the candidate
	base := []byte("123123")
	nS := len(spacePws)
	for i := 0; i < nS; i++ {
		sp := spacePws[i]
		u := loginUsers[i%len(loginUsers)]
		h := newHist(r, [][]byte{u})
		h.sethash(u, base)
		h.login("blogin", u, base)
		h.login("blogin", u, sp) // a candidate that differs from the stored one by white space only
		h.login("bcheckpw", u, sp)
		h.chpwK("bchpw", u, sp, sp) // not authorised by the white-space variant
		h.chpwK("bchpw", u, base, sp)
		h.login("blogin", u, sp) // the password just set logs in, byte for byte
		h.login("bcheckpw", u, sp)
		h.login("blogin", u, bytes.TrimSpace(sp))
		h.login("blogin", u, base)
		if th || i%3 == 0 {
			for _, q := range spacePws {
				h.login("blogin", u, q)
			}
		}
	}

	// arbitrary stored hashes at every caller: accepted only if crypt(candidate, hash) == hash; a panic is a refusal
	nJ := 40
	if th {
		nJ = 1200
	}
	for i := 0; i < nJ; i++ {
		u := loginUsers[i%len(loginUsers)]
		h := newHist(r, [][]byte{u})
		h.sethash(u, base)
		h.login("login", u, base)
		h.setraw(u, junkHash(r))
		pw := loginPws[r.Intn(len(loginPws))]
		h.login("checkpw", u, pw)
		h.login("bcheckpw", u, base)
		h.chpw(u, pw, []byte("taken-over"))
		h.stored(u)
		h.chpwK("bchpw", u, base, []byte("taken-over"))
		h.login("login", u, []byte("taken-over"))
		h.login("login", u, pw)
		h.login("blogin", u, base)
		h.stored(u)
	}

	// a password change completing while a full login of the same user is in flight (forced at the schedule point
	// login.afterQuery): the change must survive the login's write-back of its statistics
	nL := 10
	if th {
		nL = 150
	}
	for i := 0; i < nL; i++ {
		u := loginUsers[i%len(loginUsers)]
		h := newHist(r, [][]byte{u})
		A, B := loginPws[r.Intn(len(loginPws))], loginPws[r.Intn(len(loginPws))]
		if i < 4 {
			A, B = loginPws[i%3], loginPws[(i+1)%3]
		}
		st := A
		if i%5 == 4 {
			st = loginPws[r.Intn(len(loginPws))] // the login may be refused: the change then runs after it
		}
		h.lrace(u, st, A, B)
		h.login("login", u, A)
		h.login("login", u, B)
		h.login("checkpw", u, B)
		h.stored(u)
		if i%3 == 0 {
			h.lrace(u, B, B, A) // and back, again under a login
			h.login("login", u, A)
			h.login("login", u, B)
		}
	}

	// several users checking their passwords at once: every answer is decided by that user's own record
	{
		h := newHist(r, loginUsers)
		for k, u := range loginUsers {
			h.sethash(u, loginPws[k%5])
		}
		rounds := 300
		if th {
			rounds = 3000
		}
		for pass := 0; pass < 3; pass++ {
			var ps []string
			for k, u := range loginUsers {
				pw := loginPws[k%5]
				if pass == 1 && k%3 == 0 {
					pw = loginPws[(k+1)%5] // a wrong one
				}
				if pass == 2 {
					pw = loginPws[(k+pass)%5]
				}
				ps = append(ps, hx.Hex(u)+":"+hx.Hex(pw))
			}
			execLogin(fmt.Sprintf("parcheck %d %s", rounds, strings.Join(ps, ",")), true)
		}
		execLogin("parcheck 0 "+hx.Hex(loginUsers[0])+":"+hx.Hex(loginPws[0]), false) // malformed
		execLogin("parcheck 5 "+hx.Hex(loginUsers[0]), false)
	}

	// NOT generated (round 7, time box): the `race` op (an outside write of the hash while a full ptt.Login is in flight)
	// exists and replays, but its oracle cannot yet tell a login that carries the loaded hash to its write-back from the
	// unlocked read-modify-write window pwcuLoginSave has anyway on the unchanged tree; see docs/asbuilt/C02.md.
	// random histories
	nH := 60
	if th {
		nH = 1500
	}
	for i := 0; i < nH; i++ {
		k := 2 + r.Intn(3)
		us := make([][]byte, 0, k)
		off := r.Intn(len(loginUsers))
		for j := 0; j < k; j++ {
			us = append(us, loginUsers[(off+j)%len(loginUsers)])
		}
		h := newHist(r, us)
		for _, u := range us {
			h.sethash(u, loginPws[r.Intn(len(loginPws))])
		}
		n := 5 + r.Intn(36)
		for j := 0; j < n; j++ {
			u := us[r.Intn(len(us))]
			pw := loginPws[r.Intn(len(loginPws))]
			switch x := r.Intn(100); {
			case x < 38:
				h.login("login", u, pw)
			case x < 45:
				h.login([]string{"blogin", "bcheckpw"}[r.Intn(2)], u, spacePws[r.Intn(len(spacePws))])
			case x < 55:
				h.login([]string{"checkpw", "bcheckpw"}[r.Intn(2)], u, pw)
			case x < 70:
				h.sethash(u, pw)
			case x < 82:
				h.chpw(u, pw, loginPws[r.Intn(len(loginPws))])
			case x < 88:
				h.chpwK("bchpw", u, pw, spacePws[r.Intn(len(spacePws))])
			case x < 92:
				h.stored(u)
			case x < 94:
				h.setraw(u, make([]byte, 14))
			case x < 95:
				h.setraw(u, junkHash(r))
			case x < 97: // a variant of the password: same or different effective key
				h.login("login", u, variant(r, pw))
			default:
				h.login("login", []byte("zq9x7"), pw) // no such user
			}
		}
	}

	// malformed stream: ids without a record / invalid ids (refused; recorded)
	h := newHist(r, [][]byte{loginUsers[0]})
	h.sethash(loginUsers[0], loginPws[0])
	for _, id := range [][]byte{[]byte("zq9x7"), []byte("a"), []byte("1abc"), []byte("ab!cd"), {}, []byte("toolongtoolong12")} {
		execLogin("login "+hx.Hex(id)+" "+hx.Hex(loginPws[0])+" reject", false)
		execLogin("checkpw "+hx.Hex(id)+" "+hx.Hex(loginPws[0])+" reject", false)
		execLogin(fmt.Sprintf("chpw %s %s %s %d %d reject", hx.Hex(id), hx.Hex(loginPws[0]), hx.Hex(loginPws[1]), numFor(7), 7), false)
		execLogin("sethash "+hx.Hex(id)+" "+hx.Hex(make([]byte, 14)), false)
		execLogin("stored "+hx.Hex(id), false)
	}
}
