// c13: correspondence harness for the article-id codec (property C13).
// It calls the real ptttype/bbs functions in-process and writes, per operation,
// the op line for the Lean driver and the implementation's canonical answer.
package main

import (
	"bytes"
	"flag"
	"fmt"
	"os"
	osexec "os/exec"
	"strconv"
	"strings"
	"sync"

	"github.com/Ptt-official-app/go-pttbbs/bbs"
	"github.com/Ptt-official-app/go-pttbbs/ptttype"
	"verifharness/internal/hx"
)

func fn28(b []byte) *ptttype.Filename_t {
	f := &ptttype.Filename_t{}
	copy(f[:], b)
	return f
}

// exec runs one op line on the real code.
func exec(line string) (out, label string) {
	ws := strings.Fields(line)
	switch ws[0] {
	case "fn2aidu":
		f := fn28(hx.UnHex(ws[1]))
		return hx.CallSync(func() string { return strconv.FormatUint(uint64(f.ToAidu()), 10) }), "fn2aidu"
	case "aidu2fn":
		a, _ := strconv.ParseUint(ws[1], 10, 64)
		return hx.CallSync(func() string { fn := ptttype.Aidu(a).ToFN(); return hx.Hex(fn[:]) }), "aidu2fn"
	case "aidu2aidc":
		a, _ := strconv.ParseUint(ws[1], 10, 64)
		return hx.CallSync(func() string { c := ptttype.Aidu(a).ToAidc(); return hx.Hex(c[:]) }), "aidu2aidc"
	case "aidc2aidu":
		c := &ptttype.Aidc{}
		copy(c[:], hx.UnHex(ws[1]))
		return hx.CallSync(func() string { return strconv.FormatUint(uint64(c.ToAidu()), 10) }), "aidc2aidu"
	case "toaid":
		f := fn28(hx.UnHex(ws[1]))
		return hx.CallSync(func() string { return hx.Hex([]byte(bbs.ToArticleID(f))) }), "toaid"
	case "toraw":
		a := bbs.ArticleID(hx.UnHex(ws[1]))
		return hx.CallSync(func() string { fn := a.ToRaw(); return hx.Hex(fn[:]) }), "toraw"
	}
	return "bad-op", "bad-op"
}

// ---- Filename_t.Eq ---------------------------------------------------------------------------------------

func cstrOf(b []byte) []byte {
	if i := bytes.IndexByte(b, 0); i >= 0 {
		return b[:i]
	}
	return b
}

// doEq: `eq <name> <name>`. P̂ (the specification of the comparison behind every lookup by id): two names are
// the same entry exactly when creation time and suffix — the C strings from byte 2 on — are the same.
func doEq(line string) {
	ws := strings.Fields(line)
	a, b := fn28(hx.UnHex(ws[1])), fn28(hx.UnHex(ws[2]))
	a0, b0 := *a, *b
	out := hx.CallSync(func() string {
		if a.Eq(b) {
			return "1"
		}
		return "0"
	})
	want := bytes.Equal(cstrOf(a0[2:]), cstrOf(b0[2:]))
	label := "eq:differ"
	if want {
		label = "eq:same"
	}
	i := run.Op(line, out, label, true)
	switch {
	case out == "PANIC":
		run.Fail(i, "crash:eq", "Eq panics: "+hx.LastPanic)
	case out == "1" && !want:
		run.Fail(i, "designate:eq", fmt.Sprintf("Eq holds between %q and %q, which differ in creation time or suffix", cstrOf(a0[:]), cstrOf(b0[:])))
	case out == "0" && want:
		run.Fail(i, "designate:eq", fmt.Sprintf("Eq does not hold between %q and %q, which have the same creation time and suffix", cstrOf(a0[:]), cstrOf(b0[:])))
	}
	if *a != a0 || *b != b0 {
		run.Fail(i, "alias:eq:input", "Eq changed one of the names it compares")
	}
}

// ---- result aliasing ----------------------------------------------------------------------------------------

// doHold: `hold <op> x1 … xn` calls <op> on x1 … xn, KEEPS what each call returned (the pointer, not a copy) and
// renders all of them only after the last call. P̂: what is read from a kept result then is what a call followed
// by an immediate copy gives (the functions are values: the same call answers the same whatever came before or
// after), and no call changes the input it was given.
func doHold(line string) {
	ws := strings.Fields(line)
	if len(ws) < 3 {
		run.Op(line, "bad-op", "bad-op", false)
		return
	}
	op, xs := ws[1], ws[2:]
	type kept struct {
		render func() string
		fresh  string
		input  func() bool // still as given?
	}
	var ks []kept
	bad := false
	out := hx.CallSync(func() string {
		for _, x := range xs {
			switch op {
			case "aidu2aidc":
				a, err := strconv.ParseUint(x, 10, 64)
				if err != nil {
					bad = true
					return ""
				}
				c := ptttype.Aidu(a).ToAidc()
				ks = append(ks, kept{func() string { return hx.Hex(c[:]) }, hx.Hex(c[:]), func() bool { return true }})
			case "aidu2fn":
				a, err := strconv.ParseUint(x, 10, 64)
				if err != nil {
					bad = true
					return ""
				}
				f := ptttype.Aidu(a).ToFN()
				ks = append(ks, kept{func() string { return hx.Hex(f[:]) }, hx.Hex(f[:]), func() bool { return true }})
			case "toraw":
				b, ok := unhexOK(x)
				if !ok {
					bad = true
					return ""
				}
				id := bbs.ArticleID(b)
				f := id.ToRaw()
				g := id.ToFilename()
				ks = append(ks, kept{func() string {
					if *f != *g {
						return hx.Hex(f[:]) + "!=" + hx.Hex(g[:])
					}
					return hx.Hex(f[:])
				}, hx.Hex(f[:]), func() bool { return string(id) == string(b) }})
			case "toaid":
				b, ok := unhexOK(x)
				if !ok {
					bad = true
					return ""
				}
				f := fn28(b)
				f0 := *f
				id := bbs.ToArticleID(f)
				ks = append(ks, kept{func() string { return hx.Hex([]byte(id)) }, hx.Hex([]byte(id)), func() bool { return *f == f0 }})
			case "fn2aidu":
				b, ok := unhexOK(x)
				if !ok {
					bad = true
					return ""
				}
				f := fn28(b)
				f0 := *f
				v := f.ToAidu()
				ks = append(ks, kept{func() string { return strconv.FormatUint(uint64(v), 10) }, strconv.FormatUint(uint64(v), 10), func() bool { return *f == f0 }})
			case "aidc2aidu":
				b, ok := unhexOK(x)
				if !ok {
					bad = true
					return ""
				}
				c := &ptttype.Aidc{}
				copy(c[:], b)
				c0 := *c
				v := c.ToAidu()
				ks = append(ks, kept{func() string { return strconv.FormatUint(uint64(v), 10) }, strconv.FormatUint(uint64(v), 10), func() bool { return *c == c0 }})
			default:
				bad = true
				return ""
			}
		}
		rs := make([]string, len(ks))
		for i, k := range ks {
			rs[i] = k.render()
		}
		return strings.Join(rs, " ")
	})
	if bad {
		run.Op(line, "bad-op", "bad-op", false)
		return
	}
	i := run.Op(line, out, "hold:"+op, true)
	if out == "PANIC" {
		run.Fail(i, "crash:"+op, "PANIC while holding results: "+hx.LastPanic)
		return
	}
	for j, k := range ks {
		if got := k.render(); got != k.fresh {
			run.Fail(i, "alias:"+op, fmt.Sprintf("the result of %s %s read %s right after the call and %s after %d later call(s): results share storage", op, xs[j], k.fresh, got, len(ks)-1-j))
			break
		}
	}
	for j, k := range ks {
		if !k.input() {
			run.Fail(i, "alias:"+op+":input", fmt.Sprintf("%s changed its argument %s", op, xs[j]))
			break
		}
	}
}

func unhexOK(s string) (b []byte, ok bool) {
	if s == "-" {
		return nil, true
	}
	if len(s)%2 != 0 {
		return nil, false
	}
	defer func() {
		if recover() != nil {
			b, ok = nil, false
		}
	}()
	return hx.UnHex(s), true
}

// ---- concurrent round trips -------------------------------------------------------------------------------------

func natTok(s string) (int, bool) {
	if len(s) == 0 || len(s) > 9 {
		return 0, false
	}
	for i := 0; i < len(s); i++ {
		if s[i] < '0' || s[i] > '9' {
			return 0, false
		}
	}
	v, _ := strconv.Atoi(s)
	return v, true
}

// stressChild: g goroutines (= concurrent api requests), each converting its own names to ids and back n times and
// comparing with the answers computed single-threaded before the goroutines started. Prints `fails <k> <first>`.
// Runs in a process of its own so that a -race build's detector reports can be collected from its stderr.
func stressChild(g, n int, seed uint64) {
	const tMin, tMax = 1000000000, 1<<31 - 1
	type item struct {
		f    ptttype.Filename_t
		id   bbs.ArticleID
		aidu ptttype.Aidu
		aidc ptttype.Aidc
	}
	per := 64
	items := make([][]item, g)
	r := hx.NewRand(seed)
	for a := range items {
		items[a] = make([]item, per)
		for b := range items[a] {
			it := &items[a][b]
			copy(it.f[:], name("MG"[r.Intn(2)], tMin+r.U64()%(tMax-tMin+1), r.Intn(4096)))
			it.id = bbs.ToArticleID(&it.f)
			it.aidu = it.f.ToAidu()
			it.aidc = *it.aidu.ToAidc()
		}
	}
	var mu sync.Mutex
	fails, first := 0, ""
	report := func(s string) {
		mu.Lock()
		if fails == 0 {
			first = s
		}
		fails++
		mu.Unlock()
	}
	var wg sync.WaitGroup
	for a := 0; a < g; a++ {
		wg.Add(1)
		go func(mine []item) {
			defer wg.Done()
			defer func() {
				if e := recover(); e != nil {
					report(fmt.Sprintf("panic:%v", e))
				}
			}()
			for k := 0; k < n; k++ {
				it := &mine[k%len(mine)]
				f := it.f
				id := bbs.ToArticleID(&f)
				back := id.ToRaw()
				c := it.aidu.ToAidc()
				cc := *c
				switch {
				case id != it.id:
					report(fmt.Sprintf("name %s has id %q when converted alone and %q beside other requests", cstrOf(f[:]), it.id, id))
				case *back != it.f:
					report(fmt.Sprintf("name %s -> id %q -> %s beside other requests", cstrOf(f[:]), id, cstrOf(back[:])))
				case cc != it.aidc:
					report(fmt.Sprintf("number %d has text %q when converted alone and %q beside other requests", it.aidu, it.aidc[:], cc[:]))
				case cc.ToAidu() != it.aidu:
					report(fmt.Sprintf("text %q decodes to %d beside other requests, to %d alone", cc[:], cc.ToAidu(), it.aidu))
				}
			}
		}(items[a])
	}
	wg.Wait()
	fmt.Printf("fails %d %s\n", fails, strings.ReplaceAll(first, "\n", " "))
}

func doConc(line string) {
	ws := strings.Fields(line)
	g, ok1 := natTok(ws[1])
	n, ok2 := natTok(ws[2])
	sd, ok3 := natTok(ws[3])
	if !ok1 || !ok2 || !ok3 || g < 1 || g > 256 {
		run.Op(line, "bad-op", "bad-op", false)
		return
	}
	self, _ := os.Executable()
	cmd := osexec.Command(self, "stresschild", ws[1], ws[2], ws[3])
	cmd.Env = append(os.Environ(), "GORACE=halt_on_error=0 exitcode=0")
	var so, se bytes.Buffer
	cmd.Stdout, cmd.Stderr = &so, &se
	err := cmd.Run()
	_ = sd
	fails, first := -1, ""
	if fs := strings.SplitN(strings.TrimSpace(so.String()), " ", 3); len(fs) >= 2 && fs[0] == "fails" {
		fails, _ = strconv.Atoi(fs[1])
		if len(fs) == 3 {
			first = fs[2]
		}
	}
	races := strings.Count(se.String(), "WARNING: DATA RACE")
	total, _ := run.Extra["race_detector_reports"].(int)
	run.Extra["race_detector_reports"] = total + races
	out := "ok"
	switch {
	case err != nil || fails < 0:
		out = "child-failed"
	case fails > 0:
		out = fmt.Sprintf("bad %d", fails)
	case races > 0:
		out = fmt.Sprintf("race %d", races)
	}
	i := run.Op(line, out, "conc:"+strings.Fields(out)[0], true)
	switch {
	case err != nil || fails < 0:
		run.Fail(i, "crash:conc", fmt.Sprintf("the stress process did not complete: %v %s", err, tail(se.String(), 300)))
	case fails > 0:
		run.Fail(i, "concurrent:roundtrip", fmt.Sprintf("%d of %d conversions done by %d concurrent requests differ from the same conversions done alone; first: %s", fails, g*n, g, first))
	case races > 0:
		run.Fail(i, "concurrent:datarace", fmt.Sprintf("the race detector reports %d data race(s) in the conversions of %d concurrent requests: %s", races, g, tail(firstRace(se.String()), 600)))
	}
}

func tail(s string, n int) string {
	s = strings.ReplaceAll(s, "\n", " | ")
	if len(s) > n {
		return s[:n]
	}
	return s
}

func firstRace(s string) string {
	if i := strings.Index(s, "WARNING: DATA RACE"); i >= 0 {
		return s[i:]
	}
	return s
}

var raceOnly = flag.Bool("raceonly", false, "only the concurrent round trips (race-detector pass)")

var run *hx.Run

func do(line string, nontrivial bool) (string, int) {
	if ws := strings.Fields(line); len(ws) > 0 {
		switch {
		case ws[0] == "eq" && len(ws) == 3:
			if _, ok1 := unhexOK(ws[1]); ok1 {
				if _, ok2 := unhexOK(ws[2]); ok2 {
					doEq(line)
					return "", -1
				}
			}
		case ws[0] == "hold":
			doHold(line)
			return "", -1
		case ws[0] == "conc" && len(ws) == 4:
			doConc(line)
			return "", -1
		}
	}
	out, label := exec(line)
	if out == "PANIC" {
		label += ":panic"
	}
	i := run.Op(line, out, label, nontrivial)
	if out == "PANIC" || out == "TIMEOUT" {
		// clause (iv): decoding never crashes; and the encoders are total as well.
		run.Fail(i, "crash:"+strings.Fields(line)[0], fmt.Sprintf("%s on %q: %s", out, line, hx.LastPanic))
	}
	return out, i
}

func name(ty byte, t uint64, p int) []byte {
	return []byte(fmt.Sprintf("%c.%010d.A.%03X", ty, t, p))
}

// roundTrip: P̂ for clauses (i), (ii): name -> id -> name is the identity on the domain.
func roundTrip(ty byte, t uint64, p int) {
	n := name(ty, t, p)
	f := fn28(n)
	aid, _ := do("toaid "+hx.Hex(f[:]), true)
	if aid == "PANIC" {
		return
	}
	back, i := do("toraw "+aid, true)
	if back != hx.Hex(f[:]) {
		run.Fail(i, "roundtrip", fmt.Sprintf("name %s -> id %s -> %s", n, aid, back))
	}
	do("fn2aidu "+hx.Hex(f[:]), true)
}

func main() {
	if len(os.Args) == 5 && os.Args[1] == "stresschild" {
		g, _ := strconv.Atoi(os.Args[2])
		n, _ := strconv.Atoi(os.Args[3])
		sd, _ := strconv.ParseUint(os.Args[4], 10, 64)
		stressChild(g, n, sd)
		return
	}
	run = hx.Start("C13")
	defer run.Finish()
	r := run.R
	run.Rule = "names: all 4096 suffixes x {M,G} at boundary times + random names in the domain; per digit position all 64 digit values; malformed stream: every byte value at every id position, lengths 0..12, out-of-domain times (recorded, not judged). distinct = distinct op lines; nontrivial = reaches the codec with a well-formed input or a distinct malformed class"

	if run.Replay != "" {
		for _, l := range hx.ReplayOps(run.Replay) {
			do(l, true)
		}
		return
	}
	if *raceOnly {
		run.Rule = "concurrent round trips under the Go race detector (-race build): goroutines x names, each converting its own names to ids and back and comparing with the single-threaded answers; judged by the comparison and by the detector's reports"
		for k := 0; k < 6; k++ {
			do(fmt.Sprintf("conc %d %d %d", []int{2, 4, 8, 16, 32, 8}[k], 60000, r.Intn(1000000)), true)
		}
		return
	}
	run.Rule += " | Filename_t.Eq on pairs of names that are equal / differ in exactly one field (type letter, delete mark, each time digit, each suffix digit, +-1 s) and random pairs. " +
		"result aliasing: `hold <op> x1..xn` keeps the values the codec functions RETURN (pointers included) across later calls and re-reads them; inputs must stay as given. " +
		"concurrent round trips: 2..16 goroutines x 64 names each, compared with the single-threaded answers (a process of its own; under -race in the thorough-only pass `race`)"
	streamsR4(r)

	const tMin, tMax = 1000000000, 1<<31 - 1
	// (i)/(ii): every suffix, both types, at the boundary times.
	times := []uint64{tMin, tMax, 1234567890, 1700000000}
	if !run.Thorough() {
		times = []uint64{tMin, tMax}
	}
	for _, ty := range []byte{'M', 'G'} {
		for _, t := range times {
			for p := 0; p < 4096; p++ {
				roundTrip(ty, t, p)
			}
		}
	}
	nRand := 3000
	if run.Thorough() {
		nRand = 60000
	}
	for i := 0; i < nRand; i++ {
		ty := byte('M')
		if r.Bool() {
			ty = 'G'
		}
		roundTrip(ty, tMin+r.U64()%(tMax-tMin+1), r.Intn(4096))
	}
	// delete-marked entries (".d" + the rest of the name) are encoded under their original name
	for i := 0; i < nRand/4; i++ {
		t, p := tMin+r.U64()%(tMax-tMin+1), r.Intn(4096)
		orig := fn28(name("MG"[r.Intn(2)], t, p))
		del := *orig
		del[0], del[1] = '.', 'd'
		a1, k := do("toaid "+hx.Hex(del[:]), true)
		a2 := hx.Hex([]byte(bbs.ToArticleID(fn28(name('M', t, p)))))
		if a1 != a2 {
			run.Fail(k, "deleted-id", fmt.Sprintf("delete-marked %s has id %s, its original name has %s", del[:18], a1, a2))
		}
	}

	// injectivity sample: neighbours differ
	seen := map[string]string{}
	for i := 0; i < 2000; i++ {
		t := tMin + r.U64()%1000
		p := r.Intn(8)
		ty := []byte{'M', 'G'}[r.Intn(2)]
		n := string(name(ty, t, p))
		f := fn28([]byte(n))
		aid := string(bbs.ToArticleID(f))
		if prev, ok := seen[aid]; ok && prev != n {
			i, _ := 0, 0
			_, i = do("toaid "+hx.Hex(f[:]), true)
			run.Fail(i, "injective", fmt.Sprintf("names %s and %s share id %s", prev, n, aid))
		}
		seen[aid] = n
	}

	// (iii): number <-> text, per digit position all 64 digit values, plus random 48-bit values.
	alphabet := "0123456789ABCDEFGHIJKLMNOPQRSTUVWXYZabcdefghijklmnopqrstuvwxyz-_"
	check48 := func(a uint64) {
		c, _ := do(fmt.Sprintf("aidu2aidc %d", a), true)
		if c == "PANIC" {
			return
		}
		back, i := do("aidc2aidu "+c, true)
		if back != strconv.FormatUint(a, 10) {
			run.Fail(i, "aidu-roundtrip", fmt.Sprintf("%d -> %s -> %s", a, c, back))
		}
	}
	for pos := 0; pos < 8; pos++ {
		for d := uint64(0); d < 64; d++ {
			base := r.U64() & (1<<48 - 1)
			base &^= 63 << (6 * uint(pos))
			check48(base | d<<(6*uint(pos)))
		}
	}
	for i := 0; i < nRand/3; i++ {
		check48(r.U64() & (1<<48 - 1))
	}
	check48(0)
	check48(1<<48 - 1)
	// text -> number -> text over alphabet strings
	for i := 0; i < nRand/3; i++ {
		s := make([]byte, 8)
		for j := range s {
			s[j] = alphabet[r.Intn(64)]
		}
		a, _ := do("aidc2aidu "+hx.Hex(s), true)
		if a == "PANIC" {
			continue
		}
		back, k := do("aidu2aidc "+a, true)
		if back != hx.Hex(s) {
			run.Fail(k, "aidc-roundtrip", fmt.Sprintf("%s -> %s -> %s", s, a, back))
		}
	}
	// beyond 48 bits (recorded: ToAidc keeps the low 48 bits)
	for i := 0; i < 50; i++ {
		do(fmt.Sprintf("aidu2aidc %d", r.U64()), false)
		do(fmt.Sprintf("aidu2fn %d", r.U64()), false)
	}

	// (iv) malformed stream: all byte values at each position of an 8-byte id; short/long ids.
	base := []byte("1SgjKw3x")
	for pos := 0; pos < 8; pos++ {
		for b := 0; b < 256; b++ {
			s := append([]byte{}, base...)
			s[pos] = byte(b)
			do("aidc2aidu "+hx.Hex(s), true)
			do("toraw "+hx.Hex(s), true)
		}
	}
	for l := 0; l <= 12; l++ {
		do("toraw "+hx.Hex(base2(l, r)), true)
		do("toraw "+hx.Hex(r.Bytes(l, nil)), true)
	}
	nMal := 2000
	if run.Thorough() {
		nMal = 40000
	}
	for i := 0; i < nMal; i++ {
		do("toraw "+hx.Hex(r.Bytes(r.Intn(13), nil)), true)
		do("aidc2aidu "+hx.Hex(r.Bytes(8, nil)), true)
	}
	// malformed / out-of-domain file names (recorded, compared with the model, not judged by P̂):
	fnAlpha := []byte("MG.A0123456789abcdefABCDEF+-_ \x00x")
	for i := 0; i < nMal; i++ {
		var n []byte
		switch r.Intn(4) {
		case 0: // 9-digit and >= 2^31 times, lower-case hex
			n = []byte(fmt.Sprintf("%c.%d.A.%03x", "MG"[r.Intn(2)], r.U64()%10000000000, r.Intn(4096)))
		case 1: // a valid name with one byte replaced
			n = name("MG"[r.Intn(2)], tMin+r.U64()%(tMax-tMin), r.Intn(4096))
			n[r.Intn(len(n))] = r.Pick(fnAlpha)
		case 2:
			n = r.Bytes(r.Intn(29), fnAlpha)
		default:
			n = r.Bytes(28, nil)
		}
		f := fn28(n)
		do("fn2aidu "+hx.Hex(f[:]), false)
		do("toaid "+hx.Hex(f[:]), false)
	}
}

// streamsR4: the comparison behind lookups by id, result aliasing, concurrent use.
func streamsR4(r *hx.Rand) {
	const tMin, tMax = 1000000000, 1<<31 - 1
	hexName := func(n []byte) string { f := fn28(n); return hx.Hex(f[:]) }
	nBase := 40
	if run.Thorough() {
		nBase = 1500
	}
	for k := 0; k < nBase; k++ {
		t, p := tMin+r.U64()%(tMax-tMin+1), r.Intn(4096)
		switch k { // boundary names first
		case 0:
			t, p = 1607203395, 0x00D
		case 1:
			t, p = tMin, 0
		case 2:
			t, p = tMax, 0xfff
		}
		base := name('M', t, p)
		vs := [][]byte{base, name('G', t, p)}
		d := append([]byte{}, base...)
		d[0], d[1] = '.', 'd'
		vs = append(vs, d)
		if t+1 <= tMax {
			vs = append(vs, name('M', t+1, p))
		}
		if t-1 >= tMin {
			vs = append(vs, name('M', t-1, p))
		}
		for pos := 2; pos < 12; pos++ { // one time digit
			v := append([]byte{}, base...)
			v[pos] = '0' + (v[pos]-'0'+1+byte(r.Intn(9)))%10
			vs = append(vs, v)
		}
		for pos := 15; pos < 18; pos++ { // one suffix digit
			vs = append(vs, name('M', t, p^(1<<(4*uint(17-pos)))))
		}
		vs = append(vs, base[:17], append(append([]byte{}, base...), 'x'))
		for _, v := range vs {
			do("eq "+hexName(base)+" "+hexName(v), true)
			do("eq "+hexName(v)+" "+hexName(base), true)
		}
		do("eq "+hexName(base)+" "+hexName(name("MG"[r.Intn(2)], tMin+r.U64()%(tMax-tMin+1), r.Intn(4096))), true)
	}
	// aliasing: 2..6 results kept across the later calls
	nHold := 60
	if run.Thorough() {
		nHold = 3000
	}
	rn := func() []byte { return name("MG"[r.Intn(2)], tMin+r.U64()%(tMax-tMin+1), r.Intn(4096)) }
	for k := 0; k < nHold; k++ {
		n := 2 + r.Intn(5)
		if k < 6 {
			n = 2
		}
		var nums, names, ids, aidcs []string
		for j := 0; j < n; j++ {
			f := fn28(rn())
			names = append(names, hx.Hex(f[:]))
			nums = append(nums, strconv.FormatUint(uint64(f.ToAidu()), 10))
			c := f.ToAidu().ToAidc()
			ids = append(ids, hx.Hex(c[:]))
			aidcs = append(aidcs, hx.Hex(c[:]))
		}
		for _, o := range []struct {
			op string
			xs []string
		}{{"aidu2aidc", nums}, {"aidu2fn", nums}, {"toraw", ids}, {"toaid", names}, {"fn2aidu", names}, {"aidc2aidu", aidcs}} {
			do("hold "+o.op+" "+strings.Join(o.xs, " "), true)
		}
	}
	for _, l := range []string{"hold", "hold toaid", "hold nosuch 00", "hold toaid zz", "hold aidu2fn x", "eq 00", "eq zz 00", "conc 1 2", "conc 0 1 1", "conc x 1 1"} {
		do(l, false)
	}
	// concurrent requests
	iters := 150000
	if run.Thorough() {
		iters = 400000
	}
	for _, g := range []int{2, 4, 8, 16} {
		do(fmt.Sprintf("conc %d %d %d", g, iters, r.Intn(1000000)), true)
	}
}

func base2(l int, r *hx.Rand) []byte {
	alphabet := "0123456789ABCDEFGHIJKLMNOPQRSTUVWXYZabcdefghijklmnopqrstuvwxyz-_"
	s := make([]byte, l)
	for j := range s {
		s[j] = alphabet[r.Intn(64)]
	}
	return s
}
