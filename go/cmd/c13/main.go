// c13: correspondence harness for the article-id codec (property C13).
// It calls the real ptttype/bbs functions in-process and writes, per operation,
// the op line for the Lean driver and the implementation's canonical answer.
package main

import (
	"fmt"
	"os"
	"path/filepath"
	"strconv"
	"strings"
	"syscall"

	"github.com/Ptt-official-app/go-pttbbs/bbs"
	"github.com/Ptt-official-app/go-pttbbs/ptttype"
	"verifharness/internal/hx"
)

func fn28(b []byte) *ptttype.Filename_t {
	f := &ptttype.Filename_t{}
	copy(f[:], b)
	return f
}

// exec runs one op line on the real code.
func exec(line string) (out, label string) {
	ws := strings.Fields(line)
	switch ws[0] {
	case "fn2aidu":
		f := fn28(hx.UnHex(ws[1]))
		return hx.CallSync(func() string { return strconv.FormatUint(uint64(f.ToAidu()), 10) }), "fn2aidu"
	case "aidu2fn":
		a, _ := strconv.ParseUint(ws[1], 10, 64)
		return hx.CallSync(func() string { fn := ptttype.Aidu(a).ToFN(); return hx.Hex(fn[:]) }), "aidu2fn"
	case "aidu2aidc":
		a, _ := strconv.ParseUint(ws[1], 10, 64)
		return hx.CallSync(func() string { c := ptttype.Aidu(a).ToAidc(); return hx.Hex(c[:]) }), "aidu2aidc"
	case "aidc2aidu":
		c := &ptttype.Aidc{}
		copy(c[:], hx.UnHex(ws[1]))
		return hx.CallSync(func() string { return strconv.FormatUint(uint64(c.ToAidu()), 10) }), "aidc2aidu"
	case "toaid":
		f := fn28(hx.UnHex(ws[1]))
		return hx.CallSync(func() string { return hx.Hex([]byte(bbs.ToArticleID(f))) }), "toaid"
	case "toraw":
		a := bbs.ArticleID(hx.UnHex(ws[1]))
		return hx.CallSync(func() string { fn := a.ToRaw(); return hx.Hex(fn[:]) }), "toraw"
	}
	return "bad-op", "bad-op"
}

var run *hx.Run

func do(line string, nontrivial bool) (string, int) {
	out, label := exec(line)
	if out == "PANIC" {
		label += ":panic"
	}
	i := run.Op(line, out, label, nontrivial)
	if out == "PANIC" || out == "TIMEOUT" {
		// clause (iv): decoding never crashes; and the encoders are total as well.
		run.Fail(i, "crash:"+strings.Fields(line)[0], fmt.Sprintf("%s on %q: %s", out, line, hx.LastPanic))
	}
	return out, i
}

func name(ty byte, t uint64, p int) []byte {
	return []byte(fmt.Sprintf("%c.%010d.A.%03X", ty, t, p))
}

// roundTrip: P̂ for clauses (i), (ii): name -> id -> name is the identity on the domain.
func roundTrip(ty byte, t uint64, p int) {
	n := name(ty, t, p)
	f := fn28(n)
	aid, _ := do("toaid "+hx.Hex(f[:]), true)
	if aid == "PANIC" {
		return
	}
	back, i := do("toraw "+aid, true)
	if back != hx.Hex(f[:]) {
		run.Fail(i, "roundtrip", fmt.Sprintf("name %s -> id %s -> %s", n, aid, back))
	}
	do("fn2aidu "+hx.Hex(f[:]), true)
}

func main() {
	run = hx.Start("C13")
	defer run.Finish()
	r := run.R
	run.Rule = "names: all 4096 suffixes x {M,G} at boundary times + random names in the domain; per digit position all 64 digit values; malformed stream: every byte value at every id position, lengths 0..12, out-of-domain times (recorded, not judged). distinct = distinct op lines; nontrivial = reaches the codec with a well-formed input or a distinct malformed class"

	if run.Replay != "" {
		ops := hx.ReplayOps(run.Replay)
		handOverDesignation(ops)
		for _, l := range ops {
			do(l, true)
		}
		return
	}

	const tMin, tMax = 1000000000, 1<<31 - 1
	// (i)/(ii): every suffix, both types, at the boundary times.
	times := []uint64{tMin, tMax, 1234567890, 1700000000}
	if !run.Thorough() {
		times = []uint64{tMin, tMax}
	}
	for _, ty := range []byte{'M', 'G'} {
		for _, t := range times {
			for p := 0; p < 4096; p++ {
				roundTrip(ty, t, p)
			}
		}
	}
	nRand := 3000
	if run.Thorough() {
		nRand = 60000
	}
	for i := 0; i < nRand; i++ {
		ty := byte('M')
		if r.Bool() {
			ty = 'G'
		}
		roundTrip(ty, tMin+r.U64()%(tMax-tMin+1), r.Intn(4096))
	}
	// delete-marked entries (".d" + the rest of the name) are encoded under their original name
	for i := 0; i < nRand/4; i++ {
		t, p := tMin+r.U64()%(tMax-tMin+1), r.Intn(4096)
		orig := fn28(name("MG"[r.Intn(2)], t, p))
		del := *orig
		del[0], del[1] = '.', 'd'
		a1, k := do("toaid "+hx.Hex(del[:]), true)
		a2 := hx.Hex([]byte(bbs.ToArticleID(fn28(name('M', t, p)))))
		if a1 != a2 {
			run.Fail(k, "deleted-id", fmt.Sprintf("delete-marked %s has id %s, its original name has %s", del[:18], a1, a2))
		}
	}

	// injectivity sample: neighbours differ
	seen := map[string]string{}
	for i := 0; i < 2000; i++ {
		t := tMin + r.U64()%1000
		p := r.Intn(8)
		ty := []byte{'M', 'G'}[r.Intn(2)]
		n := string(name(ty, t, p))
		f := fn28([]byte(n))
		aid := string(bbs.ToArticleID(f))
		if prev, ok := seen[aid]; ok && prev != n {
			i, _ := 0, 0
			_, i = do("toaid "+hx.Hex(f[:]), true)
			run.Fail(i, "injective", fmt.Sprintf("names %s and %s share id %s", prev, n, aid))
		}
		seen[aid] = n
	}

	// (iii): number <-> text, per digit position all 64 digit values, plus random 48-bit values.
	alphabet := "0123456789ABCDEFGHIJKLMNOPQRSTUVWXYZabcdefghijklmnopqrstuvwxyz-_"
	check48 := func(a uint64) {
		c, _ := do(fmt.Sprintf("aidu2aidc %d", a), true)
		if c == "PANIC" {
			return
		}
		back, i := do("aidc2aidu "+c, true)
		if back != strconv.FormatUint(a, 10) {
			run.Fail(i, "aidu-roundtrip", fmt.Sprintf("%d -> %s -> %s", a, c, back))
		}
	}
	for pos := 0; pos < 8; pos++ {
		for d := uint64(0); d < 64; d++ {
			base := r.U64() & (1<<48 - 1)
			base &^= 63 << (6 * uint(pos))
			check48(base | d<<(6*uint(pos)))
		}
	}
	for i := 0; i < nRand/3; i++ {
		check48(r.U64() & (1<<48 - 1))
	}
	check48(0)
	check48(1<<48 - 1)
	// text -> number -> text over alphabet strings
	for i := 0; i < nRand/3; i++ {
		s := make([]byte, 8)
		for j := range s {
			s[j] = alphabet[r.Intn(64)]
		}
		a, _ := do("aidc2aidu "+hx.Hex(s), true)
		if a == "PANIC" {
			continue
		}
		back, k := do("aidu2aidc "+a, true)
		if back != hx.Hex(s) {
			run.Fail(k, "aidc-roundtrip", fmt.Sprintf("%s -> %s -> %s", s, a, back))
		}
	}
	// beyond 48 bits (recorded: ToAidc keeps the low 48 bits)
	for i := 0; i < 50; i++ {
		do(fmt.Sprintf("aidu2aidc %d", r.U64()), false)
		do(fmt.Sprintf("aidu2fn %d", r.U64()), false)
	}

	// (iv) malformed stream: all byte values at each position of an 8-byte id; short/long ids.
	base := []byte("1SgjKw3x")
	for pos := 0; pos < 8; pos++ {
		for b := 0; b < 256; b++ {
			s := append([]byte{}, base...)
			s[pos] = byte(b)
			do("aidc2aidu "+hx.Hex(s), true)
			do("toraw "+hx.Hex(s), true)
		}
	}
	for l := 0; l <= 12; l++ {
		do("toraw "+hx.Hex(base2(l, r)), true)
		do("toraw "+hx.Hex(r.Bytes(l, nil)), true)
	}
	nMal := 2000
	if run.Thorough() {
		nMal = 40000
	}
	for i := 0; i < nMal; i++ {
		do("toraw "+hx.Hex(r.Bytes(r.Intn(13), nil)), true)
		do("aidc2aidu "+hx.Hex(r.Bytes(8, nil)), true)
	}
	// malformed / out-of-domain file names (recorded, compared with the model, not judged by P̂):
	fnAlpha := []byte("MG.A0123456789abcdefABCDEF+-_ \x00x")
	for i := 0; i < nMal; i++ {
		var n []byte
		switch r.Intn(4) {
		case 0: // 9-digit and >= 2^31 times, lower-case hex
			n = []byte(fmt.Sprintf("%c.%d.A.%03x", "MG"[r.Intn(2)], r.U64()%10000000000, r.Intn(4096)))
		case 1: // a valid name with one byte replaced
			n = name("MG"[r.Intn(2)], tMin+r.U64()%(tMax-tMin), r.Intn(4096))
			n[r.Intn(len(n))] = r.Pick(fnAlpha)
		case 2:
			n = r.Bytes(r.Intn(29), fnAlpha)
		default:
			n = r.Bytes(28, nil)
		}
		f := fn28(n)
		do("fn2aidu "+hx.Hex(f[:]), false)
		do("toaid "+hx.Hex(f[:]), false)
	}
}

// handOverDesignation: a replay that is a designation history (pass `designate`, go/cmd/c13d) belongs to the
// other harness of this property. `./check --replay` routes a replay recorded from a corpus run to the first pass,
// i.e. to this binary; it then continues as the sibling binary c13d with the same arguments.
func handOverDesignation(ops []string) {
	if len(ops) == 0 || !strings.HasPrefix(ops[0], "reset ") {
		return
	}
	self, err := os.Executable()
	if err != nil {
		return
	}
	sib := filepath.Join(filepath.Dir(self), "c13d")
	if _, err := os.Stat(sib); err != nil {
		return
	}
	_ = syscall.Exec(sib, append([]string{sib}, os.Args[1:]...), os.Environ())
}

func base2(l int, r *hx.Rand) []byte {
	alphabet := "0123456789ABCDEFGHIJKLMNOPQRSTUVWXYZabcdefghijklmnopqrstuvwxyz-_"
	s := make([]byte, l)
	for j := range s {
		s[j] = alphabet[r.Intn(64)]
	}
	return s
}
