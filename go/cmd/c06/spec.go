package main

// The property oracle P̂: what a linear scan over the index says. It reads only the names the generator
// wrote (its own parser, not the repository's), never the Lean model.

import (
	"fmt"
	"regexp"
	"strconv"
	"strings"

	"verifharness/internal/hx"
)

type ent struct {
	valid    bool
	t        int32
	key      string // C string of name[2:]
	deleted  bool   // starts with ".d"
	inDomain bool   // the article-id codec round-trips this name (C13): 10-digit time below 2^31, X.t.A.HHH
}

var domainRe = regexp.MustCompile(`^(M\.|G\.|\.d)[0-9]{10}\.A\.[0-9A-F]{3}$`)

func parseEnt(name []byte) ent {
	var f [28]byte
	copy(f[:], name)
	var e ent
	v, err := strconv.Atoi(string(f[2:12]))
	e.valid = err == nil
	e.t = int32(v)
	e.key = string(cstr(f[2:]))
	e.deleted = f[0] == '.' && f[1] == 'd'
	e.inDomain = e.valid && domainRe.Match(cstr(f[:])) && v >= 1000000000 && v < 1<<31
	return e
}

func curEnts() []ent {
	es := make([]ent, len(cur))
	for i, n := range cur {
		es[i] = parseEnt(n)
	}
	return es
}

// precondition of the property: parsable entries in non-decreasing time order, (time,key) unique.
func wellFormed(es []ent) bool {
	last := int64(-1 << 40)
	seen := map[string]bool{}
	for _, e := range es {
		if !e.valid {
			continue
		}
		if int64(e.t) < last {
			return false
		}
		last = int64(e.t)
		k := fmt.Sprintf("%d/%s", e.t, e.key)
		if seen[k] {
			return false
		}
		seen[k] = true
	}
	return true
}

// specFind: the linear scan. key == nil: position by time only.
func specFind(es []ent, ct int32, key *string, desc bool) (pos int, ok bool) {
	exact, near := -1, -1
	for i, e := range es {
		if !e.valid {
			continue
		}
		if key != nil && e.t == ct && e.key == *key {
			if desc || exact < 0 {
				exact = i
			}
		}
		if desc && e.t <= ct {
			near = i
		}
		if !desc && e.t >= ct && near < 0 {
			near = i
		}
	}
	if exact >= 0 {
		return exact + 1, true
	}
	if near >= 0 {
		return near + 1, true
	}
	return 0, false
}

func cursorClass(es []ent, ct int32, key *string) string {
	first := true
	var lo, hi int32
	timePresent, exact := false, false
	for _, e := range es {
		if !e.valid {
			continue
		}
		if first {
			lo, hi, first = e.t, e.t, false
		}
		if e.t < lo {
			lo = e.t
		}
		if e.t > hi {
			hi = e.t
		}
		if e.t == ct {
			timePresent = true
			if key != nil && e.key == *key {
				exact = true
			}
		}
	}
	switch {
	case first:
		return "no-valid-entry"
	case ct < lo:
		return "before-first"
	case ct > hi:
		return "after-last"
	case exact:
		return "present"
	case timePresent && key != nil:
		return "absent-name"
	case timePresent:
		return "present-time"
	}
	return "gap"
}

func judgeFind(i int, total int, ct int64, name []byte, isNil bool, desc bool, out string) {
	if out == "PANIC" {
		run.Fail(i, "crash:find", "FindRecordStartIdx panicked: "+hx.LastPanic)
		return
	}
	if out == "TIMEOUT" {
		timeouts++
		run.Fail(i, "hang:find", "FindRecordStartIdx did not return within 2s")
		return
	}
	if total < 0 || total > len(cur) || ct < -1<<31 || ct >= 1<<31 {
		return // outside the property: recorded and compared with the model only
	}
	es := curEnts()[:total]
	if !wellFormed(es) {
		return
	}
	var key *string
	if !isNil {
		k := parseEnt(name).key
		key = &k
	}
	exp := "err:notfound"
	if p, ok := specFind(es, int32(ct), key, desc); ok {
		exp = fmt.Sprintf("ok %d", p)
	}
	if out != exp {
		stale := ""
		if total < len(cur) {
			stale = "-stale"
		}
		run.Fail(i, "scan:"+dirName(desc)+"-"+cursorClass(es, int32(ct), key)+stale,
			fmt.Sprintf("index %s total %d cursor (%d,%q) %s: FindRecordStartIdx = %s, linear scan = %s",
				showIndex(), total, ct, string(cstr(name)), dirName(desc), out, exp))
	}
}

func judgeGet(i int, total int, name []byte, out string) {
	if out == "PANIC" || out == "TIMEOUT" {
		if out == "TIMEOUT" {
			timeouts++
		}
		run.Fail(i, "crash:get", "GetRecord "+out+": "+hx.LastPanic)
		return
	}
	if total < 0 || total > len(cur) {
		return
	}
	es := curEnts()[:total]
	if !wellFormed(es) {
		return
	}
	q := parseEnt(name)
	exp := "err:notfound"
	if !q.valid {
		exp = "err:atoi"
	} else {
		for k, e := range es {
			if e.valid && e.t == q.t && e.key == q.key {
				exp = fmt.Sprintf("ok %d %s", k+1, hx.Hex([]byte(e.key)))
				break
			}
		}
	}
	if out != exp {
		run.Fail(i, "lookup", fmt.Sprintf("index %s total %d name %q: GetRecord = %s, linear scan = %s",
			showIndex(), total, string(cstr(name)), out, exp))
	}
}

func judgeRecs(i int, start, n int, desc bool, out string) {
	if out == "TIMEOUT" {
		run.Fail(i, "crash:recs", "GetRecords hung")
		return
	}
	if n < 0 {
		return // make([]T, 0, n) panics; no caller passes a negative count (bbs checks n >= 1)
	}
	if out == "PANIC" {
		run.Fail(i, "crash:recs", "GetRecords panicked: "+hx.LastPanic)
		return
	}
	exp := ""
	if start < 1 {
		exp = "err:invalididx"
	} else {
		var ss []string
		p := start
		es := curEnts()
		for k := 0; k < n; k++ {
			if p == 0 || p > len(es) {
				break
			}
			ss = append(ss, fmt.Sprintf("%d:%s", p, hx.Hex([]byte(es[p-1].key))))
			if desc {
				p--
			} else {
				p++
			}
		}
		exp = "ok -"
		if len(ss) > 0 {
			exp = "ok " + strings.Join(ss, ",")
		}
	}
	if out != exp {
		run.Fail(i, "window:"+dirName(desc), fmt.Sprintf("index of %d entries, start %d n %d: GetRecords = %s, expected %s",
			len(cur), start, n, out, exp))
	}
}

func judgeWalk(i int, kind string, n int, desc bool, tot int, out string, wr walkResult) {
	if out == "PANIC" {
		run.Fail(i, "crash:walk", kind+" panicked: "+hx.LastPanic)
		return
	}
	if out == "TIMEOUT" {
		timeouts++
		run.Fail(i, "hang:walk", kind+" did not finish")
		return
	}
	if tot != len(cur) {
		return // stale or zero cached total: recorded only
	}
	if n < 1 {
		return
	}
	es := curEnts()
	if !wellFormed(es) {
		return
	}
	if kind == "walk" {
		for _, e := range es {
			if e.valid && !e.inDomain {
				return // the cursor text only round-trips names of the article-id domain (C13)
			}
		}
	}
	var expected []int
	for p := 1; p <= len(es); p++ {
		if desc {
			expected = append(expected, len(es)+1-p)
		} else {
			expected = append(expected, p)
		}
	}
	var visited []int
	sizesOK := true
	for k, p := range wr.pages {
		visited = append(visited, p...)
		last := k == len(wr.pages)-1
		if len(p) > n || (!last && len(p) != n) {
			sizesOK = false
		}
	}
	eq := len(visited) == len(expected)
	isPrefix := len(visited) <= len(expected)
	for k := range visited {
		if k < len(expected) && visited[k] != expected[k] {
			eq, isPrefix = false, false
		}
	}
	if wr.fin == "end" && eq && sizesOK {
		return
	}
	d := dirName(desc)
	what := fmt.Sprintf("%s index %s page size %d %s: pages %s (expected every entry once: %v)", kind, showIndex(), n, d, wr.text, expected)
	if isPrefix && len(visited) < len(expected) && strings.HasPrefix(wr.fin, "err:") && sizesOK && len(visited)%n == 0 && len(visited) > 0 {
		nxt := es[expected[len(visited)]-1]
		if !nxt.valid {
			run.Fail(i, "walk:unparsable-lookahead", what)
			return
		}
		if nxt.deleted {
			run.Fail(i, "walk:deleted-lookahead", what)
			return
		}
	}
	seen := map[int]bool{}
	dup := false
	for _, v := range visited {
		if seen[v] {
			dup = true
		}
		seen[v] = true
	}
	switch {
	case wr.fin == "cap":
		run.Fail(i, "walk:"+d+"-nonterminating", what)
	case dup:
		run.Fail(i, "walk:"+d+"-duplicate", what)
	case !eq:
		run.Fail(i, "walk:"+d+"-missing", what)
	default:
		run.Fail(i, "walk:"+d+"-pagesize", what)
	}
}

func showIndex() string {
	if len(cur) > 12 {
		return fmt.Sprintf("<%d entries>", len(cur))
	}
	ss := make([]string, len(cur))
	for i, n := range cur {
		ss[i] = strconv.Quote(string(cstr(n)))
	}
	return "[" + strings.Join(ss, " ") + "]"
}

// ---- the posting path: after every post the cached total is the record count ---------------------

func judgePost(i int, out string) {
	if out == "PANIC" || out == "TIMEOUT" {
		run.Fail(i, "crash:post", "NewPost "+out+": "+hx.LastPanic)
		return
	}
	var l, t int
	if _, err := fmt.Sscanf(out, "len=%d total=%d", &l, &t); err != nil {
		run.Fail(i, "post:failed", "NewPost by SYSOP on the fixture board failed: "+out)
		return
	}
	// every log board the post was copied to: its cached total is its record count (0 = not asked yet, re-counted
	// lazily, is the only other legitimate value)
	for _, st := range logStates() {
		if st.cached != st.records && st.cached != 0 {
			run.Fail(i, "post:logboard-total-cold-bump", fmt.Sprintf("after NewPost the log board %s has %d records but a cached total of %d", st.name, st.records, st.cached))
		}
	}
	if t != l {
		run.Fail(i, "post:total-not-resynced", fmt.Sprintf("after NewPost the cached total is %d, .DIR %s has %d records", t, showIndex(), l))
	}
}

func judgeFindLast(i int, desc bool, out string) {
	if out == "PANIC" || out == "TIMEOUT" {
		if out == "TIMEOUT" {
			timeouts++
		}
		run.Fail(i, "crash:findlast", "FindArticleStartIdx "+out+": "+hx.LastPanic)
		return
	}
	if !synced || len(cur) == 0 {
		return
	}
	es := curEnts()
	last := es[len(es)-1]
	if !wellFormed(es) || !last.valid {
		return
	}
	exp := "err:notfound"
	if p, ok := specFind(es, last.t, &last.key, desc); ok {
		exp = fmt.Sprintf("ok %d", p)
	}
	if out != exp {
		run.Fail(i, "post:newest-lookup-"+dirName(desc), fmt.Sprintf("index %s (cached total %d): looking the newest article up by its name %s = %s, linear scan of the file = %s",
			showIndex(), getCached(), dirName(desc), out, exp))
	}
}

// judgeNLookup: EditPost / CrossPost find an article by name iff the linear scan of the file does - also when
// this is the first access to the board after a restart (cold cached total).
func judgeNLookup(i int, how string, name []byte, cold bool, out string) {
	if out == "PANIC" || out == "TIMEOUT" {
		if out == "TIMEOUT" {
			timeouts++
		}
		run.Fail(i, "crash:nlookup", how+" "+out+": "+hx.LastPanic)
		return
	}
	es := curEnts()
	if !synced || !wellFormed(es) {
		return
	}
	if len(es) > 0 {
		last := es[len(es)-1]
		if !last.valid && string(cstr(cur[len(cur)-1])) != ".d" {
			return // SetBTotal refuses an unparsable last name on the re-count (modelled, not judged)
		}
	}
	q := parseEnt(name)
	present := false
	if q.valid {
		for _, e := range es {
			if e.valid && e.t == q.t && e.key == q.key {
				present = true
			}
		}
	}
	found := out == "found"
	if found != present {
		key := "lookup:byname-" + how
		if cold {
			key = "lookup:cold-first-access-" + how
		}
		run.Fail(i, key, fmt.Sprintf("index %s (cached total before: cold=%v): %s looks %q up by name: %s, linear scan of the file: present=%v",
			showIndex(), cold, how, string(cstr(name)), out, present))
	}
}
