// c06: correspondence harness + property oracle for article lookup / cursor positioning / paging over a
// .DIR index (property C06). The index of every case is written as a real .DIR file (128-byte FileHeaderRaw
// records, encoding/binary) of the fixture board 10_WhoAmI in a private BBSHOME; the real
// cmsys.FindRecordStartIdx / GetRecord / GetRecords, the ptt page calls and the bbs.LoadGeneralArticles
// client loop are run on it. The oracle (spec.go) is a plain linear scan over the generated entries.
package main

import (
	"encoding/binary"
	"errors"
	"fmt"
	"io"
	"os"
	"strconv"
	"strings"
	"syscall"

	"github.com/Ptt-official-app/go-pttbbs/bbs"
	"github.com/Ptt-official-app/go-pttbbs/cache"
	"github.com/Ptt-official-app/go-pttbbs/cmsys"
	"github.com/Ptt-official-app/go-pttbbs/ptt"
	"github.com/Ptt-official-app/go-pttbbs/ptttype"
	"github.com/Ptt-official-app/go-pttbbs/types"
	"verifharness/internal/bbsenv"
	"verifharness/internal/hx"
)

const (
	theBid    = ptttype.Bid(10)
	theBBoard = bbs.BBoardID("10_WhoAmI")
	theUser   = bbs.UUserID("SYSOP")
)

var (
	run      *hx.Run
	env      *bbsenv.Env
	dirPath  string
	boardRaw *ptttype.BoardID_t
	userRaw  *ptttype.UserecRaw
	userUID  ptttype.UID

	cur      [][]byte // names of the current index
	timeouts int
)

func fn28(b []byte) *ptttype.Filename_t {
	f := &ptttype.Filename_t{}
	copy(f[:], b)
	return f
}

func cstr(b []byte) []byte {
	for i, c := range b {
		if c == 0 {
			return b[:i]
		}
	}
	return b
}

func writeIndex(names [][]byte) {
	f, err := os.Create(dirPath)
	if err != nil {
		panic(err)
	}
	buf := make([]byte, 0, 128*len(names))
	w := &sliceWriter{buf: buf}
	for i, n := range names {
		h := &ptttype.FileHeaderRaw{}
		copy(h.Filename[:], n)
		copy(h.Owner[:], "SYSOP") // bbs.NewArticleSummaryFromRaw panics on an empty owner
		copy(h.Title[:], fmt.Sprintf("e%d", i+1))
		if err := binary.Write(w, binary.LittleEndian, h); err != nil {
			panic(err)
		}
	}
	if _, err := f.Write(w.buf); err != nil {
		panic(err)
	}
	f.Close()
	cur = names
	setCached(len(names))
}

type sliceWriter struct{ buf []byte }

func (s *sliceWriter) Write(p []byte) (int, error) { s.buf = append(s.buf, p...); return len(p), nil }

func setCached(n int) { cache.Shm.Shm.Total[theBid-1] = int32(n) }

func canonErr(err error) string {
	var ne *strconv.NumError
	var pe *os.PathError
	switch {
	case errors.Is(err, cmsys.ErrRecordNotFound):
		return "err:notfound"
	case errors.Is(err, io.EOF), errors.Is(err, io.ErrUnexpectedEOF):
		return "err:eof"
	case errors.As(err, &ne):
		return "err:atoi"
	case errors.Is(err, ptttype.ErrInvalidIdx):
		return "err:invalididx"
	case errors.Is(err, bbs.ErrInvalidParams):
		return "err:invalidparams"
	case errors.Is(err, ptt.ErrNoRecord):
		return "err:norecord"
	case errors.As(err, &pe) && errors.Is(pe.Err, syscall.EINVAL) && pe.Op == "seek":
		return "err:seek"
	}
	return "err:other:" + strings.ReplaceAll(err.Error(), " ", "_")
}

func parseDir(s string) (bool, bool) {
	switch s {
	case "asc":
		return false, true
	case "desc":
		return true, true
	}
	return false, false
}

func dirName(desc bool) string {
	if desc {
		return "desc"
	}
	return "asc"
}

func joinInts(xs []int) string {
	if len(xs) == 0 {
		return "-"
	}
	ss := make([]string, len(xs))
	for i, x := range xs {
		ss[i] = strconv.Itoa(x)
	}
	return strings.Join(ss, ",")
}

// ---- the real calls ------------------------------------------------------------------

func doIdx(arg string) string {
	var names [][]byte
	if arg != "-" {
		for _, h := range strings.Split(arg, ",") {
			names = append(names, hx.UnHex(h))
		}
	}
	writeIndex(names)
	ts := make([]string, len(names))
	for i, n := range names {
		t, err := fn28(n).CreateTime()
		if err != nil {
			ts[i] = "x"
		} else {
			ts[i] = strconv.Itoa(int(t))
		}
	}
	return fmt.Sprintf("n=%d %s", len(names), strings.Join(ts, ","))
}

func doFind(total int, ct int64, name []byte, isNil bool, desc bool) string {
	var fn *ptttype.Filename_t
	if !isNil {
		fn = fn28(name)
	}
	idx, err := cmsys.FindRecordStartIdx(dirPath, total, types.Time4(int32(ct)), fn, desc)
	if err != nil {
		return canonErr(err)
	}
	return fmt.Sprintf("ok %d", idx)
}

func doGet(total int, name []byte) string {
	idx, h, err := cmsys.GetRecord(dirPath, fn28(name), total)
	if err != nil {
		return canonErr(err)
	}
	return fmt.Sprintf("ok %d %s", idx, hx.Hex(cstr(h.Filename[2:])))
}

func doRecs(start, n int, desc bool) string {
	l, err := cmsys.GetRecords(boardRaw, dirPath, ptttype.SortIdx(start), n, desc)
	if err != nil {
		return canonErr(err)
	}
	if len(l) == 0 {
		return "ok -"
	}
	ss := make([]string, len(l))
	for i, e := range l {
		ss[i] = fmt.Sprintf("%d:%s", e.Aid, hx.Hex(cstr(e.Filename[2:])))
	}
	return "ok " + strings.Join(ss, ",")
}

type walkResult struct {
	pages [][]int
	fin   string
	text  string
}

func capFor() int { return 2*len(cur) + 4 }

// doPwalk: the ptt-level client loop: page, cursor = (CreateTime, Filename) of the extra element, position it.
func doPwalk(n int, desc bool, total int) walkResult {
	setCached(total)
	var res walkResult
	start := ptttype.SortIdx(1)
	if desc {
		start = 0
	}
	res.fin = "cap"
	for k := 0; k < capFor(); k++ {
		sums, _, next, _, err := ptt.LoadGeneralArticles(userRaw, userUID, boardRaw, theBid, start, n, desc)
		if err != nil {
			res.fin = canonErr(err)
			break
		}
		page := make([]int, len(sums))
		for i, s := range sums {
			page[i] = int(s.Aid)
		}
		res.pages = append(res.pages, page)
		if next == nil {
			res.fin = "end"
			break
		}
		ct, err := next.Filename.CreateTime()
		if err != nil {
			res.fin = "err:atoi"
			break
		}
		s, err := ptt.FindArticleStartIdx(userRaw, userUID, boardRaw, theBid, ct, &next.Filename, desc)
		if err != nil {
			res.fin = canonErr(err)
			break
		}
		start = s
	}
	ps := make([]string, len(res.pages))
	for i, p := range res.pages {
		ps[i] = joinInts(p)
	}
	if len(ps) == 0 {
		res.text = "- " + res.fin
	} else {
		res.text = strings.Join(ps, "|") + " " + res.fin
	}
	return res
}

// doWalk: the bbs client loop: follow nextIdxStr.
func doWalk(n int, desc bool, cached int) walkResult {
	setCached(cached)
	var res walkResult
	cursor := ""
	res.fin = "cap"
	var ps []string
	for k := 0; k < capFor(); k++ {
		sums, next, _, newest, start, err := bbs.LoadGeneralArticles(theUser, theBBoard, cursor, n, desc)
		if err != nil {
			res.fin = canonErr(err)
			break
		}
		page := make([]int, len(sums))
		for i, s := range sums {
			p, e := strconv.Atoi(strings.TrimPrefix(string(s.FullTitle), "e"))
			if e != nil {
				p = -1
			}
			page[i] = p
		}
		res.pages = append(res.pages, page)
		nw := 0
		if newest {
			nw = 1
		}
		ps = append(ps, fmt.Sprintf("%d:%d:%s:%s", start, nw, joinInts(page), hx.Hex([]byte(next))))
		if next == "" {
			res.fin = "end"
			break
		}
		cursor = next
	}
	if len(ps) == 0 {
		res.text = "- " + res.fin
	} else {
		res.text = strings.Join(ps, "|") + " " + res.fin
	}
	return res
}

func doSer(name []byte) string {
	h := &ptttype.FileHeaderRaw{}
	copy(h.Filename[:], name)
	copy(h.Owner[:], "SYSOP")
	s := bbs.NewArticleSummaryFromRaw(theBBoard, ptttype.NewArticleSummaryRaw(1, boardRaw, h))
	return hx.Hex([]byte(s.Idx))
}

func doDeser(b []byte) string {
	ct, aid, err := bbs.DeserializeArticleIdxStr(string(b))
	if err != nil {
		return canonErr(err)
	}
	fn := aid.ToRaw()
	return fmt.Sprintf("ok %d %s", ct, hx.Hex(cstr(fn[:])))
}

// ---- one op line: run it, record it, judge it ----------------------------------------------

type opInfo struct {
	out   string
	index int
	walk  walkResult
}

func atoiOK(s string) (int, bool) {
	v, err := strconv.Atoi(s)
	return v, err == nil
}

// do runs one op line on the real code. `class` goes into the histogram label.
func do(line string, class string, nontrivial bool) opInfo {
	ws := strings.Fields(line)
	var info opInfo
	bad := func() opInfo {
		info.out = "bad-op"
		info.index = run.Op(line, "bad-op", "bad-op", false)
		return info
	}
	if len(ws) == 0 {
		return bad()
	}
	var out string
	label := ws[0]
	switch {
	case ws[0] == "idx" && len(ws) == 2:
		out = hx.CallSync(func() string { return doIdx(ws[1]) })
		label = fmt.Sprintf("idx:len%02d", minInt(len(cur), 10))
		if len(cur) > 10 {
			label = "idx:long"
		}
	case ws[0] == "find" && len(ws) == 5:
		total, ok1 := atoiOK(ws[1])
		ct, err2 := strconv.ParseInt(ws[2], 10, 64)
		desc, ok3 := parseDir(ws[4])
		if !ok1 || err2 != nil || !ok3 {
			return bad()
		}
		isNil := ws[3] == "nil"
		var name []byte
		if !isNil {
			name = hx.UnHex(ws[3])
		}
		out = hx.Call(func() string { return doFind(total, ct, name, isNil, desc) })
		res := out
		if strings.HasPrefix(out, "ok") {
			res = "ok"
		}
		label = "find:" + ws[4] + ":" + class + ":" + res
		info.out = out
		info.index = run.Op(line, out, label, nontrivial)
		judgeFind(info.index, total, ct, name, isNil, desc, out)
		return info
	case ws[0] == "get" && len(ws) == 3:
		total, ok1 := atoiOK(ws[1])
		if !ok1 {
			return bad()
		}
		name := hx.UnHex(ws[2])
		out = hx.Call(func() string { return doGet(total, name) })
		res := out
		if strings.HasPrefix(out, "ok") {
			res = "ok"
		}
		label = "get:" + class + ":" + res
		info.out = out
		info.index = run.Op(line, out, label, nontrivial)
		judgeGet(info.index, total, name, out)
		return info
	case ws[0] == "recs" && len(ws) == 4:
		start, ok1 := atoiOK(ws[1])
		n, ok2 := atoiOK(ws[2])
		desc, ok3 := parseDir(ws[3])
		if !ok1 || !ok2 || !ok3 {
			return bad()
		}
		out = hx.CallSync(func() string { return doRecs(start, n, desc) })
		label = "recs:" + ws[3] + ":" + class
		info.out = out
		info.index = run.Op(line, out, label, nontrivial)
		judgeRecs(info.index, start, n, desc, out)
		return info
	case (ws[0] == "pwalk" || ws[0] == "walk") && len(ws) == 4:
		n, ok1 := atoiOK(ws[1])
		desc, ok2 := parseDir(ws[2])
		tot, ok3 := atoiOK(ws[3])
		if !ok1 || !ok2 || !ok3 {
			return bad()
		}
		var wr walkResult
		out = hx.CallT(20e9, func() string {
			if ws[0] == "pwalk" {
				wr = doPwalk(n, desc, tot)
			} else {
				wr = doWalk(n, desc, tot)
			}
			return wr.text
		})
		fin := "crash"
		if out != "PANIC" && out != "TIMEOUT" {
			fin = wr.fin
		}
		label = ws[0] + ":" + ws[2] + ":" + class + ":" + fin
		info.out = out
		info.walk = wr
		info.index = run.Op(line, out, label, nontrivial)
		judgeWalk(info.index, ws[0], n, desc, tot, out, wr)
		setCached(len(cur))
		return info
	case ws[0] == "ser" && len(ws) == 2:
		name := hx.UnHex(ws[1])
		out = hx.CallSync(func() string { return doSer(name) })
	case ws[0] == "deser" && len(ws) == 2:
		b := hx.UnHex(ws[1])
		out = hx.CallSync(func() string { return doDeser(b) })
		res := out
		if strings.HasPrefix(out, "ok") {
			res = "ok"
		}
		label = "deser:" + res
		if out == "PANIC" {
			i := run.Op(line, out, label, nontrivial)
			run.Fail(i, "crash:deser", "DeserializeArticleIdxStr panicked on "+ws[1]+": "+hx.LastPanic)
			info.out, info.index = out, i
			return info
		}
	default:
		return bad()
	}
	info.out = out
	info.index = run.Op(line, out, label, nontrivial)
	if out == "PANIC" || out == "TIMEOUT" {
		run.Fail(info.index, "crash:"+ws[0], out+" on "+line+": "+hx.LastPanic)
	}
	return info
}

func minInt(a, b int) int {
	if a < b {
		return a
	}
	return b
}

func main() {
	run = hx.Start("C06")
	defer run.Finish()
	var err error
	env, err = bbsenv.New(bbsenv.Options{})
	if err != nil {
		fmt.Fprintln(os.Stderr, "bbsenv:", err)
		os.Exit(2)
	}
	defer env.Close()
	boardRaw = &ptttype.BoardID_t{}
	copy(boardRaw[:], "WhoAmI")
	dirPath = env.Path("boards", "W", "WhoAmI", ".DIR")
	uid := &ptttype.UserID_t{}
	copy(uid[:], "SYSOP")
	userUID, userRaw, err = ptt.InitCurrentUser(uid)
	if err != nil {
		fmt.Fprintln(os.Stderr, "InitCurrentUser:", err)
		os.Exit(2)
	}

	run.Rule = "indices: EXHAUSTIVE shapes smallest first - cmsys level every index of length <= 6 (thorough 8) over {first | same time | +1 | +2} x {parsable | unparsable} (an unparsable entry has no time step; delete-marked = parsable for the search family), bbs/ptt walks every index of length <= 4 (thorough 6) over {same,+1,+2} x {live, delete-marked} + unparsable; per index every cursor: each present (time,name), every time value from min-1 to max+1 with nil name and with an absent name, each name with a time off by +-1, both directions, every stale total for short indices; GetRecord per entry + absent; GetRecords windows every start x n in 0..len+1; walks: page sizes 1..len+1, both directions, fresh cached total (judged) + stale/zero (recorded); plus random long indices (<= 300) with runs of equal times and runs of invalid entries at both ends and at the midpoint; malformed stream: total > len / negative, int32-extreme cursor times, negative n, cursor texts that do not deserialise. distinct = distinct op lines within an index history; nontrivial = the op reaches the search/paging code on a non-empty index"

	if run.Replay != "" {
		for _, l := range hx.ReplayOps(run.Replay) {
			do(l, "replay", true)
		}
		return
	}
	generate()
}
