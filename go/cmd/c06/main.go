// c06: correspondence harness + property oracle for article lookup / cursor positioning / paging over a
// .DIR index (property C06). The index of every case is written as a real .DIR file (128-byte FileHeaderRaw
// records, encoding/binary) of the fixture board 10_WhoAmI in a private BBSHOME; the real
// cmsys.FindRecordStartIdx / GetRecord / GetRecords, the ptt page calls and the bbs.LoadGeneralArticles
// client loop are run on it. The oracle (spec.go) is a plain linear scan over the generated entries.
package main

import (
	"encoding/binary"
	"errors"
	"fmt"
	"io"
	"os"
	"path/filepath"
	"strconv"
	"strings"
	"syscall"

	"github.com/Ptt-official-app/go-pttbbs/bbs"
	"github.com/Ptt-official-app/go-pttbbs/cache"
	"github.com/Ptt-official-app/go-pttbbs/cmsys"
	"github.com/Ptt-official-app/go-pttbbs/ptt"
	"github.com/Ptt-official-app/go-pttbbs/ptttype"
	"github.com/Ptt-official-app/go-pttbbs/types"
	"verifharness/internal/bbsenv"
	"verifharness/internal/hx"
)

const (
	theBid    = ptttype.Bid(10)
	theBBoard = bbs.BBoardID("10_WhoAmI")
	theUser   = bbs.UUserID("SYSOP")
)

var (
	run      *hx.Run
	env      *bbsenv.Env
	dirPath  string
	boardRaw *ptttype.BoardID_t
	userRaw  *ptttype.UserecRaw
	userUID  ptttype.UID

	cur      [][]byte // names of the current index
	timeouts int
)

func fn28(b []byte) *ptttype.Filename_t {
	f := &ptttype.Filename_t{}
	copy(f[:], b)
	return f
}

func cstr(b []byte) []byte {
	for i, c := range b {
		if c == 0 {
			return b[:i]
		}
	}
	return b
}

// article files made by real posts accumulate in the board directory; two posts of the same second whose
// random suffix collides get a time stamp ahead of the clock, which un-sorts the index for the next post of that
// second: start every history with an empty board directory.
var posted bool

func cleanBoardDir() {
	if !posted {
		return
	}
	posted = false
	ms, _ := filepath.Glob(filepath.Join(filepath.Dir(dirPath), "M.*"))
	for _, m := range ms {
		_ = os.Remove(m)
	}
	// the log boards every post is copied to start each history empty and cold
	for _, lb := range logBoards() {
		ms, _ := filepath.Glob(filepath.Join(filepath.Dir(lb.dir), "M.*"))
		for _, m := range ms {
			_ = os.Remove(m)
		}
		_ = os.Remove(lb.dir)
		cache.Shm.Shm.Total[lb.bid-1] = 0
	}
}

type logBoard struct {
	name string
	bid  ptttype.Bid
	dir  string
}

var logBoardList []logBoard

// logBoards: the boards a post is copied to (doCrosspost / crossPostWriteFile), as far as the fixture has them.
func logBoards() []logBoard {
	if logBoardList != nil {
		return logBoardList
	}
	logBoardList = []logBoard{}
	for _, id := range []*ptttype.BoardID_t{ptttype.BN_ALLPOST, ptttype.BN_NEWIDPOST, ptttype.BN_ALLHIDPOST, ptttype.BN_UNANONYMOUS} {
		bid, err := cache.GetBid(id)
		if err != nil || bid <= 0 {
			continue
		}
		n := string(cstr(id[:]))
		logBoardList = append(logBoardList, logBoard{n, bid, env.Path("boards", n[:1], n, ".DIR")})
	}
	return logBoardList
}

type logState struct {
	name            string
	records, cached int
}

func logStates() []logState {
	var r []logState
	for _, lb := range logBoards() {
		r = append(r, logState{lb.name, cmsys.GetNumRecords(lb.dir, ptttype.FILE_HEADER_RAW_SZ), int(cache.GetBTotal(lb.bid))})
	}
	return r
}

func allpostText() string {
	for _, st := range logStates() {
		if st.name == "ALLPOST" {
			return fmt.Sprintf("%d:%d", st.records, st.cached)
		}
	}
	return "none"
}

func writeIndex(names [][]byte) {
	cleanBoardDir()
	f, err := os.Create(dirPath)
	if err != nil {
		panic(err)
	}
	buf := make([]byte, 0, 128*len(names))
	w := &sliceWriter{buf: buf}
	for i, n := range names {
		h := &ptttype.FileHeaderRaw{}
		copy(h.Filename[:], n)
		copy(h.Owner[:], "SYSOP") // bbs.NewArticleSummaryFromRaw panics on an empty owner
		copy(h.Title[:], fmt.Sprintf("e%d", i+1))
		if err := binary.Write(w, binary.LittleEndian, h); err != nil {
			panic(err)
		}
	}
	if _, err := f.Write(w.buf); err != nil {
		panic(err)
	}
	f.Close()
	cur = names
	setCached(len(names))
	synced = true
}

type sliceWriter struct{ buf []byte }

func (s *sliceWriter) Write(p []byte) (int, error) { s.buf = append(s.buf, p...); return len(p), nil }

func setCached(n int) { cache.Shm.Shm.Total[theBid-1] = int32(n) }
func getCached() int  { return int(cache.Shm.Shm.Total[theBid-1]) }

const useCurrent = -1 << 30

// synced: the history so far obliges the cached total to equal the record count (set by idx and by a post,
// cleared by a record appended behind the cache's back or a cache value set by hand).
var synced = true

func posOfName(name string) int {
	for i, n := range cur {
		if string(cstr(n)) == name {
			return i + 1
		}
	}
	return -1
}

// reloadIndex re-reads the names of all records of the .DIR file.
func reloadIndex() {
	b, err := os.ReadFile(dirPath)
	if err != nil {
		panic(err)
	}
	cur = nil
	for off := 0; off+128 <= len(b); off += 128 {
		cur = append(cur, append([]byte{}, cstr(b[off:off+28])...))
	}
}

func doAppend(name []byte) string {
	h := &ptttype.FileHeaderRaw{}
	copy(h.Filename[:], name)
	copy(h.Owner[:], "SYSOP")
	copy(h.Title[:], fmt.Sprintf("e%d", len(cur)+1))
	if _, err := cmsys.AppendRecord(dirPath, h, ptttype.FILE_HEADER_RAW_SZ); err != nil {
		return canonErr(err)
	}
	reloadIndex()
	return fmt.Sprintf("len=%d total=%d", len(cur), getCached())
}

func doList() string {
	_, _, _, _, _ = ptt.LoadGeneralArticles(userRaw, userUID, boardRaw, theBid, 0, 1, true)
	return fmt.Sprintf("total=%d", getCached())
}

var postIP = func() *ptttype.IPv4_t { ip := &ptttype.IPv4_t{}; copy(ip[:], "127.0.0.1"); return ip }()

// doPost: the real ptt.NewPost on the fixture board; returns the created name.
func doPost() (name []byte, out string) {
	sum, err := ptt.NewPost(userRaw, userUID, boardRaw, theBid, []byte("test"), []byte("c06 post"), [][]byte{[]byte("line")}, postIP, nil)
	posted = true
	if err != nil {
		return nil, canonErr(err)
	}
	reloadIndex()
	return append([]byte{}, cstr(sum.Filename[:])...), fmt.Sprintf("len=%d total=%d allpost=%s", len(cur), getCached(), allpostText())
}

// doNLookup: the by-name lookup in front of EditPost / CrossPost (ptt.getFileHeader), with the cached total as
// it is. Everything after the lookup fails harmlessly on a generated entry (no article file): any error other
// than a lookup error means the entry was found.
func doNLookup(how string, name []byte) string {
	fn := fn28(name)
	var ne *strconv.NumError
	switch how {
	case "edit":
		_, _, _, err := ptt.EditPost(userRaw, userUID, boardRaw, theBid, fn, []byte("test"), []byte("t"), [][]byte{[]byte("x")}, 0, 0, postIP, nil)
		posted = true // may leave a temporary file in the board directory
		switch {
		case err == nil:
			return "found"
		case errors.Is(err, cmsys.ErrRecordNotFound):
			return "err:notfound"
		case errors.Is(err, ptttype.ErrInvalidFilename):
			return "err:invalidfilename"
		case errors.As(err, &ne):
			return "err:atoi"
		case errors.Is(err, io.EOF), errors.Is(err, io.ErrUnexpectedEOF):
			return "err:eof"
		}
		return "found"
	case "cross":
		// target board 0 is invalid: a found article stops at the target check, nothing is written
		_, _, _, err := ptt.CrossPost(userRaw, userUID, boardRaw, theBid, fn, &ptttype.BoardID_t{}, 0, 0, postIP, nil)
		posted = true
		if errors.Is(err, ptttype.ErrInvalidFilename) {
			return "err:lookup"
		}
		return "found"
	}
	return "bad-op"
}

func doFindLast(desc bool) string {
	if len(cur) == 0 {
		return "err:norecord"
	}
	fn := fn28(cur[len(cur)-1])
	ct, err := fn.CreateTime()
	if err != nil {
		return "err:atoi"
	}
	idx, err := ptt.FindArticleStartIdx(userRaw, userUID, boardRaw, theBid, ct, fn, desc)
	if err != nil {
		return canonErr(err)
	}
	return fmt.Sprintf("ok %d", idx)
}

func canonErr(err error) string {
	var ne *strconv.NumError
	var pe *os.PathError
	switch {
	case errors.Is(err, cmsys.ErrRecordNotFound):
		return "err:notfound"
	case errors.Is(err, io.EOF), errors.Is(err, io.ErrUnexpectedEOF):
		return "err:eof"
	case errors.As(err, &ne):
		return "err:atoi"
	case errors.Is(err, ptttype.ErrInvalidIdx):
		return "err:invalididx"
	case errors.Is(err, bbs.ErrInvalidParams):
		return "err:invalidparams"
	case errors.Is(err, ptt.ErrNoRecord):
		return "err:norecord"
	case errors.As(err, &pe) && errors.Is(pe.Err, syscall.EINVAL) && pe.Op == "seek":
		return "err:seek"
	}
	return "err:other:" + strings.ReplaceAll(err.Error(), " ", "_")
}

func parseDir(s string) (bool, bool) {
	switch s {
	case "asc":
		return false, true
	case "desc":
		return true, true
	}
	return false, false
}

func dirName(desc bool) string {
	if desc {
		return "desc"
	}
	return "asc"
}

func joinInts(xs []int) string {
	if len(xs) == 0 {
		return "-"
	}
	ss := make([]string, len(xs))
	for i, x := range xs {
		ss[i] = strconv.Itoa(x)
	}
	return strings.Join(ss, ",")
}

// ---- the real calls ------------------------------------------------------------------

func doIdx(arg string) string {
	var names [][]byte
	if arg != "-" {
		for _, h := range strings.Split(arg, ",") {
			names = append(names, hx.UnHex(h))
		}
	}
	writeIndex(names)
	ts := make([]string, len(names))
	for i, n := range names {
		t, err := fn28(n).CreateTime()
		if err != nil {
			ts[i] = "x"
		} else {
			ts[i] = strconv.Itoa(int(t))
		}
	}
	return fmt.Sprintf("n=%d %s", len(names), strings.Join(ts, ","))
}

func doFind(total int, ct int64, name []byte, isNil bool, desc bool) string {
	var fn *ptttype.Filename_t
	if !isNil {
		fn = fn28(name)
	}
	idx, err := cmsys.FindRecordStartIdx(dirPath, total, types.Time4(int32(ct)), fn, desc)
	if err != nil {
		return canonErr(err)
	}
	return fmt.Sprintf("ok %d", idx)
}

func doGet(total int, name []byte) string {
	idx, h, err := cmsys.GetRecord(dirPath, fn28(name), total)
	if err != nil {
		return canonErr(err)
	}
	return fmt.Sprintf("ok %d %s", idx, hx.Hex(cstr(h.Filename[2:])))
}

func doRecs(start, n int, desc bool) string {
	l, err := cmsys.GetRecords(boardRaw, dirPath, ptttype.SortIdx(start), n, desc)
	if err != nil {
		return canonErr(err)
	}
	if len(l) == 0 {
		return "ok -"
	}
	ss := make([]string, len(l))
	for i, e := range l {
		ss[i] = fmt.Sprintf("%d:%s", e.Aid, hx.Hex(cstr(e.Filename[2:])))
	}
	return "ok " + strings.Join(ss, ",")
}

type walkResult struct {
	pages [][]int
	fin   string
	text  string
}

func capFor() int { return 2*len(cur) + 4 }

// doPwalk: the ptt-level client loop: page, cursor = (CreateTime, Filename) of the extra element, position it.
func doPwalk(n int, desc bool, total int) walkResult {
	if total != useCurrent {
		setCached(total)
	}
	var res walkResult
	start := ptttype.SortIdx(1)
	if desc {
		start = 0
	}
	res.fin = "cap"
	for k := 0; k < capFor(); k++ {
		sums, _, next, _, err := ptt.LoadGeneralArticles(userRaw, userUID, boardRaw, theBid, start, n, desc)
		if err != nil {
			res.fin = canonErr(err)
			break
		}
		page := make([]int, len(sums))
		for i, s := range sums {
			page[i] = int(s.Aid)
		}
		res.pages = append(res.pages, page)
		if next == nil {
			res.fin = "end"
			break
		}
		ct, err := next.Filename.CreateTime()
		if err != nil {
			res.fin = "err:atoi"
			break
		}
		s, err := ptt.FindArticleStartIdx(userRaw, userUID, boardRaw, theBid, ct, &next.Filename, desc)
		if err != nil {
			res.fin = canonErr(err)
			break
		}
		start = s
	}
	ps := make([]string, len(res.pages))
	for i, p := range res.pages {
		ps[i] = joinInts(p)
	}
	if len(ps) == 0 {
		res.text = "- " + res.fin
	} else {
		res.text = strings.Join(ps, "|") + " " + res.fin
	}
	return res
}

// doWalk: the bbs client loop: follow nextIdxStr.
func doWalk(n int, desc bool, cached int) walkResult {
	if cached != useCurrent {
		setCached(cached)
	}
	var res walkResult
	cursor := ""
	res.fin = "cap"
	var ps []string
	for k := 0; k < capFor(); k++ {
		sums, next, _, newest, start, err := bbs.LoadGeneralArticles(theUser, theBBoard, cursor, n, desc)
		if err != nil {
			res.fin = canonErr(err)
			break
		}
		page := make([]int, len(sums))
		for i, s := range sums {
			p, e := strconv.Atoi(strings.TrimPrefix(string(s.FullTitle), "e"))
			if e != nil {
				p = posOfName(s.Filename) // a record made by the real NewPost has its own title
			}
			page[i] = p
		}
		res.pages = append(res.pages, page)
		nw := 0
		if newest {
			nw = 1
		}
		ps = append(ps, fmt.Sprintf("%d:%d:%s:%s", start, nw, joinInts(page), hx.Hex([]byte(next))))
		if next == "" {
			res.fin = "end"
			break
		}
		cursor = next
	}
	if len(ps) == 0 {
		res.text = "- " + res.fin
	} else {
		res.text = strings.Join(ps, "|") + " " + res.fin
	}
	return res
}

func doSer(name []byte) string {
	h := &ptttype.FileHeaderRaw{}
	copy(h.Filename[:], name)
	copy(h.Owner[:], "SYSOP")
	s := bbs.NewArticleSummaryFromRaw(theBBoard, ptttype.NewArticleSummaryRaw(1, boardRaw, h))
	return hx.Hex([]byte(s.Idx))
}

func doDeser(b []byte) string {
	ct, aid, err := bbs.DeserializeArticleIdxStr(string(b))
	if err != nil {
		return canonErr(err)
	}
	fn := aid.ToRaw()
	return fmt.Sprintf("ok %d %s", ct, hx.Hex(cstr(fn[:])))
}

// ---- one op line: run it, record it, judge it ----------------------------------------------

type opInfo struct {
	out   string
	index int
	walk  walkResult
}

func atoiOK(s string) (int, bool) {
	v, err := strconv.Atoi(s)
	return v, err == nil
}

// do runs one op line on the real code. `class` goes into the histogram label.
func do(line string, class string, nontrivial bool) opInfo {
	ws := strings.Fields(line)
	var info opInfo
	bad := func() opInfo {
		info.out = "bad-op"
		info.index = run.Op(line, "bad-op", "bad-op", false)
		return info
	}
	if len(ws) == 0 {
		return bad()
	}
	var out string
	label := ws[0]
	switch {
	case ws[0] == "idx" && len(ws) == 2:
		out = hx.CallSync(func() string { return doIdx(ws[1]) })
		label = fmt.Sprintf("idx:len%02d", minInt(len(cur), 10))
		if len(cur) > 10 {
			label = "idx:long"
		}
	case ws[0] == "find" && len(ws) == 5:
		total, ok1 := atoiOK(ws[1])
		ct, err2 := strconv.ParseInt(ws[2], 10, 64)
		desc, ok3 := parseDir(ws[4])
		if !ok1 || err2 != nil || !ok3 {
			return bad()
		}
		isNil := ws[3] == "nil"
		var name []byte
		if !isNil {
			name = hx.UnHex(ws[3])
		}
		out = hx.Call(func() string { return doFind(total, ct, name, isNil, desc) })
		res := out
		if strings.HasPrefix(out, "ok") {
			res = "ok"
		}
		label = "find:" + ws[4] + ":" + class + ":" + res
		info.out = out
		info.index = run.Op(line, out, label, nontrivial)
		judgeFind(info.index, total, ct, name, isNil, desc, out)
		return info
	case ws[0] == "get" && len(ws) == 3:
		total, ok1 := atoiOK(ws[1])
		if !ok1 {
			return bad()
		}
		name := hx.UnHex(ws[2])
		out = hx.Call(func() string { return doGet(total, name) })
		res := out
		if strings.HasPrefix(out, "ok") {
			res = "ok"
		}
		label = "get:" + class + ":" + res
		info.out = out
		info.index = run.Op(line, out, label, nontrivial)
		judgeGet(info.index, total, name, out)
		return info
	case ws[0] == "recs" && len(ws) == 4:
		start, ok1 := atoiOK(ws[1])
		n, ok2 := atoiOK(ws[2])
		desc, ok3 := parseDir(ws[3])
		if !ok1 || !ok2 || !ok3 {
			return bad()
		}
		out = hx.CallSync(func() string { return doRecs(start, n, desc) })
		label = "recs:" + ws[3] + ":" + class
		info.out = out
		info.index = run.Op(line, out, label, nontrivial)
		judgeRecs(info.index, start, n, desc, out)
		return info
	case (ws[0] == "pwalk" || ws[0] == "walk") && len(ws) == 4:
		n, ok1 := atoiOK(ws[1])
		desc, ok2 := parseDir(ws[2])
		tot, ok3 := atoiOK(ws[3])
		isCur := ws[3] == "cur"
		if isCur {
			tot, ok3 = useCurrent, true
		}
		if !ok1 || !ok2 || !ok3 {
			return bad()
		}
		before := getCached()
		var wr walkResult
		out = hx.CallT(20e9, func() string {
			if ws[0] == "pwalk" {
				wr = doPwalk(n, desc, tot)
			} else {
				wr = doWalk(n, desc, tot)
			}
			return wr.text
		})
		fin := "crash"
		if out != "PANIC" && out != "TIMEOUT" {
			fin = wr.fin
		}
		label = ws[0] + ":" + ws[2] + ":" + class + ":" + fin
		info.out = out
		info.walk = wr
		info.index = run.Op(line, out, label, nontrivial)
		if isCur {
			// after a post (or on a freshly written index) the cached total has to be the record count:
			// judged against the full listing of the file
			jt := -1
			if synced {
				jt = len(cur)
			}
			judgeWalk(info.index, ws[0], n, desc, jt, out, wr)
		} else {
			judgeWalk(info.index, ws[0], n, desc, tot, out, wr)
			setCached(before)
		}
		return info
	case ws[0] == "setcached" && len(ws) == 2:
		c, ok := atoiOK(ws[1])
		if !ok {
			return bad()
		}
		setCached(c)
		synced = c == len(cur)
		out = fmt.Sprintf("total=%d", getCached())
		label = "cache:set"
	case ws[0] == "reload" && len(ws) == 1:
		// a restart: cache.ReloadBCache zeroes every cached total (re-counted lazily)
		out = hx.CallSync(func() string {
			cache.ReloadBCache()
			ap := 0
			for _, st := range logStates() {
				if st.name == "ALLPOST" {
					ap = st.cached
				}
			}
			return fmt.Sprintf("total=%d allpost=%d", getCached(), ap)
		})
		synced = true // a cold total is re-counted at the next question
		label = "cache:reload"
	case ws[0] == "list" && len(ws) == 1:
		out = hx.CallSync(doList)
		label = "cache:list"
	case ws[0] == "append" && len(ws) == 2:
		name := hx.UnHex(ws[1])
		out = hx.CallSync(func() string { return doAppend(name) })
		synced = false
		label = "cache:append-behind"
	case ws[0] == "post" && (len(ws) == 1 || len(ws) == 2):
		// the name is chosen by the real code (time stamp): the op line for the model carries it
		before := getCached()
		lenBefore := len(cur)
		var name []byte
		out = hx.CallSync(func() string { var o string; name, o = doPost(); return o })
		line = "post " + hx.Hex(name)
		if name == nil {
			line = "post 00"
		}
		switch {
		case before == 0:
			label = "post:cold-cache"
		case before == lenBefore:
			label = "post:exact-cache"
		case before < lenBefore:
			label = "post:lagging-cache"
		default:
			label = "post:overcounting-cache"
		}
		info.out = out
		info.index = run.Op(line, out, label, true)
		judgePost(info.index, out)
		synced = true
		return info
	case ws[0] == "nlookup" && len(ws) == 3 && (ws[1] == "edit" || ws[1] == "cross"):
		name := hx.UnHex(ws[2])
		before := getCached()
		out = hx.Call(func() string { return doNLookup(ws[1], name) })
		cold := "warm"
		if before == 0 {
			cold = "cold-first-access"
		}
		label = "nlookup:" + ws[1] + ":" + cold + ":" + out
		info.out = out
		info.index = run.Op(line, out, label, true)
		judgeNLookup(info.index, ws[1], name, before == 0, out)
		return info
	case ws[0] == "findlast" && len(ws) == 2:
		desc, ok := parseDir(ws[1])
		if !ok {
			return bad()
		}
		out = hx.Call(func() string { return doFindLast(desc) })
		res := out
		if strings.HasPrefix(out, "ok") {
			res = "ok"
		}
		label = "findlast:" + ws[1] + ":" + class + ":" + res
		info.out = out
		info.index = run.Op(line, out, label, true)
		judgeFindLast(info.index, desc, out)
		return info
	case ws[0] == "ser" && len(ws) == 2:
		name := hx.UnHex(ws[1])
		out = hx.CallSync(func() string { return doSer(name) })
	case ws[0] == "deser" && len(ws) == 2:
		b := hx.UnHex(ws[1])
		out = hx.CallSync(func() string { return doDeser(b) })
		res := out
		if strings.HasPrefix(out, "ok") {
			res = "ok"
		}
		label = "deser:" + res
		if out == "PANIC" {
			i := run.Op(line, out, label, nontrivial)
			run.Fail(i, "crash:deser", "DeserializeArticleIdxStr panicked on "+ws[1]+": "+hx.LastPanic)
			info.out, info.index = out, i
			return info
		}
	default:
		return bad()
	}
	info.out = out
	info.index = run.Op(line, out, label, nontrivial)
	if out == "PANIC" || out == "TIMEOUT" {
		run.Fail(info.index, "crash:"+ws[0], out+" on "+line+": "+hx.LastPanic)
	}
	return info
}

func minInt(a, b int) int {
	if a < b {
		return a
	}
	return b
}

func main() {
	run = hx.Start("C06")
	defer run.Finish()
	var err error
	env, err = bbsenv.New(bbsenv.Options{})
	if err != nil {
		fmt.Fprintln(os.Stderr, "bbsenv:", err)
		os.Exit(2)
	}
	defer env.Close()
	boardRaw = &ptttype.BoardID_t{}
	copy(boardRaw[:], "WhoAmI")
	dirPath = env.Path("boards", "W", "WhoAmI", ".DIR")
	uid := &ptttype.UserID_t{}
	copy(uid[:], "SYSOP")
	userUID, userRaw, err = ptt.InitCurrentUser(uid)
	if err != nil {
		fmt.Fprintln(os.Stderr, "InitCurrentUser:", err)
		os.Exit(2)
	}

	run.Rule = "indices: EXHAUSTIVE shapes smallest first - cmsys level every index of length <= 6 (thorough 8) over {first | same time | +1 | +2} x {parsable | unparsable} (an unparsable entry has no time step; delete-marked = parsable for the search family), bbs/ptt walks every index of length <= 4 (thorough 6) over {same,+1,+2} x {live, delete-marked} + unparsable; per index every cursor: each present (time,name), every time value from min-1 to max+1 with nil name and with an absent name, each name with a time off by +-1, both directions, every stale total for short indices; GetRecord per entry + absent; GetRecords windows every start x n in 0..len+1; walks: page sizes 1..len+1, both directions, fresh cached total (judged) + stale/zero (recorded); plus random long indices (<= 300) with runs of equal times and runs of invalid entries at both ends and at the midpoint; malformed stream: total > len / negative, int32-extreme cursor times, negative n, cursor texts that do not deserialise. distinct = distinct op lines within an index history; nontrivial = the op reaches the search/paging code on a non-empty index"

	if run.Replay != "" {
		for _, l := range hx.ReplayOps(run.Replay) {
			do(l, "replay", true)
		}
		return
	}
	generate()
}
