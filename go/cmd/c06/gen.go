package main

import (
	"fmt"
	"strings"

	"verifharness/internal/hx"
)

// symbols of a shape: step of the creation time relative to the previous parsable entry, and the kind.
type sym struct {
	step int // 0,1,2
	kind int // 0 live, 1 delete-marked, 2 unparsable
}

func liveName(t int64, pos int) []byte { return []byte(fmt.Sprintf("M.%010d.A.%03X", t, pos&0xfff)) }

func delName(t int64, pos int) []byte {
	n := liveName(t, pos)
	n[0], n[1] = '.', 'd'
	return n
}

// unparsable names of several sorts (all distinct from each other only by position where possible).
func badName(pos int) []byte {
	switch pos % 4 {
	case 0:
		return []byte(fmt.Sprintf("M.badbadbad0.A.%03X", pos&0xfff)) // letters in the time field
	case 1:
		return nil // an all-zero record
	case 2:
		return []byte(".d") // the bare delete mark
	default:
		return []byte(fmt.Sprintf("M.00012\x00%04d.A.%03X", pos, pos&0xfff)) // NUL inside the time field
	}
}

func absentName(t int64) []byte { return []byte(fmt.Sprintf("M.%010d.A.FFF", t)) }

func buildIndex(base int64, shape []sym) [][]byte {
	names := make([][]byte, len(shape))
	t := base
	for i, s := range shape {
		switch s.kind {
		case 2:
			names[i] = badName(i + 1)
		case 1:
			t += int64(s.step)
			names[i] = delName(t, i+1)
		default:
			t += int64(s.step)
			names[i] = liveName(t, i+1)
		}
	}
	return names
}

func idxLine(names [][]byte) string {
	if len(names) == 0 {
		return "idx -"
	}
	ss := make([]string, len(names))
	for i, n := range names {
		ss[i] = hx.Hex(n)
		if len(n) == 0 {
			ss[i] = "00"
		}
	}
	return "idx " + strings.Join(ss, ",")
}

// enumShapes calls f on every shape of length L over the alphabet, in lexicographic order.
// The first parsable entry's step is irrelevant and an unparsable entry has no step.
func enumShapes(L int, withDeleted bool, f func([]sym)) {
	var alpha []sym
	for _, st := range []int{0, 1, 2} {
		alpha = append(alpha, sym{st, 0})
		if withDeleted {
			alpha = append(alpha, sym{st, 1})
		}
	}
	alpha = append(alpha, sym{0, 2})
	shape := make([]sym, L)
	var rec func(k int, seenValid bool)
	rec = func(k int, seenValid bool) {
		if k == L {
			f(shape)
			return
		}
		for _, a := range alpha {
			if !seenValid && a.kind != 2 && a.step != 0 {
				continue // the first parsable entry: its step does not matter
			}
			shape[k] = a
			rec(k+1, seenValid || a.kind != 2)
		}
	}
	rec(0, false)
}

func stop() bool { return timeouts >= 3 }

// allCursors emits every find of the cursor set for the prefix `total` of the current index.
func allCursors(total int, absentForAll bool) {
	es := curEnts()
	if total < len(es) && total >= 0 {
		es = es[:total]
	}
	first := true
	var lo, hi int64
	for _, e := range es {
		if e.valid {
			if first {
				lo, hi, first = int64(e.t), int64(e.t), false
			}
			if int64(e.t) > hi {
				hi = int64(e.t)
			}
			if int64(e.t) < lo {
				lo = int64(e.t)
			}
		}
	}
	if first {
		lo, hi = 10, 10
	}
	present := map[int64]bool{}
	for _, e := range es {
		if e.valid {
			present[int64(e.t)] = true
		}
	}
	for _, d := range []string{"asc", "desc"} {
		for v := lo - 1; v <= hi+1; v++ {
			k := (*string)(nil)
			cl := cursorClass(es, int32(v), k)
			do(fmt.Sprintf("find %d %d nil %s", total, v, d), "nil-name:"+cl, !first)
			if absentForAll || present[v] {
				a := absentName(v)
				do(fmt.Sprintf("find %d %d %s %s", total, v, hx.Hex(a), d), "absent-name:"+cl, !first)
			}
		}
		for i, e := range es {
			if !e.valid {
				continue
			}
			nm := hx.Hex(cur[i])
			do(fmt.Sprintf("find %d %d %s %s", total, e.t, nm, d), "present", true)
			do(fmt.Sprintf("find %d %d %s %s", total, int64(e.t)+1, nm, d), "name-with-other-time", true)
			do(fmt.Sprintf("find %d %d %s %s", total, int64(e.t)-1, nm, d), "name-with-other-time", true)
		}
		if stop() {
			return
		}
	}
}

func getsFor(total int) {
	for i, n := range cur {
		nm := n
		if len(nm) == 0 {
			nm = []byte{0}
		}
		e := parseEnt(n)
		cl := "present"
		if !e.valid {
			cl = "unparsable-name"
		} else if i >= total {
			cl = "beyond-total"
		}
		do(fmt.Sprintf("get %d %s", total, hx.Hex(nm)), cl, true)
	}
	do(fmt.Sprintf("get %d %s", total, hx.Hex(absentName(11))), "absent", len(cur) > 0)
}

func recsGrid() {
	L := len(cur)
	for _, d := range []string{"asc", "desc"} {
		for s := 0; s <= L+1; s++ {
			for n := 0; n <= L+1; n++ {
				cl := "inside"
				if s == 0 {
					cl = "start0"
				} else if s > L {
					cl = "start-beyond"
				} else if n == 0 {
					cl = "n0"
				}
				do(fmt.Sprintf("recs %d %d %s", s, n, d), cl, L > 0)
			}
		}
	}
}

func walkClass(es []ent) string {
	hasBad, hasDel := false, false
	for _, e := range es {
		if !e.valid {
			hasBad = true
		} else if e.deleted {
			hasDel = true
		}
	}
	switch {
	case hasBad && hasDel:
		return "bad+deleted"
	case hasBad:
		return "bad"
	case hasDel:
		return "deleted"
	}
	return "live"
}

func walksFor(sizes []int, stale bool) {
	L := len(cur)
	cl := walkClass(curEnts())
	for _, d := range []string{"asc", "desc"} {
		for _, n := range sizes {
			do(fmt.Sprintf("pwalk %d %s %d", n, d, L), cl, L > 0)
			do(fmt.Sprintf("walk %d %s %d", n, d, L), cl, L > 0)
			if stop() {
				return
			}
		}
		if stale {
			for c := 0; c < L; c++ {
				do(fmt.Sprintf("walk 1 %s %d", d, c), "stale-cached", true)
				if c > 0 {
					do(fmt.Sprintf("pwalk 1 %s %d", d, c), "stale-cached", true)
				}
			}
		}
	}
}

func seq(a, b int) []int {
	var r []int
	for i := a; i <= b; i++ {
		r = append(r, i)
	}
	return r
}

const bigBase = 1000000000

// randomLong builds an index of up to maxLen entries: runs of equal times, runs of invalid entries at both
// ends and around the midpoint, some delete-marked entries.
func randomLong(r *hx.Rand, maxLen int) [][]byte {
	n := 8 + r.Intn(maxLen-7)
	head, tail, mid := 0, 0, 0
	if r.Intn(3) > 0 {
		head = r.Intn(7)
	}
	if r.Intn(3) > 0 {
		tail = r.Intn(7)
	}
	if r.Intn(4) > 0 {
		mid = 1 + r.Intn(9)
	}
	midAt := n/2 - mid/2 + r.Intn(3) - 1
	names := make([][]byte, 0, n)
	t := int64(bigBase + r.Intn(1000))
	pEq := 30 + r.Intn(60) // percent chance of repeating the time
	for i := 0; i < n; i++ {
		pos := i + 1
		bad := i < head || i >= n-tail || (i >= midAt && i < midAt+mid) || r.Intn(25) == 0
		if bad {
			names = append(names, badName(pos+r.Intn(4)))
			continue
		}
		if r.Intn(100) >= pEq {
			switch r.Intn(4) {
			case 0:
				t += int64(1 + r.Intn(1000))
			default:
				t += int64(1 + r.Intn(2))
			}
		}
		if r.Intn(8) == 0 {
			names = append(names, delName(t, pos))
		} else {
			names = append(names, liveName(t, pos))
		}
	}
	return names
}

func randomCursors(r *hx.Rand, k int) {
	es := curEnts()
	var valid []int
	for i, e := range es {
		if e.valid {
			valid = append(valid, i)
		}
	}
	L := len(cur)
	for q := 0; q < k; q++ {
		d := []string{"asc", "desc"}[r.Intn(2)]
		if len(valid) == 0 {
			do(fmt.Sprintf("find %d %d nil %s", L, bigBase, d), "nil-name:no-valid-entry", false)
			continue
		}
		i := valid[r.Intn(len(valid))]
		e := es[i]
		switch r.Intn(6) {
		case 0, 1:
			do(fmt.Sprintf("find %d %d %s %s", L, e.t, hx.Hex(cur[i]), d), "present", true)
		case 2:
			do(fmt.Sprintf("find %d %d %s %s", L, e.t, hx.Hex(absentName(int64(e.t))), d), "absent-name:present-time", true)
		case 3:
			v := int64(e.t) + int64(r.Intn(5)) - 2
			key := (*string)(nil)
			do(fmt.Sprintf("find %d %d nil %s", L, v, d), "nil-name:"+cursorClass(es, int32(v), key), true)
		case 4:
			v := int64(es[valid[0]].t) - 1 - int64(r.Intn(3))
			if r.Bool() {
				v = int64(es[valid[len(valid)-1]].t) + 1 + int64(r.Intn(3))
			}
			a := absentName(v)
			k := parseEnt(a).key
			do(fmt.Sprintf("find %d %d %s %s", L, v, hx.Hex(a), d), "absent-name:"+cursorClass(es, int32(v), &k), true)
		default:
			tot := r.Intn(L + 1)
			do(fmt.Sprintf("find %d %d %s %s", tot, e.t, hx.Hex(cur[i]), d), "stale-total", true)
		}
		if stop() {
			return
		}
	}
}

func generate() {
	// own stream, derived from the seed through one mixed draw: hx.NewRand(seed) and hx.NewRand(seed+1) are the
	// same sequence shifted by one, and run.Op also draws from run.R for its samples
	r := hx.NewRand(run.R.U64() ^ 0xC06C06C06)
	thorough := run.Thorough()

	// the recorded finding first (also in corpus/C06): an unparsable look-ahead element has no cursor.
	do(idxLine([][]byte{liveName(bigBase+10, 1), delName(bigBase+20, 2), liveName(bigBase+30, 3),
		[]byte("xxxxxxxxxxxxxxxxxx"), liveName(bigBase+40, 5)}), "", true)
	do("walk 1 asc 5", "bad+deleted", true)
	do("walk 1 desc 5", "bad+deleted", true)

	// ---- A. cmsys level: exhaustive shapes, smallest first ---------------------------------------
	maxA := 6
	if thorough {
		maxA = 8
	}
	for L := 0; L <= maxA && !stop(); L++ {
		firstOfLen := true
		enumShapes(L, false, func(shape []sym) {
			if stop() {
				return
			}
			do(idxLine(buildIndex(10, shape)), "", L > 0)
			allCursors(L, L <= 5)
			if L <= 4 {
				for tot := 0; tot < L; tot++ {
					allCursors(tot, false)
				}
			}
			if L <= 2 {
				// malformed: a cached total that is larger than the file, or negative
				for _, tot := range []int{L + 1, L + 3, -1} {
					for _, d := range []string{"asc", "desc"} {
						do(fmt.Sprintf("find %d 11 nil %s", tot, d), "malformed-total", false)
						do(fmt.Sprintf("find %d 10 %s %s", tot, hx.Hex(liveName(10, 1)), d), "malformed-total", false)
					}
				}
			}
			if L <= 5 {
				getsFor(L)
				if L >= 1 && L <= 4 {
					getsFor(L - 1)
				}
			}
			if firstOfLen {
				recsGrid()
				firstOfLen = false
			}
		})
	}

	// ---- B. bbs / ptt walks: exhaustive shapes with delete-marked entries -------------------------
	maxB := 4
	if thorough {
		maxB = 6
	}
	for L := 0; L <= maxB && !stop(); L++ {
		enumShapes(L, true, func(shape []sym) {
			if stop() {
				return
			}
			do(idxLine(buildIndex(bigBase+10, shape)), "", L > 0)
			walksFor(seq(1, L+1), L <= 3)
		})
	}

	// ---- C. random long indices --------------------------------------------------------------------
	nLong, maxLen, nCur := 120, 300, 40
	if thorough {
		nLong, nCur = 1500, 60
	}
	for k := 0; k < nLong && !stop(); k++ {
		ml := maxLen
		if k%3 == 0 {
			ml = 40
		}
		do(idxLine(randomLong(r, ml)), "", true)
		L := len(cur)
		randomCursors(r, nCur)
		es := curEnts()
		for q := 0; q < 4; q++ {
			i := r.Intn(L)
			cl := "present"
			if !es[i].valid {
				cl = "unparsable-name"
			}
			nm := cur[i]
			if len(nm) == 0 {
				nm = []byte{0}
			}
			do(fmt.Sprintf("get %d %s", L, hx.Hex(nm)), cl, true)
		}
		for q := 0; q < 4; q++ {
			do(fmt.Sprintf("recs %d %d %s", 1+r.Intn(L+1), r.Intn(12), []string{"asc", "desc"}[r.Intn(2)]), "random", true)
		}
		sizes := []int{1 + r.Intn(3), 5 + r.Intn(20), L, L + 1}
		if L <= 60 || k%10 == 0 {
			sizes = append(sizes, 1)
		}
		walksFor(sizes, false)
	}

	// ---- E. posting histories: the cached total after a post, whatever it was before ---------------
	// idx (cached = len) ; the cache is set cold / exact / lagging / overcounting ; optionally the board is
	// listed (total cached) ; k records reach .DIR behind the cache's back ; the real NewPost ; then the
	// newest article is looked up by name and the board is paged both ways with the cached total.
	postBases := [][]sym{{}, {{0, 0}}, {{0, 0}, {0, 0}}, {{0, 0}, {1, 1}, {0, 2}}, {{0, 2}}, {{0, 0}, {2, 0}, {0, 0}, {1, 1}}}
	if thorough {
		for L := 1; L <= 3; L++ {
			enumShapes(L, true, func(sh []sym) { postBases = append(postBases, append([]sym{}, sh...)) })
		}
	}
	for bi, base := range postBases {
		if stop() {
			break
		}
		L := len(base)
		cacheds := []int{L, 0, L + 2}
		for c := 1; c < L; c++ {
			cacheds = append(cacheds, c)
		}
		for _, c := range cacheds {
			for k := 0; k <= 2; k++ {
				if !thorough && bi >= 3 && k == 2 {
					continue
				}
				for _, listFirst := range []bool{false, true} {
					if listFirst && c != 0 {
						continue
					}
					do(idxLine(buildIndex(bigBase+10, base)), "", true)
					do(fmt.Sprintf("setcached %d", c), "", true)
					if listFirst {
						do("list", "", true)
					}
					for j := 0; j < k; j++ {
						nm := liveName(int64(bigBase+5000+j), 0xC00+j)
						if j == 1 && bi%2 == 1 {
							nm = badName(4) // an unparsable orphan
						}
						do("append "+hx.Hex(nm), "", true)
					}
					cl := fmt.Sprintf("orphans%d", k)
					do("post", cl, true)
					do("findlast asc", cl, true)
					do("findlast desc", cl, true)
					n := len(cur)
					for _, d := range []string{"asc", "desc"} {
						for _, sz := range []int{1, 2, n + 1} {
							do(fmt.Sprintf("pwalk %d %s cur", sz, d), "after-post", true)
							do(fmt.Sprintf("walk %d %s cur", sz, d), "after-post", true)
						}
					}
					do("post", cl, true)
					do("findlast desc", cl, true)
					do("walk 1 asc cur", "after-post", true)
					do("pwalk 2 desc cur", "after-post", true)
					// a restart (every cached total zeroed), then the next post: the posted board and the log
					// boards the post is copied to are re-counted, not bumped from 0
					// first access after a restart (cold total) through every by-name entry point
					for _, how := range []string{"edit", "cross"} {
						for _, pick := range []int{0, len(cur) - 1} {
							if pick < 0 || pick >= len(cur) {
								continue
							}
							nm := cur[pick]
							if len(nm) == 0 {
								nm = []byte{0}
							}
							do("reload", "", true)
							do("nlookup "+how+" "+hx.Hex(nm), "", true)
							do("nlookup "+how+" "+hx.Hex(absentName(bigBase+7)), "", true)
						}
					}
					do("reload", "", true)
					do("findlast asc", cl, true)
					do("reload", "", true)
					do("post", cl+":after-reload", true)
					do("findlast desc", cl, true)
					do("walk 2 desc cur", "after-post", true)
				}
			}
		}
	}

	// ---- F. size classes: one long index, page sizes around powers of two and round numbers -------
	// (a size-dependent shortcut inside GetRecords / LoadGeneralArticles - a cap, a buffer, a chunk - shows only
	// when the page size crosses it on an index longer than the page): windows of n and n+1 records from both
	// ends, and full ptt and bbs walks, both directions.
	{
		const bigLen = 2100
		names := make([][]byte, bigLen)
		t := int64(bigBase + 100)
		for i := range names {
			if i%3 != 0 {
				t += int64(i % 2)
			}
			if i%97 == 5 {
				names[i] = delName(t, i+1)
			} else {
				names[i] = liveName(t, i+1)
			}
		}
		do(idxLine(names), "", true)
		sizes := []int{255, 256, 257, 511, 512, 513, 999, 1000, 1001, 1023, 1024, 1025, 2047, 2048, 2099, 2100, 2101}
		for _, n := range sizes {
			for _, d := range []string{"asc", "desc"} {
				start := 1
				if d == "desc" {
					start = bigLen
				}
				cl := fmt.Sprintf("size%d", n)
				do(fmt.Sprintf("recs %d %d %s", start, n, d), cl, true)
				do(fmt.Sprintf("recs %d %d %s", start, n+1, d), cl, true)
				if n <= 2048 && !stop() {
					do(fmt.Sprintf("pwalk %d %s %d", n, d, bigLen), cl, true)
					do(fmt.Sprintf("walk %d %s %d", n, d, bigLen), cl, true)
				}
			}
		}
		// a cursor deep inside, then a large page from there
		for _, n := range []int{512, 1024} {
			do(fmt.Sprintf("recs %d %d asc", 700, n+1), "size-mid", true)
			do(fmt.Sprintf("recs %d %d desc", 1900, n+1), "size-mid", true)
		}
	}

	// ---- D. malformed stream -----------------------------------------------------------------------
	do(idxLine(buildIndex(bigBase+10, []sym{{0, 0}, {1, 0}, {0, 1}, {2, 0}})), "", true)
	for _, ct := range []int64{-1 << 31, -1<<31 + 1, 1<<31 - 1, 0, -1} {
		for _, d := range []string{"asc", "desc"} {
			do(fmt.Sprintf("find 4 %d nil %s", ct, d), "extreme-time", true)
			do(fmt.Sprintf("find 4 %d %s %s", ct, hx.Hex(cur[1]), d), "extreme-time", true)
		}
	}
	for _, tot := range []int{5, 9, -1, -7} {
		do(fmt.Sprintf("find %d %d nil asc", tot, bigBase+11), "malformed-total", false)
		do(fmt.Sprintf("find %d %d %s desc", tot, bigBase+11, hx.Hex(cur[1])), "malformed-total", false)
		do(fmt.Sprintf("get %d %s", tot, hx.Hex(cur[1])), "malformed-total", false)
	}
	do("recs 1 -1 asc", "negative-n", false)
	do("recs -3 2 desc", "start0", false)
	do("recs 0 2 asc", "start0", false)
	do("walk 0 asc 4", "n0", false)
	do("walk -3 desc 4", "n0", false)
	do("walk 2 asc 0", "zero-cached", false)
	good := fmt.Sprintf("%d@", bigBase+11)
	aid := "0xcieB02"
	texts := []string{"", "@", "@@", "abc", good + aid, good, aid, "12@" + aid, good + aid + "@x", "x" + good + aid,
		"99999999999999999999@" + aid, "-5@" + aid, "+" + good + aid, good + "0xc", good + aid + "ZZZZ", good + "\xff\x80\x00abc",
		fmt.Sprintf("%d@%s", bigBase+12, aid), "0@00000000", " " + good + aid, good + " " + aid, "1_0@" + aid}
	for _, t := range texts {
		b := []byte(t)
		h := hx.Hex(b)
		do("deser "+h, "", true)
	}
	nMal := 300
	if thorough {
		nMal = 5000
	}
	alpha := []byte("0123456789@@-+_ 0xcieB02AZaz\x00\xff")
	for k := 0; k < nMal; k++ {
		var b []byte
		switch r.Intn(3) {
		case 0:
			b = r.Bytes(r.Intn(24), alpha)
		case 1:
			b = []byte(fmt.Sprintf("%d@%s", bigBase+r.Intn(3), string(r.Bytes(8, []byte("0123456789ABCDEFGHIJKLMNOPQRSTUVWXYZabcdefghijklmnopqrstuvwxyz-_")))))
		default:
			b = []byte(fmt.Sprintf("%d@%s", int64(r.U64()%(1<<33))-1<<32, string(r.Bytes(r.Intn(11), alpha))))
		}
		do("deser "+hx.Hex(b), "", true)
	}
	for k := 0; k < nMal/3; k++ {
		var n []byte
		switch r.Intn(3) {
		case 0:
			n = liveName(int64(bigBase+r.Intn(1<<30)), r.Intn(4096))
		case 1:
			n = delName(int64(bigBase+r.Intn(1<<30)), r.Intn(4096))
		default:
			n = r.Bytes(1+r.Intn(28), []byte("MG.dA0123456789abcdefABCDEF+-\x00x"))
		}
		if len(n) == 0 {
			n = []byte{0}
		}
		do("ser "+hx.Hex(n), "", true)
	}
}
