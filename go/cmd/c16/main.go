// c16: correspondence harness and property oracle for the token rules (property C16).
//
// Every case is (operation, recipes of the token strings involved).  The harness builds the concrete
// strings at the current wall-clock second, calls the REAL functions of package api (directly, and for
// the login-required wrappers, Refresh and the info handlers through an in-process gin router), reads
// the strings back without the jwt library (token.go) and writes
//   - the op line for the Lean model: the abstraction of each string + "@recipe",
//   - what the implementation answered, canonicalised (expiry times relative to the clock),
//   - the verdict of the property oracle P̂ (oracle.go), which judges the implementation's answer by the
//     statement of the property only.
//
// A case whose execution straddles a change of the wall-clock second is run again.
package main

import (
	"bytes"
	"encoding/json"
	"flag"
	"fmt"
	"net/http"
	"net/http/httptest"
	"os"
	"strconv"
	"strings"
	"time"

	"github.com/Ptt-official-app/go-pttbbs/api"
	"github.com/Ptt-official-app/go-pttbbs/bbs"
	"github.com/Ptt-official-app/go-pttbbs/ptttype"
	"github.com/gin-gonic/gin"
	"github.com/sirupsen/logrus"
	"io"
	"verifharness/internal/bbsenv"
	"verifharness/internal/hx"
)

var run *hx.Run
var router *gin.Engine

// -mode inis: the pass that configures package api the way a deployment does (viper + api.InitConfig() on an ini
// file), one child process per ini file because the configuration is global; -mode child is such a child.
var modeFlag = flag.String("mode", "tokens", "tokens | inis | child")
var iniFlag = flag.String("ini", "", "child: the ini spec (a shipped file's relative path, `none`, or inline:k=hex;…)")
var childOutFlag = flag.String("childout", "", "child: where the recorded cases go (JSON lines)")
var childSink *json.Encoder
var skipped int
var env *bbsenv.Env

const sysopPerms = ptttype.PERM_ACCOUNTS | ptttype.PERM_SYSOP | ptttype.PERM_ACCTREG

// grantSysops: the fixture's users hold none of PERM_SYSOP / PERM_ACCOUNTS / PERM_ACCTREG (SYSOP included);
// the routes that let such users act for others are only exercised when some do.
func grantSysops() {
	for u, bit := range map[string]ptttype.PERM{"SYSOP": ptttype.PERM_SYSOP, "Kahou": ptttype.PERM_ACCOUNTS, "Kahou2": ptttype.PERM_ACCTREG} {
		usr, err := bbs.GetUser(bbs.UUserID(u))
		if err == nil {
			_, err = bbs.SetUserPerm(bbs.UUserID(u), bbs.UUserID(u), usr.Userlevel|bit)
		}
		if err != nil || !bbs.IsSysop(bbs.UUserID(u), sysopPerms) {
			run.Note(fmt.Sprintf("could not make %s a privileged user (%v): the sysop branch of the e-mail routes is not exercised", u, err))
		}
	}
}

type tcase struct {
	op string
	a  []string
}

func tc(op string, a ...string) tcase { return tcase{op, a} }

// ---- the in-process router ------------------------------------------------------

type uidPath struct {
	UID string `uri:"uid" binding:"required"`
}

func whoami(remoteAddr string, uuserID bbs.UUserID, params interface{}, c *gin.Context) (interface{}, error) {
	return map[string]string{"user": string(uuserID)}, nil
}

func whoamiPath(remoteAddr string, uuserID bbs.UUserID, params interface{}, path interface{}, c *gin.Context) (interface{}, error) {
	return map[string]string{"user": string(uuserID)}, nil
}

func newRouter() *gin.Engine {
	gin.SetMode(gin.ReleaseMode)
	r := gin.New()
	r.POST("/whoami", func(c *gin.Context) { api.LoginRequiredJSON(whoami, &struct{}{}, c) })
	r.POST("/whoami/:uid", func(c *gin.Context) { api.LoginRequiredPathJSON(whoamiPath, &struct{}{}, &uidPath{}, c) })
	r.POST(api.REFRESH_R, api.RefreshWrapper)
	r.POST(api.GET_TOKEN_INFO_R, api.GetTokenInfoWrapper)
	r.POST(api.GET_REFRESH_TOKEN_INFO_R, api.GetRefreshTokenInfoWrapper)
	r.POST(api.GET_EMAIL_TOKEN_INFO_R, api.GetEmailTokenInfoWrapper)
	return r
}

// headerValue: the Authorization header of a shape, around the token string.
func headerValue(shape, raw string) (string, bool) {
	switch shape {
	case "none":
		return "", false
	case "one":
		return raw, true
	case "bearer":
		return "bearer " + raw, true
	case "other":
		return "xyz " + raw, true
	case "padded":
		return "  Bearer " + raw + "  ", true
	case "three":
		return "bearer " + raw + " x", true
	case "double":
		return "bearer  " + raw, true
	}
	panic("bad header shape " + shape)
}

// fieldsOf: the number of fields of the trimmed header and the second one (the abstraction of GetJwt's input)
func fieldsOf(hv string) (int, string) {
	f := strings.Split(strings.TrimSpace(hv), " ")
	if len(f) == 2 {
		return 2, f[1]
	}
	return len(f), ""
}

type httpRes struct {
	code int
	body map[string]interface{}
}

func post(path string, hv string, hasHeader bool, addr bool, body interface{}) httpRes {
	bb, _ := json.Marshal(body)
	req := httptest.NewRequest("POST", "http://localhost"+path, bytes.NewReader(bb))
	req.Header.Set("Content-Type", "application/json")
	if hasHeader {
		req.Header["Authorization"] = []string{hv}
	}
	if addr {
		req.Header.Set("X-Forwarded-For", "127.0.0.1")
	}
	w := httptest.NewRecorder()
	router.ServeHTTP(w, req)
	res := httpRes{code: w.Code}
	_ = json.Unmarshal(w.Body.Bytes(), &res.body)
	return res
}

func (r httpRes) errLine() string {
	msg, _ := r.body["Msg"].(string)
	return fmt.Sprintf("%d %s", r.code, strings.ReplaceAll(msg, " ", "-"))
}

func jnum(x interface{}) int64 {
	f, _ := x.(float64)
	return int64(f)
}

func jstr(x interface{}) string {
	s, _ := x.(string)
	return s
}

// ---- one case ---------------------------------------------------------------------

type outcome struct {
	line, impl, label string
	nontrivial        bool
	skip              bool
	fails             [][2]string // (key, what)
}

func (o *outcome) fail(key, what string) { o.fails = append(o.fails, [2]string{key, what}) }

func isOne(s string) bool { return s == "1" }

func errName(err error) string {
	switch err {
	case api.ErrInvalidToken:
		return "err invalid-token"
	case api.ErrInvalidUser:
		return "err invalid-user"
	}
	return "err other:" + strings.ReplaceAll(err.Error(), " ", "-")
}

func identLine(user string, exp int, cli string, now int64) string {
	return fmt.Sprintf("user=%s exp=%s cli=%s", hx0(user), relTime(int64(exp), now), hx0(cli))
}

// why: a coarse reason class of a token for the histogram
func why(v seen) string {
	switch v.class {
	case 'E':
		return "empty"
	case 'M':
		return "malformed"
	}
	if !strings.HasPrefix(v.alg, "hs") {
		return "alg-" + v.alg
	}
	return fmt.Sprintf("%s-sig%v%v%v", v.alg, b2i(v.sig[0]), b2i(v.sig[1]), b2i(v.sig[2]))
}

func b2i(b bool) int {
	if b {
		return 1
	}
	return 0
}

func execCase(c tcase, now int64) (o outcome) {
	b := &builder{now: now}
	o.nontrivial = true
	switch c.op {
	case "config":
		s := secrets()
		o.line = "config"
		o.impl = fmt.Sprintf("jwt=%s refresh=%s email=%s ttl=%d,%d,%d eps=%d guest=%s typ=%s ctx=%s,%s",
			hx.Hex(s[0]), hx.Hex(s[1]), hx.Hex(s[2]), api.JWT_TOKEN_EXPIRE_TS, api.REFRESH_JWT_TOKEN_EXPIRE_TS, api.EMAIL_JWT_TOKEN_EXPIRE_TS,
			api.EPSILON_EXPIRE_TS, hx0(api.GUEST), hx0(api.REFRESH_JWT_CLAIM_TYPE), hx0(string(api.CONTEXT_CHANGE_EMAIL)), hx0(string(api.CONTEXT_SET_ID_EMAIL)))
		o.label = "config"

	case "create":
		kind := c.a[0]
		o.line = "create " + strings.Join(c.a, " ")
		o.label = "create:" + kind
		user, cli := unhx0(c.a[1]), unhx0(c.a[2])
		o.impl = hx.CallSync(func() string {
			var raw string
			var exp int64 = -1
			var err error
			switch kind {
			case "access":
				r, e, er := api.CreateToken(bbs.UUserID(user), cli)
				raw, exp, err = r, int64(e), er
			case "refresh":
				r, e, er := api.CreateRefreshToken(bbs.UUserID(user), cli)
				raw, exp, err = r, int64(e), er
			case "email":
				raw, err = api.CreateEmailToken(bbs.UUserID(user), cli, unhx0(c.a[3]), api.EmailTokenContext(unhx0(c.a[4])))
			}
			if err != nil {
				return "err " + strings.ReplaceAll(err.Error(), " ", "-")
			}
			v := lookRaw(raw)
			judgeCreated(&o, kind, v, user, cli, now, raw)
			if kind == "email" {
				return v.word(now)
			}
			return "exp=" + relTime(exp, now) + " " + v.word(now)
		})

	case "vjwt", "vrefresh", "vemail":
		raw := b.build(c.a[0])
		v := lookRaw(raw)
		if v.class == 'U' {
			o.skip = true
			return
		}
		tokw := v.word(now) + "@" + c.a[0]
		var user, cli, eml string
		var exp int
		var err error
		switch c.op {
		case "vjwt":
			o.line = "vjwt " + tokw + " " + c.a[1]
			o.impl = hx.CallSync(func() string {
				u, e, cl, er := api.VerifyJwt(raw, isOne(c.a[1]))
				user, exp, cli, err = string(u), e, cl, er
				if er != nil {
					return errName(er)
				}
				return "ok " + identLine(user, exp, cli, now)
			})
		case "vrefresh":
			o.line = "vrefresh " + tokw
			o.impl = hx.CallSync(func() string {
				u, e, cl, er := api.VerifyRefreshJwt(raw)
				user, exp, cli, err = string(u), e, cl, er
				if er != nil {
					return errName(er)
				}
				return "ok " + identLine(user, exp, cli, now)
			})
		case "vemail":
			o.line = "vemail " + tokw + " " + c.a[1]
			o.impl = hx.CallSync(func() string {
				u, e, cl, em, er := api.VerifyEmailJwt(raw, api.EmailTokenContext(unhx0(c.a[1])))
				user, exp, cli, eml, err = string(u), e, cl, em, er
				if er != nil {
					return errName(er)
				}
				return "ok " + identLine(user, exp, cli, now) + " eml=" + hx0(eml)
			})
		}
		res := "ok"
		if err != nil {
			res = "err"
		}
		o.label = c.op + ":" + res + ":" + why(v)
		o.nontrivial = v.class == 'T'
		if o.impl == "PANIC" {
			o.fail("crash:"+c.op, "panic on "+strconv.Quote(raw)+": "+hx.LastPanic)
			return
		}
		if b.err != "" {
			o.fail("crash:create", b.err)
		}
		kind := map[string]byte{"vjwt": 'a', "vrefresh": 'r', "vemail": 'e'}[c.op]
		ctx := ""
		checkExp := true
		if c.op == "vemail" {
			ctx = unhx0(c.a[1])
		}
		if c.op == "vjwt" {
			checkExp = isOne(c.a[1])
		}
		judgeVerify(&o, c.op, kind, raw, v, b, err == nil, user, eml, ctx, checkExp, now)

	case "auth", "authp":
		raw := b.build(c.a[2])
		hv, has := headerValue(c.a[1], raw)
		nf, second := fieldsOf(hv)
		v := lookRaw(second)
		if nf != 2 {
			v = lookRaw(raw)
		}
		if v.class == 'U' {
			o.skip = true
			return
		}
		o.line = fmt.Sprintf("%s %s %d@%s %s@%s", c.op, c.a[0], nf, c.a[1], v.word(now), c.a[2])
		path := "/whoami"
		if c.op == "authp" {
			path = "/whoami/someone"
		}
		var res httpRes
		o.impl = hx.CallSync(func() string {
			res = post(path, hv, has, isOne(c.a[0]), map[string]string{})
			if res.code != 200 {
				return res.errLine()
			}
			return "200 user=" + hx0(jstr(res.body["user"]))
		})
		o.label = fmt.Sprintf("%s:%d:%s:nf%d:%s", c.op, res.code, c.a[1], nf, why(v))
		o.nontrivial = v.class == 'T' && nf == 2
		if o.impl == "PANIC" {
			o.fail("crash:"+c.op, "panic: "+hx.LastPanic)
			return
		}
		if res.code == 200 {
			user := jstr(res.body["user"])
			subIsGuest := v.class == 'T' && v.claims[1].kind == 's' && v.claims[1].s == api.GUEST
			if nf != 2 && user != api.GUEST {
				o.fail("auth:accepted-forged", "no token in the Authorization header, yet the handler ran as "+strconv.Quote(user))
			} else if nf == 2 && !subIsGuest {
				// handler called as guest = the token was refused
				judgeVerify(&o, c.op, 'a', second, v, b, user != api.GUEST, user, "", "", true, now)
			}
		} else if isOne(c.a[0]) {
			o.fail("auth:rejected-valid", "the login-required wrapper answered "+res.errLine()+" instead of calling the handler (as the user or as guest)")
		}

	case "tokinfo", "rtokinfo":
		hraw := b.build(c.a[1])
		braw := b.build(c.a[2])
		hv, has := headerValue(c.a[0], hraw)
		nf, second := fieldsOf(hv)
		hvw := lookRaw(second)
		if nf != 2 {
			hvw = lookRaw(hraw)
		}
		bv := lookRaw(braw)
		if hvw.class == 'U' || bv.class == 'U' {
			o.skip = true
			return
		}
		o.line = fmt.Sprintf("%s %d@%s %s@%s %s@%s", c.op, nf, c.a[0], hvw.word(now), c.a[1], bv.word(now), c.a[2])
		path := api.GET_TOKEN_INFO_R
		if c.op == "rtokinfo" {
			path = api.GET_REFRESH_TOKEN_INFO_R
		}
		var res httpRes
		o.impl = hx.CallSync(func() string {
			res = post(path, hv, has, true, map[string]string{"token": braw})
			if res.code != 200 {
				return res.errLine()
			}
			return "200 " + identLine(jstr(res.body["user_id"]), int(jnum(res.body["expire"])), jstr(res.body["client_info"]), now)
		})
		o.label = fmt.Sprintf("%s:%d:%s/%s", c.op, res.code, why(hvw), why(bv))
		o.nontrivial = bv.class == 'T'
		if o.impl == "PANIC" {
			o.fail("crash:"+c.op, "panic: "+hx.LastPanic)
			return
		}
		if res.code == 200 && braw != "" {
			kind := byte('a')
			if c.op == "rtokinfo" {
				kind = 'r'
			}
			judgeVerify(&o, c.op, kind, braw, bv, b, true, jstr(res.body["user_id"]), "", "", true, now)
		}

	case "refresh":
		hraw := b.build(c.a[1])
		rraw := b.build(c.a[3])
		pcli := unhx0(c.a[2])
		hv, has := headerValue(c.a[0], hraw)
		nf, second := fieldsOf(hv)
		hvw := lookRaw(second)
		if nf != 2 {
			hvw = lookRaw(hraw)
		}
		rv := lookRaw(rraw)
		if hvw.class == 'U' || rv.class == 'U' {
			o.skip = true
			return
		}
		o.line = fmt.Sprintf("refresh %d@%s %s@%s %s %s@%s", nf, c.a[0], hvw.word(now), c.a[1], c.a[2], rv.word(now), c.a[3])
		var res httpRes
		var av, nv seen
		o.impl = hx.CallSync(func() string {
			res = post(api.REFRESH_R, hv, has, true, map[string]string{"client_info": pcli, "refresh_token": rraw})
			if res.code != 200 {
				return res.errLine()
			}
			av = lookRaw(jstr(res.body["access_token"]))
			nv = lookRaw(jstr(res.body["refresh_token"]))
			return fmt.Sprintf("200 user=%s aexp=%s rexp=%s access=%s refresh=%s", hx0(jstr(res.body["user_id"])),
				relTime(jnum(res.body["access_expire"]), now), relTime(jnum(res.body["refresh_expire"]), now), av.word(now), nv.word(now))
		})
		o.label = fmt.Sprintf("refresh:%d:nf%d:%s/%s", res.code, nf, why(hvw), why(rv))
		o.nontrivial = (hvw.class == 'T' && nf == 2) || rv.class == 'T'
		if o.impl == "PANIC" {
			o.fail("crash:refresh", "panic: "+hx.LastPanic)
			return
		}
		if b.err != "" {
			o.fail("crash:create", b.err)
		}
		judgeRefresh(&o, nf, second, hvw, rraw, rv, pcli, b, res, av, nv, now)

	case "emailinfo":
		if env == nil {
			o.skip = true
			return
		}
		hraw := b.build(c.a[1])
		braw := b.build(c.a[2])
		ctx := unhx0(c.a[3])
		hv, has := headerValue(c.a[0], hraw)
		nf, second := fieldsOf(hv)
		hvw := lookRaw(second)
		if nf != 2 {
			hvw = lookRaw(hraw)
		}
		bv := lookRaw(braw)
		if hvw.class == 'U' || bv.class == 'U' {
			o.skip = true
			return
		}
		// who is asking, by the statement: the subject of a genuine access token, otherwise the guest
		requester := api.GUEST
		if nf == 2 && genuine('a', hvw, "", now) {
			requester = hvw.claims[1].s
		}
		sysop := bbs.IsSysop(bbs.UUserID(requester), sysopPerms)
		o.line = fmt.Sprintf("emailinfo %d@%s %s@%s %s@%s %s %d", nf, c.a[0], hvw.word(now), c.a[1], bv.word(now), c.a[2], c.a[3], b2i(sysop))
		var res httpRes
		o.impl = hx.CallSync(func() string {
			res = post(api.GET_EMAIL_TOKEN_INFO_R, hv, has, true, map[string]string{"token": braw, "context": ctx})
			if res.code != 200 {
				return res.errLine()
			}
			return "200 " + identLine(jstr(res.body["user_id"]), int(jnum(res.body["expire"])), jstr(res.body["client_info"]), now) + " eml=" + hx0(jstr(res.body["email"]))
		})
		o.label = fmt.Sprintf("emailinfo:%d:sysop%d:%s/%s", res.code, b2i(sysop), why(hvw), why(bv))
		o.nontrivial = bv.class == 'T'
		if o.impl == "PANIC" {
			o.fail("crash:emailinfo", "panic: "+hx.LastPanic)
			return
		}
		if res.code == 200 {
			user := jstr(res.body["user_id"])
			judgeVerify(&o, c.op, 'e', braw, bv, b, true, user, jstr(res.body["email"]), ctx, true, now)
			if user != requester && !sysop {
				o.fail("auth:wrong-user", fmt.Sprintf("GetEmailTokenInfo told %q about the e-mail token of %q", requester, user))
			}
		}

	case "chgemail", "setidemail":
		if env == nil {
			o.skip = true
			return
		}
		uu, q := unhx0(c.a[0]), unhx0(c.a[1])
		raw := b.build(c.a[2])
		v := lookRaw(raw)
		if v.class == 'U' {
			o.skip = true
			return
		}
		tokw := v.word(now) + "@" + c.a[2]
		valid := false
		eml, _ := strClaim(v.claims[5])
		ctx := string(api.CONTEXT_CHANGE_EMAIL)
		sysopOK := false
		if c.op == "chgemail" {
			o.line = fmt.Sprintf("chgemail %s %s %s", c.a[0], c.a[1], tokw)
			o.impl = hx.CallSync(func() string {
				res, err := api.ChangeEmail("127.0.0.1", bbs.UUserID(uu), &api.ChangeEmailParams{Jwt: raw}, &api.ChangeEmailPath{UserID: bbs.UUserID(q)}, nil)
				if err == api.ErrInvalidUser {
					return "invalid"
				}
				valid = true
				if err != nil {
					return "valid-error:" + strings.ReplaceAll(err.Error(), " ", "-")
				}
				eml = res.(*api.ChangeEmailResult).Email
				return "valid eml=" + hx0(eml)
			})
		} else {
			ctx = string(api.CONTEXT_SET_ID_EMAIL)
			isSysop := bbs.IsSysop(bbs.UUserID(uu), sysopPerms)
			sysopOK = isSysop
			// the target starts without the "id e-mail verified" bit, so that gaining it is visible
			if u, err := bbs.GetUser(bbs.UUserID(q)); err == nil && u.UserLevel2&ptttype.PERM2_ID_EMAIL != 0 {
				_, _ = bbs.SetIDEmail(bbs.UUserID(q), false)
			}
			defer func() {
				// P̂ on the stored state: the target may be marked verified only through a genuine id-e-mail token OF THE TARGET
				u, err := bbs.GetUser(bbs.UUserID(q))
				if err != nil || u.UserLevel2&ptttype.PERM2_ID_EMAIL == 0 {
					return
				}
				o.label += ":marked"
				sub, _ := strClaim(v.claims[1])
				if !genuineNow('e', v, ctx, now) || v.claims[1].kind != 's' || sub != q {
					o.fail("auth:wrong-user", fmt.Sprintf("SetIDEmail by %q marked %q as id-e-mail verified with the token [%s] (subject %s)", uu, q, v.word(now), v.claims[1].word(now)))
				}
			}()
			o.line = fmt.Sprintf("setidemail %s %s %s %d", c.a[0], c.a[1], tokw, b2i(isSysop))
			o.impl = hx.CallSync(func() string {
				_, err := api.SetIDEmail("127.0.0.1", bbs.UUserID(uu), &api.SetIDEmailParams{IsSet: true, Jwt: raw}, &api.SetIDEmailPath{UserID: bbs.UUserID(q)}, nil)
				if err == api.ErrInvalidUser {
					return "invalid"
				}
				valid = true
				return "valid"
			})
		}
		o.label = fmt.Sprintf("%s:%v:%s", c.op, valid, why(v))
		o.nontrivial = v.class == 'T'
		if o.impl == "PANIC" {
			o.fail("crash:"+c.op, "panic: "+hx.LastPanic)
			return
		}
		if valid {
			if raw == "" {
				o.fail("auth:accepted-forged", c.op+" went ahead without an e-mail token")
			}
			if q == ptttype.STR_GUEST || (uu != q && !sysopOK) {
				o.fail("auth:wrong-user", fmt.Sprintf("%s for user %q went ahead on behalf of requester %q", c.op, q, uu))
			}
			judgeVerify(&o, c.op, 'e', raw, v, b, true, q, eml, ctx, true, now)
		} else if sub, _ := strClaim(v.claims[1]); uu == q && q != ptttype.STR_GUEST && v.class == 'T' && v.claims[1].kind == 's' && sub == q {
			// refused although the requester is the target and presents a token of the target: it must not be a genuine one
			judgeVerify(&o, c.op, 'e', raw, v, b, false, q, eml, ctx, true, now)
		}

	default:
		panic("unknown op " + c.op)
	}
	return
}

// runCase executes a case within one wall-clock second and records it.
func runCase(c tcase) {
	for attempt := 0; ; attempt++ {
		t := time.Now()
		if t.Nanosecond() > 850_000_000 {
			time.Sleep(time.Duration(1_000_000_000-t.Nanosecond()+1_000_000) * time.Nanosecond)
		}
		now := time.Now().Unix()
		o := execCase(c, now)
		if time.Now().Unix() != now && attempt < 8 {
			continue
		}
		if o.skip {
			skipped++
			return
		}
		emit(o)
		return
	}
}

type recorded struct {
	Line, Impl, Label string
	Nontrivial        bool
	Fails             [][2]string
}

// emit records a finished case: in a child process as a JSON line for the parent, otherwise in the run.
func emit(o outcome) {
	if childSink != nil {
		_ = childSink.Encode(recorded{o.line, o.impl, o.label, o.nontrivial, o.fails})
		return
	}
	i := run.Op(o.line, o.impl, o.label, o.nontrivial)
	for _, f := range o.fails {
		run.Fail(i, f[0], f[1])
	}
}

// parseOp turns an op line (of a replay or corpus file) back into a case: the recipes follow the `@`.
func parseOp(line string) (tcase, bool) {
	w := strings.Fields(line)
	if len(w) == 0 {
		return tcase{}, false
	}
	rec := func(s string) string {
		if i := strings.IndexByte(s, '@'); i >= 0 {
			return s[i+1:]
		}
		return s
	}
	switch {
	case w[0] == "config" && len(w) == 1:
		return tc("config"), true
	case w[0] == "create" && (len(w) == 4 || len(w) == 6):
		return tc("create", w[1:]...), true
	case w[0] == "vjwt" && len(w) == 3:
		return tc("vjwt", rec(w[1]), w[2]), true
	case w[0] == "vrefresh" && len(w) == 2:
		return tc("vrefresh", rec(w[1])), true
	case w[0] == "vemail" && len(w) == 3:
		return tc("vemail", rec(w[1]), w[2]), true
	case (w[0] == "auth" || w[0] == "authp") && len(w) == 4:
		return tc(w[0], w[1], rec(w[2]), rec(w[3])), true
	case (w[0] == "tokinfo" || w[0] == "rtokinfo") && len(w) == 4:
		return tc(w[0], rec(w[1]), rec(w[2]), rec(w[3])), true
	case w[0] == "emailinfo" && len(w) == 6:
		return tc("emailinfo", rec(w[1]), rec(w[2]), rec(w[3]), w[4]), true
	case w[0] == "chgemail" && len(w) == 4:
		return tc("chgemail", w[1], w[2], rec(w[3])), true
	case w[0] == "setidemail" && len(w) == 5:
		return tc("setidemail", w[1], w[2], rec(w[3])), true
	case w[0] == "refresh" && len(w) == 5:
		return tc("refresh", rec(w[1]), rec(w[2]), w[3], rec(w[4])), true
	}
	return tcase{}, false
}

func main() {
	run = hx.Start("C16")
	logrus.SetOutput(io.Discard)
	logrus.SetLevel(logrus.PanicLevel)
	router = newRouter()
	_ = http.StatusOK
	// ChangeEmail / SetIDEmail look the requester and the target up in the user file: a private BBSHOME
	if e, err := bbsenv.New(bbsenv.Options{}); err == nil {
		env = e
		defer env.Close()
		grantSysops()
		// SetIDEmail only marks a user when the mailbox passes etc/whitemail: allow the domain the cases use
		_ = os.MkdirAll(env.Path("etc"), 0o755)
		_ = os.WriteFile(env.Path("etc", "whitemail"), []byte("Dptt.test\n"), 0o644)
	} else {
		run.Note("no private BBS environment (" + err.Error() + "): chgemail/setidemail cases are skipped")
	}
	logrus.SetOutput(io.Discard)

	if *modeFlag == "child" {
		childMain()
		return
	}
	if run.Replay != "" {
		// lines after a `useini <spec>` line run in a child process configured with that ini file
		all := hx.ReplayOps(run.Replay)
		var plain []string
		for i := 0; i < len(all); {
			w := strings.Fields(all[i])
			if len(w) == 2 && w[0] == "useini" {
				j := i + 1
				for j < len(all) && !strings.HasPrefix(all[j], "useini ") {
					j++
				}
				runChild(w[1], all[i+1:j])
				i = j
				continue
			}
			plain = append(plain, all[i])
			i++
		}
		for _, l := range plain {
			c, ok := parseOp(l)
			if !ok {
				// a line the harness cannot rebuild is passed to the model as it is
				run.Op(l, "bad-op", "replay:unparsed", false)
				continue
			}
			func() {
				defer func() {
					if e := recover(); e != nil {
						run.Op(l, "bad-op", "replay:bad-recipe", false)
					}
				}()
				runCase(c)
			}()
		}
		run.Finish()
		return
	}
	if *modeFlag == "inis" {
		generateInis()
		run.Finish()
		return
	}
	generate()
	run.Extra["skipped_number_outside_model_domain"] = skipped
	run.Finish()
}
