package main

// P̂ — the property oracle.  It judges what the IMPLEMENTATION answered by the statement of C16 only:
//
//   an access token authenticates as U only if it is an HMAC-signed token made with the server's access
//   secret, for U, not expired; a refresh token is accepted only if made with the refresh secret, of type
//   "refresh", not expired; an e-mail token only if made with the e-mail secret, for the asked context, not
//   expired; what the server issued as one kind is not accepted as another kind; a refresh succeeds only for
//   a matching access/refresh pair of one user and yields tokens of that user; a genuine unexpired token of
//   the right kind is accepted; nothing crashes.
//
// The facts about a string (segments, claims, HMAC under the three secrets) come from token.go, i.e. from
// encoding/base64, encoding/json and crypto/hmac — not from the jwt library and not from the Lean model.

import (
	"fmt"
	"strconv"
	"strings"

	"github.com/Ptt-official-app/go-pttbbs/api"
)

// pairTolerance: the tokens of a pair are created back to back in one request; the expiry distance is all that
// identifies a pair, so tokens further apart than this belong to different sessions.
const pairTolerance = 2

var kindName = map[byte]string{'a': "access", 'r': "refresh", 'e': "e-mail"}
var kindIdx = map[byte]int{'a': 0, 'r': 1, 'e': 2}

// issuedAs: the kind under which the server itself issued this very token (decoded bytes equal) in this case.
func issuedAs(v seen, b *builder) byte {
	for _, is := range b.issued {
		if sameDecoded(lookRaw(is.raw), v) {
			return is.kind
		}
	}
	return 0
}

func isHS(v seen) bool { return v.class == 'T' && strings.HasPrefix(v.alg, "hs") }

func strClaim(c claimVal) (string, bool) {
	switch c.kind {
	case 's':
		return c.s, true
	case 'a':
		return "", true
	}
	return "", false
}

// genuine: a token only the holder of the kind's secret can have made, shaped like the ones the server
// issues, with an expiry strictly in the future and nothing that postpones its validity.
func genuine(kind byte, v seen, ctx string, now int64) bool {
	if v.class != 'T' || v.alg != "hs256" || !v.sig[kindIdx[kind]] {
		return false
	}
	cl := v.claims
	if cl[0].kind != 's' || cl[1].kind != 's' || cl[2].kind != 'n' || cl[2].frac || cl[2].fl < now+1 {
		return false
	}
	if cl[6].kind != 'a' || cl[7].kind != 'a' {
		return false
	}
	switch kind {
	case 'r':
		return cl[3].kind == 's' && cl[3].s == api.REFRESH_JWT_CLAIM_TYPE
	case 'e':
		return cl[4].kind == 's' && cl[4].s == ctx && cl[5].kind == 's'
	}
	return true
}

// genuineNow: like genuine, but an expiry at the current second still counts (used where the question is
// "could a holder of the secret have made this and is it not yet expired", not "must it be accepted").
func genuineNow(kind byte, v seen, ctx string, now int64) bool {
	if v.class != 'T' || !isHS(v) || !v.sig[kindIdx[kind]] {
		return false
	}
	cl := v.claims
	if cl[2].kind != 'n' || cl[2].fl < now {
		return false
	}
	if kind == 'e' {
		c, ok := strClaim(cl[4])
		return ok && c == ctx
	}
	return true
}

// judgeVerify: `accepted` is whether the implementation took the string as a token of `kind`
// (for the user it returned).
func judgeVerify(o *outcome, fn string, kind byte, raw string, v seen, b *builder, accepted bool, user, eml, ctx string, checkExp bool, now int64) {
	if raw == "" {
		return // the empty string is "no token": guest (access, refresh) or an error (e-mail); nobody is authenticated
	}
	was := issuedAs(v, b)
	desc := fmt.Sprintf("%s took %s [%s] as %s token", fn, strconv.Quote(raw), v.word(now), kindName[kind])
	if !accepted {
		if genuine(kind, v, ctx, now) {
			o.fail("auth:rejected-valid", fmt.Sprintf("%s refused the genuine unexpired %s token %s [%s]", fn, kindName[kind], strconv.Quote(raw), v.word(now)))
		}
		return
	}
	if !isHS(v) || !v.sig[kindIdx[kind]] {
		o.fail("auth:accepted-forged", desc+" of user "+strconv.Quote(user)+": it is not HMAC-signed with the "+kindName[kind]+" secret")
		return
	}
	if was != 0 && was != kind {
		o.fail("auth:accepted-wrong-kind", desc+": the server issued it as "+kindName[was]+" token")
	}
	if checkExp {
		e := v.claims[2]
		if e.kind != 'n' || e.fl < now {
			o.fail("auth:accepted-expired", desc+fmt.Sprintf(": exp is %s at clock %d", e.word(now), now))
		}
	}
	if sub, ok := strClaim(v.claims[1]); !ok || sub != user {
		o.fail("auth:wrong-user", desc+" of user "+strconv.Quote(user)+": its subject is "+v.claims[1].word(now))
	}
	switch kind {
	case 'r':
		if t, ok := strClaim(v.claims[3]); !ok || t != api.REFRESH_JWT_CLAIM_TYPE {
			o.fail("auth:accepted-wrong-kind", desc+": its typ is "+v.claims[3].word(now))
		}
	case 'e':
		if c, ok := strClaim(v.claims[4]); !ok || c != ctx {
			o.fail("email:wrong-context", desc+" for context "+strconv.Quote(ctx)+": its ctx is "+v.claims[4].word(now))
		}
		if m, ok := strClaim(v.claims[5]); !ok || m != eml {
			o.fail("auth:wrong-user", desc+": returned e-mail "+strconv.Quote(eml)+" but the claim is "+v.claims[5].word(now))
		}
	}
}

// judgeCreated: a token the server issues has the claims of its kind, for that user, and verifies under
// that kind's secret only.
func judgeCreated(o *outcome, kindS string, v seen, user, cli string, now int64, raw string) {
	kind := map[string]byte{"access": 'a', "refresh": 'r', "email": 'e'}[kindS]
	bad := func(what string) {
		o.fail("create:"+kindS, fmt.Sprintf("Create of a %s token for %q gave %q [%s]: %s", kindS, user, raw, v.word(now), what))
	}
	if v.class != 'T' || !isHS(v) {
		bad("not an HMAC token")
		return
	}
	for k, i := range kindIdx {
		if v.sig[i] != (k == kind) && !sameSecret(i, kindIdx[kind]) {
			bad("verifies under the " + kindName[k] + " secret: " + fmt.Sprint(v.sig[i]))
		}
	}
	if s, _ := strClaim(v.claims[1]); v.claims[1].kind != 's' || s != user {
		bad("subject")
	}
	if v.claims[2].kind != 'n' || v.claims[2].fl <= now {
		bad("no expiry in the future")
	}
	if kind == 'r' && (v.claims[3].kind != 's' || v.claims[3].s != api.REFRESH_JWT_CLAIM_TYPE) {
		bad("typ")
	}
	if kind != 'r' && v.claims[3].kind != 'a' {
		bad("typ present")
	}
}

func sameSecret(i, j int) bool {
	s := secrets()
	return string(s[i]) == string(s[j])
}

// judgeRefresh: the pair rule.
func judgeRefresh(o *outcome, nf int, hraw string, hv seen, rraw string, rv seen, pcli string, b *builder, res httpRes, av, nv seen, now int64) {
	hdrGenuine := nf == 2 && genuine('a', hv, "", now)
	refGenuine := genuine('r', rv, "", now)
	if res.code != 200 {
		// a pair the server issued together in this second, for one user and one client, must be refreshable
		if hdrGenuine && refGenuine && issuedAs(hv, b) == 'a' && issuedAs(rv, b) == 'r' &&
			hv.claims[1].s == rv.claims[1].s && hv.claims[0].s == rv.claims[0].s {
			o.fail("auth:rejected-valid", fmt.Sprintf("Refresh refused (%s) the pair the server just issued to %q", res.errLine(), hv.claims[1].s))
		}
		return
	}
	user := jstr(res.body["user_id"])
	bad := func(what string) {
		o.fail("refresh:mismatched-pair", fmt.Sprintf("Refresh succeeded for %q with access [%s] (fields %d) and refresh [%s]: %s", user, hv.word(now), nf, rv.word(now), what))
	}
	if nf != 2 || hraw == "" || !isHS(hv) || !hv.sig[0] {
		bad("the access token of the header is missing or not HMAC-signed with the access secret")
	} else {
		if w := issuedAs(hv, b); w != 0 && w != 'a' {
			bad("the header token was issued as " + kindName[w] + " token")
		}
		if s, ok := strClaim(hv.claims[1]); !ok || s != user {
			bad("the access token's subject is " + hv.claims[1].word(now))
		}
	}
	if rraw == "" || !isHS(rv) || !rv.sig[1] {
		bad("the refresh token is missing or not HMAC-signed with the refresh secret")
	} else {
		if w := issuedAs(rv, b); w != 0 && w != 'r' {
			bad("the refresh token was issued as " + kindName[w] + " token")
		}
		if s, ok := strClaim(rv.claims[1]); !ok || s != user {
			bad("the refresh token's subject is " + rv.claims[1].word(now))
		}
		if t, ok := strClaim(rv.claims[3]); !ok || t != api.REFRESH_JWT_CLAIM_TYPE {
			bad("the refresh token's typ is " + rv.claims[3].word(now))
		}
		if e := rv.claims[2]; e.kind != 'n' || e.fl < now {
			o.fail("auth:accepted-expired", fmt.Sprintf("Refresh accepted the refresh token [%s] at clock %d", rv.word(now), now))
		}
	}
	// a matching pair: issued together (expiry distance = difference of the two lifetimes, up to the tolerance),
	// and the refresh token's client is the caller's or the access token's
	if isHS(hv) && isHS(rv) && hv.claims[2].kind == 'n' && rv.claims[2].kind == 'n' {
		// the property's own tolerance (pairTolerance), NOT the server's constant: two tokens created back to back
		d := (rv.claims[2].fl - hv.claims[2].fl) - int64(api.REFRESH_JWT_TOKEN_EXPIRE_TS-api.JWT_TOKEN_EXPIRE_TS)
		if d > pairTolerance || d < -pairTolerance {
			bad(fmt.Sprintf("the two tokens were issued %d s apart (two different sessions): the access token expires at %s, the refresh token at %s", d, hv.claims[2].word(now), rv.claims[2].word(now)))
		}
	}
	if rc, ok := strClaim(rv.claims[0]); ok {
		if ac, _ := strClaim(hv.claims[0]); rc != pcli && rc != ac {
			bad("the refresh token's client info matches neither the request's nor the access token's")
		}
	}
	// the two new tokens are for that user, of the right kinds
	if !isHS(av) || !av.sig[0] || av.claims[1].kind != 's' || av.claims[1].s != user || av.claims[3].kind != 'a' {
		bad("the new access token is [" + av.word(now) + "]")
	}
	if !isHS(nv) || !nv.sig[1] || nv.claims[1].kind != 's' || nv.claims[1].s != user || nv.claims[3].kind != 's' || nv.claims[3].s != api.REFRESH_JWT_CLAIM_TYPE {
		bad("the new refresh token is [" + nv.word(now) + "]")
	}
}
