package main

// The generator: exhaustive small families first (smallest first), then random tokens, then malformed
// strings.  Everything random derives from run.R (VERIF_SEED).

import (
	"encoding/hex"
	"fmt"
	"strings"

	"github.com/Ptt-official-app/go-pttbbs/api"
)

func hs(s string) string { return hx0(s) }

func recI(kind, user, cli string, extra ...string) string {
	r := "I:" + kind + ":" + hs(user) + ":" + hs(cli)
	for _, e := range extra {
		r += ":" + hs(e)
	}
	return r
}

func recB(alg, key, claims string) string {
	a := alg
	if alg != "!" && alg != "#" {
		a = hs(alg)
	}
	if claims == "" {
		claims = "-"
	}
	return "B:" + a + ":" + key + ":" + claims
}

func recR(hdr, payload, key string) string { return "R:" + hs(hdr) + ":" + hs(payload) + ":" + key }
func recL(s string) string                 { return "L:" + hs(s) }

// the claim set of each kind, with one claim replaced / removed
func claimsOf(kind byte, user, cli, exp string, over map[string]string) string {
	m := map[string]string{"cli": "s" + hs(cli), "sub": "s" + hs(user), "exp": exp}
	order := []string{"cli", "exp", "sub"}
	switch kind {
	case 'r':
		m["typ"] = "s" + hs(api.REFRESH_JWT_CLAIM_TYPE)
		order = []string{"cli", "exp", "sub", "typ"}
	case 'e':
		m["ctx"] = "s" + hs(string(api.CONTEXT_CHANGE_EMAIL))
		m["eml"] = "s" + hs("a@ptt.test")
		order = []string{"cli", "ctx", "eml", "exp", "sub"}
	}
	for k, v := range over {
		if _, ok := m[k]; !ok {
			order = append(order, k)
		}
		m[k] = v
	}
	var out []string
	for _, k := range order {
		if m[k] == "" || m[k] == "absent" {
			continue
		}
		out = append(out, k+"="+m[k])
	}
	return strings.Join(out, ";")
}

var kinds = []byte{'a', 'r', 'e'}
var keyOf = map[byte]string{'a': "a", 'r': "r", 'e': "e"}

func ctxEmail() string   { return string(api.CONTEXT_CHANGE_EMAIL) }
func ctxIDEmail() string { return string(api.CONTEXT_SET_ID_EMAIL) }

func issuedRec(kind byte, user, cli string) string {
	if kind == 'e' {
		return recI("e", user, cli, "a@ptt.test", ctxEmail())
	}
	return recI(string(kind), user, cli)
}

// own: the verifier of the kind (and, for an e-mail token, of its context)
func own(kind byte, rec string) {
	switch kind {
	case 'a':
		runCase(tc("vjwt", rec, "1"))
	case 'r':
		runCase(tc("vrefresh", rec))
	case 'e':
		runCase(tc("vemail", rec, hs(ctxEmail())))
	}
}

// three: every verifier
func three(rec string) {
	runCase(tc("vjwt", rec, "1"))
	runCase(tc("vrefresh", rec))
	runCase(tc("vemail", rec, hs(ctxEmail())))
}

func everywhere(rec, user string) {
	runCase(tc("vjwt", rec, "1"))
	runCase(tc("vjwt", rec, "0"))
	runCase(tc("vrefresh", rec))
	for _, cx := range []string{ctxEmail(), ctxIDEmail(), "", "other"} {
		runCase(tc("vemail", rec, hs(cx)))
	}
	for _, sh := range []string{"bearer", "other", "padded", "one", "three", "double", "none"} {
		runCase(tc("auth", "1", sh, rec))
	}
	runCase(tc("authp", "1", "bearer", rec))
	runCase(tc("auth", "0", "bearer", rec))
	runCase(tc("authp", "0", "bearer", rec))
	runCase(tc("tokinfo", "bearer", recI("a", user, "web"), rec))
	runCase(tc("tokinfo", "bearer", recI("a", "mallory", "web"), rec))
	runCase(tc("tokinfo", "bearer", rec, recI("a", user, "web")))
	runCase(tc("tokinfo", "none", "E", rec))
	runCase(tc("rtokinfo", "bearer", recI("a", user, "web"), rec))
	runCase(tc("rtokinfo", "bearer", recI("a", "mallory", "web"), rec))
	runCase(tc("refresh", "bearer", rec, hs("web"), recI("r", user, "web")))
	runCase(tc("refresh", "bearer", recI("a", user, "web"), hs("web"), rec))
	runCase(tc("refresh", "bearer", rec, hs("web"), rec))
}

func generate() {
	thorough := run.Thorough()
	R := run.R
	run.Rule = "tokens of the three kinds really issued by api.Create*, and tokens built by the harness, presented to api.VerifyJwt/VerifyRefreshJwt/VerifyEmailJwt " +
		"and through an in-process gin router to LoginRequiredJSON/LoginRequiredPathJSON, Refresh, GetTokenInfo, GetRefreshTokenInfo: " +
		"every kind at every verifier and header shape; every byte of the decoded header/payload/signature altered (quick: 4 xor masks, thorough: all 255); " +
		"every spelling of the last signature character; all 27 segment swaps; alg x signing-key matrix; exp/iat/nbf boundary and type matrix; " +
		"claim type matrix; refresh pairs (users, client info, expiry distance -3..3, header shapes); random tokens; malformed strings. " +
		"ChangeEmail/SetIDEmail on a private BBS (requester x target x token). " +
		"non-trivial = a distinct op line in which a presented string is a well-formed token (three base64url segments, JSON header and payload, registered alg), " +
		"i.e. the case reaches the server's decision logic behind the parser; empty and malformed strings are counted as trivial"

	users := []string{"SYSOP", "alice", "bob"}
	clis := []string{"", "web"}

	runCase(tc("config"))

	// ---- 1. creation ------------------------------------------------------------------
	for _, u := range append(users, "", "guest") {
		for _, c := range clis {
			runCase(tc("create", "access", hs(u), hs(c)))
			runCase(tc("create", "refresh", hs(u), hs(c)))
			for _, cx := range []string{ctxEmail(), ctxIDEmail(), ""} {
				runCase(tc("create", "email", hs(u), hs(c), hs("a@ptt.test"), hs(cx)))
			}
		}
	}

	// ---- 2. issued tokens at every verifier, header shape and handler -----------------
	for _, u := range users {
		for _, k := range kinds {
			everywhere(issuedRec(k, u, "web"), u)
		}
		everywhere(recI("e", u, "web", "a@ptt.test", ctxIDEmail()), u)
	}
	everywhere("E", "alice")
	everywhere(issuedRec('a', "guest", ""), "guest")
	everywhere(issuedRec('a', "", ""), "")

	// ---- 3. every byte of the decoded segments altered -------------------------------
	masks := []int{0x01, 0x20, 0x80}
	for _, k := range kinds {
		base := issuedRec(k, "alice", "web")
		b := &builder{}
		parts := strings.Split(b.base(base), ".")
		for si, seg := range []string{"h", "p", "s"} {
			dec, _ := b64.DecodeString(parts[si])
			for pos := 0; pos < len(dec); pos++ {
				var ms []int
				if thorough {
					for x := 1; x < 256; x++ {
						ms = append(ms, x)
					}
				} else {
					ms = append(append([]int{}, masks...), 1+R.Intn(255))
				}
				for _, x := range ms {
					rec := fmt.Sprintf("X/%s/%s/%d/%d", base, seg, pos, x)
					own(k, rec)
					if k != 'a' {
						runCase(tc("vjwt", rec, "1"))
					}
					if x == 0x01 {
						runCase(tc("auth", "1", "bearer", rec))
					}
				}
			}
		}
		// every spelling of the last character of the signature (some decode to the same bytes)
		for c := 33; c < 127; c++ {
			if c == '/' || c == '@' || c == ',' {
				continue
			}
			rec := fmt.Sprintf("V/%s/%d", base, c)
			own(k, rec)
			if k == 'a' {
				runCase(tc("auth", "1", "bearer", rec))
			}
		}
		for _, w := range []string{"pad", "dot", "2seg", "nosig", "ws", "bearer", "4seg", "lead"} {
			three("W/" + base + "/" + w)
		}
	}

	// ---- 4. segment swaps between the kinds (same user) and between users -------------
	for _, h := range kinds {
		for _, p := range kinds {
			for _, s := range kinds {
				three(fmt.Sprintf("S/%s/%s/%s", issuedRec(h, "alice", "web"), issuedRec(p, "alice", "web"), issuedRec(s, "alice", "web")))
			}
		}
	}
	for _, k := range kinds {
		own(k, fmt.Sprintf("S/%s/%s/%s", issuedRec(k, "alice", "web"), issuedRec(k, "bob", "web"), issuedRec(k, "alice", "web")))
		own(k, fmt.Sprintf("S/%s/%s/%s", issuedRec(k, "alice", "web"), issuedRec(k, "alice", "app"), issuedRec(k, "alice", "web")))
	}

	// ---- 5. algorithm header x signing key ------------------------------------------
	algs := []string{"none", "None", "NONE", "nOnE", "HS256", "HS384", "HS512", "hs256", "HS257", "RS256", "RS512", "ES256", "PS256", "EdDSA", "", "!", "#"}
	for _, k := range kinds {
		cl := claimsOf(k, "alice", "web", "nr3600", nil)
		for _, alg := range algs {
			for _, key := range []string{"a", "r", "e", "w", "n", "g", "p"} {
				rec := recB(alg, key, cl)
				three(rec)
				if k == 'a' && (key == "a" || key == "n") {
					runCase(tc("auth", "1", "bearer", rec))
				}
			}
		}
	}

	// ---- 6. expiry, issued-at, not-before --------------------------------------------
	exps := []string{"nr-2", "nr-1", "nr0", "nr1", "nr2", "nr-1+", "nr0+", "nr1+", "nr86400", "absent", "s" + hs("4000000000"), "s",
		"na0", "na0+", "na-1+", "na-1", "na1", "na4000000000", "na4000000000+", "na-4000000000", "z", "t", "l", "m"}
	for _, k := range kinds {
		for _, e := range exps {
			rec := recB("HS256", keyOf[k], claimsOf(k, "alice", "web", e, nil))
			own(k, rec)
			if k == 'a' {
				runCase(tc("vjwt", rec, "0"))
				runCase(tc("auth", "1", "bearer", rec))
			}
		}
		for _, name := range []string{"iat", "nbf"} {
			for _, v := range []string{"nr-1", "nr0", "nr1", "nr0+", "nr-1+", "na0", "na0+", "na1", "na4000000000", "s" + hs("1"), "z", "t"} {
				rec := recB("HS256", keyOf[k], claimsOf(k, "alice", "web", "nr100", map[string]string{name: v}))
				own(k, rec)
			}
		}
	}

	// ---- 7. claim types -----------------------------------------------------------------
	vals := []string{"absent", "s", "s" + hs("x"), "na5", "z", "t", "l", "m"}
	for _, k := range kinds {
		for _, name := range []string{"cli", "sub", "typ", "ctx", "eml"} {
			for _, v := range vals {
				rec := recB("HS256", keyOf[k], claimsOf(k, "alice", "web", "nr100", map[string]string{name: v}))
				own(k, rec)
				if k == 'a' && name == "sub" {
					runCase(tc("auth", "1", "bearer", rec))
					runCase(tc("tokinfo", "bearer", rec, rec))
				}
			}
		}
	}
	for _, typ := range []string{api.REFRESH_JWT_CLAIM_TYPE, "Refresh", "refresh ", "access", "JWT"} {
		for _, key := range []string{"a", "r", "e"} {
			three(recB("HS256", key, claimsOf('a', "alice", "web", "nr100", map[string]string{"typ": "s" + hs(typ)})))
		}
	}
	for _, cx := range []string{ctxEmail(), ctxIDEmail(), "Email", "email ", "", "other"} {
		rec := recB("HS256", "e", claimsOf('e', "alice", "web", "nr100", map[string]string{"ctx": "s" + hs(cx)}))
		for _, ask := range []string{ctxEmail(), ctxIDEmail(), "", "other", "Email"} {
			runCase(tc("vemail", rec, hs(ask)))
		}
	}
	// tokens of one kind re-signed with another kind's secret, presented everywhere
	for _, k := range kinds {
		for _, key := range []string{"a", "r", "e"} {
			three(recB("HS256", key, claimsOf(k, "alice", "web", "nr100", nil)))
		}
	}

	// ---- 8. refresh pairs ---------------------------------------------------------------
	for _, ua := range []string{"alice", "bob"} {
		for _, ur := range []string{"alice", "bob"} {
			for _, ca := range []string{"web", "app"} {
				for _, cr := range []string{"web", "app"} {
					for _, pc := range []string{"web", "app", "tv"} {
						runCase(tc("refresh", "bearer", recI("a", ua, ca), hs(pc), recI("r", ur, cr)))
					}
				}
			}
		}
	}
	ttlA, ttlR := api.JWT_TOKEN_EXPIRE_TS, api.REFRESH_JWT_TOKEN_EXPIRE_TS
	for d := -4; d <= 4; d++ {
		for _, fr := range []string{"", "+"} {
			acc := recB("HS256", "a", claimsOf('a', "alice", "web", fmt.Sprintf("nr%d", ttlA), nil))
			ref := recB("HS256", "r", claimsOf('r', "alice", "web", fmt.Sprintf("nr%d%s", ttlR+d, fr), nil))
			runCase(tc("refresh", "bearer", acc, hs("web"), ref))
			acc2 := recB("HS256", "a", claimsOf('a', "alice", "web", fmt.Sprintf("nr%d%s", ttlA+d, fr), nil))
			ref2 := recB("HS256", "r", claimsOf('r', "alice", "web", fmt.Sprintf("nr%d", ttlR), nil))
			runCase(tc("refresh", "bearer", acc2, hs("web"), ref2))
		}
	}
	// cross-session pairs: the access token of one session of a user with the refresh token of another session of
	// the same user opened d seconds later/earlier (issue times forged through explicit expiry claims, right secrets)
	for _, d := range []int{0, 1, 2, 3, 4, 5, 10, 30, 59, 60, 61, 62, 120, 600, 3600} {
		for _, sg := range []int{1, -1} {
			if d == 0 && sg < 0 {
				continue
			}
			acc := recB("HS256", "a", claimsOf('a', "alice", "web", fmt.Sprintf("nr%d", ttlA-100), nil))
			ref := recB("HS256", "r", claimsOf('r', "alice", "web", fmt.Sprintf("nr%d", ttlR-100+sg*d), nil))
			runCase(tc("refresh", "bearer", acc, hs("web"), ref))
			// one half really issued now, the other half of a session d seconds ago / ahead
			runCase(tc("refresh", "bearer", recI("a", "alice", "web"), hs("web"), recB("HS256", "r", claimsOf('r', "alice", "web", fmt.Sprintf("nr%d", ttlR+sg*d), nil))))
			runCase(tc("refresh", "bearer", recB("HS256", "a", claimsOf('a', "alice", "web", fmt.Sprintf("nr%d", ttlA+sg*d), nil)), hs("web"), recI("r", "alice", "web")))
		}
	}
	pairA, pairR := recI("a", "alice", "web"), recI("r", "alice", "web")
	for _, sh := range []string{"bearer", "other", "padded", "one", "three", "double", "none"} {
		runCase(tc("refresh", sh, pairA, hs("web"), pairR))
	}
	// the access token of a pair is expired / has no expiry / is missing; the refresh token likewise
	for _, ae := range []string{"nr-10", "nr0", "nr1", "absent", "na0", "s" + hs("1")} {
		for _, re := range []string{fmt.Sprintf("nr%d", ttlR-ttlA), fmt.Sprintf("nr%d", ttlR), "nr-1", "nr0", fmt.Sprintf("na%d", ttlR-ttlA), "absent"} {
			acc := recB("HS256", "a", claimsOf('a', "alice", "web", ae, nil))
			ref := recB("HS256", "r", claimsOf('r', "alice", "web", re, nil))
			runCase(tc("refresh", "bearer", acc, hs("web"), ref))
		}
	}
	for _, h := range []string{"E", pairA, pairR, recL("junk"), recB("none", "n", claimsOf('a', "alice", "web", "nr86400", nil)), recB("HS256", "w", claimsOf('a', "alice", "web", "nr86400", nil)), issuedRec('e', "alice", "web")} {
		for _, r := range []string{"E", pairR, pairA, recL("junk"), recB("none", "n", claimsOf('r', "alice", "web", "nr604800", nil)), recB("HS256", "a", claimsOf('r', "alice", "web", "nr604800", nil)),
			recB("HS256", "r", claimsOf('a', "alice", "web", "nr604800", nil)), issuedRec('e', "alice", "web")} {
			runCase(tc("refresh", "bearer", h, hs("web"), r))
			runCase(tc("refresh", "none", h, hs("web"), r))
		}
	}
	// guests: the empty header and a refresh token of the guest
	for _, re := range []string{fmt.Sprintf("na%d", ttlR-ttlA), fmt.Sprintf("nr%d", ttlR), "nr5"} {
		runCase(tc("refresh", "none", "E", hs(""), recB("HS256", "r", claimsOf('r', api.GUEST, "", re, nil))))
		runCase(tc("refresh", "bearer", recB("HS256", "a", claimsOf('a', api.GUEST, "", "absent", nil)), hs(""), recB("HS256", "r", claimsOf('r', api.GUEST, "", re, nil))))
	}

	// ---- 8b. ChangeEmail / SetIDEmail (userInfoIsValidEmailUser) on a private BBS ---------
	// SYSOP, Kahou, Kahou2 are privileged in the harness fixture (PERM_SYSOP, PERM_ACCOUNTS, PERM_ACCTREG), the others not
	bbsUsers := []string{"SYSOP", "CodingMan", "pichu"}
	for _, target := range append(bbsUsers, "guest") {
		for _, req := range append(bbsUsers, "Kahou", "Kahou2", "guest", "nobody") {
			var toks []string
			for _, cx := range []string{ctxEmail(), ctxIDEmail(), ""} {
				toks = append(toks, recI("e", target, "web", "a@ptt.test", cx))
			}
			toks = append(toks, recI("e", req, "web", "a@ptt.test", ctxEmail()), recI("e", req, "web", "a@ptt.test", ctxIDEmail()),
				recI("e", "mallory", "web", "a@ptt.test", ctxEmail()), recI("e", "mallory", "web", "a@ptt.test", ctxIDEmail()),
				recI("a", target, "web"), recI("r", target, "web"), "E", recL("junk"),
				recB("HS256", "e", claimsOf('e', target, "web", "nr-1", nil)),
				recB("HS256", "e", claimsOf('e', target, "web", "nr100", map[string]string{"ctx": "s" + hs(ctxIDEmail())})),
				recB("HS256", "a", claimsOf('e', target, "web", "nr100", nil)),
				recB("HS256", "w", claimsOf('e', target, "web", "nr100", nil)),
				recB("none", "n", claimsOf('e', target, "web", "nr100", nil)),
				recB("HS256", "e", claimsOf('e', target, "web", "nr100", map[string]string{"sub": "absent"})))
			toks = append(toks, recI("e", "Kahou", "web", "a@ptt.test", ctxIDEmail()), recI("e", "pichu", "web", "a@ptt.test", ctxIDEmail()),
				recI("e", "pichu", "web", "a@ptt.test", ctxEmail()))
			for _, tk := range toks {
				runCase(tc("chgemail", hs(req), hs(target), tk))
				runCase(tc("setidemail", hs(req), hs(target), tk))
			}
		}
	}
	// GetEmailTokenInfo: who asks (privileged or not, by a genuine / forged / missing access token) x whose token x context
	for _, req := range []string{"SYSOP", "Kahou", "Kahou2", "CodingMan", "pichu", "guest", "nobody"} {
		hdrs := [][2]string{{"bearer", recI("a", req, "web")}, {"none", "E"}, {"bearer", recI("r", req, "web")},
			{"bearer", recB("HS256", "w", claimsOf('a', req, "web", "nr100", nil))}}
		for hi, hd := range hdrs {
			for _, owner := range []string{req, "pichu", "SYSOP", "guest"} {
				for _, cx := range []string{ctxEmail(), ctxIDEmail()} {
					for _, ask := range []string{ctxEmail(), ctxIDEmail(), ""} {
						if hi > 0 && ask == "" {
							continue
						}
						runCase(tc("emailinfo", hd[0], hd[1], recI("e", owner, "web", "a@ptt.test", cx), hs(ask)))
					}
				}
				runCase(tc("emailinfo", hd[0], hd[1], recI("a", owner, "web"), hs(ctxEmail())))
				runCase(tc("emailinfo", hd[0], hd[1], recB("HS256", "e", claimsOf('e', owner, "web", "nr-1", nil)), hs(ctxEmail())))
				runCase(tc("emailinfo", hd[0], hd[1], recB("HS256", "w", claimsOf('e', owner, "web", "nr100", nil)), hs(ctxEmail())))
			}
			runCase(tc("emailinfo", hd[0], hd[1], "E", hs(ctxEmail())))
			runCase(tc("emailinfo", hd[0], hd[1], recL("junk"), hs(ctxEmail())))
		}
	}

	// ---- 9. random tokens ---------------------------------------------------------------
	n := 2500
	if thorough {
		n = 60000
	}
	ralgs := []string{"HS256", "HS256", "HS256", "HS384", "HS512", "none", "RS256", "ES256", "hs256", "None"}
	rkeys := []string{"a", "r", "e", "a", "r", "e", "w", "n", "g"}
	rstr := []string{"", "alice", "bob", "guest", "web", "refresh", "email", "id_email", "x"}
	rval := func(name string) string {
		switch R.Intn(10) {
		case 0:
			return "absent"
		case 1:
			return []string{"z", "t", "l", "m"}[R.Intn(4)]
		case 2:
			return fmt.Sprintf("na%d", R.Intn(7)-3)
		}
		if name == "exp" || name == "iat" || name == "nbf" {
			if name != "exp" && R.Intn(3) > 0 {
				return "absent"
			}
			off := []int{-86400, -2, -1, 0, 1, 2, 60, 86400, 604800}[R.Intn(9)]
			f := ""
			if R.Intn(6) == 0 {
				f = "+"
			}
			return fmt.Sprintf("nr%d%s", off, f)
		}
		return "s" + hs(rstr[R.Intn(len(rstr))])
	}
	for i := 0; i < n; i++ {
		k := kinds[R.Intn(3)]
		over := map[string]string{}
		for _, name := range claimNames {
			if R.Intn(3) == 0 {
				over[name] = rval(name)
			}
		}
		e := "nr" + fmt.Sprint([]int{-1, 0, 1, 100, 86400}[R.Intn(5)])
		if v, ok := over["exp"]; ok {
			e = v
			delete(over, "exp")
		}
		rec := recB(ralgs[R.Intn(len(ralgs))], rkeys[R.Intn(len(rkeys))], claimsOf(k, rstr[R.Intn(len(rstr))], rstr[R.Intn(len(rstr))], e, over))
		switch R.Intn(8) {
		case 0:
			runCase(tc("vjwt", rec, "0"))
		case 1:
			runCase(tc("vrefresh", rec))
		case 2:
			runCase(tc("vemail", rec, hs([]string{ctxEmail(), ctxIDEmail(), "", "x"}[R.Intn(4)])))
		case 3:
			runCase(tc("auth", "1", []string{"bearer", "other", "one", "three"}[R.Intn(4)], rec))
		case 4:
			runCase(tc("refresh", "bearer", rec, hs(rstr[R.Intn(len(rstr))]), recI("r", "alice", "web")))
		case 5:
			runCase(tc("refresh", "bearer", recI("a", "alice", "web"), hs(rstr[R.Intn(len(rstr))]), rec))
		case 6:
			runCase(tc("tokinfo", "bearer", recI("a", "alice", "web"), rec))
		default:
			runCase(tc("vjwt", rec, "1"))
		}
	}

	// ---- 10. malformed strings ----------------------------------------------------------
	old, _ := hex.DecodeString("65794a68624763694f694a49557a49314e694973496e523563434936496b705856434a392e65794a4665484270636d55694f6a45324d44677a4d7a41304e545973496c567a5a584a4a52434936496c4e5a553039514d694a392e4736674b687247527973" +
		"4d41764f4a6236724d6d737671786d374d7555774f6b4868494937443733496a63")
	lits := []string{"not-exists", ".", "..", "...", "a.b", "a.b.c", "a.b.c.d", " ", "bearer x.y.z", "e30.e30.", "e30.e30.AA", "e30..", ".e30.", "eyJhbGciOiJIUzI1NiJ9.e30", "e30=.e30=.AA==",
		"eyJhbGciOiJub25lIn0.e30.", "eyJhbGciOiJub25lIn0.eyJzdWIiOiJTWVNPUCJ9.", "\x00", "é.é.é", string(old)}
	for _, l := range lits {
		three(recL(l))
		runCase(tc("vjwt", recL(l), "0"))
		if !strings.ContainsAny(l, " \x00") {
			runCase(tc("auth", "1", "bearer", recL(l)))
		}
		runCase(tc("refresh", "bearer", recL(l), hs("web"), recL(l)))
	}
	h256 := `{"alg":"HS256","typ":"JWT"}`
	far := `"exp":4000000000`
	raws := [][2]string{
		{h256, `{"sub":"alice","cli":"web",` + far + `}`},
		{h256, `{"sub":"alice","cli":"web",` + far + `} trailing garbage`},
		{h256, `{"sub":"alice","cli":"web",` + far + `}{"sub":"bob"}`},
		{h256 + " ", `{"sub":"alice",` + far + `}`},
		{h256 + "x", `{"sub":"alice",` + far + `}`},
		{h256, `{"sub":"alice","sub":"bob",` + far + `}`},
		{h256, `{"SUB":"alice","Exp":1,` + far + `}`},
		{h256, `null`},
		{h256, `[]`},
		{h256, `123`},
		{h256, `"x"`},
		{h256, `{}`},
		{h256, ``},
		{h256, `{"sub":"alice",` + far},
		{h256, `{"sub":"alice","exp":1e400}`},
		{h256, `{"sub":"alice","exp":4e9}`},
		{h256, `{"sub":"alice","exp":4000000000.0}`},
		{h256, `{"sub":"alice","exp":-0}`},
		{h256, `{"sub":"alice","exp":-0.0,"typ":"refresh","ctx":"email"}`},
		{h256, `{"sub":"alice","typ":"refresh","ctx":"email",` + far + `}`},
		{`{"alg":"HS256","alg":"none"}`, `{"sub":"alice",` + far + `}`},
		{`{"alg":"none","alg":"HS256"}`, `{"sub":"alice",` + far + `}`},
		{`{"ALG":"HS256"}`, `{"sub":"alice",` + far + `}`},
		{`{"alg":["HS256"]}`, `{"sub":"alice",` + far + `}`},
		{`{"alg":null}`, `{"sub":"alice",` + far + `}`},
		{`null`, `{"sub":"alice",` + far + `}`},
		{`[]`, `{"sub":"alice",` + far + `}`},
		{``, `{"sub":"alice",` + far + `}`},
		{`{"alg":"HS256","typ":"JWT","kid":"../../x","jku":"http://x"}`, `{"sub":"alice","typ":"refresh","ctx":"email",` + far + `}`},
	}
	for _, hp := range raws {
		for _, key := range []string{"a", "r", "e", "w", "n"} {
			rec := recR(hp[0], hp[1], key)
			three(rec)
			if key == "a" {
				runCase(tc("vjwt", rec, "0"))
				runCase(tc("auth", "1", "bearer", rec))
			}
		}
	}
	run.Exhaust = false
}
