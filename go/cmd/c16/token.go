package main

// Concrete token strings: how the harness makes them (recipes), and how it reads them back
// INDEPENDENTLY of github.com/golang-jwt/jwt (strings.Split, encoding/base64, encoding/json,
// crypto/hmac): the abstraction handed to the Lean model and the facts the property oracle uses.
//
// Recipes (one word, no spaces; rebuilt at the current second on a replay):
//
//	E                                   the empty string
//	L:<hex>                             a literal string
//	I:<k>:<user>:<cli>[:<eml>:<ctx>]    the REAL api.CreateToken / CreateRefreshToken / CreateEmailToken (k = a|r|e; hex fields)
//	B:<alg>:<key>:<claims>              built here: header {"alg":<alg>,"typ":"JWT"}; alg = hex of the string, `!` = no alg, `#` = a number
//	                                    key = a|r|e (the server's secrets) | w (a wrong key) | n (empty signature) | g (32 garbage bytes) | p (the key "public")
//	                                    the signature is HMAC with the hash of the HS* name (SHA-256 for any other name)
//	                                    claims = name=value;…   value = s<hex> | nr<d>[+] | na<v>[+] | t | z | l | m
//	R:<headerhex>:<payloadhex>:<key>    raw header and payload bytes, HMAC-SHA256 signature
//	X/<base>/<seg>/<pos>/<xor>          one byte of the DECODED header (h), payload (p) or signature (s) of <base> xor-ed, re-encoded
//	V/<base>/<char code>                the last CHARACTER of the signature text replaced (may decode to the same bytes)
//	S/<baseH>/<baseP>/<baseS>           header, payload, signature taken from three tokens
//	W/<base>/<variant>                  pad | dot | 2seg | nosig | ws | bearer | 4seg | lead
//
// <base> is an I:, B: or R: recipe.

import (
	"bytes"
	"crypto/hmac"
	"crypto/sha256"
	"crypto/sha512"
	"encoding/base64"
	"encoding/hex"
	"encoding/json"
	"fmt"
	"hash"
	"math"
	"sort"
	"strconv"
	"strings"

	"github.com/Ptt-official-app/go-pttbbs/api"
	"github.com/Ptt-official-app/go-pttbbs/bbs"
)

var b64 = base64.RawURLEncoding

func hx0(s string) string {
	if s == "" {
		return "-"
	}
	return hex.EncodeToString([]byte(s))
}

func unhx0(s string) string {
	if s == "-" {
		return ""
	}
	b, err := hex.DecodeString(s)
	if err != nil {
		panic("bad hex in recipe: " + s)
	}
	return string(b)
}

// the server's three secrets as the COMPILED code has them (order: access, refresh, e-mail)
func secrets() [3][]byte {
	return [3][]byte{api.JWT_SECRET, api.REFRESH_JWT_SECRET, api.EMAIL_JWT_SECRET}
}

func hashOf(alg string) func() hash.Hash {
	switch alg {
	case "HS384":
		return sha512.New384
	case "HS512":
		return sha512.New
	}
	return sha256.New
}

func mac(alg string, key, msg []byte) []byte {
	h := hmac.New(hashOf(alg), key)
	h.Write(msg)
	return h.Sum(nil)
}

// ---- building ----------------------------------------------------------------

// issued remembers what the real Create* functions returned while a case was built
// (the property oracle needs to know which strings the server itself issued, and as what).
type issued struct {
	kind byte
	raw  string
}

type builder struct {
	now    int64
	issued []issued
	err    string // a Create* that failed or panicked
}

func (b *builder) keyBytes(k string) []byte {
	s := secrets()
	switch k {
	case "a":
		return s[0]
	case "r":
		return s[1]
	case "e":
		return s[2]
	case "w":
		return []byte("wrong_secret")
	case "p":
		return []byte("public")
	}
	return nil
}

func parseNumSpec(s string, now int64) (float64, bool) {
	// nr<d>[+] | na<v>[+]
	if len(s) < 3 {
		return 0, false
	}
	rel := s[:2] == "nr"
	body := s[2:]
	frac := strings.HasSuffix(body, "+")
	body = strings.TrimSuffix(body, "+")
	v, err := strconv.ParseInt(body, 10, 64)
	if err != nil {
		return 0, false
	}
	if rel {
		v += now
	}
	f := float64(v)
	if frac {
		f += 0.5
	}
	return f, true
}

type kv struct {
	k string
	v interface{}
}

func (b *builder) claimsJSON(spec string) []byte {
	var kvs []kv
	if spec != "" && spec != "-" {
		for _, item := range strings.Split(spec, ";") {
			i := strings.IndexByte(item, '=')
			if i < 0 {
				panic("bad claim spec " + item)
			}
			name, val := item[:i], item[i+1:]
			switch {
			case val == "t":
				kvs = append(kvs, kv{name, true})
			case val == "z":
				kvs = append(kvs, kv{name, nil})
			case val == "l":
				kvs = append(kvs, kv{name, []interface{}{"x"}})
			case val == "m":
				kvs = append(kvs, kv{name, map[string]interface{}{"x": 1}})
			case strings.HasPrefix(val, "s"):
				kvs = append(kvs, kv{name, unhx0(val[1:])})
			case strings.HasPrefix(val, "n"):
				f, ok := parseNumSpec(val, b.now)
				if !ok {
					panic("bad number spec " + val)
				}
				kvs = append(kvs, kv{name, json.Number(strconv.FormatFloat(f, 'f', -1, 64))})
			default:
				panic("bad claim value " + val)
			}
		}
	}
	// written in the given order (duplicates possible: encoding/json keeps the last)
	var buf bytes.Buffer
	buf.WriteByte('{')
	for i, e := range kvs {
		if i > 0 {
			buf.WriteByte(',')
		}
		kb, _ := json.Marshal(e.k)
		vb, _ := json.Marshal(e.v)
		buf.Write(kb)
		buf.WriteByte(':')
		buf.Write(vb)
	}
	buf.WriteByte('}')
	return buf.Bytes()
}

func (b *builder) sign(algName, key string, signing string) string {
	switch key {
	case "n":
		return ""
	case "g":
		g := make([]byte, 32)
		for i := range g {
			g[i] = byte(37*i + 11)
		}
		return b64.EncodeToString(g)
	}
	return b64.EncodeToString(mac(algName, b.keyBytes(key), []byte(signing)))
}

// base builds an I:, B: or R: recipe.
func (b *builder) base(rec string) string {
	f := strings.Split(rec, ":")
	switch f[0] {
	case "I":
		if len(f) < 4 {
			panic("bad recipe " + rec)
		}
		user, cli := unhx0(f[2]), unhx0(f[3])
		var raw string
		var err error
		func() {
			defer func() {
				if e := recover(); e != nil {
					err = fmt.Errorf("panic: %v", e)
				}
			}()
			switch f[1] {
			case "a":
				raw, _, err = api.CreateToken(bbs.UUserID(user), cli)
			case "r":
				raw, _, err = api.CreateRefreshToken(bbs.UUserID(user), cli)
			case "e":
				if len(f) != 6 {
					panic("bad recipe " + rec)
				}
				raw, err = api.CreateEmailToken(bbs.UUserID(user), cli, unhx0(f[4]), api.EmailTokenContext(unhx0(f[5])))
			default:
				panic("bad recipe " + rec)
			}
		}()
		if err != nil {
			b.err = "create " + f[1] + ": " + err.Error()
			return ""
		}
		b.issued = append(b.issued, issued{f[1][0], raw})
		return raw
	case "B":
		if len(f) != 4 {
			panic("bad recipe " + rec)
		}
		var hdr []byte
		algName := ""
		switch f[1] {
		case "!":
			hdr = []byte(`{"typ":"JWT"}`)
		case "#":
			hdr = []byte(`{"alg":5,"typ":"JWT"}`)
		default:
			algName = unhx0(f[1])
			ab, _ := json.Marshal(algName)
			hdr = []byte(`{"alg":` + string(ab) + `,"typ":"JWT"}`)
		}
		signing := b64.EncodeToString(hdr) + "." + b64.EncodeToString(b.claimsJSON(f[3]))
		return signing + "." + b.sign(algName, f[2], signing)
	case "R":
		if len(f) != 4 {
			panic("bad recipe " + rec)
		}
		signing := b64.EncodeToString([]byte(unhx0(f[1]))) + "." + b64.EncodeToString([]byte(unhx0(f[2])))
		return signing + "." + b.sign("HS256", f[3], signing)
	}
	panic("bad base recipe " + rec)
}

func (b *builder) build(rec string) string {
	switch {
	case rec == "E":
		return ""
	case strings.HasPrefix(rec, "L:"):
		return unhx0(rec[2:])
	case strings.HasPrefix(rec, "X/"):
		f := strings.Split(rec, "/")
		if len(f) != 5 {
			panic("bad recipe " + rec)
		}
		parts := strings.Split(b.base(f[1]), ".")
		if len(parts) != 3 {
			return strings.Join(parts, ".")
		}
		seg := map[string]int{"h": 0, "p": 1, "s": 2}[f[2]]
		dec, err := b64.DecodeString(parts[seg])
		pos, _ := strconv.Atoi(f[3])
		x, _ := strconv.Atoi(f[4])
		if err == nil && len(dec) > 0 {
			dec[pos%len(dec)] ^= byte(x)
			parts[seg] = b64.EncodeToString(dec)
		}
		return strings.Join(parts, ".")
	case strings.HasPrefix(rec, "V/"):
		f := strings.Split(rec, "/")
		if len(f) != 3 {
			panic("bad recipe " + rec)
		}
		raw := b.base(f[1])
		c, _ := strconv.Atoi(f[2])
		if raw == "" {
			return raw
		}
		return raw[:len(raw)-1] + string(rune(byte(c)))
	case strings.HasPrefix(rec, "S/"):
		f := strings.Split(rec, "/")
		if len(f) != 4 {
			panic("bad recipe " + rec)
		}
		var segs [3]string
		for i := 0; i < 3; i++ {
			p := strings.Split(b.base(f[i+1]), ".")
			if len(p) == 3 {
				segs[i] = p[i]
			}
		}
		return segs[0] + "." + segs[1] + "." + segs[2]
	case strings.HasPrefix(rec, "W/"):
		f := strings.Split(rec, "/")
		if len(f) != 3 {
			panic("bad recipe " + rec)
		}
		raw := b.base(f[1])
		p := strings.Split(raw, ".")
		switch f[2] {
		case "pad":
			return raw + "="
		case "dot":
			return raw + "."
		case "2seg":
			return strings.Join(p[:len(p)-1], ".")
		case "nosig":
			return strings.Join(p[:len(p)-1], ".") + "."
		case "ws":
			return raw + "\n"
		case "bearer":
			return "bearer " + raw
		case "4seg":
			return raw + ".AAAA"
		case "lead":
			return "." + raw
		}
		panic("bad variant " + rec)
	}
	return b.base(rec)
}

// ---- reading back (no jwt library) ----------------------------------------------

var claimNames = [8]string{"cli", "sub", "exp", "typ", "ctx", "eml", "iat", "nbf"}

var registeredAlgs = map[string]string{
	"HS256": "hs256", "HS384": "hs384", "HS512": "hs512", "none": "none",
	"RS256": "asym", "RS384": "asym", "RS512": "asym", "PS256": "asym", "PS384": "asym", "PS512": "asym",
	"ES256": "asym", "ES384": "asym", "ES512": "asym", "EdDSA": "asym",
}

type claimVal struct {
	kind byte // 'a' absent, 's' string, 'n' number, 'o' other
	s    string
	fl   int64 // floor
	frac bool
}

type seen struct {
	class     byte // 'E', 'M', 'T', 'U' (a number outside the model's domain: the case is not compared)
	alg       string
	sig       [3]bool // HMAC of the alg's hash under the three secrets equals the decoded signature
	claims    [8]claimVal
	h, p, s   []byte // decoded segments (when class is T)
	algString string
}

func lookRaw(raw string) (v seen) {
	if raw == "" {
		v.class = 'E'
		return
	}
	v.class = 'M'
	parts := strings.Split(raw, ".")
	if len(parts) != 3 {
		return
	}
	hb, err := b64.DecodeString(parts[0])
	if err != nil {
		return
	}
	var hdr map[string]interface{}
	if json.Unmarshal(hb, &hdr) != nil {
		return
	}
	pb, err := b64.DecodeString(parts[1])
	if err != nil {
		return
	}
	// the library reads ONE JSON value from the payload (a Decoder): bytes after it are not looked at
	var claims map[string]interface{}
	if json.NewDecoder(bytes.NewReader(pb)).Decode(&claims) != nil {
		return
	}
	algS, ok := hdr["alg"].(string)
	if !ok {
		return
	}
	cls, ok := registeredAlgs[algS]
	if !ok {
		return
	}
	v.alg, v.algString = cls, algS
	v.h, v.p = hb, pb
	sb, serr := b64.DecodeString(parts[2])
	v.s = sb
	if serr == nil && strings.HasPrefix(cls, "hs") {
		signing := []byte(parts[0] + "." + parts[1])
		for i, k := range secrets() {
			v.sig[i] = hmac.Equal(sb, mac(algS, k, signing))
		}
	}
	if serr != nil {
		v.s = nil
	}
	for i, n := range claimNames {
		x, present := claims[n]
		switch y := x.(type) {
		case string:
			v.claims[i] = claimVal{kind: 's', s: y}
		case float64:
			fl := math.Floor(y)
			if math.Abs(fl) >= 9007199254740992 || math.IsNaN(y) || math.IsInf(y, 0) {
				v.class = 'U'
				return
			}
			v.claims[i] = claimVal{kind: 'n', fl: int64(fl), frac: y != fl}
		default:
			if present {
				v.claims[i] = claimVal{kind: 'o'}
			} else {
				v.claims[i] = claimVal{kind: 'a'}
			}
		}
	}
	v.class = 'T'
	return
}

func relTime(e, now int64) string {
	d := e - now
	if -100000000 < d && d < 100000000 {
		return fmt.Sprintf("r%d", d)
	}
	return fmt.Sprintf("a%d", e)
}

func (c claimVal) word(now int64) string {
	switch c.kind {
	case 'a':
		return "a"
	case 'o':
		return "o"
	case 's':
		return "s:" + hx0(c.s)
	}
	f := ""
	if c.frac {
		f = "+"
	}
	d := c.fl - now
	if -100000000 < d && d < 100000000 {
		return fmt.Sprintf("nr:%d%s", d, f)
	}
	return fmt.Sprintf("na:%d%s", c.fl, f)
}

// word is the abstraction of a token as the model's driver reads it.
func (v seen) word(now int64) string {
	switch v.class {
	case 'E':
		return "E"
	case 'M':
		return "M"
	case 'U':
		return "U"
	}
	bit := func(b bool) string {
		if b {
			return "1"
		}
		return "0"
	}
	w := []string{"T", v.alg, bit(v.sig[0]) + bit(v.sig[1]) + bit(v.sig[2])}
	for _, c := range v.claims {
		w = append(w, c.word(now))
	}
	return strings.Join(w, ",")
}

// sameDecoded: two strings are the same token when their decoded segments are equal
// (base64url's unused trailing bits give several spellings of one byte string).
func sameDecoded(a, b seen) bool {
	return a.class == 'T' && b.class == 'T' && a.s != nil && b.s != nil &&
		bytes.Equal(a.h, b.h) && bytes.Equal(a.p, b.p) && bytes.Equal(a.s, b.s)
}

func sortedHist(m map[string]int) []string {
	ks := make([]string, 0, len(m))
	for k := range m {
		ks = append(ks, k)
	}
	sort.Strings(ks)
	return ks
}
