package main

// The configured server.  package api keeps its secrets in package variables that api.InitConfig() fills from
// viper; the first pass runs on the values of api/00-config.go.  This pass runs the cross-kind matrix on what a
// DEPLOYMENT gets: viper reads an ini file (each ini file shipped with the repository, no [go-pttbbs:api]
// entry at all, and ini files written here that set only some of the secrets), api.InitConfig() runs, and then
// the tokens of each kind are presented to every verifier.  One child process per ini file.

import (
	"bufio"
	"encoding/json"
	"fmt"
	"os"
	"os/exec"
	"path/filepath"
	"sort"
	"strings"

	"github.com/Ptt-official-app/go-pttbbs/api"
	"github.com/spf13/viper"
	"verifharness/internal/hx"
)

func repoDir() string {
	if r := os.Getenv("VERIF_REPO"); r != "" {
		return r
	}
	return "/repo"
}

func shippedInis() []string {
	var out []string
	for _, pat := range []string{"docs/config/*.ini", "testcase/*.ini", "initgin/testcase/*.ini"} {
		ms, _ := filepath.Glob(filepath.Join(repoDir(), pat))
		for _, m := range ms {
			rel, _ := filepath.Rel(repoDir(), m)
			out = append(out, rel)
		}
	}
	sort.Strings(out)
	return out
}

// iniContent: the text of the ini file of a spec, and the keys an `inline:` spec sets.
func iniContent(spec string) ([]byte, map[string]string, error) {
	switch {
	case spec == "none":
		return []byte("[go-pttbbs]\nHTTP_HOST = test.dev\n"), nil, nil
	case strings.HasPrefix(spec, "inline:"):
		set := map[string]string{}
		var b strings.Builder
		b.WriteString("[go-pttbbs]\nHTTP_HOST = test.dev\n\n[go-pttbbs:api]\n")
		for _, kv := range strings.Split(spec[len("inline:"):], ";") {
			i := strings.IndexByte(kv, '=')
			if i < 0 {
				return nil, nil, fmt.Errorf("bad inline ini spec %q", spec)
			}
			v := unhx0(kv[i+1:])
			set[kv[:i]] = v
			fmt.Fprintf(&b, "%s = %s\n", strings.ToUpper(kv[:i]), v)
		}
		return []byte(b.String()), set, nil
	}
	if strings.Contains(spec, "..") || filepath.IsAbs(spec) {
		return nil, nil, fmt.Errorf("bad ini path %q", spec)
	}
	b, err := os.ReadFile(filepath.Join(repoDir(), spec))
	return b, nil, err
}

// childMain: configure package api from the ini file, answer `useini`, then run the cases.
func childMain() {
	f, err := os.Create(*childOutFlag)
	if err != nil {
		fmt.Fprintln(os.Stderr, err)
		os.Exit(2)
	}
	defer f.Close()
	w := bufio.NewWriter(f)
	defer w.Flush()
	childSink = json.NewEncoder(w)

	spec := *iniFlag
	content, set, err := iniContent(spec)
	if err != nil {
		fmt.Fprintln(os.Stderr, err)
		os.Exit(3)
	}
	// a copy: viper reads it from the harness's directory, the repository's file is not touched
	tmp := filepath.Join(run.Dir, "config.ini")
	if err := os.WriteFile(tmp, content, 0o644); err != nil {
		fmt.Fprintln(os.Stderr, err)
		os.Exit(3)
	}
	var o outcome
	o.line = "useini " + spec
	o.label = "useini"
	o.nontrivial = true
	o.impl = hx.CallSync(func() string {
		viper.Reset()
		viper.SetConfigFile(tmp)
		viper.SetConfigType("ini")
		if err := viper.ReadInConfig(); err != nil {
			return "err read:" + strings.ReplaceAll(err.Error(), " ", "-")
		}
		if err := api.InitConfig(); err != nil {
			return "err init:" + strings.ReplaceAll(err.Error(), " ", "-")
		}
		s := secrets()
		distinct := string(s[0]) != string(s[1]) && string(s[0]) != string(s[2]) && string(s[1]) != string(s[2])
		// P̂: a deployment must not end up with two kinds of token under one secret unless its ini file says so
		// P̂: a secret the ini file sets is in force exactly as written (whatever its length)
		for i, nm := range []string{"jwt_secret", "refresh_jwt_secret", "email_jwt_secret"} {
			if v, ok := set[nm]; ok && string(s[i]) != v {
				o.fail("config:secret-not-as-configured", fmt.Sprintf("ini %q sets %s to %q (%d bytes) but api.InitConfig() leaves %q (%d bytes)", spec, strings.ToUpper(nm), v, len(v), s[i], len(s[i])))
			}
		}
		if !distinct {
			saysSo := false
			names := []string{"jwt_secret", "refresh_jwt_secret", "email_jwt_secret"}
			for i := 0; i < 3; i++ {
				for j := i + 1; j < 3; j++ {
					a, oka := set[names[i]]
					b, okb := set[names[j]]
					if oka && okb && a == b {
						saysSo = true
					}
				}
			}
			if !saysSo {
				o.fail("config:secrets-not-distinct", fmt.Sprintf("after api.InitConfig() with ini %q: JWT_SECRET=%q REFRESH_JWT_SECRET=%q EMAIL_JWT_SECRET=%q", spec, s[0], s[1], s[2]))
			}
		}
		return fmt.Sprintf("jwt=%s refresh=%s email=%s ttl=%d,%d,%d eps=%d guest=%s typ=%s ctx=%s,%s distinct=%v",
			hx.Hex(s[0]), hx.Hex(s[1]), hx.Hex(s[2]), api.JWT_TOKEN_EXPIRE_TS, api.REFRESH_JWT_TOKEN_EXPIRE_TS, api.EMAIL_JWT_TOKEN_EXPIRE_TS,
			api.EPSILON_EXPIRE_TS, hx0(api.GUEST), hx0(api.REFRESH_JWT_CLAIM_TYPE), hx0(string(api.CONTEXT_CHANGE_EMAIL)), hx0(string(api.CONTEXT_SET_ID_EMAIL)), distinct)
	})
	emit(o)
	if strings.HasPrefix(o.impl, "err ") || o.impl == "PANIC" {
		return
	}
	router = newRouter()

	if run.Replay != "" {
		for _, l := range hx.ReplayOps(run.Replay) {
			c, ok := parseOp(l)
			if !ok {
				emit(outcome{line: l, impl: "bad-op", label: "replay:unparsed"})
				continue
			}
			func() {
				defer func() {
					if e := recover(); e != nil {
						emit(outcome{line: l, impl: "bad-op", label: "replay:bad-recipe"})
					}
				}()
				runCase(c)
			}()
		}
		return
	}
	crossKindMatrix()
}

// crossKindMatrix: every kind of token, issued by the configured server and rebuilt here, at every verifier.
func crossKindMatrix() {
	runCase(tc("config"))
	for _, u := range []string{"SYSOP", "alice"} {
		runCase(tc("create", "access", hs(u), hs("web")))
		runCase(tc("create", "refresh", hs(u), hs("web")))
		runCase(tc("create", "email", hs(u), hs("web"), hs("a@ptt.test"), hs(ctxEmail())))
		for _, k := range kinds {
			everywhere(issuedRec(k, u, "web"), u)
		}
		everywhere(recI("e", u, "web", "a@ptt.test", ctxIDEmail()), u)
	}
	for _, h := range kinds {
		for _, p := range kinds {
			for _, s := range kinds {
				three(fmt.Sprintf("S/%s/%s/%s", issuedRec(h, "alice", "web"), issuedRec(p, "alice", "web"), issuedRec(s, "alice", "web")))
			}
		}
	}
	for _, k := range kinds {
		for _, key := range []string{"a", "r", "e", "w", "n"} {
			three(recB("HS256", key, claimsOf(k, "alice", "web", "nr100", nil)))
			three(recB("none", key, claimsOf(k, "alice", "web", "nr100", nil)))
		}
	}
	for _, ua := range []string{"alice", "bob"} {
		for _, ur := range []string{"alice", "bob"} {
			runCase(tc("refresh", "bearer", recI("a", ua, "web"), hs("web"), recI("r", ur, "web")))
		}
	}
	runCase(tc("refresh", "none", "E", hs(""), "E"))
	// cross-session pairs under the configured lifetimes
	ttlA, ttlR := api.JWT_TOKEN_EXPIRE_TS, api.REFRESH_JWT_TOKEN_EXPIRE_TS
	for _, d := range []int{-61, -30, -3, -2, 0, 2, 3, 30, 59, 60, 61} {
		acc := recB("HS256", "a", claimsOf('a', "alice", "web", fmt.Sprintf("nr%d", ttlA), nil))
		ref := recB("HS256", "r", claimsOf('r', "alice", "web", fmt.Sprintf("nr%d", ttlR+d), nil))
		runCase(tc("refresh", "bearer", acc, hs("web"), ref))
	}
}

// runChild runs one ini spec in a child process and merges what it recorded into this run.
func runChild(spec string, replayOps []string) {
	dir, err := os.MkdirTemp(run.Dir, "ini-")
	if err != nil {
		panic(err)
	}
	defer os.RemoveAll(dir)
	out := filepath.Join(dir, "cases.jsonl")
	args := []string{"-mode", "child", "-ini", spec, "-childout", out, "-tier", run.Tier, "-seed", fmt.Sprint(run.Seed), "-out", dir}
	if replayOps != nil {
		rp := filepath.Join(dir, "replay.ops")
		_ = os.WriteFile(rp, []byte(strings.Join(replayOps, "\n")+"\n"), 0o644)
		if len(replayOps) > 0 {
			args = append(args, "-replay", rp)
		} else {
			args = append(args, "-replay", os.DevNull)
		}
	}
	cmd := exec.Command(os.Args[0], args...)
	cmd.Env = os.Environ()
	msg, cerr := cmd.CombinedOutput()
	n := 0
	if f, err := os.Open(out); err == nil {
		defer f.Close()
		dec := json.NewDecoder(f)
		for {
			var r recorded
			if dec.Decode(&r) != nil {
				break
			}
			n++
			i := run.Op(r.Line, r.Impl, "ini:"+r.Label, r.Nontrivial)
			for _, fl := range r.Fails {
				run.Fail(i, fl[0], fl[1])
			}
		}
	}
	if cerr != nil || n == 0 {
		i := run.Op("useini "+spec, "CHILD-FAILED", "useini:child-failed", false)
		run.Fail(i, "crash:initconfig", fmt.Sprintf("the process configured with %q did not complete: %v %s", spec, cerr, strings.TrimSpace(string(msg))))
	}
}

func generateInis() {
	run.Rule = "package api configured the way a deployment is: viper reads an ini file and api.InitConfig() runs, in one child process per ini file — " +
		"every ini file shipped with the repository (docs/config/*.ini, testcase/*.ini, initgin/testcase/*.ini), no [go-pttbbs:api] entry at all, and ini files written by the harness that set " +
		"one, two or all three secrets; then `useini` (the effective secrets, lifetimes and whether the secrets are pairwise distinct — predicted by the model from the regenerated config() lines and ini entries) " +
		"and the cross-kind matrix: tokens of each kind issued by the configured server, segment swaps, re-signed tokens, refresh pairs at every verifier, header shape and handler. " +
		"non-trivial = a distinct op line presenting a well-formed token"
	specs := append([]string{"none"}, shippedInis()...)
	specs = append(specs,
		"inline:jwt_secret="+hs("prod_secret_1"),
		"inline:jwt_secret="+hs("prod_secret_1")+";email_jwt_secret="+hs("prod_secret_2"),
		"inline:refresh_jwt_secret="+hs("prod_secret_3"),
		"inline:jwt_secret="+hs("prod_secret_1")+";refresh_jwt_secret="+hs("prod_secret_3")+";email_jwt_secret="+hs("prod_secret_2"),
		"inline:jwt_token_expire_ts="+hs("3600")+";refresh_jwt_token_expire_ts="+hs("7200")+";guest="+hs("nobody")+";refresh_jwt_claim_type="+hs("rt"))
	// long secrets: longer than one SHA-256 block (64 bytes), sharing a prefix of 72 / 64 / 63 characters and differing after it
	for _, n := range []int{72, 64, 63} {
		prefix := strings.Repeat("0123456789abcdef", 5)[:n]
		specs = append(specs, "inline:jwt_secret="+hs(prefix+"-access-key")+";refresh_jwt_secret="+hs(prefix+"-refresh-key")+";email_jwt_secret="+hs(prefix+"-email-key"))
	}
	specs = append(specs, "inline:jwt_secret="+hs(strings.Repeat("k", 200))+";refresh_jwt_secret="+hs(strings.Repeat("k", 201)))
	for _, s := range specs {
		runChild(s, nil)
	}
}
