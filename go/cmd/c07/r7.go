package main

// Round 7: (1) the friend list of a hidden board EXPIRES: once the cached list is older than HBFLexpire the board's
// `visable` file governs, also for a caller who is still on the stale cached list; (2) the multi-board validity query
// bbs.IsBoardsValidUser answers per REQUEST ENTRY, whatever stands before it in the request.
//
//	fexp <entry|fn> <bid> <ulevel> <over18> <listed-at-load> <listed-in-file-now> <aged>     (ptt layer, caller = reader)
//	vmulti <ulevel> <over18> <tok> ...   tok: 2 3 4 5 = "<bid>_<its name>", x = stale id, m = "2_Plain", c = "2_target", z = "0_Target"
//	       answer: one character per request entry: v valid, f not valid, - no answer

import (
	"fmt"
	"path/filepath"
	"strings"

	"github.com/Ptt-official-app/go-pttbbs/bbs"
	"github.com/Ptt-official-app/go-pttbbs/cache"
	"github.com/Ptt-official-app/go-pttbbs/cmbbs"
	"github.com/Ptt-official-app/go-pttbbs/ptttype"
	"github.com/Ptt-official-app/go-pttbbs/types"
	"verifharness/internal/hx"
)

func execR7(ws []string) (out, label string, nontrivial bool, fails []fail) {
	bad := func() (string, string, bool, []fail) { return "bad-op", "malformed", false, nil }
	switch ws[0] {
	case "fexp":
		if len(ws) != 8 || *layer == "bbs" {
			return bad()
		}
		kind := ""
		switch {
		case isIn(ws[1], readEntries):
			kind = "read"
		case isIn(ws[1], listFns):
			kind = "list"
		default:
			return bad()
		}
		bidv, ok1 := parseI32(ws[2])
		ulevel, ok2 := parseU32(ws[3])
		over18, ok3 := parseBool(ws[4])
		atLoad, ok4 := parseBool(ws[5])
		now, ok5 := parseBool(ws[6])
		aged, ok6 := parseBool(ws[7])
		bid := ptttype.Bid(bidv)
		if !(ok1 && ok2 && ok3 && ok4 && ok5 && ok6) || (bid != bidTarget && bid != bidGroup) || !boardsSet[bid] {
			return bad()
		}
		idx := bid.ToBidInStore()
		file := filepath.Join(boardDir(boardNames[bid]), ptttype.FN_VISIBLE)
		list := func(on bool) []byte {
			if on {
				return []byte("other\n" + readerName + "\n")
			}
			return []byte("other\n")
		}
		// the list is loaded into shared memory, THEN the file changes, THEN (aged) the load time falls behind the expiry
		putFile(file, list(atLoad))
		cache.HbflReload(idx)
		putFile(file, list(now))
		if aged {
			cache.Shm.Shm.Hbfl[idx][0] = ptttype.UID(types.NowTS() - types.Time4(ptttype.HBFLexpire) - 100)
		}
		delete(friendNow, bid)
		delete(friendOnly, bid)
		// the oracle: a cached list younger than the expiry governs; an expired one is replaced by the file
		friend := atLoad
		if aged {
			friend = now
		}
		pre := &facts{ulevel: ulevel, over18: over18, uid: int32(uidReader), friend: friend}
		a := callArgs{mode: "f", bid: bid, nameBid: bid, ulevel: ulevel, over18: over18, uid: uidReader, friend: friend, pre: pre}
		out, label, nontrivial, fails = execCall(kind, ws[1], a)
		label = fmt.Sprintf("fexp(load=%v,file=%v,aged=%v):%s", atLoad, now, aged, label)
		// leave a fresh, known list behind
		delete(friendNow, bid)
		delete(friendOnly, bid)
		return
	case "vmulti":
		if len(ws) < 4 || len(ws) > 11 || *layer != "bbs" {
			return bad()
		}
		ulevel, ok1 := parseU32(ws[1])
		over18, ok2 := parseBool(ws[2])
		if !ok1 || !ok2 {
			return bad()
		}
		var req []bbs.BBoardID
		var expect []byte
		var descs []string
		if err := cmbbs.PasswdUpdate(uidReader, mkUser(ulevel, over18, nil)); err != nil {
			fatalf("PasswdUpdate: %v", err)
		}
		for _, t := range ws[3:] {
			switch t {
			case "2", "3", "4", "5":
				bid := ptttype.Bid(t[0] - '0')
				if (bid == bidTarget || bid == bidGroup) && !boardsSet[bid] {
					return bad()
				}
				setRelation(bid, uidReader, false, false, false, 0, []byte{})
				delete(modState, bid)
				attr, blevel := boardNow(bid)
				f := facts{ulevel: ulevel, over18: over18, uid: int32(uidReader), attr: attr, blevel: blevel}
				allow, branch := f.mayRead()
				req = append(req, bboard(bid, bid))
				expect = append(expect, map[bool]byte{true: 'v', false: 'f'}[allow])
				descs = append(descs, fmt.Sprintf("%s(%s)", bboard(bid, bid), branch))
			case "x":
				req, expect, descs = append(req, "9_OldName"), append(expect, '-'), append(descs, "9_OldName(no board)")
			case "m":
				req, expect, descs = append(req, bboard(bidTarget, bidPlain)), append(expect, '-'), append(descs, string(bboard(bidTarget, bidPlain))+"(number/name mismatch)")
			case "c":
				req, expect, descs = append(req, "2_target"), append(expect, '-'), append(descs, "2_target(wrong case)")
			case "z":
				req, expect, descs = append(req, "0_Target"), append(expect, '-'), append(descs, "0_Target(no such number)")
			default:
				return bad()
			}
		}
		res := hx.CallSync(func() string {
			m, err := bbs.IsBoardsValidUser(bbs.UUserID(readerName), req)
			if err != nil {
				return errClass(err)
			}
			var sb strings.Builder
			for _, id := range req {
				v, ok := m[id]
				switch {
				case !ok:
					sb.WriteByte('-')
				case v:
					sb.WriteByte('v')
				default:
					sb.WriteByte('f')
				}
			}
			return sb.String()
		})
		label = "vmulti:" + res
		desc := fmt.Sprintf("IsBoardsValidUser(ulevel=%#o over18=%v, %v): expected per entry %q, got %q", ulevel, over18, descs, expect, res)
		if res == "PANIC" {
			fails = append(fails, fail{"crash:IsBoardsValidUser", desc + " — " + hx.LastPanic})
		} else if len(res) != len(expect) {
			fails = append(fails, fail{"read:IsBoardsValidUser:unexpected", desc})
		} else {
			for i := range expect {
				switch {
				case res[i] == 'v' && expect[i] != 'v':
					fails = append(fails, fail{"read:IsBoardsValidUser:allowed-but-forbidden", fmt.Sprintf("entry %d (%s): ", i, descs[i]) + desc})
				case res[i] != 'v' && expect[i] == 'v':
					fails = append(fails, fail{"read:IsBoardsValidUser:denied-but-allowed", fmt.Sprintf("entry %d (%s): ", i, descs[i]) + desc})
				case res[i] != expect[i]:
					fails = append(fails, fail{"read:IsBoardsValidUser:unexpected", fmt.Sprintf("entry %d (%s): ", i, descs[i]) + desc})
				}
			}
			if len(fails) > 1 {
				fails = fails[:1]
			}
		}
		return "res=" + res, label, true, fails
	}
	return bad()
}
