package main

// The private BBSHOME of the C07 harness: four boards, a handful of users, two articles, one pinned article, one
// post template and a friend file on the target boards.  Board headers go through .BRD + cache.ReloadBCache; the
// per-row attributes are then written into the shared-memory board cache exactly as the repository's own tests
// do; the friend list is the board's `visable` file loaded by cache.HbflReload.

import (
	"bytes"
	"encoding/binary"
	"fmt"
	"os"
	"path/filepath"

	"github.com/Ptt-official-app/go-pttbbs/cache"
	"github.com/Ptt-official-app/go-pttbbs/ptttype"
	"verifharness/internal/bbsenv"
)

const (
	bidRoot   = ptttype.Bid(1)
	bidTarget = ptttype.Bid(2) // ordinary board: article readers, name listings, hot list, by-bid, summary
	bidPlain  = ptttype.Bid(3) // public control board, never varied
	bidGroup  = ptttype.Bid(4) // group board: class listings
	bidZebra  = ptttype.Bid(5) // public board sorted after the target: keeps a plain user's name listing as long as the target's slot

	uidReader = ptttype.UID(2)
	uidBuddy  = ptttype.UID(3)
	uidFiller = ptttype.UID(40)

	readerName = "reader"
	titleText  = "Test \xa1\xb7secret title of the board"

	art1     = "M.1607202239.A.30D"
	art1Time = 1607202239
	art2     = "M.1607202240.A.30E"
	artBody  = "Author: buddy\nTitle: hello\n\nthe body of the article\n"
	tmplBody = "template zero\n"
)

var boardNames = map[ptttype.Bid]string{bidRoot: "1...........", bidTarget: "Target", bidPlain: "Plain", bidGroup: "TGroup", bidZebra: "Zebra"}

func fatalf(f string, a ...interface{}) {
	fmt.Fprintf(os.Stderr, "c07: "+f+"\n", a...)
	if env != nil {
		env.Close()
	}
	os.Exit(2)
}

func putFile(path string, b []byte) {
	if err := os.MkdirAll(filepath.Dir(path), 0o755); err != nil {
		fatalf("%v", err)
	}
	if err := os.WriteFile(path, b, 0o644); err != nil {
		fatalf("%v", err)
	}
}

func le(v interface{}) []byte {
	var buf bytes.Buffer
	if err := binary.Write(&buf, binary.LittleEndian, v); err != nil {
		fatalf("binary.Write: %v", err)
	}
	return buf.Bytes()
}

func boardDir(name string) string { return env.Path("boards", name[:1], name) }

func fileHeader(name, owner, title string) *ptttype.FileHeaderRaw {
	h := &ptttype.FileHeaderRaw{}
	copy(h.Filename[:], name)
	copy(h.Owner[:], owner)
	copy(h.Date[:], "12/06")
	copy(h.Title[:], title)
	return h
}

func setupFixture() {
	var err error
	env, err = bbsenv.New(bbsenv.Options{})
	if err != nil {
		fatalf("bbsenv: %v", err)
	}
	// ---- users ------------------------------------------------------------------------
	var pw bytes.Buffer
	for i := 1; i <= int(ptttype.MAX_USERS); i++ {
		u := &ptttype.UserecRaw{}
		switch ptttype.UID(i) {
		case 1:
			copy(u.UserID[:], "SYSOP")
		case uidReader:
			copy(u.UserID[:], readerName)
		case uidBuddy:
			copy(u.UserID[:], "buddy")
		case 4:
			copy(u.UserID[:], "other")
		case 5:
			copy(u.UserID[:], "guest")
		case uidFiller, uidFiller + 1:
			copy(u.UserID[:], fmt.Sprintf("fill%d", i))
		}
		if u.UserID[0] != 0 {
			u.Version = ptttype.PASSWD_VERSION
			u.UserLevel = ptttype.PERM_DEFAULT | ptttype.PERM_LOGINOK | ptttype.PERM_POST
			copy(u.Nickname[:], "nick")
		}
		pw.Write(le(u))
	}
	putFile(ptttype.FN_PASSWD, pw.Bytes())

	// ---- boards -----------------------------------------------------------------------
	var brd bytes.Buffer
	for b := ptttype.Bid(1); b <= 5; b++ {
		h := &ptttype.BoardHeaderRaw{}
		copy(h.Brdname[:], boardNames[b])
		copy(h.Title[:], titleText)
		if b == bidRoot || b == bidGroup {
			h.BrdAttr = ptttype.BRD_GROUPBOARD
		}
		if b != bidRoot {
			h.Gid = bidRoot
		}
		brd.Write(le(h))
	}
	putFile(ptttype.FN_BOARD, brd.Bytes())
	_ = os.RemoveAll(env.Path("boards"))
	for b, name := range boardNames {
		d := boardDir(name)
		if b == bidRoot {
			putFile(filepath.Join(d, ".exist"), nil)
			continue
		}
		var dir bytes.Buffer
		dir.Write(le(fileHeader(art1, "buddy", "[test] first")))
		dir.Write(le(fileHeader(art2, "buddy", "[test] second")))
		putFile(filepath.Join(d, ptttype.FN_DIR), dir.Bytes())
		putFile(filepath.Join(d, ptttype.FN_DIR_BOTTOM), le(fileHeader(art1, "buddy", "[test] first")))
		putFile(filepath.Join(d, art1), []byte(artBody))
		putFile(filepath.Join(d, art2), []byte(artBody))
		putFile(filepath.Join(d, ptttype.POSTSAMPLE+".0"), []byte(tmplBody))
		putFile(filepath.Join(d, ptttype.FN_VISIBLE), nil)
	}
	if err := env.ResetSHM(); err != nil {
		fatalf("ResetSHM: %v", err)
	}
	if n := cache.NumBoards(); n != 5 {
		fatalf("board cache holds %d boards, want 5", n)
	}
	for k, v := range defaultTable {
		curTable[k] = v
	}
	// the hot-board list holds the target and the control board
	cache.Shm.Shm.HBcache[0] = bidTarget.ToBidInStore()
	cache.Shm.Shm.HBcache[1] = bidPlain.ToBidInStore()
	cache.Shm.Shm.NHOTs = 2
	for b := ptttype.Bid(1); b <= 5; b++ {
		for k := range cache.Shm.Shm.BMCache[b-1] {
			cache.Shm.Shm.BMCache[b-1][k] = -1
		}
	}
}

// ---- materialising one row -----------------------------------------------------------------

var friendNow = map[ptttype.Bid]int{} // -1 unknown, 0 not listed, 1 listed

// setBoard writes the attribute and level words of a board into the shared board cache.
func setBoard(bid ptttype.Bid, attr, level uint32) {
	b := &cache.Shm.Shm.BCache[bid.ToBidInStore()]
	b.BrdAttr = ptttype.BrdAttr(attr)
	b.Level = ptttype.PERM(level)
}

func boardNow(bid ptttype.Bid) (attr, level uint32) {
	b := &cache.Shm.Shm.BCache[bid.ToBidInStore()]
	return uint32(b.BrdAttr), uint32(b.Level)
}

// setRelation makes the three relation facts true or false for (reader, bid).
func setRelation(bid ptttype.Bid, uid ptttype.UID, bmCache, friend, named bool, rot int, rawBM []byte) {
	idx := bid.ToBidInStore()
	filler := uidFiller
	if uid == filler {
		filler++
	}
	for k := range cache.Shm.Shm.BMCache[idx] {
		cache.Shm.Shm.BMCache[idx][k] = filler
	}
	if bmCache {
		cache.Shm.Shm.BMCache[idx][rot%int(ptttype.MAX_BMs)] = uid
	}
	b := &cache.Shm.Shm.BCache[idx]
	b.BM = ptttype.BM_t{}
	if rawBM != nil {
		copy(b.BM[:], rawBM) // nlist: the moderator string byte for byte
	} else if named {
		if rot%2 == 0 {
			copy(b.BM[:], "buddy/"+readerName)
		} else {
			copy(b.BM[:], readerName+"/other")
		}
	} else {
		copy(b.BM[:], "buddy/"+readerName+"x/x"+readerName) // near misses only
	}
	want := 0
	if friend {
		want = 1
	}
	if v, ok := friendNow[bid]; !ok || v != want {
		list := "other\n"
		if friend {
			if rot%2 == 0 {
				list = "other\n" + readerName + "\n"
			} else {
				list = readerName + " note\nother\n"
			}
		}
		putFile(filepath.Join(boardDir(boardNames[bid]), ptttype.FN_VISIBLE), []byte(list))
		cache.HbflReload(idx)
		friendNow[bid] = want
		delete(friendOnly, bid)
	}
}

var friendOnly = map[ptttype.Bid]string{}

// setFriendOnly arranges the friend file of a board (the listed name, or nobody) and leaves the moderator cache and
// the moderator string alone.
func setFriendOnly(bid ptttype.Bid, friend bool, name []byte) {
	want := "-"
	if friend {
		want = string(name)
	}
	if v, ok := friendOnly[bid]; ok && v == want {
		if _, legacy := friendNow[bid]; !legacy {
			return
		}
	}
	list := ""
	if friend {
		list = string(name) + "\n"
	}
	putFile(filepath.Join(boardDir(boardNames[bid]), ptttype.FN_VISIBLE), []byte(list))
	cache.HbflReload(bid.ToBidInStore())
	friendOnly[bid] = want
	delete(friendNow, bid)
}

func mkUser(level uint32, over18 bool, rawID []byte) *ptttype.UserecRaw {
	u := &ptttype.UserecRaw{}
	u.Version = ptttype.PASSWD_VERSION
	if rawID != nil {
		copy(u.UserID[:], rawID) // nlist: the user id byte for byte
	} else {
		copy(u.UserID[:], readerName)
	}
	copy(u.Nickname[:], "nick")
	u.UserLevel = ptttype.PERM(level)
	u.Over18 = over18
	return u
}
