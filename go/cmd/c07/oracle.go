package main

// The property oracle P̂ of C07: `mayRead`, written from the property statement, NOT from the code and NOT from the
// Lean model.  It works on named facts; the bit positions are the ones of pttbbs' perm.h / board attribute list
// (literal numbers here, deliberately not the identifiers of package ptttype, so that a changed constant in the
// source cannot move the oracle along with it).
//
//	"Whether a user may see a board's content is a fixed function of the user (sysop, moderator of that board,
//	 police, listed friend of a hidden board, adult flag, permission bits) and the board (hidden with restricted
//	 mask, over-18, required level)."

const (
	oBitBasic     = 0  // PERM_BASIC      0o1
	oBitLoginOK   = 4  // PERM_LOGINOK    0o20
	oBitBM        = 10 // PERM_BM         0o2000
	oBitBoard     = 13 // PERM_BOARD      0o20000   "administers boards"
	oBitSysop     = 14 // PERM_SYSOP      0o40000
	oBitPoliceMan = 28 // PERM_POLICE_MAN 0o2000000000
	oBitPolice    = 31 // PERM_POLICE     0o20000000000

	oBrdGroup    = 3  // BRD_GROUPBOARD 0x8
	oBrdHide     = 4  // BRD_HIDE       0x10
	oBrdPostMask = 5  // BRD_POSTMASK   0x20
	oBrdSymbolic = 15 // BRD_SYMBOLIC   0x8000
	oBrdOver18   = 24 // BRD_OVER18     0x01000000
)

type facts struct {
	ulevel  uint32
	over18  bool
	uid     int32
	attr    uint32 // CURRENT attributes of the board
	blevel  uint32
	bmCache bool // uid is one of the board's cached moderator uids
	friend  bool // listed in the board's friend file
	named   bool // user id appears in the board's moderator string

	// s/m-ops (accounts.go): how the oracle arrived at the facts above
	who       string
	expectErr bool
	mods      []int32
}

func bit(w uint32, i uint) bool { return (w>>i)&1 == 1 }

// branch names the clause of the rule that decides (for the histogram).
func (f facts) mayRead() (allow bool, branch string) {
	if bit(f.ulevel, oBitSysop) {
		return true, "sysop"
	}
	// police may enter boards reserved for moderators
	if bit(f.blevel, oBitBM) && (bit(f.ulevel, oBitPolice) || bit(f.ulevel, oBitPoliceMan)) {
		return true, "police"
	}
	// moderator of that board: a registered (basic + login-ok) account whose uid is one of the board's moderators;
	// 0 and -1 are not accounts
	if f.bmCache && f.uid != 0 && f.uid != -1 && bit(f.ulevel, oBitBasic) && bit(f.ulevel, oBitLoginOK) {
		return true, "moderator"
	}
	if bit(f.attr, oBrdHide) {
		// hidden: listed friends; everybody while the restricted mask is not set
		if f.friend {
			return true, "hidden-friend"
		}
		if !bit(f.attr, oBrdPostMask) {
			return true, "hidden-unmasked"
		}
		return false, "hidden-denied"
	}
	if bit(f.attr, oBrdOver18) && !f.over18 {
		return false, "over18-denied"
	}
	// required level: unless the level only restricts posting (mask set), the user needs one of the required bits
	if f.blevel != 0 && !bit(f.attr, oBrdPostMask) {
		shares := false
		for i := uint(0); i < 32; i++ {
			if bit(f.blevel, i) && bit(f.ulevel, i) {
				shares = true
			}
		}
		if !shares {
			return false, "level-denied"
		}
		return true, "level-ok"
	}
	return true, "public"
}

// "or the caller administers boards or is a named moderator of it"
func (f facts) administers() bool { return bit(f.ulevel, oBitBoard) || f.named }

func (f facts) groupOrSymbolic() bool { return bit(f.attr, oBrdGroup) || bit(f.attr, oBrdSymbolic) }

// ---- "named moderator", independently of the code: the user id equals one of the '/'-separated names ---------

func cstrBytes(b []byte) []byte {
	for i, c := range b {
		if c == 0 {
			return b[:i]
		}
	}
	return b
}

func oAlnum(c byte) bool { return c >= '0' && c <= '9' || c >= 'A' && c <= 'Z' || c >= 'a' && c <= 'z' }

// oracleNamed: byte-exact comparison with each '/'-separated name (the code does not fold case either).
func oracleNamed(id, bm []byte) bool {
	id, bm = cstrBytes(id), cstrBytes(bm)
	if len(id) == 0 {
		return false
	}
	start := 0
	for i := 0; i <= len(bm); i++ {
		if i == len(bm) || bm[i] == '/' {
			if string(bm[start:i]) == string(id) {
				return true
			}
			start = i + 1
		}
	}
	return false
}

// a user id as registration admits it, and a moderator string made of ids and '/' only
func validID(id []byte) bool {
	id = cstrBytes(id)
	if len(id) == 0 {
		return false
	}
	for _, c := range id {
		if !oAlnum(c) {
			return false
		}
	}
	return true
}

func wellFormedBM(bm []byte) bool {
	for _, c := range cstrBytes(bm) {
		if !oAlnum(c) && c != '/' {
			return false
		}
	}
	return true
}
