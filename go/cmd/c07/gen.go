package main

// The generator: the exhaustive decision table, smallest rows first, then random words, then a malformed stream.
// Everything random derives from run.R.

import (
	"fmt"
	"strings"

	"verifharness/internal/hx"

	"github.com/Ptt-official-app/go-pttbbs/ptttype"
)

type row struct {
	bid                ptttype.Bid
	ulevel             uint32
	over18             bool
	uid                int32
	attr, blevel       uint32
	bmc, friend, named bool
}

const (
	bitHas   = uint32(ptttype.PERM_POST)  // a required-level bit every table user has
	bitLacks = uint32(ptttype.PERM_ANGEL) // a required-level bit no table user has
)

func b01(b bool) string {
	if b {
		return "1"
	}
	return "0"
}

func (r row) call(kind, entry string) string {
	return fmt.Sprintf("%s %s %d %d %s %d %s %s %s", kind, entry, r.bid, r.ulevel, b01(r.over18), r.uid, b01(r.bmc), b01(r.friend), b01(r.named))
}

// history of one row. first < 0: read first, then every listing; first >= 0: listing number `first` first, then the
// other listings, then the readers.
func emitRow(r row, lists []string, first int) {
	emit("reset")
	emit(fmt.Sprintf("setb %d %d %d", r.bid, r.attr, r.blevel))
	reads := func() {
		for _, e := range readEntries {
			emit(r.call("read", e))
		}
	}
	if first < 0 {
		reads()
		for _, f := range lists {
			emit(r.call("list", f))
		}
		return
	}
	n := len(lists)
	for k := 0; k < n; k++ {
		emit(r.call("list", lists[(first+k)%n]))
	}
	reads()
}

var targetLists = []string{"LoadGeneralBoards", "LoadAutoCompleteBoards", "LoadBoardsByBids", "LoadHotBoards", "LoadBoardSummary", "LoadBoardDetail"}
var groupLists = []string{"LoadFullClassBoards", "LoadClassBoards", "LoadBoardsByBids", "LoadGeneralBoards", "LoadBoardSummary", "LoadBoardDetail"}

func generate() {
	thorough := run.Thorough()
	bbsLayer := *layer == "bbs"
	emit("consts")

	P := func(p ptttype.PERM) uint32 { return uint32(p) }
	A := func(a ptttype.BrdAttr) uint32 { return uint32(a) }

	polices := []uint32{0, P(ptttype.PERM_POLICE)}
	userBM := []uint32{0}
	levels := []uint32{0, bitHas, bitLacks, P(ptttype.PERM_BM) | bitLacks}
	type adm struct {
		board, named bool
	}
	adms := []adm{{false, false}, {true, false}, {false, true}}
	if thorough {
		polices = append(polices, P(ptttype.PERM_POLICE_MAN))
		userBM = append(userBM, P(ptttype.PERM_BM))
		levels = append(levels, P(ptttype.PERM_BM), bitHas|bitLacks)
		adms = append(adms, adm{true, true})
	}
	// quick tier, bbs layer: the slice of the table with a registered, non-police caller (the whole table in thorough)
	basics := []uint32{P(ptttype.PERM_BASIC), 0}
	loginoks := []uint32{P(ptttype.PERM_LOGINOK), 0}
	if bbsLayer && !thorough {
		polices = polices[:1]
		basics = basics[:1]
		loginoks = loginoks[:1]
	}
	nrows := 0
	// ---- the table on the ordinary board ------------------------------------------------------
	for _, sysop := range []uint32{0, P(ptttype.PERM_SYSOP)} {
		for _, police := range polices {
			for _, ubm := range userBM {
				for _, ad := range adms {
					for _, basic := range basics {
						for _, loginok := range loginoks {
							for _, over18 := range []bool{false, true} {
								if sysop != 0 && !thorough && (police != 0 || basic == 0 || loginok == 0) {
									continue // quick tier: the sysop short-cut is crossed with the other user facts in thorough only
								}
								ulevel := sysop | police | ubm | basic | loginok | bitHas
								if ad.board {
									ulevel |= P(ptttype.PERM_BOARD)
								}
								for _, hide := range []uint32{0, A(ptttype.BRD_HIDE)} {
									for _, mask := range []uint32{0, A(ptttype.BRD_POSTMASK)} {
										for _, o18 := range []uint32{0, A(ptttype.BRD_OVER18)} {
											for _, lv := range levels {
												for rel := 0; rel < 4; rel++ {
													r := row{bid: bidTarget, ulevel: ulevel, over18: over18, uid: int32(uidReader),
														attr: hide | mask | o18 | A(ptttype.BRD_NOCOUNT), blevel: lv,
														bmc: rel&1 != 0, friend: rel&2 != 0, named: ad.named}
													emitRow(r, targetLists, -1)
													if hide != 0 || thorough {
														if thorough {
															for k := range targetLists {
																emitRow(r, targetLists, k)
															}
														} else {
															emitRow(r, targetLists, nrows%len(targetLists))
														}
													}
													nrows++
												}
											}
										}
									}
								}
							}
						}
					}
				}
			}
		}
	}
	// ---- the group board: class listing ----------------------------------------------------------
	for _, sysop := range []uint32{0, P(ptttype.PERM_SYSOP)} {
		for _, ad := range adms {
			for _, over18 := range []bool{false, true} {
				ulevel := sysop | P(ptttype.PERM_BASIC) | P(ptttype.PERM_LOGINOK) | bitHas
				if ad.board {
					ulevel |= P(ptttype.PERM_BOARD)
				}
				for _, kind := range []uint32{A(ptttype.BRD_GROUPBOARD), A(ptttype.BRD_SYMBOLIC)} {
					for _, hide := range []uint32{0, A(ptttype.BRD_HIDE)} {
						for _, mask := range []uint32{0, A(ptttype.BRD_POSTMASK)} {
							for _, o18 := range []uint32{0, A(ptttype.BRD_OVER18)} {
								for _, lv := range []uint32{0, bitLacks} {
									for rel := 0; rel < 4; rel++ {
										r := row{bid: bidGroup, ulevel: ulevel, over18: over18, uid: int32(uidReader), attr: kind | hide | mask | o18, blevel: lv,
											bmc: rel&1 != 0, friend: rel&2 != 0, named: ad.named}
										emitRow(r, groupLists, -1)
										if hide != 0 {
											emitRow(r, groupLists, nrows%len(groupLists))
										}
										nrows++
									}
								}
							}
						}
					}
				}
			}
		}
	}
	// ---- uids that are not accounts, with the moderator cache holding that very value ---------------------
	if !bbsLayer {
		for _, uid := range []int32{0, -1, int32(uidBuddy), int32(ptttype.MAX_USERS) + 1} {
			for _, bmc := range []bool{false, true} {
				for _, attr := range []uint32{0, A(ptttype.BRD_HIDE) | A(ptttype.BRD_POSTMASK), A(ptttype.BRD_HIDE), A(ptttype.BRD_OVER18)} {
					r := row{bid: bidTarget, ulevel: P(ptttype.PERM_BASIC) | P(ptttype.PERM_LOGINOK) | bitHas, uid: uid, attr: attr, blevel: bitLacks, bmc: bmc}
					emitRow(r, targetLists, -1)
					emitRow(r, targetLists, 0)
					nrows++
				}
			}
		}
	}
	// ---- the number of one board with the name of another ------------------------------------------------------
	for _, ulevel := range []uint32{P(ptttype.PERM_BASIC) | P(ptttype.PERM_LOGINOK) | bitHas, P(ptttype.PERM_SYSOP) | P(ptttype.PERM_BASIC)} {
		for _, attr := range []uint32{A(ptttype.BRD_HIDE) | A(ptttype.BRD_POSTMASK), A(ptttype.BRD_OVER18), 0} {
			emit("reset")
			emit(fmt.Sprintf("setb %d %d %d", bidTarget, attr, 0))
			emit(fmt.Sprintf("setb %d %d %d", bidGroup, attr|A(ptttype.BRD_GROUPBOARD), bitLacks))
			for _, pair := range [][2]ptttype.Bid{{bidPlain, bidTarget}, {bidTarget, bidPlain}, {bidGroup, bidTarget}, {bidTarget, bidGroup}, {bidTarget, bidTarget}, {bidPlain, bidPlain}} {
				for k := range readEntries {
					e := readEntries[(k+4)%len(readEntries)] // ReadPost first
					emit(fmt.Sprintf("xread %s %d %d %d 0 %d 0 0 0", e, pair[0], pair[1], ulevel, uidReader))
				}
				// the same while the board table is marked busy (reload / sort in progress): the refusal must not depend on it
				for k := range readEntries {
					e := readEntries[(k+4)%len(readEntries)]
					emit(fmt.Sprintf("xreadb %s %d %d %d 0 %d 0 0 0", e, pair[0], pair[1], ulevel, uidReader))
				}
			}
			nrows++
		}
	}
	// ---- named moderators: user ids x moderator strings built for trouble (ptt layer) ----------------------------
	if !bbsLayer {
		plain := P(ptttype.PERM_BASIC) | P(ptttype.PERM_LOGINOK) | bitHas
		hiddenMasked := A(ptttype.BRD_HIDE) | A(ptttype.BRD_POSTMASK)
		nlist := func(k int, id, bm []byte) {
			f := targetLists[k%len(targetLists)]
			emit(fmt.Sprintf("nlist %s %d %d 0 %d 0 0 %s %s", f, bidTarget, plain, uidReader, hx.Hex(id), hx.Hex(bm)))
		}
		swapCase := func(s string) string {
			b := []byte(s)
			for i, c := range b {
				switch {
				case c >= 'a' && c <= 'z':
					b[i] = c - 32
				case c >= 'A' && c <= 'Z':
					b[i] = c + 32
				}
			}
			return string(b)
		}
		clip := func(s string, n int) []byte {
			if len(s) > n {
				s = s[:n]
			}
			return []byte(s)
		}
		npairs := 0
		for _, m := range []string{"Kahou2", "SYSOP", "test0", "a", "Ab1", "abcdefghijkl"} {
			ids := []string{m, m[:len(m)-1], m[1:], m + "x", "x" + m, swapCase(m), m + m, "", "abcdefghijklm"}
			if len(m) > 2 {
				ids = append(ids, m[1:len(m)-1])
			}
			o, q := "zz9", "Qq"
			// a 39-byte field without terminating NUL whose last name is m
			fill := strings.Repeat("q", 39-len(m)-1)
			full := fill[:len(fill)/2] + "/" + fill[len(fill)/2+1:] + "/" + m
			bms := []string{m, m + "/" + o, o + "/" + m, o + "/" + m + "/" + q, m + "2/" + m, o + m + "/" + m, "x" + m + "y/" + m, m + "/",
				"/" + m, m + "//" + o, o + "/" + m[:len(m)-1], m + "2", m + ".x", m + " x", "[" + m + "]", o + "." + m, m + "\x00/" + o, "", full}
			emit("reset")
			emit(fmt.Sprintf("setb %d %d 0", bidTarget, hiddenMasked))
			for _, id := range ids {
				for _, bm := range bms {
					// every pair through every listing / summary / detail function in thorough, through one (rotating) in quick
					if thorough {
						for k := range targetLists {
							nlist(k, clip(id, 13), clip(bm, 39))
						}
					} else {
						nlist(npairs, clip(id, 13), clip(bm, 39))
					}
					npairs++
				}
			}
		}
		nr := 600
		if thorough {
			nr = 30000
		}
		alpha := []byte("aabA1//. \x00")
		emit("reset")
		emit(fmt.Sprintf("setb %d %d 0", bidTarget, hiddenMasked))
		for i := 0; i < nr; i++ {
			id := run.R.Bytes(run.R.Intn(4), alpha)
			if run.R.Intn(3) > 0 {
				id = run.R.Bytes(1+run.R.Intn(3), []byte("abA1"))
			}
			bm := run.R.Bytes(run.R.Intn(9), alpha)
			if run.R.Intn(2) == 0 {
				// plant the id somewhere
				k := run.R.Intn(len(bm) + 1)
				bm = append(append(append([]byte{}, bm[:k]...), id...), bm[k:]...)
			}
			nlist(i, id, clip(string(bm), 39))
			npairs++
		}
		run.Extra["named_pairs"] = npairs
	}
	accountHistories(thorough, bbsLayer)
	heldHistories(thorough, bbsLayer)
	round7Histories(thorough, bbsLayer)
	// ---- random words ------------------------------------------------------------------------------
	nrand := 1500
	if thorough {
		nrand = 20000
	}
	if bbsLayer && !thorough {
		nrand = 300
	}
	interesting := []uint32{P(ptttype.PERM_BASIC), P(ptttype.PERM_LOGINOK), P(ptttype.PERM_BM), P(ptttype.PERM_BOARD), P(ptttype.PERM_SYSOP),
		P(ptttype.PERM_POLICE), P(ptttype.PERM_POLICE_MAN), P(ptttype.PERM_POST), P(ptttype.PERM_ANGEL), P(ptttype.PERM_NOCITIZEN)}
	battrs := []uint32{A(ptttype.BRD_HIDE), A(ptttype.BRD_POSTMASK), A(ptttype.BRD_OVER18), A(ptttype.BRD_GROUPBOARD), A(ptttype.BRD_SYMBOLIC),
		A(ptttype.BRD_TOP), A(ptttype.BRD_RESTRICTEDPOST)}
	word := func(pool []uint32) uint32 {
		switch run.R.Intn(4) {
		case 0:
			return uint32(run.R.U64())
		case 1:
			return uint32(run.R.U64()) & uint32(run.R.U64()) & uint32(run.R.U64())
		}
		var w uint32
		for _, b := range pool {
			if run.R.Intn(3) == 0 {
				w |= b
			}
		}
		if run.R.Intn(4) == 0 {
			w |= 1 << uint(run.R.Intn(32))
		}
		return w
	}
	for i := 0; i < nrand; i++ {
		r := row{bid: bidTarget, ulevel: word(interesting), over18: run.R.Bool(), uid: int32(uidReader), attr: word(battrs), blevel: word(interesting),
			bmc: run.R.Intn(3) == 0, friend: run.R.Intn(3) == 0, named: run.R.Intn(4) == 0}
		if run.R.Intn(4) == 0 {
			r.blevel = 0
		}
		lists := targetLists
		if run.R.Intn(3) == 0 {
			r.bid = bidGroup
			lists = groupLists
		}
		first := -1
		if run.R.Bool() {
			first = run.R.Intn(len(lists))
		}
		emitRow(r, lists, first)
		nrows++
	}
	// ---- invalid board ids and a malformed stream --------------------------------------------------------
	emit("reset")
	emit(fmt.Sprintf("setb %d 0 0", bidTarget))
	for _, bid := range []int32{0, -1, int32(ptttype.MAX_BOARD) + 1, 2147483647, -2147483648} {
		r := row{bid: ptttype.Bid(bid), ulevel: P(ptttype.PERM_BASIC) | P(ptttype.PERM_LOGINOK), uid: int32(uidReader)}
		for _, e := range readEntries {
			emit(r.call("read", e))
		}
		for _, f := range []string{"LoadBoardsByBids", "LoadBoardSummary", "LoadBoardDetail"} {
			emit(r.call("list", f))
		}
	}
	good := row{bid: bidTarget, ulevel: 17, uid: int32(uidReader)}.call("read", "ReadPost")
	malformed := []string{
		"", "read", "list LoadGeneralBoards", "read ReadPost 2 17 0 2 0 0", good + " 0", "read readpost 2 17 0 2 0 0 0", "list ReadPost 2 17 0 2 0 0 0",
		"read LoadGeneralBoards 2 17 0 2 0 0 0", "read ReadPost 2 4294967296 0 2 0 0 0", "read ReadPost 2 -1 0 2 0 0 0", "read ReadPost 2 17 2 2 0 0 0",
		"read ReadPost 2 17 0 2 0 0 x", "read ReadPost x 17 0 2 0 0 0", "read ReadPost 3 17 0 2 0 0 0", "read ReadPost 2 17 0 3 0 1 0",
		"read ReadPost 2 17 0 99999999999 0 0 0", "read ReadPost 2 0x11 0 2 0 0 0", "setb 2 0", "setb 3 0 0", "setb 2 -1 0", "setb 2 0 4294967296",
		"reset now", "consts x", "frobnicate", "xread ReadPost 2 1 17 0 2 0 0 0", "xread ReadPost 1 2 17 0 2 0 0 0", "xread ReadPost 2 3 17 0 2 0 0",
		"xread LoadHotBoards 2 3 17 0 2 0 0 0", "xread ReadPost 0 3 17 0 2 0 0 0", "xreadb ReadPost 2 1 17 0 2 0 0 0", "xreadc ReadPost 2 3 17 0 2 0 0 0",
		"nlist LoadBoardDetail 2 17 0 2 0 0 6 61", "nlist LoadBoardDetail 2 17 0 2 0 0 zz 61", "nlist ReadPost 2 17 0 2 0 0 61 61",
		"nlist LoadBoardDetail 2 17 0 2 0 0 6161616161616161616161616161 61", "nlist LoadBoardDetail 2 17 0 2 0 0 61",
		"fexp ReadPost 2 25 0 1 0", "fexp ReadPost 3 25 0 1 0 1", "fexp Nope 2 25 0 1 0 1", "fexp ReadPost 2 25 0 1 0 2", "vmulti 25 0", "vmulti 25 0 q", "vmulti 25 0 2 3 2 3 2 3 2 3 2",
		"vmulti 25 0 x 3", "vmulti 25 2 3", "fexp ReadPost 2 25 0 1 0 1",
		"recheck 0", "hold 8 LoadHotBoards 2 17 0 2 0 0 0", "hold 0 LoadBoardSummary 2 17 0 2 0 0 0", "hold 0 LoadHotBoards 2 17 0 2 0 0", "recheck x", "stress 10", "stress 0",
		"hold 0 LoadHotBoards 2 17 0 2 0 0 0", "recheck 0", "recheck 1", "recheck 0 0",
		"users", "users 1:6162 1:6364", "users 1:6162 2:4142", "users 0:6162", "users 1:61", "users 1:3161", "users 1:61622e", "users 1:6162:63", "users 51:6162",
		"sread ReadPost 6162 17 0 2", "mread ReadPost 2 17 0 2 0", "resetbm 2 0 0 6162", "users 2:726561646572", "resetbm 3 0 0 6162", "resetbm 2 0 0 zz",
		"mread ReadPost 2 17 0 2 0", "resetbm 2 48 0 726561646572", "mread ReadPost 2 17 0 2 0", "mread ReadPost 2 17 0 9 0", "mread ReadPost 4 17 0 2 0",
		"read ReadPost 2 17 0 2 0 0 0", "mread ReadPost 2 17 0 2 0", "sread ReadPost 726561646572 17 0 2", "sread ReadPost 726561646572 17 0 3", "slist ReadPost 726561646572 17 0 2", "read ReadPost 2 17 0 - 0 0 0", "read ReadPost 2 +17 0 2 0 0 0",
	}
	for _, m := range malformed {
		emit(m)
	}
	for i := 0; i < 40; i++ {
		ws := strings.Fields(good)
		k := run.R.Intn(len(ws))
		switch run.R.Intn(3) {
		case 0:
			ws[k] = string(run.R.Bytes(1+run.R.Intn(4), []byte("0129-xL _")))
		case 1:
			ws = append(ws[:k], ws[k+1:]...)
		case 2:
			ws = append(ws, "1")
		}
		emit(strings.Join(ws, " "))
	}
	emit(good)

	// the complete cross product of the table's facts is enumerated in thorough; quick slices the sysop rows (and, on
	// the bbs layer, the unregistered / police callers)
	run.Exhaust = thorough
	run.Extra["table_rows"] = nrows
	run.Rule = "decision table (exhaustive in every fact for non-sysop callers; the sysop short-cut crossed with the other user facts in thorough) on layer " + *layer + ": sysop x police{none,POLICE" + map[bool]string{true: ",POLICE_MAN", false: ""}[thorough] +
		"} x administers{none,PERM_BOARD,named BM} x basic x login-ok x adult x board{hide,postmask,over18} x required level{0, a bit the user has, a bit the user lacks, PERM_BM|lacking} x " +
		"moderator-cache x friend-file, each row materialised in the shared board cache / BM cache / visable file and driven through all 6 read entry points and all listing/summary functions, " +
		"read-first and (hidden boards) listing-first; + the class listing on a group/symbolic board; + non-account uids; + random 32-bit level/attribute words; + invalid board ids and a malformed op stream. " +
		"non-trivial = every call op"
}

// accountHistories: (1) the caller's id in every spelling the case-insensitive lookup accepts, for the built-in accounts and
// an ordinary one, with stored permission bits that differ from the ones the account acts with; (2) boards created /
// reset one after the other with moderator lists of different lengths, then every account at every board.
func accountHistories(thorough, bbsLayer bool) {
	P := func(p ptttype.PERM) uint32 { return uint32(p) }
	A := func(a ptttype.BrdAttr) uint32 { return uint32(a) }
	usersLine := func(tbl map[int32]string) string {
		var parts []string
		for uid := int32(1); uid <= int32(ptttype.MAX_USERS); uid++ {
			if id, ok := tbl[uid]; ok {
				parts = append(parts, fmt.Sprintf("%d:%s", uid, hx.Hex([]byte(id))))
			}
		}
		return "users " + strings.Join(parts, " ")
	}
	// ---- spellings ---------------------------------------------------------------------------------------------
	variants := func(id string) []string {
		lower, upper := strings.ToLower(id), strings.ToUpper(id)
		mixed := []byte(lower)
		for i := range mixed {
			if i%2 == 0 && mixed[i] >= 'a' && mixed[i] <= 'z' {
				mixed[i] -= 32
			}
		}
		first := []byte(lower)
		if first[0] >= 'a' && first[0] <= 'z' {
			first[0] -= 32
		}
		out := []string{id}
		for _, v := range []string{lower, upper, string(mixed), string(first)} {
			dup := false
			for _, o := range out {
				dup = dup || o == v
			}
			if !dup {
				out = append(out, v)
			}
		}
		return out
	}
	storedLevels := []uint32{P(ptttype.PERM_DEFAULT) | P(ptttype.PERM_LOGINOK) | bitHas, 0, P(ptttype.PERM_BASIC) | P(ptttype.PERM_LOGINOK) | P(ptttype.PERM_BM) | P(ptttype.PERM_SYSSUBOP)}
	type brd struct{ attr, level uint32 }
	boards := []brd{{0, 0}, {A(ptttype.BRD_HIDE) | A(ptttype.BRD_POSTMASK), 0}, {0, bitHas}, {0, bitLacks}, {A(ptttype.BRD_OVER18), 0}, {A(ptttype.BRD_HIDE), 0}}
	slists := []string{"LoadBoardDetail", "LoadBoardSummary", "LoadGeneralBoards", "LoadBoardsByBids"}
	spellOps := func(sp []byte, stored uint32, k int) {
		if thorough {
			for _, e := range readEntries {
				emit(fmt.Sprintf("sread %s %s %d 0 %d", e, hx.Hex(sp), stored, bidTarget))
			}
			for _, f := range slists {
				emit(fmt.Sprintf("slist %s %s %d 0 %d", f, hx.Hex(sp), stored, bidTarget))
			}
			return
		}
		for j := 0; j < 2; j++ {
			emit(fmt.Sprintf("sread %s %s %d 0 %d", readEntries[(k+3*j)%len(readEntries)], hx.Hex(sp), stored, bidTarget))
		}
		emit(fmt.Sprintf("slist %s %s %d 0 %d", slists[k%len(slists)], hx.Hex(sp), stored, bidTarget))
	}
	k := 0
	for _, acct := range []string{"SYSOP", "guest", readerName} {
		for _, b := range boards {
			emit("reset")
			emit(usersLine(defaultTable))
			emit(fmt.Sprintf("setb %d %d %d", bidTarget, b.attr, b.level))
			for _, stored := range storedLevels {
				for _, sp := range variants(acct) {
					spellOps([]byte(sp), stored, k)
					k++
				}
			}
		}
	}
	// ids nobody has, ids the boundary must refuse, over-long and NUL-carrying spellings
	emit("reset")
	emit(usersLine(defaultTable))
	emit(fmt.Sprintf("setb %d 0 0", bidTarget))
	for _, sp := range []string{"nobody", "s", "SYSOP2", "SYSO", "guest.", "9uest", "sysopsysopsysop", "SYSOP\x00x", "gu\x00est", "reader12345678", "", "guests", "Sysop "} {
		spellOps([]byte(sp), storedLevels[0], k)
		k++
	}
	// another table: the built-in names stored in other letter case, and look-alikes
	alt := map[int32]string{1: "Sysop", 2: "GUEST", 3: "sysop2", 7: "guest1", 9: "Zed"}
	for _, b := range boards[:3] {
		emit("reset")
		emit(usersLine(alt))
		emit(fmt.Sprintf("setb %d %d %d", bidTarget, b.attr, b.level))
		for _, sp := range []string{"SYSOP", "sysop", "Sysop", "guest", "GUEST", "Guest", "sysop2", "SYSOP2", "zed"} {
			spellOps([]byte(sp), storedLevels[0], k)
			k++
		}
	}
	run.Extra["spelling_cases"] = k

	// ---- moderator lists, one board after the other (ptt layer) ---------------------------------------------------------
	if bbsLayer {
		return
	}
	plain := P(ptttype.PERM_BASIC) | P(ptttype.PERM_LOGINOK) | bitHas
	hidden := A(ptttype.BRD_HIDE) | A(ptttype.BRD_POSTMASK)
	names := []string{"buddy", "other", "fill40", "fill41", readerName, "SYSOP"}
	list := func(n, rot int) string {
		var ns []string
		for i := 0; i < n; i++ {
			ns = append(ns, names[(rot+i)%len(names)])
		}
		return strings.Join(ns, "/")
	}
	allUsers := func(bid ptttype.Bid, k int) {
		for uid := int32(1); uid <= int32(ptttype.MAX_USERS); uid++ {
			if _, ok := defaultTable[uid]; !ok || uid == 1 {
				continue
			}
			if thorough {
				for _, e := range readEntries {
					emit(fmt.Sprintf("mread %s %d %d 0 %d 0", e, bid, plain, uid))
				}
				emit(fmt.Sprintf("mlist LoadBoardDetail %d %d 0 %d 0", bid, plain, uid))
				emit(fmt.Sprintf("mlist LoadBoardsByBids %d %d 0 %d 0", bid, plain, uid))
			} else {
				emit(fmt.Sprintf("mread %s %d %d 0 %d 0", readEntries[(k+int(uid))%len(readEntries)], bid, plain, uid))
			}
		}
	}
	nh := 0
	for n1 := 0; n1 <= 5; n1++ {
		for n2 := 0; n2 <= 5; n2++ {
			if !thorough && n2 > n1 && (n1+n2)%2 == 1 {
				continue // quick: every shrinking pair, half of the growing ones
			}
			// board A with n1 moderators, then board B with n2; then A again with n2 (same board, shorter list)
			emit("reset")
			emit(usersLine(defaultTable))
			emit(fmt.Sprintf("resetbm %d %d 0 %s", bidGroup, hidden|A(ptttype.BRD_GROUPBOARD), hx.Hex([]byte(list(n1, nh)))))
			emit(fmt.Sprintf("resetbm %d %d 0 %s", bidTarget, hidden, hx.Hex([]byte(list(n2, nh+n1)))))
			allUsers(bidTarget, nh)
			allUsers(bidGroup, nh)
			emit(fmt.Sprintf("resetbm %d %d %d %s", bidGroup, A(ptttype.BRD_GROUPBOARD), bitLacks, hx.Hex([]byte(list(n2, nh+2)))))
			allUsers(bidGroup, nh+1)
			nh++
		}
	}
	// odd moderator strings: unknown names, other letter case, empty names, over-long names, a name cut by the 39-byte field
	odd := []string{"BUDDY/Other", "nobody/buddy", "/buddy//other/", "buddy/other/fill40/fill41/reader", "nobody1/nobody2/nobody3/nobody4/reader",
		"buddyyyyyyyyyyyyy/other", "guest/SYSOP", "", "buddy\x00/other", strings.Repeat("q", 33) + "/other"}
	for i, bm := range odd {
		emit("reset")
		emit(usersLine(defaultTable))
		emit(fmt.Sprintf("resetbm %d %d 0 %s", bidGroup, hidden|A(ptttype.BRD_GROUPBOARD), hx.Hex([]byte("fill40/fill41/other/buddy"))))
		emit(fmt.Sprintf("resetbm %d %d 0 %s", bidTarget, hidden, hx.Hex([]byte(bm))))
		allUsers(bidTarget, i)
		nh++
	}
	// random histories
	nr := 40
	if thorough {
		nr = 1500
	}
	for i := 0; i < nr; i++ {
		emit("reset")
		emit(usersLine(defaultTable))
		live := map[ptttype.Bid]bool{}
		for step := 0; step < 3+run.R.Intn(5); step++ {
			bid := bidTarget
			if run.R.Bool() {
				bid = bidGroup
			}
			if !live[bid] || run.R.Intn(3) == 0 {
				attr := hidden
				if run.R.Intn(4) == 0 {
					attr = 0
				}
				if bid == bidGroup {
					attr |= A(ptttype.BRD_GROUPBOARD)
				}
				emit(fmt.Sprintf("resetbm %d %d %d %s", bid, attr, []uint32{0, bitLacks}[run.R.Intn(2)], hx.Hex([]byte(list(run.R.Intn(6), run.R.Intn(6))))))
				live[bid] = true
				continue
			}
			uid := []int32{2, 3, 4, 5, 40, 41}[run.R.Intn(6)]
			emit(fmt.Sprintf("mread %s %d %d %d %d %d", readEntries[run.R.Intn(len(readEntries))], bid, plain, run.R.Intn(2), uid, run.R.Intn(2)))
		}
		nh++
	}
	run.Extra["moderator_histories"] = nh
}

// heldHistories: a caller keeps the list a listing returned while other callers list; the kept list must stay what it
// was.  ptt layer: hold / later listings / recheck.  bbs layer: a short concurrent stress.
func heldHistories(thorough, bbsLayer bool) {
	P := func(p ptttype.PERM) uint32 { return uint32(p) }
	A := func(a ptttype.BrdAttr) uint32 { return uint32(a) }
	hidden := A(ptttype.BRD_HIDE) | A(ptttype.BRD_POSTMASK)
	if bbsLayer {
		n := 120
		if thorough {
			n = 2500
		}
		for _, b := range [][2]uint32{{hidden, 0}, {0, bitLacks}} {
			emit("reset")
			emit(fmt.Sprintf("setb %d %d %d", bidTarget, b[0], b[1]))
			emit(fmt.Sprintf("stress %d", n))
		}
		return
	}
	plain := P(ptttype.PERM_BASIC) | P(ptttype.PERM_LOGINOK) | bitHas
	type who struct {
		ulevel             uint32
		bmc, friend, named int
	}
	others := []who{{plain | P(ptttype.PERM_SYSOP), 0, 0, 0}, {plain, 1, 0, 0}, {plain, 0, 1, 0}, {plain | P(ptttype.PERM_BOARD), 0, 0, 0}, {plain, 0, 0, 1}}
	call := func(op, fn string, bid ptttype.Bid, w who) string {
		return fmt.Sprintf("%s %s %d %d 0 %d %d %d %d", op, fn, bid, w.ulevel, uidReader, w.bmc, w.friend, w.named)
	}
	fns := []string{"LoadGeneralBoards", "LoadBoardsByBids", "LoadHotBoards"}
	if thorough {
		fns = holdFns
	}
	reps := 2
	if thorough {
		reps = 6
	}
	nh := 0
	for rep := 0; rep < reps; rep++ {
		for _, fn := range fns {
			bid, attr := bidTarget, hidden
			if fn == "LoadFullClassBoards" || fn == "LoadClassBoards" {
				bid, attr = bidGroup, hidden|A(ptttype.BRD_GROUPBOARD)
			}
			for _, board := range [][2]uint32{{attr, 0}, {attr &^ hidden, bitLacks}} {
				for _, o := range others {
					emit("reset")
					emit(fmt.Sprintf("setb %d %d %d", bid, board[0], board[1]))
					// the plain caller's list is kept while a privileged caller lists, and the other way round
					emit(call("hold 0", fn, bid, who{plain, 0, 0, 0}))
					emit(call("list", fn, bid, o))
					emit("recheck 0")
					emit(call("hold 1", fn, bid, o))
					emit(call("list", fn, bid, who{plain, 0, 0, 0}))
					emit("recheck 1")
					emit("recheck 0")
					emit(call("hold 2", fn, bid, who{plain, 0, 0, 0}))
					emit(call("list", "LoadBoardsByBids", bid, o))
					emit(call("list", "LoadGeneralBoards", bid, o))
					emit("recheck 2")
					emit("recheck 1")
					nh++
				}
			}
		}
	}
	run.Extra["held_histories"] = nh
}

// round7Histories: (ptt) the friend list is loaded, the file changes, the cached list ages past its expiry, the caller
// reads / lists; (bbs) multi-board validity queries with ids that name no board before a forbidden and an allowed board.
func round7Histories(thorough, bbsLayer bool) {
	P := func(p ptttype.PERM) uint32 { return uint32(p) }
	A := func(a ptttype.BrdAttr) uint32 { return uint32(a) }
	hidden := A(ptttype.BRD_HIDE) | A(ptttype.BRD_POSTMASK)
	plain := P(ptttype.PERM_BASIC) | P(ptttype.PERM_LOGINOK) | bitHas
	if !bbsLayer {
		entries := append(append([]string{}, readEntries...), "LoadGeneralBoards", "LoadBoardsByBids", "LoadBoardDetail", "LoadBoardSummary")
		k := 0
		for _, attr := range []uint32{hidden, A(ptttype.BRD_HIDE), hidden | A(ptttype.BRD_OVER18)} {
			for load := 0; load < 2; load++ {
				for now := 0; now < 2; now++ {
					for aged := 0; aged < 2; aged++ {
						emit("reset")
						emit(fmt.Sprintf("setb %d %d 0", bidTarget, attr))
						for i, e := range entries {
							if !thorough && attr != hidden && i%3 != k%3 {
								continue
							}
							emit(fmt.Sprintf("fexp %s %d %d 0 %d %d %d", e, bidTarget, plain, load, now, aged))
						}
						// an ordinary read afterwards (fresh list arranged by the harness)
						emit(fmt.Sprintf("read ReadPost %d %d 0 %d 0 %d 0", bidTarget, plain, uidReader, now))
						k++
					}
				}
			}
		}
		return
	}
	// request shapes: ids that name no board (x stale, m number/name mismatch, c wrong case, z number 0) before / between / after
	shapes := []string{"2 3", "x 2 3", "m 2 3", "c 2 3", "z 2 3", "x x 2 3", "2 x 3", "3 x 2", "x 3 2", "x 2", "x", "x m c z", "2 3 x", "x 4 5 2 3", "3 2 3", "x 2 2 3", "5 x 4 m 2 c 3"}
	for _, b := range [][2]uint32{{hidden, 0}, {0, bitLacks}, {A(ptttype.BRD_OVER18), 0}, {0, 0}} {
		emit("reset")
		emit(fmt.Sprintf("setb %d %d %d", bidTarget, b[0], b[1]))
		emit(fmt.Sprintf("setb %d %d %d", bidGroup, b[0]|A(ptttype.BRD_GROUPBOARD), b[1]))
		for _, ul := range []uint32{plain, plain | P(ptttype.PERM_SYSOP)} {
			for _, sh := range shapes {
				emit(fmt.Sprintf("vmulti %d 0 %s", ul, sh))
			}
		}
	}
	n := 60
	if thorough {
		n = 3000
	}
	toks := []string{"2", "3", "4", "5", "x", "m", "c", "z"}
	emit("reset")
	emit(fmt.Sprintf("setb %d %d 0", bidTarget, hidden))
	emit(fmt.Sprintf("setb %d %d %d", bidGroup, A(ptttype.BRD_GROUPBOARD), bitLacks))
	for i := 0; i < n; i++ {
		var sh []string
		for j := 0; j < 1+run.R.Intn(7); j++ {
			sh = append(sh, toks[run.R.Intn(len(toks))])
		}
		emit(fmt.Sprintf("vmulti %d %d %s", plain, run.R.Intn(2), strings.Join(sh, " ")))
	}
}
