package main

// Accounts and moderator lists: who the caller IS (ptt.InitCurrentUser behind every bbs entry point) and who MODERATES
// a board (cache.ResetBoard -> buildBMCache -> ParseBMList), driven as histories.
//
//	users <uid>:<idhex> ...                     installs the user-id table (shared-memory index + .PASSWDS)
//	sread|slist <entry|fn> <spellhex> <storedlevel> <over18> <bid>
//	resetbm <bid> <attr> <level> <bmhex>        rewrites the board's record in .BRD and calls cache.ResetBoard(bid)
//	mread|mlist <entry|fn> <bid> <ulevel> <over18> <uid> <friend>
//
// The oracle part of this file resolves spellings and moderator strings with its own code (case folding, split on '/').

import (
	"bytes"
	"os"
	"strings"

	"github.com/Ptt-official-app/go-pttbbs/cache"
	"github.com/Ptt-official-app/go-pttbbs/cmbbs"
	"github.com/Ptt-official-app/go-pttbbs/ptttype"
)

var (
	defaultTable = map[int32]string{1: "SYSOP", int32(uidReader): readerName, int32(uidBuddy): "buddy", 4: "other", 5: "guest",
		int32(uidFiller): "fill40", int32(uidFiller) + 1: "fill41"}
	curTable      = map[int32]string{}
	tableDeclared bool
	tableChanged  bool
	modState      = map[ptttype.Bid][]byte{} // bid -> moderator string of the last resetbm still in force
)

const oAdminPerm = 0o177777 // what the site administrator account is given: the sixteen lowest permission bits (BASIC … BBSADM)

func defaultLevel() ptttype.PERM {
	return ptttype.PERM_DEFAULT | ptttype.PERM_LOGINOK | ptttype.PERM_POST
}

func applyTable(tbl map[int32]string) {
	var pw bytes.Buffer
	for i := int32(1); i <= int32(ptttype.MAX_USERS); i++ {
		u := &ptttype.UserecRaw{}
		id := &ptttype.UserID_t{}
		if name, ok := tbl[i]; ok {
			copy(id[:], name)
			u.UserID = *id
			u.Version = ptttype.PASSWD_VERSION
			u.UserLevel = defaultLevel()
			copy(u.Nickname[:], "nick")
		}
		if err := cache.SetUserID(ptttype.UID(i), id); err != nil {
			fatalf("SetUserID(%d): %v", i, err)
		}
		pw.Write(le(u))
	}
	if err := os.WriteFile(ptttype.FN_PASSWD, pw.Bytes(), 0o644); err != nil {
		fatalf("%v", err)
	}
	curTable = map[int32]string{}
	for k, v := range tbl {
		curTable[k] = v
	}
	friendNow = map[ptttype.Bid]int{}
	friendOnly = map[ptttype.Bid]string{}
	modState = map[ptttype.Bid][]byte{}
}

func sameTable(a, b map[int32]string) bool {
	if len(a) != len(b) {
		return false
	}
	for k, v := range a {
		if b[k] != v {
			return false
		}
	}
	return true
}

// resetAccounts: `reset` forgets the declared table; a table other than the fixture's is replaced by the fixture's.
func resetAccounts() {
	tableDeclared = false
	modState = map[ptttype.Bid][]byte{}
	if tableChanged {
		applyTable(defaultTable)
		tableChanged = false
	}
}

func foldASCII(b []byte) string {
	out := make([]byte, len(b))
	for i, c := range b {
		if c >= 'A' && c <= 'Z' {
			c += 32
		}
		out[i] = c
	}
	return string(out)
}

func parseUsers(ws []string) (map[int32]string, bool) {
	if len(ws) == 0 || len(ws) > 50 {
		return nil, false
	}
	tbl := map[int32]string{}
	folded := map[string]bool{}
	for _, t := range ws {
		parts := strings.Split(t, ":")
		if len(parts) != 2 {
			return nil, false
		}
		uid, ok1 := parseI32(parts[0])
		id, ok2 := parseHex(parts[1], 12)
		if !ok1 || !ok2 || uid < 1 || uid > int32(ptttype.MAX_USERS) || len(id) < 2 {
			return nil, false
		}
		if !(id[0] >= 'A' && id[0] <= 'Z' || id[0] >= 'a' && id[0] <= 'z') {
			return nil, false
		}
		for _, c := range id {
			if !oAlnum(c) {
				return nil, false
			}
		}
		if _, dup := tbl[uid]; dup || folded[foldASCII(id)] {
			return nil, false
		}
		tbl[uid] = string(id)
		folded[foldASCII(id)] = true
	}
	return tbl, true
}

// ---- the oracle's own reading -----------------------------------------------------------------------

// oracleResolve: which account a client-supplied id designates: ids are compared without regard to letter case.
func oracleResolve(spell []byte) (uid int32, id string, ok bool) {
	if len(spell) > 13 {
		spell = spell[:13]
	}
	name := foldASCII(cstrBytes(spell))
	if name == "" {
		return 0, "", false
	}
	for u, s := range curTable {
		if foldASCII([]byte(s)) == name {
			return u, s, true
		}
	}
	return 0, "", false
}

// a user id as the bbs boundary admits it: 2..12 characters, a letter first, letters and digits only
func oracleSpellingOK(spell []byte) bool {
	if len(spell) > 13 {
		spell = spell[:13]
	}
	s := cstrBytes(spell)
	if len(s) < 2 || len(s) > 12 || !(s[0] >= 'A' && s[0] <= 'Z' || s[0] >= 'a' && s[0] <= 'z') {
		return false
	}
	for _, c := range s {
		if !oAlnum(c) {
			return false
		}
	}
	return true
}

// the permissions an account acts with: the built-in accounts do not act with their stored bits
func oracleEffective(id string, stored uint32) uint32 {
	switch id {
	case "guest":
		return 0
	case "SYSOP":
		return oAdminPerm
	}
	return stored
}

// oracleMods: the moderators of a board are the first four accounts named in ITS moderator string
func oracleMods(bm []byte) []int32 {
	var out []int32
	for _, name := range bytes.Split(cstrBytes(bm), []byte{'/'}) {
		if len(out) >= 4 {
			break
		}
		if len(name) > 13 {
			name = name[:13]
		}
		if u, _, ok := oracleResolve(name); ok {
			out = append(out, u)
		}
	}
	return out
}

// ---- the ops ----------------------------------------------------------------------------------------------------

func writeBoardRecord(bid ptttype.Bid, attr, level uint32, bm []byte) {
	h := &ptttype.BoardHeaderRaw{}
	copy(h.Brdname[:], boardNames[bid])
	copy(h.Title[:], titleText)
	h.Gid = bidRoot
	h.BrdAttr = ptttype.BrdAttr(attr)
	h.Level = ptttype.PERM(level)
	copy(h.BM[:], bm)
	f, err := os.OpenFile(ptttype.FN_BOARD, os.O_WRONLY, 0o644)
	if err != nil {
		fatalf("%v", err)
	}
	defer f.Close()
	if _, err := f.WriteAt(le(h), int64(bid.ToBidInStore())*int64(ptttype.BOARD_HEADER_RAW_SZ)); err != nil {
		fatalf("%v", err)
	}
}

func execAccounts(ws []string) (out, label string, nontrivial bool, fails []fail) {
	bad := func() (string, string, bool, []fail) { return "bad-op", "malformed", false, nil }
	switch ws[0] {
	case "users":
		tbl, ok := parseUsers(ws[1:])
		if !ok {
			return bad()
		}
		if !sameTable(tbl, curTable) {
			applyTable(tbl)
			tableChanged = !sameTable(tbl, defaultTable)
		}
		modState = map[ptttype.Bid][]byte{}
		tableDeclared = true
		return "ok", "users", false, nil
	case "sread", "slist":
		if len(ws) != 6 || ws[0] == "sread" && !isIn(ws[1], readEntries) || ws[0] == "slist" && !isIn(ws[1], listFns) {
			return bad()
		}
		spell, ok1 := parseHex(ws[2], 20)
		stored, ok2 := parseU32(ws[3])
		over18, ok3 := parseBool(ws[4])
		bidv, ok4 := parseI32(ws[5])
		bid := ptttype.Bid(bidv)
		if !(ok1 && ok2 && ok3 && ok4) || !tableDeclared || (bid != bidTarget && bid != bidGroup) || !boardsSet[bid] {
			return bad()
		}
		uid, id, found := oracleResolve(spell)
		pre := &facts{over18: over18, who: "nobody", expectErr: true}
		if found {
			// the record that will be loaded carries the stored bits
			rec := mkUser(stored, over18, []byte(id))
			if err := cmbbs.PasswdUpdate(ptttype.UID(uid), rec); err != nil {
				fatalf("PasswdUpdate: %v", err)
			}
			pre = &facts{ulevel: oracleEffective(id, stored), over18: over18, uid: uid, who: id}
			if *layer == "bbs" {
				pre.expectErr = !oracleSpellingOK(spell)
			}
		}
		a := callArgs{mode: "s", spell: spell, bid: bid, nameBid: bid, ulevel: stored, over18: over18, uid: ptttype.UID(uid), pre: pre}
		kind := map[string]string{"sread": "read", "slist": "list"}[ws[0]]
		return execCall(kind, ws[1], a)
	case "resetbm":
		if len(ws) != 5 || !tableDeclared {
			return bad()
		}
		bidv, ok1 := parseI32(ws[1])
		attr, ok2 := parseU32(ws[2])
		level, ok3 := parseU32(ws[3])
		bm, ok4 := parseHex(ws[4], 39)
		bid := ptttype.Bid(bidv)
		if !(ok1 && ok2 && ok3 && ok4) || (bid != bidTarget && bid != bidGroup) {
			return bad()
		}
		writeBoardRecord(bid, attr, level, bm)
		if err := cache.ResetBoard(bid); err != nil {
			fatalf("ResetBoard(%d): %v", bid, err)
		}
		// as the only production caller (ptt.addBoardRecord) does: ResetBoard reloads the record from .BRD,
		// which wipes the slot's sibling link; the re-sort makes every class resolve its children again
		// (since /repo ebc3be0 a resolved class keeps its child count, so a stale chain is no longer
		// silently rebuilt on every listing)
		cache.SortBCache()
		boardsSet[bid] = true
		modState[bid] = bm
		return "ok", "resetbm", false, nil
	case "mread", "mlist":
		if len(ws) != 7 || *layer == "bbs" || ws[0] == "mread" && !isIn(ws[1], readEntries) || ws[0] == "mlist" && !isIn(ws[1], listFns) {
			return bad()
		}
		bidv, ok1 := parseI32(ws[2])
		ulevel, ok2 := parseU32(ws[3])
		over18, ok3 := parseBool(ws[4])
		uid, ok5 := parseI32(ws[5])
		friend, ok6 := parseBool(ws[6])
		bid := ptttype.Bid(bidv)
		if !(ok1 && ok2 && ok3 && ok5 && ok6) || !tableDeclared {
			return bad()
		}
		bm, live := modState[bid]
		id, inTable := curTable[uid]
		if !live || !inTable || !boardsSet[bid] {
			return bad()
		}
		if friend && foldASCII([]byte(id)) == "guest" {
			return bad() // the friend-file loader skips the guest account: the fact cannot be arranged
		}
		mods := oracleMods(bm)
		isMod := false
		for _, m := range mods {
			isMod = isMod || m == uid
		}
		pre := &facts{ulevel: ulevel, over18: over18, uid: uid, bmCache: isMod, friend: friend, named: oracleNamed([]byte(id), bm), mods: mods}
		a := callArgs{mode: "m", bid: bid, nameBid: bid, ulevel: ulevel, over18: over18, uid: ptttype.UID(uid), friend: friend,
			rawID: []byte(id), rawBM: bm, pre: pre}
		kind := map[string]string{"mread": "read", "mlist": "list"}[ws[0]]
		return execCall(kind, ws[1], a)
	}
	return bad()
}
