// c07: correspondence harness and property oracle for board read access (property C07).
//
// Every row of the decision table (user facts x board facts x relation facts) is materialised on a private BBSHOME
// and SysV segment (fixture.go) and driven through EVERY read entry point and EVERY listing / summary function of
// package ptt (layer "ptt") or of package bbs (layer "bbs", thorough), in both orders "read first, then list" and
// "list first, then read" (the listing side can set BRD_POSTMASK in the shared board cache).
//
// op lines (one history per row, `reset` first):
//
//	consts
//	reset
//	setb <bid> <attr> <level>
//	read <entry> <bid> <ulevel> <over18> <uid> <bmcache> <friend> <named>
//	list <fn>    <bid> <ulevel> <over18> <uid> <bmcache> <friend> <named>
//	xread <entry> <bid> <namebid> <ulevel> <over18> <uid> <bmcache> <friend> <named>
//	      the entry point gets the NUMBER of board <bid> and the NAME of board <namebid> (layer bbs: the text "<bid>_<name>")
//
// answers:  consts: NAME=value ...   reset/setb: ok
//
//	read : allow | deny | err:invalid-bid | err:other | PANIC      + " attr=<current attr word of the board>"
//	list : absent | title | masked | err:invalid-bid | PANIC       + " attr=<...>"
//
// The oracle (oracle.go) judges the implementation's answer against `mayRead` evaluated on the board's attributes
// as they are in the shared cache immediately BEFORE the call.
package main

import (
	"bytes"
	"errors"
	"flag"
	"fmt"
	"strconv"
	"strings"

	"github.com/Ptt-official-app/go-pttbbs/bbs"
	"github.com/Ptt-official-app/go-pttbbs/cache"
	"github.com/Ptt-official-app/go-pttbbs/cmbbs"
	"github.com/Ptt-official-app/go-pttbbs/ptt"
	"github.com/Ptt-official-app/go-pttbbs/ptttype"
	"verifharness/internal/bbsenv"
	"verifharness/internal/hx"
)

var (
	run   *hx.Run
	env   *bbsenv.Env
	layer = flag.String("layer", "ptt", "ptt|bbs")
)

var readEntries = []string{"IsBoardValidUser", "LoadGeneralArticles", "LoadBottomArticles", "FindArticleStartIdx", "ReadPost", "ReadPostTemplate"}
var listFns = []string{"LoadGeneralBoards", "LoadAutoCompleteBoards", "LoadBoardsByBids", "LoadHotBoards", "LoadBoardSummary",
	"LoadFullClassBoards", "LoadClassBoards", "LoadBoardDetail"}

func isIn(s string, l []string) bool {
	for _, x := range l {
		if x == s {
			return true
		}
	}
	return false
}

// ---- token syntax (the Lean driver implements the same rules) ---------------------------------

func parseU32(s string) (uint32, bool) {
	if len(s) == 0 || len(s) > 10 {
		return 0, false
	}
	for i := 0; i < len(s); i++ {
		if s[i] < '0' || s[i] > '9' {
			return 0, false
		}
	}
	v, err := strconv.ParseUint(s, 10, 64)
	if err != nil || v > 0xffffffff {
		return 0, false
	}
	return uint32(v), true
}

func parseI32(s string) (int32, bool) {
	neg := strings.HasPrefix(s, "-")
	v, ok := parseU32(strings.TrimPrefix(s, "-"))
	if !ok {
		return 0, false
	}
	if neg {
		if v > 1<<31 || s == "-" {
			return 0, false
		}
		return int32(-int64(v)), true
	}
	if v > 1<<31-1 {
		return 0, false
	}
	return int32(v), true
}

// parseHex: "-" or an even number of lowercase/uppercase hex digits, at most max bytes; never nil
func parseHex(s string, max int) ([]byte, bool) {
	if s == "-" {
		return []byte{}, true
	}
	if len(s)%2 != 0 || len(s) > 2*max {
		return nil, false
	}
	out := make([]byte, 0, len(s)/2)
	for i := 0; i < len(s); i += 2 {
		v, err := strconv.ParseUint(s[i:i+2], 16, 8)
		if err != nil || strings.ContainsAny(s[i:i+2], "+-") {
			return nil, false
		}
		out = append(out, byte(v))
	}
	return out, true
}

func parseBool(s string) (bool, bool) {
	switch s {
	case "0":
		return false, true
	case "1":
		return true, true
	}
	return false, false
}

// ---- the calls ------------------------------------------------------------------------------------

type fail struct{ key, what string }

type callArgs struct {
	nameBid           ptttype.Bid // the board whose NAME is handed to the entry point (= bid unless xread)
	bid               ptttype.Bid
	ulevel            uint32
	over18            bool
	uid               ptttype.UID
	bmc, friend, name bool
	busy              bool   // xreadb: Shm.BBusyState raised during the call
	rawID, rawBM      []byte // nlist / m-ops: user id and moderator string byte for byte (nil otherwise)
	nl                bool   // nlist judgement
	spell             []byte // s-ops: the caller's id as the client spelled it
	mode              string // "" decision table, "s" caller resolved by InitCurrentUser, "m" moderator facts left by the resetbm history
	pre               *facts // s/m-ops: the oracle's facts, computed by accounts.go
}

func nameOf(bid ptttype.Bid) *ptttype.BoardID_t {
	n := &ptttype.BoardID_t{}
	if s, ok := boardNames[bid]; ok {
		copy(n[:], s)
	} else {
		copy(n[:], boardNames[bidTarget])
	}
	return n
}

func fn(s string) *ptttype.Filename_t {
	f := &ptttype.Filename_t{}
	copy(f[:], s)
	return f
}

func errClass(err error) string {
	switch {
	case err == nil:
		return "allow"
	case errors.Is(err, ptt.ErrNotPermitted):
		return "deny"
	case spellMode && (errors.Is(err, bbs.ErrInvalidParams) || errors.Is(err, bbs.ErrInvalidUUserID) || errors.Is(err, ptttype.ErrInvalidUserID)):
		return "err:user"
	case errors.Is(err, ptttype.ErrInvalidBid), errors.Is(err, bbs.ErrInvalidBBoardID), errors.Is(err, bbs.ErrInvalidParams):
		return "err:invalid-bid"
	}
	return "err:other"
}

// the caller as the bbs wrappers get it: the client's own spelling for the s-ops, the fixture's reader otherwise
func uuserOf(a callArgs) bbs.UUserID {
	if a.spell != nil {
		return bbs.UUserID(string(a.spell))
	}
	return bbs.UUserID(readerName)
}

func bboard(bid, nameBid ptttype.Bid) bbs.BBoardID {
	return bbs.BBoardID(strconv.Itoa(int(bid)) + "_" + string(bytes.TrimRight(nameOf(nameBid)[:], "\x00")))
}

// doRead runs one read entry point; "allow" means the expected content came back.
func doRead(entry string, a callArgs, user *ptttype.UserecRaw) string {
	name := nameOf(a.nameBid)
	wrong := func(what string) string { return "err:other" }
	if *layer == "bbs" {
		switch entry {
		case "IsBoardValidUser":
			ok, err := bbs.IsBoardValidUser(uuserOf(a), bboard(a.bid, a.nameBid))
			if err != nil {
				return errClass(err)
			}
			if ok {
				return "allow"
			}
			return "deny"
		case "LoadGeneralArticles":
			s, _, _, _, _, err := bbs.LoadGeneralArticles(uuserOf(a), bboard(a.bid, a.nameBid), "", 10, true)
			if err != nil {
				return errClass(err)
			}
			if len(s) != 2 {
				return wrong("n")
			}
			return "allow"
		case "LoadBottomArticles":
			s, err := bbs.LoadBottomArticles(uuserOf(a), bboard(a.bid, a.nameBid))
			if err != nil {
				return errClass(err)
			}
			if len(s) != 1 {
				return wrong("n")
			}
			return "allow"
		case "FindArticleStartIdx":
			// the cursor form of the article list: FindArticleStartIdx, then LoadGeneralArticles
			cursor := strconv.Itoa(art1Time) + "@" + string(bbs.ToArticleID(fn(art1)))
			s, _, _, _, _, err := bbs.LoadGeneralArticles(uuserOf(a), bboard(a.bid, a.nameBid), cursor, 10, false)
			if err != nil {
				return errClass(err)
			}
			if len(s) != 2 {
				return wrong("n")
			}
			return "allow"
		case "ReadPost":
			c, _, _, err := bbs.GetArticle(uuserOf(a), bboard(a.bid, a.nameBid), bbs.ToArticleID(fn(art1)), 0, false)
			if err != nil {
				return errClass(err)
			}
			if string(c) != artBody {
				return wrong("body")
			}
			return "allow"
		case "ReadPostTemplate":
			c, _, _, err := bbs.GetPostTemplate(uuserOf(a), bboard(a.bid, a.nameBid), 1, 0, false)
			if err != nil {
				return errClass(err)
			}
			if string(c) != tmplBody {
				return wrong("body")
			}
			return "allow"
		}
		return "err:other"
	}
	switch entry {
	case "IsBoardValidUser":
		ok, err := ptt.IsBoardValidUser(user, a.uid, name, a.bid)
		if err != nil {
			return errClass(err)
		}
		if ok {
			return "allow"
		}
		return "deny"
	case "LoadGeneralArticles":
		s, _, _, _, err := ptt.LoadGeneralArticles(user, a.uid, name, a.bid, 0, 10, true)
		if err != nil {
			return errClass(err)
		}
		if len(s) != 2 {
			return wrong("n")
		}
		return "allow"
	case "LoadBottomArticles":
		s, err := ptt.LoadBottomArticles(user, a.uid, name, a.bid)
		if err != nil {
			return errClass(err)
		}
		if len(s) != 1 {
			return wrong("n")
		}
		return "allow"
	case "FindArticleStartIdx":
		idx, err := ptt.FindArticleStartIdx(user, a.uid, name, a.bid, art1Time, fn(art1), true)
		if err != nil {
			return errClass(err)
		}
		if idx != 1 {
			return wrong("idx")
		}
		return "allow"
	case "ReadPost":
		c, _, _, err := ptt.ReadPost(user, a.uid, name, a.bid, fn(art1), 0, false)
		if err != nil {
			return errClass(err)
		}
		if string(c) != artBody {
			return wrong("body")
		}
		return "allow"
	case "ReadPostTemplate":
		c, _, _, err := ptt.ReadPostTemplate(user, a.uid, name, a.bid, 1, 0, false)
		if err != nil {
			return errClass(err)
		}
		if string(c) != tmplBody {
			return wrong("body")
		}
		return "allow"
	}
	return "err:other"
}

func rawShape(bid ptttype.Bid, ss []*ptttype.BoardSummaryRaw, next *ptttype.BoardSummaryRaw) string {
	if next != nil {
		ss = append(ss[:len(ss):len(ss)], next)
	}
	for _, s := range ss {
		if s != nil && s.Bid == bid {
			if s.Title != nil && strings.HasPrefix(string(s.Title[:]), titleText) {
				return "title"
			}
			return "masked"
		}
	}
	return "absent"
}

func bbsShape(bid ptttype.Bid, ss []*bbs.BoardSummary) string {
	for _, s := range ss {
		if s != nil && s.Bid == bid {
			if strings.Contains(string(s.RealTitle), "secret title") {
				return "title"
			}
			return "masked"
		}
	}
	return "absent"
}

func doList(f string, a callArgs, user *ptttype.UserecRaw) string {
	bids := []ptttype.Bid{a.bid, bidPlain, 0}
	if *layer == "bbs" {
		var ss []*bbs.BoardSummary
		var err error
		switch f {
		case "LoadGeneralBoards":
			ss, _, err = bbs.LoadGeneralBoards(uuserOf(a), "", 100, nil, nil, true, ptttype.BSORT_BY_NAME)
		case "LoadAutoCompleteBoards":
			ss, _, err = bbs.LoadAutoCompleteBoards(uuserOf(a), "", 100, "T", true)
		case "LoadBoardsByBids":
			ss, err = bbs.LoadBoardsByBids(uuserOf(a), bids)
		case "LoadHotBoards":
			ss, err = bbs.LoadHotBoards(uuserOf(a))
		case "LoadFullClassBoards":
			ss, _, err = bbs.LoadFullClassBoards(uuserOf(a), 1, 100)
		case "LoadClassBoards":
			ss, err = bbs.LoadClassBoards(uuserOf(a), bidRoot, ptttype.BSORT_BY_CLASS)
		case "LoadBoardSummary":
			var s *bbs.BoardSummary
			s, err = bbs.LoadBoardSummary(uuserOf(a), bboard(a.bid, a.bid))
			ss = []*bbs.BoardSummary{s}
		case "LoadBoardDetail":
			var d *bbs.BoardDetail
			d, err = bbs.LoadBoardDetail(uuserOf(a), bboard(a.bid, a.bid))
			if errors.Is(err, ptt.ErrNotPermitted) {
				return "absent"
			}
			if err != nil {
				return errClass(err)
			}
			if d != nil && strings.Contains(string(d.RealTitle), "secret title") {
				return "title"
			}
			return "masked"
		default:
			return "err:other"
		}
		if err != nil {
			return errClass(err)
		}
		return bbsShape(a.bid, ss)
	}
	var ss []*ptttype.BoardSummaryRaw
	var next *ptttype.BoardSummaryRaw
	var err error
	switch f {
	case "LoadGeneralBoards":
		ss, next, err = ptt.LoadGeneralBoards(user, a.uid, 1, 100, nil, nil, true, ptttype.BSORT_BY_NAME)
	case "LoadAutoCompleteBoards":
		kw := []byte("T")
		start, e := ptt.FindBoardAutoCompleteStartIdx(kw, true)
		if e != nil {
			return "err:other"
		}
		ss, next, err = ptt.LoadAutoCompleteBoards(user, a.uid, start, 100, kw, true)
	case "LoadBoardsByBids":
		ss, err = ptt.LoadBoardsByBids(user, a.uid, bids)
	case "LoadHotBoards":
		ss, err = ptt.LoadHotBoards(user, a.uid)
	case "LoadFullClassBoards":
		ss, next, err = ptt.LoadFullClassBoards(user, a.uid, 1, 100)
	case "LoadClassBoards":
		ss, err = ptt.LoadClassBoards(user, a.uid, bidRoot, ptttype.BSORT_BY_CLASS)
	case "LoadBoardSummary":
		var s *ptttype.BoardSummaryRaw
		s, err = ptt.LoadBoardSummary(user, a.uid, a.bid)
		ss = []*ptttype.BoardSummaryRaw{s}
	case "LoadBoardDetail":
		d, e := ptt.LoadBoardDetail(user, a.uid, a.bid)
		if errors.Is(e, ptt.ErrNotPermitted) {
			return "absent"
		}
		if e != nil {
			return errClass(e)
		}
		if d != nil && d.BoardHeaderRaw != nil && strings.HasPrefix(string(d.BoardHeaderRaw.Title[:]), titleText) {
			return "title"
		}
		return "masked"
	default:
		return "err:other"
	}
	if err != nil {
		return errClass(err)
	}
	lastRaw, lastNext = ss, next // the list exactly as returned (hold ops keep it)
	return rawShape(a.bid, ss, next)
}

var (
	lastRaw  []*ptttype.BoardSummaryRaw
	lastNext *ptttype.BoardSummaryRaw
)

// ---- executing one op line -------------------------------------------------------------------------

var boardsSet = map[ptttype.Bid]bool{}
var opCount int

func constsLine() string {
	kv := []struct {
		k string
		v uint64
	}{
		{"PERM_BASIC", uint64(ptttype.PERM_BASIC)}, {"PERM_LOGINOK", uint64(ptttype.PERM_LOGINOK)}, {"PERM_BM", uint64(ptttype.PERM_BM)},
		{"PERM_BOARD", uint64(ptttype.PERM_BOARD)}, {"PERM_SYSOP", uint64(ptttype.PERM_SYSOP)}, {"PERM_POLICE_MAN", uint64(ptttype.PERM_POLICE_MAN)},
		{"PERM_POLICE", uint64(ptttype.PERM_POLICE)}, {"BRD_GROUPBOARD", uint64(ptttype.BRD_GROUPBOARD)}, {"BRD_HIDE", uint64(ptttype.BRD_HIDE)},
		{"BRD_POSTMASK", uint64(ptttype.BRD_POSTMASK)}, {"BRD_SYMBOLIC", uint64(ptttype.BRD_SYMBOLIC)}, {"BRD_OVER18", uint64(ptttype.BRD_OVER18)},
		{"NBRD_INVALID", uint64(ptttype.NBRD_INVALID)}, {"NBRD_FAV", uint64(ptttype.NBRD_FAV)}, {"NBRD_BOARD", uint64(ptttype.NBRD_BOARD)},
		{"NBRD_LINE", uint64(ptttype.NBRD_LINE)}, {"NBRD_FOLDER", uint64(ptttype.NBRD_FOLDER)},
		{"MAX_BOARD", uint64(ptttype.MAX_BOARD)}, {"MAX_USERS", uint64(ptttype.MAX_USERS)},
	}
	var sb strings.Builder
	for i, e := range kv {
		if i > 0 {
			sb.WriteByte(' ')
		}
		fmt.Fprintf(&sb, "%s=%d", e.k, e.v)
	}
	fmt.Fprintf(&sb, " REALDESC=%v", ptttype.USE_REAL_DESC_FOR_HIDDEN_BOARD_IN_MYFAV)
	return sb.String()
}

func exec(line string) (out, label string, nontrivial bool, fails []fail) {
	ws := strings.Fields(line)
	bad := func() (string, string, bool, []fail) { return "bad-op", "malformed", false, nil }
	if len(ws) == 0 {
		return bad()
	}
	switch ws[0] {
	case "consts":
		if len(ws) != 1 {
			return bad()
		}
		return constsLine(), "consts", false, nil
	case "reset":
		if len(ws) != 1 {
			return bad()
		}
		for b := range boardsSet {
			setBoard(b, 0, 0)
		}
		boardsSet = map[ptttype.Bid]bool{}
		held = map[uint32]*heldList{}
		resetAccounts()
		return "ok", "reset", false, nil
	case "setb":
		if len(ws) != 4 {
			return bad()
		}
		bid, ok1 := parseI32(ws[1])
		attr, ok2 := parseU32(ws[2])
		level, ok3 := parseU32(ws[3])
		if !ok1 || !ok2 || !ok3 || (ptttype.Bid(bid) != bidTarget && ptttype.Bid(bid) != bidGroup) {
			return bad()
		}
		setBoard(ptttype.Bid(bid), attr, level)
		boardsSet[ptttype.Bid(bid)] = true
		return "ok", "setb", false, nil
	case "nlist":
		// nlist <fn> <bid> <ulevel> <over18> <uid> <bmcache> <friend> <idhex> <bmhex>
		if len(ws) != 10 || *layer == "bbs" || !isIn(ws[1], listFns) {
			return bad()
		}
		id, ok1 := parseHex(ws[8], 13)
		bm, ok2 := parseHex(ws[9], 39)
		if !ok1 || !ok2 {
			return bad()
		}
		rest := append(append([]string{"list"}, ws[1:8]...), "0")
		out, label, nontrivial, fails = execReadNL(rest, id, bm)
		return
	case "users", "sread", "slist", "resetbm", "mread", "mlist":
		return execAccounts(ws)
	case "hold", "recheck", "stress":
		return execHeld(ws)
	case "fexp", "vmulti":
		return execR7(ws)
	case "xread", "xreadb":
		if len(ws) != 10 || !isIn(ws[1], readEntries) {
			return bad()
		}
		nb, ok := parseI32(ws[3])
		if !ok || (ptttype.Bid(nb) != bidTarget && ptttype.Bid(nb) != bidPlain && ptttype.Bid(nb) != bidGroup) {
			return bad()
		}
		rest := append([]string{"read", ws[1], ws[2]}, ws[4:]...)
		return execRead(rest, ptttype.Bid(nb), ws[0] == "xreadb", nil, nil)
	case "read", "list":
		return execRead(ws, 0, false, nil, nil)
	}
	return bad()
}

func execReadNL(ws []string, id, bm []byte) (string, string, bool, []fail) {
	nlNext = true
	defer func() { nlNext = false }()
	return execRead(ws, 0, false, id, bm)
}

var nlNext bool

// execRead: a read/list op; nameBid != 0 marks an xread (the name handed over is that board's).
func execRead(ws []string, nameBid ptttype.Bid, busy bool, rawID, rawBM []byte) (out, label string, nontrivial bool, fails []fail) {
	bad := func() (string, string, bool, []fail) { return "bad-op", "malformed", false, nil }
	{
		if len(ws) != 9 {
			return bad()
		}
		bidv, ok1 := parseI32(ws[2])
		ulevel, ok2 := parseU32(ws[3])
		over18, ok3 := parseBool(ws[4])
		uidv, ok4 := parseI32(ws[5])
		bmc, ok5 := parseBool(ws[6])
		friend, ok6 := parseBool(ws[7])
		named, ok7 := parseBool(ws[8])
		if !(ok1 && ok2 && ok3 && ok4 && ok5 && ok6 && ok7) {
			return bad()
		}
		if ws[0] == "read" && !isIn(ws[1], readEntries) || ws[0] == "list" && !isIn(ws[1], listFns) {
			return bad()
		}
		a := callArgs{nl: nlNext, busy: busy, rawID: rawID, rawBM: rawBM, nameBid: ptttype.Bid(bidv), bid: ptttype.Bid(bidv), ulevel: ulevel, over18: over18, uid: ptttype.UID(uidv), bmc: bmc, friend: friend, name: named}
		// a valid bid must have been configured in this history; the friend fact needs the account that can be listed
		if nameBid != 0 {
			// xread: both boards exist; the public control board is always configured (attr 0, level 0)
			a.nameBid = nameBid
			if a.bid != bidTarget && a.bid != bidPlain && a.bid != bidGroup {
				return bad()
			}
			if a.bid != bidPlain && !boardsSet[a.bid] {
				return bad()
			}
		} else if a.bid.IsValid() && !boardsSet[a.bid] {
			return bad()
		}
		if friend && a.uid != uidReader {
			return bad()
		}
		if *layer == "bbs" && a.uid != uidReader {
			return bad()
		}
		return execCall(ws[0], ws[1], a)
	}
}

func execCall(kind, entry string, a callArgs) (out, label string, nontrivial bool, fails []fail) {
	opCount++
	user := mkUser(a.ulevel, a.over18, a.rawID)
	var f facts
	known := a.bid.IsValid()
	preRes := ""
	switch a.mode {
	case "s":
		// the caller is whoever InitCurrentUser makes of the spelling; no moderator, no friend, nobody named
		setRelation(a.bid, a.uid, false, false, false, 0, []byte{})
		delete(modState, a.bid)
		f = *a.pre
		f.attr, f.blevel = boardNow(a.bid)
		if *layer != "bbs" {
			raw := &ptttype.UserID_t{}
			copy(raw[:], a.spell)
			preRes = hx.CallSync(func() string {
				uid, u, err := ptt.InitCurrentUser(raw)
				if err != nil {
					return "err:user"
				}
				a.uid, user = uid, u
				return ""
			})
		}
	case "f":
		// fexp arranged the cached friend list, the file and the load time itself: nobody moderates, nobody is named
		idx := a.bid.ToBidInStore()
		for k := range cache.Shm.Shm.BMCache[idx] {
			cache.Shm.Shm.BMCache[idx][k] = uidFiller
		}
		cache.Shm.Shm.BCache[idx].BM = ptttype.BM_t{}
		delete(modState, a.bid)
		f = *a.pre
		f.attr, f.blevel = boardNow(a.bid)
	case "m":
		// moderator cache and moderator string are what the resetbm history left; only the friend file is arranged
		setFriendOnly(a.bid, a.friend, a.rawID)
		f = *a.pre
		f.attr, f.blevel = boardNow(a.bid)
	default:
		if known {
			setRelation(a.bid, a.uid, a.bmc, a.friend, a.name, opCount/13, a.rawBM)
			delete(modState, a.bid)
			if a.nl {
				a.name = oracleNamed(a.rawID, a.rawBM) // the oracle's own reading of "named moderator"
			}
			attr, blevel := boardNow(a.bid)
			f = facts{ulevel: a.ulevel, over18: a.over18, uid: int32(a.uid), attr: attr, blevel: blevel, bmCache: a.bmc, friend: a.friend, named: a.name}
		}
		if *layer == "bbs" {
			// the bbs layer loads the account from .PASSWDS
			if err := cmbbs.PasswdUpdate(uidReader, user); err != nil {
				fatalf("PasswdUpdate: %v", err)
			}
		}
	}
	var res string
	if a.busy {
		// the board table is marked busy (a reload / sort in another process) for the duration of the call
		cache.Shm.Shm.BBusyState = 1
		defer func() { cache.Shm.Shm.BBusyState = 0 }()
	}
	spellMode = a.mode == "s"
	switch {
	case preRes != "":
		res = preRes
	case kind == "read":
		res = hx.CallSync(func() string { return doRead(entry, a, user) })
	default:
		res = hx.CallSync(func() string { return doList(entry, a, user) })
	}
	spellMode = false
	attrAfter := "-"
	if known {
		at, _ := boardNow(a.bid)
		attrAfter = strconv.FormatUint(uint64(at), 10)
	}
	out = res + " attr=" + attrAfter
	label = kind + ":" + res
	if !known {
		if res == "PANIC" {
			fails = append(fails, fail{"crash:" + entry, "panic on an invalid board id: " + hx.LastPanic})
		}
		return out, label + ":invalid-bid", true, fails
	}
	allow, branch := f.mayRead()
	label = kind + ":" + res + ":" + branch
	if at, _ := boardNow(a.bid); at != f.attr {
		label += ":mutated"
	}
	desc := fmt.Sprintf("%s ulevel=%#o over18=%v uid=%d board attr=%#x level=%#o bmcache=%v friend=%v named=%v: rule says %v (%s), implementation says %s",
		entry, a.ulevel, a.over18, a.uid, f.attr, f.blevel, a.bmc, a.friend, a.name, allow, branch, res)
	if res == "PANIC" {
		fails = append(fails, fail{"crash:" + entry, desc + " — " + hx.LastPanic})
		return out, label, true, fails
	}
	if a.mode == "s" {
		desc = fmt.Sprintf("caller spelled %q, resolves to %s: ", a.spell, a.pre.who) + desc
		label = "s" + label
		if a.pre.expectErr {
			label = "s" + kind + ":" + res + ":no-such-user"
			if res != "err:user" && res != "PANIC" {
				fails = append(fails, fail{"user:unknown-accepted", desc})
			}
			return out, label, true, fails
		}
		if res == "err:user" {
			fails = append(fails, fail{"user:refused", desc})
			return out, label, true, fails
		}
	}
	if a.mode == "m" {
		desc = fmt.Sprintf("moderator string %q (own moderators by the oracle: %v), after the history: ", cstrBytes(a.rawBM), a.pre.mods) + desc
		label = "m" + label
	}
	if kind == "read" && a.nameBid != a.bid {
		label = "xread:" + res + ":" + branch
		if a.busy {
			label = "xread-busy:" + res + ":" + branch
		}
		// the number and the name designate different boards
		if *layer == "bbs" {
			if res == "allow" {
				fails = append(fails, fail{"board:name-mismatch", fmt.Sprintf("%s with the id text %q (number of board %d, name of board %d; board table busy=%v) returned content: %s",
					entry, string(bboard(a.bid, a.nameBid)), a.bid, a.nameBid, a.busy, desc)})
			}
		} else if res == "allow" {
			if other, _ := boardFacts(a, a.nameBid).mayRead(); !other {
				noteO2(entry, a)
			}
		}
		return out, label, true, fails
	}
	if kind == "read" {
		switch {
		case res == "allow" && !allow:
			fails = append(fails, fail{"read:" + entry + ":allowed-but-forbidden", desc})
		case res == "deny" && allow:
			fails = append(fails, fail{"read:" + entry + ":denied-but-allowed", desc})
		case res != "allow" && res != "deny":
			fails = append(fails, fail{"read:" + entry + ":unexpected", desc})
		}
		return out, label, true, fails
	}
	may := allow || f.administers()
	if a.nl {
		desc = fmt.Sprintf("user id %q, moderator string %q: ", cstrBytes(a.rawID), cstrBytes(a.rawBM)) + desc
		label = "nlist:" + res + ":" + map[bool]string{true: "named", false: "not-named"}[a.name]
		shown := res == "title" || res == "masked"
		if entry == "LoadBoardSummary" {
			shown = res == "title"
		}
		regular := validID(a.rawID) && wellFormedBM(a.rawBM)
		if shown && !may && !regular {
			// outside the theorem's hypotheses (ids are alphanumeric, moderator strings are ids and '/'): recorded, not judged
			noteOnce("junk", "observation: is_uBM accepts any non-alphanumeric byte as a separator / an empty id: "+desc)
			return out, label + ":irregular", true, fails
		}
		if !shown && a.name && !allow && !bit(a.ulevel, oBitBoard) {
			// a named moderator the code does not recognise: the denial direction is outside "only when"; recorded
			noteOnce("first-occurrence", "observation: a NAMED moderator is not recognised (is_uBM looks at the first occurrence of the id only): "+desc)
			return out, label + ":unrecognised", true, fails
		}
	}
	switch entry {
	case "LoadBoardSummary":
		// always answers; the title may only be there when the caller may see the board
		if res == "title" && !may {
			fails = append(fails, fail{"listing:" + entry + ":leak", desc})
		}
		if res == "masked" && may {
			fails = append(fails, fail{"listing:" + entry + ":missing", desc})
		}
	default:
		kindOK := true
		switch entry {
		case "LoadGeneralBoards", "LoadAutoCompleteBoards", "LoadHotBoards":
			kindOK = !f.groupOrSymbolic()
		case "LoadFullClassBoards", "LoadClassBoards":
			kindOK = f.groupOrSymbolic()
		}
		if (res == "title" || res == "masked") && !may {
			fails = append(fails, fail{"listing:" + entry + ":leak", desc})
		}
		if (res == "absent" || res == "masked") && may && kindOK {
			fails = append(fails, fail{"listing:" + entry + ":missing", desc})
		}
	}
	if res != "title" && res != "masked" && res != "absent" {
		fails = append(fails, fail{"listing:" + entry + ":unexpected", desc})
	}
	return out, label, true, fails
}

// the facts of the same caller relative to another board (relation facts of the fixture: not friend, not moderator)
func boardFacts(a callArgs, bid ptttype.Bid) facts {
	attr, blevel := boardNow(bid)
	return facts{ulevel: a.ulevel, over18: a.over18, uid: int32(a.uid), attr: attr, blevel: blevel}
}

var spellMode bool

var noted = map[string]bool{}

func noteOnce(class, what string) {
	if !noted[class] {
		noted[class] = true
		run.Note(what)
	}
}

var o2Noted = map[string]bool{}

func noteO2(entry string, a callArgs) {
	if len(o2Noted) > 0 || entry == "IsBoardValidUser" {
		return
	}
	o2Noted[entry] = true
	run.Note(fmt.Sprintf("O2 (ptt layer, outside the quantifier; closed at the bbs boundary by BBoardID.ToRaw): ptt.%s(bid=%d, name of board %d) returns the content of board %d, which this caller may not read; ptt entry points never compare id and name",
		entry, a.bid, a.nameBid, a.nameBid))
}

func emit(line string) {
	out, label, nt, fails := exec(line)
	idx := run.Op(line, out, label, nt)
	for _, f := range fails {
		run.Fail(idx, f.key, f.what)
	}
}

func main() {
	run = hx.Start("C07")
	setupFixture()
	defer env.Close()
	if run.Replay != "" {
		for _, l := range hx.ReplayOps(run.Replay) {
			emit(l)
		}
		run.Rule = "replay"
		run.Finish()
		return
	}
	generate()
	observations()
	run.Finish()
}

func observations() {}
