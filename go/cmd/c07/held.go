package main

// Listing results are values: a list a caller still holds must stay what it was after the NEXT listing (another user's)
// and under concurrent listings.
//
//	hold <slot> <fn> <bid> <ulevel> <over18> <uid> <bmcache> <friend> <named>   list op, the returned slice is kept (ptt layer)
//	recheck <slot>                                                               what the kept slice shows of its board now
//	stress <n>                                                                   concurrent bbs listings, plain user vs SYSOP

import (
	"fmt"
	"strings"
	"sync"

	"github.com/Ptt-official-app/go-pttbbs/bbs"
	"github.com/Ptt-official-app/go-pttbbs/cmbbs"
	"github.com/Ptt-official-app/go-pttbbs/ptttype"
	"verifharness/internal/hx"
)

type heldList struct {
	fn   string
	bid  ptttype.Bid
	raw  []*ptttype.BoardSummaryRaw
	next *ptttype.BoardSummaryRaw
	orig string // what it showed of the board when it was returned
	may  bool   // the oracle's verdict for the caller it was made for
	desc string
}

var held = map[uint32]*heldList{}

var holdFns = []string{"LoadGeneralBoards", "LoadAutoCompleteBoards", "LoadBoardsByBids", "LoadHotBoards", "LoadFullClassBoards", "LoadClassBoards"}

func execHeld(ws []string) (out, label string, nontrivial bool, fails []fail) {
	bad := func() (string, string, bool, []fail) { return "bad-op", "malformed", false, nil }
	switch ws[0] {
	case "hold":
		if len(ws) != 10 || *layer == "bbs" || !isIn(ws[2], holdFns) {
			return bad()
		}
		slot, ok := parseU32(ws[1])
		if !ok || slot > 7 {
			return bad()
		}
		lastRaw, lastNext = nil, nil
		out, label, nontrivial, fails = execRead(append([]string{"list"}, ws[2:]...), 0, false, nil, nil)
		if out == "bad-op" {
			return
		}
		bidv, _ := parseI32(ws[3])
		ulevel, _ := parseU32(ws[4])
		over18, _ := parseBool(ws[5])
		uid, _ := parseI32(ws[6])
		bmc, _ := parseBool(ws[7])
		friend, _ := parseBool(ws[8])
		named, _ := parseBool(ws[9])
		h := &heldList{fn: ws[2], bid: ptttype.Bid(bidv), raw: lastRaw, next: lastNext, orig: strings.Fields(out)[0]}
		if h.bid.IsValid() {
			// facts as they were for this call (the listing may have set the mask; the verdict is the one before the call, as for list ops)
			attr, blevel := boardNow(h.bid)
			if strings.Contains(label, ":mutated") {
				attr &^= uint32(ptttype.BRD_POSTMASK)
			}
			f := facts{ulevel: ulevel, over18: over18, uid: uid, attr: attr, blevel: blevel, bmCache: bmc, friend: friend, named: named}
			allow, _ := f.mayRead()
			h.may = allow || f.administers()
			h.desc = fmt.Sprintf("list returned by %s to ulevel=%#o uid=%d (bmcache=%v friend=%v named=%v) for board attr=%#x level=%#o, which showed %q",
				h.fn, ulevel, uid, bmc, friend, named, attr, blevel, h.orig)
		}
		held[slot] = h
		return out, "hold:" + strings.TrimPrefix(label, "list:"), true, fails
	case "recheck":
		if len(ws) != 2 || *layer == "bbs" {
			return bad()
		}
		slot, ok := parseU32(ws[1])
		h := held[slot]
		if !ok || h == nil {
			return bad()
		}
		now := hx.CallSync(func() string { return rawShape(h.bid, h.raw, h.next) })
		label = "recheck:" + now
		shown := now == "title" || now == "masked"
		switch {
		case now == "PANIC":
			fails = append(fails, fail{"crash:" + h.fn, "reading a held listing panics: " + hx.LastPanic})
		case shown && !h.may && h.bid.IsValid():
			fails = append(fails, fail{"listing:" + h.fn + ":leak", "after later listings by other callers the " + h.desc + " now shows " + now + ": a board this caller may not see"})
		case now != h.orig:
			fails = append(fails, fail{"listing:" + h.fn + ":changed", "after later listings by other callers the " + h.desc + " now shows " + now})
		}
		return now, label, true, fails
	case "stress":
		if len(ws) != 2 || *layer != "bbs" || !boardsSet[bidTarget] {
			return bad()
		}
		n, ok := parseU32(ws[1])
		if !ok || n == 0 || n > 5000 {
			return bad()
		}
		return stress(int(n))
	}
	return bad()
}

// stress: plain users and the site administrator list boards concurrently through the bbs layer; every entry of a
// user's listing must be a board that user may see.
func stress(n int) (out, label string, nontrivial bool, fails []fail) {
	plain := uint32(ptttype.PERM_BASIC | ptttype.PERM_LOGINOK | ptttype.PERM_POST)
	setRelation(bidTarget, uidReader, false, false, false, 0, []byte{})
	delete(modState, bidTarget)
	if err := cmbbs.PasswdUpdate(uidReader, mkUser(plain, false, nil)); err != nil {
		fatalf("PasswdUpdate: %v", err)
	}
	attr, blevel := boardNow(bidTarget)
	f := facts{ulevel: plain, uid: int32(uidReader), attr: attr, blevel: blevel}
	allow, branch := f.mayRead()
	readerMay := allow || f.administers()
	var mu sync.Mutex
	leaks, missing, panics := 0, 0, 0
	first := ""
	worker := func(user string, may bool) {
		defer func() {
			if e := recover(); e != nil {
				mu.Lock()
				panics++
				if first == "" {
					first = fmt.Sprint("panic: ", e)
				}
				mu.Unlock()
			}
		}()
		for i := 0; i < n; i++ {
			var lists [][]*bbs.BoardSummary
			var names []string
			if ss, _, err := bbs.LoadGeneralBoards(bbs.UUserID(user), "", 100, nil, nil, true, ptttype.BSORT_BY_NAME); err == nil {
				lists, names = append(lists, ss), append(names, "LoadGeneralBoards")
			}
			if ss, err := bbs.LoadBoardsByBids(bbs.UUserID(user), []ptttype.Bid{bidTarget, bidPlain, bidZebra}); err == nil {
				lists, names = append(lists, ss), append(names, "LoadBoardsByBids")
			}
			if ss, err := bbs.LoadHotBoards(bbs.UUserID(user)); err == nil {
				lists, names = append(lists, ss), append(names, "LoadHotBoards")
			}
			for k, ss := range lists {
				shape := bbsShape(bidTarget, ss)
				if (shape == "title" || shape == "masked") != may {
					mu.Lock()
					if may {
						missing++
					} else {
						leaks++
					}
					if first == "" {
						first = fmt.Sprintf("%s for %s shows the board as %q", names[k], user, shape)
					}
					mu.Unlock()
				}
			}
		}
	}
	var wg sync.WaitGroup
	for g := 0; g < 3; g++ {
		wg.Add(2)
		go func() { defer wg.Done(); worker(readerName, readerMay) }()
		go func() { defer wg.Done(); worker("SYSOP", true) }()
	}
	wg.Wait()
	label = "stress:" + branch
	desc := fmt.Sprintf("3+3 goroutines x %d rounds of bbs listings (plain user %s, SYSOP) over board attr=%#x level=%#o: %d entries the caller may not see, %d missing, %d panics; first: %s",
		n, readerName, attr, blevel, leaks, missing, panics, first)
	switch {
	case panics > 0:
		fails = append(fails, fail{"crash:LoadGeneralBoards", desc})
		return "PANIC", label, true, fails
	case leaks > 0:
		fails = append(fails, fail{"listing:LoadGeneralBoards:leak", desc})
		return "leak", label, true, fails
	case missing > 0:
		fails = append(fails, fail{"listing:LoadGeneralBoards:missing", desc})
		return "missing", label, true, fails
	}
	return "ok", label, true, nil
}
