// c08: correspondence harness and property oracle for write authorisation (property C08).
//
// One op line = one row of the decision table: every fact the four write operations look at (user bits and
// counters, board attributes / level / limits / user count, friend list, moderator list, ban file, cool-down
// word, the addressed article).  The harness materialises the row on a private BBSHOME and SHM segment —
// board headers straight in cache.Shm, the user's record in .PASSWDS, ban files under home/, the board
// directories with .DIR and article files — and calls the REAL ptt.NewPost / Recommend / EditPost / CrossPost.
// Observation: result class (ok | err:<identifier>) and whether the boards tree (names, sizes, contents) or
// the author's .PASSWDS record differ from before the call.  The Lean driver prints the same from the model.
//
// The property oracle P̂ (judge) is the rule set of the property statement re-implemented here from the
// row's facts, independently of the Lean model: an accepted write that violates a clause is reported as
// `missing:<op>:<clause>`, a refusal that left a trace as `refused-sideeffect:<op>`.
package main

import (
	"encoding/binary"
	"errors"
	"fmt"
	"hash/fnv"
	"os"
	"path/filepath"
	"strconv"
	"strings"
	"time"

	"github.com/Ptt-official-app/go-pttbbs/bbs"
	"github.com/Ptt-official-app/go-pttbbs/cache"
	"github.com/Ptt-official-app/go-pttbbs/cmbbs"
	"github.com/Ptt-official-app/go-pttbbs/cmsys"
	"github.com/Ptt-official-app/go-pttbbs/ptt"
	"github.com/Ptt-official-app/go-pttbbs/ptttype"
	"github.com/Ptt-official-app/go-pttbbs/types"
	"verifharness/internal/bbsenv"
	"verifharness/internal/hx"
)

var (
	run *hx.Run
	env *bbsenv.Env
)

const (
	theUID  = ptttype.UID(40)
	theID   = "verifu"
	artTime = 1500000000
)

// the boards of the fixture, in .BRD order (bid = index+1)
var boardNames = []string{"SYSOP", "SECURITY", "ALLPOST", "ALLHIDPOST", "NEWIDPOST", "UnAnonymous", "vsrc", "vtgt", "vsrc2"}

func bidOf(name string) ptttype.Bid {
	for i, n := range boardNames {
		if n == name {
			return ptttype.Bid(i + 1)
		}
	}
	return 0
}

var srcNames = map[string]bool{"vsrc": true, "SYSOP": true, "SECURITY": true, "ALLPOST": true}
var tgtNames = map[string]bool{"vtgt": true, "SYSOP": true, "SECURITY": true, "ALLPOST": true}

// ---- rows ------------------------------------------------------------------------------------

type brd struct {
	name      string
	attr, lvl uint32
	lg, lb    uint8
	nuser     int32
	friend    bool
	bm        bool
	ban       string // none | act | exp | junk
}

type art struct {
	total0, found              bool
	argName, entName, entOwner string
	mode                       uint8
	modified                   int32 // the entry's Modified
	exists                     bool
}

type row struct {
	id   string
	ul   uint32
	ud   uint32
	ub   uint8
	uo   bool
	uf   int32
	s, t brd
	a    art
	cd   string // exp | act | max | neg | negact
	pt   int
}

func b01(b bool) string {
	if b {
		return "1"
	}
	return "0"
}

func hexs(s string) string { return hx.Hex([]byte(s)) }

func (b brd) tokens(p string) string {
	return fmt.Sprintf("%sn=%s %sa=%x %sl=%x %sg=%d %sp=%d %su=%d %sf=%s %sm=%s %sb=%s",
		p, hexs(b.name), p, b.attr, p, b.lvl, p, b.lg, p, b.lb, p, b.nuser, p, b01(b.friend), p, b01(b.bm), p, b.ban)
}

func (r row) facts() string {
	return fmt.Sprintf("id=%s ul=%x ud=%d ub=%d uo=%s uf=%d %s %s a0=%s af=%s an=%s ae=%s ao=%s am=%d at=%d ax=%s cd=%s pt=%d",
		hexs(r.id), r.ul, r.ud, r.ub, b01(r.uo), r.uf, r.s.tokens("s"), r.t.tokens("t"),
		b01(r.a.total0), b01(r.a.found), hexs(r.a.argName), hexs(r.a.entName), hexs(r.a.entOwner), r.a.mode, r.a.modified, b01(r.a.exists), r.cd, r.pt)
}

// cdActive: the time part of the cool-down word lies in the future.
func (r row) cdActive() bool { return r.cd == "act" || r.cd == "max" || r.cd == "negact" }

// ---- token syntax (the Lean driver implements the same rules) ---------------------------------

func kv(key, tok string) (string, bool) {
	parts := strings.Split(tok, "=")
	if len(parts) != 2 || parts[0] != key || parts[1] == "" {
		return "", false
	}
	return parts[1], true
}

func pNat(s string, maxDigits int, max uint64) (uint64, bool) {
	if len(s) == 0 || len(s) > maxDigits {
		return 0, false
	}
	for i := 0; i < len(s); i++ {
		if s[i] < '0' || s[i] > '9' {
			return 0, false
		}
	}
	v, err := strconv.ParseUint(s, 10, 64)
	return v, err == nil && v <= max
}

func pI32(s string) (int32, bool) {
	neg := strings.HasPrefix(s, "-")
	d := strings.TrimPrefix(s, "-")
	v, ok := pNat(d, 10, 2147483648)
	if !ok {
		return 0, false
	}
	if neg {
		return int32(-int64(v)), true
	}
	if v > 2147483647 {
		return 0, false
	}
	return int32(v), true
}

func pBool(s string) (bool, bool) {
	switch s {
	case "0":
		return false, true
	case "1":
		return true, true
	}
	return false, false
}

func isLowerHex(s string) bool {
	for i := 0; i < len(s); i++ {
		c := s[i]
		if !(c >= '0' && c <= '9' || c >= 'a' && c <= 'f') {
			return false
		}
	}
	return true
}

func pHex32(s string) (uint32, bool) {
	if len(s) == 0 || len(s) > 8 || !isLowerHex(s) {
		return 0, false
	}
	v, err := strconv.ParseUint(s, 16, 32)
	return uint32(v), err == nil
}

func pName(s string) (string, bool) {
	if s == "-" {
		return "", true
	}
	if !isLowerHex(s) || len(s)%2 != 0 || len(s) > 80 {
		return "", false
	}
	b := hx.UnHex(s)
	for _, c := range b {
		if c == 0 {
			return "", false
		}
	}
	return string(b), true
}

func pBoard(p string, ts []string) (b brd, ok bool) {
	if len(ts) != 9 {
		return b, false
	}
	var v string
	if v, ok = kv(p+"n", ts[0]); !ok {
		return
	}
	if b.name, ok = pName(v); !ok {
		return
	}
	if v, ok = kv(p+"a", ts[1]); !ok {
		return
	}
	if b.attr, ok = pHex32(v); !ok {
		return
	}
	if v, ok = kv(p+"l", ts[2]); !ok {
		return
	}
	if b.lvl, ok = pHex32(v); !ok {
		return
	}
	var n uint64
	if v, ok = kv(p+"g", ts[3]); !ok {
		return
	}
	if n, ok = pNat(v, 3, 255); !ok {
		return
	}
	b.lg = uint8(n)
	if v, ok = kv(p+"p", ts[4]); !ok {
		return
	}
	if n, ok = pNat(v, 3, 255); !ok {
		return
	}
	b.lb = uint8(n)
	if v, ok = kv(p+"u", ts[5]); !ok {
		return
	}
	if b.nuser, ok = pI32(v); !ok {
		return
	}
	if v, ok = kv(p+"f", ts[6]); !ok {
		return
	}
	if b.friend, ok = pBool(v); !ok {
		return
	}
	if v, ok = kv(p+"m", ts[7]); !ok {
		return
	}
	if b.bm, ok = pBool(v); !ok {
		return
	}
	if b.ban, ok = kv(p+"b", ts[8]); !ok {
		return
	}
	switch b.ban {
	case "none", "act", "exp", "junk", "empty", "dir":
	default:
		return b, false
	}
	return b, true
}

func pRow(ts []string) (r row, ok bool) {
	if len(ts) != 34 {
		return r, false
	}
	var v string
	var n uint64
	if v, ok = kv("id", ts[0]); !ok {
		return
	}
	if r.id, ok = pName(v); !ok {
		return
	}
	if v, ok = kv("ul", ts[1]); !ok {
		return
	}
	if r.ul, ok = pHex32(v); !ok {
		return
	}
	if v, ok = kv("ud", ts[2]); !ok {
		return
	}
	if n, ok = pNat(v, 10, 4294967295); !ok {
		return
	}
	r.ud = uint32(n)
	if v, ok = kv("ub", ts[3]); !ok {
		return
	}
	if n, ok = pNat(v, 3, 255); !ok {
		return
	}
	r.ub = uint8(n)
	if v, ok = kv("uo", ts[4]); !ok {
		return
	}
	if r.uo, ok = pBool(v); !ok {
		return
	}
	if v, ok = kv("uf", ts[5]); !ok {
		return
	}
	if r.uf, ok = pI32(v); !ok {
		return
	}
	if r.s, ok = pBoard("s", ts[6:15]); !ok {
		return
	}
	if r.t, ok = pBoard("t", ts[15:24]); !ok {
		return
	}
	if v, ok = kv("a0", ts[24]); !ok {
		return
	}
	if r.a.total0, ok = pBool(v); !ok {
		return
	}
	if v, ok = kv("af", ts[25]); !ok {
		return
	}
	if r.a.found, ok = pBool(v); !ok {
		return
	}
	if v, ok = kv("an", ts[26]); !ok {
		return
	}
	if r.a.argName, ok = pName(v); !ok {
		return
	}
	if v, ok = kv("ae", ts[27]); !ok {
		return
	}
	if r.a.entName, ok = pName(v); !ok {
		return
	}
	if v, ok = kv("ao", ts[28]); !ok {
		return
	}
	if r.a.entOwner, ok = pName(v); !ok {
		return
	}
	if v, ok = kv("am", ts[29]); !ok {
		return
	}
	if n, ok = pNat(v, 3, 255); !ok {
		return
	}
	r.a.mode = uint8(n)
	if v, ok = kv("at", ts[30]); !ok {
		return
	}
	if r.a.modified, ok = pI32(v); !ok {
		return
	}
	if v, ok = kv("ax", ts[31]); !ok {
		return
	}
	if r.a.exists, ok = pBool(v); !ok {
		return
	}
	if v, ok = kv("cd", ts[32]); !ok {
		return
	}
	switch v {
	case "exp", "act", "max", "neg", "negact":
		r.cd = v
	default:
		return r, false
	}
	if v, ok = kv("pt", ts[33]); !ok {
		return
	}
	if n, ok = pNat(v, 2, 15); !ok {
		return
	}
	r.pt = int(n)
	return r, true
}

// fixtureOK: what the fixture can materialise (the Lean driver applies the same test):
// the user id, the board names, a well-formed requested file name.
func fixtureOK(r row) bool {
	if r.id != theID || !srcNames[r.s.name] || !tgtNames[r.t.name] || r.s.name == r.t.name {
		return false
	}
	return validArgName(r.a.argName) && validEntName(r.a.entName, r.a.argName) && len(r.a.entOwner) <= 12
}

// requested name: X.<10 digits>.A.<3 hex>, X a letter
func validArgName(s string) bool {
	if len(s) != 18 || !(s[0] >= 'A' && s[0] <= 'Z') || s[1] != '.' || s[12] != '.' || s[13] != 'A' || s[14] != '.' {
		return false
	}
	for i := 2; i < 12; i++ {
		if s[i] < '0' || s[i] > '9' {
			return false
		}
	}
	for i := 15; i < 18; i++ {
		if !(s[i] >= '0' && s[i] <= '9' || s[i] >= 'A' && s[i] <= 'F') {
			return false
		}
	}
	return true
}

// entry name: the requested name, possibly with other first two bytes (delete mark ".d"), or a short name
func validEntName(e, a string) bool {
	if len(e) == 18 {
		return e[2:] == a[2:] && e[0] != '/' && e[1] != '/' && e[0] > ' ' && e[1] > ' ' && e[0] < 127 && e[1] < 127
	}
	return e == "M.1" || e == ""
}

// ---- fixture -----------------------------------------------------------------------------------

func must(err error) {
	if err != nil {
		fmt.Fprintln(os.Stderr, "c08:", err)
		if env != nil {
			env.Close()
		}
		os.Exit(2)
	}
}

func boardDir(name string) string { return env.Path("boards", name[:1], name) }

func setupHome() {
	// our own .BRD and boards tree
	must(os.RemoveAll(env.Path("boards")))
	f, err := os.Create(env.Path(".BRD"))
	must(err)
	for _, n := range boardNames {
		h := &ptttype.BoardHeaderRaw{}
		copy(h.Brdname[:], n)
		copy(h.Title[:], "test "+n)
		must(types.BinaryWrite(f, binary.LittleEndian, h))
		must(os.MkdirAll(boardDir(n), 0o755))
	}
	must(f.Close())
	must(os.MkdirAll(env.Path("log"), 0o755))
	must(os.MkdirAll(env.Path("home", theID[:1], theID), 0o755))
	must(env.ResetSHM())
	for i, n := range boardNames {
		if types.CstrToString(cache.Shm.Shm.BCache[i].Brdname[:]) != n {
			must(fmt.Errorf("board cache slot %d is %q, expected %q", i, types.CstrToString(cache.Shm.Shm.BCache[i].Brdname[:]), n))
		}
	}
	uid := &ptttype.UserID_t{}
	copy(uid[:], theID)
	must(cache.SetUserID(theUID, uid))
	uid12 := &ptttype.UserID_t{}
	copy(uid12[:], id12)
	must(cache.SetUserID(uid12Slot, uid12))
}

// a second account whose id has the full 12 characters
const (
	id12      = "verifuverifu"
	uid12Slot = ptttype.UID(41)
)

func clearDir(d string) {
	es, err := os.ReadDir(d)
	if err != nil {
		must(os.MkdirAll(d, 0o755))
		return
	}
	for _, e := range es {
		if keepFriends && e.Name() == ptttype.FN_VISIBLE {
			continue
		}
		must(os.RemoveAll(filepath.Join(d, e.Name())))
	}
}

const fillerName = "M.1400000000.A.001"

var articleBody = []byte("\xa7@\xaa\xcc: other (x) \xac\xdd\xaaO: vsrc\n\xbc\xd0\xc3D: a title\n\xae\xc9\xb6\xa1: Thu Jan  1 00:00:00 2015\n\nbody line\n\n--\n")

func mkHeader(name, owner string, mode uint8, modified int32) *ptttype.FileHeaderRaw {
	h := &ptttype.FileHeaderRaw{}
	copy(h.Filename[:], name)
	copy(h.Owner[:], owner)
	copy(h.Date[:], " 1/01")
	copy(h.Title[:], "a title")
	h.Filemode = ptttype.FileMode(mode)
	h.Modified = types.Time4(modified)
	return h
}

func makeUser(r row) *ptttype.UserecRaw {
	u := &ptttype.UserecRaw{}
	u.Version = ptttype.PASSWD_VERSION
	copy(u.UserID[:], r.id)
	copy(u.Nickname[:], "nick")
	u.UserLevel = ptttype.PERM(r.ul)
	u.NumLoginDays = r.ud
	u.BadPost = r.ub
	u.Over18 = r.uo
	u.FirstLogin = types.Time4(r.uf)
	return u
}

// setBan puts the user's ban record for the board into the state the row names.
func setBan(b brd) {
	now := types.NowTS()
	banFile := env.Path("home", theID[:1], theID, "banned", "b_"+b.name)
	switch b.ban {
	case "none":
		_ = os.RemoveAll(banFile)
	case "act":
		must(os.MkdirAll(filepath.Dir(banFile), 0o755))
		must(os.WriteFile(banFile, []byte(fmt.Sprintf("%d\nflood\n", int64(now)+3600)), 0o644))
	case "exp":
		must(os.MkdirAll(filepath.Dir(banFile), 0o755))
		must(os.WriteFile(banFile, []byte(fmt.Sprintf("%d\nflood\n", int64(now)-3600)), 0o644))
	case "junk":
		must(os.MkdirAll(filepath.Dir(banFile), 0o755))
		must(os.WriteFile(banFile, []byte("soon\nflood\n"), 0o644))
	case "empty":
		must(os.MkdirAll(filepath.Dir(banFile), 0o755))
		must(os.WriteFile(banFile, nil, 0o644))
	case "dir":
		must(os.MkdirAll(banFile, 0o755))
	}
}

func setBoard(b brd, now types.Time4) {
	i := int(bidOf(b.name)) - 1
	h := &cache.Shm.Shm.BCache[i]
	h.BrdAttr = ptttype.BrdAttr(b.attr)
	h.Level = ptttype.PERM(b.lvl)
	h.PostLimitLogins = b.lg
	h.PostLimitBadpost = b.lb
	h.NUser = b.nuser
	if b.bm {
		cache.Shm.Shm.BMCache[i] = [ptttype.MAX_BMs]ptttype.UID{theUID, -1, -1, -1}
	}
	if b.friend && !keepFriends {
		cache.Shm.Shm.Hbfl[i][1] = theUID
	}
	setBan(b)
}

// keepFriends: during a friend-list history the list file and the shared-memory list of the boards survive the
// re-materialisation of everything else.
var keepFriends bool

// materialise puts the private BBSHOME / SHM into exactly the state the row describes.
func materialise(r row, word types.Time4, setWord bool) *ptttype.UserecRaw {
	now := types.NowTS()
	for i, n := range boardNames {
		clearDir(boardDir(n))
		h := &cache.Shm.Shm.BCache[i]
		h.BrdAttr, h.Level, h.PostLimitLogins, h.PostLimitBadpost, h.NUser = 0, 0, 0, 0, 0
		cache.Shm.Shm.BMCache[i] = [ptttype.MAX_BMs]ptttype.UID{-1, -1, -1, -1}
		if !keepFriends {
			cache.Shm.Shm.Hbfl[i] = [ptttype.MAX_FRIEND + 1]ptttype.UID{}
			cache.Shm.Shm.Hbfl[i][0] = ptttype.UID(now)
		}
		cache.Shm.Shm.Total[i] = 0
		cache.Shm.Shm.LastPostTime[i] = 0
		cache.Shm.Shm.NBottom[i] = 0
	}
	_ = os.RemoveAll(env.Path("home", theID[:1], theID, "banned"))
	setBoard(r.s, now)
	setBoard(r.t, now)

	// the source board's index and article files
	d := boardDir(r.s.name)
	dir, err := os.Create(filepath.Join(d, ".DIR"))
	must(err)
	if !r.a.total0 {
		must(types.BinaryWrite(dir, binary.LittleEndian, mkHeader(fillerName, "other", 0, 0)))
		must(os.WriteFile(filepath.Join(d, fillerName), articleBody, 0o644))
		if r.a.found {
			must(types.BinaryWrite(dir, binary.LittleEndian, mkHeader(r.a.entName, r.a.entOwner, r.a.mode, r.a.modified)))
		}
	}
	must(dir.Close())
	if r.a.exists {
		must(os.WriteFile(filepath.Join(d, r.a.argName), articleBody, 0o644))
		if r.a.found && r.a.entName != r.a.argName && len(r.a.entName) == 18 {
			must(os.WriteFile(filepath.Join(d, r.a.entName), articleBody, 0o644))
		}
	}

	u := makeUser(r)
	must(cmbbs.PasswdUpdate(theUID, u))
	if setWord {
		cache.Shm.Shm.CooldownTime[theUID-1] = word
	}
	return u
}

// cdWord: the cool-down word the row describes.  exp: time part 0; act: now+600 s; max: the largest time part
// (0x7FFFFFF0); neg / negact: as exp / act with bit 31 set (a negative int32; CooldownTimeOf masks the bit off).
func cdWord(r row) types.Time4 {
	var w uint32
	switch r.cd {
	case "act":
		w = uint32(types.NowTS()+600) & 0x7FFFFFF0
	case "max":
		w = 0x7FFFFFF0
	case "neg":
		w = 0x80000000
	case "negact":
		w = 0x80000000 | uint32(types.NowTS()+600)&0x7FFFFFF0
	}
	return types.Time4(int32(w | uint32(r.pt)))
}

// ---- observation ---------------------------------------------------------------------------------

func fnvOf(b []byte) uint64 {
	h := fnv.New64a()
	h.Write(b)
	return h.Sum64()
}

// snapshot: every file under boards/ (path, size, content digest) and the author's .PASSWDS record.
func snapshot() string {
	var sb strings.Builder
	root := env.Path("boards")
	_ = filepath.Walk(root, func(p string, info os.FileInfo, err error) error {
		if err != nil {
			return nil
		}
		rel, _ := filepath.Rel(root, p)
		if info.IsDir() {
			fmt.Fprintf(&sb, "d %s\n", rel)
			return nil
		}
		b, _ := os.ReadFile(p)
		fmt.Fprintf(&sb, "f %s %d %x\n", rel, len(b), fnvOf(b))
		return nil
	})
	f, err := os.Open(env.Path(".PASSWDS"))
	if err == nil {
		rec := make([]byte, ptttype.USEREC_RAW_SZ)
		_, _ = f.ReadAt(rec, int64(theUID-1)*int64(ptttype.USEREC_RAW_SZ))
		f.Close()
		fmt.Fprintf(&sb, "u %x\n", fnvOf(rec))
	}
	return sb.String()
}

var errNames = []struct {
	e error
	n string
}{
	{ptt.ErrNotPermitted, "ErrNotPermitted"}, {ptt.ErrReadOnly, "ErrReadOnly"}, {ptt.ErrBanned, "ErrBanned"},
	{ptt.ErrPermitNoPost, "ErrPermitNoPost"}, {ptt.ErrRestricted, "ErrRestricted"}, {ptt.ErrViolateLaw, "ErrViolateLaw"},
	{ptt.ErrCooldown, "ErrCooldown"}, {ptt.ErrNotLoginOk, "ErrNotLoginOk"}, {ptt.ErrVoteBoard, "ErrVoteBoard"},
	{ptt.ErrDeleted, "ErrDeleted"}, {ptt.ErrInvalidParams, "ErrInvalidParams"},
}

func errClass(err error) string {
	if err == nil {
		return "ok"
	}
	for _, x := range errNames {
		if errors.Is(err, x.e) {
			return "err:" + x.n
		}
	}
	return "err:lookup"
}

func bid2id(name string) *ptttype.BoardID_t {
	b := &ptttype.BoardID_t{}
	copy(b[:], name)
	return b
}

var theIP = func() *ptttype.IPv4_t {
	ip := &ptttype.IPv4_t{}
	copy(ip[:], "127.0.0.1")
	return ip
}()

// uidOf: the slot of the accounts the histories use.
func uidOf(u *ptttype.UserecRaw) ptttype.UID {
	switch types.CstrToString(u.UserID[:]) {
	case "SYSOP":
		return 1
	case "CodingMan":
		return 2
	case id12:
		return uid12Slot
	}
	return theUID
}

// callOp runs the real operation.
func callOp(op string, r row, u *ptttype.UserecRaw) string {
	sID, sBid := bid2id(r.s.name), bidOf(r.s.name)
	fn := &ptttype.Filename_t{}
	copy(fn[:], r.a.argName)
	// generous watchdog: the machine may be shared with other checks
	return hx.CallT(20*time.Second, func() string {
		switch op {
		case "newpost":
			_, err := ptt.NewPost(u, uidOf(u), sID, sBid, []byte("test"), []byte("hello"), [][]byte{[]byte("line 1"), []byte("line 2")}, theIP, nil)
			return errClass(err)
		case "recommend":
			_, _, err := ptt.Recommend(u, uidOf(u), sID, sBid, fn, ptttype.COMMENT_TYPE_RECOMMEND, []byte("nice"), theIP, nil)
			return errClass(err)
		case "editpost":
			// the client edits what it has read: length and hash of the article file as it is now
			body := articleBody
			if cur, err := os.ReadFile(filepath.Join(boardDir(r.s.name), r.a.argName)); err == nil {
				body = cur
			}
			sum := cmsys.Fnv64Buf(body, len(body), cmsys.FNV1_64_INIT)
			lines := [][]byte{}
			for _, l := range strings.Split(strings.TrimSuffix(string(body), "\n"), "\n") {
				lines = append(lines, []byte(l))
			}
			lines = append(lines, []byte("edited"))
			_, _, _, err := ptt.EditPost(u, uidOf(u), sID, sBid, fn, nil, nil, lines, len(body), sum, theIP, nil)
			return errClass(err)
		case "crosspost":
			_, _, _, err := ptt.CrossPost(u, uidOf(u), sID, sBid, fn, bid2id(r.t.name), bidOf(r.t.name), 0, theIP, nil)
			return errClass(err)
		}
		return "bad-op"
	})
}

// ---- the property oracle: the rule set of the statement, from the row's facts ----------------------

const (
	pBASIC   = 0o1
	pPOST    = 0o10
	pLOGINOK = 0o20
	pBM      = 0o2000
	pSYSOP   = 0o40000
	pVL      = 0o400000
	pPOLMAN  = 0o2000000000
	pPOLICE  = 0o20000000000

	aHIDE       = 0x10
	aPOSTMASK   = 0x20
	aVOTEBOARD  = 0x200
	aNORECOMM   = 0x1000
	aRESTRICTED = 0x40000
	aGUESTPOST  = 0x80000
	aCOOLDOWN   = 0x100000
	aCPLOG      = 0x200000
	aOVER18     = 0x1000000
)

// clausesViolated: which clauses of the rule set the row violates for a write to board b.
func clausesViolated(r row, b brd, edit bool) []string {
	var out []string
	sysop := r.ul&pSYSOP != 0
	verified := r.ul&pLOGINOK != 0
	moderator := r.ul&pBASIC != 0 && verified && b.bm
	hidden := b.attr&aHIDE != 0
	postmask := b.attr&aPOSTMASK != 0
	// may read the board
	mayRead := sysop || (b.lvl&pBM != 0 && r.ul&(pPOLICE|pPOLMAN) != 0) || moderator
	if !mayRead {
		if hidden {
			mayRead = b.friend || !postmask
		} else {
			mayRead = (b.attr&aOVER18 == 0 || r.uo) && (b.lvl == 0 || postmask || r.ul&b.lvl != 0)
		}
	}
	if !mayRead {
		out = append(out, "read")
	}
	// never on the read-only system boards
	ln := strings.ToLower(b.name)
	if ln == "security" || ln == "allpost" {
		out = append(out, "readonly")
	}
	if !sysop {
		// not while banned from the board
		if b.ban == "act" {
			out = append(out, "banned")
		}
		if b.name != "SYSOP" && b.attr&aGUESTPOST == 0 {
			// requires the post permission
			if r.ul&pPOST == 0 {
				out = append(out, "postperm")
			}
			if !hidden {
				// friends only on restricted-post boards
				if b.attr&aRESTRICTED != 0 && !b.friend {
					out = append(out, "restrictedpost")
				}
				if r.ul&pVL != 0 {
					// violate-law users only where the board admits them
					if b.lvl&pVL == 0 {
						out = append(out, "violatelaw")
					}
				} else if extra := b.lvl &^ pPOST; extra != 0 && r.ul&extra == 0 {
					// any extra level bits the board demands
					out = append(out, "level")
				}
			}
		}
		// login-days and bad-post limits unless sysop or moderator
		if !moderator && !(uint32(b.lg) <= r.ud/10 && int(r.ub) <= 255-int(b.lb)) {
			out = append(out, "restriction")
		}
	}
	// a verified account
	if !verified {
		out = append(out, "verified")
	}
	// no active cool-down
	if r.cdActive() && !sysop {
		flood := false
		for _, l := range [][2]int{{4000, 1}, {2000, 2}, {1000, 3}, {-1, 10}} {
			if int(b.nuser) > l[0] && r.pt >= l[1] {
				flood = true
			}
		}
		if b.attr&aCOOLDOWN != 0 || r.pt == 15 || flood {
			out = append(out, "cooldown")
		}
	}
	// editing: the author (or sysop)
	if edit {
		author := r.a.entOwner == r.id && len(r.a.entName) > 3 && nameTime(r.a.entName) >= int64(r.uf)
		if !author && !sysop {
			out = append(out, "owner")
		}
	}
	return out
}

func nameTime(n string) int64 {
	if len(n) < 12 {
		return 0
	}
	v, err := strconv.Atoi(n[2:12])
	if err != nil {
		return 0
	}
	return int64(int32(v))
}

var onlyCells = map[string]int{}

// judge: P̂ on one executed row.
func judge(i int, op string, r row, res, trace string) {
	if res == "PANIC" || res == "TIMEOUT" {
		run.Fail(i, "crash:"+op, fmt.Sprintf("%s: %s (%s)", op, res, hx.LastPanic))
		return
	}
	b := r.s
	if op == "crosspost" {
		b = r.t
	}
	viol := clausesViolated(r, b, op == "editpost")
	if len(viol) == 1 {
		onlyCells[op+":"+viol[0]]++
	}
	if res == "ok" {
		for _, c := range viol {
			key := c
			if op == "crosspost" && c == "read" {
				key = "target-read"
			}
			run.Fail(i, "missing:"+op+":"+key, fmt.Sprintf("%s accepted a write although the rule set's clause %q is violated (all violated clauses: %v)", op, c, viol))
		}
		if trace != "changed" {
			run.Note(fmt.Sprintf("%s reported success but nothing changed: %s", op, r.facts()))
		}
	} else if trace == "changed" && res != "err:lookup" {
		// a permission refusal (any of the identifiers of errNames) that left a trace
		run.Fail(i, "refused-sideeffect:"+op, fmt.Sprintf("%s refused (%s) but the boards tree or the author's .PASSWDS record changed", op, res))
	}
}

// ---- executing op lines ------------------------------------------------------------------------------

var ops = map[string]bool{"newpost": true, "recommend": true, "editpost": true, "crosspost": true}

func execRow(line, op string, r row, witness string) {
	u := materialise(r, cdWord(r), true)
	const sentinel = types.Time4(0x12345670 | 7)
	cache.Shm.Shm.CooldownTime[theUID-2], cache.Shm.Shm.CooldownTime[theUID] = sentinel, sentinel
	before := snapshot()
	res := callOp(op, r, u)
	after := snapshot()
	banAfterS, banAfterT := banKind(r.s.name), banKind(r.t.name)
	nb1, nb2 := cache.Shm.Shm.CooldownTime[theUID-2], cache.Shm.Shm.CooldownTime[theUID]
	trace := "same"
	if before != after {
		trace = "changed"
	}
	out := res
	if res != "PANIC" && res != "TIMEOUT" {
		out = res + " " + trace
	}
	label := op + ":" + res
	if witness != "" {
		out += " wit=yes"
		label = "witness:" + witness + ":" + op + ":" + res
	}
	i := run.Op(line, out, label, true)
	judge(i, op, r, res, trace)
	// P̂: a permission check only reads the ban record; it may remove it only when it was readable and has expired
	for _, x := range []struct {
		b     brd
		after string
	}{{r.s, banAfterS}, {r.t, banAfterT}} {
		want := map[string]string{"act": "file", "empty": "file", "dir": "dir"}[x.b.ban]
		if want != "" && x.after != want {
			run.Fail(i, "banrecord-destroyed:"+op, fmt.Sprintf("%s: the ban record for %s was %q before the call and is %q after it", op, x.b.name, x.b.ban, x.after))
		}
	}
	// P̂: the cool-down words of the accounts next to the user's slot are not the user's to write
	if nb1 != sentinel || nb2 != sentinel {
		run.Fail(i, "cooldown-neighbour-clobbered:"+op, fmt.Sprintf("%s by uid %d changed the cool-down word of uid %d or %d (%#x, %#x)", op, theUID, theUID-1, theUID+1, uint32(nb1), uint32(nb2)))
	}
}

func banPath(board string) string { return env.Path("home", theID[:1], theID, "banned", "b_"+board) }

// banKind: none | file | dir
func banKind(board string) string {
	st, err := os.Lstat(banPath(board))
	if err != nil {
		return "none"
	}
	if st.IsDir() {
		return "dir"
	}
	return "file"
}

// ---- the BM field and bbs-level board ids ---------------------------------------------------------------

var bmTokens = map[string]string{"V": id12, "v": "VERIFUVERIFU", "Vx": id12 + "X", "Vxx": id12 + "Xtra", "c": "CodingMan", "p": "pichu",
	"k": "Kahou", "s": "SYSOP", "z": "nosuchuser", "e": ""}

func execBMField(line, op string, toks []string) {
	var names []string
	for _, t := range toks {
		names = append(names, bmTokens[t])
	}
	field := strings.Join(names, "/")
	r := baseRow()
	r.id = id12
	r.a.entOwner = id12
	b := &r.s
	if op == "crosspost" {
		b = &r.t
	}
	b.lg = 255
	keepFriends = false
	materialise(r, 0, true)
	u := makeUser(r)
	must(cmbbs.PasswdUpdate(uid12Slot, u))
	cache.Shm.Shm.CooldownTime[uid12Slot-1] = 0
	// the moderator cache of the board from its BM field, as cache.buildBMCache does
	bi := int(bidOf(b.name)) - 1
	h := &cache.Shm.Shm.BCache[bi]
	h.BM = ptttype.BM_t{}
	copy(h.BM[:], field)
	cache.Shm.Shm.BMCache[bi] = *cache.ParseBMList(&h.BM)
	defer func() { h.BM = ptttype.BM_t{} }()
	before := snapshot()
	res := callOp(op, r, u)
	trace := "same"
	if snapshot() != before {
		trace = "changed"
	}
	i := run.Op(line, res+" "+trace, "bmfield:"+op+":"+res, true)
	// P̂: the account is a moderator only if a token of the field IS its id
	named := false
	for _, n := range names {
		if strings.EqualFold(n, id12) {
			named = true
		}
	}
	if res == "ok" && !named {
		run.Fail(i, "missing:"+op+":restriction", fmt.Sprintf("%s accepted for an account below the board's login-days limit that is not named in the BM field %q", op, field))
	}
	if res != "ok" && res != "err:lookup" && trace == "changed" {
		run.Fail(i, "refused-sideeffect:"+op, "refused but left a trace")
	}
}

func execBBSID(line, bidName, req string) {
	r := baseRow()
	r.s.lg = 255 // vsrc is the protected board
	keepFriends = false
	u := materialise(r, 0, true)
	before := snapshot()
	res := hx.CallT(20*time.Second, func() string {
		bid, boardIDRaw, err := bbs.BBoardID(fmt.Sprintf("%d_%s", bidOf(bidName), req)).ToRaw()
		if err != nil {
			return "err:idmismatch"
		}
		_, err = ptt.NewPost(u, theUID, boardIDRaw, bid, []byte("test"), []byte("hello"), [][]byte{[]byte("line 1")}, theIP, nil)
		return errClass(err)
	})
	trace := "same"
	if snapshot() != before {
		trace = "changed"
	}
	i := run.Op(line, res+" "+trace, "bbsid:"+res, true)
	// P̂: permissions are checked by bid, files addressed by name: the name must be exactly the name of that bid
	if res != "err:idmismatch" && req != bidName {
		run.Fail(i, "bbsid:name-mismatch-accepted", fmt.Sprintf("the request id %d_%s (board %d is %q) passed bbs.BBoardID.ToRaw: %s %s", bidOf(bidName), req, bidOf(bidName), bidName, res, trace))
	}
	if res == "ok" && req == "vsrc" {
		run.Fail(i, "missing:newpost:restriction", "a post was written into board vsrc (2550 login days demanded) by a user with 100")
	}
	if res != "ok" && trace == "changed" {
		run.Fail(i, "refused-sideeffect:newpost", "refused but the boards changed")
	}
}

// ---- histories on the ban record ------------------------------------------------------------------------

func execBanrec(line, op string, steps []string) {
	r := baseRow()
	keepFriends = false
	materialise(r, 0, true)
	board := r.s.name
	if op == "crosspost" {
		board = r.t.name
	}
	path := banPath(board)
	must(os.MkdirAll(filepath.Dir(path), 0o755))
	var held *os.File
	defer func() {
		if held != nil {
			held.Close()
		}
	}()
	// P̂'s own view: what the moderator / the board believes about the ban
	intended := "none"
	var outs []string
	type pj struct{ res, trace, intended, after string }
	var js []pj
	for _, st := range steps {
		switch {
		case strings.HasPrefix(st, "S:"):
			if held != nil { // the writing session gives up
				held.Close()
				held = nil
			}
			_ = os.RemoveAll(path)
			b := brd{name: board, ban: st[2:]}
			setBan(b)
			intended = st[2:]
		case st == "B":
			if held != nil {
				held.Close()
				held = nil
			}
			_ = os.RemoveAll(path)
			f, err := os.OpenFile(path, os.O_CREATE|os.O_WRONLY|os.O_TRUNC, 0o644)
			must(err)
			held = f
			intended = "pending"
		case st == "F":
			if held != nil {
				_, err := held.WriteString(fmt.Sprintf("%d\nflood\n", int64(types.NowTS())+3600))
				must(err)
				must(held.Close())
				held = nil
				intended = "act"
			}
		case st == "P":
			keepFriends = true // (keeps nothing of the ban: materialise below would remove the banned/ directory)
			u := makeUser(r)
			rebuildBoards(r)
			before := snapshot()
			res := callOp(op, r, u)
			trace := "same"
			if snapshot() != before {
				trace = "changed"
			}
			keepFriends = false
			after := banKind(board)
			outs = append(outs, res+":"+trace+":"+after)
			js = append(js, pj{res, trace, intended, after})
			if intended == "exp" || intended == "junk" {
				intended = "none" // readable and expired: the check may remove it
			}
		}
	}
	i := run.Op(line, strings.Join(outs, ","), "banrec:"+op, true)
	for n, j := range js {
		if j.res == "PANIC" || j.res == "TIMEOUT" {
			run.Fail(i, "crash:"+op, fmt.Sprintf("write %d: %s (%s)", n+1, j.res, hx.LastPanic))
			continue
		}
		want := map[string]string{"act": "file", "empty": "file", "pending": "file", "dir": "dir"}[j.intended]
		if want != "" && j.after != want {
			run.Fail(i, "banrecord-destroyed:"+op, fmt.Sprintf("write %d: the ban record was %q before the permission check and is %q after it", n+1, j.intended, j.after))
		}
		if j.intended == "act" && j.res == "ok" {
			run.Fail(i, "missing:"+op+":banned", fmt.Sprintf("write %d accepted although the moderator's ban (expiry now+3600) is in force", n+1))
		}
		if j.res != "ok" && j.res != "err:lookup" && j.trace == "changed" {
			run.Fail(i, "refused-sideeffect:"+op, fmt.Sprintf("write %d refused (%s) but left a trace", n+1, j.res))
		}
	}
}

// rebuildBoards: the board directories, index and article of the row again (between the writes of a history), without
// touching home/.
func rebuildBoards(r row) {
	for i, n := range boardNames {
		clearDir(boardDir(n))
		cache.Shm.Shm.Total[i] = 0
		cache.Shm.Shm.LastPostTime[i] = 0
	}
	d := boardDir(r.s.name)
	dir, err := os.Create(filepath.Join(d, ".DIR"))
	must(err)
	must(types.BinaryWrite(dir, binary.LittleEndian, mkHeader(fillerName, "other", 0, 0)))
	must(os.WriteFile(filepath.Join(d, fillerName), articleBody, 0o644))
	must(types.BinaryWrite(dir, binary.LittleEndian, mkHeader(r.a.entName, r.a.entOwner, r.a.mode, r.a.modified)))
	must(dir.Close())
	must(os.WriteFile(filepath.Join(d, r.a.argName), articleBody, 0o644))
	cache.Shm.Shm.CooldownTime[theUID-1] = 0
}

func execFlood(line string, nu int32, k int, bc bool) {
	r := baseRow()
	r.s.nuser = nu
	if bc {
		r.s.attr = aCOOLDOWN
	}
	u := materialise(r, 0, true)
	var rs []string
	bad := -1
	for j := 0; j < k; j++ {
		before := snapshot()
		res := callOp("newpost", r, u)
		if res != "ok" && snapshot() != before {
			bad = j
		}
		rs = append(rs, res)
	}
	out := strings.Join(rs, ",") + fmt.Sprintf(" pt=%d", int(cache.PosttimesOf(theUID)))
	i := run.Op(line, out, "flood", true)
	if bad >= 0 {
		run.Fail(i, "refused-sideeffect:newpost", fmt.Sprintf("post %d of a flood was refused (%s) but left a trace", bad+1, rs[bad]))
	}
	// P̂: a refused post of the run must be a cool-down refusal, and the counter never exceeds 15
	for j, x := range rs {
		if x != "ok" && x != "err:ErrCooldown" {
			run.Fail(i, "flood:other-refusal", fmt.Sprintf("post %d: %s", j+1, x))
		}
	}
	// the rule set: once the window is open (after the first accepted post on a board with more than 30 users)
	// a board with more than n users accepts fewer than k further posts
	if nu > 30 {
		acc := 0
		for _, x := range rs {
			if x == "ok" {
				acc++
			}
		}
		limit := 10
		switch {
		case bc:
			limit = 1
		case nu > 4000:
			limit = 1
		case nu > 2000:
			limit = 2
		case nu > 1000:
			limit = 3
		}
		if acc > limit {
			run.Fail(i, "missing:newpost:cooldown", fmt.Sprintf("%d posts accepted in one cool-down window on a board with %d users (limit %d)", acc, nu, limit))
		}
	}
}

// ---- friend-list histories -----------------------------------------------------------------------------

var friendNames = map[string]string{"u": theID, "U": theID + "   the author", "c": "CodingMan", "p": "pichu", "k": "Kahou",
	"g": "guest", "G": "GUEST", "z": "nosuchuser", "e": " leading-blank"}

// pNames: the names of a list, expanded.
func pNames(s string) ([]string, bool) {
	if s == "-" {
		return nil, true
	}
	var out []string
	for _, t := range strings.Split(s, ",") {
		parts := strings.Split(t, "*")
		if _, ok := friendNames[parts[0]]; !ok || len(parts) > 2 {
			return nil, false
		}
		n := uint64(1)
		if len(parts) == 2 {
			var ok bool
			if n, ok = pNat(parts[1], 3, 120); !ok || n == 0 {
				return nil, false
			}
		}
		for j := uint64(0); j < n; j++ {
			out = append(out, parts[0])
		}
	}
	return out, true
}

type fstep struct {
	kind  byte // L W X D P
	names []string
}

func pSteps(s string) ([]fstep, bool) {
	var out []fstep
	nP := 0
	for _, t := range strings.Split(s, "/") {
		switch {
		case t == "X" || t == "D" || t == "P":
			out = append(out, fstep{kind: t[0]})
			if t == "P" {
				nP++
			}
		case strings.HasPrefix(t, "L:") || strings.HasPrefix(t, "W:"):
			if strings.Count(t, ":") != 1 {
				return nil, false
			}
			ns, ok := pNames(t[2:])
			if !ok {
				return nil, false
			}
			out = append(out, fstep{kind: t[0], names: ns})
		default:
			return nil, false
		}
	}
	return out, len(out) <= 24 && nP >= 1
}

// listed: P̂'s reading of "the user is on the friend list": among the first MAX_FRIEND names of the list that
// denote an account other than guest.
func listed(names []string) bool {
	n := 0
	for _, x := range names {
		switch x {
		case "g", "G", "z", "e":
			continue
		}
		if n >= int(ptttype.MAX_FRIEND) {
			break
		}
		n++
		if x == "u" || x == "U" {
			return true
		}
	}
	return false
}

func execFriends(line, op, kind string, steps []fstep) {
	r := baseRow()
	b := &r.s
	if op == "crosspost" {
		b = &r.t
	}
	if kind == "hidden" {
		b.attr = aHIDE | aPOSTMASK
	} else {
		b.attr = aRESTRICTED
	}
	keepFriends = false
	materialise(r, 0, true)
	keepFriends = true
	defer func() { keepFriends = false }()
	bi := int(bidOf(b.name)) - 1
	listFile := filepath.Join(boardDir(b.name), ptttype.FN_VISIBLE)
	writeList := func(names []string) {
		var sb strings.Builder
		for _, n := range names {
			sb.WriteString(friendNames[n])
			sb.WriteByte('\n')
		}
		must(os.WriteFile(listFile, []byte(sb.String()), 0o644))
	}
	// P̂'s own bookkeeping: the list as of the last (re)load
	var file, loaded []string
	haveFile, expired, removed := false, false, false
	var outs []string
	type pj struct {
		res, trace string
		friend     bool // on the list as last loaded, or on the list file as it is now
		removed    bool // not a friend because the list that was loaded last no longer existed
	}
	var judged []pj
	for _, st := range steps {
		switch st.kind {
		case 'L':
			writeList(st.names)
			cache.HbflReload(ptttype.BidInStore(bi))
			file, haveFile, loaded, expired, removed = st.names, true, st.names, false, false
		case 'W':
			writeList(st.names)
			file, haveFile = st.names, true
		case 'X':
			cache.Shm.Shm.Hbfl[bi][0] = ptttype.UID(types.NowTS() - types.Time4(ptttype.HBFLexpire) - 100)
			expired = true
		case 'D':
			_ = os.Remove(listFile)
			cache.HbflReload(ptttype.BidInStore(bi))
			file, haveFile, loaded, expired, removed = nil, false, nil, false, true
		case 'P':
			if expired {
				// the look-up inside the operation loads the list again
				if haveFile {
					loaded, removed, expired = file, false, false
				} else {
					loaded, removed, expired = nil, true, false
				}
			}
			u := materialise(r, 0, true)
			before := snapshot()
			res := callOp(op, r, u)
			trace := "same"
			if snapshot() != before {
				trace = "changed"
			}
			outs = append(outs, res+":"+trace)
			judged = append(judged, pj{res, trace, listed(loaded) || (haveFile && listed(file)), removed})
		}
	}
	i := run.Op(line, strings.Join(outs, ","), "friends:"+op+":"+kind, true)
	for n, j := range judged {
		rr := r
		if op == "crosspost" {
			rr.t.friend = j.friend
		} else {
			rr.s.friend = j.friend
		}
		if j.res == "PANIC" || j.res == "TIMEOUT" {
			run.Fail(i, "crash:"+op, fmt.Sprintf("write %d of the history: %s (%s)", n+1, j.res, hx.LastPanic))
			continue
		}
		bb := rr.s
		if op == "crosspost" {
			bb = rr.t
		}
		viol := clausesViolated(rr, bb, op == "editpost")
		if j.res == "ok" {
			for _, c := range viol {
				key := c
				if op == "crosspost" && c == "read" {
					key = "target-read"
				}
				if j.removed && (c == "restrictedpost" || c == "read") {
					run.Fail(i, "stale-friendlist:file-removed", fmt.Sprintf("write %d of the history: %s accepted by the friends-only rule (%s) although the board's friend list file had been removed before the last load", n+1, op, c))
					continue
				}
				run.Fail(i, "missing:"+op+":"+key, fmt.Sprintf("write %d of the history: %s accepted although the user is neither on the board's friend list as last loaded nor on the list file (clause %q)", n+1, op, c))
			}
		} else if j.trace == "changed" && j.res != "err:lookup" {
			run.Fail(i, "refused-sideeffect:"+op, fmt.Sprintf("write %d of the history refused (%s) but left a trace", n+1, j.res))
		}
	}
}

// ---- histories on one article -------------------------------------------------------------------------------

func execThread(line, ao string, at int32, steps []string) {
	r := baseRow()
	r.s.attr = aCPLOG
	r.a.modified = at
	if ao == "other" {
		r.a.entOwner = "CodingMan"
	}
	keepFriends = false
	materialise(r, 0, true)
	cache.Shm.Shm.CooldownTime[0], cache.Shm.Shm.CooldownTime[1] = 0, 0
	var outs []string
	type tj struct {
		step, res, trace string
		fl               int32
	}
	var tries []tj
	for _, st := range steps {
		rr := r
		op := ""
		switch st {
		case "R":
			op, rr.id = "recommend", "CodingMan"
		case "C":
			op, rr.id = "crosspost", "CodingMan"
		case "E":
			op, rr.id, rr.ul = "editpost", "SYSOP", r.ul|pSYSOP
		case "Ta":
			op, rr.uf = "editpost", 1000000000
		case "Tb":
			op, rr.uf = "editpost", artTime
		case "Tl":
			op, rr.uf = "editpost", 1550000000
		}
		u := makeUser(rr)
		before := snapshot()
		res := callOp(op, rr, u)
		trace := "same"
		if snapshot() != before {
			trace = "changed"
		}
		outs = append(outs, st[:1]+":"+res+":"+trace)
		if st[0] == 'T' {
			tries = append(tries, tj{st, res, trace, rr.uf})
		}
	}
	i := run.Op(line, strings.Join(outs, ","), "thread", true)
	// P̂: whatever happened to the article in between, only its author (the account that already existed when the
	// article was created under its id) may edit it
	for n, t := range tries {
		if t.res == "PANIC" || t.res == "TIMEOUT" {
			run.Fail(i, "crash:editpost", fmt.Sprintf("edit attempt %d (%s): %s (%s)", n+1, t.step, t.res, hx.LastPanic))
			continue
		}
		author := ao == "self" && int64(t.fl) <= artTime
		if t.res == "ok" && !author {
			run.Fail(i, "missing:editpost:owner", fmt.Sprintf("edit attempt %d (%s) accepted although the account (FirstLogin %d) is not the author of the article created at %d under the id %q", n+1, t.step, t.fl, artTime, r.a.entOwner))
		}
		if t.res != "ok" && t.res != "err:lookup" && t.trace == "changed" {
			run.Fail(i, "refused-sideeffect:editpost", fmt.Sprintf("edit attempt %d refused (%s) but left a trace", n+1, t.res))
		}
	}
}

func execLine(line string) {
	ws := strings.Fields(line)
	bad := func() { run.Op(line, "bad-op", "bad-op", false) }
	if len(ws) == 1 && ws[0] == "facts" {
		// answered from the compiled code: the shapes the translator claims
		run.Op(line, implFacts(), "facts", false)
		return
	}
	if len(ws) < 2 || ws[0] != "reset" {
		bad()
		return
	}
	switch {
	case ws[1] == "bmfield":
		if len(ws) != 4 || !ops[ws[2]] {
			bad()
			return
		}
		toks := strings.Split(ws[3], ",")
		n := len(toks) - 1
		for _, t := range toks {
			v, ok := bmTokens[t]
			if !ok {
				bad()
				return
			}
			n += len(v)
		}
		if n > 38 {
			bad()
			return
		}
		execBMField(line, ws[2], toks)
	case ws[1] == "bbsid":
		if len(ws) != 4 || bidOf(ws[2]) == 0 {
			bad()
			return
		}
		req, ok := pName(ws[3])
		if !ok || len(req) > 12 || strings.ContainsAny(req, "_/") {
			bad()
			return
		}
		for _, c := range []byte(req) {
			if c <= 32 {
				ok = false
			}
		}
		if !ok {
			bad()
			return
		}
		execBBSID(line, ws[2], req)
	case ws[1] == "banrec":
		if len(ws) != 4 || !ops[ws[2]] {
			bad()
			return
		}
		steps := strings.Split(ws[3], "/")
		nP := 0
		okSteps := len(steps) <= 16
		for _, st := range steps {
			switch st {
			case "P":
				nP++
			case "B", "F", "S:none", "S:act", "S:exp", "S:junk", "S:empty", "S:dir":
			default:
				okSteps = false
			}
		}
		if !okSteps || nP == 0 {
			bad()
			return
		}
		execBanrec(line, ws[2], steps)
	case ws[1] == "thread":
		if len(ws) != 5 {
			bad()
			return
		}
		ao, ok1 := kv("ao", ws[2])
		atS, ok2 := kv("at", ws[3])
		at, ok3 := pI32(atS)
		steps := strings.Split(ws[4], "/")
		nT := 0
		for _, st := range steps {
			switch st {
			case "R", "C", "E":
			case "Ta", "Tb", "Tl":
				nT++
			default:
				ok1 = false
			}
		}
		if !ok1 || !ok2 || !ok3 || (ao != "self" && ao != "other") || len(steps) > 16 || nT == 0 {
			bad()
			return
		}
		execThread(line, ao, at, steps)
	case ws[1] == "friends":
		if len(ws) != 5 || !ops[ws[2]] || (ws[3] != "restricted" && ws[3] != "hidden") {
			bad()
			return
		}
		steps, ok := pSteps(ws[4])
		if !ok {
			bad()
			return
		}
		execFriends(line, ws[2], ws[3], steps)
	case ws[1] == "flood":
		if len(ws) != 5 {
			bad()
			return
		}
		a, ok1 := kv("nu", ws[2])
		b, ok2 := kv("k", ws[3])
		c, ok3 := kv("bc", ws[4])
		if !ok1 || !ok2 || !ok3 {
			bad()
			return
		}
		nu, ok1 := pI32(a)
		k, ok2 := pNat(b, 2, 40)
		bc, ok3 := pBool(c)
		if !ok1 || !ok2 || !ok3 || k == 0 {
			bad()
			return
		}
		execFlood(line, nu, int(k), bc)
	case ws[1] == "witness":
		if len(ws) < 4 || !ops[ws[3]] || (ws[2] != "unverified" && ws[2] != "coolingdown") {
			bad()
			return
		}
		r, ok := pRow(ws[4:])
		if !ok || !fixtureOK(r) {
			bad()
			return
		}
		want := witnessRow(ws[2])
		if r.facts() != want.facts() {
			// not the recorded witness: the model says wit=no
			u := materialise(r, cdWord(r), true)
			before := snapshot()
			res := callOp(ws[3], r, u)
			trace := "same"
			if snapshot() != before {
				trace = "changed"
			}
			run.Op(line, res+" "+trace+" wit=no", "witness:other", false)
			return
		}
		execRow(line, ws[3], r, ws[2])
	case ops[ws[1]]:
		r, ok := pRow(ws[2:])
		if !ok || !fixtureOK(r) {
			bad()
			return
		}
		execRow(line, ws[1], r, "")
	default:
		bad()
	}
}

// implFacts: the same line the Lean driver prints from Gen/WriteGuards.lean; here the claims are constants —
// a source change that invalidates one makes the two lines differ.
func implFacts() string {
	return fmt.Sprintf("newPostDelegates=true postperm2=true banCleanupOnReadError=false hbflReplaces=true hbflMissingKeeps=false maxFriend=%d guardsFirst=true,true,true,true", int(ptttype.MAX_FRIEND))
}

func main() {
	run = hx.Start("C08")
	var err error
	env, err = bbsenv.New(bbsenv.Options{})
	if err != nil {
		fmt.Fprintln(os.Stderr, "c08: env:", err)
		os.Exit(2)
	}
	defer env.Close()
	setupHome()

	run.Rule = "decision table over the facts of a write (user bits/counters, board attr/level/limits/users, friend, moderator, ban file, cool-down word, article): " +
		"base row + every single deviation + pairs of deviations + seeded random multi-deviations, per operation; witness rows of the recorded gaps; " +
		"posting floods (cool-down history); malformed lines. non-trivial = every well-formed row (each is a distinct fixture executed on the real code)"
	if run.Replay != "" {
		for _, l := range hx.ReplayOps(run.Replay) {
			execLine(l)
		}
	} else {
		generate()
	}
	cells := map[string]int{}
	for k, v := range onlyCells {
		cells[k] = v
	}
	run.Extra["only_this_clause_fails_rows"] = cells
	run.Finish()
}
