package main

// The decision-table generator.
//
// A row is the base row (a verified, unprivileged author with the post permission on a plain board: every
// clause holds, all four operations succeed) changed by a set of *deviations*: one deviation sets one fact
// (or one small group of facts that only mean something together, such as "cool-down running with post counter
// 10") to one of its other values.  For every operation the generator emits
//   - the base row and every single deviation           (each clause alone, each content refusal alone)
//   - pairs of deviations                                (all in thorough; a seeded half in quick)
//   - seeded random rows with 3..7 deviations            (interactions across groups)
// Deviations of a *board* are applied to the board the operation writes to (the target for a cross-post);
// cross-post rows additionally deviate the source board.  Then the witness rows of the recorded gaps, posting
// floods, and a malformed stream.

import (
	"fmt"
	"strings"
)

const (
	xEXTRA = 0o100000000 // PERM_ACCTREG: used as "an extra level bit a board can demand"
	mVOTE  = 0x40
	mMARK  = 0x02
	mSOLVE = 0x10
)

const artName = "M.1500000000.A.123"

func baseRow() row {
	pb := func(n string) brd { return brd{name: n, ban: "none"} }
	return row{
		id: theID, ul: pBASIC | pPOST | pLOGINOK, ud: 100, ub: 0, uo: true, uf: 1000000000,
		s: pb("vsrc"), t: pb("vtgt"),
		a:  art{found: true, argName: artName, entName: artName, entOwner: theID, mode: 0, exists: true},
		cd: "exp",
	}
}

// the witness rows of Model/C08.lean (`witnessUnverified`, `witnessCoolingDown`)
func witnessRow(name string) row {
	r := baseRow()
	switch name {
	case "unverified":
		r.ul = pBASIC | pPOST
	case "coolingdown":
		r.cd, r.pt = "act", 15
	}
	return r
}

type dev struct {
	name string
	f    func(r *row, b *brd)
}

// deviations of the user, the written board `b`, the cool-down word and the article
func deviations(op string) []dev {
	ds := []dev{
		// user bits
		{"sysop", func(r *row, b *brd) { r.ul |= pSYSOP }},
		{"no-basic", func(r *row, b *brd) { r.ul &^= pBASIC }},
		{"no-post", func(r *row, b *brd) { r.ul &^= pPOST }},
		{"unverified", func(r *row, b *brd) { r.ul &^= pLOGINOK }},
		{"violatelaw", func(r *row, b *brd) { r.ul |= pVL }},
		{"police", func(r *row, b *brd) { r.ul |= pPOLICE }},
		{"policeman", func(r *row, b *brd) { r.ul |= pPOLMAN }},
		{"user-extra", func(r *row, b *brd) { r.ul |= xEXTRA }},
		{"user-bm-bit", func(r *row, b *brd) { r.ul |= pBM }},
		{"under18", func(r *row, b *brd) { r.uo = false }},
		// user counters against the limits
		{"days0", func(r *row, b *brd) { r.ud = 0 }},
		{"days49", func(r *row, b *brd) { r.ud = 49 }},
		{"days50", func(r *row, b *brd) { r.ud = 50 }},
		{"bad252", func(r *row, b *brd) { r.ub = 252 }},
		{"bad253", func(r *row, b *brd) { r.ub = 253 }},
		{"bad255", func(r *row, b *brd) { r.ub = 255 }},
		// board identity
		{"board-default", func(r *row, b *brd) { b.name = "SYSOP" }},
		{"board-security", func(r *row, b *brd) { b.name = "SECURITY" }},
		{"board-allpost", func(r *row, b *brd) { b.name = "ALLPOST" }},
		// board attributes
		{"hide", func(r *row, b *brd) { b.attr |= aHIDE }},
		{"postmask", func(r *row, b *brd) { b.attr |= aPOSTMASK }},
		{"restricted", func(r *row, b *brd) { b.attr |= aRESTRICTED }},
		{"guestpost", func(r *row, b *brd) { b.attr |= aGUESTPOST }},
		{"cooldown-board", func(r *row, b *brd) { b.attr |= aCOOLDOWN }},
		{"over18-board", func(r *row, b *brd) { b.attr |= aOVER18 }},
		// board level
		{"level-post", func(r *row, b *brd) { b.lvl |= pPOST }},
		{"level-extra", func(r *row, b *brd) { b.lvl |= xEXTRA }},
		{"level-bm", func(r *row, b *brd) { b.lvl |= pBM }},
		{"level-vl", func(r *row, b *brd) { b.lvl |= pVL }},
		{"level-loginok", func(r *row, b *brd) { b.lvl |= pLOGINOK }},
		// limits
		{"limit-days5", func(r *row, b *brd) { b.lg = 5 }},
		{"limit-days26", func(r *row, b *brd) { b.lg = 26 }},
		{"limit-days128", func(r *row, b *brd) { b.lg = 128 }},
		{"days2549", func(r *row, b *brd) { r.ud = 2549 }},
		{"days2550", func(r *row, b *brd) { r.ud = 2550 }},
		{"days-max", func(r *row, b *brd) { r.ud = 4294967295 }},
		{"limit-days255", func(r *row, b *brd) { b.lg = 255 }},
		{"limit-bad3", func(r *row, b *brd) { b.lb = 3 }},
		{"limit-bad255", func(r *row, b *brd) { b.lb = 255 }},
		// users on the board
		{"nuser-neg", func(r *row, b *brd) { b.nuser = -5 }},
		{"nuser30", func(r *row, b *brd) { b.nuser = 30 }},
		{"nuser31", func(r *row, b *brd) { b.nuser = 31 }},
		{"nuser1000", func(r *row, b *brd) { b.nuser = 1000 }},
		{"nuser2000", func(r *row, b *brd) { b.nuser = 2000 }},
		{"nuser4000", func(r *row, b *brd) { b.nuser = 4000 }},
		{"nuser-max", func(r *row, b *brd) { b.nuser = 2147483647 }},
		{"nuser-min", func(r *row, b *brd) { b.nuser = -2147483648 }},
		{"nuser1001", func(r *row, b *brd) { b.nuser = 1001 }},
		{"nuser2001", func(r *row, b *brd) { b.nuser = 2001 }},
		{"nuser4001", func(r *row, b *brd) { b.nuser = 4001 }},
		// relations user/board
		{"friend", func(r *row, b *brd) { b.friend = true }},
		{"moderator", func(r *row, b *brd) { b.bm = true }},
		{"ban-active", func(r *row, b *brd) { b.ban = "act" }},
		{"ban-expired", func(r *row, b *brd) { b.ban = "exp" }},
		{"ban-junk", func(r *row, b *brd) { b.ban = "junk" }},
		{"ban-empty", func(r *row, b *brd) { b.ban = "empty" }},
		{"ban-dir", func(r *row, b *brd) { b.ban = "dir" }},
		// cool-down word
		{"cd-exp-15", func(r *row, b *brd) { r.cd, r.pt = "exp", 15 }},
		{"cd-act-0", func(r *row, b *brd) { r.cd, r.pt = "act", 0 }},
		{"cd-act-1", func(r *row, b *brd) { r.cd, r.pt = "act", 1 }},
		{"cd-act-2", func(r *row, b *brd) { r.cd, r.pt = "act", 2 }},
		{"cd-act-3", func(r *row, b *brd) { r.cd, r.pt = "act", 3 }},
		{"cd-act-9", func(r *row, b *brd) { r.cd, r.pt = "act", 9 }},
		{"cd-act-10", func(r *row, b *brd) { r.cd, r.pt = "act", 10 }},
		{"cd-act-14", func(r *row, b *brd) { r.cd, r.pt = "act", 14 }},
		{"cd-act-15", func(r *row, b *brd) { r.cd, r.pt = "act", 15 }},
		{"cd-max-1", func(r *row, b *brd) { r.cd, r.pt = "max", 1 }},
		{"cd-max-15", func(r *row, b *brd) { r.cd, r.pt = "max", 15 }},
		{"cd-neg-15", func(r *row, b *brd) { r.cd, r.pt = "neg", 15 }},
		{"cd-negact-3", func(r *row, b *brd) { r.cd, r.pt = "negact", 3 }},
		{"cd-negact-15", func(r *row, b *brd) { r.cd, r.pt = "negact", 15 }},
	}
	if op != "newpost" {
		ds = append(ds,
			dev{"art-missing", func(r *row, b *brd) { r.a.found = false }},
			dev{"dir-empty", func(r *row, b *brd) { r.a.total0, r.a.found = true, false }},
			dev{"owner-other", func(r *row, b *brd) { r.a.entOwner = "other" }},
			dev{"owner-dash", func(r *row, b *brd) { r.a.entOwner = "-verifu" }},
			dev{"owner-prefix", func(r *row, b *brd) { r.a.entOwner = "verifu." }},
			dev{"older-than-account", func(r *row, b *brd) { r.uf = 1550000000 }},
			dev{"born-with-article", func(r *row, b *brd) { r.uf = artTime }},
			dev{"entry-deleted", func(r *row, b *brd) { r.a.entName = ".d" + artName[2:] }},
			dev{"name-L", func(r *row, b *brd) { r.a.argName = "L" + artName[1:]; r.a.entName = r.a.argName }},
			dev{"modified-old", func(r *row, b *brd) { r.a.modified = 1400000001 }},
			dev{"modified-recent", func(r *row, b *brd) { r.a.modified = 1590000000 }},
			dev{"modified-max", func(r *row, b *brd) { r.a.modified = 2147483647 }},
			dev{"modified-neg", func(r *row, b *brd) { r.a.modified = -1 }},
			dev{"mode-vote", func(r *row, b *brd) { r.a.mode |= mVOTE }},
			dev{"mode-marked", func(r *row, b *brd) { r.a.mode |= mMARK }},
			dev{"mode-solved", func(r *row, b *brd) { r.a.mode |= mSOLVE }},
			dev{"src-voteboard", func(r *row, b *brd) { r.s.attr |= aVOTEBOARD }},
			dev{"src-norecommend", func(r *row, b *brd) { r.s.attr |= aNORECOMM }},
		)
	}
	if op == "recommend" || op == "crosspost" {
		// the index entry is a link entry although the requested name is not (cmsys.GetRecord compares from byte 2).
		// Not for EditPost: it replaces the article file and then fails in ModifyDirLite on the differing name — an
		// inconsistency of the index, not a permission refusal.
		ds = append(ds, dev{"entry-link", func(r *row, b *brd) { r.a.entName = "L" + artName[1:] }})
	}
	if op == "crosspost" {
		// the source board of a cross-post
		// only CrossPost looks at the article file before its last permission test (os.Stat); Recommend retries
		// for five seconds and EditPost fails at its content-hash check on a missing file: not permission refusals
		ds = append(ds,
			dev{"file-missing", func(r *row, b *brd) { r.a.exists = false }},
			dev{"src-cplog", func(r *row, b *brd) { r.s.attr |= aCPLOG }},
			dev{"src-hidden-unreadable", func(r *row, b *brd) { r.s.attr |= aHIDE | aPOSTMASK }},
			dev{"src-friend", func(r *row, b *brd) { r.s.friend = true }},
			dev{"src-ban", func(r *row, b *brd) { r.s.ban = "act" }},
			dev{"src-limit-days255", func(r *row, b *brd) { r.s.lg = 255 }},
			dev{"src-restricted", func(r *row, b *brd) { r.s.attr |= aRESTRICTED }},
			dev{"src-security", func(r *row, b *brd) {
				if b.name != "SECURITY" {
					r.s.name = "SECURITY"
				}
			}},
			dev{"src-moderator", func(r *row, b *brd) { r.s.bm = true }},
			dev{"src-level-extra", func(r *row, b *brd) { r.s.lvl |= xEXTRA }},
		)
	}
	return ds
}

func apply(op string, ds []dev) row {
	r := baseRow()
	b := &r.s
	if op == "crosspost" {
		b = &r.t
	}
	for _, d := range ds {
		d.f(&r, b)
	}
	if r.s.name == r.t.name {
		// both deviations chose the same reserved board: keep the written board, move the other back
		if op == "crosspost" {
			r.s.name = "vsrc"
		} else {
			r.t.name = "vtgt"
		}
	}
	return r
}

var hubs = map[string]bool{"sysop": true, "moderator": true, "unverified": true, "no-basic": true, "no-post": true, "friend": true,
	"postmask": true, "hide": true, "violatelaw": true}

var opList = []string{"newpost", "recommend", "editpost", "crosspost"}

func emit(op string, r row) {
	execLine("reset " + op + " " + r.facts())
}

func generate() {
	th := run.Thorough()
	execLine("facts")
	// the recorded gaps, replayed from the Lean witness rows
	execLine("reset witness unverified recommend " + witnessRow("unverified").facts())
	execLine("reset witness unverified editpost " + witnessRow("unverified").facts())
	execLine("reset witness coolingdown editpost " + witnessRow("coolingdown").facts())
	// the same rows on the operations that do enforce the clause
	execLine("reset witness unverified newpost " + witnessRow("unverified").facts())
	execLine("reset witness unverified crosspost " + witnessRow("unverified").facts())
	execLine("reset witness coolingdown newpost " + witnessRow("coolingdown").facts())
	execLine("reset witness coolingdown recommend " + witnessRow("coolingdown").facts())
	execLine("reset witness coolingdown crosspost " + witnessRow("coolingdown").facts())

	for _, op := range opList {
		ds := deviations(op)
		emit(op, apply(op, nil))
		for _, d := range ds {
			emit(op, apply(op, []dev{d}))
		}
	}
	// rows in which exactly one clause of the rule set fails, for every operation
	only := [][]string{
		{"hide", "postmask"}, {"over18-board", "under18"}, {"board-security"}, {"board-allpost"}, {"ban-active"}, {"no-post"},
		{"restricted"}, {"violatelaw"}, {"level-extra", "postmask"}, {"limit-days5", "days49"}, {"limit-bad3", "bad253"},
		{"unverified"}, {"cd-act-15"}, {"cd-act-10"}, {"cooldown-board", "cd-act-0"}, {"nuser4001", "cd-act-1"},
		{"nuser2001", "cd-act-2"}, {"nuser1001", "cd-act-3"}, {"owner-other"}, {"older-than-account"},
		{"older-than-account", "modified-recent"}, {"older-than-account", "modified-max"}, {"born-with-article", "modified-old"},
		{"owner-other", "modified-recent"},
	}
	for _, op := range opList {
		byName := map[string]dev{}
		for _, d := range deviations(op) {
			byName[d.name] = d
		}
		for _, names := range only {
			var pick []dev
			for _, n := range names {
				if d, ok := byName[n]; ok {
					pick = append(pick, d)
				}
			}
			if len(pick) == len(names) {
				emit(op, apply(op, pick))
			}
		}
	}
	boundaryGrids()
	for _, op := range opList {
		ds := deviations(op)
		for i := range ds {
			for j := i + 1; j < len(ds); j++ {
				// pairs with one of the facts that switch whole clauses on or off (exemptions, short-cuts) are never
				// sampled away
				if !th && !hubs[ds[i].name] && !hubs[ds[j].name] && run.R.Intn(100) >= 45 {
					continue
				}
				emit(op, apply(op, []dev{ds[i], ds[j]}))
			}
		}
	}
	nRand := 500
	if th {
		nRand = 12000
	}
	for _, op := range opList {
		ds := deviations(op)
		for n := 0; n < nRand; n++ {
			k := 3 + run.R.Intn(5)
			var pick []dev
			for len(pick) < k {
				pick = append(pick, ds[run.R.Intn(len(ds))])
			}
			emit(op, apply(op, pick))
		}
	}
	if th {
		// the complete product of the facts postpermMsg and boardPermStat look at, per operation
		postpermProduct()
	}

	friendHistories(th)
	threadHistories(th)
	banrecHistories(th)
	// the BM field: tokens that are, contain, or merely begin with the id of the 12-character account
	for _, op := range opList {
		for _, f := range []string{"V", "v", "Vx", "Vxx", "c", "c,V", "c,Vx", "Vx,c", "Vxx,p", "z,Vx", "e,V", "e", "c,p,k,s,V", "c,p,k,V", "z,c,p,k,V",
			"c,p,Vx,V", "Vx,V", "s,Vxx"} {
			execLine("reset bmfield " + op + " " + f)
		}
	}
	execLine("reset bmfield newpost V,Q")
	execLine("reset bmfield newpost c,c,c,c,V")
	// bbs-level ids: the name part against the name of the bid's board (vsrc is a proper prefix of vsrc2)
	for _, b := range []string{"vsrc2", "vsrc", "vtgt", "SYSOP"} {
		for _, req := range []string{"vsrc2", "vsrc", "vsr", "v", "vsrc22", "vtgt", "VSRC2", "Vsrc", "SYSOP", "SYS", "-"} {
			execLine("reset bbsid " + b + " " + hexs(req))
		}
	}
	execLine("reset bbsid nosuch " + hexs("vsrc"))
	execLine("reset bbsid vsrc " + hexs("a_b"))

	// cool-down histories
	for _, nu := range []int32{0, 30, 31, 1000, 1001, 2001, 4001} {
		k := 13
		if nu > 1000 {
			k = 5
		}
		execLine(fmt.Sprintf("reset flood nu=%d k=%d bc=0", nu, k))
	}
	execLine("reset flood nu=31 k=3 bc=1")
	execLine("reset flood nu=0 k=17 bc=0")

	// malformed stream
	good := "reset newpost " + baseRow().facts()
	ws := strings.Fields(good)
	bad := []string{
		"", "reset", "newpost", "reset unknown " + baseRow().facts(), "reset newpost", strings.Join(ws[:len(ws)-1], " "),
		good + " extra=1", strings.Replace(good, "pt=0", "pt=16", 1), strings.Replace(good, "cd=exp", "cd=now", 1), strings.Replace(good, "cd=exp", "cd=ACT", 1),
		strings.Replace(good, "ul=19", "ul=1G", 1), strings.Replace(good, "ul=19", "ul=0x19", 1), strings.Replace(good, "ul=19", "ul=123456789", 1),
		strings.Replace(good, "ub=0", "ub=256", 1), strings.Replace(good, "sb=none", "sb=maybe", 1),
		strings.Replace(good, "sn="+hexs("vsrc"), "sn="+hexs("nosuch"), 1), strings.Replace(good, "tn="+hexs("vtgt"), "tn="+hexs("vsrc"), 1),
		strings.Replace(good, "id="+hexs(theID), "id="+hexs("SYSOP"), 1), strings.Replace(good, "uo=1", "uo=2", 1),
		strings.Replace(good, "an="+hexs(artName), "an="+hexs("../../x"), 1), strings.Replace(good, "an="+hexs(artName), "an=zz", 1),
		strings.Replace(good, "su=0", "su=2147483648", 1), strings.Replace(good, "uf=1000000000", "uf=-2147483649", 1),
		strings.Replace(good, "ud=100 ub=0", "ub=0 ud=100", 1), strings.Replace(good, "ae="+hexs(artName), "ae="+hexs("M.2"), 1),
		"reset flood nu=0 k=0 bc=0", "reset flood nu=0 k=41 bc=0", "reset flood nu=x k=2 bc=0", "reset flood nu=0 k=2",
		"reset witness nosuch newpost " + baseRow().facts(), "reset witness unverified nosuch " + baseRow().facts(),
		"reset witness unverified newpost " + baseRow().facts(), "facts now",
	}
	for _, l := range bad {
		if l == "" {
			continue
		}
		execLine(l)
	}
	run.Exhaust = false
	checkCells()
}

// boundaryGrids: the numeric dimensions at the edges of their Go types, for every operation, on the written board,
// everything else at the base row (so that only the clause under test can fail):
//   - login-days limit L (uint8, unit: 10 days) x login days around L*10, around (L*10 mod 256) — where a uint8
//     product would wrap —, around 2550 and at the top of uint32;
//   - bad-post limit B (uint8) x bad posts around 255-B and at 0 / 255;
//   - users on the board around every threshold of the flood table x every value of the post counter nibble, with the
//     cool-down running; the counter nibble with the time part at its maximum and with bit 31 of the word set;
//   - every single bit of the 32-bit level masks: demanded by the board (with and without BRD_POSTMASK), held or not
//     held by the user.
func boundaryGrids() {
	for _, op := range opList {
		at := func(f func(r *row, b *brd)) {
			r := baseRow()
			b := &r.s
			if op == "crosspost" {
				b = &r.t
			}
			f(&r, b)
			emit(op, r)
		}
		for _, L := range []int{0, 1, 25, 26, 30, 127, 128, 255} {
			seen := map[int64]bool{}
			for _, d := range []int64{0, int64(L*10%256) - 1, int64(L * 10 % 256), int64(L*10) - 1, int64(L * 10), 2549, 2550, 4294967295} {
				if d < 0 || seen[d] {
					continue
				}
				seen[d] = true
				at(func(r *row, b *brd) { b.lg, r.ud = uint8(L), uint32(d) })
			}
		}
		for _, B := range []int{0, 1, 254, 255} {
			seen := map[int]bool{}
			for _, p := range []int{0, 255 - B, 256 - B, 255} {
				if p < 0 || p > 255 || seen[p] {
					continue
				}
				seen[p] = true
				at(func(r *row, b *brd) { b.lb, r.ub = uint8(B), uint8(p) })
			}
		}
		for _, nu := range []int32{-1, 0, 30, 31, 1000, 1001, 2000, 2001, 4000, 4001, 2147483647} {
			for pt := 0; pt < 16; pt++ {
				at(func(r *row, b *brd) { b.nuser, r.cd, r.pt = nu, "act", pt })
			}
		}
		for _, cd := range []string{"exp", "max", "neg", "negact"} {
			for pt := 0; pt < 16; pt++ {
				at(func(r *row, b *brd) { r.cd, r.pt = cd, pt })
			}
		}
		// the moderator exemption: listed or not x PERM_BASIC x PERM_LOGINOK x PERM_BM, on boards where only a moderator gets
		// through (limits the user does not meet; hidden board whose friend list does not name the user; both)
		for bits := 0; bits < 16; bits++ {
			for sc := 0; sc < 4; sc++ {
				at(func(r *row, b *brd) {
					b.bm = bits&1 != 0
					if bits&2 == 0 {
						r.ul &^= pBASIC
					}
					if bits&4 == 0 {
						r.ul &^= pLOGINOK
					}
					if bits&8 != 0 {
						r.ul |= pBM
					}
					switch sc {
					case 0:
						b.lg = 255
					case 1:
						b.lb, r.ub = 255, 1
					case 2:
						b.attr |= aHIDE | aPOSTMASK
					case 3:
						b.attr |= aHIDE | aPOSTMASK
						b.lg = 255
					}
				})
			}
		}
		for bit := 0; bit < 32; bit++ {
			m := uint32(1) << uint(bit)
			for _, pm := range []bool{false, true} {
				for _, held := range []bool{false, true} {
					at(func(r *row, b *brd) {
						b.lvl = m
						if pm {
							b.attr |= aPOSTMASK
						}
						if held {
							r.ul |= m
						} else {
							r.ul &^= m
						}
					})
				}
			}
		}
	}
}

// postpermProduct: all combinations of the facts of the posting and reading decisions (thorough).
func postpermProduct() {
	for _, op := range opList {
		for sys := 0; sys < 2; sys++ {
			for _, ban := range []string{"none", "exp", "act"} {
				for _, name := range []string{"", "SYSOP", "SECURITY"} {
					for bits := 0; bits < 128; bits++ {
						for lv := 0; lv < 3; lv++ {
							r := baseRow()
							b := &r.s
							if op == "crosspost" {
								b = &r.t
							}
							if sys == 1 {
								r.ul |= pSYSOP
							}
							b.ban = ban
							if name != "" {
								b.name = name
							}
							if bits&1 != 0 {
								b.attr |= aGUESTPOST
							}
							if bits&2 != 0 {
								r.ul &^= pPOST
							}
							if bits&4 != 0 {
								b.attr |= aHIDE
							}
							if bits&8 != 0 {
								b.attr |= aRESTRICTED
							}
							if bits&16 != 0 {
								b.friend = true
							}
							if bits&32 != 0 {
								r.ul |= pVL
							}
							if bits&64 != 0 {
								b.attr |= aPOSTMASK
							}
							switch lv {
							case 1:
								b.lvl = xEXTRA | pVL
							case 2:
								b.lvl = xEXTRA | pPOST
								r.ul |= xEXTRA
							}
							emit(op, r)
						}
					}
				}
			}
		}
	}
}

// friendHistories: histories on the friend list of the written board (restricted-post, or hidden).  A list is
// loaded, the user writes, the list changes (shrinks, grows, is reordered, loses the user from the middle or the end,
// is emptied, is removed), is loaded again — explicitly (HbflReload after an edit), by expiry (the reload inside
// IsHiddenBoardFriend), or not at all — and the user writes again.
func friendHistories(th bool) {
	first := []string{"u", "c,u", "u,c", "c,p,u", "c,u,p", "c,p,k,u", "g,u", "z,G,e,U", "c*99,u", "c*100,u", "c*99,g,z,u", "-", "c"}
	second := []string{"c", "-", "p", "c,p", "u", "c,u", "p,c,k", "c,p,k", "g", "c*100", "u,c*100"}
	reloads := []string{"L", "WX", "W", "D"}
	for _, op := range opList {
		for _, kind := range []string{"restricted", "hidden"} {
			emitF := func(steps string) { execLine("reset friends " + op + " " + kind + " " + steps) }
			emitF("P")
			emitF("X/P")
			emitF("D/P")
			for _, l1 := range first {
				emitF("L:" + l1 + "/P")
				emitF("W:" + l1 + "/P")
				emitF("W:" + l1 + "/X/P/P")
			}
			n := 0
			for _, l1 := range first {
				for _, l2 := range second {
					for _, rl := range reloads {
						n++
						if !th && (kind == "hidden" || op == "editpost") && run.R.Intn(4) != 0 {
							continue
						}
						var mid string
						switch rl {
						case "L":
							mid = "L:" + l2
						case "WX":
							mid = "W:" + l2 + "/X"
						case "W":
							mid = "W:" + l2
						case "D":
							if l2 != "c" {
								continue
							}
							mid = "D"
						}
						emitF("L:" + l1 + "/P/" + mid + "/P")
					}
				}
			}
			// longer random histories
			nr := 12
			if th {
				nr = 150
			}
			pool := append(append([]string{}, first...), second...)
			for j := 0; j < nr; j++ {
				k := 3 + run.R.Intn(8)
				var st []string
				for len(st) < k {
					switch run.R.Intn(7) {
					case 0, 1:
						st = append(st, "L:"+pool[run.R.Intn(len(pool))])
					case 2:
						st = append(st, "W:"+pool[run.R.Intn(len(pool))])
					case 3:
						st = append(st, "X")
					case 4:
						if run.R.Intn(3) == 0 {
							st = append(st, "D")
						}
					default:
						st = append(st, "P")
					}
				}
				st = append(st, "P")
				emitF(strings.Join(st, "/"))
			}
		}
	}
	for _, l := range []string{"reset friends newpost restricted", "reset friends newpost open L:u/P", "reset friends newpost restricted L:u",
		"reset friends newpost restricted L:q/P", "reset friends newpost restricted L:u*0/P", "reset friends newpost restricted L:u*121/P",
		"reset friends nosuch restricted P", "reset friends newpost restricted L:u:c/P", "reset friends newpost restricted P//P"} {
		execLine(l)
	}
}

// threadHistories: histories on one article.  The article exists under an id; other accounts comment on it, cross-post it
// (forward comment) or a sysop edits it — each moves the entry's Modified — and in between the account `verifu` tries to
// edit it: as the author (registered before the article), as an account registered at the very second of the article,
// as a LATER account with the same id, or as a stranger (article under another id).
func threadHistories(th bool) {
	touches := []string{"", "R", "C", "E", "R/R", "R/E", "C/R", "E/C/R"}
	for _, ao := range []string{"self", "other"} {
		for _, at := range []int32{0, 1400000001, 1590000000} {
			for _, tr := range []string{"Tl", "Ta", "Tb"} {
				for _, t := range touches {
					if !th && at != 0 && (tr != "Tl" || len(t) > 1) {
						continue
					}
					st := tr
					if t != "" {
						st = tr + "/" + t + "/" + tr
					}
					execLine(fmt.Sprintf("reset thread ao=%s at=%d %s", ao, at, st))
				}
			}
		}
	}
	nr := 10
	if th {
		nr = 200
	}
	all := []string{"R", "C", "E", "Ta", "Tb", "Tl", "Tl", "R"}
	for j := 0; j < nr; j++ {
		k := 2 + run.R.Intn(9)
		var st []string
		for len(st) < k {
			st = append(st, all[run.R.Intn(len(all))])
		}
		st = append(st, "Tl")
		ao := "self"
		if run.R.Intn(4) == 0 {
			ao = "other"
		}
		execLine(fmt.Sprintf("reset thread ao=%s at=%d %s", ao, []int32{0, 1400000001, 1590000000}[run.R.Intn(3)], strings.Join(st, "/")))
	}
	for _, l := range []string{"reset thread ao=self at=0", "reset thread ao=self at=0 R/E", "reset thread ao=nobody at=0 Tl", "reset thread ao=self at=x Tl",
		"reset thread ao=self at=0 Tl/Q", "reset thread at=0 ao=self Tl"} {
		execLine(l)
	}
}

// banrecHistories: histories on the ban record.  The record is put into every state a reader can meet (absent, in
// force, expired, unparsable, empty, a directory, created-but-not-yet-written by a session that holds it open) and the
// user writes; then the ban is completed and the user writes again.
func banrecHistories(th bool) {
	hs := []string{"P", "S:act/P/P", "S:exp/P/P", "S:junk/P/P", "S:empty/P/P", "S:dir/P/P", "S:empty/P/S:act/P", "S:dir/P/S:act/P",
		"B/P/F/P", "B/F/P", "B/P/P/F/P/P", "S:act/P/S:none/P", "S:exp/P/S:act/P", "S:empty/P/S:exp/P/S:act/P", "B/P/F/P/S:none/P"}
	for _, op := range opList {
		for _, h := range hs {
			execLine("reset banrec " + op + " " + h)
		}
		nr := 6
		if th {
			nr = 80
		}
		all := []string{"P", "P", "B", "F", "S:none", "S:act", "S:exp", "S:junk", "S:empty", "S:dir"}
		for j := 0; j < nr; j++ {
			k := 2 + run.R.Intn(8)
			var st []string
			for len(st) < k {
				st = append(st, all[run.R.Intn(len(all))])
			}
			st = append(st, "P")
			execLine("reset banrec " + op + " " + strings.Join(st, "/"))
		}
	}
	for _, l := range []string{"reset banrec newpost", "reset banrec newpost S:act", "reset banrec newpost S:maybe/P", "reset banrec nosuch P", "reset banrec newpost P//P"} {
		execLine(l)
	}
}

var clauseList = []string{"read", "readonly", "banned", "postperm", "restrictedpost", "violatelaw", "level", "restriction", "verified", "cooldown"}

// checkCells: every (operation, clause) cell must have been exercised by a row in which only that clause fails.
func checkCells() {
	for _, op := range opList {
		cl := clauseList
		if op == "editpost" {
			cl = append(append([]string{}, clauseList...), "owner")
		}
		for _, c := range cl {
			if onlyCells[op+":"+c] == 0 {
				run.Fail(-1, "generator-gap:"+op+":"+c, "no generated row in which only this clause fails")
			}
		}
	}
}
