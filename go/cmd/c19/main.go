// c19: correspondence harness for the favourites file (property C19).
//
// It builds trees through the real API (fav.NewFavRaw/AddBoard/AddLine/AddFolder, then
// overwrites exported fields of the entry just added), saves them with FavRaw.Save, reads
// the bytes of home/<c>/<id>/.fav, loads them back with fav.Load, loads arbitrary bytes,
// and kills a saving child process at every system call (strace fault injection).
//
// Op lines (one per operation, answered by the Lean driver drv_c19 as well):
//
//	rt <tree>                          build, Save, file bytes, Load      -> ok|err <hex> <dump> | api-reject | api-dup | PANIC
//	rtp <nB> <nL> <nF> <tree>          as rt, but the root counters are overwritten before Save (not judged)
//	load <hex>                         fav.Load on these bytes as .fav    -> err | <dump> | PANIC | TIMEOUT
//	mt <fileMTime|none> <memMTime>     checkIsToSave through Save         -> write | keepSelf | reload
//	trace save <tree> | trace wf <hex> system calls of one uninterrupted save (strace) -> shape
//	crash save <sc> <k> <oldhex> <tree> | crash wf <sc> <k> <oldhex> <newhex>
//	                                   kill the saving child before its k-th <sc> call -> old-or-new | torn:<hex>
//
//	wg <retrieveTS> <hex|none>         WriteFavorites(content); mtime := 1000000100; GetFavorites(retrieveTS) -> <hex> <mtime> | nil <mtime>
//	wgt <tree>                         build, Save, GetFavorites, WriteFavorites to a 2nd user, Load there -> as rt
//	efbig save <limit> <oldhex|none> <tree> | efbig wf <limit> <oldhex|none> <newhex>
//	                                   the save runs in a child whose writes fail with EFBIG past <limit> bytes
//	                                   (RLIMIT_FSIZE, SIGXFSZ ignored) -> ok new | err old | <ret> torn:<hex> …
//	fav4 <hex> | fav4t <tree>          only a .fav4 (these bytes / the reference image of the tree, no version word)
//	                                   exists: Load migrates it -> ok <hex of the new .fav> <dump of a 2nd Load> | err | PANIC
//	conc <writers> <millis> <seed>     overlapping ptt.WriteFavorites calls for one user + a reader (P-hat only) -> whole | torn …
//
// <tree> := item*      item := B <attr> <bid> <lastvisit> <battr> | L <attr> <lid> | F <attr> <fid> <titlehex> [ item* ]
package main

import (
	"bytes"
	"fmt"
	"math"
	"os"
	"os/exec"
	"os/signal"
	"path/filepath"
	"regexp"
	"runtime"
	"strconv"
	"strings"
	"sync"
	"sync/atomic"
	"syscall"
	"time"

	"github.com/Ptt-official-app/go-pttbbs/ptt"
	"github.com/Ptt-official-app/go-pttbbs/ptt/fav"
	"github.com/Ptt-official-app/go-pttbbs/ptttype"
	"github.com/Ptt-official-app/go-pttbbs/types"
	"verifharness/internal/bbsenv"
	"verifharness/internal/hx"
)

const titleLen = len(ptttype.BoardTitle_t{})

// ---- tree specifications ------------------------------------------------------------

type spec struct {
	kind  byte // 'B','L','F'
	attr  uint8
	id    uint8  // lid / fid written into the entry after the add
	bid   uint32 // board
	lv    uint32
	battr uint8
	title []byte
	sub   []*spec
}

func parseTree(ts []string) ([]*spec, error) {
	items, rest, err := parseItems(ts)
	if err != nil {
		return nil, err
	}
	if len(rest) != 0 {
		return nil, fmt.Errorf("trailing tokens")
	}
	return items, nil
}

func num(s string, max uint64) (uint64, error) {
	v, err := strconv.ParseUint(s, 10, 64)
	if err != nil || v > max {
		return 0, fmt.Errorf("bad number %q", s)
	}
	return v, nil
}

func parseItems(ts []string) (items []*spec, rest []string, err error) {
	for len(ts) > 0 && ts[0] != "]" {
		switch ts[0] {
		case "B":
			if len(ts) < 5 {
				return nil, nil, fmt.Errorf("short B")
			}
			a, e1 := num(ts[1], 255)
			b, e2 := num(ts[2], math.MaxInt32)
			l, e3 := num(ts[3], math.MaxUint32)
			ba, e4 := num(ts[4], 255)
			if e1 != nil || e2 != nil || e3 != nil || e4 != nil {
				return nil, nil, fmt.Errorf("bad B")
			}
			items = append(items, &spec{kind: 'B', attr: uint8(a), bid: uint32(b), lv: uint32(l), battr: uint8(ba)})
			ts = ts[5:]
		case "L":
			if len(ts) < 3 {
				return nil, nil, fmt.Errorf("short L")
			}
			a, e1 := num(ts[1], 255)
			l, e2 := num(ts[2], 255)
			if e1 != nil || e2 != nil {
				return nil, nil, fmt.Errorf("bad L")
			}
			items = append(items, &spec{kind: 'L', attr: uint8(a), id: uint8(l)})
			ts = ts[3:]
		case "F":
			if len(ts) < 6 || ts[4] != "[" {
				return nil, nil, fmt.Errorf("short F")
			}
			a, e1 := num(ts[1], 255)
			f, e2 := num(ts[2], 255)
			if e1 != nil || e2 != nil || !isHex(ts[3]) {
				return nil, nil, fmt.Errorf("bad F")
			}
			t := hx.UnHex(ts[3])
			if len(t) > titleLen {
				return nil, nil, fmt.Errorf("long title")
			}
			sub, r, e := parseItems(ts[5:])
			if e != nil {
				return nil, nil, e
			}
			if len(r) == 0 || r[0] != "]" {
				return nil, nil, fmt.Errorf("no ]")
			}
			title := make([]byte, titleLen)
			copy(title, t)
			items = append(items, &spec{kind: 'F', attr: uint8(a), id: uint8(f), title: title, sub: sub})
			ts = r[1:]
		default:
			return nil, nil, fmt.Errorf("bad token %q", ts[0])
		}
	}
	return items, ts, nil
}

func isHex(s string) bool {
	if s == "-" {
		return true
	}
	if len(s)%2 != 0 || len(s) == 0 {
		return false
	}
	for _, c := range s {
		if !(c >= '0' && c <= '9' || c >= 'a' && c <= 'f' || c >= 'A' && c <= 'F') {
			return false
		}
	}
	return true
}

func fmtTree(items []*spec) string {
	var b strings.Builder
	var rec func(items []*spec)
	rec = func(items []*spec) {
		for _, it := range items {
			if b.Len() > 0 {
				b.WriteByte(' ')
			}
			switch it.kind {
			case 'B':
				fmt.Fprintf(&b, "B %d %d %d %d", it.attr, it.bid, it.lv, it.battr)
			case 'L':
				fmt.Fprintf(&b, "L %d %d", it.attr, it.id)
			case 'F':
				t := it.title
				for len(t) > 0 && t[len(t)-1] == 0 {
					t = t[:len(t)-1]
				}
				fmt.Fprintf(&b, "F %d %d %s [", it.attr, it.id, hx.Hex(t))
				rec(it.sub)
				b.WriteString(" ]")
			}
		}
	}
	rec(items)
	return b.String()
}

// ---- the real code ----------------------------------------------------------------------

var (
	env     *bbsenv.Env
	uid     = mkUID("vfav")
	uidRef  = mkUID("vref")
	favPath string
)

func mkUID(s string) *ptttype.UserID_t {
	u := &ptttype.UserID_t{}
	copy(u[:], s)
	return u
}

func userDir(home string, u *ptttype.UserID_t) string {
	id := types.CstrToString(u[:])
	return filepath.Join(home, "home", id[:1], id)
}

func cleanDir(u *ptttype.UserID_t) {
	d := userDir(env.Home, u)
	es, _ := os.ReadDir(d)
	for _, e := range es {
		_ = os.Remove(filepath.Join(d, e.Name()))
	}
}

// build adds the items depth first through the API and overwrites the exported fields of each new entry.
func build(f *fav.FavRaw, items []*spec) string {
	for _, it := range items {
		n0 := len(f.Favh)
		var ft *fav.FavType
		var err error
		switch it.kind {
		case 'B':
			ft, err = f.AddBoard(ptttype.Bid(it.bid))
		case 'L':
			ft, err = f.AddLine()
		case 'F':
			ft, err = f.AddFolder()
		}
		if err != nil || ft == nil {
			return "reject"
		}
		if len(f.Favh) == n0 {
			return "dup"
		}
		ft.Attr = fav.Favh(int8(it.attr))
		switch it.kind {
		case 'B':
			fb := ft.Fp.(*fav.FavBoard)
			fb.LastVisit = int32(it.lv)
			fb.Attr = fav.Favh(int8(it.battr))
		case 'L':
			ft.Fp.(*fav.FavLine).Lid = fav.Lid(int8(it.id))
		case 'F':
			ff := ft.Fp.(*fav.FavFolder)
			ff.Fid = fav.Fid(int8(it.id))
			copy(ff.Title[:], it.title)
			if st := build(ff.ThisFolder, it.sub); st != "" {
				return st
			}
		}
	}
	return ""
}

func dumpFav(f *fav.FavRaw) string {
	var b strings.Builder
	var rec func(f *fav.FavRaw)
	rec = func(f *fav.FavRaw) {
		if f == nil {
			b.WriteString("(nil)")
			return
		}
		fmt.Fprintf(&b, "(%d,%d,%d,%d,%d,%d:", uint16(f.NBoards), uint8(f.NLines), uint8(f.NFolders),
			uint8(f.LineID), uint8(f.FolderID), uint16(f.FavNum))
		for i, ft := range f.Favh {
			if i > 0 {
				b.WriteByte(';')
			}
			if ft == nil {
				b.WriteString("?nil")
				continue
			}
			switch fp := ft.Fp.(type) {
			case *fav.FavBoard:
				fmt.Fprintf(&b, "B%d.%d.%d.%d", uint8(ft.Attr), uint32(fp.Bid), uint32(fp.LastVisit), uint8(fp.Attr))
				if ft.TheType != fav.FAVT_BOARD {
					b.WriteString("?type")
				}
			case *fav.FavLine:
				fmt.Fprintf(&b, "L%d.%d", uint8(ft.Attr), uint8(fp.Lid))
				if ft.TheType != fav.FAVT_LINE {
					b.WriteString("?type")
				}
			case *fav.FavFolder:
				fmt.Fprintf(&b, "F%d.%d.%s", uint8(ft.Attr), uint8(fp.Fid), hx.Hex(fp.Title[:]))
				if ft.TheType != fav.FAVT_FOLDER {
					b.WriteString("?type")
				}
				rec(fp.ThisFolder)
			default:
				b.WriteString("?fp")
			}
		}
		b.WriteByte(')')
	}
	rec(f)
	return b.String()
}

func readFav(u *ptttype.UserID_t) string {
	b, err := os.ReadFile(filepath.Join(userDir(env.Home, u), fav.FAV))
	if err != nil {
		return "none"
	}
	return hx.Hex(b)
}

// saveTree: build + Save for user u (no .fav present). Returns the canonical answer.
func saveTree(u *ptttype.UserID_t, items []*spec) string { return saveTreeP(u, items, nil) }

func saveTreeP(u *ptttype.UserID_t, items []*spec, counters []uint64) string {
	cleanDir(u)
	f := fav.NewFavRaw(nil)
	if st := build(f, items); st != "" {
		return "api-" + st
	}
	if counters != nil {
		f.NBoards = int16(uint16(counters[0]))
		f.NLines = int8(uint8(counters[1]))
		f.NFolders = int8(uint8(counters[2]))
	}
	out := hx.CallT(10*time.Second, func() string {
		nf, err := f.Save(u)
		if err != nil {
			return "err " + readFav(u) + " -"
		}
		return "ok " + readFav(u) + " " + dumpFav(nf)
	})
	lastGetMismatch = ""
	if strings.HasPrefix(out, "ok ") {
		lastGetMismatch = getMismatch(u)
	}
	return out
}

var lastGetMismatch string

const fileMTime = 1000000100

// getMismatch: ptt.GetFavorites(u, 0) must hand back exactly the bytes of .fav ("" when it does).
func getMismatch(u *ptttype.UserID_t) string {
	disk, err := os.ReadFile(filepath.Join(userDir(env.Home, u), fav.FAV))
	if err != nil {
		return ""
	}
	got := hx.Call(func() string {
		c, _, err := ptt.GetFavorites(u, 0)
		if err != nil {
			return "err " + err.Error()
		}
		if c == nil {
			return "nil"
		}
		return hx.Hex(c)
	})
	if got == hx.Hex(disk) {
		return ""
	}
	if len(got) > 80 {
		got = fmt.Sprintf("%d bytes %s…", len(got)/2, got[:60])
	}
	return fmt.Sprintf("GetFavorites handed back %s for a stored .fav of %d bytes", got, len(disk))
}

// getCase: op `wg <retrieveTS> <hex|none>`: WriteFavorites stores the content, the file's mtime is set to
// fileMTime, GetFavorites(uid, retrieveTS) answers.
func getCase(ts int64, content []byte, present bool) (out string, fails [][2]string) {
	cleanDir(uid)
	if present {
		wm, err := ptt.WriteFavorites(uid, content)
		if err != nil {
			return "write-err", nil
		}
		if st, e := os.Stat(favPath); e == nil && types.TimeToTime4(st.ModTime()) != wm {
			fails = append(fails, [2]string{"getfavorites:mtime", "WriteFavorites returned an mtime that is not the file's"})
		}
		t := time.Unix(fileMTime, 0)
		_ = os.Chtimes(favPath, t, t)
	}
	out = hx.Call(func() string {
		c, m, err := ptt.GetFavorites(uid, types.Time4(ts))
		if err != nil {
			return "err"
		}
		if c == nil {
			return fmt.Sprintf("nil %d", m)
		}
		return fmt.Sprintf("%s %d", hx.Hex(c), m)
	})
	// the API's own specification
	var want string
	switch {
	case !present:
		want = "nil 0"
	case ts >= fileMTime:
		want = fmt.Sprintf("nil %d", fileMTime)
	default:
		want = fmt.Sprintf("%s %d", hx.Hex(content), fileMTime)
	}
	if out != want && (!present || len(content) <= maxLegalFile) {
		o := out
		if len(o) > 90 {
			o = fmt.Sprintf("%d bytes %s…", (len(strings.Fields(o)[0]))/2, o[:60])
		}
		fails = append(fails, [2]string{"getfavorites:truncated", fmt.Sprintf("stored %d bytes with WriteFavorites, GetFavorites(retrieveTS=%d) answered %s", len(content), ts, o)})
	}
	return out, fails
}

// the largest .fav the API limits allow: MAX_FAV folder entries (52 bytes) with their 4-byte sub-headers
var maxLegalFile = 2 + 4 + fav.MAX_FAV*(52+4)

// saveGetLoad: op `wgt <tree>`: Save, fetch with GetFavorites, store for another user with WriteFavorites, Load.
func saveGetLoad(items []*spec) string {
	cleanDir(uid)
	cleanDir(uidRef)
	f := fav.NewFavRaw(nil)
	if st := build(f, items); st != "" {
		return "api-" + st
	}
	return hx.CallT(10*time.Second, func() string {
		if _, err := f.Save(uid); err != nil {
			return "err save"
		}
		c, _, err := ptt.GetFavorites(uid, 0)
		if err != nil || c == nil {
			return "err get"
		}
		if _, err := ptt.WriteFavorites(uidRef, c); err != nil {
			return "err write"
		}
		nf, err := fav.Load(uidRef)
		if err != nil {
			return "err " + hx.Hex(c) + " -"
		}
		return "ok " + hx.Hex(c) + " " + dumpFav(nf)
	})
}

func loadBytes(b []byte) string {
	cleanDir(uid)
	if err := os.WriteFile(favPath, b, 0o644); err != nil {
		panic(err)
	}
	return hx.CallT(10*time.Second, func() string {
		f, err := fav.Load(uid)
		if err != nil {
			return "err"
		}
		return dumpFav(f)
	})
}

// mtimeCase: an existing .fav holding tree A with the given mtime, a tree B in memory with the given MTime.
func mtimeCase(fileM string, memM int64) string {
	cleanDir(uid)
	a := fav.NewFavRaw(nil)
	_, _ = a.AddBoard(1)
	b := fav.NewFavRaw(nil)
	_, _ = b.AddBoard(2)
	_, _ = b.AddLine()
	var oldHex string
	if fileM != "none" {
		if _, err := a.Save(uid); err != nil {
			return "setup-failed"
		}
		m, _ := strconv.ParseInt(fileM, 10, 64)
		t := time.Unix(m, 0)
		if err := os.Chtimes(favPath, t, t); err != nil {
			return "setup-failed"
		}
		oldHex = readFav(uid)
	} else {
		oldHex = "none"
	}
	b.MTime = types.Time4(memM)
	return hx.Call(func() string {
		nf, err := b.Save(uid)
		if err != nil {
			return "err"
		}
		now := readFav(uid)
		switch {
		case now != oldHex:
			return "write"
		case nf == b:
			return "keepSelf"
		default:
			if len(nf.Favh) == 1 && nf.NBoards == 1 {
				return "reload"
			}
			return "reload?"
		}
	})
}

// ---- the saving child and strace ---------------------------------------------------------

// childMain: `c19 child <home> save <tree tokens…>` or `c19 child <home> wf <hex>`.
// The main goroutine is locked to the main thread, so that strace's per-thread
// call counter sees every system call of the save.
func childMain(args []string) {
	runtime.LockOSThread()
	bbsenv.Quiet()
	home := args[0]
	ptttype.SetBBSHOME(home)
	switch args[1] {
	case "save":
		items, err := parseTree(args[2:])
		if err != nil {
			os.Exit(3)
		}
		f := fav.NewFavRaw(nil)
		if st := build(f, items); st != "" {
			os.Exit(3)
		}
		f.MTime = math.MaxInt32 // newer than any file: checkIsToSave says write
		if _, err := f.Save(uid); err != nil {
			os.Exit(4)
		}
	case "wf":
		if _, err := ptt.WriteFavorites(uid, hx.UnHex(args[2])); err != nil {
			os.Exit(4)
		}
	case "efbig":
		efbigChild(args[2:])
	case "load":
		// experiment: Load whatever is in .fav (used to probe very deep nesting by hand)
		f, err := fav.Load(uid)
		fmt.Println("load:", err, f != nil)
	default:
		os.Exit(3)
	}
	os.Exit(0)
}

// efbigChild: `c19 child <home> efbig <save|wf> <from> <to> <oldhex|none> <payload…>`. For every limit in
// [from,to]: restore the old .fav (soft limit lifted), set the soft RLIMIT_FSIZE to the limit, run the save,
// lift the limit, print "<limit> <ok|err|PANIC> <hex of .fav|none>".
func efbigChild(args []string) {
	signal.Ignore(syscall.SIGXFSZ)
	from, _ := strconv.Atoi(args[1])
	to, _ := strconv.Atoi(args[2])
	dir := userDir(ptttype.BBSHOME, uid)
	favP := filepath.Join(dir, fav.FAV)
	var hard syscall.Rlimit
	_ = syscall.Getrlimit(syscall.RLIMIT_FSIZE, &hard)
	setSoft := func(v uint64) {
		rl := syscall.Rlimit{Cur: v, Max: hard.Max}
		if err := syscall.Setrlimit(syscall.RLIMIT_FSIZE, &rl); err != nil {
			os.Exit(3)
		}
	}
	var items []*spec
	var content []byte
	if args[0] == "save" {
		var err error
		if items, err = parseTree(args[4:]); err != nil {
			os.Exit(3)
		}
	} else {
		content = hx.UnHex(args[4])
	}
	for lim := from; lim <= to; lim++ {
		setSoft(hard.Max)
		es, _ := os.ReadDir(dir)
		for _, e := range es {
			_ = os.Remove(filepath.Join(dir, e.Name()))
		}
		if args[3] != "none" {
			if err := os.WriteFile(favP, hx.UnHex(args[3]), 0o644); err != nil {
				os.Exit(3)
			}
		}
		var f *fav.FavRaw
		if args[0] == "save" {
			f = fav.NewFavRaw(nil)
			if st := build(f, items); st != "" {
				os.Exit(3)
			}
			f.MTime = math.MaxInt32
		}
		setSoft(uint64(lim))
		res := hx.CallSync(func() string {
			var err error
			if args[0] == "save" {
				_, err = f.Save(uid)
			} else {
				_, err = ptt.WriteFavorites(uid, content)
			}
			if err != nil {
				return "err"
			}
			return "ok"
		})
		setSoft(hard.Max)
		now := "none"
		if b, err := os.ReadFile(favP); err == nil {
			now = hx.Hex(b)
		}
		fmt.Printf("%d %s %s\n", lim, res, now)
	}
}

// fav4Case: only .fav4 exists; fav.Load migrates it (TryFav4Load: read, Save). The answer carries the
// new .fav and what a second Load makes of it.
func fav4Case(img []byte) string {
	cleanDir(uid)
	if err := os.WriteFile(filepath.Join(userDir(env.Home, uid), fav.FAV4), img, 0o644); err != nil {
		panic(err)
	}
	return hx.CallT(10*time.Second, func() string {
		f, err := fav.Load(uid)
		if err != nil || f == nil {
			return "err"
		}
		now := readFav(uid)
		g, err := fav.Load(uid)
		if err != nil {
			return "ok " + now + " err"
		}
		return "ok " + now + " " + dumpFav(g)
	})
}

var efbigCache = map[string]string{}

// efbigRun runs the child for the limits [from,to] and fills efbigCache (key: the op line).
func efbigRun(target string, from, to int, old string, payload []string) error {
	args := append([]string{"child", env.Home, "efbig", target, strconv.Itoa(from), strconv.Itoa(to), old}, payload...)
	cmd := exec.Command(selfExe, args...)
	out, err := cmd.Output()
	if err != nil {
		return fmt.Errorf("efbig child: %v", err)
	}
	for _, l := range strings.Split(strings.TrimSpace(string(out)), "\n") {
		ws := strings.Fields(l)
		if len(ws) != 3 {
			continue
		}
		key := strings.TrimSpace(fmt.Sprintf("efbig %s %s %s %s", target, ws[0], old, strings.Join(payload, " ")))
		efbigCache[key] = ws[1] + " " + ws[2]
	}
	return nil
}

var selfExe string

// runChild runs the child under strace; inject is "" or "<syscall>:<k>". It returns whether the child
// finished (exit 0) and the strace log.
func runChild(inject string, childArgs []string) (survived bool, log string, err error) {
	tf, e := os.CreateTemp(env.Home, "strace-*.log")
	if e != nil {
		return false, "", e
	}
	tf.Close()
	defer os.Remove(tf.Name())
	args := []string{"-f", "-qq", "-y", "-s", "0", "-o", tf.Name(), "-e", "trace=openat,write,rename,renameat,renameat2"}
	if inject != "" {
		p := strings.SplitN(inject, ":", 2)
		args = append(args, "-e", "inject="+p[0]+":signal=SIGKILL:when="+p[1])
	}
	args = append(args, selfExe, "child", env.Home)
	args = append(args, childArgs...)
	cmd := exec.Command("strace", args...)
	cmd.Env = append(os.Environ(), "GOMAXPROCS=1")
	out, e := cmd.CombinedOutput()
	lg, _ := os.ReadFile(tf.Name())
	if e == nil {
		return true, string(lg), nil
	}
	if ee, ok := e.(*exec.ExitError); ok {
		if ee.ExitCode() == 3 || ee.ExitCode() == 4 {
			return false, string(lg), fmt.Errorf("child failed (%d): %s", ee.ExitCode(), out)
		}
		return false, string(lg), nil // killed
	}
	return false, string(lg), fmt.Errorf("strace: %v: %s", e, out)
}

var (
	reOpen   = regexp.MustCompile(`openat\(AT_FDCWD[^,]*, "([^"]*)", ([A-Z_|]+)`)
	reWrite  = regexp.MustCompile(`write\(\d+<([^>]*)>`)
	reRename = regexp.MustCompile(`rename(?:at2?)?\((?:AT_FDCWD[^,]*, )?"([^"]*)", (?:AT_FDCWD[^,]*, )?"([^"]*)"`)
)

// shapeOf: the modifying system calls on files of the user's directory, consecutive repeats collapsed.
func shapeOf(log string) string {
	dir := userDir(env.Home, uid) + "/"
	name := func(p string) string {
		if p == dir+fav.FAV {
			return "fav"
		}
		return "tmp"
	}
	var out []string
	add := func(s string) {
		if len(out) == 0 || out[len(out)-1] != s {
			out = append(out, s)
		}
	}
	for _, l := range strings.Split(log, "\n") {
		if m := reOpen.FindStringSubmatch(l); m != nil && strings.HasPrefix(m[1], dir) {
			if strings.Contains(m[2], "O_CREAT") || strings.Contains(m[2], "O_TRUNC") || strings.Contains(m[2], "O_WRONLY") || strings.Contains(m[2], "O_RDWR") {
				add("create:" + name(m[1]))
			}
		} else if m := reWrite.FindStringSubmatch(l); m != nil && strings.HasPrefix(m[1], dir) {
			add("write:" + name(m[1]))
		} else if m := reRename.FindStringSubmatch(l); m != nil && (strings.HasPrefix(m[1], dir) || strings.HasPrefix(m[2], dir)) {
			add("rename:" + name(m[1]) + ">" + name(m[2]))
		}
	}
	if len(out) == 0 {
		return "none"
	}
	return strings.Join(out, ",")
}

// newImage: the bytes an uninterrupted save leaves in .fav (computed in-process under another user).
func newImageOfSave(items []*spec) (string, bool) {
	r := saveTree(uidRef, items)
	if !strings.HasPrefix(r, "ok ") {
		return "", false
	}
	return strings.Fields(r)[1], true
}

func setOld(oldHex string) {
	cleanDir(uid)
	if oldHex != "none" {
		if err := os.WriteFile(favPath, hx.UnHex(oldHex), 0o644); err != nil {
			panic(err)
		}
	}
}

// ---- exec: one op line on the real code ------------------------------------------------------

type result struct {
	out     string
	label   string
	fails   [][2]string // key, what
	notes   []string
	nontriv bool
}

func execOp(line string) (res result) {
	ws := strings.Fields(line)
	res.nontriv = true
	bad := func() result { return result{out: "bad-op", label: "bad-op"} }
	if len(ws) == 0 {
		return bad()
	}
	switch ws[0] {
	case "rt":
		items, err := parseTree(ws[1:])
		if err != nil {
			return bad()
		}
		res.out = saveTree(uid, items)
		res.label = "rt:" + classify(items, res.out)
		judgeRT(items, &res)
		if lastGetMismatch != "" {
			res.fails = append(res.fails, [2]string{"getfavorites:truncated", lastGetMismatch})
		}
	case "wgt":
		items, err := parseTree(ws[1:])
		if err != nil {
			return bad()
		}
		res.out = saveGetLoad(items)
		res.label = "wgt:" + sizeClass(res.out)
		if strings.HasPrefix(res.out, "err ") && len(strings.Fields(res.out)) == 2 {
			res.fails = append(res.fails, [2]string{"getfavorites:truncated", "save / GetFavorites / WriteFavorites failed: " + res.out})
		} else {
			judgeRTvia(items, &res, true)
			if ws2 := strings.Fields(res.out); len(ws2) == 3 {
				if disk := readFav(uid); disk != ws2[1] {
					res.fails = append(res.fails, [2]string{"getfavorites:truncated", fmt.Sprintf("GetFavorites handed back %d bytes of a %d-byte .fav", len(ws2[1])/2, len(disk)/2)})
				}
			}
		}
	case "wg":
		if len(ws) != 3 || !(isHex(ws[2]) || ws[2] == "none") {
			return bad()
		}
		ts, err := num(ws[1], math.MaxInt32)
		if err != nil {
			return bad()
		}
		var content []byte
		if ws[2] != "none" {
			content = hx.UnHex(ws[2])
		}
		res.out, res.fails = getCase(int64(ts), content, ws[2] != "none")
		switch {
		case strings.HasPrefix(res.out, "nil 0"):
			res.label = "wg:no-file"
		case strings.HasPrefix(res.out, "nil "):
			res.label = "wg:not-modified"
		case res.out == "err" || res.out == "write-err" || res.out == "PANIC" || res.out == "TIMEOUT":
			res.label = "wg:" + res.out
		default:
			res.label = "wg:content"
		}
		if ws[2] != "none" && len(content) > maxLegalFile {
			res.label = "wg:beyond-legal-size"
		} else if ws[2] != "none" && len(content) > 14342 {
			res.label = "wg:large"
		}
	case "rtp":
		if len(ws) < 4 {
			return bad()
		}
		a, e1 := num(ws[1], 65535)
		b, e2 := num(ws[2], 255)
		c, e3 := num(ws[3], 255)
		items, err := parseTree(ws[4:])
		if e1 != nil || e2 != nil || e3 != nil || err != nil {
			return bad()
		}
		res.out = saveTreeP(uid, items, []uint64{a, b, c})
		res.label = "rtp:" + strings.Fields(res.out)[0]
	case "load":
		if len(ws) != 2 || !isHex(ws[1]) {
			return bad()
		}
		res.out = loadBytes(hx.UnHex(ws[1]))
		switch res.out {
		case "err":
			res.label = "load:err"
		case "PANIC", "TIMEOUT":
			res.label = "load:" + res.out
			res.fails = append(res.fails, [2]string{"crash:load", fmt.Sprintf("fav.Load %s on %s: %s", res.out, ws[1], hx.LastPanic)})
		default:
			res.label = "load:tree"
		}
	case "mt":
		if len(ws) != 3 {
			return bad()
		}
		if ws[1] != "none" {
			if _, err := num(ws[1], math.MaxInt32-1); err != nil {
				return bad()
			}
		}
		m, err := num(ws[2], math.MaxInt32)
		if err != nil {
			return bad()
		}
		res.out = mtimeCase(ws[1], int64(m))
		res.label = "mt:" + res.out
	case "trace":
		if len(ws) < 2 {
			return bad()
		}
		var args []string
		switch ws[1] {
		case "save":
			if _, err := parseTree(ws[2:]); err != nil {
				return bad()
			}
			args = append([]string{"save"}, ws[2:]...)
		case "wf":
			if len(ws) != 3 || !isHex(ws[2]) || ws[2] == "-" {
				return bad()
			}
			args = []string{"wf", ws[2]}
		default:
			return bad()
		}
		setOld("none")
		ok, log, err := runChild("", args)
		if err != nil || !ok {
			res.out = "child-failed"
			res.notes = append(res.notes, fmt.Sprint("trace: the traced child did not complete its save: ", err))
		} else {
			res.out = shapeOf(log)
		}
		res.label = "trace:" + ws[1]
		if !regexp.MustCompile(`^create:tmp,(write:tmp,)?rename:tmp>fav$`).MatchString(res.out) {
			res.fails = append(res.fails, [2]string{"shape:" + ws[1], "the save is not `create temp; write…; rename temp .fav`: " + res.out})
		}
	case "crash":
		if len(ws) < 5 {
			return bad()
		}
		sc := ws[2]
		if sc != "write" && sc != "openat" && sc != "renameat" {
			return bad()
		}
		k, err := num(ws[3], 100000)
		if err != nil || k == 0 || !(isHex(ws[4]) || ws[4] == "none") {
			return bad()
		}
		var args []string
		var newHex string
		key := "torn:save"
		switch ws[1] {
		case "save":
			items, err := parseTree(ws[5:])
			if err != nil {
				return bad()
			}
			h, ok := newImageOfSave(items)
			if !ok {
				return bad()
			}
			newHex = h
			args = append([]string{"save"}, ws[5:]...)
		case "wf":
			if len(ws) != 6 || !isHex(ws[5]) || ws[5] == "-" {
				return bad()
			}
			newHex = ws[5]
			args = []string{"wf", ws[5]}
			key = "torn:writefavorites"
		default:
			return bad()
		}
		setOld(ws[4])
		survived, _, err := runChild(fmt.Sprintf("%s:%d", sc, k), args)
		if err != nil {
			res.out = "child-failed"
			res.notes = append(res.notes, fmt.Sprint("crash: ", err))
			res.label = "crash:child-failed"
			break
		}
		now := readFav(uid)
		lastSurvived = survived
		switch {
		case now == ws[4] || now == newHex:
			res.out = "old-or-new"
		default:
			res.out = "torn:" + now
			res.fails = append(res.fails, [2]string{key, fmt.Sprintf("killed before %s call #%d of the saving process: .fav is %s, neither the old image %s nor the new image %s", sc, k, now, ws[4], newHex)})
		}
		res.label = "crash:" + ws[1] + ":" + sc
		if survived {
			res.label += ":survived"
			if now != newHex {
				res.fails = append(res.fails, [2]string{key, "the child finished but .fav is not the new image"})
			}
		} else if now == newHex {
			res.label += ":killed-after-rename"
		} else {
			res.label += ":killed-old"
		}
	case "efbig":
		if len(ws) < 4 || (ws[1] != "save" && ws[1] != "wf") {
			return bad()
		}
		lim, err := num(ws[2], 1<<30)
		if err != nil || !(isHex(ws[3]) || ws[3] == "none") {
			return bad()
		}
		var newHex string
		key := "torn:write-error:save"
		if ws[1] == "save" {
			items, err := parseTree(ws[5-1:])
			if err != nil {
				return bad()
			}
			h, ok := newImageOfSave(items)
			if !ok {
				return bad()
			}
			newHex = h
		} else {
			if len(ws) != 5 || !isHex(ws[4]) || ws[4] == "-" {
				return bad()
			}
			newHex = ws[4]
			key = "torn:write-error:writefavorites"
		}
		line := strings.Join(ws, " ")
		got, ok := efbigCache[line]
		if !ok {
			if err := efbigRun(ws[1], int(lim), int(lim), ws[3], ws[4:]); err != nil {
				res.notes = append(res.notes, err.Error())
			}
			got, ok = efbigCache[line]
		}
		delete(efbigCache, line)
		if !ok {
			res.out = "child-failed"
			res.label = "efbig:child-failed"
			res.fails = append(res.fails, [2]string{key, "the size-limited saving child did not answer"})
			break
		}
		g := strings.Fields(got)
		state := "torn:" + g[1]
		switch g[1] {
		case newHex:
			state = "new"
		case ws[3]:
			state = "old"
		}
		res.out = g[0] + " " + state
		res.label = "efbig:" + ws[1] + ":" + g[0] + "-" + strings.SplitN(state, ":", 2)[0]
		// the property: the file is the old or the complete new version, and the save reports an error iff
		// the new version did not land
		switch {
		case state != "new" && state != "old":
			res.fails = append(res.fails, [2]string{key, fmt.Sprintf("writes failing with EFBIG past %d bytes: the save returned %s and .fav is %s, neither the old image %s nor the new image %s", lim, g[0], clip(g[1]), clip(ws[3]), clip(newHex))})
		case (g[0] == "ok") != (state == "new") && ws[3] != newHex:
			res.fails = append(res.fails, [2]string{key, fmt.Sprintf("writes failing with EFBIG past %d bytes: the save returned %s but .fav holds the %s version", lim, g[0], state)})
		case g[0] == "PANIC":
			res.fails = append(res.fails, [2]string{key, "the save panicked on a write error"})
		}
	case "fav4", "fav4t":
		var img []byte
		var items []*spec
		if ws[0] == "fav4" {
			if len(ws) != 2 || !isHex(ws[1]) {
				return bad()
			}
			img = hx.UnHex(ws[1])
		} else {
			var err error
			if items, err = parseTree(ws[1:]); err != nil {
				return bad()
			}
			img = validImage(items)[2:] // a .fav4 has no version word
		}
		res.out = fav4Case(img)
		res.label = ws[0] + ":" + strings.Fields(res.out)[0]
		if ws[0] == "fav4t" {
			hasFolder, removed := false, false
			for _, it := range items {
				if it.kind == 'F' {
					hasFolder = true
				}
				if it.attr&1 == 0 {
					removed = true
				}
			}
			if removed {
				res.label += ":removed-entry"
			}
			if hasFolder {
				res.label += ":folder(unjudged)"
			} else {
				// the migration must yield the tree minus exactly the removed entries
				exp := expectDump(items)
				g := strings.Fields(res.out)
				switch {
				case g[0] != "ok" || len(g) != 3:
					res.fails = append(res.fails, [2]string{"fav4:migration", "the .fav4 image " + clip(hx.Hex(img)) + " did not migrate: " + clip(res.out)})
				case g[2] != exp:
					res.fails = append(res.fails, [2]string{"fav4:migration", "migrated tree " + clip(g[2]) + ", expected " + clip(exp)})
				default:
					if d, err := refParse(hx.UnHex(g[1])); err != nil || d != exp {
						res.fails = append(res.fails, [2]string{"fav4:migration", fmt.Sprintf("the new .fav %s does not decode to the expected tree %s (%v)", clip(g[1]), clip(exp), err)})
					}
				}
			}
		}
	case "conc":
		if len(ws) != 4 {
			return bad()
		}
		nw, e1 := num(ws[1], 64)
		ms, e2 := num(ws[2], 60000)
		sd, e3 := num(ws[3], math.MaxUint32)
		if e1 != nil || e2 != nil || e3 != nil || nw == 0 || ms == 0 {
			return bad()
		}
		var what string
		res.out, what = concCase(int(nw), int(ms), sd)
		res.label = "conc:" + strings.Fields(res.out)[0]
		if res.out != "whole" {
			res.fails = append(res.fails, [2]string{"torn:concurrent-writefavorites", what})
		}
	default:
		return bad()
	}
	return res
}

// concCase: nw goroutines store complete images of different lengths with ptt.WriteFavorites for the same
// user for ms milliseconds while a reader reads .fav in a loop. Every save must succeed, every read must
// be byte-equal to one of the images, fav.Load must accept it, and so must the final file.
func concCase(nw, ms int, seed uint64) (out, what string) {
	cleanDir(uid)
	var images [][]byte
	for _, n := range []int{1, 40, 300, 1000, 7} {
		images = append(images, concImage(n))
	}
	isImage := func(b []byte) bool {
		for _, img := range images {
			if bytes.Equal(b, img) {
				return true
			}
		}
		return false
	}
	if err := os.WriteFile(favPath, images[0], 0o644); err != nil {
		return "setup-failed", err.Error()
	}
	deadline := time.Now().Add(time.Duration(ms) * time.Millisecond)
	var nWrites, nWriteErr, nReads, nTorn, nLoadErr int64
	var firstMu sync.Mutex
	first := ""
	note := func(s string) {
		firstMu.Lock()
		if first == "" {
			first = s
		}
		firstMu.Unlock()
	}
	var wg sync.WaitGroup
	for w := 0; w < nw; w++ {
		wg.Add(1)
		go func(w int) {
			defer wg.Done()
			defer func() {
				if e := recover(); e != nil {
					atomic.AddInt64(&nWriteErr, 1)
					note(fmt.Sprint("WriteFavorites panicked: ", e))
				}
			}()
			for k := 0; time.Now().Before(deadline); k++ {
				img := images[(w+k+int(seed))%len(images)]
				atomic.AddInt64(&nWrites, 1)
				if _, err := ptt.WriteFavorites(uid, img); err != nil {
					atomic.AddInt64(&nWriteErr, 1)
					note("WriteFavorites returned " + strings.ReplaceAll(err.Error(), env.Home, "<home>"))
				}
			}
		}(w)
	}
	stop := make(chan struct{})
	var rg sync.WaitGroup
	rg.Add(1)
	go func() {
		defer rg.Done()
		defer func() {
			if e := recover(); e != nil {
				atomic.AddInt64(&nLoadErr, 1)
				note(fmt.Sprint("fav.Load panicked: ", e))
			}
		}()
		for i := 0; ; i++ {
			select {
			case <-stop:
				return
			default:
			}
			b, err := os.ReadFile(favPath)
			atomic.AddInt64(&nReads, 1)
			if err != nil {
				atomic.AddInt64(&nTorn, 1)
				note(".fav unreadable: " + strings.ReplaceAll(err.Error(), env.Home, "<home>"))
			} else if !isImage(b) {
				atomic.AddInt64(&nTorn, 1)
				note(fmt.Sprintf(".fav read as %d bytes (%s), none of the images (lengths %d/%d/%d/%d/%d)", len(b), tornKind(b, images),
					len(images[0]), len(images[1]), len(images[2]), len(images[3]), len(images[4])))
			}
			if i%4 == 0 {
				if _, err := fav.Load(uid); err != nil {
					atomic.AddInt64(&nLoadErr, 1)
					note("fav.Load: " + err.Error())
				}
			}
		}
	}()
	wg.Wait()
	close(stop)
	rg.Wait()
	fin, err := os.ReadFile(favPath)
	finalBad := err != nil || !isImage(fin)
	if finalBad {
		note(fmt.Sprintf("after all savers finished .fav has %d bytes (%s)", len(fin), tornKind(fin, images)))
	}
	cleanDir(uid)
	if nTorn == 0 && nLoadErr == 0 && nWriteErr == 0 && !finalBad {
		return "whole", ""
	}
	return fmt.Sprintf("torn reads=%d/%d load-errors=%d save-errors=%d/%d final-bad=%v", nTorn, nReads, nLoadErr, nWriteErr, nWrites, finalBad),
		fmt.Sprintf("%d overlapping WriteFavorites savers: %d of %d reads of .fav were not a complete image, fav.Load failed %d times, %d of %d saves returned an error, final file bad=%v; first: %s",
			nw, nTorn, nReads, nLoadErr, nWriteErr, nWrites, finalBad, first)
}

func concImage(nBoards int) []byte {
	b := []byte{byte(fav.FAV_VERSION & 0xff), byte(uint16(fav.FAV_VERSION) >> 8), byte(nBoards), byte(nBoards >> 8), 0, 0}
	for i := 1; i <= nBoards; i++ {
		b = append(b, 1, 1, byte(i), byte(i>>8), 0, 0, 0, 0, 0, 0, 0, 0, 0, 0)
	}
	return b
}

func tornKind(b []byte, images [][]byte) string {
	if len(b) == 0 {
		return "empty"
	}
	for _, img := range images {
		if len(b) < len(img) && bytes.Equal(b, img[:len(b)]) {
			return "a proper prefix of an image"
		}
	}
	return "a mixture of two images"
}

var lastSurvived bool

func clip(s string) string {
	if len(s) > 160 {
		return fmt.Sprintf("%s… (%d chars)", s[:160], len(s))
	}
	return s
}

func sizeClass(out string) string {
	ws := strings.Fields(out)
	if len(ws) != 3 {
		return ws[0]
	}
	n := len(ws[1]) / 2
	switch {
	case n == maxLegalFile:
		return "max-size"
	case n > 14342:
		return "large"
	}
	return "small"
}


// ---- P-hat for rt: the property's own specification, written directly on the spec tree ----------

// apiShouldAccept: the limits of the favourites API (MAX_FAV entries in all, MAX_LINE lines and MAX_FOLDER
// folders per level, board ids 1..MAX_BOARD).  "" = accept, else the name of the limit.
func apiShouldAccept(items []*spec) string {
	total := 0
	var rec func(items []*spec) string
	rec = func(items []*spec) string {
		nl, nf := 0, 0
		seen := map[uint32]bool{}
		for _, it := range items {
			switch it.kind {
			case 'B':
				if it.bid < 1 || it.bid > ptttype.MAX_BOARD {
					return "bid"
				}
				if seen[it.bid] {
					return "dup"
				}
				seen[it.bid] = true
			case 'L':
				nl++
				if nl > fav.MAX_LINE {
					return "lines"
				}
			case 'F':
				nf++
				if nf > fav.MAX_FOLDER {
					return "folders"
				}
			}
			total++
			if total > fav.MAX_FAV {
				return "favs"
			}
			if it.kind == 'F' {
				if r := rec(it.sub); r != "" {
					return r
				}
			}
		}
		return ""
	}
	return rec(items)
}

// expectDump: what loading the saved tree must give: the entries with the FAV bit, in order, lines and
// folders numbered from 1, counters equal to the counts, FavNum the size of the subtree.
func expectDump(items []*spec) string {
	var b strings.Builder
	var rec func(items []*spec) int
	rec = func(items []*spec) int {
		var kept []*spec
		nb, nl, nf := 0, 0, 0
		for _, it := range items {
			if it.attr&1 == 0 {
				continue
			}
			kept = append(kept, it)
			switch it.kind {
			case 'B':
				nb++
			case 'L':
				nl++
			case 'F':
				nf++
			}
		}
		// FavNum needs the subtree size first
		var size func(items []*spec) int
		size = func(items []*spec) int {
			n := 0
			for _, it := range items {
				if it.attr&1 == 0 {
					continue
				}
				n++
				if it.kind == 'F' {
					n += size(it.sub)
				}
			}
			return n
		}
		tot := size(items)
		fmt.Fprintf(&b, "(%d,%d,%d,%d,%d,%d:", nb, nl, nf, nl, nf, tot)
		li, fi := 0, 0
		for i, it := range kept {
			if i > 0 {
				b.WriteByte(';')
			}
			switch it.kind {
			case 'B':
				fmt.Fprintf(&b, "B%d.%d.%d.%d", it.attr, it.bid, it.lv, it.battr)
			case 'L':
				li++
				fmt.Fprintf(&b, "L%d.%d", it.attr, li)
			case 'F':
				fi++
				fmt.Fprintf(&b, "F%d.%d.%s", it.attr, fi, hx.Hex(it.title))
				rec(it.sub)
			}
		}
		b.WriteByte(')')
		return tot
	}
	rec(items)
	return b.String()
}

// refParse: an independent strict reader of the pttbbs .fav grammar. It returns the dump of the tree
// (lines and folders numbered from 1) or an error naming the first deviation from the grammar.
func refParse(b []byte) (string, error) {
	pos := 0
	need := func(n int) ([]byte, error) {
		if pos+n > len(b) {
			return nil, fmt.Errorf("short file at offset %d (need %d)", pos, n)
		}
		s := b[pos : pos+n]
		pos += n
		return s, nil
	}
	s, err := need(2)
	if err != nil {
		return "", err
	}
	if v := int(s[0]) | int(s[1])<<8; v != int(fav.FAV_VERSION) {
		return "", fmt.Errorf("version word %d", v)
	}
	type ent struct {
		kind  byte
		attr  uint8
		bid   uint32
		lv    uint32
		battr uint8
		title []byte
		sub   *[]ent
		hdr   [3]int
	}
	var level func() ([]ent, [3]int, error)
	level = func() ([]ent, [3]int, error) {
		var h [3]int
		s, err := need(4)
		if err != nil {
			return nil, h, err
		}
		h = [3]int{int(int16(uint16(s[0]) | uint16(s[1])<<8)), int(int8(s[2])), int(int8(s[3]))}
		if h[0] < 0 || h[1] < 0 || h[2] < 0 {
			return nil, h, fmt.Errorf("negative count %v", h)
		}
		n := h[0] + h[1] + h[2]
		es := make([]ent, 0, n)
		var got [3]int
		for i := 0; i < n; i++ {
			s, err := need(2)
			if err != nil {
				return nil, h, err
			}
			e := ent{attr: s[1]}
			switch s[0] {
			case 1:
				e.kind = 'B'
				got[0]++
				p, err := need(12)
				if err != nil {
					return nil, h, err
				}
				e.bid = uint32(p[0]) | uint32(p[1])<<8 | uint32(p[2])<<16 | uint32(p[3])<<24
				e.lv = uint32(p[4]) | uint32(p[5])<<8 | uint32(p[6])<<16 | uint32(p[7])<<24
				e.battr = p[8]
				if p[9] != 0 || p[10] != 0 || p[11] != 0 {
					return nil, h, fmt.Errorf("board entry pad not zero at %d", pos-3)
				}
			case 3:
				e.kind = 'L'
				got[1]++
				if _, err := need(1); err != nil {
					return nil, h, err
				}
			case 2:
				e.kind = 'F'
				got[2]++
				p, err := need(1 + titleLen)
				if err != nil {
					return nil, h, err
				}
				e.title = p[1:]
			default:
				return nil, h, fmt.Errorf("entry type %d at %d", s[0], pos-2)
			}
			es = append(es, e)
		}
		if got != h {
			return nil, h, fmt.Errorf("header counts %v but entries %v", h, got)
		}
		for i := range es {
			if es[i].kind == 'F' {
				sub, sh, err := level()
				if err != nil {
					return nil, h, err
				}
				es[i].sub = &sub
				es[i].hdr = sh
			}
		}
		return es, h, nil
	}
	es, h, err := level()
	if err != nil {
		return "", err
	}
	if pos != len(b) {
		return "", fmt.Errorf("%d trailing bytes", len(b)-pos)
	}
	var sb strings.Builder
	var size func(es []ent) int
	size = func(es []ent) int {
		n := len(es)
		for _, e := range es {
			if e.kind == 'F' {
				n += size(*e.sub)
			}
		}
		return n
	}
	var dump func(es []ent, h [3]int)
	dump = func(es []ent, h [3]int) {
		fmt.Fprintf(&sb, "(%d,%d,%d,%d,%d,%d:", h[0], h[1], h[2], h[1], h[2], size(es))
		li, fi := 0, 0
		for i, e := range es {
			if i > 0 {
				sb.WriteByte(';')
			}
			switch e.kind {
			case 'B':
				fmt.Fprintf(&sb, "B%d.%d.%d.%d", e.attr, e.bid, e.lv, e.battr)
			case 'L':
				li++
				fmt.Fprintf(&sb, "L%d.%d", e.attr, li)
			case 'F':
				fi++
				fmt.Fprintf(&sb, "F%d.%d.%s", e.attr, fi, hx.Hex(e.title))
				dump(*e.sub, e.hdr)
			}
		}
		sb.WriteByte(')')
	}
	dump(es, h)
	return sb.String(), nil
}

func judgeRT(items []*spec, res *result) { judgeRTvia(items, res, false) }

func judgeRTvia(items []*spec, res *result, viaGet bool) {
	want := apiShouldAccept(items)
	fail := func(key, what string) { res.fails = append(res.fails, [2]string{key, what}) }
	switch {
	case res.out == "PANIC" || res.out == "TIMEOUT":
		fail("crash:save", "Save/Load "+res.out+": "+hx.LastPanic)
		return
	case res.out == "api-dup":
		if want != "dup" {
			fail("api:dup", "AddBoard reported an existing board on a level without that board")
		}
		return
	case res.out == "api-reject":
		if want == "" || want == "dup" {
			fail("api:reject", "the API refused a tree within its limits")
		}
		return
	}
	if want != "" {
		// the API accepted a tree beyond a limit
		key := "overflow:" + want
		fail(key, "the API accepted a tree beyond the limit on "+want)
	}
	ws := strings.Fields(res.out)
	exp := expectDump(items)
	if ws[0] != "ok" {
		k := "roundtrip"
		if want != "" {
			k = "overflow:" + want
		}
		if viaGet {
			fail(k, "the bytes GetFavorites handed back do not load ("+clip(ws[1])+"); expected tree "+clip(exp))
		} else {
			fail(k, "Save failed after replacing .fav (file "+clip(ws[1])+"); expected tree "+clip(exp))
		}
		return
	}
	if ws[2] != exp {
		k := "roundtrip"
		if want != "" {
			k = "overflow:" + want
		}
		fail(k, "loaded tree "+ws[2]+" differs from the saved entries "+exp)
	}
	if ws[1] == "none" {
		fail("grammar", "no .fav after Save")
		return
	}
	g, err := refParse(hx.UnHex(ws[1]))
	if err != nil {
		fail("grammar", ".fav bytes "+ws[1]+" do not follow the format: "+err.Error())
	} else if g != exp {
		k := "grammar"
		if want != "" {
			k = "overflow:" + want
		}
		fail(k, ".fav bytes decode (reference reader) to "+g+", expected "+exp)
	}
}

func classify(items []*spec, out string) string {
	if strings.HasPrefix(out, "api-") || out == "PANIC" || out == "TIMEOUT" {
		return out
	}
	depth := 0
	invalid, nonseq, pure := false, false, true
	var rec func(items []*spec, d int)
	rec = func(items []*spec, d int) {
		if d > depth {
			depth = d
		}
		li, fi := 0, 0
		for _, it := range items {
			if it.attr&1 == 0 {
				invalid = true
			}
			if it.attr != 1 {
				pure = false
			}
			switch it.kind {
			case 'B':
				if it.lv != 0 || it.battr != 0 {
					pure = false
				}
			case 'L':
				li++
				if int(it.id) != li {
					nonseq = true
				}
			case 'F':
				fi++
				if int(it.id) != fi {
					nonseq = true
				}
				for _, c := range it.title {
					if c != 0 {
						pure = false
					}
				}
				rec(it.sub, d+1)
			}
		}
	}
	rec(items, 1)
	if len(items) == 0 {
		depth = 0
	}
	s := fmt.Sprintf("depth%d", depth)
	if depth > 4 {
		s = "depth5+"
	}
	switch {
	case invalid:
		s += ":cleanup"
	case nonseq:
		s += ":renumber"
	case pure:
		s += ":api-only"
	default:
		s += ":poked"
	}
	if strings.HasPrefix(out, "err") {
		s += ":save-err"
	}
	return s
}

// ---- driver loop -----------------------------------------------------------------------------------

var run *hx.Run

func do(line string) result {
	res := execOp(line)
	i := run.Op(line, res.out, res.label, res.nontriv)
	for _, f := range res.fails {
		run.Fail(i, f[0], f[1])
	}
	for _, n := range res.notes {
		run.Note(n)
	}
	return res
}

func main() {
	if len(os.Args) > 2 && os.Args[1] == "child" {
		childMain(os.Args[2:])
		return
	}
	run = hx.Start("C19")
	defer run.Finish()
	var err error
	env, err = bbsenv.New(bbsenv.Options{Fixture: "none", NoSHM: true})
	if err != nil {
		fmt.Fprintln(os.Stderr, err)
		os.Exit(2)
	}
	defer env.Close()
	for _, u := range []*ptttype.UserID_t{uid, uidRef} {
		if err := os.MkdirAll(userDir(env.Home, u), 0o755); err != nil {
			fmt.Fprintln(os.Stderr, err)
			os.Exit(2)
		}
	}
	favPath = filepath.Join(userDir(env.Home, uid), fav.FAV)
	selfExe, _ = os.Executable()

	run.Rule = "rt: every tree of depth<=3 with <=2 entries per level and of depth<=2 with <=3 entries per level built through the API alone (smallest first), random larger trees (depth<=6, <=40 entries per level) with overwritten attr/lid/fid/title/lastvisit fields incl. entries without the FAV bit, the API limits (MAX_LINE, MAX_FOLDER, MAX_FAV, board ids) at and past each bound; load: headers with counts from {-32768,-1,0,1,32767}x{-128,-1,0,1,127}^2 x short bodies, every type byte, every truncation of valid files, single-byte corruptions, random bytes; mt: file older/equal/newer/absent; wg/wgt: the byte-level pair WriteFavorites/GetFavorites on contents of every length around 14342 and up to the largest legal file (57350 bytes) and on boundary-size trees (1024 entries: all folders / 10x100 boards / 64x15 boards), every rt additionally compares GetFavorites with the file; fav4/fav4t: only a .fav4 exists (reference images of board/line trees with removed entries at every position, truncations, folder-holding and negative-count images recorded unjudged), Load migrates it; efbig: the saving child runs with RLIMIT_FSIZE at EVERY byte offset of the new image (SIGXFSZ ignored: writes fail with EFBIG), trees whose tail holds only folders / titles / lines as well as board-terminated ones, for Save and WriteFavorites; conc: 4-8 goroutines store images of 5 different lengths with ptt.WriteFavorites for one user while a reader reads and loads .fav in a loop; trace+crash: strace on a re-executed saving child, SIGKILL before the k-th write/openat/renameat for every k until the child survives. distinct = distinct op lines; nontrivial = reaches the code under test (not bad-op)"

	if run.Replay != "" {
		for _, l := range hx.ReplayOps(run.Replay) {
			do(l)
		}
		return
	}
	generate()
}
