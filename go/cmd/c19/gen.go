package main

import (
	"fmt"
	"sort"
	"strings"

	"github.com/Ptt-official-app/go-pttbbs/ptt/fav"
	"github.com/Ptt-official-app/go-pttbbs/ptttype"
	"verifharness/internal/hx"
)

// ---- shapes: trees built through the API alone -------------------------------------------------

type shape struct {
	kind byte
	sub  []shape
}

func (s shape) size() int {
	n := 1
	for _, c := range s.sub {
		n += c.size()
	}
	return n
}

func sizeOf(l []shape) int {
	n := 0
	for _, c := range l {
		n += c.size()
	}
	return n
}

// levels(d, m): every entry list of length <= m whose folders hold lists of levels(d-1, m).
func levels(d, m int) [][]shape {
	alphabet := []shape{{kind: 'B'}, {kind: 'L'}}
	if d > 1 {
		for _, sub := range levels(d-1, m) {
			alphabet = append(alphabet, shape{kind: 'F', sub: sub})
		}
	}
	out := [][]shape{{}}
	prev := [][]shape{{}}
	for l := 1; l <= m; l++ {
		var cur [][]shape
		for _, p := range prev {
			for _, a := range alphabet {
				n := make([]shape, len(p)+1)
				copy(n, p)
				n[len(p)] = a
				cur = append(cur, n)
			}
		}
		out = append(out, cur...)
		prev = cur
	}
	return out
}

// materialize: what the API alone produces: FAV attr, ids in order, empty titles; board ids distinct per level.
func materialize(l []shape) []*spec {
	var out []*spec
	bi, li, fi := 0, 0, 0
	for _, s := range l {
		switch s.kind {
		case 'B':
			bi++
			out = append(out, &spec{kind: 'B', attr: 1, bid: uint32(bi)})
		case 'L':
			li++
			out = append(out, &spec{kind: 'L', attr: 1, id: uint8(li)})
		case 'F':
			fi++
			out = append(out, &spec{kind: 'F', attr: 1, id: uint8(fi), title: make([]byte, titleLen), sub: materialize(s.sub)})
		}
	}
	return out
}

// ---- random trees with overwritten fields ----------------------------------------------------------

func randAttr(r *hx.Rand, validOnly bool) uint8 {
	if validOnly {
		if r.Intn(3) == 0 {
			return r.Pick([]byte{3, 5, 9, 255, 129, 7})
		}
		return 1
	}
	switch r.Intn(10) {
	case 0:
		return 0
	case 1:
		return r.Pick([]byte{2, 4, 8, 254, 128})
	case 2:
		return r.Pick([]byte{3, 5, 9, 255, 129, 7})
	case 3:
		return byte(r.U64())
	}
	return 1
}

func randItems(r *hx.Rand, depth, maxItems int, budget *int, poke bool) []*spec {
	return randItemsM(r, depth, maxItems, budget, poke, false)
}

func randItemsM(r *hx.Rand, depth, maxItems int, budget *int, poke, validOnly bool) []*spec {
	n := r.Intn(maxItems + 1)
	var out []*spec
	nl, nf := 0, 0
	bids := r.U64()
	usedB := map[uint32]bool{}
	for i := 0; i < n && *budget > 0; i++ {
		k := r.Intn(3)
		if depth <= 1 && k == 2 {
			k = r.Intn(2)
		}
		it := &spec{attr: 1}
		switch k {
		case 0:
			it.kind = 'B'
			b := uint32(1 + (bids+uint64(r.Intn(ptttype.MAX_BOARD)))%uint64(ptttype.MAX_BOARD))
			if usedB[b] {
				continue
			}
			usedB[b] = true
			it.bid = b
			if poke {
				if r.Bool() {
					it.lv = uint32(r.U64())
				}
				if r.Bool() {
					it.battr = byte(r.U64())
				}
			}
		case 1:
			if nl >= fav.MAX_LINE {
				continue
			}
			nl++
			it.kind = 'L'
			it.id = uint8(nl)
			if poke && r.Intn(3) == 0 {
				it.id = byte(r.U64())
			}
		case 2:
			if nf >= fav.MAX_FOLDER {
				continue
			}
			nf++
			it.kind = 'F'
			it.id = uint8(nf)
			it.title = make([]byte, titleLen)
			if poke {
				if r.Intn(3) == 0 {
					it.id = byte(r.U64())
				}
				switch r.Intn(4) {
				case 0:
					copy(it.title, r.Bytes(titleLen, nil))
				case 1:
					copy(it.title, r.Bytes(r.Intn(titleLen), []byte("abcXYZ \xa4\x40")))
				}
			}
		}
		if poke {
			it.attr = randAttr(r, validOnly)
		}
		*budget--
		if it.kind == 'F' {
			it.sub = randItemsM(r, depth-1, maxItems, budget, poke, validOnly)
		}
		out = append(out, it)
	}
	return out
}

func rep(n int, f func(i int) *spec) []*spec {
	out := make([]*spec, n)
	for i := range out {
		out[i] = f(i)
	}
	return out
}

func line(i int) *spec   { return &spec{kind: 'L', attr: 1, id: uint8(i + 1)} }
func board(i int) *spec  { return &spec{kind: 'B', attr: 1, bid: uint32(i + 1)} }
func folder(i int, sub []*spec) *spec {
	return &spec{kind: 'F', attr: 1, id: uint8(i + 1), title: make([]byte, titleLen), sub: sub}
}
func folderE(i int) *spec { return folder(i, nil) }

func rt(items []*spec) result { return do(strings.TrimSpace("rt " + fmtTree(items))) }

// validImage: the .fav image of a tree of valid entries, written by a reference serialiser of the pttbbs
// format (independent of the code under test; used as the base of the malformed streams and as "old" file).
func validImage(items []*spec) []byte {
	out := le16(int(fav.FAV_VERSION))
	var rec func(items []*spec)
	rec = func(items []*spec) {
		nb, nl, nf := 0, 0, 0
		for _, it := range items {
			switch it.kind {
			case 'B':
				nb++
			case 'L':
				nl++
			case 'F':
				nf++
			}
		}
		out = append(out, le16(nb)...)
		out = append(out, byte(nl), byte(nf))
		li, fi := 0, 0
		for _, it := range items {
			switch it.kind {
			case 'B':
				out = append(out, 1, it.attr, byte(it.bid), byte(it.bid>>8), byte(it.bid>>16), byte(it.bid>>24),
					byte(it.lv), byte(it.lv>>8), byte(it.lv>>16), byte(it.lv>>24), it.battr, 0, 0, 0)
			case 'L':
				li++
				out = append(out, 3, it.attr, byte(li))
			case 'F':
				fi++
				out = append(out, 2, it.attr, byte(fi))
				out = append(out, it.title...)
			}
		}
		for _, it := range items {
			if it.kind == 'F' {
				rec(it.sub)
			}
		}
	}
	rec(items)
	return out
}

func le16(v int) []byte { return []byte{byte(v), byte(v >> 8)} }

func cat(bs ...[]byte) []byte {
	var out []byte
	for _, b := range bs {
		out = append(out, b...)
	}
	return out
}

func generate() {
	r := run.R
	th := run.Thorough()

	// ---- (1) exhaustive small API-only trees, smallest first
	var all [][]shape
	all = append(all, levels(3, 2)...)
	all = append(all, levels(2, 3)...)
	if th {
		all = append(all, levels(2, 4)...)
	}
	sort.SliceStable(all, func(i, j int) bool { return sizeOf(all[i]) < sizeOf(all[j]) })
	seen := map[string]bool{}
	for _, l := range all {
		t := fmtTree(materialize(l))
		if seen[t] {
			continue
		}
		seen[t] = true
		do(strings.TrimSpace("rt " + t))
	}

	// ---- (1b) small trees with one entry lacking the FAV bit / one overwritten id, smallest first
	small2 := levels(2, 2)
	sort.SliceStable(small2, func(i, j int) bool { return sizeOf(small2[i]) < sizeOf(small2[j]) })
	for _, l := range small2 {
		n := sizeOf(l)
		for pos := 0; pos < n; pos++ {
			for _, mode := range []int{0, 1, 2} {
				items := materialize(l)
				k := 0
				touched := false
				var walk func(items []*spec)
				walk = func(items []*spec) {
					for _, it := range items {
						if k == pos {
							switch mode {
							case 0:
								it.attr = 0
								touched = true
							case 1:
								it.attr = 2
								touched = true
							case 2:
								if it.kind != 'B' {
									it.id = 77
									touched = true
								}
							}
						}
						k++
						walk(it.sub)
					}
				}
				walk(items)
				if touched {
					rt(items)
				}
			}
		}
	}
	// overwritten root counters: the branches where WriteFavrec / rebuildFav fault or cut the slice (not judged)
	for _, c := range [][3]int{{0, 0, 0}, {1, 0, 0}, {2, 1, 1}, {5, 0, 0}, {3, 1, 1}, {65535, 0, 0}, {0, 255, 0}, {0, 128, 0}, {1, 0, 255}, {32767, 127, 127}, {2, 1, 0}} {
		for _, t := range [][]*spec{{}, {board(0), line(0), folder(0, []*spec{board(1)})}, {board(0), {kind: 'L', attr: 0, id: 1}, folderE(0)}} {
			do(strings.TrimSpace(fmt.Sprintf("rtp %d %d %d %s", c[0], c[1], c[2], fmtTree(t))))
		}
	}
	for i := 0; i < 60; i++ {
		budget := 12
		do(strings.TrimSpace(fmt.Sprintf("rtp %d %d %d %s", r.Intn(6), r.Intn(4), r.Intn(4), fmtTree(randItems(r, 3, 4, &budget, i%2 == 0)))))
	}

	// ---- (2) random larger trees
	nRand := 250
	if th {
		nRand = 6000
	}
	for i := 0; i < nRand; i++ {
		budget := 5 + r.Intn(120)
		maxItems := 1 + r.Intn(12)
		if i%10 == 0 {
			budget = 200 + r.Intn(800)
			maxItems = 40
		}
		rt(randItemsM(r, 1+r.Intn(6), maxItems, &budget, i%4 != 0, i%4 == 1))
	}
	// a few single-level trees where only some entries lack the FAV bit (cleanup + compaction)
	for i := 0; i < 40; i++ {
		budget := 30
		items := randItems(r, 3, 8, &budget, false)
		var flat []*spec
		var walk func(items []*spec)
		walk = func(items []*spec) {
			for _, it := range items {
				flat = append(flat, it)
				walk(it.sub)
			}
		}
		walk(items)
		if len(flat) == 0 {
			continue
		}
		for j := 0; j <= r.Intn(3); j++ {
			flat[r.Intn(len(flat))].attr = r.Pick([]byte{0, 2, 254})
		}
		rt(items)
	}

	// ---- (3) the limits of the API
	ML, MF, MB := fav.MAX_LINE, fav.MAX_FOLDER, int(ptttype.MAX_BOARD)
	rt(rep(ML, line))
	rt(rep(ML+1, line))
	rt(rep(MF, folderE))
	rt(rep(MF+1, folderE))
	rt(rep(127, folderE))
	rt(rep(128, folderE))
	rt(rep(129, folderE))
	rt(rep(256, folderE))
	rt(append(rep(ML, line), folderE(0)))
	rt(append(rep(MF, folderE), line(0)))
	rt(cat3(rep(MF, folderE), rep(ML, line), rep(MB, board)))
	// the quotas are per folder: the same bounds inside nested folders (depth 1 and 2) while the root holds few,
	// and a full root must not stop a nested folder
	for _, n := range []int{63, 64, 65, 127, 128, 129} {
		for _, mk := range []func(int) []*spec{func(n int) []*spec { return rep(n, line) }, func(n int) []*spec { return rep(n, folderE) }} {
			rt([]*spec{folder(0, mk(n))})
			rt([]*spec{board(0), folder(0, []*spec{line(0), folder(0, mk(n)), board(0)}), line(0)})
		}
	}
	rt(append(rep(ML, line), folder(0, rep(ML, line))))
	rt(append(rep(MF, folderE), folder(MF, nil))[:MF])
	rt(append([]*spec{folder(0, rep(MF, folderE))}, rep(MF-1, func(i int) *spec { return folderE(i + 1) })...))
	rt([]*spec{folder(0, []*spec{folder(0, rep(ML, line)), folder(1, rep(ML+1, line))})})
	rt([]*spec{board(-1)})
	rt([]*spec{board(MB - 1)})
	rt([]*spec{board(MB)})
	rt([]*spec{board(0), board(1), board(0)})
	rt([]*spec{folder(0, []*spec{board(0)}), board(0)}) // same board on two levels is no duplicate
	{
		// MAX_FAV entries in all: 10 folders of MAX_BOARD boards + filler, then one more
		var items []*spec
		n := 0
		for f := 0; n+1+MB <= fav.MAX_FAV && f < MF; f++ {
			items = append(items, folder(f, rep(MB, board)))
			n += 1 + MB
		}
		fill := fav.MAX_FAV - n
		if fill > ML {
			fill = ML
		}
		items = append(items, rep(fill, line)...)
		n += fill
		for b := 0; n < fav.MAX_FAV && b < MB; b++ {
			items = append(items, board(b))
			n++
		}
		rt(items)
		if n == fav.MAX_FAV {
			last := items[0]
			last.sub = append(last.sub[:len(last.sub):len(last.sub)], folderE(0))
			rt(items)
			last.sub = last.sub[:len(last.sub)-1]
			rt(append(items, folderE(len(items))))
		}
	}
	{
		// a chain of nested folders
		d := 40
		if th {
			d = 300
		}
		var items []*spec
		for i := 0; i < d; i++ {
			items = []*spec{folder(0, items), board(0)}
		}
		rt(items)
	}

	// ---- (4) arbitrary bytes as .fav
	ver := le16(int(fav.FAV_VERSION))
	boardEnt := []byte{1, 1, 5, 0, 0, 0, 9, 0, 0, 0, 3, 0, 0, 0}
	lineEnt := []byte{3, 1, 1}
	folderEnt := cat([]byte{2, 1, 1}, make([]byte, titleLen))
	bodies := [][]byte{{}, boardEnt, lineEnt, cat(folderEnt, []byte{0, 0, 0, 0}), {1}, boardEnt[:11], cat(lineEnt, lineEnt, boardEnt), r.Bytes(20, nil)}
	for _, nb := range []int{-32768, -1, 0, 1, 2, 32767} {
		for _, nl := range []int{-128, -1, 0, 1, 127} {
			for _, nf := range []int{-128, -1, 0, 1, 127} {
				for _, body := range bodies {
					do("load " + hx.Hex(cat(ver, le16(nb), []byte{byte(nl), byte(nf)}, body)))
				}
			}
		}
	}
	// sums that leave int16
	for _, h := range [][3]int{{32767, 1, 0}, {32767, 0, 1}, {32700, 127, 127}, {32513, 127, 127}, {32514, 127, 127}, {32767, 127, 127}} {
		do("load " + hx.Hex(cat(ver, le16(h[0]), []byte{byte(h[1]), byte(h[2])}, boardEnt)))
	}
	// every type byte
	for t := 0; t < 256; t++ {
		do("load " + hx.Hex(cat(ver, le16(1), []byte{0, 0, byte(t), 1}, boardEnt[2:], make([]byte, 40))))
	}
	// header counts that disagree with the entry types (accepted by the loader as it is)
	do("load " + hx.Hex(cat(ver, le16(2), []byte{0, 0}, lineEnt, lineEnt)))
	do("load " + hx.Hex(cat(ver, le16(0), []byte{1, 1}, boardEnt, boardEnt)))
	do("load " + hx.Hex(cat(ver, le16(1), []byte{0, 0}, folderEnt, le16(0), []byte{1, 0}, lineEnt)))
	do("load " + hx.Hex(cat([]byte{0, 0}, le16(1), []byte{0, 0}, boardEnt))) // version word is not checked
	// very long counts with a short body, and many lines (int8 line ids wrap)
	do("load " + hx.Hex(cat(ver, le16(300), []byte{0, 0}, repeatBytes(lineEnt, 300))))
	do("load " + hx.Hex(cat(ver, le16(300), []byte{0, 0}, repeatBytes(lineEnt, 299))))
	// deep nesting
	{
		d := 300
		if th {
			d = 3000
		}
		var b []byte
		b = append(b, ver...)
		for i := 0; i < d; i++ {
			b = append(b, 0, 0, 0, 1)
			b = append(b, folderEnt...)
		}
		do("load " + hx.Hex(cat(b, []byte{0, 0, 0, 0})))
		do("load " + hx.Hex(b))
	}
	// valid files: every truncation, trailing bytes, single-byte corruption
	bases := [][]*spec{
		{board(2), line(0), folder(0, []*spec{board(4), folder(0, []*spec{line(0)}), line(0)}), board(6)},
		{folderE(0), folderE(1)},
		{board(0)},
		{},
	}
	if th {
		for i := 0; i < 6; i++ {
			budget := 40
			bases = append(bases, randItems(r, 4, 6, &budget, false))
		}
	}
	for _, base := range bases {
		img := validImage(base)
		for l := 0; l <= len(img); l++ {
			do("load " + hx.Hex(img[:l]))
		}
		do("load " + hx.Hex(cat(img, []byte{1, 2, 3})))
		nc := 300
		if th {
			nc = 4000
		}
		for i := 0; i < nc && len(img) > 0; i++ {
			c := append([]byte{}, img...)
			p := r.Intn(len(c))
			switch r.Intn(3) {
			case 0:
				c[p] = byte(r.U64())
			case 1:
				c[p] ^= 1 << uint(r.Intn(8))
			default:
				c[p] = r.Pick([]byte{0, 1, 2, 3, 4, 127, 128, 255})
			}
			do("load " + hx.Hex(c))
		}
	}
	nRB := 1500
	if th {
		nRB = 30000
	}
	for i := 0; i < nRB; i++ {
		var b []byte
		switch r.Intn(3) {
		case 0:
			b = r.Bytes(r.Intn(120), nil)
		case 1:
			b = cat(ver, r.Bytes(r.Intn(200), []byte{0, 0, 0, 1, 1, 2, 3, 3, 255}))
		default:
			b = cat(ver, []byte{byte(r.Intn(4)), 0, byte(r.Intn(3)), byte(r.Intn(3))}, r.Bytes(r.Intn(200), []byte{0, 0, 0, 0, 1, 1, 1, 2, 3, 3}))
		}
		do("load " + hx.Hex(b))
	}

	// ---- (5) checkIsToSave
	for _, c := range [][2]string{{"none", "0"}, {"none", "77"}, {"1000000100", "1000000101"}, {"1000000100", "1000000100"}, {"1000000100", "1000000099"}, {"1000000100", "0"}, {"5", "2147483647"}} {
		do("mt " + c[0] + " " + c[1])
	}
	for i := 0; i < 20; i++ {
		a := 1000000000 + r.Intn(50)
		b := 1000000000 + r.Intn(50)
		do(fmt.Sprintf("mt %d %d", a, b))
	}

	// ---- (5a) the byte-level pair WriteFavorites / GetFavorites, up to the largest legal file
	{
		wgt := func(items []*spec) { do(strings.TrimSpace("wgt " + fmtTree(items))) }
		// boundary-size trees: MAX_FAV entries in all
		var maxTree []*spec // 16 folders of 63 folders: 1024 folder entries, the largest legal file
		for i := 0; i < 16; i++ {
			maxTree = append(maxTree, folder(i, rep(63, folderE)))
		}
		wgt(maxTree)
		var tenByHundred []*spec
		for i := 0; i < 10; i++ {
			tenByHundred = append(tenByHundred, folder(i, rep(MB, board)))
		}
		wgt(append(tenByHundred, rep(fav.MAX_FAV-10*(MB+1), line)...)) // 1024 entries
		var sixtyFour []*spec
		for i := 0; i < 64; i++ {
			sixtyFour = append(sixtyFour, folder(i, rep(15, board)))
		}
		wgt(sixtyFour)
		wgt([]*spec{folder(0, rep(MB, board)), board(0)})
		wgt(nil)
		// one folder more / fewer around the 14342-byte mark: k folders of 100 boards
		for k := 9; k <= 11; k++ {
			var t []*spec
			for i := 0; i < k && (i+1)*(MB+1) <= fav.MAX_FAV; i++ {
				t = append(t, folder(i, rep(MB, board)))
			}
			wgt(t)
		}
		nBig := 4
		if th {
			nBig = 60
		}
		for i := 0; i < nBig; i++ {
			budget := 700 + r.Intn(325)
			wgt(randItemsM(r, 2+r.Intn(4), 64, &budget, i%2 == 0, true))
		}
		// raw contents of every interesting length
		lens := []int{0, 1, 20, 4096, 14341, 14342, 14343, 14384, 17030, 32768, 57349, 57350, 57351, 100000}
		if th {
			for i := 0; i < 40; i++ {
				lens = append(lens, r.Intn(60000))
			}
		}
		for _, n := range lens {
			do("wg 0 " + hx.Hex(r.Bytes(n, nil)))
		}
		small := hx.Hex(validImage([]*spec{board(0), line(0)}))
		for _, ts := range []int{0, 5, fileMTime - 1, fileMTime, fileMTime + 1, 2147483647} {
			do(fmt.Sprintf("wg %d %s", ts, small))
			do(fmt.Sprintf("wg %d none", ts))
		}
	}

	// ---- (5d) the legacy .fav4 migration: boards and lines, removed entries at every position
	{
		f4 := func(items []*spec) { do(strings.TrimSpace("fav4t " + fmtTree(items))) }
		for _, l := range levels(1, 3) {
			n := len(l)
			f4(materialize(l))
			for pos := 0; pos < n; pos++ {
				for _, a := range []uint8{0, 2} {
					items := materialize(l)
					items[pos].attr = a
					f4(items)
				}
			}
		}
		nR := 40
		if th {
			nR = 1500
		}
		for i := 0; i < nR; i++ {
			budget := 60
			f4(randItemsM(r, 1, 1+r.Intn(30), &budget, true, false))
		}
		// recorded, not judged: a folder entry cannot be migrated; no count guard on this path
		f4([]*spec{board(0), folderE(0), line(0)})
		f4([]*spec{folder(0, []*spec{board(0)})})
		base := validImage([]*spec{board(0), {kind: 'B', attr: 0, bid: 2}, line(0), board(2)})[2:]
		for l := 0; l <= len(base); l++ {
			do("fav4 " + hx.Hex(base[:l]))
		}
		for _, h := range [][]byte{{0xff, 0xff, 0, 0}, {0, 0, 0xff, 0}, {0, 0x80, 0, 0}, {1, 0, 0x7f, 0x7f}} {
			do("fav4 " + hx.Hex(h))
		}
	}

	// ---- (5c) write errors in the middle of a save: EFBIG at every offset of the new image
	{
		titled := func(i int, title string, sub []*spec) *spec {
			f := folder(i, sub)
			copy(f.title, title)
			return f
		}
		trees := [][]*spec{
			// boards first, then only folders / titles / lines up to the end of the file
			{board(0), board(1), board(2), titled(0, "alpha", []*spec{line(0)}), titled(1, "beta", []*spec{line(0)}), titled(2, "gamma", nil)},
			{line(0), titled(0, "only folders and lines", []*spec{titled(0, "x", []*spec{line(0), line(1)})}), line(1)},
		}
		if th {
			trees = append(trees,
				[]*spec{titled(0, "t", []*spec{board(0)}), line(0), board(0)},
				[]*spec{},
				[]*spec{board(0), board(1), board(2), titled(0, "a", []*spec{line(0)}), titled(1, "b", []*spec{line(0)}), titled(2, "c", []*spec{line(0)}), titled(3, "d", []*spec{line(0)}), titled(4, "e", []*spec{line(0)}), titled(5, "f", []*spec{line(0)})},
			)
			for i := 0; i < 6; i++ {
				budget := 25
				trees = append(trees, randItemsM(r, 3, 5, &budget, true, true))
			}
		}
		olds := []string{oldImgHex(), "none"}
		for ti, t := range trees {
			img := validImage(t)
			payload := strings.Fields(fmtTree(t))
			old := olds[ti%2]
			if err := efbigRun("save", 0, len(img)+1, old, payload); err != nil {
				run.Note(err.Error())
			}
			for lim := 0; lim <= len(img)+1; lim++ {
				do(strings.TrimSpace(fmt.Sprintf("efbig save %d %s %s", lim, old, fmtTree(t))))
			}
		}
		contents := [][]byte{validImage(trees[0]), r.Bytes(300, nil)}
		if th {
			contents = append(contents, r.Bytes(5000, nil), []byte{1})
		}
		for ci, c := range contents {
			old := olds[ci%2]
			step := 1
			if len(c) > 1000 {
				step = 37
			}
			if err := efbigRun("wf", 0, len(c)+1, old, []string{hx.Hex(c)}); err != nil {
				run.Note(err.Error())
			}
			for lim := 0; lim <= len(c)+1; lim += step {
				do(fmt.Sprintf("efbig wf %d %s %s", lim, old, hx.Hex(c)))
			}
		}
		efbigCache = map[string]string{}
	}

	// ---- (5b) overlapping saves of one user's favourites
	{
		n, ms := 2, 600
		if th {
			n, ms = 8, 2000
		}
		for i := 0; i < n; i++ {
			do(fmt.Sprintf("conc %d %d %d", 4+4*(i%2), ms, r.Intn(1000)))
		}
	}

	// ---- (6) system-call shape and kill points
	type crashCase struct {
		target, old, payload string
	}
	small := []*spec{board(2), line(0), folder(0, []*spec{board(3)})}
	oldImg := hx.Hex(validImage([]*spec{board(0), board(1)}))
	cases := []crashCase{
		{"save", oldImg, fmtTree(small)},
		{"wf", oldImg, hx.Hex(validImage(small))},
	}
	if th {
		var big []*spec
		for n := 0; n < 40; {
			budget := 60
			big = randItems(r, 4, 8, &budget, false)
			n = 60 - budget
		}
		cases = append(cases,
			crashCase{"save", "none", fmtTree(small)},
			crashCase{"save", hx.Hex(validImage(small)), fmtTree(big)},
			crashCase{"save", oldImg, ""},
			crashCase{"wf", "none", hx.Hex(r.Bytes(5000, nil))},
			crashCase{"wf", hx.Hex(r.Bytes(30000, nil)), hx.Hex(r.Bytes(60000, nil))},
			crashCase{"wf", oldImg, "00"},
		)
	}
	for _, c := range cases {
		res := do(strings.TrimSpace("trace " + c.target + " " + c.payload))
		if res.out == "child-failed" {
			continue
		}
		for _, sc := range []string{"renameat", "write", "openat"} {
			for k := 1; k <= 400; k++ {
				lastSurvived = false
				res := do(strings.TrimSpace(fmt.Sprintf("crash %s %s %d %s %s", c.target, sc, k, c.old, c.payload)))
				if lastSurvived || res.out == "child-failed" {
					break
				}
			}
		}
	}
}

func cat3(a, b, c []*spec) []*spec {
	var out []*spec
	out = append(out, a...)
	out = append(out, b...)
	out = append(out, c...)
	return out
}

func repeatBytes(b []byte, n int) []byte {
	var out []byte
	for i := 0; i < n; i++ {
		out = append(out, b...)
	}
	return out
}

func oldImgHex() string { return hx.Hex(validImage([]*spec{board(0), board(1)})) }
